(* C13 — Bootstrap register accessors follow the U3V register tables.  Statements only; proofs in
   proofs/P_C13.v.

   Model: model/RegMap.v (cameleon/src/u3v/register_map.rs after the "fix:" commits 54740da, 814d26f,
   85342f7, fff5796, 29d7437) over the register tables gen/RegTables.v, regenerated from
   device/src/u3v/register_map.rs on every run.  Specification: spec/U3VTables.v (GenCP / USB3 Vision
   tables and field layouts typed in by hand, div / mod arithmetic).

   Vocabulary (P_C13.v): [mem_ok m] every cell is a byte; [reg_addr map base off] the address of a
   register (ABRM at 0, other maps at base + off); [in_space map base reg] the register ends at or
   below 2^64; [gate_open g c] the capability bit of an optional register is set in the struct's
   capability word; [logged d x] the device after one more access x (memory unchanged);
   [reg_bytes m map base reg] the register's bytes in the image.  A device [d] is any memory image
   (total function from addresses to bytes) with any access log, access counter and planned failure. *)
From Cam Require Import Outcome Bytes Mem U3VTables RegTables RegMap P_C13.

(* the regenerated (offset, length) tables are the standard's tables *)
Theorem C13_tables_match :
  abrm_table = std_abrm /\ sbrm_table = std_sbrm /\ eirm_table = std_eirm /\ sirm_table = std_sirm /\
  manifest_entry_table = std_manifest_entry.
Proof. exact tables_match. Qed.
Print Assumptions C13_tables_match.

(* registers of one map have positive length and do not overlap *)
Theorem C13_no_overlap : forall t,
  In t [abrm_table; sbrm_table; eirm_table; sirm_table; manifest_entry_table] ->
  forall i j r1 r2, i <> j -> nth_error t i = Some r1 -> nth_error t j = Some r2 ->
    0 < snd r1 /\ (fst r1 + snd r1 <= fst r2 \/ fst r2 + snd r2 <= fst r1).
Proof. exact no_overlap. Qed.
Print Assumptions C13_no_overlap.

(* every getter (42 of them) performs exactly one device access: a read of exactly the register the
   standard assigns to it, a member of the standard's table of its map, at base + offset, of the
   register's length; the memory is not modified *)
Theorem C13_accessor_ranges : forall g c d,
  gate_open g c -> rd_count d <> rd_fail d ->
  in_space (fst (std_getter_reg g)) (c_base c) (snd (std_getter_reg g)) ->
  In (snd (std_getter_reg g)) (std_table (fst (std_getter_reg g))) /\
  snd (run_get g c d) =
    logged d (RdAcc (reg_addr (fst (std_getter_reg g)) (c_base c) (fst (snd (std_getter_reg g))))
                    (snd (snd (std_getter_reg g)))).
Proof. exact accessor_ranges. Qed.
Print Assumptions C13_accessor_ranges.

(* no accessor, constructor, derived accessor or setter panics: for every memory image (bytes or
   not), every base address (the checked address arithmetic turns an overflow into an error), every
   capability word, every planned device failure, every argument *)
Theorem C13_decoders_total : forall c d,
  (forall g, fst (run_get g c d) <> Panic) /\
  (forall s, fst (run_set s c d) <> Panic) /\
  fst (abrm_new d) <> Panic /\ (forall base, fst (sbrm_new base d) <> Panic) /\
  fst (abrm_sbrm c d) <> Panic /\ fst (abrm_manifest_table c d) <> Panic /\
  fst (sbrm_sirm c d) <> Panic /\ fst (entries c d) <> Panic.
Proof. exact no_panics. Qed.
Print Assumptions C13_decoders_total.

(* the value returned is the standard's decoding of the register's bytes (16-bit version fields,
   ms, single-bit speed, NUL-terminated UTF-8 strings, file type / format / schema, hash), wrapped in
   Some for optional registers; invalid enumerants, malformed strings, unusable alignments are Err *)
Theorem C13_decoders_spec : forall g c d,
  mem_ok (rd_mem d) -> gate_open g c -> rd_count d <> rd_fail d ->
  in_space (fst (std_getter_reg g)) (c_base c) (snd (std_getter_reg g)) ->
  fst (run_get g c d) =
    spec_wrap g (spec_decode (std_kind g)
                   (reg_bytes (rd_mem d) (fst (std_getter_reg g)) (c_base c) (snd (std_getter_reg g)))).
Proof. exact decoders_spec. Qed.
Print Assumptions C13_decoders_spec.

(* strings: until_nul is the prefix before the first NUL (the whole register when there is none);
   utf8_valid (the model of std::str::from_utf8 succeeding) accepts exactly the UTF-8 encodings of
   sequences of Unicode scalar values *)
Theorem C13_string_spec : forall bs,
  (has_nul (until_nul bs) = false /\
   (bs = until_nul bs \/ exists rest, bs = until_nul bs ++ 0 :: rest)) /\
  (utf8_valid bs = true <-> exists cps, Forall scalar cps /\ bs = flat_map utf8_encode cps).
Proof. exact string_spec. Qed.
Print Assumptions C13_string_spec.

(* optional registers: capability bit clear => Ok None and the device is not touched; the setter of
   an unsupported user defined name does nothing *)
Theorem C13_optional_gated : forall g c d b,
  std_getter_gate g = Some b -> spec_bit (c_cap c) b = false -> run_get g c d = (Ok VNone, d).
Proof. exact optional_gated. Qed.
Print Assumptions C13_optional_gated.

Theorem C13_optional_setter_gated : forall n c d,
  spec_bit (c_cap c) CAP_USER_DEFINED_NAME = false -> run_set (SUserDefinedName n) c d = (Ok tt, d).
Proof. exact name_gated. Qed.
Print Assumptions C13_optional_setter_gated.

(* the constructors read exactly the capability registers; the capability observers are the
   standard's bits *)
Theorem C13_constructors : forall d, rd_count d <> rd_fail d ->
  abrm_new d = (Ok {| c_base := 0; c_cap := of_le (mread (rd_mem d) 0x1C4 8) |}, logged d (RdAcc 0x1C4 8)) /\
  (forall base, base + 12 <= 2 ^ 64 ->
     sbrm_new base d = (Ok {| c_base := base; c_cap := of_le (mread (rd_mem d) (base + 4) 8) |},
                        logged d (RdAcc (base + 4) 8))) /\
  (forall c,
     device_capability_bits c =
       map (spec_bit (c_cap c)) [CAP_USER_DEFINED_NAME; CAP_FAMILY_NAME; CAP_MULTI_EVENT; CAP_STACKED_COMMANDS;
                                 CAP_DEVICE_SOFTWARE_INTERFACE_VERSION] /\
     u3v_capability_bits c = map (spec_bit (c_cap c)) [U3VCAP_SIRM; U3VCAP_EIRM; U3VCAP_IIDC2]).
Proof. exact constructors. Qed.
Print Assumptions C13_constructors.

(* ManifestTable::entries: when it succeeds with count n, entry i < n is the 64-byte record at
   base + 8 + 64 i, and computing that address does not overflow (entry_addr_v0 is the iterator's
   overflow-checked arithmetic) *)
Theorem C13_manifest_entries : forall c d n first d', 0 <= c_base c -> entries c d = (Ok (n, first), d') ->
  first = c_base c + std_manifest_first_entry /\
  forall i, 0 <= i < n ->
    c_base (entry_ctx first i) = c_base c + std_manifest_first_entry + std_manifest_entry_size * i /\
    entry_addr_v0 first i = Ok (c_base (entry_ctx first i)).
Proof. exact entries_layout. Qed.
Print Assumptions C13_manifest_entries.

(* setters: an acceptable argument is written as the little-endian image of exactly the standard's
   register (one write, nothing else changes), and the paired getter on the resulting device returns
   the value written *)
Theorem C13_setter_getter : forall s c d,
  setter_arg_ok s = true -> setter_gate_open s c ->
  rd_count d <> rd_fail d -> rd_count d + 1 <> rd_fail d ->
  in_space (fst (std_setter_reg s)) (c_base c) (snd (std_setter_reg s)) ->
  exists d1,
    run_set s c d = (Ok tt, d1) /\
    rd_log d1 = WrAcc (reg_addr (fst (std_setter_reg s)) (c_base c) (fst (snd (std_setter_reg s))))
                      (std_setter_image s) :: rd_log d /\
    zlen (std_setter_image s) = snd (snd (std_setter_reg s)) /\
    (forall x, x < reg_addr (fst (std_setter_reg s)) (c_base c) (fst (snd (std_setter_reg s))) \/
               reg_addr (fst (std_setter_reg s)) (c_base c) (fst (snd (std_setter_reg s)))
                 + snd (snd (std_setter_reg s)) <= x -> rd_mem d1 x = rd_mem d x) /\
    match std_setter_getter s with
    | Some (g, v) => std_getter_reg g = std_setter_reg s /\ fst (run_get g c d1) = Ok v
    | None => True
    end.
Proof. exact setter_getter. Qed.
Print Assumptions C13_setter_getter.

(* a name that is not ASCII, contains a NUL or does not fit is refused without touching the device *)
Theorem C13_name_refused : forall n c d,
  is_ascii n && negb (has_nul n) && (zlen n <=? 64) = false -> spec_bit (c_cap c) CAP_USER_DEFINED_NAME = true ->
  run_set (SUserDefinedName n) c d = (Err CE_INVALID_DATA, d).
Proof. exact name_refused. Qed.
Print Assumptions C13_name_refused.

(* DeviceConfiguration: the observer is the standard's multi-event bit; set / disable change exactly
   that bit and stay within u64 (so C13_setter_getter applies to the modified word) *)
Theorem C13_config_bits : forall w, 0 <= w < 2 ^ 64 ->
  cfg_is_multi_event_enabled w = spec_bit w CFG_MULTI_EVENT_ENABLE /\
  (let s := cfg_set_multi_event_enable_bit w in
   0 <= s < 2 ^ 64 /\ forall k, 0 <= k -> spec_bit s k = if k =? CFG_MULTI_EVENT_ENABLE then true else spec_bit w k) /\
  (let u := cfg_disable_multi_event w in
   0 <= u < 2 ^ 64 /\ forall k, 0 <= k -> spec_bit u k = if k =? CFG_MULTI_EVENT_ENABLE then false else spec_bit w k).
Proof. exact config_bits. Qed.
Print Assumptions C13_config_bits.

(* ---- the pinned code violated the property (witnesses replayed on the real code, see notes/C13.md) ---- *)

(* version fields were masked to 8 bits: GenCP/U3V 256.256 read as 0.0, file sub-minor 256 as 0 *)
Theorem C13_version_v0_refuted :
  decode_ver32_v0 [0; 1; 0; 1] = Ok (VVer 0 0 0) /\ spec_decode KVersion32 [0; 1; 0; 1] = Ok (VVer 256 256 0) /\
  decode_filever_v0 [0; 1; 2; 3] = Ok (VVer 3 2 0) /\ spec_decode KFileVersion [0; 1; 2; 3] = Ok (VVer 3 2 256).
Proof. exact version_v0_refuted. Qed.
Print Assumptions C13_version_v0_refuted.

(* the name "a\0b" was accepted and read back as "a" *)
Theorem C13_name_v0_refuted :
  exists c d d1, setter_gate_open (SUserDefinedName [97; 0; 98]) c /\
    run_set_with true (SUserDefinedName [97; 0; 98]) c d = (Ok tt, d1) /\
    fst (run_get GUserDefinedName c d1) = Ok (VSome (VStr [97])).
Proof. exact name_v0_refuted. Qed.
Print Assumptions C13_name_v0_refuted.

(* SI_INFO with alignment exponent 64 panicked *)
Theorem C13_alignment_v0_refuted : decode_align_v0 [0; 0; 0; 64] = Panic.
Proof. exact alignment_v0_refuted. Qed.
Print Assumptions C13_alignment_v0_refuted.

(* an SBRM at 2^64 - 1, or the second entry of a manifest table at 2^64 - 16, panicked *)
Theorem C13_address_v0_refuted :
  reg_address_v0 SBRM 18446744073709551615 4 = Panic /\ entry_addr_v0 (18446744073709551615 - 7) 1 = Panic.
Proof. exact address_v0_refuted. Qed.
Print Assumptions C13_address_v0_refuted.

(* ---- TIE TO THE SOURCE CODE: the bit-level decoders, translated -------------------------------------------------
   gen/DecodersSrc.v is regenerated on every run by tools/translate_decoders.py from cameleon/src/u3v/register_map.rs
   (typed mini-Rust parser tools/minirust.py, debug-build semantics of lib/RustInt.v: a shift panics when the amount
   is not below the width of the shifted type, overflow panics, checked_add reports it).  A translated getter src_<fn>
   takes the u32 register word that `self.read_register(device, <mod>::<REG>)?` has returned; src_<fn>_map / src_<fn>_reg
   are the impl block and the table constant of that read.  [u32 w] is 0 <= w < 2^32; statements without a range
   hypothesis hold for every integer, in particular for every value of the Rust type.  proofs/P_C13s.v. *)
From Cam Require Import DecodersSrc P_C13s.

(* the five decoding getters read the register, and are paired with the decoder, that the model says *)
Theorem C13_getters_from_source :
  getter_desc GGencpVersion =
    {| g_map := src_gencp_version_map; g_reg := src_gencp_version_reg; g_dec := DVer32; g_gate := None |} /\
  getter_desc GU3vVersion =
    {| g_map := src_u3v_version_map; g_reg := src_u3v_version_reg; g_dec := DVer32; g_gate := None |} /\
  getter_desc GGenicamFileVersion =
    {| g_map := src_genicam_file_version_map; g_reg := src_genicam_file_version_reg; g_dec := DFileVer; g_gate := None |} /\
  getter_desc GPayloadSizeAlignment =
    {| g_map := src_payload_size_alignment_map; g_reg := src_payload_size_alignment_reg; g_dec := DAlign; g_gate := None |} /\
  getter_desc GIsStreamEnable =
    {| g_map := src_is_stream_enable_map; g_reg := src_is_stream_enable_reg; g_dec := DBool0; g_gate := None |}.
Proof. exact getters_from_source. Qed.
Print Assumptions C13_getters_from_source.

(* Abrm::gencp_version, Sbrm::u3v_version: 16-bit major / minor, and [decode DVer32] is the translated code applied to
   the parsed word ([ver_val] reads the triple of semver::Version::new as a VVer) *)
Theorem C13_version32_from_source :
  (forall w, src_gencp_version w = Ok (Z.land (Z.shiftr w 16) 65535, Z.land w 65535, 0)) /\
  (forall w, src_u3v_version w = Ok (Z.land (Z.shiftr w 16) 65535, Z.land w 65535, 0)) /\
  (forall bs, decode DVer32 bs = let? w := parse_uint 4 bs in ver_val (src_gencp_version w)) /\
  (forall bs, decode DVer32 bs = let? w := parse_uint 4 bs in ver_val (src_u3v_version w)).
Proof. exact version32_from_source. Qed.
Print Assumptions C13_version32_from_source.

(* ManifestEntry::genicam_file_version: 8 / 8 / 16 bits *)
Theorem C13_file_version_from_source :
  (forall w, src_genicam_file_version w = Ok (Z.land (Z.shiftr w 24) 255, Z.land (Z.shiftr w 16) 255, Z.land w 65535)) /\
  (forall bs, decode DFileVer bs = let? w := parse_uint 4 bs in ver_val (src_genicam_file_version w)).
Proof. exact file_version_from_source. Qed.
Print Assumptions C13_file_version_from_source.

(* Sirm::payload_size_alignment: `si_info >> 24_i32` never panics on a u32, `1 << exp` is evaluated in usize only for
   exp < 32, where it is 2^exp; an exponent of 32 or more is Err InvalidDevice - never a panic *)
Theorem C13_alignment_from_source :
  (forall w, u32 w -> src_payload_size_alignment w =
     (if 32 <=? Z.shiftr w 24 then Err CE_INVALID_DEVICE else Ok (Z.shiftl 1 (Z.shiftr w 24)))) /\
  (forall bs w, parse_uint 4 bs = Ok w -> u32 w -> decode DAlign bs = omap VInt (src_payload_size_alignment w)) /\
  (forall bs, bytes_ok bs -> decode DAlign bs = let? w := parse_uint 4 bs in omap VInt (src_payload_size_alignment w)).
Proof. exact alignment_from_source. Qed.
Print Assumptions C13_alignment_from_source.

(* Sirm::is_stream_enable *)
Theorem C13_stream_enable_from_source :
  (forall w, src_is_stream_enable w = Ok (Z.land w 1 =? 1)) /\
  (forall bs, decode DBool0 bs = let? w := parse_uint 4 bs in omap VBool (src_is_stream_enable w)).
Proof. exact stream_enable_from_source. Qed.
Print Assumptions C13_stream_enable_from_source.

(* GenICamFileInfo::{file_type, compression_type, schema_version}: [decode DFileInfo] is the three translated
   functions applied to the parsed word *)
Theorem C13_file_info_from_source :
  (forall w, src_file_type w = enum2 (Z.land w 7)) /\
  (forall w, src_compression_type w = enum2 (Z.land (Z.shiftr w 10) 63)) /\
  (forall w, src_schema_version w = Ok (Z.land (Z.shiftr w 24) 255, Z.land (Z.shiftr w 16) 255, 0)) /\
  (forall bs, decode DFileInfo bs = let? w := parse_uint 4 bs in file_info_val w).
Proof. exact file_info_from_source. Qed.
Print Assumptions C13_file_info_from_source.

(* is_bit_set! / set_bit! / unset_bit! (bodies parsed and expanded by the translator) in DeviceConfiguration *)
Theorem C13_config_from_source : forall w,
  src_cfg_is_multi_event_enabled w = Ok (cfg_is_multi_event_enabled w) /\
  src_cfg_set_multi_event_enable_bit w = Ok (cfg_set_multi_event_enable_bit w) /\
  src_cfg_disable_multi_event w = Ok (cfg_disable_multi_event w).
Proof. exact config_from_source. Qed.
Print Assumptions C13_config_from_source.

(* ... in DeviceCapability and U3VCapablitiy: the observers of the model, in the order of the harness *)
Theorem C13_capability_from_source : forall c,
  [src_devcap_is_user_defined_name_supported (c_cap c); src_devcap_is_family_name_supported (c_cap c);
   src_devcap_is_multi_event_supported (c_cap c); src_devcap_is_stacked_commands_supported (c_cap c);
   src_devcap_is_device_software_interface_version_supported (c_cap c)] = map Ok (device_capability_bits c) /\
  [src_u3vcap_is_sirm_available (c_cap c); src_u3vcap_is_eirm_available (c_cap c);
   src_u3vcap_is_iidc2_available (c_cap c)] = map Ok (u3v_capability_bits c).
Proof. exact capability_from_source. Qed.
Print Assumptions C13_capability_from_source.

(* the capability gate of every optional register of the model is the value of one of these observers *)
Theorem C13_gates_from_source : forall w,
  (forall g b, In g [GUserDefinedName; GFamilyName; GDeviceSoftwareInterfaceVersion] ->
     g_gate (getter_desc g) = Some b ->
     In (Ok (bit_set w b)) [src_devcap_is_user_defined_name_supported w; src_devcap_is_family_name_supported w;
                            src_devcap_is_device_software_interface_version_supported w]) /\
  (forall g b, In g [GSirmAddress; GSirmLength; GEirmAddress; GEirmLength; GIidc2Address] ->
     g_gate (getter_desc g) = Some b ->
     In (Ok (bit_set w b)) [src_u3vcap_is_sirm_available w; src_u3vcap_is_eirm_available w;
                            src_u3vcap_is_iidc2_available w]).
Proof. exact gates_from_source. Qed.
Print Assumptions C13_gates_from_source.

(* fn register_address (checked_add + ok_or_else) and which read_register helper goes through it: Abrm's passes the
   table offset as the address, the other four add their base address *)
Theorem C13_register_address_from_source : forall m base off,
  reg_address m base off = if src_adds_base m then src_register_address base off else Ok off.
Proof. exact register_address_from_source. Qed.
Print Assumptions C13_register_address_from_source.

(* ParseBytes for u3v::BusSpeed: one-hot encodings only *)
Theorem C13_bus_speed_from_source :
  (forall w, src_bus_speed w = if w =? 1 then Ok 0 else if w =? 2 then Ok 1 else if w =? 4 then Ok 2
                               else if w =? 8 then Ok 3 else if w =? 16 then Ok 4 else Err CE_INVALID_DEVICE) /\
  (forall bs, decode DSpeed bs = let? w := parse_uint 4 bs in omap VSpeed (src_bus_speed w)).
Proof. exact bus_speed_from_source. Qed.
Print Assumptions C13_bus_speed_from_source.

(* non-vacuity: the translated functions on concrete words *)
Theorem C13_source_examples :
  src_gencp_version 65537 = Ok (1, 1, 0) /\ src_gencp_version 4294901761 = Ok (65535, 1, 0) /\
  src_genicam_file_version 16909060 = Ok (1, 2, 772) /\
  src_payload_size_alignment (31 * 2 ^ 24 + 5) = Ok (2 ^ 31) /\ src_payload_size_alignment (32 * 2 ^ 24) = Err CE_INVALID_DEVICE /\
  src_is_stream_enable 3 = Ok true /\ src_is_stream_enable 2 = Ok false /\
  src_file_type 1 = Ok 1 /\ src_file_type 2 = Err CE_INVALID_DEVICE /\ src_compression_type 1024 = Ok 1 /\
  src_cfg_set_multi_event_enable_bit 0 = Ok 2 /\ src_cfg_disable_multi_event 7 = Ok 5 /\
  src_register_address (2 ^ 64 - 1) 1 = Err CE_INVALID_DEVICE /\ src_register_address (2 ^ 64 - 2) 1 = Ok (2 ^ 64 - 1) /\
  src_bus_speed 8 = Ok 3 /\ src_bus_speed 3 = Err CE_INVALID_DEVICE.
Proof. exact decoders_examples. Qed.
Print Assumptions C13_source_examples.
