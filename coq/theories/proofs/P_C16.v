(* C16 — proofs.  Model: model/Camera.v, protocol: spec/CameraProto.v. *)
From Cam Require Import Outcome CameraProto Camera.

(* ---------------------------------------------------------------------- *)
(* protocol lemmas (about the specification only)                          *)

Lemma replay_from_app d p q : replay_from d (p ++ q) = replay_from (replay_from d p) q.
Proof. unfold replay_from. apply fold_left_app. Qed.

Lemma replay_from_cons d e q : replay_from d (e :: q) = replay_from (dstep d e) q.
Proof. reflexivity. Qed.

Lemma proto_check_app d t1 t2 :
  proto_check d (t1 ++ t2) = proto_check d t1 && proto_check (replay_from d t1) t2.
Proof.
  revert d. induction t1 as [|e t1 IH]; intros d; cbn [app proto_check].
  - reflexivity.
  - rewrite IH, replay_from_cons, andb_assoc. reflexivity.
Qed.

Lemma proto_check_ok d t : proto_check d t = true <-> proto_ok_from d t.
Proof.
  revert d. induction t as [|e t IH]; intros d; cbn [proto_check].
  - split; [|reflexivity]. intros _ p e q H. destruct p; discriminate.
  - rewrite andb_true_iff, IH. split.
    + intros [Ha Hq] p e' q H. destruct p as [|x p]; cbn [app] in H.
      * injection H as -> ->. exact Ha.
      * injection H as -> ->. rewrite replay_from_cons. eapply Hq. reflexivity.
    + intros H. split.
      * apply (H [] e t). reflexivity.
      * intros p e' q ->. specialize (H (e :: p) e' q eq_refl).
        rewrite replay_from_cons in H. exact H.
Qed.

Lemma proto_ok_prefix d p q : proto_ok_from d (p ++ q) -> proto_ok_from d p.
Proof.
  rewrite <- !proto_check_ok, proto_check_app, andb_true_iff. tauto.
Qed.

(* counting loops = the alive bit, on admissible traces *)
Lemma loops_alive_replay d t :
  proto_check d t = true ->
  loops_alive t = Z.b2z (d_alive (replay_from d t)) - Z.b2z (d_alive d).
Proof.
  revert d. induction t as [|e t IH]; intros d H; cbn [proto_check] in H.
  - cbn [loops_alive replay_from fold_left]. lia.
  - apply andb_true_iff in H as [Ha Hq]. rewrite replay_from_cons.
    specialize (IH _ Hq).
    destruct e; cbn [loops_alive]; rewrite IH; cbn [dstep d_alive]; try lia.
    + cbn [allowed] in Ha. rewrite !andb_true_iff, negb_true_iff in Ha.
      destruct Ha as [_ ->]. cbn [Z.b2z]. lia.
    + cbn [allowed] in Ha. rewrite Ha. cbn [Z.b2z]. lia.
Qed.

Lemma loops_alive_bounds t :
  proto_ok t -> forall p q, t = p ++ q -> 0 <= loops_alive p <= 1.
Proof.
  intros H p q ->. apply proto_ok_prefix in H. apply proto_check_ok in H.
  rewrite (loops_alive_replay _ _ H). cbn [dev0 d_alive].
  destruct (d_alive (replay_from dev0 p)); cbn [Z.b2z]; lia.
Qed.

(* a bit that is set now was set by its setter, and not reset since *)
Lemma since_snoc e1 e0 p x : since e1 e0 p -> x <> e0 -> since e1 e0 (p ++ [x]).
Proof.
  intros (p1 & p2 & -> & Hn) Hx. exists p1, (p2 ++ [x]). split.
  - rewrite <- app_assoc. reflexivity.
  - rewrite in_app_iff. intros [H|[H|[]]]; [tauto|congruence].
Qed.

Lemma since_here e1 e0 p : since e1 e0 (p ++ [e1]).
Proof. exists p, []. split; [reflexivity|intros []]. Qed.

Lemma enabled_since p :
  d_enabled (replay p) = true -> since EnableStreaming DisableStreaming p.
Proof.
  unfold replay. induction p as [|x p IH] using rev_ind; [discriminate|].
  rewrite replay_from_app. cbn [replay_from fold_left].
  destruct x; cbn [dstep d_enabled]; intros H;
    try (apply since_snoc; [apply IH; exact H|discriminate]).
  - apply since_here.
  - discriminate.
Qed.

Lemma locked_since p :
  d_locked (replay p) = true -> since (SetTLParamsLocked true) (SetTLParamsLocked false) p.
Proof.
  unfold replay. induction p as [|x p IH] using rev_ind; [discriminate|].
  rewrite replay_from_app. cbn [replay_from fold_left].
  destruct x; cbn [dstep d_locked]; intros H;
    try (apply since_snoc; [apply IH; exact H|discriminate]).
  subst b. apply since_here.
Qed.

Lemma acq_since p :
  d_acq (replay p) = true -> since AcqStart AcqStop p.
Proof.
  unfold replay. induction p as [|x p IH] using rev_ind; [discriminate|].
  rewrite replay_from_app. cbn [replay_from fold_left].
  destruct x; cbn [dstep d_acq]; intros H;
    try (apply since_snoc; [apply IH; exact H|discriminate]).
  - apply since_here.
  - discriminate.
Qed.

Lemma not_alive_after_stop p :
  d_alive (replay p) = false -> In LoopStart p -> since LoopStop LoopStart p.
Proof.
  unfold replay. induction p as [|x p IH] using rev_ind; [intros _ []|].
  rewrite replay_from_app, in_app_iff. cbn [replay_from fold_left].
  destruct x; cbn [dstep d_alive]; intros H Hin;
    try (apply since_snoc; [apply IH; [exact H|destruct Hin as [Hin|[Hin|[]]]; [exact Hin|discriminate]]
                           |discriminate]).
  - discriminate.
  - apply since_here.
Qed.

(* streaming configuration along a trace, executable *)
Definition sc_b (d : dev) : bool :=
  negb (d_alive d) || (d_enabled d && d_locked d && d_acq d).

Fixpoint sc_check (d : dev) (t : list effect) : bool :=
  sc_b d && match t with [] => true | e :: q => sc_check (dstep d e) q end.

Lemma sc_b_ok d : sc_b d = true -> streaming_config d.
Proof.
  unfold sc_b, streaming_config. intros H Ha. rewrite Ha in H. cbn in H.
  rewrite !andb_true_iff in H. tauto.
Qed.

Lemma sc_check_head d t : sc_check d t = true -> sc_b d = true.
Proof. destruct t; cbn [sc_check]; rewrite ?andb_true_iff; tauto. Qed.

Lemma sc_check_app d t1 t2 :
  sc_check d t1 = true -> sc_check (replay_from d t1) t2 = true -> sc_check d (t1 ++ t2) = true.
Proof.
  revert d. induction t1 as [|e t1 IH]; intros d H1 H2; cbn [app].
  - exact H2.
  - cbn [sc_check] in *. apply andb_true_iff in H1 as [Hb H1].
    rewrite Hb. cbn [andb]. apply IH; [exact H1|exact H2].
Qed.

Lemma sc_check_prefix d p q : sc_check d (p ++ q) = true -> sc_b (replay_from d p) = true.
Proof.
  revert d. induction p as [|e p IH]; intros d H; cbn [app] in H.
  - apply sc_check_head in H. exact H.
  - cbn [sc_check] in H. apply andb_true_iff in H as [_ H]. rewrite replay_from_cons.
    apply IH. exact H.
Qed.

(* ---------------------------------------------------------------------- *)
(* evaluation of one call                                                  *)

Ltac mstep :=
  cbn -[Z.eqb Z.b2z Nat.ltb firstn nth_error];
  match goal with
  | H : forall j : nat, ?pl j = None |- context [?pl ?k] => rewrite (H k)
  | |- context [match ?pl ?k with Some _ => _ | None => _ end] =>
      match type of pl with nat -> option Z => destruct (pl k) eqn:? end
  | |- context [negb ?b] => is_var b; destruct b
  | |- context [?b || _] => is_var b; destruct b
  | |- context [if ?b then _ else _] => is_var b; destruct b
  | |- context [match ?o with Some _ => _ | None => _ end] => is_var o; destruct o
  | |- context [?z =? 0] => destruct (Z.eqb_spec z 0)
  end.

Ltac open_call c s :=
  unfold run_call;
  destruct s as [oc os cx en tl aq lr];
  destruct c as [|[xp xt xs xq]|cap| | |];
  try (destruct cx as [[nt ns np ct cs cp]|]);
  cbv [call_body cam_open cam_load cam_start cam_stop cam_close cam_params params_ctxt
       bindM get need ret fail panic do_op emit ctxt_loaded].

Ltac open_state s :=
  unfold run_call;
  destruct s as [oc os cx en tl aq lr];
  try (destruct cx as [[nt ns np ct cs cp]|]);
  cbv [call_body cam_open cam_load cam_start cam_stop cam_close cam_params params_ctxt
       bindM get need ret fail panic do_op emit ctxt_loaded].

Ltac crunch := repeat mstep; cbn -[Z.eqb Z.b2z].

(* A: the resulting state is the replay of the call's effects *)
Lemma call_dev fx c pl s :
  dev_of (r_cam (run_call fx c pl s)) = replay_from (dev_of s) (r_effs (run_call fx c pl s)).
Proof. open_call c s; crunch; reflexivity. Qed.

(* B: the call's effects are admissible *)
Lemma call_check fx c pl s :
  proto_check (dev_of s) (r_effs (run_call fx c pl s)) = true.
Proof. open_call c s; crunch; reflexivity. Qed.

(* C: a running loop implies the streaming configuration and a loaded context *)
Definition Inv (s : cam) : Prop :=
  loop_running s = true ->
  stream_enabled s = true /\ tl_locked s = true /\ acquiring s = true /\ ctxt_loaded s = true.

Lemma call_inv fx c pl s : Inv s -> Inv (r_cam (run_call fx c pl s)).
Proof.
  unfold Inv. open_call c s; cbn [loop_running stream_enabled tl_locked acquiring ctxt];
    intros H; crunch; cbn in *; try (intros; discriminate); try tauto;
    try (intros Hl; specialize (H Hl); tauto); intros; repeat split; try reflexivity; tauto.
Qed.

Lemma call_sc fx c pl s :
  Inv s -> sc_check (dev_of s) (r_effs (run_call fx c pl s)) = true.
Proof.
  unfold Inv. open_call c s; cbn [loop_running stream_enabled tl_locked acquiring ctxt];
    intros H; crunch; try reflexivity;
    unfold sc_b; cbn;
    try (destruct lr; cbn; [destruct H as (-> & -> & -> & _); reflexivity|reflexivity]);
    try (destruct H as (-> & -> & -> & _); reflexivity).
Qed.

(* ---------------------------------------------------------------------- *)
(* sessions                                                                *)

Lemma last_cons_default {A} (a : A) l d : last (a :: l) d = last l a.
Proof.
  revert a d. induction l as [|b l IH]; intros a d; [reflexivity|].
  change (last (a :: b :: l) d) with (last (b :: l) d). rewrite !IH. reflexivity.
Qed.

Lemma final_from_cons s r rs : final_from s (r :: rs) = final_from (r_cam r) rs.
Proof. unfold final_from. cbn [map]. apply last_cons_default. Qed.

Lemma trace_of_cons r rs : trace_of (r :: rs) = r_effs r ++ trace_of rs.
Proof. reflexivity. Qed.

Lemma trace_of_app a b : trace_of (a ++ b) = trace_of a ++ trace_of b.
Proof. unfold trace_of. rewrite map_app, concat_app. reflexivity. Qed.

Lemma run_from_app fx pl cs1 cs2 i s :
  run_from fx pl i s (cs1 ++ cs2) =
  run_from fx pl i s cs1 ++
  run_from fx pl (length cs1 + i) (final_from s (run_from fx pl i s cs1)) cs2.
Proof.
  revert i s. induction cs1 as [|c cs1 IH]; intros i s; cbn [app run_from length].
  - reflexivity.
  - rewrite IH, final_from_cons. cbn [app].
    replace (length cs1 + S i)%nat with (S (length cs1 + i))%nat by lia. reflexivity.
Qed.

Lemma run_dev fx pl cs : forall i s,
  dev_of (final_from s (run_from fx pl i s cs)) =
  replay_from (dev_of s) (trace_of (run_from fx pl i s cs)).
Proof.
  induction cs as [|c cs IH]; intros i s; cbn [run_from].
  - reflexivity.
  - rewrite final_from_cons, trace_of_cons, replay_from_app, <- call_dev. apply IH.
Qed.

Lemma run_check fx pl cs : forall i s,
  proto_check (dev_of s) (trace_of (run_from fx pl i s cs)) = true.
Proof.
  induction cs as [|c cs IH]; intros i s; cbn [run_from].
  - reflexivity.
  - rewrite trace_of_cons, proto_check_app, call_check, <- call_dev. apply IH.
Qed.

Lemma run_inv fx pl cs : forall i s,
  Inv s -> Inv (final_from s (run_from fx pl i s cs)).
Proof.
  induction cs as [|c cs IH]; intros i s H; cbn [run_from].
  - exact H.
  - rewrite final_from_cons. apply IH. apply call_inv. exact H.
Qed.

Lemma inv_sc_b s : Inv s -> sc_b (dev_of s) = true.
Proof.
  unfold Inv, sc_b. destruct s as [oc os cx en tl aq lr]. cbn. destruct lr; [|reflexivity].
  intros H. destruct (H eq_refl) as (-> & -> & -> & _). reflexivity.
Qed.

Lemma run_sc fx pl cs : forall i s,
  Inv s -> sc_check (dev_of s) (trace_of (run_from fx pl i s cs)) = true.
Proof.
  induction cs as [|c cs IH]; intros i s H; cbn [run_from].
  - cbn [trace_of map concat sc_check]. rewrite inv_sc_b by exact H. reflexivity.
  - rewrite trace_of_cons. apply sc_check_app.
    + apply call_sc. exact H.
    + rewrite <- call_dev. apply IH. apply call_inv. exact H.
Qed.

Lemma inv0 : Inv cam0.
Proof. intros H. discriminate. Qed.

(* ---- C16_order -------------------------------------------------------- *)
Theorem order fx pl cs : proto_ok (trace_of (run fx pl cs)).
Proof. apply proto_check_ok. apply (run_check fx pl cs 0%nat cam0). Qed.

Lemma not_acq_after_stop p :
  d_acq (replay p) = false -> In AcqStart p -> since AcqStop AcqStart p.
Proof.
  unfold replay. induction p as [|x p IH] using rev_ind; [intros _ []|].
  rewrite replay_from_app, in_app_iff. cbn [replay_from fold_left].
  destruct x; cbn [dstep d_acq]; intros H Hin;
    try (apply since_snoc; [apply IH; [exact H|destruct Hin as [Hin|[Hin|[]]]; [exact Hin|discriminate]]
                           |discriminate]).
  - discriminate.
  - apply since_here.
Qed.

Lemma not_locked_after_clear p :
  d_locked (replay p) = false -> In (SetTLParamsLocked true) p ->
  since (SetTLParamsLocked false) (SetTLParamsLocked true) p.
Proof.
  unfold replay. induction p as [|x p IH] using rev_ind; [intros _ []|].
  rewrite replay_from_app, in_app_iff. cbn [replay_from fold_left].
  destruct x; cbn [dstep d_locked]; intros H Hin;
    try (apply since_snoc; [apply IH; [exact H|destruct Hin as [Hin|[Hin|[]]]; [exact Hin|discriminate]]
                           |discriminate]).
  subst b. apply since_here.
Qed.

(* the same ordering, read as "happened before and not undone since" *)
Theorem order_before fx pl cs p q :
  (trace_of (run fx pl cs) = p ++ AcqStart :: q ->
     since EnableStreaming DisableStreaming p /\
     since (SetTLParamsLocked true) (SetTLParamsLocked false) p) /\
  (trace_of (run fx pl cs) = p ++ LoopStart :: q ->
     since EnableStreaming DisableStreaming p /\
     since (SetTLParamsLocked true) (SetTLParamsLocked false) p /\
     since AcqStart AcqStop p /\
     (In LoopStart p -> since LoopStop LoopStart p)) /\
  (trace_of (run fx pl cs) = p ++ AcqStop :: q ->
     In LoopStart p -> since LoopStop LoopStart p) /\
  (trace_of (run fx pl cs) = p ++ SetTLParamsLocked false :: q ->
     (In LoopStart p -> since LoopStop LoopStart p) /\
     (In AcqStart p -> since AcqStop AcqStart p)) /\
  (trace_of (run fx pl cs) = p ++ DisableStreaming :: q ->
     (In LoopStart p -> since LoopStop LoopStart p) /\
     (In AcqStart p -> since AcqStop AcqStart p) /\
     (In (SetTLParamsLocked true) p ->
        since (SetTLParamsLocked false) (SetTLParamsLocked true) p)).
Proof.
  pose proof (order fx pl cs) as H. unfold proto_ok, proto_ok_from in H.
  assert (K : forall e, trace_of (run fx pl cs) = p ++ e :: q -> allowed (replay p) e = true)
    by (intros e E; exact (H _ _ _ E)).
  split; [|split; [|split; [|split]]]; intros E; apply K in E; cbn [allowed] in E;
    rewrite ?andb_true_iff, ?negb_true_iff in E.
  - split; [apply enabled_since|apply locked_since]; tauto.
  - split; [apply enabled_since; tauto|].
    split; [apply locked_since; tauto|].
    split; [apply acq_since; tauto|apply not_alive_after_stop; tauto].
  - apply not_alive_after_stop; tauto.
  - split; [apply not_alive_after_stop|apply not_acq_after_stop]; tauto.
  - split; [apply not_alive_after_stop; tauto|].
    split; [apply not_acq_after_stop; tauto|apply not_locked_after_clear; tauto].
Qed.

(* ---- state agreement / streaming flag --------------------------------- *)
Theorem state_agrees fx pl cs :
  dev_of (final (run fx pl cs)) = replay (trace_of (run fx pl cs)).
Proof. apply (run_dev fx pl cs 0%nat cam0). Qed.

Theorem flag_matches fx pl cs :
  loop_running (final (run fx pl cs)) = d_alive (replay (trace_of (run fx pl cs))).
Proof. rewrite <- state_agrees. reflexivity. Qed.

Theorem streaming_state fx pl cs p q :
  trace_of (run fx pl cs) = p ++ q -> streaming_config (replay p).
Proof.
  intros E. apply sc_b_ok. pose proof (run_sc fx pl cs 0%nat cam0 inv0) as H.
  fold (run fx pl cs) in H. rewrite E in H. apply sc_check_prefix in H. exact H.
Qed.

(* ---- C16_single_loop -------------------------------------------------- *)
Theorem single_loop fx pl cs p q :
  trace_of (run fx pl cs) = p ++ q ->
  0 <= loops_alive p <= 1 /\
  (forall q', q = LoopStart :: q' -> d_alive (replay p) = false).
Proof.
  intros E. split.
  - eapply loops_alive_bounds; [apply (order fx pl cs)|exact E].
  - intros q' ->. pose proof (order fx pl cs _ _ _ E) as H. cbn [allowed] in H.
    rewrite !andb_true_iff, negb_true_iff in H. apply H.
Qed.

Lemma start_in_streaming fx cap pl s :
  loop_running s = true ->
  run_call fx (CStart cap) pl s =
  {| r_res := Err E_IN_STREAMING; r_effs := []; r_nops := 0; r_atts := []; r_failed := None; r_cam := s |}.
Proof.
  destruct s as [oc os cx en tl aq lr]. cbn [loop_running]. intros ->. reflexivity.
Qed.

Lemma start_without_context cap pl s :
  loop_running s = false -> ctxt s = None ->
  run_call true (CStart cap) pl s =
  {| r_res := Err E_CTXT_MISSING; r_effs := []; r_nops := 0; r_atts := []; r_failed := None; r_cam := s |}.
Proof.
  destruct s as [oc os cx en tl aq lr]. cbn [loop_running ctxt]. intros -> ->. reflexivity.
Qed.

(* the pinned code enabled the stream on the device before noticing the missing context *)
Lemma start_without_context_v0 cap s :
  loop_running s = false -> ctxt s = None ->
  let r := run_call false (CStart cap) (fun _ => None) s in
  r_res r = Err E_CTXT_MISSING /\ r_effs r = [EnableStreaming] /\ stream_enabled (r_cam r) = true.
Proof.
  destruct s as [oc os cx en tl aq lr]. cbn [loop_running ctxt]. intros -> ->.
  repeat split.
Qed.

(* a start that does not return Ok never leaves a new loop behind, whatever fails *)
Lemma start_err_no_loop fx cap pl s :
  let r := run_call fx (CStart cap) pl s in
  (In LoopStart (r_effs r) -> r_res r = Ok (-1)) /\
  (r_res r <> Ok (-1) -> loop_running (r_cam r) = loop_running s).
Proof.
  cbv zeta. open_state s; crunch;
    (split; [intros Hin; cbn in Hin; try reflexivity;
             repeat (destruct Hin as [Hin|Hin]; try discriminate Hin); try contradiction
            |intros Hne; try reflexivity; try (exfalso; apply Hne; reflexivity)]).
Qed.

(* ---- C16_close_clean -------------------------------------------------- *)
Definition G (s : cam) : Prop :=
  (forall c, ctxt s = Some c -> n_tl c = true /\ n_start c = true /\ n_stop c = true) /\
  (loop_running s = false ->
   stream_enabled s = false /\ tl_locked s = false /\ acquiring s = false) /\
  (loop_running s = true -> ctxt_loaded s = true).

Ltac fin :=
  cbn in *; repeat split; intros; subst;
  repeat match goal with
         | H : Some _ = Some _ |- _ => injection H as <-
         end;
  cbn in *; intuition (subst; try congruence).

Ltac useG1 G1 :=
  try (let K := fresh "K" in
       pose proof (G1 _ eq_refl) as K; cbn [n_tl n_start n_stop] in K;
       destruct K as (-> & -> & ->)).

Lemma call_G c plc s :
  G s -> good_call c -> (forall j, plc j = None) -> G (r_cam (run_call true c plc s)).
Proof.
  unfold G. open_call c s;
    cbn [ctxt loop_running stream_enabled tl_locked acquiring good_call x_parses x_tl x_start x_stop];
    intros (G1 & G2 & G3) Hg Hpl;
    useG1 G1; crunch; fin.
Qed.

Lemma close_G plc s :
  G s -> (forall j, plc j = None) ->
  r_res (run_call true CClose plc s) = Ok (-1) /\ clean (r_cam (run_call true CClose plc s)).
Proof.
  unfold G, clean. open_state s;
    cbn [ctxt loop_running stream_enabled tl_locked acquiring];
    intros (G1 & G2 & G3) Hpl;
    useG1 G1; crunch; fin.
Qed.

Lemma run_G pl cs : forall i s,
  (forall i j, pl i j = None) -> G s -> Forall good_call cs ->
  G (final_from s (run_from true pl i s cs)).
Proof.
  induction cs as [|c cs IH]; intros i s Hpl Hs Hg; cbn [run_from].
  - exact Hs.
  - rewrite final_from_cons. inversion Hg; subst. apply IH; [exact Hpl| |assumption].
    apply call_G; [exact Hs|assumption|apply Hpl].
Qed.

Lemma G0 : G cam0.
Proof. unfold G. cbn. repeat split; intros; discriminate. Qed.

Lemma run_snoc fx pl cs c :
  run fx pl (cs ++ [c]) =
  run fx pl cs ++ [run_call fx c (pl (length cs)) (final (run fx pl cs))].
Proof.
  unfold run, final. rewrite run_from_app. cbn [run_from]. rewrite Nat.add_0_r. reflexivity.
Qed.

Lemma final_snoc rs r : final (rs ++ [r]) = r_cam r.
Proof. unfold final, final_from. rewrite map_app. cbn [map]. apply last_last. Qed.

Theorem close_clean pl cs :
  (forall i j, pl i j = None) -> Forall good_call cs ->
  clean (final (run true pl (cs ++ [CClose]))) /\
  exists rs r, run true pl (cs ++ [CClose]) = rs ++ [r] /\ r_res r = Ok (-1).
Proof.
  intros Hpl Hg. rewrite run_snoc, final_snoc.
  pose proof (run_G pl cs 0%nat cam0 Hpl G0 Hg) as HG. fold (run true pl cs) in HG.
  destruct (close_G (pl (length cs)) _ HG (Hpl _)) as [Hr Hc].
  split; [exact Hc|]. eexists _, _. split; [reflexivity|exact Hr].
Qed.

(* pinned code: open, start_streaming without a loaded context, close — nothing failed, and the
   stream stays enabled on the device after close *)
Theorem close_clean_v0_refuted :
  exists cs, Forall good_call cs /\
    stream_enabled (final (run false no_failure (cs ++ [CClose]))) = true /\
    ~ clean (final (run false no_failure (cs ++ [CClose]))).
Proof.
  exists [COpen; CStart 3]. split.
  - repeat constructor. discriminate.
  - split; [reflexivity|]. intros (_ & _ & H & _). discriminate H.
Qed.

(* a description lacking AcquisitionStop: outside the property (the description is assumed to
   define the three nodes); recorded to show the hypothesis of close_clean is needed *)
Lemma close_needs_nodes :
  let x := {| x_parses := true; x_tl := true; x_start := true; x_stop := false |} in
  ~ clean (final (run true no_failure ([COpen; CLoad x; CStart 3] ++ [CClose]))).
Proof. cbv zeta. intros (_ & H & _). vm_compute in H. discriminate H. Qed.

(* ---- C16_failure_stops ------------------------------------------------ *)
Ltac mstep0 :=
  cbn -[Z.eqb Z.b2z firstn nth_error Nat.lt lt];
  match goal with
  | |- context [negb ?b] => is_var b; destruct b
  | |- context [?b || _] => is_var b; destruct b
  | |- context [if ?b then _ else _] => is_var b; destruct b
  | |- context [match ?o with Some _ => _ | None => _ end] => is_var o; destruct o
  | |- context [?z =? 0] => destruct (Z.eqb_spec z 0)
  end.

Ltac fstep Hj Hlt :=
  cbn -[Z.eqb Z.b2z firstn nth_error];
  match goal with
  | |- context [match ?pl ?k with Some _ => _ | None => _ end] =>
      match type of pl with nat -> option Z => first [rewrite Hj | rewrite (Hlt k) by lia] end
  end.

Lemma failure_stops fx c plc s j cls :
  first_fail plc j cls ->
  (j < r_nops (run_call fx c (fun _ => None) s))%nat ->
  exists e, nth_error (r_effs (run_call fx c (fun _ => None) s)) j = Some e /\
    r_failed (run_call fx c plc s) = Some (e, cls) /\
    r_res (run_call fx c plc s) = Err (err_of e cls) /\
    r_effs (run_call fx c plc s) = firstn j (r_effs (run_call fx c (fun _ => None) s)) /\
    r_atts (run_call fx c plc s) = firstn j (r_effs (run_call fx c (fun _ => None) s)) ++ [e] /\
    r_nops (run_call fx c plc s) = S j.
Proof.
  intros [Hj Hlt]. open_call c s; repeat mstep0;
    cbn -[Z.eqb Z.b2z firstn nth_error Nat.lt lt]; intros Hn;
    destruct j as [|[|[|[|[|[|j]]]]]]; try (exfalso; lia);
    repeat fstep Hj Hlt; cbn; eexists; repeat split; reflexivity.
Qed.

(* a planned failure at an operation the call does not reach changes nothing *)
Lemma unreached_failure fx c plc s :
  (forall k, (k < r_nops (run_call fx c (fun _ => None) s))%nat -> plc k = None) ->
  run_call fx c plc s = run_call fx c (fun _ => None) s.
Proof.
  open_call c s; repeat mstep0; cbn -[Z.eqb Z.b2z Nat.lt lt]; intros H;
    repeat (rewrite H by lia; cbn -[Z.eqb Z.b2z]); reflexivity.
Qed.

(* whatever the plan: a call in which an operation failed returns that operation's error, and
   the failed operation is the last one attempted *)
Lemma failed_res fx c plc s e cls :
  r_failed (run_call fx c plc s) = Some (e, cls) ->
  r_res (run_call fx c plc s) = Err (err_of e cls) /\
  exists j, plc j = Some cls /\ r_nops (run_call fx c plc s) = S j.
Proof.
  open_call c s; crunch; intros Hf; try discriminate Hf; injection Hf as <- <-;
    (split; [reflexivity|eexists; split; [eassumption|reflexivity]]).
Qed.

(* The device log of a call: every access is attempted at most once; the log is exactly the accesses
   that succeeded (the call's effects on the device / stream handle) followed, when one failed, by that
   single failed attempt, which is therefore the last thing the call did to the device. *)
Definition failed_att (r : callres) : list effect :=
  match r_failed r with Some (e, _) => [e] | None => [] end.

Lemma attempts_call fx c plc s :
  NoDup (r_atts (run_call fx c plc s)) /\
  r_atts (run_call fx c plc s) =
    filter is_access (r_effs (run_call fx c plc s)) ++ failed_att (run_call fx c plc s) /\
  length (r_atts (run_call fx c plc s)) = r_nops (run_call fx c plc s).
Proof.
  unfold failed_att. open_call c s; crunch;
    (split; [repeat constructor; cbn; intuition discriminate|split; reflexivity]).
Qed.

(* the only panic: start_streaming(0), as documented *)
Lemma panic_only fx c plc s :
  r_res (run_call fx c plc s) = Panic -> c = CStart 0.
Proof.
  open_call c s; crunch; intros H; try discriminate H; subst; reflexivity.
Qed.

Lemma start_cap0 fx plc s c0 :
  loop_running s = false -> ctxt s = Some c0 -> n_tl c0 = true -> n_start c0 = true ->
  (forall j, plc j = None) ->
  r_res (run_call fx (CStart 0) plc s) = Panic /\
  r_effs (run_call fx (CStart 0) plc s) = [EnableStreaming; SetTLParamsLocked true; AcqStart] /\
  loop_running (r_cam (run_call fx (CStart 0) plc s)) = false.
Proof.
  destruct s as [oc os cx en tl aq lr]. destruct c0 as [nt ns np ct cs cp].
  cbn [loop_running ctxt n_tl n_start]. intros -> -> -> -> H.
  unfold run_call.
  cbv [call_body cam_start params_ctxt bindM get need ret fail panic do_op emit ctxt_loaded].
  crunch; try congruence; repeat split.
Qed.

(* every call result of a session is a run_call from some state *)
Lemma run_in fx pl cs : forall i s r,
  In r (run_from fx pl i s cs) -> exists c k s', r = run_call fx c (pl k) s'.
Proof.
  induction cs as [|c cs IH]; intros i s r H; cbn [run_from] in H.
  - destruct H.
  - destruct H as [<-|H]; [eexists _, _, _; reflexivity|]. eapply IH. exact H.
Qed.

Theorem failure_session fx pl cs r e cls :
  In r (run fx pl cs) -> r_failed r = Some (e, cls) ->
  r_res r = Err (err_of e cls) /\ exists k j, pl k j = Some cls /\ r_nops r = S j.
Proof.
  intros Hin Hf. destruct (run_in _ _ _ _ _ _ Hin) as (c & k & s' & ->).
  destruct (failed_res _ _ _ _ _ _ Hf) as [Hr (j & Hj & Hn)].
  split; [exact Hr|]. exists k, j. split; assumption.
Qed.

Theorem attempts_session fx pl cs r :
  In r (run fx pl cs) ->
  NoDup (r_atts r) /\ r_atts r = filter is_access (r_effs r) ++ failed_att r /\
  length (r_atts r) = r_nops r.
Proof.
  intros Hin. destruct (run_in _ _ _ _ _ _ Hin) as (c & k & s' & ->). apply attempts_call.
Qed.

Theorem panic_session fx pl cs r :
  In r (run fx pl cs) -> r_res r = Panic -> In (CStart 0) cs.
Proof.
  unfold run. generalize 0%nat cam0. induction cs as [|c cs IH]; intros i s H Hp; cbn [run_from] in H.
  - destruct H.
  - destruct H as [<-|H].
    + apply panic_only in Hp. subst c. left. reflexivity.
    + right. eapply IH; eassumption.
Qed.

(* non-vacuity: the intended session, its trace and its final state *)
Definition xml_good : xmlv := {| x_parses := true; x_tl := true; x_start := true; x_stop := true |}.

Example session_example :
  let rs := run true no_failure [COpen; CLoad xml_good; CStart 3; CParams; CStop; CClose] in
  trace_of rs =
    [CtrlOpen; StrmOpen; GenApiFetch; LoadCtxt true true true;
     EnableStreaming; SetTLParamsLocked true; AcqStart; LoopStart;
     LoopStop; AcqStop; SetTLParamsLocked false; DisableStreaming;
     CtrlClose; StrmClose; ClearCache] /\
  map r_res rs = [Ok (-1); Ok (-1); Ok (-1); Ok 1; Ok (-1); Ok (-1)] /\
  clean (final rs).
Proof. vm_compute. repeat split. Qed.

(* a failing AcquisitionStart write: error returned, the loop is not started, the flag is false *)
Example failure_example :
  let rs := run true (plan_of [(2%nat, 2%nat, 1)]) [COpen; CLoad xml_good; CStart 3] in
  map r_res rs = [Ok (-1); Ok (-1); Err (E_GENAPI_DEVICE + 1)] /\
  trace_of rs = [CtrlOpen; StrmOpen; GenApiFetch; LoadCtxt true true true;
                 EnableStreaming; SetTLParamsLocked true] /\
  loop_running (final rs) = false.
Proof. vm_compute. repeat split. Qed.

(* ---- cached TLParamsLocked is coherent with the device ----------------- *)
Definition coh (s : cam) : bool :=
  match ctxt s with
  | Some c => match c_tl c with Some b => Bool.eqb b (tl_locked s) | None => true end
  | None => true
  end.

Lemma call_coh fx c pl s : coh s = true -> coh (r_cam (run_call fx c pl s)) = true.
Proof.
  unfold coh. open_call c s; cbn [ctxt c_tl tl_locked]; intros H; crunch;
    try reflexivity; try exact H; try apply eqb_reflx.
Qed.

Lemma run_coh fx pl cs : forall i s,
  coh s = true -> coh (final_from s (run_from fx pl i s cs)) = true.
Proof.
  induction cs as [|c cs IH]; intros i s H; cbn [run_from].
  - exact H.
  - rewrite final_from_cons. apply IH. apply call_coh. exact H.
Qed.

Lemma params_value_call fx plc s v :
  coh s = true -> r_res (run_call fx CParams plc s) = Ok v -> v = Z.b2z (tl_locked s).
Proof.
  unfold coh. open_state s; cbn [ctxt c_tl tl_locked]; crunch; intros H E;
    try discriminate E; apply Ok_inj in E; subst v; try reflexivity.
  apply eqb_prop in H. subst. reflexivity.
Qed.

(* whenever a params access returns a value, it is the device's TLParamsLocked: the register
   cache never holds a stale value, whatever failed before *)
Theorem params_value fx pl cs plc v :
  r_res (run_call fx CParams plc (final (run fx pl cs))) = Ok v ->
  v = Z.b2z (tl_locked (final (run fx pl cs))).
Proof.
  apply params_value_call. apply (run_coh fx pl cs 0%nat cam0). reflexivity.
Qed.
