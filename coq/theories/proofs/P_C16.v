(* C16 — proofs.  Model: model/Camera.v, protocol: spec/CameraProto.v. *)
From Cam Require Import Outcome CameraProto Camera.

(* ---------------------------------------------------------------------- *)
(* protocol lemmas (about the specification only)                          *)

Lemma replay_from_app d p q : replay_from d (p ++ q) = replay_from (replay_from d p) q.
Proof. unfold replay_from. apply fold_left_app. Qed.

Lemma replay_from_cons d e q : replay_from d (e :: q) = replay_from (dstep d e) q.
Proof. reflexivity. Qed.

Lemma proto_check_app d t1 t2 :
  proto_check d (t1 ++ t2) = proto_check d t1 && proto_check (replay_from d t1) t2.
Proof.
  revert d. induction t1 as [|e t1 IH]; intros d; cbn [app proto_check].
  - reflexivity.
  - rewrite IH, replay_from_cons, andb_assoc. reflexivity.
Qed.

Lemma proto_check_ok d t : proto_check d t = true <-> proto_ok_from d t.
Proof.
  revert d. induction t as [|e t IH]; intros d; cbn [proto_check].
  - split; [|reflexivity]. intros _ p e q H. destruct p; discriminate.
  - rewrite andb_true_iff, IH. split.
    + intros [Ha Hq] p e' q H. destruct p as [|x p]; cbn [app] in H.
      * injection H as -> ->. exact Ha.
      * injection H as -> ->. rewrite replay_from_cons. eapply Hq. reflexivity.
    + intros H. split.
      * apply (H [] e t). reflexivity.
      * intros p e' q ->. specialize (H (e :: p) e' q eq_refl).
        rewrite replay_from_cons in H. exact H.
Qed.

Lemma proto_ok_prefix d p q : proto_ok_from d (p ++ q) -> proto_ok_from d p.
Proof.
  rewrite <- !proto_check_ok, proto_check_app, andb_true_iff. tauto.
Qed.

(* counting loops = the alive bit, on admissible traces *)
Lemma loops_alive_replay d t :
  proto_check d t = true ->
  loops_alive t = Z.b2z (d_alive (replay_from d t)) - Z.b2z (d_alive d).
Proof.
  revert d. induction t as [|e t IH]; intros d H; cbn [proto_check] in H.
  - cbn [loops_alive replay_from fold_left]. lia.
  - apply andb_true_iff in H as [Ha Hq]. rewrite replay_from_cons.
    specialize (IH _ Hq).
    destruct e; cbn [loops_alive]; rewrite IH; cbn [dstep d_alive]; try lia.
    + cbn [allowed] in Ha. rewrite !andb_true_iff, negb_true_iff in Ha.
      destruct Ha as [_ ->]. cbn [Z.b2z]. lia.
    + cbn [allowed] in Ha. rewrite Ha. cbn [Z.b2z]. lia.
Qed.

Lemma loops_alive_bounds t :
  proto_ok t -> forall p q, t = p ++ q -> 0 <= loops_alive p <= 1.
Proof.
  intros H p q ->. apply proto_ok_prefix in H. apply proto_check_ok in H.
  rewrite (loops_alive_replay _ _ H). cbn [dev0 d_alive].
  destruct (d_alive (replay_from dev0 p)); cbn [Z.b2z]; lia.
Qed.

(* a bit that is set now was set by its setter, and not reset since *)
Lemma since_snoc e1 e0 p x : since e1 e0 p -> x <> e0 -> since e1 e0 (p ++ [x]).
Proof.
  intros (p1 & p2 & -> & Hn) Hx. exists p1, (p2 ++ [x]). split.
  - rewrite <- app_assoc. reflexivity.
  - rewrite in_app_iff. intros [H|[H|[]]]; [tauto|congruence].
Qed.

Lemma since_here e1 e0 p : since e1 e0 (p ++ [e1]).
Proof. exists p, []. split; [reflexivity|intros []]. Qed.

Lemma enabled_since p :
  d_enabled (replay p) = true -> since EnableStreaming DisableStreaming p.
Proof.
  unfold replay. induction p as [|x p IH] using rev_ind; [discriminate|].
  rewrite replay_from_app. cbn [replay_from fold_left].
  destruct x; cbn [dstep d_enabled]; intros H;
    try (apply since_snoc; [apply IH; exact H|discriminate]).
  - apply since_here.
  - discriminate.
Qed.

(* TLParamsLocked: written through its register or as a host-side variable *)
Lemma tl_since_snoc b p x : tl_since b p -> ~ tl_write (negb b) x -> tl_since b (p ++ [x]).
Proof.
  intros (p1 & e & p2 & -> & He & Hn) Hx. exists p1, e, (p2 ++ [x]). split.
  - rewrite <- app_assoc. reflexivity.
  - split; [exact He|]. intros e' Hin. apply in_app_iff in Hin as [Hin|[<-|[]]]; [apply Hn; exact Hin|exact Hx].
Qed.

Lemma tl_since_here b p e : tl_write b e -> tl_since b (p ++ [e]).
Proof. intros He. exists p, e, []. split; [reflexivity|]. split; [exact He|intros e' []]. Qed.

Ltac not_tl := let H := fresh in intros [H|H]; discriminate H.

Lemma locked_since p :
  d_locked (replay p) = true -> tl_since true p.
Proof.
  unfold replay. induction p as [|x p IH] using rev_ind; [discriminate|].
  rewrite replay_from_app. cbn [replay_from fold_left].
  destruct x; cbn [dstep d_locked]; intros H;
    try (apply tl_since_snoc; [apply IH; exact H|not_tl]);
    subst b; apply tl_since_here; [left|right]; reflexivity.
Qed.

Lemma acq_since p :
  d_acq (replay p) = true -> since AcqStart AcqStop p.
Proof.
  unfold replay. induction p as [|x p IH] using rev_ind; [discriminate|].
  rewrite replay_from_app. cbn [replay_from fold_left].
  destruct x; cbn [dstep d_acq]; intros H;
    try (apply since_snoc; [apply IH; exact H|discriminate]).
  - apply since_here.
  - discriminate.
Qed.

Lemma not_alive_after_stop p :
  d_alive (replay p) = false -> In LoopStart p -> since LoopStop LoopStart p.
Proof.
  unfold replay. induction p as [|x p IH] using rev_ind; [intros _ []|].
  rewrite replay_from_app, in_app_iff. cbn [replay_from fold_left].
  destruct x; cbn [dstep d_alive]; intros H Hin;
    try (apply since_snoc; [apply IH; [exact H|destruct Hin as [Hin|[Hin|[]]]; [exact Hin|discriminate]]
                           |discriminate]).
  - discriminate.
  - apply since_here.
Qed.

(* streaming configuration along a trace, executable *)
Definition sc_b (d : dev) : bool :=
  negb (d_alive d) || (d_enabled d && d_locked d && d_acq d).

Fixpoint sc_check (d : dev) (t : list effect) : bool :=
  sc_b d && match t with [] => true | e :: q => sc_check (dstep d e) q end.

Lemma sc_b_ok d : sc_b d = true -> streaming_config d.
Proof.
  unfold sc_b, streaming_config. intros H Ha. rewrite Ha in H. cbn in H.
  rewrite !andb_true_iff in H. tauto.
Qed.

Lemma sc_check_head d t : sc_check d t = true -> sc_b d = true.
Proof. destruct t; cbn [sc_check]; rewrite ?andb_true_iff; tauto. Qed.

Lemma sc_check_app d t1 t2 :
  sc_check d t1 = true -> sc_check (replay_from d t1) t2 = true -> sc_check d (t1 ++ t2) = true.
Proof.
  revert d. induction t1 as [|e t1 IH]; intros d H1 H2; cbn [app].
  - exact H2.
  - cbn [sc_check] in *. apply andb_true_iff in H1 as [Hb H1].
    rewrite Hb. cbn [andb]. apply IH; [exact H1|exact H2].
Qed.

Lemma sc_check_prefix d p q : sc_check d (p ++ q) = true -> sc_b (replay_from d p) = true.
Proof.
  revert d. induction p as [|e p IH]; intros d H; cbn [app] in H.
  - apply sc_check_head in H. exact H.
  - cbn [sc_check] in H. apply andb_true_iff in H as [_ H]. rewrite replay_from_cons.
    apply IH. exact H.
Qed.

(* ---------------------------------------------------------------------- *)
(* evaluation of one call                                                  *)

Ltac mstep :=
  cbn -[Z.eqb Z.b2z Nat.ltb firstn nth_error];
  match goal with
  | H : forall j : nat, ?pl j = None |- context [?pl ?k] => rewrite (H k)
  | |- context [match ?pl ?k with Some _ => _ | None => _ end] =>
      match type of pl with nat -> option Z => destruct (pl k) eqn:? end
  | |- context [negb ?b] => is_var b; destruct b
  | |- context [?b || _] => is_var b; destruct b
  | |- context [if ?b then _ else _] => is_var b; destruct b
  | |- context [match ?o with Some _ => _ | None => _ end] => is_var o; destruct o
  | |- context [match ?f ?k with Some _ => _ | None => _ end] =>
      match type of f with Z -> option Z => is_var f; destruct (f k) eqn:? end
  | |- context [?z =? 0] => destruct (Z.eqb_spec z 0)
  end.

Ltac open_call c s :=
  unfold run_call;
  destruct s as [oc os cx en tl aq lr tc bk tf];
  destruct c as [|[xp xt xs xq xy xh xz xm]|cap| | | |kb|kp vp|uv|hb];
  try (destruct cx as [[nt ns np ny nz nm ct cs cp cy cb ht]|]);
  cbv [call_body cam_open cam_load cam_start cam_stop cam_close cam_params cam_bank cam_poke cam_user cam_hold tl_read_back params_ctxt
       bindM get need ret fail panic do_op emit ctxt_loaded].

Ltac open_state s :=
  unfold run_call;
  destruct s as [oc os cx en tl aq lr tc bk tf];
  try (destruct cx as [[nt ns np ny nz nm ct cs cp cy cb ht]|]);
  cbv [call_body cam_open cam_load cam_start cam_stop cam_close cam_params cam_bank cam_poke cam_user cam_hold tl_read_back params_ctxt
       bindM get need ret fail panic do_op emit ctxt_loaded].

Ltac crunch := repeat mstep; cbn -[Z.eqb Z.b2z].

(* A: the resulting state is the replay of the call's effects *)
Lemma call_dev fx c pl s :
  dev_of (r_cam (run_call fx c pl s)) = replay_from (dev_of s) (r_effs (run_call fx c pl s)).
Proof. open_call c s; crunch; reflexivity. Qed.

(* B: the call's effects are admissible *)
Lemma call_check fx c pl s :
  proto_check (dev_of s) (r_effs (run_call fx c pl s)) = true.
Proof. open_call c s; crunch; reflexivity. Qed.

(* C: a running loop implies the streaming configuration and a loaded context *)
Definition Inv (s : cam) : Prop :=
  loop_running s = true ->
  stream_enabled s = true /\ tl_feat s = true /\ acquiring s = true /\ ctxt_loaded s = true.

Lemma call_inv fx c pl s : Inv s -> Inv (r_cam (run_call fx c pl s)).
Proof.
  unfold Inv. open_call c s; cbn [loop_running stream_enabled tl_feat acquiring ctxt];
    intros H; crunch; cbn in *; try (intros; discriminate); try tauto;
    try (intros Hl; specialize (H Hl); tauto); intros; repeat split; try reflexivity; tauto.
Qed.

Lemma call_sc fx c pl s :
  Inv s -> sc_check (dev_of s) (r_effs (run_call fx c pl s)) = true.
Proof.
  unfold Inv. open_call c s; cbn [loop_running stream_enabled tl_feat acquiring ctxt];
    intros H; crunch; try reflexivity;
    unfold sc_b; cbn;
    try (destruct lr; cbn; [destruct H as (-> & -> & -> & _); reflexivity|reflexivity]);
    try (destruct H as (-> & -> & -> & _); reflexivity).
Qed.

(* ---------------------------------------------------------------------- *)
(* sessions                                                                *)

Lemma last_cons_default {A} (a : A) l d : last (a :: l) d = last l a.
Proof.
  revert a d. induction l as [|b l IH]; intros a d; [reflexivity|].
  change (last (a :: b :: l) d) with (last (b :: l) d). rewrite !IH. reflexivity.
Qed.

Lemma final_from_cons s r rs : final_from s (r :: rs) = final_from (r_cam r) rs.
Proof. unfold final_from. cbn [map]. apply last_cons_default. Qed.

Lemma trace_of_cons r rs : trace_of (r :: rs) = r_effs r ++ trace_of rs.
Proof. reflexivity. Qed.

Lemma trace_of_app a b : trace_of (a ++ b) = trace_of a ++ trace_of b.
Proof. unfold trace_of. rewrite map_app, concat_app. reflexivity. Qed.

Lemma run_from_app fx pl cs1 cs2 i s :
  run_from fx pl i s (cs1 ++ cs2) =
  run_from fx pl i s cs1 ++
  run_from fx pl (length cs1 + i) (final_from s (run_from fx pl i s cs1)) cs2.
Proof.
  revert i s. induction cs1 as [|c cs1 IH]; intros i s; cbn [app run_from length].
  - reflexivity.
  - rewrite IH, final_from_cons. cbn [app].
    replace (length cs1 + S i)%nat with (S (length cs1 + i))%nat by lia. reflexivity.
Qed.

Lemma run_dev fx pl cs : forall i s,
  dev_of (final_from s (run_from fx pl i s cs)) =
  replay_from (dev_of s) (trace_of (run_from fx pl i s cs)).
Proof.
  induction cs as [|c cs IH]; intros i s; cbn [run_from].
  - reflexivity.
  - rewrite final_from_cons, trace_of_cons, replay_from_app, <- call_dev. apply IH.
Qed.

Lemma run_check fx pl cs : forall i s,
  proto_check (dev_of s) (trace_of (run_from fx pl i s cs)) = true.
Proof.
  induction cs as [|c cs IH]; intros i s; cbn [run_from].
  - reflexivity.
  - rewrite trace_of_cons, proto_check_app, call_check, <- call_dev. apply IH.
Qed.

Lemma run_inv fx pl cs : forall i s,
  Inv s -> Inv (final_from s (run_from fx pl i s cs)).
Proof.
  induction cs as [|c cs IH]; intros i s H; cbn [run_from].
  - exact H.
  - rewrite final_from_cons. apply IH. apply call_inv. exact H.
Qed.

Lemma inv_sc_b s : Inv s -> sc_b (dev_of s) = true.
Proof.
  unfold Inv, sc_b. destruct s as [oc os cx en tl aq lr tc bk tf]. cbn. destruct lr; [|reflexivity].
  intros H. destruct (H eq_refl) as (-> & -> & -> & _). reflexivity.
Qed.

Lemma run_sc fx pl cs : forall i s,
  Inv s -> sc_check (dev_of s) (trace_of (run_from fx pl i s cs)) = true.
Proof.
  induction cs as [|c cs IH]; intros i s H; cbn [run_from].
  - cbn [trace_of map concat sc_check]. rewrite inv_sc_b by exact H. reflexivity.
  - rewrite trace_of_cons. apply sc_check_app.
    + apply call_sc. exact H.
    + rewrite <- call_dev. apply IH. apply call_inv. exact H.
Qed.

Lemma inv0 : Inv cam0.
Proof. intros H. discriminate. Qed.

(* ---- C16_order -------------------------------------------------------- *)
Theorem order fx pl cs : proto_ok (trace_of (run fx pl cs)).
Proof. apply proto_check_ok. apply (run_check fx pl cs 0%nat cam0). Qed.

Lemma not_acq_after_stop p :
  d_acq (replay p) = false -> In AcqStart p -> since AcqStop AcqStart p.
Proof.
  unfold replay. induction p as [|x p IH] using rev_ind; [intros _ []|].
  rewrite replay_from_app, in_app_iff. cbn [replay_from fold_left].
  destruct x; cbn [dstep d_acq]; intros H Hin;
    try (apply since_snoc; [apply IH; [exact H|destruct Hin as [Hin|[Hin|[]]]; [exact Hin|discriminate]]
                           |discriminate]).
  - discriminate.
  - apply since_here.
Qed.

Lemma not_locked_after_clear p :
  d_locked (replay p) = false -> (exists e, In e p /\ tl_write true e) -> tl_since false p.
Proof.
  unfold replay. induction p as [|x p IH] using rev_ind; [intros _ (e & [] & _)|].
  rewrite replay_from_app. cbn [replay_from fold_left].
  destruct x; cbn [dstep d_locked]; intros H (e & Hin & He);
    try (apply tl_since_snoc; [apply IH; [exact H|]|not_tl];
         apply in_app_iff in Hin as [Hin|[<-|[]]]; [exists e; split; assumption|destruct He as [He|He]; discriminate He]);
    subst b; apply tl_since_here; [left|right]; reflexivity.
Qed.

(* the same ordering, read as "happened before and not undone since" *)
Theorem order_before fx pl cs p q :
  (trace_of (run fx pl cs) = p ++ AcqStart :: q ->
     since EnableStreaming DisableStreaming p /\ tl_since true p) /\
  (trace_of (run fx pl cs) = p ++ LoopStart :: q ->
     since EnableStreaming DisableStreaming p /\ tl_since true p /\
     since AcqStart AcqStop p /\
     (In LoopStart p -> since LoopStop LoopStart p)) /\
  (trace_of (run fx pl cs) = p ++ AcqStop :: q ->
     In LoopStart p -> since LoopStop LoopStart p) /\
  (forall e, tl_write false e -> trace_of (run fx pl cs) = p ++ e :: q ->
     (In LoopStart p -> since LoopStop LoopStart p) /\
     (In AcqStart p -> since AcqStop AcqStart p)) /\
  (trace_of (run fx pl cs) = p ++ DisableStreaming :: q ->
     (In LoopStart p -> since LoopStop LoopStart p) /\
     (In AcqStart p -> since AcqStop AcqStart p) /\
     ((exists e, In e p /\ tl_write true e) -> tl_since false p)).
Proof.
  pose proof (order fx pl cs) as H. unfold proto_ok, proto_ok_from in H.
  assert (K : forall e, trace_of (run fx pl cs) = p ++ e :: q -> allowed (replay p) e = true)
    by (intros e E; exact (H _ _ _ E)).
  split; [|split; [|split; [|split]]]; [| | |intros e [->| ->]|]; intros E; apply K in E; cbn [allowed] in E;
    rewrite ?andb_true_iff, ?negb_true_iff in E.
  - split; [apply enabled_since|apply locked_since]; tauto.
  - split; [apply enabled_since; tauto|].
    split; [apply locked_since; tauto|].
    split; [apply acq_since; tauto|apply not_alive_after_stop; tauto].
  - apply not_alive_after_stop; tauto.
  - split; [apply not_alive_after_stop|apply not_acq_after_stop]; tauto.
  - split; [apply not_alive_after_stop|apply not_acq_after_stop]; tauto.
  - split; [apply not_alive_after_stop; tauto|].
    split; [apply not_acq_after_stop; tauto|apply not_locked_after_clear; tauto].
Qed.

(* ---- state agreement / streaming flag --------------------------------- *)
Theorem state_agrees fx pl cs :
  dev_of (final (run fx pl cs)) = replay (trace_of (run fx pl cs)).
Proof. apply (run_dev fx pl cs 0%nat cam0). Qed.

Theorem flag_matches fx pl cs :
  loop_running (final (run fx pl cs)) = d_alive (replay (trace_of (run fx pl cs))).
Proof. rewrite <- state_agrees. reflexivity. Qed.

Theorem streaming_state fx pl cs p q :
  trace_of (run fx pl cs) = p ++ q -> streaming_config (replay p).
Proof.
  intros E. apply sc_b_ok. pose proof (run_sc fx pl cs 0%nat cam0 inv0) as H.
  fold (run fx pl cs) in H. rewrite E in H. apply sc_check_prefix in H. exact H.
Qed.

(* ---- C16_single_loop -------------------------------------------------- *)
Theorem single_loop fx pl cs p q :
  trace_of (run fx pl cs) = p ++ q ->
  0 <= loops_alive p <= 1 /\
  (forall q', q = LoopStart :: q' -> d_alive (replay p) = false).
Proof.
  intros E. split.
  - eapply loops_alive_bounds; [apply (order fx pl cs)|exact E].
  - intros q' ->. pose proof (order fx pl cs _ _ _ E) as H. cbn [allowed] in H.
    rewrite !andb_true_iff, negb_true_iff in H. apply H.
Qed.

Lemma start_in_streaming fx cap pl s :
  loop_running s = true ->
  run_call fx (CStart cap) pl s =
  {| r_res := Err E_IN_STREAMING; r_effs := []; r_nops := 0; r_atts := []; r_failed := None; r_cam := s |}.
Proof.
  destruct s as [oc os cx en tl aq lr tc bk tf]. cbn [loop_running]. intros ->. reflexivity.
Qed.

Lemma start_without_context cap pl s :
  loop_running s = false -> ctxt s = None ->
  run_call true (CStart cap) pl s =
  {| r_res := Err E_CTXT_MISSING; r_effs := []; r_nops := 0; r_atts := []; r_failed := None; r_cam := s |}.
Proof.
  destruct s as [oc os cx en tl aq lr tc bk tf]. cbn [loop_running ctxt]. intros -> ->. reflexivity.
Qed.

(* the pinned code enabled the stream on the device before noticing the missing context *)
Lemma start_without_context_v0 cap s :
  loop_running s = false -> ctxt s = None ->
  let r := run_call false (CStart cap) (fun _ => None) s in
  r_res r = Err E_CTXT_MISSING /\ r_effs r = [EnableStreaming] /\ stream_enabled (r_cam r) = true.
Proof.
  destruct s as [oc os cx en tl aq lr tc bk tf]. cbn [loop_running ctxt]. intros -> ->.
  repeat split.
Qed.

(* a start that does not return Ok never leaves a new loop behind, whatever fails *)
Lemma start_err_no_loop fx cap pl s :
  let r := run_call fx (CStart cap) pl s in
  (In LoopStart (r_effs r) -> r_res r = Ok (-1)) /\
  (r_res r <> Ok (-1) -> loop_running (r_cam r) = loop_running s).
Proof.
  cbv zeta. open_state s; crunch;
    (split; [intros Hin; cbn in Hin; try reflexivity;
             repeat (destruct Hin as [Hin|Hin]; try discriminate Hin); try contradiction
            |intros Hne; try reflexivity; try (exfalso; apply Hne; reflexivity)]).
Qed.

(* ---- C16_close_clean -------------------------------------------------- *)
Definition G (s : cam) : Prop :=
  (forall c, ctxt s = Some c -> n_tl c = true /\ n_start c = true /\ n_stop c = true) /\
  (loop_running s = false ->
   stream_enabled s = false /\ tl_feat s = false /\ acquiring s = false) /\
  (loop_running s = true -> ctxt_loaded s = true).

Ltac fin :=
  cbn in *; repeat split; intros; subst;
  repeat match goal with
         | H : Some _ = Some _ |- _ => injection H as <-
         end;
  cbn in *; intuition (subst; try congruence).

Ltac useG1 G1 :=
  try (let K := fresh "K" in
       pose proof (G1 _ eq_refl) as K; cbn [n_tl n_start n_stop] in K;
       destruct K as (-> & -> & ->)).

Lemma call_G c plc s :
  G s -> good_call c -> (forall j, plc j = None) -> G (r_cam (run_call true c plc s)).
Proof.
  unfold G. open_call c s;
    cbn [ctxt loop_running stream_enabled tl_feat acquiring good_call x_parses x_tl x_start x_stop];
    intros (G1 & G2 & G3) Hg Hpl;
    useG1 G1; crunch; fin.
Qed.

Lemma close_G plc s :
  G s -> (forall j, plc j = None) ->
  r_res (run_call true CClose plc s) = Ok (-1) /\ clean (r_cam (run_call true CClose plc s)).
Proof.
  unfold G, clean. open_state s;
    cbn [ctxt loop_running stream_enabled tl_feat acquiring];
    intros (G1 & G2 & G3) Hpl;
    useG1 G1; crunch; fin.
Qed.

Lemma run_G pl cs : forall i s,
  (forall i j, pl i j = None) -> G s -> Forall good_call cs ->
  G (final_from s (run_from true pl i s cs)).
Proof.
  induction cs as [|c cs IH]; intros i s Hpl Hs Hg; cbn [run_from].
  - exact Hs.
  - rewrite final_from_cons. inversion Hg; subst. apply IH; [exact Hpl| |assumption].
    apply call_G; [exact Hs|assumption|apply Hpl].
Qed.

Lemma G0 : G cam0.
Proof. unfold G. cbn. repeat split; intros; discriminate. Qed.

Lemma run_snoc fx pl cs c :
  run fx pl (cs ++ [c]) =
  run fx pl cs ++ [run_call fx c (pl (length cs)) (final (run fx pl cs))].
Proof.
  unfold run, final. rewrite run_from_app. cbn [run_from]. rewrite Nat.add_0_r. reflexivity.
Qed.

Lemma final_snoc rs r : final (rs ++ [r]) = r_cam r.
Proof. unfold final, final_from. rewrite map_app. cbn [map]. apply last_last. Qed.

Theorem close_clean pl cs :
  (forall i j, pl i j = None) -> Forall good_call cs ->
  clean (final (run true pl (cs ++ [CClose]))) /\
  exists rs r, run true pl (cs ++ [CClose]) = rs ++ [r] /\ r_res r = Ok (-1).
Proof.
  intros Hpl Hg. rewrite run_snoc, final_snoc.
  pose proof (run_G pl cs 0%nat cam0 Hpl G0 Hg) as HG. fold (run true pl cs) in HG.
  destruct (close_G (pl (length cs)) _ HG (Hpl _)) as [Hr Hc].
  split; [exact Hc|]. eexists _, _. split; [reflexivity|exact Hr].
Qed.

(* pinned code: open, start_streaming without a loaded context, close — nothing failed, and the
   stream stays enabled on the device after close *)
Theorem close_clean_v0_refuted :
  exists cs, Forall good_call cs /\
    stream_enabled (final (run false no_failure (cs ++ [CClose]))) = true /\
    ~ clean (final (run false no_failure (cs ++ [CClose]))).
Proof.
  exists [COpen; CStart 3]. split.
  - repeat constructor. discriminate.
  - split; [reflexivity|]. intros (_ & _ & H & _). discriminate H.
Qed.

(* a description lacking AcquisitionStop: outside the property (the description is assumed to
   define the three nodes); recorded to show the hypothesis of close_clean is needed *)
Lemma close_needs_nodes :
  let x := {| x_parses := true; x_tl := true; x_start := true; x_stop := false; x_copy := false; x_host := false; x_stop0 := false; x_mask := false |} in
  ~ clean (final (run true no_failure ([COpen; CLoad x; CStart 3] ++ [CClose]))).
Proof. cbv zeta. intros (_ & H & _). vm_compute in H. discriminate H. Qed.

(* ---- C16_failure_stops ------------------------------------------------ *)
Ltac mstep0 :=
  cbn -[Z.eqb Z.b2z firstn nth_error Nat.lt lt];
  match goal with
  | |- context [negb ?b] => is_var b; destruct b
  | |- context [?b || _] => is_var b; destruct b
  | |- context [if ?b then _ else _] => is_var b; destruct b
  | |- context [match ?o with Some _ => _ | None => _ end] => is_var o; destruct o
  | |- context [match ?f ?k with Some _ => _ | None => _ end] =>
      match type of f with Z -> option Z => is_var f; destruct (f k) eqn:? end
  | |- context [?z =? 0] => destruct (Z.eqb_spec z 0)
  end.

Ltac fstep Hj Hlt :=
  cbn -[Z.eqb Z.b2z firstn nth_error];
  match goal with
  | |- context [match ?pl ?k with Some _ => _ | None => _ end] =>
      match type of pl with nat -> option Z => first [rewrite Hj | rewrite (Hlt k) by lia] end
  end.

Definition failure_stops_at fx c plc s j cls : Prop :=
  first_fail plc j cls ->
  (j < r_nops (run_call fx c (fun _ => None) s))%nat ->
  exists e, nth_error (r_atts (run_call fx c (fun _ => None) s)) j = Some e /\
    r_failed (run_call fx c plc s) = Some (e, cls) /\
    r_res (run_call fx c plc s) = Err (err_of e cls) /\
    (exists q, r_effs (run_call fx c (fun _ => None) s) = r_effs (run_call fx c plc s) ++ e :: q) /\
    r_atts (run_call fx c plc s) = firstn j (r_atts (run_call fx c (fun _ => None) s)) ++ [e] /\
    r_nops (run_call fx c plc s) = S j.

Ltac fs_tac s j :=
  let Hj := fresh "Hj" in let Hlt := fresh "Hlt" in let Hn := fresh "Hn" in
  unfold failure_stops_at; intros [Hj Hlt]; open_state s; repeat mstep0;
    cbn -[Z.eqb Z.b2z firstn nth_error Nat.lt lt]; intros Hn;
    try (exfalso; lia); repeat (destruct j as [|j]; [|try (exfalso; lia)]);
    repeat fstep Hj Hlt; cbn; eexists;
    (split; [reflexivity|]); (split; [reflexivity|]); (split; [reflexivity|]);
    (split; [eexists; reflexivity|]); split; reflexivity.

(* call by call (the case analysis of start, stop and close is the bulk of it) *)
(* start, stop and close once more by the kind of TLParamsLocked: P = not a <MaskedIntReg>; a <MaskedIntReg> whose
   register is cached (C) / not cached (N: it is read back first) *)
Definition mk_P (c : ctx) : Prop := n_mask c = false.
Definition mk_C (c : ctx) : Prop := n_mask c = true /\ exists b, c_tl c = Some b.
Definition mk_N (c : ctx) : Prop := n_mask c = true /\ c_tl c = None.

Ltac use_kind H :=
  let K := fresh "K" in let K2 := fresh "K" in let b := fresh "b" in
  try (pose proof (H _ eq_refl) as K; unfold mk_P, mk_C, mk_N in K; cbn [n_mask c_tl] in K;
       match type of K with
       | _ /\ (exists _, _) => destruct K as [K [b K2]]; subst
       | _ /\ _ => destruct K as [K K2]; subst
       | _ = _ => subst
       end); clear H.

Ltac fs_tac_m s j H :=
  let Hj := fresh "Hj" in let Hlt := fresh "Hlt" in let Hn := fresh "Hn" in
  unfold failure_stops_at; intros [Hj Hlt]; open_state s; use_kind H; repeat mstep0;
    cbn -[Z.eqb Z.b2z firstn nth_error Nat.lt lt]; intros Hn;
    try (exfalso; lia); repeat (destruct j as [|j]; [|try (exfalso; lia)]);
    repeat fstep Hj Hlt; cbn; eexists;
    (split; [reflexivity|]); (split; [reflexivity|]); (split; [reflexivity|]);
    (split; [eexists; reflexivity|]); split; reflexivity.

Lemma kind_cases s :
  (forall c, ctxt s = Some c -> mk_P c) \/ (forall c, ctxt s = Some c -> mk_C c) \/ (forall c, ctxt s = Some c -> mk_N c).
Proof.
  destruct (ctxt s) as [c|]; [|left; intros c H; discriminate H].
  unfold mk_P, mk_C, mk_N. destruct (n_mask c) eqn:E; [|left; intros c' H; injection H as <-; exact E].
  right. destruct (c_tl c) as [b|] eqn:E2; [left|right]; intros c' H; injection H as <-;
    (split; [exact E|]); [exists b; exact E2|exact E2].
Qed.

Lemma failure_stops_start_P fx cap plc s j cls :
  (forall c, ctxt s = Some c -> mk_P c) -> failure_stops_at fx (CStart cap) plc s j cls.
Proof. intros H. fs_tac_m s j H. Qed.
Lemma failure_stops_start_C fx cap plc s j cls :
  (forall c, ctxt s = Some c -> mk_C c) -> failure_stops_at fx (CStart cap) plc s j cls.
Proof. intros H. fs_tac_m s j H. Qed.
Lemma failure_stops_start_N fx cap plc s j cls :
  (forall c, ctxt s = Some c -> mk_N c) -> failure_stops_at fx (CStart cap) plc s j cls.
Proof. intros H. fs_tac_m s j H. Qed.
Lemma failure_stops_stop_P fx plc s j cls :
  (forall c, ctxt s = Some c -> mk_P c) -> failure_stops_at fx CStop plc s j cls.
Proof. intros H. fs_tac_m s j H. Qed.
Lemma failure_stops_stop_C fx plc s j cls :
  (forall c, ctxt s = Some c -> mk_C c) -> failure_stops_at fx CStop plc s j cls.
Proof. intros H. fs_tac_m s j H. Qed.
Lemma failure_stops_stop_N fx plc s j cls :
  (forall c, ctxt s = Some c -> mk_N c) -> failure_stops_at fx CStop plc s j cls.
Proof. intros H. fs_tac_m s j H. Qed.
Lemma failure_stops_close_P fx plc s j cls :
  (forall c, ctxt s = Some c -> mk_P c) -> failure_stops_at fx CClose plc s j cls.
Proof. intros H. fs_tac_m s j H. Qed.
Lemma failure_stops_close_C fx plc s j cls :
  (forall c, ctxt s = Some c -> mk_C c) -> failure_stops_at fx CClose plc s j cls.
Proof. intros H. fs_tac_m s j H. Qed.
Lemma failure_stops_close_N fx plc s j cls :
  (forall c, ctxt s = Some c -> mk_N c) -> failure_stops_at fx CClose plc s j cls.
Proof. intros H. fs_tac_m s j H. Qed.

Lemma failure_stops_start fx cap plc s j cls : failure_stops_at fx (CStart cap) plc s j cls.
Proof.
  destruct (kind_cases s) as [H|[H|H]];
    [apply failure_stops_start_P|apply failure_stops_start_C|apply failure_stops_start_N]; exact H.
Qed.
Lemma failure_stops_stop fx plc s j cls : failure_stops_at fx CStop plc s j cls.
Proof.
  destruct (kind_cases s) as [H|[H|H]];
    [apply failure_stops_stop_P|apply failure_stops_stop_C|apply failure_stops_stop_N]; exact H.
Qed.
Lemma failure_stops_close fx plc s j cls : failure_stops_at fx CClose plc s j cls.
Proof.
  destruct (kind_cases s) as [H|[H|H]];
    [apply failure_stops_close_P|apply failure_stops_close_C|apply failure_stops_close_N]; exact H.
Qed.

Lemma failure_stops fx c plc s j cls :
  first_fail plc j cls ->
  (j < r_nops (run_call fx c (fun _ => None) s))%nat ->
  exists e, nth_error (r_atts (run_call fx c (fun _ => None) s)) j = Some e /\
    r_failed (run_call fx c plc s) = Some (e, cls) /\
    r_res (run_call fx c plc s) = Err (err_of e cls) /\
    (exists q, r_effs (run_call fx c (fun _ => None) s) = r_effs (run_call fx c plc s) ++ e :: q) /\
    r_atts (run_call fx c plc s) = firstn j (r_atts (run_call fx c (fun _ => None) s)) ++ [e] /\
    r_nops (run_call fx c plc s) = S j.
Proof.
  change (failure_stops_at fx c plc s j cls).
  destruct c as [|x|cap| | | |kb|kp vp|uv|hb];
    [|destruct x as [xp xt xs xq xy xh xz xm]|apply failure_stops_start|apply failure_stops_stop|apply failure_stops_close| | | | |];
    fs_tac s j.
Qed.

(* a planned failure at an operation the call does not reach changes nothing *)
Lemma unreached_failure fx c plc s :
  (forall k, (k < r_nops (run_call fx c (fun _ => None) s))%nat -> plc k = None) ->
  run_call fx c plc s = run_call fx c (fun _ => None) s.
Proof.
  open_call c s; repeat mstep0; cbn -[Z.eqb Z.b2z Nat.lt lt]; intros H;
    repeat (rewrite H by lia; cbn -[Z.eqb Z.b2z]); reflexivity.
Qed.

(* whatever the plan: a call in which an operation failed returns that operation's error, and
   the failed operation is the last one attempted *)
Lemma failed_res fx c plc s e cls :
  r_failed (run_call fx c plc s) = Some (e, cls) ->
  r_res (run_call fx c plc s) = Err (err_of e cls) /\
  exists j, plc j = Some cls /\ r_nops (run_call fx c plc s) = S j.
Proof.
  open_call c s; crunch; intros Hf; try discriminate Hf; injection Hf as <- <-;
    (split; [reflexivity|eexists; split; [eassumption|reflexivity]]).
Qed.

(* The device log of a call: every access is attempted at most once; the log is exactly the accesses
   that succeeded (the call's effects on the device / stream handle) followed, when one failed, by that
   single failed attempt, which is therefore the last thing the call did to the device. *)
Definition failed_att (r : callres) : list effect :=
  match r_failed r with Some (e, _) => [e] | None => [] end.

Definition attempts_at fx c plc s : Prop :=
  NoDup (r_atts (run_call fx c plc s)) /\
  r_atts (run_call fx c plc s) =
    filter is_access (r_effs (run_call fx c plc s)) ++ failed_att (run_call fx c plc s) /\
  length (r_atts (run_call fx c plc s)) = r_nops (run_call fx c plc s).

Ltac at_tac c s H :=
  unfold attempts_at, failed_att; open_call c s; use_kind H; crunch;
    (split; [repeat constructor; cbn; intuition discriminate|split; reflexivity]).

Lemma attempts_call_P fx c plc s : (forall c', ctxt s = Some c' -> mk_P c') -> attempts_at fx c plc s.
Proof. intros H. at_tac c s H. Qed.
Lemma attempts_call_C fx c plc s : (forall c', ctxt s = Some c' -> mk_C c') -> attempts_at fx c plc s.
Proof. intros H. at_tac c s H. Qed.
Lemma attempts_call_N fx c plc s : (forall c', ctxt s = Some c' -> mk_N c') -> attempts_at fx c plc s.
Proof. intros H. at_tac c s H. Qed.

Lemma attempts_call fx c plc s :
  NoDup (r_atts (run_call fx c plc s)) /\
  r_atts (run_call fx c plc s) =
    filter is_access (r_effs (run_call fx c plc s)) ++ failed_att (run_call fx c plc s) /\
  length (r_atts (run_call fx c plc s)) = r_nops (run_call fx c plc s).
Proof.
  change (attempts_at fx c plc s).
  destruct (kind_cases s) as [H|[H|H]]; [apply attempts_call_P|apply attempts_call_C|apply attempts_call_N]; exact H.
Qed.

(* the only panic: start_streaming(0), as documented *)
Lemma panic_only fx c plc s :
  r_res (run_call fx c plc s) = Panic -> c = CStart 0.
Proof.
  open_call c s; crunch; intros H; try discriminate H; subst; reflexivity.
Qed.

Lemma start_cap0 fx plc s c0 :
  loop_running s = false -> ctxt s = Some c0 -> n_tl c0 = true -> n_start c0 = true ->
  (forall j, plc j = None) ->
  r_res (run_call fx (CStart 0) plc s) = Panic /\
  r_effs (run_call fx (CStart 0) plc s) =
    EnableStreaming ::
    match h_tl c0 with
    | Some _ => [HostTL true]
    | None => tl_read_effs c0 ++ SetTLParamsLocked true :: (if n_copy c0 then [CopyTL true] else [])
    end ++ [AcqStart] /\
  loop_running (r_cam (run_call fx (CStart 0) plc s)) = false.
Proof.
  destruct s as [oc os cx en tl aq lr tc bk tf]. destruct c0 as [nt ns np ny nz nm ct cs cp cy cb ht].
  unfold tl_read_effs. cbn [loop_running ctxt n_tl n_start n_copy h_tl n_mask c_tl]. intros -> -> -> -> H.
  unfold run_call.
  cbv [call_body cam_start tl_read_back params_ctxt bindM get need ret fail panic do_op emit ctxt_loaded].
  crunch; try congruence; repeat split.
Qed.

(* every call result of a session is a run_call from some state *)
Lemma run_in fx pl cs : forall i s r,
  In r (run_from fx pl i s cs) -> exists c k s', r = run_call fx c (pl k) s'.
Proof.
  induction cs as [|c cs IH]; intros i s r H; cbn [run_from] in H.
  - destruct H.
  - destruct H as [<-|H]; [eexists _, _, _; reflexivity|]. eapply IH. exact H.
Qed.

Theorem failure_session fx pl cs r e cls :
  In r (run fx pl cs) -> r_failed r = Some (e, cls) ->
  r_res r = Err (err_of e cls) /\ exists k j, pl k j = Some cls /\ r_nops r = S j.
Proof.
  intros Hin Hf. destruct (run_in _ _ _ _ _ _ Hin) as (c & k & s' & ->).
  destruct (failed_res _ _ _ _ _ _ Hf) as [Hr (j & Hj & Hn)].
  split; [exact Hr|]. exists k, j. split; assumption.
Qed.

Theorem attempts_session fx pl cs r :
  In r (run fx pl cs) ->
  NoDup (r_atts r) /\ r_atts r = filter is_access (r_effs r) ++ failed_att r /\
  length (r_atts r) = r_nops r.
Proof.
  intros Hin. destruct (run_in _ _ _ _ _ _ Hin) as (c & k & s' & ->). apply attempts_call.
Qed.

Theorem panic_session fx pl cs r :
  In r (run fx pl cs) -> r_res r = Panic -> In (CStart 0) cs.
Proof.
  unfold run. generalize 0%nat cam0. induction cs as [|c cs IH]; intros i s H Hp; cbn [run_from] in H.
  - destruct H.
  - destruct H as [<-|H].
    + apply panic_only in Hp. subst c. left. reflexivity.
    + right. eapply IH; eassumption.
Qed.

(* non-vacuity: the intended session, its trace and its final state *)
Definition xml_good : xmlv := {| x_parses := true; x_tl := true; x_start := true; x_stop := true; x_copy := false;
                                 x_host := false; x_stop0 := false; x_mask := false |}.
Definition xml_copy : xmlv := {| x_parses := true; x_tl := true; x_start := true; x_stop := true; x_copy := true;
                                 x_host := false; x_stop0 := false; x_mask := false |}.
(* TLParamsLocked on the host side, AcquisitionStop with CommandValue 0 *)
Definition xml_host : xmlv := {| x_parses := true; x_tl := true; x_start := true; x_stop := true; x_copy := false;
                                 x_host := true; x_stop0 := true; x_mask := false |}.

Example session_example :
  let rs := run true no_failure [COpen; CLoad xml_good; CStart 3; CParams; CStop; CClose] in
  trace_of rs =
    [CtrlOpen; StrmOpen; GenApiFetch; LoadCtxt true true true false false false false;
     EnableStreaming; SetTLParamsLocked true; AcqStart; LoopStart;
     LoopStop; AcqStop; SetTLParamsLocked false; DisableStreaming;
     CtrlClose; StrmClose; ClearCache] /\
  map r_res rs = [Ok (-1); Ok (-1); Ok (-1); Ok 1; Ok (-1); Ok (-1)] /\
  clean (final rs).
Proof. vm_compute. repeat split. Qed.

(* a failing AcquisitionStart write: error returned, the loop is not started, the flag is false *)
Example failure_example :
  let rs := run true (plan_of [(2%nat, 2%nat, 1)]) [COpen; CLoad xml_good; CStart 3] in
  map r_res rs = [Ok (-1); Ok (-1); Err (E_GENAPI_DEVICE + 1)] /\
  trace_of rs = [CtrlOpen; StrmOpen; GenApiFetch; LoadCtxt true true true false false false false;
                 EnableStreaming; SetTLParamsLocked true] /\
  loop_running (final rs) = false.
Proof. vm_compute. repeat split. Qed.

(* ---- cached TLParamsLocked is coherent with the device ----------------- *)
Definition coh (s : cam) : bool :=
  match ctxt s with
  | Some c => match c_tl c with Some b => Bool.eqb b (tl_locked s) | None => true end
  | None => true
  end.

Lemma call_coh fx c pl s : coh s = true -> coh (r_cam (run_call fx c pl s)) = true.
Proof.
  unfold coh. open_call c s; cbn [ctxt c_tl tl_locked]; intros H; crunch;
    try reflexivity; try exact H; try apply eqb_reflx.
Qed.

Lemma run_coh fx pl cs : forall i s,
  coh s = true -> coh (final_from s (run_from fx pl i s cs)) = true.
Proof.
  induction cs as [|c cs IH]; intros i s H; cbn [run_from].
  - exact H.
  - rewrite final_from_cons. apply IH. apply call_coh. exact H.
Qed.

Lemma params_value_call fx plc s v :
  coh s = true -> r_res (run_call fx CParams plc s) = Ok v -> v = Z.b2z (tl_value s).
Proof.
  unfold coh, tl_value. open_state s; cbn [ctxt c_tl h_tl tl_locked]; crunch; intros H E;
    try discriminate E; apply Ok_inj in E; subst v; try reflexivity.
  apply eqb_prop in H. subst. reflexivity.
Qed.

(* whenever a params access returns a value, it is the device's TLParamsLocked: the register
   cache never holds a stale value, whatever failed before *)
Theorem params_value fx pl cs plc v :
  r_res (run_call fx CParams plc (final (run fx pl cs))) = Ok v ->
  v = Z.b2z (tl_value (final (run fx pl cs))).
Proof.
  apply params_value_call. apply (run_coh fx pl cs 0%nat cam0). reflexivity.
Qed.

(* ---------------------------------------------------------------------- *)
(* the register bank: one cache block per slot; close drops them           *)

(* a close that returns Ok has dropped every cached bank block (it ended with clear_cache, or there
   is no context at all) *)
Lemma close_clears fx plc s v :
  r_res (run_call fx CClose plc s) = Ok v ->
  forall k, bank_cache (r_cam (run_call fx CClose plc s)) k = None.
Proof. open_state s; crunch; intros H k; try discriminate H; reflexivity. Qed.

(* a slot that is not cached stays uncached through every call that is not a read of that slot *)
Lemma uncached_kept fx c plc s k :
  bank_cache s k = None -> c <> CBank k -> bank_cache (r_cam (run_call fx c plc s)) k = None.
Proof.
  unfold bank_cache. open_call c s; cbn [ctxt c_bank]; intros H Hc; crunch;
    try exact H; try reflexivity.
  destruct (Z.eqb_spec k kb) as [->|_]; [exfalso; apply Hc; reflexivity|exact H].
Qed.

(* a block that is cached after a call was cached before it, or the call is a device read of that
   slot which returned the cached value *)
Lemma cached_origin fx c plc s k v :
  bank_cache (r_cam (run_call fx c plc s)) k = Some v ->
  bank_cache s k = Some v \/
  (c = CBank k /\ r_effs (run_call fx c plc s) = [BankRead k] /\ r_res (run_call fx c plc s) = Ok v).
Proof.
  unfold bank_cache. open_call c s; cbn [ctxt c_bank]; crunch; intros H;
    try discriminate H; try (left; exact H).
  destruct (Z.eqb_spec k kb) as [->|_]; [|left; exact H].
  right. injection H as <-. repeat split.
Qed.

(* the bank access, in any state *)
Lemma bank_read_call fx plc s k :
  let r := run_call fx (CBank k) plc s in
  match r_res r with
  | Ok v =>
      (bank_cache s k = None /\ r_effs r = [BankRead k] /\ r_atts r = [BankRead k] /\ v = bank s k /\
       bank_cache (r_cam r) k = Some v /\ bank (r_cam r) = bank s) \/
      (bank_cache s k = Some v /\ r_effs r = [] /\ r_atts r = [] /\ r_cam r = s)
  | Err e =>
      r_effs r = [] /\ r_cam r = s /\
      ((ctxt s = None /\ r_atts r = [] /\ e = E_CTXT_MISSING) \/
       (exists cls, bank_cache s k = None /\ plc 0%nat = Some cls /\ r_atts r = [BankRead k] /\
                    e = err_of (BankRead k) cls))
  | Panic => False
  end.
Proof.
  cbv zeta. unfold bank_cache. open_state s; cbn [ctxt c_bank]; crunch;
    first [ solve [right; repeat split]
          | solve [left; rewrite Z.eqb_refl; repeat split]
          | solve [repeat split; right; eexists; repeat split]
          | solve [repeat split; left; repeat split] ].
Qed.

Lemma run_from_length fx pl cs : forall i s, length (run_from fx pl i s cs) = length cs.
Proof. induction cs as [|c cs IH]; intros i s; cbn [run_from length]; [reflexivity|rewrite IH; reflexivity]. Qed.

Lemma final_from_app s a b : final_from s (a ++ b) = final_from (final_from s a) b.
Proof.
  revert s. induction a as [|r a IH]; intros s; cbn [app]; [reflexivity|].
  rewrite !final_from_cons. apply IH.
Qed.

Lemma uncached_run fx pl cs k : forall i s,
  bank_cache s k = None -> ~ In (CBank k) cs ->
  bank_cache (final_from s (run_from fx pl i s cs)) k = None.
Proof.
  induction cs as [|c cs IH]; intros i s H Hn; cbn [run_from].
  - exact H.
  - rewrite final_from_cons. apply IH.
    + apply uncached_kept; [exact H|]. intros ->. apply Hn. left. reflexivity.
    + intros Hin. apply Hn. right. exact Hin.
Qed.

Lemma cached_origin_run fx pl cs k v : forall i s,
  bank_cache (final_from s (run_from fx pl i s cs)) k = Some v ->
  bank_cache s k = Some v \/
  exists r, In r (run_from fx pl i s cs) /\ r_effs r = [BankRead k] /\ r_res r = Ok v.
Proof.
  induction cs as [|c cs IH]; intros i s H; cbn [run_from] in *.
  - left. exact H.
  - rewrite final_from_cons in H. destruct (IH _ _ H) as [H1|(r & Hin & He & Hr)].
    + destruct (cached_origin _ _ _ _ _ _ H1) as [H0|(_ & He & Hr)]; [left; exact H0|].
      right. eexists. split; [left; reflexivity|]. split; assumption.
    + right. exists r. split; [right; exact Hin|]. split; assumption.
Qed.

Lemma app_eq_len {A} (a a' b b' : list A) :
  length a = length a' -> a ++ b = a' ++ b' -> a = a' /\ b = b'.
Proof.
  revert a'. induction a as [|x a IH]; intros [|y a'] Hl H; try discriminate Hl.
  - split; [reflexivity|exact H].
  - cbn [app] in H. injection H as -> H. injection Hl as Hl.
    destruct (IH _ Hl H) as [-> ->]. split; reflexivity.
Qed.

(* a session  cs1 . close . cs2 . read of slot k : its results, piece by piece *)
Lemma run_close_read fx pl cs1 cs2 k :
  let s1 := final (run fx pl cs1) in
  let rc := run_call fx CClose (pl (length cs1)) s1 in
  let rs2 := run_from fx pl (S (length cs1)) (r_cam rc) cs2 in
  let s2 := final_from (r_cam rc) rs2 in
  run fx pl (cs1 ++ CClose :: cs2 ++ [CBank k]) =
    run fx pl cs1 ++ rc :: rs2 ++ [run_call fx (CBank k) (pl (length cs2 + S (length cs1))%nat) s2] /\
  final (run fx pl (cs1 ++ CClose :: cs2)) = s2.
Proof.
  cbv zeta. unfold run, final. split.
  - rewrite run_from_app. cbn [run_from]. rewrite Nat.add_0_r, run_from_app. reflexivity.
  - rewrite run_from_app, final_from_app. cbn [run_from]. rewrite Nat.add_0_r, final_from_cons. reflexivity.
Qed.

Theorem cache_dropped_on_close pl cs1 cs2 k rs1 rc rs2 r v :
  run true pl (cs1 ++ CClose :: cs2 ++ [CBank k]) = rs1 ++ rc :: rs2 ++ [r] ->
  length rs1 = length cs1 ->
  r_res rc = Ok (-1) ->
  r_res r = Ok v ->
  (~ In (CBank k) cs2 ->
     r_effs r = [BankRead k] /\ r_atts r = [BankRead k] /\
     v = bank (final (run true pl (cs1 ++ CClose :: cs2))) k) /\
  (r_effs r = [] ->
     exists r', In r' rs2 /\ r_effs r' = [BankRead k] /\ r_atts r' = [BankRead k] /\ r_res r' = Ok v).
Proof.
  intros E Hl Hc Hr.
  destruct (run_close_read true pl cs1 cs2 k) as [E1 E2]. rewrite E1 in E. rewrite E2.
  apply app_eq_len in E; [|unfold run; rewrite run_from_length; symmetry; exact Hl].
  destruct E as [_ E]. injection E as E0 E. apply app_inj_tail in E as [E3 E4].
  subst rc rs2 r. clear E1 E2.
  set (s1 := final (run true pl cs1)) in *.
  set (rc := run_call true CClose (pl (length cs1)) s1) in *.
  set (rs2 := run_from true pl (S (length cs1)) (r_cam rc) cs2) in *.
  set (s2 := final_from (r_cam rc) rs2) in *.
  pose proof (close_clears true _ _ _ Hc) as Hclr. fold rc in Hclr.
  pose proof (bank_read_call true (pl (length cs2 + S (length cs1))%nat) s2 k) as B.
  cbv zeta in B. rewrite Hr in B. split.
  - intros Hn.
    assert (U : bank_cache s2 k = None) by (apply uncached_run; [apply Hclr|exact Hn]).
    destruct B as [(_ & He & Ha & Hv & _)|(Hs & _)]; [|congruence].
    split; [exact He|]. split; [exact Ha|exact Hv].
  - intros He. destruct B as [(_ & He' & _)|(Hs & _)]; [rewrite He' in He; discriminate He|].
    destruct (cached_origin_run _ _ _ _ _ _ _ Hs) as [H0|(r' & Hin & He' & Hr')].
    + rewrite Hclr in H0. discriminate H0.
    + exists r'. split; [exact Hin|]. split; [exact He'|]. split; [|exact Hr'].
      destruct (run_in _ _ _ _ _ _ Hin) as (c & i & s' & ->).
      destruct (attempts_call true c (pl i) s') as (_ & Ha & _). rewrite Ha, He'.
      unfold failed_att. destruct (r_failed (run_call true c (pl i) s')) as [[e cls]|] eqn:Hf; [|reflexivity].
      destruct (failed_res _ _ _ _ _ _ Hf) as [Hx _]. rewrite Hx in Hr'. discriminate Hr'.
Qed.

(* non-vacuity: slot 0 is read (7) and cached, the camera is closed, the device's slots change,
   the camera is opened again (same context), slot 1 is read, then slot 0: a device read returning
   the device's value 9, not the 7 cached before the close *)
Example cache_example :
  let rs := run true no_failure [COpen; CLoad xml_good; CPoke 0 7; CBank 0; CBank 0; CClose;
                                 CPoke 0 9; CPoke 1 8; COpen; CBank 1; CBank 0; CBank 0] in
  map r_res rs = [Ok (-1); Ok (-1); Ok (-1); Ok 7; Ok 7; Ok (-1); Ok (-1); Ok (-1); Ok (-1); Ok 8; Ok 9; Ok 9] /\
  map r_effs (skipn 8 rs) = [[CtrlOpen; StrmOpen]; [BankRead 1]; [BankRead 0]; []] /\
  map r_effs (firstn 5 (skipn 2 rs)) = [[BankPoke 0 7]; [BankRead 0]; []; [CtrlClose; StrmClose; ClearCache]; [BankPoke 0 9]].
Proof. vm_compute. repeat split. Qed.

(* ---------------------------------------------------------------------- *)
(* TLParamsLocked with a <pValueCopy>: a failing copy write                *)

(* whatever the call, the state and the plan: when the write of the mirror register is the operation
   that failed, the call returns that error, the failed write is the last thing it attempted, and it
   is start having done exactly EnableStreaming and the pValue write (no AcquisitionStart, no loop),
   or stop / close having done exactly LoopStop, AcquisitionStop and the pValue write (no
   DisableStreaming, no close of a channel, no cache clearing) *)
Definition copy_failed_at fx c plc s b cls : Prop :=
  r_failed (run_call fx c plc s) = Some (CopyTL b, cls) ->
  r_res (run_call fx c plc s) = Err (err_of (CopyTL b) cls) /\
  r_atts (run_call fx c plc s) = r_effs (run_call fx c plc s) ++ [CopyTL b] /\
  loop_running (r_cam (run_call fx c plc s)) = false /\
  exists rb, (rb = [] \/ rb = [GenApiRead]) /\
  ((b = true /\ (exists cap, c = CStart cap) /\
    r_effs (run_call fx c plc s) = EnableStreaming :: rb ++ [SetTLParamsLocked true]) \/
   (b = false /\ (c = CStop \/ c = CClose) /\
    r_effs (run_call fx c plc s) = [LoopStop; AcqStop] ++ rb ++ [SetTLParamsLocked false])).

Ltac cf_tac c s H :=
  let Hf := fresh "Hf" in
  unfold copy_failed_at; open_call c s; use_kind H; crunch; intros Hf; try discriminate Hf; injection Hf as <- <-;
    (split; [reflexivity|split; [reflexivity|split; [reflexivity|]]]);
    first [ exists []; split; [left; reflexivity|];
            first [ left; split; [reflexivity|split; [eexists; reflexivity|reflexivity]]
                  | right; split; [reflexivity|split; [(left; reflexivity) || (right; reflexivity)|reflexivity]] ]
          | exists [GenApiRead]; split; [right; reflexivity|];
            first [ left; split; [reflexivity|split; [eexists; reflexivity|reflexivity]]
                  | right; split; [reflexivity|split; [(left; reflexivity) || (right; reflexivity)|reflexivity]] ] ].

Lemma copy_failed_call_P fx c plc s b cls : (forall c', ctxt s = Some c' -> mk_P c') -> copy_failed_at fx c plc s b cls.
Proof. intros H. cf_tac c s H. Qed.
Lemma copy_failed_call_C fx c plc s b cls : (forall c', ctxt s = Some c' -> mk_C c') -> copy_failed_at fx c plc s b cls.
Proof. intros H. cf_tac c s H. Qed.
Lemma copy_failed_call_N fx c plc s b cls : (forall c', ctxt s = Some c' -> mk_N c') -> copy_failed_at fx c plc s b cls.
Proof. intros H. cf_tac c s H. Qed.

Lemma copy_failed_call fx c plc s b cls : copy_failed_at fx c plc s b cls.
Proof.
  destruct (kind_cases s) as [H|[H|H]];
    [apply copy_failed_call_P|apply copy_failed_call_C|apply copy_failed_call_N]; exact H.
Qed.

Theorem copy_failure_stops fx pl cs r b cls :
  In r (run fx pl cs) -> r_failed r = Some (CopyTL b, cls) ->
  r_res r = Err (E_GENAPI_DEVICE + cls) /\
  r_atts r = r_effs r ++ [CopyTL b] /\
  loop_running (r_cam r) = false /\
  (exists rb, (rb = [] \/ rb = [GenApiRead]) /\
     ((b = true /\ r_effs r = EnableStreaming :: rb ++ [SetTLParamsLocked true]) \/
      (b = false /\ r_effs r = [LoopStop; AcqStop] ++ rb ++ [SetTLParamsLocked false]))) /\
  exists k j, pl k j = Some cls /\ r_nops r = S j.
Proof.
  intros Hin Hf. destruct (run_in _ _ _ _ _ _ Hin) as (c & k & s' & ->).
  destruct (copy_failed_call _ _ _ _ _ _ Hf) as (Hr & Ha & Hl & rb & Hrb & Hc).
  destruct (failed_res _ _ _ _ _ _ Hf) as [_ (j & Hj & Hn)].
  split; [exact Hr|]. split; [exact Ha|]. split; [exact Hl|]. split.
  - exists rb. split; [exact Hrb|].
    destruct Hc as [(-> & _ & He)|(-> & _ & He)]; [left|right]; (split; [reflexivity|exact He]).
  - exists k, j. split; assumption.
Qed.

(* non-vacuity: the description with the mirror; failure-free, and with the mirror write of start /
   of stop failing with a Timeout *)
Example copy_example :
  let cs := [COpen; CLoad xml_copy; CStart 3; CStop; CClose] in
  trace_of (run true no_failure cs) =
    [CtrlOpen; StrmOpen; GenApiFetch; LoadCtxt true true true true false false false;
     EnableStreaming; SetTLParamsLocked true; CopyTL true; AcqStart; LoopStart;
     LoopStop; AcqStop; SetTLParamsLocked false; CopyTL false; DisableStreaming;
     CtrlClose; StrmClose; ClearCache] /\
  clean (final (run true no_failure cs)) /\ tl_copy (final (run true no_failure cs)) = false /\
  (let rs := run true (plan_of [(2%nat, 2%nat, 1)]) cs in
   map r_res rs = [Ok (-1); Ok (-1); Err (E_GENAPI_DEVICE + 1); Ok (-1); Ok (-1)] /\
   map r_atts rs = [[CtrlOpen; StrmOpen]; [GenApiFetch]; [EnableStreaming; SetTLParamsLocked true; CopyTL true];
                    []; [CtrlClose; StrmClose]]) /\
  (let rs := run true (plan_of [(3%nat, 3%nat, 1)]) cs in
   map r_res rs = [Ok (-1); Ok (-1); Ok (-1); Err (E_GENAPI_DEVICE + 1); Ok (-1)] /\
   nth 3 (map r_atts rs) [] = [LoopStop; AcqStop; SetTLParamsLocked false; CopyTL false] /\
   stream_enabled (final rs) = true /\ tl_copy (final rs) = true).
Proof. vm_compute. repeat split; reflexivity. Qed.

(* ---------------------------------------------------------------------- *)
(* clean close with the mirror: when every description loaded in the session declares the
   <pValueCopy>, the mirror register is 0 after a clean close as well *)
Definition copy_call (c : call) : Prop :=
  match c with CLoad x => x_parses x = true -> x_copy x = true /\ x_host x = false | _ => True end.

Definition GC (s : cam) : Prop :=
  G s /\ (forall c, ctxt s = Some c -> n_copy c = true /\ h_tl c = None) /\
  (loop_running s = false -> tl_copy s = false).

Lemma call_GC c plc s :
  GC s -> good_call c -> copy_call c -> (forall j, plc j = None) -> GC (r_cam (run_call true c plc s)).
Proof.
  unfold GC, G. open_call c s;
    cbn [ctxt loop_running stream_enabled tl_feat acquiring tl_copy good_call copy_call x_parses x_tl x_start x_stop x_copy x_host];
    intros ((G1 & G2 & G3) & G4 & G5) Hg Hc Hpl;
    useG1 G1; try (pose proof (G4 _ eq_refl) as K4; cbn [n_copy h_tl] in K4; destruct K4 as [-> ->]); crunch; fin.
Qed.

Lemma close_GC plc s :
  GC s -> (forall j, plc j = None) -> tl_copy (r_cam (run_call true CClose plc s)) = false.
Proof.
  unfold GC, G. open_state s;
    cbn [ctxt loop_running stream_enabled tl_feat acquiring tl_copy];
    intros ((G1 & G2 & G3) & G4 & G5) Hpl;
    useG1 G1; try (pose proof (G4 _ eq_refl) as K4; cbn [n_copy h_tl] in K4; destruct K4 as [-> ->]); crunch; fin.
Qed.

Lemma run_GC pl cs : forall i s,
  (forall i j, pl i j = None) -> GC s -> Forall good_call cs -> Forall copy_call cs ->
  GC (final_from s (run_from true pl i s cs)).
Proof.
  induction cs as [|c cs IH]; intros i s Hpl Hs Hg Hc; cbn [run_from].
  - exact Hs.
  - rewrite final_from_cons. inversion Hg; subst. inversion Hc; subst.
    apply IH; [exact Hpl| |assumption|assumption].
    apply call_GC; [exact Hs|assumption|assumption|apply Hpl].
Qed.

Lemma GC0 : GC cam0.
Proof. split; [exact G0|]. split; [intros c H; discriminate H|reflexivity]. Qed.

(* TLParamsLocked backed by its register in every description loaded: the register holds what
   TLParamsLocked was given last -- under every failure plan *)
Definition reg_call (c : call) : Prop :=
  match c with CLoad x => x_parses x = true -> x_host x = false | _ => True end.

Definition RG (s : cam) : Prop :=
  (forall c, ctxt s = Some c -> h_tl c = None) /\ tl_locked s = tl_feat s.

Lemma call_RG fx c plc s : RG s -> reg_call c -> RG (r_cam (run_call fx c plc s)).
Proof.
  unfold RG. open_call c s; cbn [ctxt tl_locked tl_feat reg_call x_parses x_host];
    intros (R1 & R2) Hc;
    try (pose proof (R1 _ eq_refl) as K1; cbn [h_tl] in K1; subst ht); crunch; fin.
Qed.

Lemma run_RG fx pl cs : forall i s,
  RG s -> Forall reg_call cs -> RG (final_from s (run_from fx pl i s cs)).
Proof.
  induction cs as [|c cs IH]; intros i s Hs Hc; cbn [run_from].
  - exact Hs.
  - rewrite final_from_cons. inversion Hc; subst. apply IH; [|assumption].
    apply call_RG; assumption.
Qed.

Theorem register_is_feature fx pl cs :
  Forall reg_call cs -> tl_locked (final (run fx pl cs)) = tl_feat (final (run fx pl cs)).
Proof.
  intros Hc. apply (run_RG fx pl cs 0%nat cam0); [|exact Hc].
  split; [intros c H; discriminate H|reflexivity].
Qed.

Theorem close_clean_reg pl cs :
  (forall i j, pl i j = None) -> Forall good_call cs -> Forall reg_call cs ->
  tl_locked (final (run true pl (cs ++ [CClose]))) = false.
Proof.
  intros Hpl Hg Hc. rewrite register_is_feature.
  - destruct (close_clean pl cs Hpl Hg) as [(_ & H & _) _]. exact H.
  - apply Forall_app. split; [exact Hc|]. constructor; [exact I|constructor].
Qed.

(* non-vacuity: TLParamsLocked on the host side, AcquisitionStop with CommandValue 0: the variable is
   written without a device access between EnableStreaming and AcquisitionStart *)
Example host_example :
  let rs := run true no_failure [COpen; CLoad xml_host; CStart 3; CParams; CStop; CParams; CClose] in
  trace_of rs =
    [CtrlOpen; StrmOpen; GenApiFetch; LoadCtxt true true true false true true false;
     EnableStreaming; HostTL true; AcqStart; LoopStart;
     LoopStop; AcqStop; HostTL false; DisableStreaming;
     CtrlClose; StrmClose; ClearCache] /\
  map r_res rs = [Ok (-1); Ok (-1); Ok (-1); Ok 1; Ok (-1); Ok 0; Ok (-1)] /\
  map r_atts rs = [[CtrlOpen; StrmOpen]; [GenApiFetch]; [EnableStreaming; AcqStart; LoopStart]; [];
                   [LoopStop; AcqStop; DisableStreaming]; []; [CtrlClose; StrmClose]] /\
  clean (final rs).
Proof. vm_compute. repeat split; reflexivity. Qed.

Theorem close_clean_copy pl cs :
  (forall i j, pl i j = None) -> Forall good_call cs -> Forall copy_call cs ->
  tl_copy (final (run true pl (cs ++ [CClose]))) = false.
Proof.
  intros Hpl Hg Hc. rewrite run_snoc, final_snoc.
  pose proof (run_GC pl cs 0%nat cam0 Hpl GC0 Hg Hc) as HG. fold (run true pl cs) in HG.
  apply close_GC; [exact HG|apply Hpl].
Qed.

(* ---------------------------------------------------------------------- *)
(* no device operation fails => open / stop / close return Ok and start is refused only for the two
   documented reasons -- whatever the device does to its own memory (CPoke: also the availability
   registers some descriptions attach to the commands, which execute() does not consult) *)
Lemma call_G_res c plc s :
  G s -> good_call c -> (forall j, plc j = None) ->
  match c with
  | COpen | CStop | CClose | CPoke _ _ => r_res (run_call true c plc s) = Ok (-1)
  | CStart _ =>
      r_res (run_call true c plc s) = Ok (-1) \/
      (loop_running s = true /\ r_res (run_call true c plc s) = Err E_IN_STREAMING) \/
      (loop_running s = false /\ ctxt s = None /\ r_res (run_call true c plc s) = Err E_CTXT_MISSING)
  | _ => True
  end.
Proof.
  unfold G. open_call c s;
    cbn [ctxt loop_running stream_enabled tl_feat acquiring good_call x_parses x_tl x_start x_stop];
    intros (G1 & G2 & G3) Hg Hpl; useG1 G1; crunch;
    try exact I; try reflexivity; try congruence;
    first [ left; reflexivity
          | right; left; split; reflexivity
          | right; right; repeat split; reflexivity
          | exfalso; discriminate (G3 eq_refl) ].
Qed.

Theorem no_failure_no_error pl cs c :
  (forall i j, pl i j = None) -> Forall good_call cs -> good_call c ->
  run true pl (cs ++ [c]) = run true pl cs ++ [run_call true c (pl (length cs)) (final (run true pl cs))] /\
  match c with
  | COpen | CStop | CClose | CPoke _ _ =>
      r_res (run_call true c (pl (length cs)) (final (run true pl cs))) = Ok (-1)
  | CStart _ =>
      r_res (run_call true c (pl (length cs)) (final (run true pl cs))) = Ok (-1) \/
      (loop_running (final (run true pl cs)) = true /\
       r_res (run_call true c (pl (length cs)) (final (run true pl cs))) = Err E_IN_STREAMING) \/
      (loop_running (final (run true pl cs)) = false /\ ctxt (final (run true pl cs)) = None /\
       r_res (run_call true c (pl (length cs)) (final (run true pl cs))) = Err E_CTXT_MISSING)
  | _ => True
  end.
Proof.
  intros Hpl Hg Hc. split; [apply run_snoc|].
  apply call_G_res; [|exact Hc|apply Hpl].
  apply (run_G pl cs 0%nat cam0 Hpl G0 Hg).
Qed.

(* ---------------------------------------------------------------------- *)
(* TLParamsLocked as a <MaskedIntReg>; a second handle of the context       *)
Definition xml_mask : xmlv := {| x_parses := true; x_tl := true; x_start := true; x_stop := true; x_copy := false;
                                 x_host := false; x_stop0 := false; x_mask := true |}.

(* non-vacuity: the register is read back before the first write (not before the second: it is cached by
   then); a failing read-back ends start_streaming with its error, nothing later is attempted *)
Example masked_example :
  let cs := [COpen; CLoad xml_mask; CStart 3; CStop; CClose] in
  trace_of (run true no_failure cs) =
    [CtrlOpen; StrmOpen; GenApiFetch; LoadCtxt true true true false false false true;
     EnableStreaming; GenApiRead; SetTLParamsLocked true; AcqStart; LoopStart;
     LoopStop; AcqStop; SetTLParamsLocked false; DisableStreaming;
     CtrlClose; StrmClose; ClearCache] /\
  clean (final (run true no_failure cs)) /\
  (let rs := run true (plan_of [(2%nat, 1%nat, 2)]) cs in
   map r_res rs = [Ok (-1); Ok (-1); Err (E_GENAPI_DEVICE + 2); Ok (-1); Ok (-1)] /\
   map r_atts rs = [[CtrlOpen; StrmOpen]; [GenApiFetch]; [EnableStreaming; GenApiRead]; []; [CtrlClose; StrmClose]] /\
   nth 2 (map r_effs rs) [] = [EnableStreaming] /\
   tl_feat (final rs) = false /\ loop_running (final rs) = false).
Proof. vm_compute. repeat split; reflexivity. Qed.

(* the application taking / dropping a second handle of the context is no step of the camera: nothing is
   attempted, nothing changes -- in particular what close drops does not depend on it *)
Lemma hold_call fx b plc s :
  run_call fx (CHold b) plc s =
  {| r_res := Ok (-1); r_effs := []; r_nops := 0; r_atts := []; r_failed := None; r_cam := s |}.
Proof. reflexivity. Qed.
