(* Proofs for C05 (formula evaluation and parsing).  Part 1: evaluation; part 2: tables;
   part 3: the token-level parser/printer round trip. *)
From Cam Require Import Outcome Formula FuncTable FormulaSyntax FormulaStd.

(* ------------------------------------------------------------------------- *)
(* 64-bit wrap-around                                                         *)
(* ------------------------------------------------------------------------- *)
Definition M64 : Z := 18446744073709551616.
Definition H64 : Z := 9223372036854775808.

Lemma sw64_eq z : sw 64 z = (z + H64) mod M64 - H64.
Proof. reflexivity. Qed.

Lemma sw64_range z : in_i64 (sw 64 z).
Proof.
  rewrite sw64_eq. unfold in_i64, I64_MIN, I64_MAX.
  change (2 ^ 63) with H64.
  assert (0 <= (z + H64) mod M64 < M64) by (apply Z.mod_pos_bound; reflexivity).
  unfold M64, H64 in *. lia.
Qed.

Lemma sw64_id z : in_i64 z -> sw 64 z = z.
Proof.
  unfold in_i64, I64_MIN, I64_MAX. change (2 ^ 63) with H64. intros H.
  rewrite sw64_eq. rewrite Z.mod_small; unfold M64, H64 in *; lia.
Qed.

Lemma sw64_shift z k : sw 64 (z + k * M64) = sw 64 z.
Proof.
  rewrite !sw64_eq. replace (z + k * M64 + H64) with (z + H64 + k * M64) by ring.
  rewrite Z_mod_plus_full. reflexivity.
Qed.

Lemma sw64_repr z : exists k, sw 64 z = z + k * M64.
Proof.
  exists (- ((z + H64) / M64)). rewrite sw64_eq.
  pose proof (Z_div_mod_eq_full (z + H64) M64). lia.
Qed.

Lemma sw64_unique x y k : in_i64 x -> x = y + k * M64 -> sw 64 y = x.
Proof.
  intros Hx ->. rewrite <- (sw64_shift y k). apply sw64_id. exact Hx.
Qed.

Lemma sw64_add a b : sw 64 (sw 64 a + sw 64 b) = sw 64 (a + b).
Proof.
  destruct (sw64_repr a) as [k1 ->]. destruct (sw64_repr b) as [k2 ->].
  replace (a + k1 * M64 + (b + k2 * M64)) with (a + b + (k1 + k2) * M64) by ring.
  apply sw64_shift.
Qed.
Lemma sw64_sub a b : sw 64 (sw 64 a - sw 64 b) = sw 64 (a - b).
Proof.
  destruct (sw64_repr a) as [k1 ->]. destruct (sw64_repr b) as [k2 ->].
  replace (a + k1 * M64 - (b + k2 * M64)) with (a - b + (k1 - k2) * M64) by ring.
  apply sw64_shift.
Qed.
Lemma sw64_mul a b : sw 64 (sw 64 a * sw 64 b) = sw 64 (a * b).
Proof.
  destruct (sw64_repr a) as [k1 ->]. destruct (sw64_repr b) as [k2 ->].
  replace ((a + k1 * M64) * (b + k2 * M64)) with (a * b + (a * k2 + k1 * b + k1 * k2 * M64) * M64) by ring.
  apply sw64_shift.
Qed.
Lemma sw64_opp a : sw 64 (- sw 64 a) = sw 64 (- a).
Proof.
  destruct (sw64_repr a) as [k1 ->].
  replace (- (a + k1 * M64)) with (- a + (- k1) * M64) by ring.
  apply sw64_shift.
Qed.
Lemma sw64_lnot a : Z.lnot (sw 64 a) = sw 64 (Z.lnot a).
Proof.
  symmetry. destruct (sw64_repr a) as [k Hk].
  apply sw64_unique with (k := - k).
  - pose proof (sw64_range a) as R. unfold in_i64, I64_MIN, I64_MAX in *. unfold Z.lnot. lia.
  - unfold Z.lnot, Z.pred, M64 in *. lia.
Qed.
Lemma sw64_idem a : sw 64 (sw 64 a) = sw 64 a.
Proof. apply sw64_id, sw64_range. Qed.

(* bitwise operators commute with the wrap (sign extension from bit 63) *)
Lemma M64_pow : M64 = 2 ^ 64. Proof. reflexivity. Qed.
Lemma H64_pow : H64 = 2 ^ 63. Proof. reflexivity. Qed.

Lemma sw64_cases z :
  (sw 64 z = z mod M64 /\ 0 <= z mod M64 < H64) \/ (sw 64 z = z mod M64 - M64 /\ H64 <= z mod M64 < M64).
Proof.
  pose proof (Z.mod_pos_bound z M64 ltac:(reflexivity)) as Hy.
  destruct (Z_lt_ge_dec (z mod M64) H64) as [Hlt | Hge]; [left | right]; split; try lia.
  - apply (sw64_unique _ z (- (z / M64))).
    + unfold in_i64, I64_MIN, I64_MAX. change (2 ^ 63) with H64. unfold H64 in *. lia.
    + pose proof (Z_div_mod_eq_full z M64). lia.
  - apply (sw64_unique _ z (- (z / M64) - 1)).
    + unfold in_i64, I64_MIN, I64_MAX. change (2 ^ 63) with H64. unfold H64, M64 in *. lia.
    + pose proof (Z_div_mod_eq_full z M64). lia.
Qed.

Lemma testbit63_low y : 0 <= y < H64 -> Z.testbit y 63 = false.
Proof.
  intros H. apply Z.testbit_false; [lia|]. rewrite <- H64_pow. rewrite Z.div_small by lia. reflexivity.
Qed.
Lemma testbit63_high y : H64 <= y < M64 -> Z.testbit y 63 = true.
Proof.
  intros H. apply Z.testbit_true; [lia|]. rewrite <- H64_pow.
  replace (y / H64) with 1; [reflexivity|]. apply Z.div_unique with (r := y - H64); unfold H64, M64 in *; lia.
Qed.

Lemma sw64_testbit z i : 0 <= i -> Z.testbit (sw 64 z) i = Z.testbit z (Z.min i 63).
Proof.
  intros Hi.
  assert (Hlow : forall j, 0 <= j < 64 -> Z.testbit (z mod M64) j = Z.testbit z j).
  { intros j Hj. rewrite M64_pow. apply Z.mod_pow2_bits_low. lia. }
  destruct (sw64_cases z) as [[-> Hy] | [-> Hy]].
  - destruct (Z_lt_ge_dec i 63) as [Hlt | Hge].
    + rewrite Z.min_l by lia. apply Hlow. lia.
    + rewrite Z.min_r by lia. rewrite <- (Hlow 63) by lia. rewrite (testbit63_low _ Hy).
      destruct (Z.eq_dec i 63) as [-> | Hne]; [apply testbit63_low; exact Hy|].
      rewrite M64_pow. apply Z.mod_pow2_bits_high. lia.
  - assert (Hsub : forall j, 0 <= j < 64 -> Z.testbit (z mod M64 - M64) j = Z.testbit z j).
    { intros j Hj. rewrite <- (Hlow j Hj).
      rewrite <- (Z.mod_pow2_bits_low (z mod M64 - M64) 64 j) by lia.
      rewrite <- M64_pow. replace (z mod M64 - M64) with (z mod M64 + (-1) * M64) by ring.
      rewrite Z_mod_plus_full. rewrite Z.mod_mod by (unfold M64; lia). reflexivity. }
    destruct (Z_lt_ge_dec i 64) as [Hlt | Hge].
    + destruct (Z_lt_ge_dec i 63) as [Hlt' | Hge'].
      * rewrite Z.min_l by lia. apply Hsub. lia.
      * replace i with 63 by lia. rewrite Z.min_r by lia. apply Hsub. lia.
    + rewrite Z.min_r by lia. rewrite <- (Hlow 63) by lia. rewrite (testbit63_high _ Hy).
      apply Z.bits_above_log2_neg; [unfold M64, H64 in *; lia|].
      set (q := Z.pred (- (z mod M64 - M64))).
      assert (0 <= q < H64) as Hq by (unfold q, M64, H64 in *; lia).
      destruct (Z.eq_dec q 0) as [-> | Hq0]; [cbn; lia|].
      apply Z.log2_lt_pow2; [lia|].
      apply Z.lt_le_trans with (2 ^ 63); [rewrite <- H64_pow; lia|].
      apply Z.pow_le_mono_r; lia.
Qed.

Lemma sw64_bitop (f : Z -> Z -> Z) (g : bool -> bool -> bool) :
  (forall a b n, 0 <= n -> Z.testbit (f a b) n = g (Z.testbit a n) (Z.testbit b n)) ->
  forall a b, f (sw 64 a) (sw 64 b) = sw 64 (f a b).
Proof.
  intros Hspec a b. apply Z.bits_inj'. intros n Hn.
  rewrite Hspec by exact Hn. rewrite !sw64_testbit by exact Hn. rewrite Hspec by lia. reflexivity.
Qed.
Lemma sw64_land a b : Z.land (sw 64 a) (sw 64 b) = sw 64 (Z.land a b).
Proof. apply (sw64_bitop Z.land andb). intros; apply Z.land_spec. Qed.
Lemma sw64_lor a b : Z.lor (sw 64 a) (sw 64 b) = sw 64 (Z.lor a b).
Proof. apply (sw64_bitop Z.lor orb). intros; apply Z.lor_spec. Qed.
Lemma sw64_lxor a b : Z.lxor (sw 64 a) (sw 64 b) = sw 64 (Z.lxor a b).
Proof. apply (sw64_bitop Z.lxor xorb). intros; apply Z.lxor_spec. Qed.

(* the power loop computes the wrapped power *)
Definition eqm (a b : Z) : Prop := sw 64 a = sw 64 b.

Lemma eqm_mul a a' b b' : eqm a a' -> eqm b b' -> eqm (a * b) (a' * b').
Proof.
  unfold eqm. intros Ha Hb. rewrite <- (sw64_mul a b), <- (sw64_mul a' b'), Ha, Hb. reflexivity.
Qed.
Lemma eqm_sw a : eqm (sw 64 a) a.
Proof. apply sw64_idem. Qed.
Lemma eqm_pow x y q : eqm x y -> eqm (x ^ Zpos q) (y ^ Zpos q).
Proof.
  intros H. induction q using Pos.peano_ind.
  - rewrite !Z.pow_1_r. exact H.
  - rewrite Pos2Z.inj_succ, !Z.pow_succ_r by lia. apply eqm_mul; assumption.
Qed.

Lemma pow_double b q : b ^ Zpos (q~0) = (b * b) ^ Zpos q.
Proof.
  change (Z.pos q~0) with (2 * Z.pos q). rewrite Z.pow_mul_l.
  replace (2 * Z.pos q) with (Z.pos q + Z.pos q) by lia. rewrite Z.pow_add_r by lia. reflexivity.
Qed.
Lemma pow_double1 b q : b ^ Zpos (q~1) = b * (b * b) ^ Zpos q.
Proof.
  change (Z.pos q~1) with (2 * Z.pos q + 1). rewrite Z.pow_add_r by lia. rewrite Z.pow_1_r.
  change (2 * Z.pos q) with (Z.pos q~0). rewrite pow_double. ring.
Qed.

Lemma wpow_loop_spec p : forall acc b, wpow_loop acc b p = sw 64 (acc * b ^ Zpos p).
Proof.
  induction p as [q IH | q IH |]; intros acc b; cbn [wpow_loop].
  - rewrite IH. rewrite pow_double1.
    replace (acc * (b * (b * b) ^ Z.pos q)) with (acc * b * (b * b) ^ Z.pos q) by ring.
    apply eqm_mul; [apply eqm_sw | apply eqm_pow, eqm_sw].
  - rewrite IH. rewrite pow_double.
    apply eqm_mul; [reflexivity | apply eqm_pow, eqm_sw].
  - rewrite Z.pow_1_r. reflexivity.
Qed.

Lemma pow_wrap_spec b n : 0 <= n -> pow_wrap b n = sw 64 (b ^ n).
Proof.
  destruct n as [| p | p]; intros Hn; try lia.
  - reflexivity.
  - cbn [pow_wrap]. rewrite wpow_loop_spec. rewrite Z.mul_1_l. reflexivity.
Qed.

(* ------------------------------------------------------------------------- *)
(* eval: one-step unfolding                                                   *)
(* ------------------------------------------------------------------------- *)
Section EvalFacts.
  Variable fops : float_ops.
  Variable fixd : bool.

  Definition deref (fuel : nat) (env : list (ident * expr)) (e' : expr) : outcome res :=
    match fuel with O => Err E_FUEL | S f => eval fops fixd f env e' end.

  Definition eval_step (ev : expr -> outcome res) (fuel : nat) (env : list (ident * expr)) (e : expr)
    : outcome res :=
    match e with
    | EBin BAnd l r =>
        let? a := ev l in
        if as_bool a then (let? b := ev r in Ok (of_bool (as_bool b))) else Ok (of_bool false)
    | EBin BOr l r =>
        let? a := ev l in
        if as_bool a then Ok (of_bool true) else (let? b := ev r in Ok (of_bool (as_bool b)))
    | EBin k l r => let? a := ev l in let? b := ev r in binop_strict fops fixd k a b
    | EUn k x => let? a := ev x in unop_apply fops fixd k a
    | EIf c t f => let? a := ev c in if as_bool a then ev t else ev f
    | EInt i => Ok (RInt i)
    | EFloat b => Ok (RFloat b)
    | EIdent s =>
        match lookup s env with
        | None => Err E_INVALID_NODE
        | Some e' => deref fuel env e'
        end
    end.

  Lemma eval_eq fuel env e :
    eval fops fixd fuel env e = eval_step (eval fops fixd fuel env) fuel env e.
  Proof. destruct fuel; destruct e; try reflexivity; destruct k; reflexivity. Qed.
End EvalFacts.

(* ------------------------------------------------------------------------- *)
(* C05_eval_no_panic                                                          *)
(* ------------------------------------------------------------------------- *)
Definition strict_op (k : binop) : Prop := k <> BAnd /\ k <> BOr.

Lemma binop_strict_no_panic fops k a b : strict_op k -> binop_strict fops true k a b <> Panic.
Proof.
  intros [H1 H2]. destruct k; cbn [binop_strict]; try congruence;
    repeat match goal with |- context [if ?c then _ else _] => destruct c end; congruence.
Qed.

Lemma unop_apply_no_panic fops k a : unop_apply fops true k a <> Panic.
Proof. destruct k, a; cbn; congruence. Qed.

Lemma bind_no_panic {A B} (x : outcome A) (f : A -> outcome B) :
  x <> Panic -> (forall a, x = Ok a -> f a <> Panic) -> bind x f <> Panic.
Proof. destruct x; cbn; intros; auto; congruence. Qed.

Lemma eval_no_panic fops fuel env e : eval fops true fuel env e <> Panic.
Proof.
  revert e. induction fuel as [| f IHf].
  - induction e; rewrite eval_eq; cbn [eval_step].
    + destruct k; try (apply bind_no_panic; [assumption|]; intros a _; apply bind_no_panic; [assumption|];
        intros b _; apply binop_strict_no_panic; split; congruence).
      * apply bind_no_panic; [assumption|]. intros a _. destruct (as_bool a); [|congruence].
        apply bind_no_panic; [assumption|]. congruence.
      * apply bind_no_panic; [assumption|]. intros a _. destruct (as_bool a); [congruence|].
        apply bind_no_panic; [assumption|]. congruence.
    + apply bind_no_panic; [assumption|]. intros a _. apply unop_apply_no_panic.
    + apply bind_no_panic; [assumption|]. intros a _. destruct (as_bool a); assumption.
    + congruence.
    + congruence.
    + destruct (lookup s env); cbn; congruence.
  - induction e; rewrite eval_eq; cbn [eval_step].
    + destruct k; try (apply bind_no_panic; [assumption|]; intros a _; apply bind_no_panic; [assumption|];
        intros b _; apply binop_strict_no_panic; split; congruence).
      * apply bind_no_panic; [assumption|]. intros a _. destruct (as_bool a); [|congruence].
        apply bind_no_panic; [assumption|]. congruence.
      * apply bind_no_panic; [assumption|]. intros a _. destruct (as_bool a); [congruence|].
        apply bind_no_panic; [assumption|]. congruence.
    + apply bind_no_panic; [assumption|]. intros a _. apply unop_apply_no_panic.
    + apply bind_no_panic; [assumption|]. intros a _. destruct (as_bool a); assumption.
    + congruence.
    + congruence.
    + destruct (lookup s env); cbn [deref]; [apply IHf | congruence].
Qed.

(* ------------------------------------------------------------------------- *)
(* C05_eval_errors                                                            *)
(* ------------------------------------------------------------------------- *)
Definition err_class_ok (c : Z) : Prop := c = E_INVALID_NODE \/ c = E_INVALID_DATA \/ c = E_FUEL.

Lemma binop_strict_err fops k a b c : binop_strict fops true k a b = Err c -> c = E_INVALID_DATA.
Proof.
  destruct k; cbn [binop_strict]; try congruence;
    repeat match goal with |- context [if ?c then _ else _] => destruct c end; congruence.
Qed.

(* integer remainder by zero is the only error of an operator, and it is one *)
Lemma binop_strict_err_iff fops k a b c :
  binop_strict fops true k a b = Err c <->
  (k = BRem /\ c = E_INVALID_DATA /\ exists x, a = RInt x /\ b = RInt 0).
Proof.
  split.
  - destruct k; cbn [binop_strict]; try congruence;
      try (repeat match goal with |- context [if ?c then _ else _] => destruct c end; congruence).
    destruct a as [x | x], b as [y | y]; cbn; try congruence.
    destruct (y =? 0) eqn:E; try congruence. apply Z.eqb_eq in E. subst y.
    intros H. injection H as <-. repeat split; eauto.
  - intros (-> & -> & x & -> & ->). reflexivity.
Qed.

Lemma unop_apply_ok fops k a : exists r, unop_apply fops true k a = Ok r.
Proof. destruct k, a; cbn; eauto. Qed.

Lemma bind_err {A B} (x : outcome A) (f : A -> outcome B) c :
  bind x f = Err c -> x = Err c \/ exists a, x = Ok a /\ f a = Err c.
Proof. destruct x; cbn; intros H; [right; eauto | left; injection H as ->; reflexivity | discriminate]. Qed.

Lemma eval_err_class fops fuel env e c :
  eval fops true fuel env e = Err c -> err_class_ok c.
Proof.
  revert e c. induction fuel as [| f IHf].
  - induction e; intros c; rewrite eval_eq; cbn [eval_step]; intros H.
    + destruct k;
        try (apply bind_err in H; destruct H as [H | (a & _ & H)]; [eauto|];
             apply bind_err in H; destruct H as [H | (b & _ & H)]; [eauto|];
             apply binop_strict_err in H; subst; right; left; reflexivity).
      * apply bind_err in H. destruct H as [H | (a & _ & H)]; [eauto|].
        destruct (as_bool a); [|discriminate].
        apply bind_err in H. destruct H as [H | (b & _ & H)]; [eauto|discriminate].
      * apply bind_err in H. destruct H as [H | (a & _ & H)]; [eauto|].
        destruct (as_bool a); [discriminate|].
        apply bind_err in H. destruct H as [H | (b & _ & H)]; [eauto|discriminate].
    + apply bind_err in H. destruct H as [H | (a & _ & H)]; [eauto|].
      destruct (unop_apply_ok fops k a) as [r Hr]. congruence.
    + apply bind_err in H. destruct H as [H | (a & _ & H)]; [eauto|].
      destruct (as_bool a); eauto.
    + discriminate.
    + discriminate.
    + destruct (lookup s env); cbn in H; injection H as <-; unfold err_class_ok; auto.
  - induction e; intros c; rewrite eval_eq; cbn [eval_step]; intros H.
    + destruct k;
        try (apply bind_err in H; destruct H as [H | (a & _ & H)]; [eauto|];
             apply bind_err in H; destruct H as [H | (b & _ & H)]; [eauto|];
             apply binop_strict_err in H; subst; right; left; reflexivity).
      * apply bind_err in H. destruct H as [H | (a & _ & H)]; [eauto|].
        destruct (as_bool a); [|discriminate].
        apply bind_err in H. destruct H as [H | (b & _ & H)]; [eauto|discriminate].
      * apply bind_err in H. destruct H as [H | (a & _ & H)]; [eauto|].
        destruct (as_bool a); [discriminate|].
        apply bind_err in H. destruct H as [H | (b & _ & H)]; [eauto|discriminate].
    + apply bind_err in H. destruct H as [H | (a & _ & H)]; [eauto|].
      destruct (unop_apply_ok fops k a) as [r Hr]. congruence.
    + apply bind_err in H. destruct H as [H | (a & _ & H)]; [eauto|].
      destruct (as_bool a); eauto.
    + discriminate.
    + discriminate.
    + destruct (lookup s env); cbn [deref] in H; [eauto|].
      injection H as <-. unfold err_class_ok; auto.
Qed.

(* the two error sources do give errors *)
Lemma eval_unknown_ident fops fuel env s :
  lookup s env = None -> eval fops true fuel env (EIdent s) = Err E_INVALID_NODE.
Proof. intros H. rewrite eval_eq. cbn [eval_step]. rewrite H. reflexivity. Qed.

Lemma eval_rem_zero fops fuel env l r x :
  eval fops true fuel env l = Ok (RInt x) -> eval fops true fuel env r = Ok (RInt 0) ->
  eval fops true fuel env (EBin BRem l r) = Err E_INVALID_DATA.
Proof. intros Hl Hr. rewrite eval_eq. cbn [eval_step]. rewrite Hl, Hr. reflexivity. Qed.

(* Environments whose entries are literals (what the SwissKnife/Converter nodes build from
   pVariable values and constants) never run out of fuel, and an expression without `%` whose
   identifiers are bound always evaluates to a value. *)
Definition is_literal (e : expr) : bool := match e with EInt _ | EFloat _ => true | _ => false end.
Definition value_env (env : list (ident * expr)) : Prop :=
  forall s e, lookup s env = Some e -> is_literal e = true.

Fixpoint no_error_source (env : list (ident * expr)) (e : expr) : Prop :=
  match e with
  | EBin k a b => k <> BRem /\ no_error_source env a /\ no_error_source env b
  | EUn _ a => no_error_source env a
  | EIf a b c => no_error_source env a /\ no_error_source env b /\ no_error_source env c
  | EIdent s => lookup s env <> None
  | _ => True
  end.

Lemma binop_strict_ok fops k a b : strict_op k -> k <> BRem -> exists r, binop_strict fops true k a b = Ok r.
Proof.
  intros [H1 H2] H3. destruct k; cbn [binop_strict]; try congruence; eauto;
    repeat match goal with |- context [if ?c then _ else _] => destruct c end; eauto.
Qed.

Lemma eval_total fops fuel env e :
  value_env env -> no_error_source env e -> exists r, eval fops true (S fuel) env e = Ok r.
Proof.
  intros Henv. induction e; rewrite eval_eq; cbn [eval_step no_error_source].
  - intros (Hk & Ha & Hb). destruct (IHe1 Ha) as [a ->]. destruct (IHe2 Hb) as [b ->]. cbn [bind].
    destruct k; try (apply binop_strict_ok; [split|]; congruence).
    + destruct (as_bool a); cbn; eauto.
    + destruct (as_bool a); cbn; eauto.
  - intros Ha. destruct (IHe Ha) as [a ->]. cbn [bind]. apply unop_apply_ok.
  - intros (Ha & Hb & Hc). destruct (IHe1 Ha) as [a ->]. cbn [bind]. destruct (as_bool a); auto.
  - eauto.
  - eauto.
  - intros Hs. destruct (lookup s env) as [e' |] eqn:E; [|congruence].
    apply Henv in E. cbn [deref]. destruct e'; try discriminate; rewrite eval_eq; cbn; eauto.
Qed.

(* ------------------------------------------------------------------------- *)
(* C05_short_circuit                                                          *)
(* ------------------------------------------------------------------------- *)
Lemma short_and fops fuel env l r a :
  eval fops true fuel env l = Ok a -> as_bool a = false ->
  eval fops true fuel env (EBin BAnd l r) = Ok (RInt 0).
Proof. intros H1 H2. rewrite eval_eq. cbn [eval_step]. rewrite H1. cbn [bind]. rewrite H2. reflexivity. Qed.

Lemma short_or fops fuel env l r a :
  eval fops true fuel env l = Ok a -> as_bool a = true ->
  eval fops true fuel env (EBin BOr l r) = Ok (RInt 1).
Proof. intros H1 H2. rewrite eval_eq. cbn [eval_step]. rewrite H1. cbn [bind]. rewrite H2. reflexivity. Qed.

Lemma and_full fops fuel env l r a :
  eval fops true fuel env l = Ok a -> as_bool a = true ->
  eval fops true fuel env (EBin BAnd l r) =
  omap (fun b => of_bool (as_bool b)) (eval fops true fuel env r).
Proof.
  intros H1 H2. rewrite eval_eq. cbn [eval_step]. rewrite H1. cbn [bind]. rewrite H2.
  destruct (eval fops true fuel env r); reflexivity.
Qed.

Lemma or_full fops fuel env l r a :
  eval fops true fuel env l = Ok a -> as_bool a = false ->
  eval fops true fuel env (EBin BOr l r) =
  omap (fun b => of_bool (as_bool b)) (eval fops true fuel env r).
Proof.
  intros H1 H2. rewrite eval_eq. cbn [eval_step]. rewrite H1. cbn [bind]. rewrite H2.
  destruct (eval fops true fuel env r); reflexivity.
Qed.

Lemma ternary_taken fops fuel env c t f a :
  eval fops true fuel env c = Ok a ->
  eval fops true fuel env (EIf c t f) =
  if as_bool a then eval fops true fuel env t else eval fops true fuel env f.
Proof. intros H1. rewrite eval_eq. cbn [eval_step]. rewrite H1. reflexivity. Qed.

Lemma short_circuit_all fops fuel env l r c t f a :
  (eval fops true fuel env l = Ok a -> as_bool a = false ->
   eval fops true fuel env (EBin BAnd l r) = Ok (RInt 0)) /\
  (eval fops true fuel env l = Ok a -> as_bool a = true ->
   eval fops true fuel env (EBin BOr l r) = Ok (RInt 1)) /\
  (eval fops true fuel env c = Ok a ->
   eval fops true fuel env (EIf c t f) =
   if as_bool a then eval fops true fuel env t else eval fops true fuel env f).
Proof. repeat split; [apply short_and | apply short_or | apply ternary_taken]. Qed.

(* ------------------------------------------------------------------------- *)
(* C05_typing                                                                 *)
(* ------------------------------------------------------------------------- *)
(* Some true = certainly an integer, Some false = certainly a float, None = depends on values
   (`**` whose exponent sign is not known statically, a ternary with branches of different kinds). *)
Definition join_arith (a b : option bool) : option bool :=
  match a, b with
  | Some false, _ | _, Some false => Some false
  | Some true, Some true => Some true
  | _, _ => None
  end.

Fixpoint static_kind (env : list (ident * expr)) (e : expr) : option bool :=
  match e with
  | EInt _ => Some true
  | EFloat _ => Some false
  | EIdent s =>
      match lookup s env with
      | Some (EInt _) => Some true
      | Some (EFloat _) => Some false
      | _ => None
      end
  | EBin k a b =>
      match k with
      | BAdd | BSub | BMul | BRem => join_arith (static_kind env a) (static_kind env b)
      | BDiv => Some false
      | BPow =>
          match join_arith (static_kind env a) (static_kind env b), b with
          | Some false, _ => Some false
          | Some true, EInt i => if 0 <=? i then Some true else Some false
          | _, _ => None
          end
      | _ => Some true
      end
  | EUn k a =>
      match k with
      | UNot => Some true
      | UAbs | USgn | UNeg => static_kind env a
      | _ => Some false
      end
  | EIf _ t f =>
      match static_kind env t, static_kind env f with
      | Some x, Some y => if Bool.eqb x y then Some x else None
      | _, _ => None
      end
  end.

Lemma join_arith_true a b : join_arith a b = Some true -> a = Some true /\ b = Some true.
Proof. destruct a as [[|]|], b as [[|]|]; cbn; intros; try discriminate; auto. Qed.
Lemma join_arith_false a b : join_arith a b = Some false -> a = Some false \/ b = Some false.
Proof. destruct a as [[|]|], b as [[|]|]; cbn; intros; try discriminate; auto. Qed.

Lemma arith_kind fops fi ff a b :
  is_integer (arith fops fi ff a b) = is_integer a && is_integer b.
Proof. unfold arith. destruct (is_integer a && is_integer b); reflexivity. Qed.

Lemma bind_ok {A B} (x : outcome A) (f : A -> outcome B) r :
  bind x f = Ok r -> exists a, x = Ok a /\ f a = Ok r.
Proof. destruct x; cbn; intros; eauto; discriminate. Qed.

Lemma typing fops fuel env e r b :
  value_env env ->
  eval fops true (S fuel) env e = Ok r -> static_kind env e = Some b -> is_integer r = b.
Proof.
  intros Henv. revert r b.
  induction e; intros r bb; rewrite eval_eq; cbn [eval_step static_kind]; intros H K.
  - (* binary *)
    destruct k;
      try (apply bind_ok in H; destruct H as (a & Ha & H); apply bind_ok in H; destruct H as (b & Hb & H)).
    all: try (cbn [binop_strict] in H; apply Ok_inj in H; subst r; injection K as <-; reflexivity).
    + (* Add *) cbn [binop_strict] in H. apply Ok_inj in H. subst r. rewrite arith_kind.
      destruct bb.
      * apply join_arith_true in K. destruct K as [K1 K2].
        rewrite (IHe1 _ _ Ha K1), (IHe2 _ _ Hb K2). reflexivity.
      * apply join_arith_false in K. destruct K as [K | K].
        -- rewrite (IHe1 _ _ Ha K). reflexivity.
        -- rewrite (IHe2 _ _ Hb K). apply andb_false_r.
    + (* Sub *) cbn [binop_strict] in H. apply Ok_inj in H. subst r. rewrite arith_kind.
      destruct bb.
      * apply join_arith_true in K. destruct K as [K1 K2].
        rewrite (IHe1 _ _ Ha K1), (IHe2 _ _ Hb K2). reflexivity.
      * apply join_arith_false in K. destruct K as [K | K].
        -- rewrite (IHe1 _ _ Ha K). reflexivity.
        -- rewrite (IHe2 _ _ Hb K). apply andb_false_r.
    + (* Mul *) cbn [binop_strict] in H. apply Ok_inj in H. subst r. rewrite arith_kind.
      destruct bb.
      * apply join_arith_true in K. destruct K as [K1 K2].
        rewrite (IHe1 _ _ Ha K1), (IHe2 _ _ Hb K2). reflexivity.
      * apply join_arith_false in K. destruct K as [K | K].
        -- rewrite (IHe1 _ _ Ha K). reflexivity.
        -- rewrite (IHe2 _ _ Hb K). apply andb_false_r.
    + (* Rem *) cbn [binop_strict] in H.
      destruct (is_integer a && is_integer b && (as_integer fops b =? 0)); [discriminate|].
      apply Ok_inj in H. subst r. rewrite arith_kind.
      destruct bb.
      * apply join_arith_true in K. destruct K as [K1 K2].
        rewrite (IHe1 _ _ Ha K1), (IHe2 _ _ Hb K2). reflexivity.
      * apply join_arith_false in K. destruct K as [K | K].
        -- rewrite (IHe1 _ _ Ha K). reflexivity.
        -- rewrite (IHe2 _ _ Hb K). apply andb_false_r.
    + (* Pow *) cbn [binop_strict] in H.
      destruct (join_arith (static_kind env e1) (static_kind env e2)) as [[|]|] eqn:J; try discriminate.
      * apply join_arith_true in J. destruct J as [K1 K2].
        destruct e2; try discriminate.
        rewrite (IHe1 _ _ Ha K1) in H.
        rewrite eval_eq in Hb. cbn in Hb. apply Ok_inj in Hb. subst b. cbn in H.
        destruct (0 <=? i); apply Ok_inj in H; subst r; injection K as <-; reflexivity.
      * injection K as <-. apply join_arith_false in J.
        assert (is_integer a && is_integer b = false) as F.
        { destruct J as [J | J].
          - rewrite (IHe1 _ _ Ha J). reflexivity.
          - rewrite (IHe2 _ _ Hb J). apply andb_false_r. }
        rewrite F in H. cbn in H. apply Ok_inj in H. subst r. reflexivity.
    + (* And *) apply bind_ok in H. destruct H as (a & Ha & H). injection K as <-.
      destruct (as_bool a).
      * apply bind_ok in H. destruct H as (b & Hb & H). apply Ok_inj in H. subst r. reflexivity.
      * apply Ok_inj in H. subst r. reflexivity.
    + (* Or *) apply bind_ok in H. destruct H as (a & Ha & H). injection K as <-.
      destruct (as_bool a).
      * apply Ok_inj in H. subst r. reflexivity.
      * apply bind_ok in H. destruct H as (b & Hb & H). apply Ok_inj in H. subst r. reflexivity.
  - (* unary *)
    apply bind_ok in H. destruct H as (a & Ha & H).
    destruct k; cbn [unop_apply] in H;
      try (apply Ok_inj in H; subst r; injection K as <-; reflexivity).
    + destruct a; apply Ok_inj in H; subst r; apply (IHe _ _ Ha K).
    + destruct a; apply Ok_inj in H; subst r; apply (IHe _ _ Ha K).
    + destruct a; apply Ok_inj in H; subst r; apply (IHe _ _ Ha K).
  - (* ternary *)
    apply bind_ok in H. destruct H as (a & Ha & H).
    destruct (static_kind env e2) as [x|] eqn:K2; [|discriminate].
    destruct (static_kind env e3) as [y|] eqn:K3; [|discriminate].
    destruct (Bool.eqb x y) eqn:E; [|discriminate]. apply Bool.eqb_prop in E. subst y.
    injection K as <-. destruct (as_bool a); eauto.
  - apply Ok_inj in H. subst r. injection K as <-. reflexivity.
  - apply Ok_inj in H. subst r. injection K as <-. reflexivity.
  - destruct (lookup s env) as [e' |] eqn:E; [|discriminate]. cbn [deref] in H.
    destruct e'; try discriminate; rewrite eval_eq in H; cbn in H; apply Ok_inj in H; subst r;
      injection K as <-; reflexivity.
Qed.

(* ------------------------------------------------------------------------- *)
(* C05_int_ring_wrap                                                          *)
(* ------------------------------------------------------------------------- *)
(* the ring fragment: integer literals and variables under + - * & | ^ unary- ~ *)
Fixpoint denote (rho : ident -> Z) (e : expr) : Z :=
  match e with
  | EInt i => i
  | EIdent s => rho s
  | EBin BAdd a b => denote rho a + denote rho b
  | EBin BSub a b => denote rho a - denote rho b
  | EBin BMul a b => denote rho a * denote rho b
  | EBin BBitAnd a b => Z.land (denote rho a) (denote rho b)
  | EBin BBitOr a b => Z.lor (denote rho a) (denote rho b)
  | EBin BXor a b => Z.lxor (denote rho a) (denote rho b)
  | EUn UNeg a => - denote rho a
  | EUn UNot a => Z.lnot (denote rho a)
  | _ => 0
  end.

Fixpoint ring_ok (env : list (ident * expr)) (rho : ident -> Z) (e : expr) : Prop :=
  match e with
  | EInt i => in_i64 i
  | EIdent s => lookup s env = Some (EInt (rho s)) /\ in_i64 (rho s)
  | EBin k a b => (k = BAdd \/ k = BSub \/ k = BMul \/ k = BBitAnd \/ k = BBitOr \/ k = BXor) /\
                  ring_ok env rho a /\ ring_ok env rho b
  | EUn k a => (k = UNeg \/ k = UNot) /\ ring_ok env rho a
  | _ => False
  end.

Lemma int_ring_wrap fops fuel env rho e :
  ring_ok env rho e ->
  eval fops true (S fuel) env e = Ok (RInt (sw 64 (denote rho e))).
Proof.
  induction e; rewrite eval_eq; cbn [eval_step ring_ok].
  - intros (Hk & Ha & Hb). rewrite (IHe1 Ha), (IHe2 Hb). cbn [bind].
    destruct Hk as [-> | [-> | [-> | [-> | [-> | ->]]]]];
      cbn [binop_strict denote arith is_integer as_integer andb].
    + rewrite sw64_add. reflexivity.
    + rewrite sw64_sub. reflexivity.
    + rewrite sw64_mul. reflexivity.
    + rewrite sw64_land. reflexivity.
    + rewrite sw64_lor. reflexivity.
    + rewrite sw64_lxor. reflexivity.
  - intros (Hk & Ha). rewrite (IHe Ha). cbn [bind].
    destruct Hk as [-> | ->]; cbn [unop_apply denote as_integer].
    + rewrite sw64_opp. reflexivity.
    + rewrite sw64_lnot. reflexivity.
  - intros [].
  - intros H. cbn [denote]. rewrite sw64_id by exact H. reflexivity.
  - intros [].
  - intros [H1 H2]. rewrite H1. cbn [deref denote]. rewrite eval_eq. cbn [eval_step].
    rewrite sw64_id by exact H2. reflexivity.
Qed.

(* every integer produced by the integer power is the wrapped mathematical power *)
Lemma int_pow_wrap fops a n :
  0 <= n ->
  binop_strict fops true BPow (RInt a) (RInt n) = Ok (RInt (sw 64 (a ^ n))).
Proof.
  intros Hn. cbn [binop_strict is_integer as_integer andb].
  replace (0 <=? n) with true by (symmetry; apply Z.leb_le; lia).
  rewrite pow_wrap_spec by lia. reflexivity.
Qed.

(* ------------------------------------------------------------------------- *)
(* every integer value is an i64                                              *)
(* ------------------------------------------------------------------------- *)
Fixpoint lits_ok (e : expr) : Prop :=
  match e with
  | EInt i => in_i64 i
  | EBin _ a b => lits_ok a /\ lits_ok b
  | EUn _ a => lits_ok a
  | EIf a b c => lits_ok a /\ lits_ok b /\ lits_ok c
  | _ => True
  end.
Definition env_lits_ok (env : list (ident * expr)) : Prop :=
  forall s e, lookup s env = Some e -> lits_ok e.
Definition res_ok (r : res) : Prop := match r with RInt i => in_i64 i | RFloat _ => True end.

Lemma clamp64_range z : in_i64 (clamp64 z).
Proof. unfold clamp64, in_i64, I64_MIN, I64_MAX. lia. Qed.
Lemma as_integer_range fops r : res_ok r -> in_i64 (as_integer fops r).
Proof. destruct r; cbn; [auto | intros _; apply clamp64_range]. Qed.
Lemma in_i64_sw x : in_i64 x -> x = sw 64 x.
Proof. intros H. symmetry. apply sw64_id. exact H. Qed.

Lemma shiftr_range x k : in_i64 x -> 0 <= k -> in_i64 (Z.shiftr x k).
Proof.
  unfold in_i64, I64_MIN, I64_MAX. intros Hx Hk. rewrite Z.shiftr_div_pow2 by exact Hk.
  assert (0 < 2 ^ k) as Hp by (apply Z.pow_pos_nonneg; lia).
  set (p := 2 ^ k) in *. change (2 ^ 63) with H64 in *. unfold H64 in *.
  pose proof (Z_div_mod_eq_full x p). pose proof (Z.mod_pos_bound x p Hp). nia.
Qed.

Lemma of_bool_ok b : res_ok (of_bool b).
Proof. destruct b; cbn; unfold in_i64, I64_MIN, I64_MAX; lia. Qed.

Lemma binop_strict_range fops k a b r :
  res_ok a -> res_ok b -> binop_strict fops true k a b = Ok r -> res_ok r.
Proof.
  intros Ha Hb. pose proof (as_integer_range fops a Ha) as Ia. pose proof (as_integer_range fops b Hb) as Ib.
  destruct k; cbn [binop_strict]; intros H; try discriminate;
    try (apply Ok_inj in H; subst r; unfold arith, compare_res;
         first [ apply of_bool_ok
               | destruct (is_integer a && is_integer b); cbn; [apply sw64_range | exact I]
               | cbn; apply sw64_range
               | exact I ]).
  - (* Rem *)
    destruct (is_integer a && is_integer b && (as_integer fops b =? 0)); [discriminate|].
    apply Ok_inj in H. subst r. unfold arith.
    destruct (is_integer a && is_integer b); cbn; [apply sw64_range | exact I].
  - (* Pow *)
    destruct (is_integer a && is_integer b && (0 <=? as_integer fops b)) eqn:E; apply Ok_inj in H; subst r; [|exact I].
    apply andb_prop in E. destruct E as [_ E]. apply Z.leb_le in E. cbn.
    rewrite pow_wrap_spec by exact E. apply sw64_range.
  - (* Shr *)
    apply Ok_inj in H. subst r. cbn. apply shiftr_range; [exact Ia|].
    apply Z.mod_pos_bound. lia.
  - (* BitAnd *)
    apply Ok_inj in H. subst r. cbn. rewrite (in_i64_sw _ Ia), (in_i64_sw _ Ib), sw64_land. apply sw64_range.
  - apply Ok_inj in H. subst r. cbn. rewrite (in_i64_sw _ Ia), (in_i64_sw _ Ib), sw64_lor. apply sw64_range.
  - apply Ok_inj in H. subst r. cbn. rewrite (in_i64_sw _ Ia), (in_i64_sw _ Ib), sw64_lxor. apply sw64_range.
Qed.

Lemma unop_apply_range fops k a r : res_ok a -> unop_apply fops true k a = Ok r -> res_ok r.
Proof.
  intros Ha. pose proof (as_integer_range fops a Ha) as Ia.
  destruct k; cbn [unop_apply]; intros H; try (apply Ok_inj in H; subst r; exact I).
  - apply Ok_inj in H. subst r. cbn. unfold in_i64, I64_MIN, I64_MAX, Z.lnot in *. lia.
  - destruct a; apply Ok_inj in H; subst r; cbn; [apply sw64_range | exact I].
  - destruct a; apply Ok_inj in H; subst r; cbn; [|exact I].
    unfold in_i64, I64_MIN, I64_MAX. destruct i; cbn; lia.
  - destruct a; apply Ok_inj in H; subst r; cbn; [apply sw64_range | exact I].
Qed.

Lemma eval_range fops fuel env : env_lits_ok env -> forall e r,
  lits_ok e -> eval fops true fuel env e = Ok r -> res_ok r.
Proof.
  intros Henv. induction fuel as [| f IHf].
  - induction e; intros r; rewrite eval_eq; cbn [eval_step lits_ok]; intros L H.
    + destruct L as [La Lb].
      destruct k;
        try (apply bind_ok in H; destruct H as (a & Ha & H); apply bind_ok in H; destruct H as (b & Hb & H);
             apply (binop_strict_range fops _ a b r (IHe1 _ La Ha) (IHe2 _ Lb Hb) H)).
      * apply bind_ok in H. destruct H as (a & Ha & H). destruct (as_bool a).
        -- apply bind_ok in H. destruct H as (b & Hb & H). apply Ok_inj in H. subst r. apply of_bool_ok.
        -- apply Ok_inj in H. subst r. apply of_bool_ok.
      * apply bind_ok in H. destruct H as (a & Ha & H). destruct (as_bool a).
        -- apply Ok_inj in H. subst r. apply of_bool_ok.
        -- apply bind_ok in H. destruct H as (b & Hb & H). apply Ok_inj in H. subst r. apply of_bool_ok.
    + apply bind_ok in H. destruct H as (a & Ha & H).
      apply (unop_apply_range fops k a r (IHe _ L Ha) H).
    + destruct L as (La & Lb & Lc). apply bind_ok in H. destruct H as (a & Ha & H).
      destruct (as_bool a); eauto.
    + apply Ok_inj in H. subst r. exact L.
    + apply Ok_inj in H. subst r. exact I.
    + destruct (lookup s env); cbn in H; discriminate.
  - induction e; intros r; rewrite eval_eq; cbn [eval_step lits_ok]; intros L H.
    + destruct L as [La Lb].
      destruct k;
        try (apply bind_ok in H; destruct H as (a & Ha & H); apply bind_ok in H; destruct H as (b & Hb & H);
             apply (binop_strict_range fops _ a b r (IHe1 _ La Ha) (IHe2 _ Lb Hb) H)).
      * apply bind_ok in H. destruct H as (a & Ha & H). destruct (as_bool a).
        -- apply bind_ok in H. destruct H as (b & Hb & H). apply Ok_inj in H. subst r. apply of_bool_ok.
        -- apply Ok_inj in H. subst r. apply of_bool_ok.
      * apply bind_ok in H. destruct H as (a & Ha & H). destruct (as_bool a).
        -- apply Ok_inj in H. subst r. apply of_bool_ok.
        -- apply bind_ok in H. destruct H as (b & Hb & H). apply Ok_inj in H. subst r. apply of_bool_ok.
    + apply bind_ok in H. destruct H as (a & Ha & H).
      apply (unop_apply_range fops k a r (IHe _ L Ha) H).
    + destruct L as (La & Lb & Lc). apply bind_ok in H. destruct H as (a & Ha & H).
      destruct (as_bool a); eauto.
    + apply Ok_inj in H. subst r. exact L.
    + apply Ok_inj in H. subst r. exact I.
    + destruct (lookup s env) as [e' |] eqn:E; [|discriminate]. cbn [deref] in H.
      apply (IHf e' r); [apply (Henv s e' E) | exact H].
Qed.

Lemma int_range fops fuel env e i :
  env_lits_ok env -> lits_ok e -> eval fops true fuel env e = Ok (RInt i) -> in_i64 i.
Proof. intros Henv L H. apply (eval_range fops fuel env Henv e (RInt i) L H). Qed.

(* ------------------------------------------------------------------------- *)
(* Tables                                                                     *)
(* ------------------------------------------------------------------------- *)
Lemma lookup_in {A} s (l : list (ident * A)) v : lookup s l = Some v -> In (s, v) l.
Proof.
  induction l as [| [n x] l IH]; cbn [lookup]; [discriminate|].
  destruct (list_eq_dec Z.eq_dec n s).
  - intros H. injection H as ->. subst. left. reflexivity.
  - intros H. right. auto.
Qed.

Lemma func_table_complete k :
  In k std_functions ->
  func_of_name true (unop_name k) = Some k /\ const_of_name (unop_name k) = None.
Proof.
  intros H. cbn in H.
  repeat (destruct H as [<- | H]; [split; vm_compute; reflexivity|]). contradiction.
Qed.

Lemma func_table_sound s k :
  func_of_name true s = Some k -> s = unop_name k /\ In k std_functions.
Proof.
  unfold func_of_name. destruct (lookup s gen_func_table) as [c|] eqn:E; [|discriminate].
  apply lookup_in in E. cbn [negb andb]. intros H. cbn in E.
  repeat (destruct E as [E | E];
          [injection E as <- <-; vm_compute in H; injection H as <-; split; [reflexivity | cbn; tauto]|]).
  contradiction.
Qed.

Lemma const_table_std : gen_const_table = std_constants.
Proof. reflexivity. Qed.

Lemma ladder_table :
  gen_ladder =
  map (fun l => map (fun tk => (tok_code (fst tk), binop_code (snd tk))) (level_ops l)) (seq 1 10).
Proof. reflexivity. Qed.

(* the parser's operator tables are the standard's precedence table *)
Lemma level_ops_std k :
  k <> BPow -> In (binop_tok k, k) (level_ops (binop_level k)) /\ (1 <= binop_level k <= 10)%nat.
Proof. destruct k; intros H; try congruence; cbn; split; try lia; tauto. Qed.

Lemma level_ops_only l t k :
  In (t, k) (level_ops l) -> binop_level k = l /\ binop_tok k = t.
Proof.
  do 11 (destruct l as [| l]; [cbn; intros H;
    repeat (destruct H as [H | H]; [injection H as <- <-; split; reflexivity|]); contradiction|]).
  cbn. contradiction.
Qed.

Lemma codes_injective :
  (forall a b, unop_code a = unop_code b -> a = b) /\ (forall a b, binop_code a = binop_code b -> a = b).
Proof. split; intros a b; destruct a, b; cbn; intros H; try reflexivity; discriminate. Qed.

(* ------------------------------------------------------------------------- *)
(* The pinned code (before the fix: commits) violated the property            *)
(* ------------------------------------------------------------------------- *)
Lemma rem_zero_refuted fops :
  exists e, eval fops false 0 [] e = Panic /\ eval fops true 0 [] e = Err E_INVALID_DATA.
Proof. exists (EBin BRem (EInt 5) (EInt 0)). split; reflexivity. Qed.

Lemma neg_abs_min_refuted fops :
  exists x, in_i64 x /\
    eval fops false 0 [] (EUn UNeg (EInt x)) = Panic /\
    eval fops false 0 [] (EUn UAbs (EInt x)) = Panic /\
    eval fops true 0 [] (EUn UNeg (EInt x)) = Ok (RInt x) /\
    eval fops true 0 [] (EUn UAbs (EInt x)) = Ok (RInt x).
Proof.
  exists I64_MIN. split; [unfold in_i64, I64_MIN, I64_MAX; lia|]. repeat split; vm_compute; reflexivity.
Qed.

(* before the fix the exponent was truncated to 32 bits: 2 ** 2^32 gave 2^0 = 1, the wrapped power is 0 *)
Lemma pow_exponent_refuted fops :
  exists a n, 0 <= n /\ in_i64 n /\
    binop_strict fops false BPow (RInt a) (RInt n) = Ok (RInt 1) /\
    sw 64 (a ^ n) = 0 /\
    binop_strict fops true BPow (RInt a) (RInt n) = Ok (RInt 0).
Proof.
  exists 2, 4294967296. split; [lia|]. split; [unfold in_i64, I64_MIN, I64_MAX; lia|].
  split; [vm_compute; reflexivity|]. split.
  - rewrite <- pow_wrap_spec by lia. vm_compute. reflexivity.
  - vm_compute. reflexivity.
Qed.

Lemma sgn_parse_refuted :
  exists ts e,
    parse_with (list token) next_tok false 50 ts = Panic /\
    parse_with (list token) next_tok true 50 ts = Ok e.
Proof.
  exists (pp_min (EUn USgn (EInt 1))), (EUn USgn (EInt 1)). split; vm_compute; reflexivity.
Qed.
