(* Proofs for C05, part 3: the parser model inverts the standard's printers at token level.
   parses m ts x  :=  for all sufficiently large fuel, p fuel m ts = Ok x. *)
From Cam Require Import Outcome Formula FuncTable FormulaSyntax FormulaStd P_C05.

Notation pt := (p (list token) next_tok true).

Definition P (m : mode) (ts : list token) (x : expr * list token) : Prop :=
  exists f0, forall f, (f0 <= f)%nat -> pt f m ts = Ok x.

(* ------------------------------------------------------------ stop tokens -- *)
Definition stop_tok (c : nat) (t : token) : Prop :=
  tok_eqb t TLParen = false /\
  (c = 0%nat -> tok_eqb t TQuestion = false) /\
  (forall l, (c <= l)%nat -> find_op (level_ops l) t = None) /\
  ((c <= 12)%nat -> tok_eqb t TDoubleStar = false).

Definition stop (c : nat) (rest : list token) : Prop :=
  match rest with [] => True | t :: _ => stop_tok c t end.

Lemma stop_mono c c' rest : (c <= c')%nat -> stop c rest -> stop c' rest.
Proof.
  intros Hc. destruct rest as [| t r]; cbn; [auto|].
  intros (H1 & H2 & H3 & H4). repeat split; auto.
  - intros ->. apply H2. lia.
  - intros l Hl. apply H3. lia.
  - intros H. apply H4. lia.
Qed.

Definition nonprefix (ts : list token) : Prop :=
  match ts with
  | [] => True
  | t :: _ => tok_eqb t TTilde = false /\ tok_eqb t TMinus = false /\ tok_eqb t TPlus = false
  end.

Lemma level_ops_high l : (11 <= l)%nat -> level_ops l = [].
Proof. intros H. do 11 (destruct l as [| l]; [lia|]). reflexivity. Qed.

Lemma stop_rparen c r : stop c (TRParen :: r).
Proof.
  cbn. repeat split; try reflexivity.
  intros l _. do 11 (destruct l as [| l]; [reflexivity|]). reflexivity.
Qed.
Lemma stop_colon c r : stop c (TColon :: r).
Proof.
  cbn. repeat split; try reflexivity.
  intros l _. do 11 (destruct l as [| l]; [reflexivity|]). reflexivity.
Qed.
Lemma stop_question r : stop 1 (TQuestion :: r).
Proof.
  cbn. repeat split; try reflexivity; try (intros; discriminate).
  intros l _. do 11 (destruct l as [| l]; [reflexivity|]). reflexivity.
Qed.
Lemma stop_dstar r : stop 13 (TDoubleStar :: r).
Proof.
  cbn. repeat split; try reflexivity; try (intros; lia).
  intros l _. do 11 (destruct l as [| l]; [reflexivity|]). reflexivity.
Qed.
Lemma stop_binop k r : k <> BPow -> stop (S (binop_level k)) (binop_tok k :: r).
Proof.
  intros Hk. destruct k; try congruence; cbn; repeat split; try reflexivity; try (intros; discriminate);
    intros l Hl; do 11 (destruct l as [| l]; [try lia; reflexivity|]); reflexivity.
Qed.
Lemma find_op_binop k : k <> BPow -> find_op (level_ops (binop_level k)) (binop_tok k) = Some k.
Proof. destruct k; intros H; try congruence; reflexivity. Qed.

(* ----------------------------------------------------------- mode_of etc. -- *)
Definition mode_of (c : nat) : mode :=
  if (c =? 0)%nat then MExpr
  else if (c <=? 10)%nat then MLevel c
  else if (c =? 11)%nat then MUnop
  else if (c =? 12)%nat then MPow
  else MPrimary.

Lemma mode_of_sub l : (1 <= l <= 10)%nat -> mode_of (S l) = sub_mode l.
Proof. intros H. do 11 (destruct l as [| l]; [try lia; reflexivity|]). lia. Qed.
Lemma mode_of_level l : (1 <= l <= 10)%nat -> mode_of l = MLevel l.
Proof. intros H. do 11 (destruct l as [| l]; [try lia; reflexivity|]). lia. Qed.

(* ------------------------------------------------------------ step lemmas -- *)
Ltac fuel_S f Hf := destruct f as [| f]; [exfalso; lia|].

Lemma P_level l ts lhs r x :
  P (sub_mode l) ts (lhs, r) -> P (MLoop l lhs) r x -> P (MLevel l) ts x.
Proof.
  intros [f1 H1] [f2 H2]. exists (S (Nat.max f1 f2)). intros f Hf. fuel_S f Hf.
  cbn [p]. rewrite H1 by lia. cbn [bind]. apply H2. lia.
Qed.

Lemma P_loop_stop l lhs rest :
  match rest with [] => True | t :: _ => find_op (level_ops l) t = None end ->
  P (MLoop l lhs) rest (lhs, rest).
Proof.
  intros H. exists 1%nat. intros f Hf. fuel_S f Hf. cbn [p].
  destruct rest as [| t r]; cbn [next_tok bind]; [reflexivity|]. rewrite H. reflexivity.
Qed.

Lemma P_loop_step l t k lhs r1 rhs r2 x :
  find_op (level_ops l) t = Some k ->
  P (sub_mode l) r1 (rhs, r2) -> P (MLoop l (EBin k lhs rhs)) r2 x ->
  P (MLoop l lhs) (t :: r1) x.
Proof.
  intros Hk [f1 H1] [f2 H2]. exists (S (Nat.max f1 f2)). intros f Hf. fuel_S f Hf.
  cbn [p next_tok bind]. rewrite Hk. rewrite H1 by lia. cbn [bind]. apply H2. lia.
Qed.

Lemma P_expr_plain ts c r :
  P (MLevel 1) ts (c, r) ->
  match r with [] => True | t :: _ => tok_eqb t TQuestion = false end ->
  P MExpr ts (c, r).
Proof.
  intros [f1 H1] H. exists (S f1). intros f Hf. fuel_S f Hf.
  cbn [p]. rewrite H1 by lia. cbn [bind]. unfold eat.
  destruct r as [| t r]; cbn [next_tok bind]; [reflexivity|]. rewrite H. reflexivity.
Qed.

Lemma P_expr_if ts c r1 t r2 e r3 :
  P (MLevel 1) ts (c, TQuestion :: r1) -> P MExpr r1 (t, TColon :: r2) -> P MExpr r2 (e, r3) ->
  P MExpr ts (EIf c t e, r3).
Proof.
  intros [f1 H1] [f2 H2] [f3 H3]. exists (S (Nat.max f1 (Nat.max f2 f3))). intros f Hf. fuel_S f Hf.
  cbn [p]. rewrite H1 by lia. unfold expect, eat. cbn [bind next_tok tok_eqb tok_code Z.eqb Pos.eqb].
  rewrite H2 by lia. cbn [bind next_tok tok_eqb tok_code Z.eqb Pos.eqb].
  rewrite H3 by lia. reflexivity.
Qed.

Lemma P_unop_not r e r' : P MUnop r (e, r') -> P MUnop (TTilde :: r) (EUn UNot e, r').
Proof.
  intros [f1 H1]. exists (S f1). intros f Hf. fuel_S f Hf.
  cbn [p]. unfold eat. cbn [bind next_tok tok_eqb tok_code Z.eqb Pos.eqb]. rewrite H1 by lia. reflexivity.
Qed.

Lemma P_unop_neg r e r' : P MUnop r (e, r') -> P MUnop (TMinus :: r) (EUn UNeg e, r').
Proof.
  intros [f1 H1]. exists (S f1). intros f Hf. fuel_S f Hf.
  cbn [p]. unfold eat. cbn [bind next_tok tok_eqb tok_code Z.eqb Pos.eqb]. rewrite H1 by lia. reflexivity.
Qed.

Lemma P_unop_pow ts x : nonprefix ts -> P MPow ts x -> P MUnop ts x.
Proof.
  intros Hn [f1 H1]. exists (S f1). intros f Hf. fuel_S f Hf.
  cbn [p]. unfold eat. destruct ts as [| t r].
  - cbn [bind next_tok]. apply H1. lia.
  - destruct Hn as (N1 & N2 & N3). cbn [bind next_tok]. rewrite N1. cbn [bind]. rewrite N2.
    cbn [bind]. rewrite N3. cbn [bind]. apply H1. lia.
Qed.

Lemma P_pow_plain ts b r :
  P MPrimary ts (b, r) ->
  match r with [] => True | t :: _ => tok_eqb t TDoubleStar = false end ->
  P MPow ts (b, r).
Proof.
  intros [f1 H1] H. exists (S f1). intros f Hf. fuel_S f Hf.
  cbn [p]. rewrite H1 by lia. cbn [bind]. unfold eat.
  destruct r as [| t r]; cbn [next_tok bind]; [reflexivity|]. rewrite H. reflexivity.
Qed.

Lemma P_pow_pow ts b r1 y r2 :
  P MPrimary ts (b, TDoubleStar :: r1) -> P MUnop r1 (y, r2) -> P MPow ts (EBin BPow b y, r2).
Proof.
  intros [f1 H1] [f2 H2]. exists (S (Nat.max f1 f2)). intros f Hf. fuel_S f Hf.
  cbn [p]. rewrite H1 by lia. unfold eat. cbn [bind next_tok tok_eqb tok_code Z.eqb Pos.eqb].
  rewrite H2 by lia. reflexivity.
Qed.

Lemma P_prim_int i r : P MPrimary (TInteger i :: r) (EInt i, r).
Proof. exists 1%nat. intros f Hf. fuel_S f Hf. reflexivity. Qed.
Lemma P_prim_float b r : P MPrimary (TFloat b :: r) (EFloat b, r).
Proof. exists 1%nat. intros f Hf. fuel_S f Hf. reflexivity. Qed.

Lemma P_prim_ident s r :
  const_of_name s = None ->
  match r with [] => True | t :: _ => tok_eqb t TLParen = false end ->
  P MPrimary (TIdent s :: r) (EIdent s, r).
Proof.
  intros Hc H. exists 1%nat. intros f Hf. fuel_S f Hf.
  cbn [p next_tok bind]. rewrite Hc. unfold eat.
  destruct r as [| t r]; cbn [next_tok bind]; [reflexivity|]. rewrite H. reflexivity.
Qed.

Lemma P_prim_func n k r1 e r2 :
  const_of_name n = None -> func_of_name true n = Some k ->
  P MExpr r1 (e, TRParen :: r2) ->
  P MPrimary (TIdent n :: TLParen :: r1) (EUn k e, r2).
Proof.
  intros Hc Hk [f1 H1]. exists (S f1). intros f Hf. fuel_S f Hf.
  cbn [p next_tok bind]. rewrite Hc. unfold expect, eat. cbn [next_tok bind tok_eqb tok_code Z.eqb Pos.eqb]. rewrite Hk.
  rewrite H1 by lia. reflexivity.
Qed.

Lemma P_prim_paren r1 e r2 :
  P MExpr r1 (e, TRParen :: r2) -> P MPrimary (TLParen :: r1) (e, r2).
Proof.
  intros [f1 H1]. exists (S f1). intros f Hf. fuel_S f Hf.
  cbn [p next_tok bind]. rewrite H1 by lia. reflexivity.
Qed.

(* ------------------------------------------------------------------ climb -- *)
(* one step down the ladder: a result of the next tighter mode is a result of this mode when the
   following token cannot be consumed here *)
Lemma down_step j ts e rest :
  (j <= 12)%nat ->
  P (mode_of (S j)) ts (e, rest) -> stop j rest -> (nonprefix ts \/ (S j <= 11)%nat) ->
  P (mode_of j) ts (e, rest).
Proof.
  intros Hj HP Hs Hn.
  assert (j = 0 \/ (1 <= j <= 10) \/ j = 11 \/ j = 12)%nat as [-> | [Hl | [-> | ->]]] by lia.
  - (* MLevel 1 -> MExpr *)
    change (mode_of 0) with MExpr. change (mode_of 1) with (MLevel 1) in HP.
    apply P_expr_plain; [exact HP|]. destruct rest as [| t r]; [exact I|]. apply Hs. reflexivity.
  - (* sub_mode j -> MLevel j *)
    rewrite (mode_of_level j Hl). rewrite (mode_of_sub j Hl) in HP.
    eapply P_level; [exact HP|]. apply P_loop_stop.
    destruct rest as [| t r]; [exact I|]. apply Hs. lia.
  - (* MPow -> MUnop *)
    change (mode_of 11) with MUnop. change (mode_of 12) with MPow in HP.
    destruct Hn as [Hn | Hn]; [|lia]. apply P_unop_pow; assumption.
  - (* MPrimary -> MPow *)
    change (mode_of 12) with MPow. change (mode_of 13) with MPrimary in HP.
    apply P_pow_plain; [exact HP|]. destruct rest as [| t r]; [exact I|]. apply Hs. lia.
Qed.

Lemma climb n : forall j c ts e rest,
  (j = c + n)%nat -> (j <= 13)%nat ->
  P (mode_of j) ts (e, rest) -> stop c rest -> (nonprefix ts \/ (j <= 11)%nat) ->
  P (mode_of c) ts (e, rest).
Proof.
  induction n as [| n IH]; intros j c ts e rest Hj Hj13 HP Hs Hn.
  - replace c with j by lia. exact HP.
  - destruct j as [| j]; [lia|].
    apply (IH j c); try lia.
    + apply down_step; try lia; try assumption.
      apply (stop_mono c); [lia | exact Hs].
    + exact Hs.
    + destruct Hn as [Hn | Hn]; [left; exact Hn | right; lia].
Qed.

Lemma climb_loop j l ts e rest x :
  (1 <= l <= 10)%nat -> (l < j <= 13)%nat ->
  P (mode_of j) ts (e, rest) -> (nonprefix ts \/ (j <= 11)%nat) ->
  stop (S l) rest -> P (MLoop l e) rest x ->
  P (MLevel l) ts x.
Proof.
  intros Hl Hj HP Hn Hs HL.
  eapply P_level; [|exact HL].
  rewrite <- (mode_of_sub l Hl).
  apply (climb (j - S l) j (S l)); try lia; assumption.
Qed.

(* --------------------------------------------------------------- printing -- *)
Definition paren (full : bool) (c : nat) (e : expr) : bool :=
  (full && negb (is_leaf e)) || (prec e <? c)%nat.

Definition body (full : bool) (e : expr) : list token :=
  match e with
  | EIf a b d => pr full 1 a ++ TQuestion :: pr full 0 b ++ TColon :: pr full 0 d
  | EBin BPow a b => pr full 13 a ++ TDoubleStar :: pr full 11 b
  | EBin k a b => pr full (binop_level k) a ++ binop_tok k :: pr full (S (binop_level k)) b
  | EUn UNot a => TTilde :: pr full 11 a
  | EUn UNeg a => TMinus :: pr full 11 a
  | EUn k a => TIdent (unop_name k) :: TLParen :: pr full 0 a ++ [TRParen]
  | EInt i => [TInteger i]
  | EFloat b => [TFloat b]
  | EIdent s => [TIdent s]
  end.

Lemma pr_eq full c e :
  pr full c e = if paren full c e then TLParen :: body full e ++ [TRParen] else body full e.
Proof. destruct e; try reflexivity; destruct k; reflexivity. Qed.

Lemma body_bin full k a b :
  k <> BPow ->
  body full (EBin k a b) = pr full (binop_level k) a ++ binop_tok k :: pr full (S (binop_level k)) b.
Proof. destruct k; intros H; try congruence; reflexivity. Qed.

Lemma body_fun full k a :
  k <> UNot -> k <> UNeg ->
  body full (EUn k a) = TIdent (unop_name k) :: TLParen :: pr full 0 a ++ [TRParen].
Proof. destruct k; intros H1 H2; try congruence; reflexivity. Qed.

Lemma paren_false full c e : paren full c e = false -> (c <= prec e)%nat.
Proof.
  unfold paren. intros H. apply orb_false_elim in H. destruct H as [_ H].
  apply Nat.ltb_ge in H. exact H.
Qed.

(* the text of an expression printed for a primary position starts with a primary token *)
Lemma nonprefix_paren ts rest : nonprefix ((TLParen :: ts) ++ rest).
Proof. cbn. auto. Qed.

Lemma nonprefix_pr13 full a rest : nonprefix (pr full 13 a ++ rest).
Proof.
  rewrite pr_eq. destruct (paren full 13 a) eqn:E; [apply nonprefix_paren|].
  apply paren_false in E.
  destruct a; cbn [prec] in E; try (cbn; auto; fail).
  - destruct k; cbn in E; lia.
  - destruct k; cbn in E; try lia; cbn; auto.
  - lia.
Qed.

(* ------------------------------------------------------- the main induction -- *)
Definition G1 (e : expr) : Prop :=
  forall full c rest, (c <= 13)%nat -> stop c rest -> P (mode_of c) (pr full c e ++ rest) (e, rest).
Definition G2 (e : expr) : Prop :=
  forall full l c rest x, (1 <= l <= 10)%nat -> (l <= c <= 13)%nat -> stop (S l) rest ->
    P (MLoop l e) rest x -> P (MLevel l) (pr full c e ++ rest) x.
(* the same for the unparenthesised text, at contexts not above the level of e *)
Definition B1 (e : expr) : Prop :=
  forall full c rest, (c <= prec e)%nat -> stop c rest -> P (mode_of c) (body full e ++ rest) (e, rest).
Definition B2 (e : expr) : Prop :=
  forall full l rest x, (1 <= l <= 10)%nat -> (l <= prec e)%nat -> stop (S l) rest ->
    P (MLoop l e) rest x -> P (MLevel l) (body full e ++ rest) x.

Lemma prec_le_13 e : (prec e <= 13)%nat.
Proof. destruct e; cbn; try lia; destruct k; cbn; lia. Qed.

Lemma paren_primary full e rest :
  B1 e -> P MPrimary ((TLParen :: body full e ++ [TRParen]) ++ rest) (e, rest).
Proof.
  intros HB. cbn [app]. rewrite <- app_assoc. cbn [app].
  apply P_prim_paren.
  apply (HB full 0%nat (TRParen :: rest)); [lia | apply stop_rparen].
Qed.

Lemma from_body e : B1 e -> B2 e -> G1 e /\ G2 e.
Proof.
  intros HB1 HB2. split.
  - intros full c rest Hc Hs. rewrite pr_eq. destruct (paren full c e) eqn:E.
    + apply (climb (13 - c) 13 c); try lia; try assumption.
      * apply paren_primary. exact HB1.
      * left. apply nonprefix_paren.
    + apply HB1; [apply paren_false in E; exact E | exact Hs].
  - intros full l c rest x Hl Hc Hs HL. rewrite pr_eq. destruct (paren full c e) eqn:E.
    + apply (climb_loop 13 l _ e rest); try lia; try assumption.
      * apply paren_primary. exact HB1.
      * left. apply nonprefix_paren.
    + apply HB2; try assumption. apply paren_false in E. lia.
Qed.

(* expressions whose unparenthesised text is a primary *)
Lemma primary_body e :
  prec e = 13%nat ->
  (forall full rest, stop 13 rest -> P MPrimary (body full e ++ rest) (e, rest)) ->
  (forall full rest, nonprefix (body full e ++ rest)) ->
  B1 e /\ B2 e.
Proof.
  intros Hp HP Hn. split.
  - intros full c rest Hc Hs. apply (climb (13 - c) 13 c); try lia.
    + apply HP. apply (stop_mono c); [lia | exact Hs].
    + exact Hs.
    + left. apply Hn.
  - intros full l rest x Hl Hc Hs HL. apply (climb_loop 13 l _ e rest); try lia; try assumption.
    + apply HP. apply (stop_mono (S l)); [lia | exact Hs].
    + left. apply Hn.
Qed.

Lemma const_none_of_wf s : lookup s std_constants = None -> const_of_name s = None.
Proof. unfold const_of_name. rewrite const_table_std. auto. Qed.

Lemma stop_lparen_false c t r : stop c (t :: r) -> tok_eqb t TLParen = false.
Proof. intros H. apply H. Qed.

Lemma binop_eq_pow k : k = BPow \/ k <> BPow.
Proof. destruct k; (left; reflexivity) || (right; discriminate). Qed.
Lemma unop_prefix_dec k : (k = UNot \/ k = UNeg) \/ (k <> UNot /\ k <> UNeg).
Proof. destruct k; try (left; auto; fail); right; split; discriminate. Qed.

Lemma stop_12_11 rest : stop 12 rest -> stop 11 rest.
Proof.
  destruct rest as [| t r]; cbn; [auto|]. intros (H1 & H2 & H3 & H4). repeat split; auto.
  - intros; discriminate.
  - intros l Hl. rewrite level_ops_high by lia. reflexivity.
Qed.

Lemma app_mid {A} (x : list A) t y rest : (x ++ t :: y) ++ rest = x ++ t :: (y ++ rest).
Proof. rewrite <- app_assoc. reflexivity. Qed.

Lemma bin_case k a b :
  k <> BPow -> G1 a -> G2 a -> G1 b -> B1 (EBin k a b) /\ B2 (EBin k a b).
Proof.
  intros Hk A1 A2 C1.
  destruct (level_ops_std k Hk) as [_ Hl0]. set (l0 := binop_level k) in *.
  assert (Core : forall full rest x, stop (S l0) rest ->
            P (MLoop l0 (EBin k a b)) rest x -> P (MLevel l0) (body full (EBin k a b) ++ rest) x).
  { intros full rest x Hs HL. rewrite body_bin by exact Hk. fold l0. rewrite app_mid.
    apply (A2 full l0 l0); try lia.
    - apply stop_binop. exact Hk.
    - eapply P_loop_step.
      + apply find_op_binop. exact Hk.
      + rewrite <- (mode_of_sub l0 Hl0). apply C1; [lia | exact Hs].
      + exact HL. }
  assert (Direct : forall full rest, stop l0 rest ->
            P (mode_of l0) (body full (EBin k a b) ++ rest) (EBin k a b, rest)).
  { intros full rest Hs. rewrite (mode_of_level l0 Hl0). apply Core.
    - apply (stop_mono l0); [lia | exact Hs].
    - apply P_loop_stop. destruct rest as [| t r]; [exact I|]. apply Hs. lia. }
  assert (Hprec : prec (EBin k a b) = l0) by reflexivity.
  split.
  - intros full c rest Hc Hs. rewrite Hprec in Hc.
    apply (climb (l0 - c) l0 c); try lia.
    + apply Direct. apply (stop_mono c); [lia | exact Hs].
    + exact Hs.
  - intros full l rest x Hl Hc Hs HL. rewrite Hprec in Hc.
    destruct (Nat.eq_dec l l0) as [-> | Hne].
    + apply Core; assumption.
    + apply (climb_loop l0 l _ (EBin k a b) rest); try lia; try assumption.
      * apply Direct. apply (stop_mono (S l)); [lia | exact Hs].
Qed.

Lemma pow_case a b : G1 a -> G1 b -> B1 (EBin BPow a b) /\ B2 (EBin BPow a b).
Proof.
  intros A1 C1.
  assert (Direct : forall full rest, stop 12 rest ->
            P (mode_of 12) (body full (EBin BPow a b) ++ rest) (EBin BPow a b, rest)).
  { intros full rest Hs. change (mode_of 12) with MPow. cbn [body]. rewrite app_mid.
    eapply P_pow_pow.
    - apply (A1 full 13%nat); [lia | apply stop_dstar].
    - apply (C1 full 11%nat); [lia | apply stop_12_11; exact Hs]. }
  assert (Hn : forall full rest, nonprefix (body full (EBin BPow a b) ++ rest)).
  { intros full rest. cbn [body]. rewrite app_mid. apply nonprefix_pr13. }
  split.
  - intros full c rest Hc Hs. cbn [prec binop_level] in Hc.
    apply (climb (12 - c) 12 c); try lia.
    + apply Direct. apply (stop_mono c); [lia | exact Hs].
    + exact Hs.
    + left. apply Hn.
  - intros full l rest x Hl Hc Hs HL.
    apply (climb_loop 12 l _ (EBin BPow a b) rest); try lia; try assumption.
    + apply Direct. apply (stop_mono (S l)); [lia | exact Hs].
    + left. apply Hn.
Qed.

Lemma prefix_case k a :
  (k = UNot \/ k = UNeg) -> G1 a -> B1 (EUn k a) /\ B2 (EUn k a).
Proof.
  intros Hk A1.
  assert (Direct : forall full rest, stop 11 rest ->
            P (mode_of 11) (body full (EUn k a) ++ rest) (EUn k a, rest)).
  { intros full rest Hs. change (mode_of 11) with MUnop.
    destruct Hk as [-> | ->]; cbn [body app].
    - apply P_unop_not. apply (A1 full 11%nat); [lia | exact Hs].
    - apply P_unop_neg. apply (A1 full 11%nat); [lia | exact Hs]. }
  assert (Hprec : prec (EUn k a) = 11%nat) by (destruct Hk as [-> | ->]; reflexivity).
  split.
  - intros full c rest Hc Hs. rewrite Hprec in Hc.
    apply (climb (11 - c) 11 c); try lia.
    + apply Direct. apply (stop_mono c); [lia | exact Hs].
    + exact Hs.
  - intros full l rest x Hl Hc Hs HL.
    apply (climb_loop 11 l _ (EUn k a) rest); try lia; try assumption.
    + apply Direct. apply (stop_mono (S l)); [lia | exact Hs].
Qed.

Lemma fun_case k a :
  k <> UNot -> k <> UNeg -> G1 a -> B1 (EUn k a) /\ B2 (EUn k a).
Proof.
  intros H1 H2 A1.
  assert (In k std_functions) as Hin by (destruct k; try congruence; cbn; tauto).
  destruct (func_table_complete k Hin) as [Hf Hc].
  apply primary_body.
  - destruct k; try congruence; reflexivity.
  - intros full rest Hs. rewrite body_fun by assumption. cbn [app]. rewrite <- app_assoc. cbn [app].
    apply P_prim_func; [exact Hc | exact Hf |].
    apply (A1 full 0%nat); [lia | apply stop_rparen].
  - intros full rest. rewrite body_fun by assumption. cbn. auto.
Qed.

Lemma if_case a b d : G1 a -> G1 b -> G1 d -> B1 (EIf a b d) /\ B2 (EIf a b d).
Proof.
  intros A1 C1 D1. split.
  - intros full c rest Hc Hs. cbn [prec] in Hc. replace c with 0%nat in * by lia.
    change (mode_of 0) with MExpr. cbn [body]. rewrite app_mid. rewrite app_mid.
    eapply P_expr_if.
    + apply (A1 full 1%nat); [lia | apply stop_question].
    + apply (C1 full 0%nat); [lia | apply stop_colon].
    + apply (D1 full 0%nat); [lia | exact Hs].
  - intros full l rest x Hl Hc. cbn [prec] in Hc. lia.
Qed.

Lemma leaf_cases :
  (forall i, B1 (EInt i) /\ B2 (EInt i)) /\ (forall b, B1 (EFloat b) /\ B2 (EFloat b)) /\
  (forall s, lookup s std_constants = None -> B1 (EIdent s) /\ B2 (EIdent s)).
Proof.
  repeat split; try (apply primary_body; [reflexivity | | cbn; auto];
                     intros full rest _; cbn [body app]; first [apply P_prim_int | apply P_prim_float]).
  - apply primary_body; [reflexivity | | cbn; auto].
    intros full rest Hs. cbn [body app]. apply P_prim_ident; [apply const_none_of_wf; assumption|].
    destruct rest as [| t r]; [exact I|]. apply Hs.
  - apply primary_body; [reflexivity | | cbn; auto].
    intros full rest Hs. cbn [body app]. apply P_prim_ident; [apply const_none_of_wf; assumption|].
    destruct rest as [| t r]; [exact I|]. apply Hs.
Qed.

Theorem roundtrip_all e : wf_expr e -> G1 e /\ G2 e.
Proof.
  induction e; cbn [wf_expr]; intros Hwf.
  - destruct Hwf as [Wa Wb]. destruct (IHe1 Wa) as [A1 A2]. destruct (IHe2 Wb) as [C1 C2].
    destruct (binop_eq_pow k) as [-> | Hk].
    + destruct (pow_case e1 e2 A1 C1). apply from_body; assumption.
    + destruct (bin_case k e1 e2 Hk A1 A2 C1). apply from_body; assumption.
  - destruct (IHe Hwf) as [A1 A2].
    destruct (unop_prefix_dec k) as [Hk | [Hk1 Hk2]].
    + destruct (prefix_case k e Hk A1). apply from_body; assumption.
    + destruct (fun_case k e Hk1 Hk2 A1). apply from_body; assumption.
  - destruct Hwf as (Wa & Wb & Wc).
    destruct (IHe1 Wa) as [A1 _]. destruct (IHe2 Wb) as [C1 _]. destruct (IHe3 Wc) as [D1 _].
    destruct (if_case e1 e2 e3 A1 C1 D1). apply from_body; assumption.
  - destruct leaf_cases as (L & _ & _). destruct (L i). apply from_body; assumption.
  - destruct leaf_cases as (_ & L & _). destruct (L b). apply from_body; assumption.
  - destruct leaf_cases as (_ & _ & L). destruct (L s Hwf). apply from_body; assumption.
Qed.

(* parse (pp e) = Ok e for every sufficiently large fuel, for both printers *)
Theorem parse_pp full e :
  wf_expr e -> exists f0, forall f, (f0 <= f)%nat -> parse_toks f (pr full 0 e) = Ok e.
Proof.
  intros Hwf. destruct (roundtrip_all e Hwf) as [H1 _].
  destruct (H1 full 0%nat [] ltac:(lia) I) as [f0 H]. exists f0. intros f Hf.
  unfold parse_toks, parse_with. rewrite app_nil_r in H. change (mode_of 0) with MExpr in H.
  rewrite H by exact Hf. reflexivity.
Qed.

Lemma parse_pp_min e :
  wf_expr e -> exists f0, forall f, (f0 <= f)%nat -> parse_toks f (pp_min e) = Ok e.
Proof. apply parse_pp. Qed.
Lemma parse_pp_full e :
  wf_expr e -> exists f0, forall f, (f0 <= f)%nat -> parse_toks f (pp_full e) = Ok e.
Proof. apply parse_pp. Qed.

(* the text may be followed by anything that cannot continue an expression (e.g. `)`), which is
   left unconsumed: used for formulas embedded in larger token streams *)
Lemma parse_pp_rest full e rest :
  wf_expr e -> stop 0 rest ->
  exists f0, forall f, (f0 <= f)%nat -> pt f MExpr (pr full 0 e ++ rest) = Ok (e, rest).
Proof. intros Hwf Hs. destruct (roundtrip_all e Hwf) as [H1 _]. apply (H1 full 0%nat rest); [lia | exact Hs]. Qed.
