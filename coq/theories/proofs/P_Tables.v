(* The hand-written protocol models use exactly the tables and constants of the Rust sources: gen/ProtoTables.v is
   REGENERATED from device/src/u3v/protocol/{ack,cmd,event,stream}.rs on every run (tools/translate_proto.py); the
   lemmas below are re-checked against it, for every code (no sample). *)
From Cam Require Import Outcome Bytes Ack Cmd Event Stream ProtoTables.

Definition table_fn (t : list (Z * Z)) (shift : Z) (code : Z) : outcome Z :=
  match lookup code t with Some k => Ok (k + shift) | None => Err E_INVALID_PACKET end.

Lemma lookup_map_shift t d code :
  lookup code (map (fun p => (fst p, snd p + d)) t) = option_map (fun k => k + d) (lookup code t).
Proof.
  induction t as [|[c k] t IH]; cbn [map lookup fst snd option_map]; [reflexivity|].
  destruct (code =? c); [reflexivity|exact IH].
Qed.

(* ---- acknowledge (C08) ---- *)
Lemma gencp_table_src : gencp_table = src_gencp_status.
Proof. reflexivity. Qed.

Lemma usb_table_src : usb_table = map (fun p => (fst p, snd p + 100)) src_usb_status.
Proof. reflexivity. Qed.

Lemma gencp_status_src code : parse_gencp_status code = table_fn src_gencp_status 0 code.
Proof.
  unfold parse_gencp_status, table_fn. rewrite gencp_table_src.
  destruct (lookup code src_gencp_status) as [k|]; [now rewrite Z.add_0_r|reflexivity].
Qed.

Lemma usb_status_src code : parse_usb_status code = table_fn src_usb_status 100 code.
Proof.
  unfold parse_usb_status, table_fn. rewrite usb_table_src, lookup_map_shift.
  destruct (lookup code src_usb_status); reflexivity.
Qed.

(* Status::parse: the namespace is (code >> shift) & mask of the source, dispatched as the source's arms say:
   0 = the GenCP table, 1 = the USB table, 2 = device specific (any code), everything else an error *)
Definition src_status_kind (code : Z) : outcome Z :=
  match lookup (Z.land (Z.shiftr code src_status_ns_shift) src_status_ns_mask) src_status_namespaces with
  | Some 0 => table_fn src_gencp_status 0 code
  | Some 1 => table_fn src_usb_status 100 code
  | Some 2 => Ok 200
  | _ => Err E_INVALID_PACKET
  end.

Lemma status_kind_src code : status_kind code = src_status_kind code.
Proof.
  unfold status_kind, src_status_kind, src_status_ns_shift, src_status_ns_mask, src_status_namespaces.
  cbn [lookup]. rewrite gencp_status_src, usb_status_src.
  destruct (Z.land (Z.shiftr code 13) 3 =? 0); [reflexivity|].
  destruct (Z.land (Z.shiftr code 13) 3 =? 1); [reflexivity|].
  destruct (Z.land (Z.shiftr code 13) 3 =? 2); reflexivity.
Qed.

Lemma scd_kind_src id : scd_kind_of id = table_fn src_ack_kind 0 id.
Proof.
  unfold scd_kind_of, table_fn, src_ack_kind. cbn [lookup].
  repeat match goal with |- context [id =? ?k] => destruct (id =? k); [reflexivity|] end. reflexivity.
Qed.

Lemma ack_magic_src : Ack.ACK_MAGIC = src_ack_magic.
Proof. reflexivity. Qed.

Lemma event_consts_src : EVENT_MAGIC = src_event_magic /\ EVENT_COMMAND_ID = src_event_command_id.
Proof. split; reflexivity. Qed.

(* ---- commands (C09) ---- *)
Lemma cmd_consts_src :
  MAGIC = src_cmd_magic /\
  lookup 0 src_cmd_id = Some ID_READ_MEM /\ lookup 1 src_cmd_id = Some ID_WRITE_MEM /\
  lookup 2 src_cmd_id = Some ID_READ_MEM_STACKED /\ lookup 3 src_cmd_id = Some ID_WRITE_MEM_STACKED /\
  lookup 0 src_cmd_flag = Some FLAG_REQUEST_ACK /\
  length src_cmd_id = 4%nat.
Proof. repeat split; reflexivity. Qed.

(* every acknowledge id is its command's id + 1 (GenCP: the acknowledge bit), Pending apart *)
Lemma ack_ids_follow_cmd_ids : forall k id, (0 <= k < 4) -> lookup k src_cmd_id = Some id ->
  table_fn src_ack_kind 0 (id + 1) = Ok k.
Proof.
  intros k id Hk. assert (k = 0 \/ k = 1 \/ k = 2 \/ k = 3) as Hc by lia.
  destruct Hc as [Hc|[Hc|[Hc|Hc]]]; subst k; cbn; intros H; injection H as H; subst id; reflexivity.
Qed.

(* ---- stream (C11) ---- *)
Lemma stream_magic_src : LEADER_MAGIC = src_leader_magic /\ TRAILER_MAGIC = src_trailer_magic.
Proof. split; reflexivity. Qed.

Lemma payload_type_src v : payload_type_of v = table_fn src_payload_type 0 v.
Proof.
  unfold payload_type_of, table_fn, src_payload_type. cbn [lookup].
  repeat match goal with |- context [v =? ?k] => destruct (v =? k); [reflexivity|] end. reflexivity.
Qed.

Lemma payload_status_src v : payload_status_of v = table_fn src_payload_status 0 v.
Proof.
  unfold payload_status_of, table_fn, src_payload_status. cbn [lookup].
  repeat match goal with |- context [v =? ?k] => destruct (v =? k); [reflexivity|] end. reflexivity.
Qed.
