(* The access-restriction core as translated from genapi/src/node_base.rs / register_base.rs on every run
   (gen/AccessSrc.v, tools/translate_access.py) is the hand-written model/Access.v, for every node and every behaviour
   [bfi] of the nodes asked. *)
From Cam Require Import Outcome Access AccessOps AccessSrc.

Lemma map_or_ctlq bfi r d : src_map_or r d bfi = ctlq bfi r d.
Proof. destruct r; reflexivity. Qed.

Lemma mode_r_in m : mode_in [RO; RW] m = mode_r m.
Proof. destruct m; reflexivity. Qed.
Lemma mode_w_in m : mode_in [WO; RW] m = mode_w m.
Proof. destruct m; reflexivity. Qed.
Lemma not_wo_in m : negb (mode_in [WO] m) = not_wo m.
Proof. destruct m; reflexivity. Qed.
Lemma not_ro_in m : negb (mode_in [RO] m) = not_ro m.
Proof. destruct m; reflexivity. Qed.

Lemma controls_from_source bfi nd :
  src_is_implemented bfi nd = ctlq bfi (p_impl nd) true /\
  src_is_available bfi nd = ctlq bfi (p_avail nd) true /\
  src_is_locked bfi nd = ctlq bfi (p_lock nd) false.
Proof. unfold src_is_implemented, src_is_available, src_is_locked. rewrite !map_or_ctlq. auto. Qed.

Lemma base_r_from_source bfi nd : src_base_is_readable bfi nd = base_r bfi nd.
Proof.
  unfold src_base_is_readable, base_r, src_is_implemented, src_is_available.
  rewrite !map_or_ctlq, mode_r_in. reflexivity.
Qed.

Lemma base_w_from_source bfi nd : src_base_is_writable bfi nd = base_w bfi nd.
Proof.
  unfold src_base_is_writable, base_w, src_is_implemented, src_is_available, src_is_locked.
  rewrite !map_or_ctlq, mode_w_in. reflexivity.
Qed.

Lemma reg_r_from_source bfi nd : src_reg_is_readable bfi nd = andl (base_r bfi nd) (Ok (not_wo (regmode nd))).
Proof. unfold src_reg_is_readable. rewrite base_r_from_source, not_wo_in. reflexivity. Qed.

Lemma reg_w_from_source bfi nd : src_reg_is_writable bfi nd = andl (base_w bfi nd) (Ok (not_ro (regmode nd))).
Proof. unfold src_reg_is_writable. rewrite base_w_from_source, not_ro_in. reflexivity. Qed.

(* the order in which the translated code asks: a later control is asked only when the earlier ones answered
   Ok(true); the first failing control decides *)
Lemma source_write_order bfi nd :
  match src_is_implemented bfi nd with
  | Ok true =>
    match src_is_available bfi nd with
    | Ok true =>
      match src_is_locked bfi nd with
      | Ok l => src_base_is_writable bfi nd = Ok (negb l && mode_in [WO; RW] (imposed nd))
      | Err e => src_base_is_writable bfi nd = Err e
      | Panic => src_base_is_writable bfi nd = Panic
      end
    | Ok false => src_base_is_writable bfi nd = Ok false
    | Err e => src_base_is_writable bfi nd = Err e
    | Panic => src_base_is_writable bfi nd = Panic
    end
  | Ok false => src_base_is_writable bfi nd = Ok false
  | Err e => src_base_is_writable bfi nd = Err e
  | Panic => src_base_is_writable bfi nd = Panic
  end.
Proof.
  unfold src_base_is_writable.
  destruct (src_is_implemented bfi nd) as [[|]| |]; cbn [andl]; try reflexivity.
  destruct (src_is_available bfi nd) as [[|]| |]; cbn [andl]; try reflexivity.
  destruct (src_is_locked bfi nd) as [[|]| |]; cbn [andl omap negb andb]; reflexivity.
Qed.

Example source_example :
  let nd := mkNode KIntReg RW RO (Some 1%nat) None (Some 2%nat) (VOne (ISlot 0)) 0 [] 1 0 in
  src_reg_is_writable (fun n => Ok (Nat.eqb n 1)) nd = Ok false /\
  src_reg_is_readable (fun n => Ok (Nat.eqb n 1)) nd = Ok true /\
  src_base_is_writable (fun n => Ok (Nat.eqb n 1)) nd = Ok true.
Proof. cbv. auto. Qed.
