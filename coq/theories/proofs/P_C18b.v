(* C18 — the answers are total on evaluable stores: `is_readable n = Ok b` with `b = true <-> Readable`,
   likewise `is_writable`.  Model: model/Access.v, specification: spec/AccessSpec.v ([Evaluable]). *)
From Cam Require Import Outcome Access AccessSpec P_C18.
Local Open Scope nat_scope.

Definition okb (x : outcome bool) : Prop := exists b, x = Ok b.

Lemma okb_ok b : okb (Ok b).
Proof. exists b; reflexivity. Qed.
Lemma andl_ok a b : okb a -> okb b -> okb (a &&? b).
Proof. intros [[|] ->] [b' ->]; simpl; apply okb_ok. Qed.
Lemma all_amp_ok f l : (forall m, In m l -> okb (f m)) -> forall acc, okb (all_amp f l acc).
Proof.
  induction l as [|x r IH]; intros H acc; simpl; [apply okb_ok|].
  destruct (H x (or_introl eq_refl)) as [b ->]. simpl. apply IH. intros m Hm; apply H; right; exact Hm.
Qed.
Lemma ctlq_ok bfi r d : (forall c, r = Some c -> okb (bfi c)) -> okb (ctlq bfi r d).
Proof. destruct r as [c|]; simpl; intros H; [apply H; reflexivity | apply okb_ok]. Qed.
Lemma omap_negb_ok x : okb x -> okb (omap negb x).
Proof. intros [b ->]; simpl; apply okb_ok. Qed.

Lemma base_r_ok bfi nd :
  (forall c, p_impl nd = Some c \/ p_avail nd = Some c \/ p_lock nd = Some c -> okb (bfi c)) ->
  okb (base_r bfi nd).
Proof.
  intros H. unfold base_r. repeat apply andl_ok; try apply okb_ok; apply ctlq_ok; intros c Hc; apply H; auto.
Qed.
Lemma base_w_ok bfi nd :
  (forall c, p_impl nd = Some c \/ p_avail nd = Some c \/ p_lock nd = Some c -> okb (bfi c)) ->
  okb (base_w bfi nd).
Proof.
  intros H. unfold base_w.
  repeat apply andl_ok; try apply okb_ok; try apply omap_negb_ok; apply ctlq_ok; intros c Hc; apply H; auto.
Qed.

(* kinds that can be referred to never are Command (the only kind with half of the queries) *)
Lemma numeric_not_command k : NumericKind k -> k <> KCommand.
Proof. unfold NumericKind; destruct k; simpl; intuition discriminate. Qed.
Lemma var_not_command k : VarKind k -> k <> KCommand.
Proof. unfold VarKind, NumericKind; destruct k; simpl; intuition discriminate. Qed.
Lemma string_not_command k : StringKind k -> k <> KCommand.
Proof. destruct k; simpl; intuition discriminate. Qed.
Lemma integer_not_command k : IntegerKind k -> k <> KCommand.
Proof. destruct k; simpl; intuition discriminate. Qed.

Lemma select_cases i es d : select i es d = d \/ exists j, In (j, select i es d) es.
Proof.
  induction es as [|[j x] r IH]; simpl; [left; reflexivity|].
  destruct (j =? i)%Z; [right; exists j; left; reflexivity|].
  destruct IH as [->|[j' H]]; [left; reflexivity | right; exists j'; right; exact H].
Qed.

(* ------------------------------------------------------------------ one step never fails *)
Section StepOk.
Variable c : cfg.
Variable s : store.
Variable nd : node.
Variables rd wr : nat -> outcome bool.
Variable vl : nat -> outcome Z.
Variable bfi : nat -> outcome bool.
Variable ival : nat -> option Z.
Variable bval : nat -> option bool.

Hypothesis Hbfi : forall x, p_impl nd = Some x \/ p_avail nd = Some x \/ p_lock nd = Some x -> okb (bfi x).
Hypothesis Hrd : forall m, In m (refs nd) -> kind_of s m <> KCommand -> okb (rd m).
Hypothesis Hwr : forall m, In m (refs nd) -> okb (wr m).
Hypothesis Hvl : forall idx es d, nvalue nd = VPIndex idx es d -> ival idx <> None -> exists i, vl idx = Ok i.
Hypothesis Hok : NodeOk s ival bval nd.

Lemma nid_r_ok m : In m (refs nd) -> okb (nid_r s rd m).
Proof.
  intros Hm. unfold nid_r. destruct (is_numeric (kind_of s m)) eqn:K; [|apply okb_ok].
  apply Hrd; auto. apply numeric_not_command, is_numeric_spec, K.
Qed.
Lemma nid_w_ok m : In m (refs nd) -> okb (nid_w c s wr m).
Proof. intros Hm. unfold nid_w. cbv zeta. destruct (_ || _ || _)%bool; [apply Hwr, Hm | apply okb_ok]. Qed.
Lemma iop_r_ok i : (forall m, i = INode m -> In m (refs nd)) -> okb (iop_r s rd i).
Proof. destruct i as [v|k|m]; simpl; intros H; try apply okb_ok. apply nid_r_ok, H; reflexivity. Qed.
Lemma iop_w_ok i : (forall m, i = INode m -> In m (refs nd)) -> okb (iop_w c s wr i).
Proof. destruct i as [v|k|m]; simpl; intros H; try apply okb_ok. apply nid_w_ok, H; reflexivity. Qed.
Lemma var_r_ok m : In m (refs nd) -> VarKind (kind_of s m) -> okb (var_q s rd m).
Proof.
  intros Hm K. unfold var_q. rewrite (proj2 (is_varkind_spec _) K). apply Hrd; auto using var_not_command.
Qed.
Lemma var_w_ok m : In m (refs nd) -> VarKind (kind_of s m) -> okb (var_q s wr m).
Proof. intros Hm K. unfold var_q. rewrite (proj2 (is_varkind_spec _) K). apply Hwr, Hm. Qed.

Lemma pindex_ok (g : iop -> outcome bool) idx es d :
  nvalue nd = VPIndex idx es d -> In idx (refs nd) ->
  IntegerKind (kind_of s idx) -> ival idx <> None ->
  (forall i, okb (g (select i es d))) ->
  okb (if is_iinteger (kind_of s idx) then rd idx &&? (let? i := vl idx in g (select i es d))
       else Err E_INVALID_NODE).
Proof.
  intros V Hin K I G. rewrite (proj2 (is_iinteger_spec _) K).
  apply andl_ok; [apply Hrd; auto using integer_not_command|].
  destruct (Hvl idx es d V I) as [i ->]. simpl. apply G.
Qed.

Lemma select_in_refs K idx es d : nvalue nd = VPIndex idx es d ->
  nkind nd = K -> K = KInteger \/ K = KFloat ->
  forall i m, select i es d = INode m -> In m (refs nd).
Proof.
  intros V HK KK i m S. apply refs_tail.
  assert (In m (vsrc_refs (VPIndex idx es d))).
  { simpl. right. eapply select_refs. rewrite S. simpl; auto. }
  rewrite HK. destruct KK as [->| ->]; rewrite V; assumption.
Qed.

Lemma readable_step_ok : nkind nd <> KCommand -> okb (readable_step c s rd vl bfi nd).
Proof.
  intros NC. destruct Hok as (HQ & _ & HK). unfold readable_step. cbv zeta.
  pose proof (base_r_ok bfi nd Hbfi) as B.
  assert (HT : forall m, In m (match nkind nd with
        | KInteger | KFloat | KBoolean | KEnumeration | KCommand | KString => vsrc_refs (nvalue nd)
        | KIntConverter | KConverter => conv_pvalue nd :: vars nd
        | KIntSwissKnife | KSwissKnife => vars nd
        | _ => []
        end) -> In m (refs nd)) by (intros m Hm; apply refs_tail, Hm).
  destruct (nkind nd) eqn:K; simpl in HQ; try contradiction; try congruence;
    try (apply andl_ok; [exact B | apply okb_ok]).
  - (* Integer *)
    apply andl_ok; [exact B|]. destruct (nvalue nd) as [i|p cs|idx es d] eqn:V; simpl in HK.
    + apply iop_r_ok. intros m ->. apply HT; simpl; auto.
    + apply nid_r_ok. apply HT; simpl; auto.
    + destruct HK as (KI & I & _ & _). apply pindex_ok; auto. { apply HT; simpl; auto. }
      intros i. apply iop_r_ok. intros m S. eapply select_in_refs; eauto.
  - (* IntConverter *)
    destruct HK as [KP KV]. repeat apply andl_ok; [exact B | apply var_r_ok; auto; apply HT; simpl; auto |].
    apply all_amp_ok. intros m Hm. apply var_r_ok; auto. apply HT; simpl; auto.
  - (* IntSwissKnife *)
    apply andl_ok; [exact B|]. apply all_amp_ok. intros m Hm. apply var_r_ok; auto.
  - (* Float *)
    apply andl_ok; [exact B|]. destruct (nvalue nd) as [i|p cs|idx es d] eqn:V; simpl in HK.
    + apply iop_r_ok. intros m ->. apply HT; simpl; auto.
    + apply nid_r_ok. apply HT; simpl; auto.
    + destruct HK as (KI & I & _ & _). apply pindex_ok; auto. { apply HT; simpl; auto. }
      intros i. apply iop_r_ok. intros m S. eapply select_in_refs; eauto.
  - (* Converter *)
    destruct HK as [KP KV]. repeat apply andl_ok; [exact B | apply var_r_ok; auto; apply HT; simpl; auto |].
    apply all_amp_ok. intros m Hm. apply var_r_ok; auto. apply HT; simpl; auto.
  - (* SwissKnife *)
    destruct (sk_checks_vars c); [|exact B].
    apply andl_ok; [exact B|]. apply all_amp_ok. intros m Hm. apply var_r_ok; auto.
  - (* String *)
    apply andl_ok; [exact B|]. destruct HK as (i & V & KS). rewrite V in *. destruct i as [v|k|m]; try apply okb_ok.
    unfold str_q. rewrite (proj2 (is_istring_spec _) (KS m eq_refl)).
    apply Hrd; [apply HT; simpl; auto | apply string_not_command, KS; reflexivity].
  - (* Boolean *)
    apply andl_ok; [exact B|]. destruct HK as (i & V & _). rewrite V in *.
    apply iop_r_ok. intros m ->. apply HT; simpl; auto.
  - (* Enumeration *)
    apply andl_ok; [exact B|]. destruct HK as (i & V & _). rewrite V in *.
    apply iop_r_ok. intros m ->. apply HT; simpl; auto.
Qed.

Lemma writable_step_ok : okb (writable_step c s wr rd vl bfi nd).
Proof.
  destruct Hok as (HQ & _ & HK). unfold writable_step. cbv zeta.
  pose proof (base_w_ok bfi nd Hbfi) as B.
  assert (HT : forall m, In m (match nkind nd with
        | KInteger | KFloat | KBoolean | KEnumeration | KCommand | KString => vsrc_refs (nvalue nd)
        | KIntConverter | KConverter => conv_pvalue nd :: vars nd
        | KIntSwissKnife | KSwissKnife => vars nd
        | _ => []
        end) -> In m (refs nd)) by (intros m Hm; apply refs_tail, Hm).
  destruct (nkind nd) eqn:K; simpl in HQ; try contradiction; try apply okb_ok;
    try (apply andl_ok; [exact B | apply okb_ok]).
  - (* Integer *)
    apply andl_ok; [exact B|]. destruct (nvalue nd) as [i|p cs|idx es d] eqn:V; simpl in HK.
    + apply iop_w_ok. intros m ->. apply HT; simpl; auto.
    + destruct (nid_w_ok p) as [b ->]; [apply HT; simpl; auto|]. simpl.
      apply all_amp_ok. intros m Hm. apply nid_w_ok. apply HT; simpl; auto.
    + destruct HK as (KI & I & _ & _). apply pindex_ok; auto. { apply HT; simpl; auto. }
      intros i. apply iop_w_ok. intros m S. eapply select_in_refs; eauto.
  - (* IntConverter *)
    destruct HK as [KP KV]. repeat apply andl_ok; [exact B | apply var_w_ok; auto; apply HT; simpl; auto |].
    apply all_amp_ok. intros m Hm. apply var_r_ok; auto. apply HT; simpl; auto.
  - (* Float *)
    apply andl_ok; [exact B|]. destruct (nvalue nd) as [i|p cs|idx es d] eqn:V; simpl in HK.
    + apply iop_w_ok. intros m ->. apply HT; simpl; auto.
    + destruct (nid_w_ok p) as [b ->]; [apply HT; simpl; auto|]. simpl.
      apply all_amp_ok. intros m Hm. apply nid_w_ok. apply HT; simpl; auto.
    + destruct HK as (KI & I & _ & _). apply pindex_ok; auto. { apply HT; simpl; auto. }
      intros i. apply iop_w_ok. intros m S. eapply select_in_refs; eauto.
  - (* Converter *)
    destruct HK as [KP KV]. repeat apply andl_ok; [exact B | apply var_w_ok; auto; apply HT; simpl; auto |].
    apply all_amp_ok. intros m Hm. apply var_r_ok; auto. apply HT; simpl; auto.
  - (* String *)
    apply andl_ok; [exact B|]. destruct HK as (i & V & KS). rewrite V in *. destruct i as [v|k|m]; try apply okb_ok.
    unfold str_q. rewrite (proj2 (is_istring_spec _) (KS m eq_refl)). apply Hwr, HT; simpl; auto.
  - (* Boolean *)
    apply andl_ok; [exact B|]. destruct HK as (i & V & _). rewrite V in *.
    apply iop_w_ok. intros m ->. apply HT; simpl; auto.
  - (* Command *)
    apply andl_ok; [exact B|]. destruct HK as (i & V & _). rewrite V in *.
    apply iop_w_ok. intros m ->. apply HT; simpl; auto.
  - (* Enumeration *)
    apply andl_ok; [exact B|]. destruct HK as (i & V & _). rewrite V in *.
    apply iop_w_ok. intros m ->. apply HT; simpl; auto.
Qed.

End StepOk.
