(* C18 — the answers are total on evaluable stores: `is_readable n = Ok b` with `b = true <-> Readable`,
   likewise `is_writable`.  Model: model/Access.v, specification: spec/AccessSpec.v ([Evaluable]). *)
From Cam Require Import Outcome Access AccessSpec P_C18.
Local Open Scope nat_scope.

Definition okb (x : outcome bool) : Prop := exists b, x = Ok b.

Lemma okb_ok b : okb (Ok b).
Proof. exists b; reflexivity. Qed.
Lemma andl_ok a b : okb a -> okb b -> okb (a &&? b).
Proof. intros [[|] ->] [b' ->]; simpl; apply okb_ok. Qed.
Lemma all_amp_ok f l : (forall m, In m l -> okb (f m)) -> forall acc, okb (all_amp f l acc).
Proof.
  induction l as [|x r IH]; intros H acc; simpl; [apply okb_ok|].
  destruct (H x (or_introl eq_refl)) as [b ->]. simpl. apply IH. intros m Hm; apply H; right; exact Hm.
Qed.
Lemma ctlq_ok bfi r d : (forall c, r = Some c -> okb (bfi c)) -> okb (ctlq bfi r d).
Proof. destruct r as [c|]; simpl; intros H; [apply H; reflexivity | apply okb_ok]. Qed.
Lemma omap_negb_ok x : okb x -> okb (omap negb x).
Proof. intros [b ->]; simpl; apply okb_ok. Qed.

Lemma base_r_ok bfi nd :
  (forall c, p_impl nd = Some c \/ p_avail nd = Some c \/ p_lock nd = Some c -> okb (bfi c)) ->
  okb (base_r bfi nd).
Proof.
  intros H. unfold base_r. repeat apply andl_ok; try apply okb_ok; apply ctlq_ok; intros c Hc; apply H; auto.
Qed.
Lemma base_w_ok bfi nd :
  (forall c, p_impl nd = Some c \/ p_avail nd = Some c \/ p_lock nd = Some c -> okb (bfi c)) ->
  okb (base_w bfi nd).
Proof.
  intros H. unfold base_w.
  repeat apply andl_ok; try apply okb_ok; try apply omap_negb_ok; apply ctlq_ok; intros c Hc; apply H; auto.
Qed.

(* kinds that can be referred to never are Command (the only kind with half of the queries) *)
Lemma numeric_not_command k : NumericKind k -> k <> KCommand.
Proof. unfold NumericKind; destruct k; simpl; intuition discriminate. Qed.
Lemma var_not_command k : VarKind k -> k <> KCommand.
Proof. unfold VarKind, NumericKind; destruct k; simpl; intuition discriminate. Qed.
Lemma string_not_command k : StringKind k -> k <> KCommand.
Proof. destruct k; simpl; intuition discriminate. Qed.
Lemma integer_not_command k : IntegerKind k -> k <> KCommand.
Proof. destruct k; simpl; intuition discriminate. Qed.

Lemma select_cases i es d : select i es d = d \/ exists j, In (j, select i es d) es.
Proof.
  induction es as [|[j x] r IH]; simpl; [left; reflexivity|].
  destruct (j =? i)%Z; [right; exists j; left; reflexivity|].
  destruct IH as [->|[j' H]]; [left; reflexivity | right; exists j'; right; exact H].
Qed.

(* ------------------------------------------------------------------ one step never fails *)
Section StepOk.
Variable c : cfg.
Variable s : store.
Variable nd : node.
Variables rd wr : nat -> outcome bool.
Variable vl : nat -> outcome Z.
Variable bfi : nat -> outcome bool.
Variable ival : nat -> option Z.
Variable bval : nat -> option bool.

Hypothesis Hbfi : forall x, p_impl nd = Some x \/ p_avail nd = Some x \/ p_lock nd = Some x -> okb (bfi x).
Hypothesis Hrd : forall m, In m (refs nd) -> kind_of s m <> KCommand -> okb (rd m).
Hypothesis Hwr : forall m, In m (refs nd) -> okb (wr m).
Hypothesis Hvl : forall idx es d, nvalue nd = VPIndex idx es d -> In idx (refs nd) -> ival idx <> None ->
  exists i, vl idx = Ok i.
Hypothesis Hok : NodeOk s ival bval nd.

Lemma nid_r_ok m : In m (refs nd) -> okb (nid_r s rd m).
Proof.
  intros Hm. unfold nid_r. destruct (is_numeric (kind_of s m)) eqn:K; [|apply okb_ok].
  apply Hrd; auto. apply numeric_not_command, is_numeric_spec, K.
Qed.
Lemma nid_w_ok m : In m (refs nd) -> okb (nid_w c s wr m).
Proof. intros Hm. unfold nid_w. cbv zeta. destruct (_ || _ || _)%bool; [apply Hwr, Hm | apply okb_ok]. Qed.
Lemma iop_r_ok i : (forall m, i = INode m -> In m (refs nd)) -> okb (iop_r s rd i).
Proof. destruct i as [v|k|m]; simpl; intros H; try apply okb_ok. apply nid_r_ok, H; reflexivity. Qed.
Lemma iop_w_ok i : (forall m, i = INode m -> In m (refs nd)) -> okb (iop_w c s wr i).
Proof. destruct i as [v|k|m]; simpl; intros H; try apply okb_ok. apply nid_w_ok, H; reflexivity. Qed.
Lemma var_r_ok m : In m (refs nd) -> VarKind (kind_of s m) -> okb (var_q s rd m).
Proof.
  intros Hm K. unfold var_q. rewrite (proj2 (is_varkind_spec _) K). apply Hrd; auto using var_not_command.
Qed.
Lemma var_w_ok m : In m (refs nd) -> VarKind (kind_of s m) -> okb (var_q s wr m).
Proof. intros Hm K. unfold var_q. rewrite (proj2 (is_varkind_spec _) K). apply Hwr, Hm. Qed.

Lemma pindex_ok (g : iop -> outcome bool) idx es d :
  nvalue nd = VPIndex idx es d -> In idx (refs nd) ->
  IntegerKind (kind_of s idx) -> ival idx <> None ->
  (forall i, okb (g (select i es d))) ->
  okb (if is_iinteger (kind_of s idx) then rd idx &&? (let? i := vl idx in g (select i es d))
       else Err E_INVALID_NODE).
Proof.
  intros V Hin K I G. rewrite (proj2 (is_iinteger_spec _) K).
  apply andl_ok; [apply Hrd; auto using integer_not_command|].
  destruct (Hvl idx es d V Hin I) as [i ->]. simpl. apply G.
Qed.

Lemma select_in_refs K idx es d : nvalue nd = VPIndex idx es d ->
  nkind nd = K -> K = KInteger \/ K = KFloat ->
  forall i m, select i es d = INode m -> In m (refs nd).
Proof.
  intros V HK KK i m S. apply refs_tail.
  assert (In m (vsrc_refs (VPIndex idx es d))).
  { simpl. right. eapply select_refs. rewrite S. simpl; auto. }
  rewrite HK. destruct KK as [->| ->]; rewrite V; assumption.
Qed.

Lemma readable_step_ok : nkind nd <> KCommand -> okb (readable_step c s rd vl bfi nd).
Proof.
  intros NC. pose proof Hok as (HQ & _ & HK). unfold readable_step. cbv zeta.
  pose proof (base_r_ok bfi nd Hbfi) as B.
  assert (HT : forall m, In m (match nkind nd with
        | KInteger | KFloat | KBoolean | KEnumeration | KCommand | KString => vsrc_refs (nvalue nd)
        | KIntConverter | KConverter => conv_pvalue nd :: vars nd
        | KIntSwissKnife | KSwissKnife => vars nd
        | _ => []
        end) -> In m (refs nd)) by (intros m Hm; apply refs_tail, Hm).
  destruct (nkind nd) eqn:K; simpl in HQ; try contradiction; try congruence;
    try (apply andl_ok; [exact B | apply okb_ok]).
  - (* Integer *)
    apply andl_ok; [exact B|]. case_eq (nvalue nd); [intros i V|intros p cs V|intros idx es d V]; rewrite V in HK, HT; simpl in HK; rewrite ?V.
    + apply iop_r_ok. intros m ->. apply HT; simpl; auto.
    + apply nid_r_ok. apply HT; simpl; auto.
    + destruct HK as (KI & I & _ & _). apply pindex_ok; auto. { apply HT; simpl; auto. }
      intros i. apply iop_r_ok. intros m S. eapply select_in_refs; eauto.
  - (* IntConverter *)
    destruct HK as [KP KV]. apply andl_ok; [apply andl_ok; [exact B | apply var_r_ok; auto; apply HT; simpl; auto] |].
    apply all_amp_ok. intros m Hm. apply var_r_ok; auto. apply HT; simpl; auto.
  - (* IntSwissKnife *)
    apply andl_ok; [exact B|]. apply all_amp_ok. intros m Hm. apply var_r_ok; auto.
  - (* Float *)
    apply andl_ok; [exact B|]. case_eq (nvalue nd); [intros i V|intros p cs V|intros idx es d V]; rewrite V in HK, HT; simpl in HK; rewrite ?V.
    + apply iop_r_ok. intros m ->. apply HT; simpl; auto.
    + apply nid_r_ok. apply HT; simpl; auto.
    + destruct HK as (KI & I & _ & _). apply pindex_ok; auto. { apply HT; simpl; auto. }
      intros i. apply iop_r_ok. intros m S. eapply select_in_refs; eauto.
  - (* Converter *)
    destruct HK as [KP KV]. apply andl_ok; [apply andl_ok; [exact B | apply var_r_ok; auto; apply HT; simpl; auto] |].
    apply all_amp_ok. intros m Hm. apply var_r_ok; auto. apply HT; simpl; auto.
  - (* SwissKnife *)
    destruct (sk_checks_vars c); [|exact B].
    apply andl_ok; [exact B|]. apply all_amp_ok. intros m Hm. apply var_r_ok; auto.
  - (* String *)
    apply andl_ok; [exact B|]. destruct HK as (i & V & KS). rewrite V; rewrite V in HT. destruct i as [v|k|m]; try apply okb_ok.
    unfold str_q. rewrite (proj2 (is_istring_spec _) (KS m eq_refl)).
    apply Hrd; [apply HT; simpl; auto | apply string_not_command, KS; reflexivity].
  - (* Boolean *)
    apply andl_ok; [exact B|]. destruct HK as (i & V & _). rewrite V; rewrite V in HT.
    apply iop_r_ok. intros m ->. apply HT; simpl; auto.
  - (* Enumeration *)
    apply andl_ok; [exact B|]. destruct HK as (i & V & _). rewrite V; rewrite V in HT.
    apply iop_r_ok. intros m ->. apply HT; simpl; auto.
Qed.

Lemma writable_step_ok : okb (writable_step c s wr rd vl bfi nd).
Proof.
  pose proof Hok as (HQ & _ & HK). unfold writable_step. cbv zeta.
  pose proof (base_w_ok bfi nd Hbfi) as B.
  assert (HT : forall m, In m (match nkind nd with
        | KInteger | KFloat | KBoolean | KEnumeration | KCommand | KString => vsrc_refs (nvalue nd)
        | KIntConverter | KConverter => conv_pvalue nd :: vars nd
        | KIntSwissKnife | KSwissKnife => vars nd
        | _ => []
        end) -> In m (refs nd)) by (intros m Hm; apply refs_tail, Hm).
  destruct (nkind nd) eqn:K; simpl in HQ; try contradiction; try apply okb_ok;
    try (apply andl_ok; [exact B | apply okb_ok]).
  - (* Integer *)
    apply andl_ok; [exact B|]. case_eq (nvalue nd); [intros i V|intros p cs V|intros idx es d V]; rewrite V in HK, HT; simpl in HK; rewrite ?V.
    + apply iop_w_ok. intros m ->. apply HT; simpl; auto.
    + destruct (nid_w_ok p) as [b ->]; [apply HT; simpl; auto|]. simpl.
      apply all_amp_ok. intros m Hm. apply nid_w_ok. apply HT; simpl; auto.
    + destruct HK as (KI & I & _ & _). apply pindex_ok; auto. { apply HT; simpl; auto. }
      intros i. apply iop_w_ok. intros m S. eapply select_in_refs; eauto.
  - (* IntConverter *)
    destruct HK as [KP KV]. apply andl_ok; [apply andl_ok; [exact B | apply var_w_ok; auto; apply HT; simpl; auto] |].
    apply all_amp_ok. intros m Hm. apply var_r_ok; auto. apply HT; simpl; auto.
  - (* Float *)
    apply andl_ok; [exact B|]. case_eq (nvalue nd); [intros i V|intros p cs V|intros idx es d V]; rewrite V in HK, HT; simpl in HK; rewrite ?V.
    + apply iop_w_ok. intros m ->. apply HT; simpl; auto.
    + destruct (nid_w_ok p) as [b ->]; [apply HT; simpl; auto|]. simpl.
      apply all_amp_ok. intros m Hm. apply nid_w_ok. apply HT; simpl; auto.
    + destruct HK as (KI & I & _ & _). apply pindex_ok; auto. { apply HT; simpl; auto. }
      intros i. apply iop_w_ok. intros m S. eapply select_in_refs; eauto.
  - (* Converter *)
    destruct HK as [KP KV]. apply andl_ok; [apply andl_ok; [exact B | apply var_w_ok; auto; apply HT; simpl; auto] |].
    apply all_amp_ok. intros m Hm. apply var_r_ok; auto. apply HT; simpl; auto.
  - (* String *)
    apply andl_ok; [exact B|]. destruct HK as (i & V & KS). rewrite V; rewrite V in HT. destruct i as [v|k|m]; try apply okb_ok.
    unfold str_q. rewrite (proj2 (is_istring_spec _) (KS m eq_refl)). apply Hwr, HT; simpl; auto.
  - (* Boolean *)
    apply andl_ok; [exact B|]. destruct HK as (i & V & _). rewrite V; rewrite V in HT.
    apply iop_w_ok. intros m ->. apply HT; simpl; auto.
  - (* Command *)
    apply andl_ok; [exact B|]. destruct HK as (i & V & _). rewrite V; rewrite V in HT.
    apply iop_w_ok. intros m ->. apply HT; simpl; auto.
  - (* Enumeration *)
    apply andl_ok; [exact B|]. destruct HK as (i & V & _). rewrite V; rewrite V in HT.
    apply iop_w_ok. intros m ->. apply HT; simpl; auto.
Qed.

End StepOk.

(* ------------------------------------------------------------------ the queries never fail *)
Section Total.
Variable s : store.
Variable rank : nat -> nat.
Hypothesis Hac : Acyclic s rank.
Variable F : nat.
Hypothesis HF : forall m, rank m < F.
Variable st : state.
Let IV := iv s F st.
Let BV := bv s F st.

Lemma ctl_ok_of : forall f nd x, (forall m, In m (refs nd) -> rank m < f) -> NodeOk s IV BV nd ->
  p_impl nd = Some x \/ p_avail nd = Some x \/ p_lock nd = Some x -> okb (bool_from_id s f st x).
Proof.
  intros f nd x Hrank (_ & D & _) Hx.
  apply (decided_iff s rank Hac F HF st f x).
  - apply Hrank. destruct Hx as [H|[H|H]]; eauto using refs_impl, refs_avail, refs_lock.
  - apply D, Hx.
Qed.

Lemma vl_ok_of : forall f nd idx, (forall m, In m (refs nd) -> rank m < f) ->
  In idx (refs nd) -> IV idx <> None -> exists i, val s f st idx = Ok i.
Proof.
  intros f nd idx Hrank Hin I. rewrite (val_stable s rank Hac f F) by auto.
  unfold IV, iv in I. destruct (val s F st idx) as [i| |]; [eauto | congruence | congruence].
Qed.

Lemma kind_of_nth : forall n nd, nth_error s n = Some nd -> kind_of s n = nkind nd.
Proof. intros n nd E. unfold kind_of. rewrite E. reflexivity. Qed.

Lemma readable_total_fuel : forall c fuel n, rank n < fuel -> Evaluable s IV BV n ->
  kind_of s n <> KCommand -> okb (is_readable c s fuel st n).
Proof.
  intros c. induction fuel as [|f IH]; intros n Hn Ev NC; [lia|].
  destruct Ev as [n nd E OK Sub]. cbn [is_readable]. rewrite E.
  assert (Hrank : forall m, In m (refs nd) -> rank m < f)
    by (intros m Hm; pose proof (Hac _ _ _ E Hm); lia).
  eapply readable_step_ok with (ival := IV) (bval := BV).
  - intros x Hx. eapply ctl_ok_of; eauto.
  - intros m Hm K. apply IH; auto.
  - intros idx es d _ Hin I. eapply vl_ok_of; eauto.
  - exact OK.
  - rewrite <- (kind_of_nth n nd E). exact NC.
Qed.

Lemma writable_total_fuel : forall c fuel n, rank n < fuel -> Evaluable s IV BV n ->
  okb (is_writable c s fuel st n).
Proof.
  intros c. induction fuel as [|f IH]; intros n Hn Ev; [lia|].
  destruct Ev as [n nd E OK Sub]. cbn [is_writable]. rewrite E.
  assert (Hrank : forall m, In m (refs nd) -> rank m < f)
    by (intros m Hm; pose proof (Hac _ _ _ E Hm); lia).
  eapply writable_step_ok with (ival := IV) (bval := BV).
  - intros x Hx. eapply ctl_ok_of; eauto.
  - intros m Hm K. apply readable_total_fuel; auto.
  - intros m Hm. apply IH; auto.
  - intros idx es d _ Hin I. eapply vl_ok_of; eauto.
  - exact OK.
Qed.

(* completeness of is_writable from the local hypothesis (instead of the global LocksDecided) *)
Lemma writable_complete_fuel : forall fuel n, rank n < fuel -> Evaluable s IV BV n ->
  Writable s IV BV n -> is_writable fixed_cfg s fuel st n = Ok true.
Proof.
  induction fuel as [|f IH]; intros n Hn Ev W; [lia|].
  destruct Ev as [n nd E OK Sub]. cbn [is_writable]. rewrite E.
  assert (Hrank : forall m, In m (refs nd) -> rank m < f)
    by (intros m Hm; pose proof (Hac _ _ _ E Hm); lia).
  apply (Writable_char s F st n) in W. destruct W as (nd' & E' & NW).
  rewrite E in E'. injection E' as <-.
  apply (writable_step_iff s rank Hac F HF st f nd Hrank (is_writable fixed_cfg s f st)
           (is_readable fixed_cfg s f st) (Writable s IV BV)).
  - intros x L. destruct OK as (_ & D & _). apply D. auto.
  - intros m Hm. split.
    + apply (writable_iff_fuel s rank Hac F HF st f m). auto.
    + apply IH; auto.
  - intros m Hm. apply (readable_iff_fuel s rank Hac F HF st f m). auto.
  - exact NW.
Qed.

End Total.

(* ================================================================== results *)
Theorem readable_exactly : forall s rank F st n, Acyclic s rank -> (forall m, rank m < F) ->
  Evaluable s (iv s F st) (bv s F st) n -> kind_of s n <> KCommand ->
  exists b, is_readable fixed_cfg s F st n = Ok b /\ (b = true <-> Readable s (iv s F st) (bv s F st) n).
Proof.
  intros s rank F st n Hac HF Ev NC.
  destruct (readable_total_fuel s rank Hac F HF st fixed_cfg F n (HF n) Ev NC) as [b Hb].
  exists b; split; [exact Hb|]. rewrite <- (readable_iff s rank F st n Hac HF), Hb.
  split; [intros ->; reflexivity | intros [=]; assumption].
Qed.

Theorem readable_false_iff : forall s rank F st n, Acyclic s rank -> (forall m, rank m < F) ->
  Evaluable s (iv s F st) (bv s F st) n -> kind_of s n <> KCommand ->
  (is_readable fixed_cfg s F st n = Ok false <-> ~ Readable s (iv s F st) (bv s F st) n).
Proof.
  intros s rank F st n Hac HF Ev NC.
  destruct (readable_exactly s rank F st n Hac HF Ev NC) as (b & Hb & Hi). rewrite Hb.
  destruct b; split; intros H; try discriminate; try reflexivity.
  - exfalso; apply H, Hi; reflexivity.
  - intros R. apply Hi in R. discriminate.
Qed.

Theorem writable_exactly : forall s rank F st n, Acyclic s rank -> (forall m, rank m < F) ->
  Evaluable s (iv s F st) (bv s F st) n ->
  exists b, is_writable fixed_cfg s F st n = Ok b /\ (b = true <-> Writable s (iv s F st) (bv s F st) n).
Proof.
  intros s rank F st n Hac HF Ev.
  destruct (writable_total_fuel s rank Hac F HF st fixed_cfg F n (HF n) Ev) as [b Hb].
  exists b; split; [exact Hb|]. split.
  - intros ->. apply (writable_sound s rank F st n Hac HF Hb).
  - intros W. pose proof (writable_complete_fuel s rank Hac F HF st F n (HF n) Ev W) as H.
    rewrite Hb in H. injection H as ->. reflexivity.
Qed.

Theorem writable_false_iff : forall s rank F st n, Acyclic s rank -> (forall m, rank m < F) ->
  Evaluable s (iv s F st) (bv s F st) n ->
  (is_writable fixed_cfg s F st n = Ok false <-> ~ Writable s (iv s F st) (bv s F st) n).
Proof.
  intros s rank F st n Hac HF Ev.
  destruct (writable_exactly s rank F st n Hac HF Ev) as (b & Hb & Hi). rewrite Hb.
  destruct b; split; intros H; try discriminate; try reflexivity.
  - exfalso; apply H, Hi; reflexivity.
  - intros R. apply Hi in R. discriminate.
Qed.

(* on evaluable stores the iff for is_writable needs no global hypothesis *)
Theorem writable_iff_evaluable : forall s rank F st n, Acyclic s rank -> (forall m, rank m < F) ->
  Evaluable s (iv s F st) (bv s F st) n ->
  (is_writable fixed_cfg s F st n = Ok true <-> Writable s (iv s F st) (bv s F st) n).
Proof.
  intros s rank F st n Hac HF Ev. split.
  - apply (writable_sound s rank F st n Hac HF).
  - apply (writable_complete_fuel s rank Hac F HF st F n (HF n) Ev).
Qed.

(* the queries of the pinned code do not fail either *)
Theorem queries_total : forall c s rank F st n, Acyclic s rank -> (forall m, rank m < F) ->
  Evaluable s (iv s F st) (bv s F st) n ->
  (exists b, is_writable c s F st n = Ok b) /\
  (kind_of s n <> KCommand -> exists b, is_readable c s F st n = Ok b).
Proof.
  intros c s rank F st n Hac HF Ev. split.
  - apply (writable_total_fuel s rank Hac F HF st c F n (HF n) Ev).
  - intros NC. apply (readable_total_fuel s rank Hac F HF st c F n (HF n) Ev NC).
Qed.

(* ================================================================== real stores are evaluable *)
(* a store whose nodes refer to earlier nodes only is acyclic *)
Lemma topological_acyclic : forall s,
  (forall n nd m, nth_error s n = Some nd -> In m (refs nd) -> m < n) ->
  Acyclic s (fun n => Nat.min n (length s)).
Proof.
  intros s H n nd m E Hin. pose proof (H n nd m E Hin).
  assert (n < length s) by (apply nth_error_Some; congruence). lia.
Qed.

(* N0 an IntReg (a controlling / index register), N1 a Boolean holding its value, N2 an Integer over
   N0 that N1 locks and N0 makes available, N3 a SwissKnife over N2 and N0, N4 an Integer choosing by
   N0 between N2 and an own value, N5 a Command writing to N2.  In [st1] every leaf holds 1: N0 = 1,
   N1 = true, so N2 is locked. *)
Definition ev_store : store :=
  [ N KIntReg RW RW None None None (VOne (IImm 0)) 0 [] 1 0;
    N KBoolean RW RO None None None (VOne (ISlot 0)) 0 [] 1 0;
    N KInteger RW RO None (Some 0) (Some 1) (VPValue 0 []) 0 [] 1 0;
    N KSwissKnife RW RO None None None (VOne (IImm 0)) 0 [2; 0] 1 0;
    N KInteger RW RO None None None (VPIndex 0 [(1%Z, INode 2)] (ISlot 1)) 0 [] 1 0;
    N KCommand RW RO None None None (VOne (INode 2)) 0 [] 1 0 ].
Definition st1 : state := fun _ _ => Ok 1%Z.

Lemma ev_store_acyclic : Acyclic ev_store (fun n => Nat.min n 6).
Proof.
  apply (topological_acyclic ev_store). intros n nd m E Hin.
  do 6 (destruct n as [|n]; [inversion E; subst; simpl in Hin; intuition lia|]).
  destruct n; discriminate.
Qed.

Ltac decided_tac :=
  first [ left; split; [reflexivity | vm_compute; discriminate]
        | right; split; [exact I | vm_compute; discriminate] ].
Ltac ctls_tac :=
  let c := fresh "c" in let H := fresh "H" in
  intros c [H|[H|H]]; simpl in H; try discriminate; injection H as <-; decided_tac.

Lemma ev_store_evaluable : forall n, n < 6 ->
  Evaluable ev_store (iv ev_store 7 st1) (bv ev_store 7 st1) n.
Proof.
  assert (E0 : Evaluable ev_store (iv ev_store 7 st1) (bv ev_store 7 st1) 0).
  { eapply Ev_node; [reflexivity| |simpl; intros m []].
    split; [exact I|]. split; [ctls_tac|exact I]. }
  assert (E1 : Evaluable ev_store (iv ev_store 7 st1) (bv ev_store 7 st1) 1).
  { eapply Ev_node; [reflexivity| |simpl; intros m []].
    split; [exact I|]. split; [ctls_tac|]. exists (ISlot 0); split; [reflexivity|]. intros m [=]. }
  assert (E2 : Evaluable ev_store (iv ev_store 7 st1) (bv ev_store 7 st1) 2).
  { eapply Ev_node; [reflexivity| |simpl; intros m [<-|[<-|[<-|[]]]]; assumption].
    split; [exact I|]. split; [ctls_tac|]. simpl. intros m [->|[]]. vm_compute. auto. }
  assert (E3 : Evaluable ev_store (iv ev_store 7 st1) (bv ev_store 7 st1) 3).
  { eapply Ev_node; [reflexivity| |simpl; intros m [<-|[<-|[]]]; assumption].
    split; [exact I|]. split; [ctls_tac|]. simpl. intros m [<-|[<-|[]]]; vm_compute; auto. }
  assert (E4 : Evaluable ev_store (iv ev_store 7 st1) (bv ev_store 7 st1) 4).
  { eapply Ev_node; [reflexivity| |simpl; intros m [<-|[<-|[]]]; assumption].
    split; [exact I|]. split; [ctls_tac|]. simpl.
    split; [exact I|]. split; [vm_compute; discriminate|]. split.
    - intros j e [[= <- <-]|[]] m [= <-]. vm_compute. auto.
    - intros m [=]. }
  assert (E5 : Evaluable ev_store (iv ev_store 7 st1) (bv ev_store 7 st1) 5).
  { eapply Ev_node; [reflexivity| |simpl; intros m [<-|[]]; assumption].
    split; [exact I|]. split; [ctls_tac|]. exists (INode 2); split; [reflexivity|].
    intros m [= <-]. vm_compute. auto. }
  intros n Hn. do 6 (destruct n as [|n]; [assumption|]). lia.
Qed.

(* non-vacuity of the total characterisation: the hypotheses hold, the locked Integer N2 and the
   features over it (N4 selects it, N5 writes it) answer Ok(false) — so they are not Writable —
   while everything is readable *)
Theorem evaluable_example :
  Acyclic ev_store (fun n => Nat.min n 6) /\ (forall m, Nat.min m 6 < 7) /\
  (forall n, n < 6 -> Evaluable ev_store (iv ev_store 7 st1) (bv ev_store 7 st1) n) /\
  map (fun n => is_writable fixed_cfg ev_store 7 st1 n) [0; 1; 2; 3; 4; 5]
    = [Ok true; Ok true; Ok false; Ok false; Ok false; Ok false] /\
  map (fun n => is_readable fixed_cfg ev_store 7 st1 n) [0; 1; 2; 3; 4]
    = [Ok true; Ok true; Ok true; Ok true; Ok true] /\
  ~ Writable ev_store (iv ev_store 7 st1) (bv ev_store 7 st1) 4 /\
  Writable ev_store (iv ev_store 7 (upd st1 1 0 (Ok 0%Z))) (bv ev_store 7 (upd st1 1 0 (Ok 0%Z))) 2.
Proof.
  assert (B : forall m, Nat.min m 6 < 7) by (intros; lia).
  split; [exact ev_store_acyclic|]. split; [exact B|]. split; [exact ev_store_evaluable|].
  split; [vm_compute; reflexivity|]. split; [vm_compute; reflexivity|]. split.
  - apply (writable_false_iff _ _ _ _ _ ev_store_acyclic B (ev_store_evaluable 4 ltac:(lia))).
    vm_compute. reflexivity.
  - apply (writable_sound _ _ _ _ _ ev_store_acyclic B). vm_compute. reflexivity.
Qed.

(* ================================================================== formula variables *)
(* [vars nd] holds the node of EVERY <pVariable>, whatever accessor its name carries (X, X.Value,
   X.Min, X.Max, X.Inc, X.Enum.E): a formula node is reported readable — and a converter writable —
   only if each of these nodes is reported readable. *)
Theorem variable_sources : forall s rank F st n nd m, Acyclic s rank -> (forall x, rank x < F) ->
  nth_error s n = Some nd -> In m (vars nd) ->
  (nkind nd = KSwissKnife \/ nkind nd = KIntSwissKnife \/ nkind nd = KConverter \/ nkind nd = KIntConverter ->
   is_readable fixed_cfg s F st n = Ok true -> is_readable fixed_cfg s F st m = Ok true) /\
  (nkind nd = KConverter \/ nkind nd = KIntConverter ->
   is_writable fixed_cfg s F st n = Ok true -> is_readable fixed_cfg s F st m = Ok true).
Proof.
  intros s rank F st n nd m Hac HF E Hm. split; intros K H.
  - apply (readable_iff s rank F st n Hac HF) in H. apply (readable_iff s rank F st m Hac HF).
    inversion H; subst;
      match goal with X : nth_error s n = Some ?nd' |- _ => rewrite E in X; injection X as <- end;
      try (exfalso; destruct (nkind nd); simpl in *; intuition discriminate).
    + match goal with V : VarsOk _ _ (vars nd) |- _ => apply (V m Hm) end.
    + match goal with V : VarsOk _ _ (vars nd) |- _ => apply (V m Hm) end.
  - apply (writable_sound s rank F st n Hac HF) in H. apply (readable_iff s rank F st m Hac HF).
    inversion H; subst;
      match goal with X : nth_error s n = Some ?nd' |- _ => rewrite E in X; injection X as <- end;
      try (exfalso; destruct (nkind nd); simpl in *; intuition discriminate).
    match goal with V : VarsOk _ _ (vars nd) |- _ => apply (V m Hm) end.
Qed.
