(* The stream leader / trailer decoders, PayloadBuilder and the Payload views as TRANSLATED from the Rust sources on every
   run (gen/StreamParseSrc.v, tools/translate_streamparse.py, operations of model/RdOps.v) are the hand-written models
   model/Stream.v and model/Payload.v: for every byte list (no length bound) the same Ok fields / error class / panic. *)
From Cam Require Import Outcome RustInt Bytes Ack Stream Payload RdOps StreamParseSrc ProtoTables P_Tables P_C11.

(* ---- the models' records from the translated records ------------------------------------------------- *)
Definition to_leader (l : src_Leader) : leader :=
  {| l_size := Leader_leader_size l; l_block_id := Leader_block_id l; l_type := Leader_payload_type l;
     l_raw := Leader_raw_specfic_leader l |}.
Definition of_leader (l : leader) : src_Leader :=
  {| Leader_leader_size := l_size l; Leader_block_id := l_block_id l; Leader_payload_type := l_type l;
     Leader_raw_specfic_leader := l_raw l |}.
Definition to_trailer (t : src_Trailer) : trailer :=
  {| t_size := Trailer_trailer_size t; t_block_id := Trailer_block_id t; t_status := Trailer_payload_status t;
     t_valid := Trailer_valid_payload_size t; t_raw := Trailer_raw_specfic_trailer t |}.
Definition of_trailer (t : trailer) : src_Trailer :=
  {| Trailer_trailer_size := t_size t; Trailer_block_id := t_block_id t; Trailer_payload_status := t_status t;
     Trailer_valid_payload_size := t_valid t; Trailer_raw_specfic_trailer := t_raw t |}.
Definition to_il (l : src_ImageLeader) : image_leader :=
  {| il_timestamp := ImageLeader_timestamp l; il_pf := ImageLeader_pixel_format l; il_width := ImageLeader_width l;
     il_height := ImageLeader_height l; il_xoff := ImageLeader_x_offset l; il_yoff := ImageLeader_y_offset l;
     il_xpad := ImageLeader_x_padding l |}.
Definition to_il_ext (l : src_ImageExtendedChunkLeader) : image_leader :=
  {| il_timestamp := ImageExtendedChunkLeader_timestamp l; il_pf := ImageExtendedChunkLeader_pixel_format l;
     il_width := ImageExtendedChunkLeader_width l; il_height := ImageExtendedChunkLeader_height l;
     il_xoff := ImageExtendedChunkLeader_x_offset l; il_yoff := ImageExtendedChunkLeader_y_offset l;
     il_xpad := ImageExtendedChunkLeader_x_padding l |}.
Definition to_ext_trailer (t : src_ImageExtendedChunkTrailer) : Z * Z :=
  (ImageExtendedChunkTrailer_actual_height t, ImageExtendedChunkTrailer_chunk_layout_id t).
Definition to_info (i : src_ImageInfo) : image_info :=
  {| ii_width := ImageInfo_width i; ii_height := ImageInfo_height i; ii_xoff := ImageInfo_x_offset i;
     ii_yoff := ImageInfo_y_offset i; ii_pf := ImageInfo_pixel_format i; ii_image_size := ImageInfo_image_size i |}.
Definition to_payload (p : src_Payload) : payload :=
  {| p_id := Payload_id p; p_type := Payload_payload_type p; p_info := option_map to_info (Payload_image_info p);
     p_buf := Payload_payload p; p_valid := Payload_valid_payload_size p; p_timestamp := Payload_timestamp p |}.
Definition mk_builder (l : leader) (t : trailer) (buf : list Z) (rs : Z) : src_PayloadBuilder :=
  {| PayloadBuilder_leader := of_leader l; PayloadBuilder_payload_buf := buf; PayloadBuilder_read_payload_size := rs;
     PayloadBuilder_trailer := of_trailer t |}.

Lemma to_of_leader l : to_leader (of_leader l) = l.
Proof. destruct l; reflexivity. Qed.
Lemma to_of_trailer t : to_trailer (of_trailer t) = t.
Proof. destruct t; reflexivity. Qed.

(* ---- operations ------------------------------------------------------------------------------------------ *)
Lemma bind_assoc {A B C} (x : outcome A) (f : A -> outcome B) (g : B -> outcome C) :
  bind (bind x f) g = bind x (fun a => bind (f a) g).
Proof. destruct x; reflexivity. Qed.

Lemma sl_read_eq n bs : sl_read_le n bs = rd n bs.
Proof. reflexivity. Qed.

Lemma skipn_drop {A} n p (d : list A) : 0 <= p -> skipn n (drop p d) = drop (p + Z.of_nat n) d.
Proof.
  intros Hp. unfold drop. rewrite skipn_skipn_add. f_equal. lia.
Qed.

(* one cursor read of the translated code against one [rd] of the model: the cursor is (d, p), the model holds the
   rest r = drop p d *)
Lemma cur_read_step {A B} (f : A -> B) n d p r (k : Z * cursor -> outcome A) (k' : Z * list Z -> outcome B) :
  (0 < n)%nat -> 0 <= p -> r = drop p d ->
  (forall v r', r' = drop (p + Z.of_nat n) d -> p + Z.of_nat n <= zlen d ->
     omap f (k (v, {| c_data := d; c_pos := p + Z.of_nat n |})) = k' (v, r')) ->
  omap f (bind (cur_read_le n {| c_data := d; c_pos := p |}) k) = bind (rd n r) k'.
Proof.
  intros Hn Hp -> H. unfold cur_read_le, sl_read_le, rd. cbn [c_data c_pos].
  destruct (length (drop p d) <? n)%nat eqn:E; cbn [bind omap]; [reflexivity|].
  apply Nat.ltb_ge in E. apply H.
  - apply skipn_drop. exact Hp.
  - unfold drop in E. rewrite skipn_length in E. unfold zlen. lia.
Qed.

Lemma tbl_lookup_eq k t : tbl_lookup k t = lookup k t.
Proof. induction t as [|[k' v] t IH]; cbn [tbl_lookup lookup]; [reflexivity|]. now rewrite IH. Qed.

Lemma pixel_eq c : r_map_err E_INVALID_PACKET (pixel_try_from c) = pf_of_code c.
Proof. unfold pixel_try_from, pf_of_code. rewrite tbl_lookup_eq. destruct (lookup c code_to_pf); reflexivity. Qed.

Ltac eqb_cases :=
  repeat match goal with
         | |- context [?a =? ?b] => destruct (Z.eqb_spec a b); try subst a
         end; try reflexivity; try lia.

Lemma payload_type_eq v : src_PayloadType_try_from v = payload_type_of v.
Proof. unfold src_PayloadType_try_from, payload_type_of. cbv zeta. eqb_cases. Qed.

Lemma payload_status_eq v : src_PayloadStatus_try_from v = payload_status_of v.
Proof. unfold src_PayloadStatus_try_from, payload_status_of. cbv zeta. eqb_cases. Qed.

(* ---- decoders -------------------------------------------------------------------------------------------- *)
Ltac rd_step :=
  apply cur_read_step; [lia | lia | first [assumption | reflexivity] | intros ?v ?r ?Hr ?Hlen; cbn beta iota zeta].

Ltac close_rest :=
  cbn [c_data c_pos];
  match goal with
  | |- context [r_cast 64 ?p] => let q := eval vm_compute in (r_cast 64 p) in change (r_cast 64 p) with q
  end;
  unfold sl_from;
  match goal with
  | |- context [(0 <=? ?a) && (?a <=? ?b)] =>
    replace ((0 <=? a) && (a <=? b)) with true by (symmetry; apply andb_true_iff; split; apply Z.leb_le; lia)
  end;
  cbn [bind omap]; subst; reflexivity.

Lemma leader_parse_from_source bs : omap to_leader (src_Leader_parse bs) = parse_leader bs.
Proof.
  unfold src_Leader_parse, src_Leader_parse_prefix, parse_leader, cur_new. cbn beta iota zeta.
  rewrite bind_assoc. rd_step.
  change src_Leader_LEADER_MAGIC with LEADER_MAGIC.
  destruct (v =? LEADER_MAGIC); cbn [negb bind omap]; [|reflexivity].
  do 5 rd_step.
  rewrite payload_type_eq. destruct (payload_type_of _); cbn [bind omap]; try reflexivity.
  close_rest.
Qed.

Lemma trailer_parse_from_source bs : omap to_trailer (src_Trailer_parse bs) = parse_trailer bs.
Proof.
  unfold src_Trailer_parse, src_Trailer_parse_prefix, parse_trailer, cur_new. cbn beta iota zeta.
  rewrite bind_assoc. rd_step.
  change src_Trailer_TRAILER_MAGIC with TRAILER_MAGIC.
  destruct (v =? TRAILER_MAGIC); cbn [negb bind omap]; [|reflexivity].
  do 4 rd_step.
  rewrite payload_status_eq. destruct (payload_status_of _); cbn [bind omap]; try reflexivity.
  do 2 rd_step.
  close_rest.
Qed.

Ltac image_leader_proof :=
  cbn beta iota zeta;
  do 2 rd_step;
  rewrite pixel_eq;
  match goal with |- context [pf_of_code ?c] => destruct (pf_of_code c) end; cbn [bind omap]; try reflexivity;
  do 6 rd_step;
  reflexivity.

Lemma image_leader_from_source raw : omap to_il (src_ImageLeader_from_bytes raw) = parse_image_leader raw.
Proof. unfold src_ImageLeader_from_bytes, parse_image_leader, cur_new. image_leader_proof. Qed.

Lemma ext_leader_from_source raw :
  omap to_il_ext (src_ImageExtendedChunkLeader_from_bytes raw) = parse_image_leader raw.
Proof. unfold src_ImageExtendedChunkLeader_from_bytes, parse_image_leader, cur_new. image_leader_proof. Qed.

Lemma chunk_leader_from_source raw :
  omap ChunkLeader_timestamp (src_ChunkLeader_from_bytes raw) = parse_chunk_leader raw.
Proof. unfold src_ChunkLeader_from_bytes, parse_chunk_leader, cur_new. cbn beta iota zeta. rd_step. reflexivity. Qed.

Ltac slice_reader_proof :=
  cbn beta iota zeta; change sl_read_le with rd;
  repeat match goal with
         | |- context [bind (rd ?n ?b) _] => destruct (rd n b) as [[? ?]| |]; cbn [bind omap]; try reflexivity
         end.

Lemma image_trailer_from_source raw :
  omap ImageTrailer_actual_height (src_ImageTrailer_from_bytes raw) = parse_image_trailer raw.
Proof. unfold src_ImageTrailer_from_bytes, parse_image_trailer. slice_reader_proof. Qed.

Lemma ext_trailer_from_source raw :
  omap to_ext_trailer (src_ImageExtendedChunkTrailer_from_bytes raw) = parse_ext_trailer raw.
Proof. unfold src_ImageExtendedChunkTrailer_from_bytes, parse_ext_trailer. slice_reader_proof. Qed.

Lemma chunk_trailer_from_source raw :
  omap ChunkTrailer_chunk_layout_id (src_ChunkTrailer_from_bytes raw) = parse_chunk_trailer raw.
Proof. unfold src_ChunkTrailer_from_bytes, parse_chunk_trailer. slice_reader_proof. Qed.

(* ---- ranges of decoded fields (every byte of the input below 256) --------------------------------------------- *)
Lemma rd_ok_range n bs v r : bytes_ok bs -> rd n bs = Ok (v, r) -> 0 <= v < 256 ^ Z.of_nat n /\ bytes_ok r.
Proof.
  unfold rd. intros Hb. destruct (length bs <? n)%nat eqn:E; [discriminate|].
  intros H. apply Ok_inj in H. inversion H; subst; clear H. split; [|apply bytes_ok_skipn, Hb].
  apply Nat.ltb_ge in E.
  pose proof (of_le_bound (firstn n bs) (bytes_ok_firstn n bs Hb)) as Hr.
  rewrite firstn_length, Nat.min_l in Hr by lia. exact Hr.
Qed.

Ltac rd_inv H :=
  repeat match type of H with
         | bind (rd ?n ?b) _ = Ok _ => destruct (rd n b) as [[? ?]| |] eqn:?; cbn [bind] in H; [|discriminate..]
         | bind (pf_of_code ?c) _ = Ok _ => destruct (pf_of_code c); cbn [bind] in H; [|discriminate..]
         end;
  apply Ok_inj in H;
  repeat match goal with
         | Hb : bytes_ok ?b, E : rd ?n ?b = Ok (?v, ?r) |- _ =>
           let H1 := fresh "Hv" in let H2 := fresh "Hb" in
           destruct (rd_ok_range n b v r Hb E) as [H1 H2]; clear E
         end;
  change (256 ^ Z.of_nat 8) with 18446744073709551616 in *;
  change (256 ^ Z.of_nat 4) with 4294967296 in *;
  change (256 ^ Z.of_nat 2) with 65536 in *.

Lemma image_leader_range raw il : bytes_ok raw -> parse_image_leader raw = Ok il ->
  0 <= il_width il < 4294967296 /\ 0 <= il_height il < 4294967296 /\ 0 <= il_xoff il < 4294967296 /\
  0 <= il_yoff il < 4294967296 /\ 0 <= il_timestamp il < 18446744073709551616 /\ 0 <= il_xpad il < 65536.
Proof.
  intros Hb H. unfold parse_image_leader in H. rd_inv H. subst il.
  cbn [il_width il_height il_xoff il_yoff il_timestamp il_xpad]. lia.
Qed.

Lemma image_trailer_range raw h : bytes_ok raw -> parse_image_trailer raw = Ok h -> 0 <= h < 4294967296.
Proof. intros Hb H. unfold parse_image_trailer in H. rd_inv H. subst h. lia. Qed.

Lemma ext_trailer_range raw hc : bytes_ok raw -> parse_ext_trailer raw = Ok hc ->
  0 <= fst hc < 4294967296 /\ 0 <= snd hc < 4294967296.
Proof. intros Hb H. unfold parse_ext_trailer in H. rd_inv H. subst hc. cbn [fst snd]. lia. Qed.

Lemma leader_range bs l : bytes_ok bs -> parse_leader bs = Ok l ->
  bytes_ok (l_raw l) /\ 0 <= l_size l < 65536 /\ 0 <= l_block_id l < 18446744073709551616.
Proof.
  intros Hb H. unfold parse_leader in H.
  destruct (rd 4 bs) as [[? ?]| |] eqn:?; cbn [bind] in H; [|discriminate..].
  destruct (negb _); [discriminate|].
  repeat match type of H with
         | bind (rd ?n ?b) _ = Ok _ => destruct (rd n b) as [[? ?]| |] eqn:?; cbn [bind] in H; [|discriminate..]
         end.
  destruct (payload_type_of _); cbn [bind] in H; [|discriminate..].
  rd_inv H. subst l. cbn [l_raw l_size l_block_id]. auto.
Qed.

Lemma trailer_range bs t : bytes_ok bs -> parse_trailer bs = Ok t ->
  bytes_ok (t_raw t) /\ 0 <= t_valid t < 18446744073709551616 /\ 0 <= t_size t < 65536.
Proof.
  intros Hb H. unfold parse_trailer in H.
  destruct (rd 4 bs) as [[? ?]| |] eqn:?; cbn [bind] in H; [|discriminate..].
  destruct (negb _); [discriminate|].
  repeat match type of H with
         | bind (rd ?n ?b) _ = Ok _ => destruct (rd n b) as [[? ?]| |] eqn:?; cbn [bind] in H; [|discriminate..]
         end.
  destruct (payload_status_of _); cbn [bind] in H; [|discriminate..].
  repeat match type of H with
         | bind (rd ?n ?b) _ = Ok _ => destruct (rd n b) as [[? ?]| |] eqn:?; cbn [bind] in H; [|discriminate..]
         end.
  rd_inv H. subst t. cbn [t_raw t_valid t_size]. auto.
Qed.

(* ---- payload assembly ------------------------------------------------------------------------------------ *)
Lemma r_cast64_small x : 0 <= x < 18446744073709551616 -> r_cast 64 x = x.
Proof. intros H. unfold r_cast. change (2 ^ 64) with 18446744073709551616. now apply Z.mod_small. Qed.

Lemma of_be_take4_range buf o : bytes_ok buf -> 0 <= of_be (take 4 (drop o buf)) < 4294967296.
Proof.
  intros Hb. unfold of_be.
  pose proof (of_le_bound (rev (take 4 (drop o buf))) (bytes_ok_rev _ (bytes_ok_take 4 _ (bytes_ok_drop o _ Hb)))) as H.
  rewrite rev_length in H. unfold take in H. rewrite firstn_length in H. unfold take.
  assert (256 ^ Z.of_nat (Nat.min (Z.to_nat 4) (length (drop o buf))) <= 256 ^ 4).
  { apply Z.pow_le_mono_r; lia. }
  change (256 ^ 4) with 4294967296 in *. lia.
Qed.

(* the loop of build_image_extended_payload as translated (body: src_.._loop) is the model's backwards chunk walk, for
   every fuel, start offset and buffer that a Vec can hold *)
Lemma chunk_loop_from_source pb fuel : forall off,
  bytes_ok (PayloadBuilder_payload_buf pb) -> zlen (PayloadBuilder_payload_buf pb) < 2 ^ 64 ->
  r_loop fuel (src_PayloadBuilder_build_image_extended_payload_loop pb) off =
  chunk_walk fuel (PayloadBuilder_payload_buf pb) off.
Proof.
  set (buf := PayloadBuilder_payload_buf pb).
  change (2 ^ 64) with 18446744073709551616.
  induction fuel as [|f IH]; intros off Hb Hl; [reflexivity|].
  cbn [r_loop chunk_walk]. unfold src_PayloadBuilder_build_image_extended_payload_loop.
  unfold src_PayloadBuilder_build_image_extended_payload_CHUNK_SIZE_LEN,
    src_PayloadBuilder_build_image_extended_payload_CHUNK_ID_LEN, r_checked_sub, r_add, sl_range, arr_try_into.
  fold buf. change (2 ^ 64) with 18446744073709551616.
  destruct (off <? 4) eqn:E4; cbn [r_ok_or bind]; [reflexivity|].
  apply Z.ltb_ge in E4.
  destruct (off - 4 + 4 <? 18446744073709551616) eqn:Eo; cbn [bind].
  2:{ apply Z.ltb_ge in Eo. destruct (zlen buf <? off - 4 + 4) eqn:E; [reflexivity|]. apply Z.ltb_ge in E. lia. }
  destruct (zlen buf <? off - 4 + 4) eqn:Eb.
  { apply Z.ltb_lt in Eb.
    replace ((0 <=? off - 4) && (off - 4 <=? off - 4 + 4) && (off - 4 + 4 <=? zlen buf)) with false; [reflexivity|].
    symmetry. apply andb_false_iff. right. apply Z.leb_gt. lia. }
  apply Z.ltb_ge in Eb.
  replace ((0 <=? off - 4) && (off - 4 <=? off - 4 + 4) && (off - 4 + 4 <=? zlen buf)) with true.
  2:{ symmetry. rewrite !andb_true_iff. repeat split; apply Z.leb_le; lia. }
  cbn [bind]. replace (off - 4 + 4 - (off - 4)) with 4 by lia.
  assert (Hz : zlen (take 4 (drop (off - 4) buf)) = 4).
  { rewrite zlen_take; [reflexivity|]. rewrite zlen_drop by lia. lia. }
  rewrite Hz. cbn [Z.eqb Pos.eqb r_unwrap bind].
  pose proof (of_be_take4_range buf (off - 4) Hb) as Hds.
  set (ds := of_be (take 4 (drop (off - 4) buf))) in *.
  rewrite r_cast64_small by lia.
  destruct (ds + 4 <? 18446744073709551616) eqn:Ea; [|apply Z.ltb_ge in Ea; lia]. cbn [bind].
  destruct (off - 4 <? ds + 4); cbn [r_ok_or bind]; [reflexivity|].
  destruct (off - 4 - (ds + 4) =? 0); [reflexivity|].
  apply IH; assumption.
Qed.

Ltac unfold_builder :=
  unfold src_PayloadBuilder_specific_leader_as, src_PayloadBuilder_specific_trailer_as,
    src_Leader_specific_leader_as, src_Trailer_specific_trailer_as, src_Leader_block_id, src_Leader_payload_type,
    src_Trailer_payload_status, src_Trailer_valid_payload_size, mk_builder;
  cbn [PayloadBuilder_leader PayloadBuilder_trailer PayloadBuilder_payload_buf PayloadBuilder_read_payload_size
       of_leader of_trailer Leader_block_id Leader_payload_type Leader_raw_specfic_leader
       Trailer_payload_status Trailer_valid_payload_size Trailer_raw_specfic_trailer].

Lemma builder_from_source_fuel l t buf rs fuel :
  bytes_ok (l_raw l) -> bytes_ok (t_raw t) -> bytes_ok buf ->
  0 <= t_valid t < 2 ^ 64 -> 0 <= rs < 2 ^ 64 -> zlen buf < 2 ^ 64 ->
  omap to_payload (src_PayloadBuilder_build fuel (mk_builder l t buf rs)) =
  (if negb (t_status t =? 0) then Err E_INVALID_PAYLOAD else
   if rs <? t_valid t then Err E_INVALID_PAYLOAD else
   if l_type l =? 0 then build l t buf rs
   else if l_type l =? 1 then
     let? il := stream_err (parse_image_leader (l_raw l)) in
     let? hc := stream_err (parse_ext_trailer (t_raw t)) in
     let? isz := chunk_walk fuel buf (t_valid t) in
     Ok {| p_id := l_block_id l; p_type := 1;
           p_info := Some {| ii_width := il_width il; ii_height := fst hc; ii_xoff := il_xoff il;
                             ii_yoff := il_yoff il; ii_pf := il_pf il; ii_image_size := isz |};
           p_buf := buf; p_valid := t_valid t; p_timestamp := il_timestamp il |}
   else build l t buf rs).
Proof.
  intros Hlr Htr Hb Hv Hrs Hl.
  assert (Hl' := Hl). change (2 ^ 64) with 18446744073709551616 in Hv, Hrs, Hl.
  unfold src_PayloadBuilder_build, build. unfold_builder. cbn beta iota zeta.
  destruct (negb (t_status t =? 0)); [reflexivity|].
  rewrite r_cast64_small by lia. rewrite ?Z.gtb_ltb.
  destruct (rs <? t_valid t); [reflexivity|].
  destruct (l_type l =? 0); [|destruct (l_type l =? 1)].
  - unfold src_PayloadBuilder_build_image_payload. unfold_builder.
    rewrite <- image_leader_from_source, <- image_trailer_from_source.
    destruct (src_ImageLeader_from_bytes (l_raw l)) as [il| |] eqn:Eil; cbn [r_map_err stream_err omap bind]; try reflexivity.
    destruct (src_ImageTrailer_from_bytes (t_raw t)) as [it| |] eqn:Eit; cbn [r_map_err stream_err omap bind]; try reflexivity.
    pose proof (image_leader_from_source (l_raw l)) as H1. rewrite Eil in H1. symmetry in H1.
    apply (image_leader_range _ _ Hlr) in H1. cbn [omap to_il il_width il_height il_xoff il_yoff il_timestamp il_xpad] in H1.
    pose proof (image_trailer_from_source (t_raw t)) as H2. rewrite Eit in H2. symmetry in H2.
    apply (image_trailer_range _ _ Htr) in H2.
    unfold src_ImageLeader_width, src_ImageLeader_x_offset, src_ImageLeader_y_offset, src_ImageLeader_pixel_format,
      src_ImageLeader_timestamp, src_ImageTrailer_actual_height.
    rewrite !r_cast64_small by lia. reflexivity.
  - unfold src_PayloadBuilder_build_image_extended_payload. unfold_builder.
    rewrite <- ext_leader_from_source, <- ext_trailer_from_source.
    destruct (src_ImageExtendedChunkLeader_from_bytes (l_raw l)) as [il| |] eqn:Eil;
      cbn [r_map_err stream_err omap bind]; try reflexivity.
    destruct (src_ImageExtendedChunkTrailer_from_bytes (t_raw t)) as [it| |] eqn:Eit;
      cbn [r_map_err stream_err omap bind]; try reflexivity.
    pose proof (ext_leader_from_source (l_raw l)) as H1. rewrite Eil in H1. symmetry in H1.
    apply (image_leader_range _ _ Hlr) in H1.
    cbn [omap to_il_ext il_width il_height il_xoff il_yoff il_timestamp il_xpad] in H1.
    pose proof (ext_trailer_from_source (t_raw t)) as H2. rewrite Eit in H2. symmetry in H2.
    apply (ext_trailer_range _ _ Htr) in H2. cbn [omap to_ext_trailer fst snd] in H2.
    cbn beta iota zeta. rewrite r_cast64_small by lia.
    pose proof (chunk_loop_from_source
                  {| PayloadBuilder_leader := of_leader l; PayloadBuilder_payload_buf := buf;
                     PayloadBuilder_read_payload_size := rs; PayloadBuilder_trailer := of_trailer t |}
                  fuel (t_valid t) Hb Hl') as Hloop.
    cbn [PayloadBuilder_payload_buf] in Hloop. rewrite Hloop.
    destruct (chunk_walk fuel buf (t_valid t)); cbn [bind omap]; try reflexivity.
    unfold src_ImageExtendedChunkLeader_width, src_ImageExtendedChunkLeader_x_offset,
      src_ImageExtendedChunkLeader_y_offset, src_ImageExtendedChunkLeader_pixel_format,
      src_ImageExtendedChunkLeader_timestamp, src_ImageExtendedChunkTrailer_actual_height.
    rewrite !r_cast64_small by lia. reflexivity.
  - unfold src_PayloadBuilder_build_chunk_payload. unfold_builder.
    rewrite <- chunk_leader_from_source, <- chunk_trailer_from_source.
    destruct (src_ChunkLeader_from_bytes (l_raw l)) as [cl| |]; cbn [r_map_err stream_err omap bind]; try reflexivity.
    destruct (src_ChunkTrailer_from_bytes (t_raw t)) as [ct| |]; cbn [r_map_err stream_err omap bind]; try reflexivity.
    unfold src_ChunkLeader_timestamp. rewrite r_cast64_small by lia. reflexivity.
Qed.

Theorem builder_from_source l t buf rs :
  bytes_ok (l_raw l) -> bytes_ok (t_raw t) -> bytes_ok buf ->
  0 <= t_valid t < 2 ^ 64 -> 0 <= rs < 2 ^ 64 -> zlen buf < 2 ^ 64 ->
  omap to_payload (src_PayloadBuilder_build (S (Z.to_nat (t_valid t / 8))) (mk_builder l t buf rs)) = build l t buf rs.
Proof.
  intros. rewrite builder_from_source_fuel by assumption. unfold build.
  destruct (negb (t_status t =? 0)); [reflexivity|]. destruct (rs <? t_valid t); [reflexivity|].
  destruct (l_type l =? 0); [reflexivity|]. destruct (l_type l =? 1); reflexivity.
Qed.

(* the fuel: one iteration consumes at least 8 bytes, so more than valid / 8 iterations are never needed *)
Lemma chunk_walk_fuel f1 : forall f2 buf off, bytes_ok buf -> 0 <= off ->
  off / 8 < Z.of_nat f1 -> off / 8 < Z.of_nat f2 -> chunk_walk f1 buf off = chunk_walk f2 buf off.
Proof.
  induction f1 as [|f1 IH]; intros f2 buf off Hb Ho H1 H2.
  { assert (0 <= off / 8) by (apply Z.div_pos; lia). lia. }
  destruct f2 as [|f2].
  { assert (0 <= off / 8) by (apply Z.div_pos; lia). lia. }
  cbn [chunk_walk].
  destruct (off <? 4) eqn:E4; [reflexivity|]. apply Z.ltb_ge in E4.
  destruct (zlen buf <? off - 4 + 4); [reflexivity|].
  pose proof (of_be_take4_range buf (off - 4) Hb) as Hds.
  set (ds := of_be (take 4 (drop (off - 4) buf))) in *.
  destruct (off - 4 <? ds + 4) eqn:Ed; [reflexivity|]. apply Z.ltb_ge in Ed.
  destruct (off - 4 - (ds + 4) =? 0); [reflexivity|].
  apply IH; [assumption|lia| |].
  - assert ((off - 4 - (ds + 4)) / 8 <= (off - 8) / 8) by (apply Z.div_le_mono; lia).
    replace (off - 8) with (off + (-1) * 8) in H by lia. rewrite Z.div_add in H by lia. lia.
  - assert ((off - 4 - (ds + 4)) / 8 <= (off - 8) / 8) by (apply Z.div_le_mono; lia).
    replace (off - 8) with (off + (-1) * 8) in H by lia. rewrite Z.div_add in H by lia. lia.
Qed.

Lemma chunk_walk_never_out_of_fuel f : forall buf off, bytes_ok buf -> 0 <= off -> off / 8 < Z.of_nat f ->
  chunk_walk f buf off <> Err E_FUEL.
Proof.
  induction f as [|f IH]; intros buf off Hb Ho H1.
  { assert (0 <= off / 8) by (apply Z.div_pos; lia). lia. }
  cbn [chunk_walk].
  destruct (off <? 4) eqn:E4; [discriminate|]. apply Z.ltb_ge in E4.
  destruct (zlen buf <? off - 4 + 4); [discriminate|].
  pose proof (of_be_take4_range buf (off - 4) Hb) as Hds.
  set (ds := of_be (take 4 (drop (off - 4) buf))) in *.
  destruct (off - 4 <? ds + 4) eqn:Ed; [discriminate|]. apply Z.ltb_ge in Ed.
  destruct (off - 4 - (ds + 4) =? 0); [discriminate|].
  apply IH; [assumption|lia|].
  assert ((off - 4 - (ds + 4)) / 8 <= (off - 8) / 8) by (apply Z.div_le_mono; lia).
  replace (off - 8) with (off + (-1) * 8) in H by lia. rewrite Z.div_add in H by lia. lia.
Qed.

(* totality of the translated builder: any fuel above valid / 8 gives the same result, and the loop never stops for
   lack of fuel *)
Lemma builder_fuel_of_source l t buf rs f1 f2 :
  bytes_ok (l_raw l) -> bytes_ok (t_raw t) -> bytes_ok buf ->
  0 <= t_valid t < 2 ^ 64 -> 0 <= rs < 2 ^ 64 -> zlen buf < 2 ^ 64 ->
  t_valid t / 8 < Z.of_nat f1 -> t_valid t / 8 < Z.of_nat f2 ->
  omap to_payload (src_PayloadBuilder_build f1 (mk_builder l t buf rs)) =
  omap to_payload (src_PayloadBuilder_build f2 (mk_builder l t buf rs)) /\
  src_PayloadBuilder_build f1 (mk_builder l t buf rs) <> Err E_FUEL.
Proof.
  intros Hlr Htr Hb Hv Hrs Hl H1 H2. split.
  - rewrite !builder_from_source_fuel by assumption.
    rewrite (chunk_walk_fuel f1 f2) by (assumption || lia). reflexivity.
  - intros Hc. pose proof (builder_from_source_fuel l t buf rs f1 Hlr Htr Hb Hv Hrs Hl) as H.
    rewrite Hc in H. cbn [omap] in H. unfold build in H.
    destruct (negb (t_status t =? 0)); [discriminate|]. destruct (rs <? t_valid t); [discriminate|].
    pose proof (chunk_walk_never_out_of_fuel f1 buf (t_valid t) Hb ltac:(lia) H1) as Hw.
    destruct (l_type l =? 0); [|destruct (l_type l =? 1)].
    + destruct (stream_err (parse_image_leader (l_raw l))) as [?|e|] eqn:E1; cbn [bind] in H; try discriminate.
      2:{ destruct (parse_image_leader (l_raw l)); cbn [stream_err] in E1; unfold E_INVALID_PAYLOAD, E_FUEL in *; congruence. }
      destruct (stream_err (parse_image_trailer (t_raw t))) as [?|e|] eqn:E2; cbn [bind] in H; try discriminate.
      destruct (parse_image_trailer (t_raw t)); cbn [stream_err] in E2; unfold E_INVALID_PAYLOAD, E_FUEL in *; congruence.
    + destruct (stream_err (parse_image_leader (l_raw l))) as [?|e|] eqn:E1; cbn [bind] in H; try discriminate.
      2:{ destruct (parse_image_leader (l_raw l)); cbn [stream_err] in E1; unfold E_INVALID_PAYLOAD, E_FUEL in *; congruence. }
      destruct (stream_err (parse_ext_trailer (t_raw t))) as [?|e|] eqn:E2; cbn [bind] in H; try discriminate.
      2:{ destruct (parse_ext_trailer (t_raw t)); cbn [stream_err] in E2; unfold E_INVALID_PAYLOAD, E_FUEL in *; congruence. }
      destruct (chunk_walk f1 buf (t_valid t)); cbn [bind] in H; try discriminate. congruence.
    + destruct (stream_err (parse_chunk_leader (l_raw l))) as [?|e|] eqn:E1; cbn [bind] in H; try discriminate.
      2:{ destruct (parse_chunk_leader (l_raw l)); cbn [stream_err] in E1; unfold E_INVALID_PAYLOAD, E_FUEL in *; congruence. }
      destruct (stream_err (parse_chunk_trailer (t_raw t))) as [?|e|] eqn:E2; cbn [bind] in H; try discriminate.
      destruct (parse_chunk_trailer (t_raw t)); cbn [stream_err] in E2; unfold E_INVALID_PAYLOAD, E_FUEL in *; congruence.
Qed.

(* ---- views --------------------------------------------------------------------------------------------------- *)
Lemma sl_to_slice_to buf n : 0 <= n -> sl_to buf n = slice_to buf n.
Proof.
  intros Hn. unfold sl_to, slice_to.
  destruct (zlen buf <? n) eqn:E.
  - apply Z.ltb_lt in E. replace (n <=? zlen buf) with false by (symmetry; apply Z.leb_gt; lia).
    now rewrite andb_false_r.
  - apply Z.ltb_ge in E. replace (0 <=? n) with true by (symmetry; apply Z.leb_le; lia).
    replace (n <=? zlen buf) with true by (symmetry; apply Z.leb_le; lia). reflexivity.
Qed.

Lemma view_payload_from_source p : 0 <= Payload_valid_payload_size p ->
  src_Payload_payload p = view_payload (to_payload p).
Proof.
  intros H. unfold src_Payload_payload, view_payload. cbn [to_payload p_buf p_valid].
  rewrite sl_to_slice_to by assumption. destruct (slice_to _ _); reflexivity.
Qed.

Lemma view_image_from_source p :
  (forall ii, Payload_image_info p = Some ii -> 0 <= ImageInfo_image_size ii) ->
  src_Payload_image p = view_image (to_payload p).
Proof.
  intros H. unfold src_Payload_image, src_Payload_image_info, view_image. cbn [to_payload p_info p_buf].
  destruct (Payload_image_info p) as [ii|]; cbn [option_map]; [|reflexivity].
  cbn beta iota zeta. rewrite sl_to_slice_to by (apply H; reflexivity).
  cbn [to_info ii_image_size]. destruct (slice_to _ _); reflexivity.
Qed.

Lemma into_vec_of_source p : 0 <= Payload_valid_payload_size p <= zlen (Payload_payload p) ->
  src_Payload_into_vec p = Ok (take (Payload_valid_payload_size p) (Payload_payload p)).
Proof.
  intros H. unfold src_Payload_into_vec, vec_resize. cbn zeta.
  replace (Z.to_nat (Payload_valid_payload_size p - zlen (Payload_payload p))) with 0%nat by lia.
  cbn [repeat]. now rewrite app_nil_r.
Qed.

Lemma into_vec_length_of_source p v : 0 <= Payload_valid_payload_size p ->
  src_Payload_into_vec p = Ok v -> zlen v = Payload_valid_payload_size p.
Proof.
  intros H E. unfold src_Payload_into_vec, vec_resize in E. cbn zeta in E. apply Ok_inj in E. subst v.
  rewrite zlen_app. unfold zlen at 2. rewrite repeat_length.
  destruct (Z.le_gt_cases (Payload_valid_payload_size p) (zlen (Payload_payload p))).
  - rewrite zlen_take by lia. lia.
  - unfold take, zlen. rewrite firstn_all2 by (unfold zlen in *; lia). unfold zlen in *. lia.
Qed.

Lemma of_to_leader l : of_leader (to_leader l) = l.
Proof. destruct l; reflexivity. Qed.
Lemma of_to_trailer t : of_trailer (to_trailer t) = t.
Proof. destruct t; reflexivity. Qed.

Lemma omap_ok {A B} (f : A -> B) x a : x = Ok a -> omap f x = Ok (f a).
Proof. intros ->. reflexivity. Qed.

(* the property's clause on the translated code alone: whatever leader and trailer bytes arrive, when the translated
   decoders and the translated builder return Ok, the valid size is within the received byte count and every view of
   the payload lies inside the buffer *)
Theorem views_in_bounds_of_source lb tb buf rs fuel sl st p :
  bytes_ok lb -> bytes_ok tb -> bytes_ok buf -> 0 <= rs <= zlen buf -> zlen buf < 2 ^ 64 ->
  src_Leader_parse lb = Ok sl -> src_Trailer_parse tb = Ok st ->
  Trailer_valid_payload_size st / 8 < Z.of_nat fuel ->
  src_PayloadBuilder_build fuel {| PayloadBuilder_leader := sl; PayloadBuilder_payload_buf := buf;
                                   PayloadBuilder_read_payload_size := rs; PayloadBuilder_trailer := st |} = Ok p ->
  Payload_id p = Leader_block_id sl /\ Payload_payload p = buf /\
  0 <= Payload_valid_payload_size p <= rs /\
  src_Payload_payload p = Ok (take (Payload_valid_payload_size p) buf) /\
  src_Payload_into_vec p = Ok (take (Payload_valid_payload_size p) buf) /\
  match Payload_image_info p with
  | None => src_Payload_image p = Ok None
  | Some ii => 0 <= ImageInfo_image_size ii <= Payload_valid_payload_size p /\
               src_Payload_image p = Ok (Some (take (ImageInfo_image_size ii) buf))
  end.
Proof.
  intros Hlb Htb Hb Hrs Hl El Et Hf Ep.
  pose proof (leader_parse_from_source lb) as Hl1. rewrite El in Hl1. cbn [omap] in Hl1. symmetry in Hl1.
  pose proof (trailer_parse_from_source tb) as Ht1. rewrite Et in Ht1. cbn [omap] in Ht1. symmetry in Ht1.
  destruct (leader_range _ _ Hlb Hl1) as [Hlr _]. destruct (trailer_range _ _ Htb Ht1) as [Htr [Hv _]].
  set (l := to_leader sl) in *. set (t := to_trailer st) in *.
  assert (Hv' : 0 <= t_valid t < 2 ^ 64) by (change (2 ^ 64) with 18446744073709551616; exact Hv).
  assert (Hrs' : 0 <= rs < 2 ^ 64) by lia.
  assert (Hpb : {| PayloadBuilder_leader := sl; PayloadBuilder_payload_buf := buf;
                   PayloadBuilder_read_payload_size := rs; PayloadBuilder_trailer := st |} = mk_builder l t buf rs).
  { unfold mk_builder, l, t. now rewrite of_to_leader, of_to_trailer. }
  rewrite Hpb in Ep.
  assert (Hf2 : t_valid t / 8 < Z.of_nat (S (Z.to_nat (t_valid t / 8)))).
  { assert (0 <= t_valid t / 8) by (apply Z.div_pos; lia). lia. }
  destruct (builder_fuel_of_source l t buf rs fuel (S (Z.to_nat (t_valid t / 8))) Hlr Htr Hb Hv' Hrs' Hl Hf Hf2)
    as [Heq _].
  rewrite builder_from_source in Heq by assumption. rewrite Ep in Heq. cbn [omap] in Heq. symmetry in Heq.
  destruct (build_sound l t buf rs (to_payload p) Hb ltac:(lia) ltac:(lia) Heq)
    as (Hid & Hbuf & Hval & _ & _ & Hle & Hinfo & _ & _ & _).
  cbn [to_payload p_id p_buf p_valid p_info] in Hid, Hbuf, Hval, Hle, Hinfo.
  assert (Hvp : 0 <= Payload_valid_payload_size p) by (rewrite Hval; lia).
  split; [exact Hid|]. split; [exact Hbuf|]. split; [lia|].
  split.
  { unfold src_Payload_payload, sl_to. rewrite Hbuf.
    replace ((0 <=? Payload_valid_payload_size p) && (Payload_valid_payload_size p <=? zlen buf)) with true
      by (symmetry; apply andb_true_iff; split; apply Z.leb_le; lia). reflexivity. }
  split.
  { rewrite into_vec_of_source by (rewrite Hbuf; lia). now rewrite Hbuf. }
  destruct (Payload_image_info p) as [ii|] eqn:Eii.
  - specialize (Hinfo (to_info ii) eq_refl). cbn [to_info ii_image_size] in Hinfo. split; [lia|].
    unfold src_Payload_image, src_Payload_image_info. rewrite Eii. cbn beta iota zeta. unfold sl_to. rewrite Hbuf.
    replace ((0 <=? ImageInfo_image_size ii) && (ImageInfo_image_size ii <=? zlen buf)) with true
      by (symmetry; apply andb_true_iff; split; apply Z.leb_le; lia). reflexivity.
  - unfold src_Payload_image, src_Payload_image_info. now rewrite Eii.
Qed.

(* ---- the statements of props/C11.v ------------------------------------------------------------------------------ *)
Definition show_src_il (l : src_ImageLeader) : list Z :=
  [src_ImageLeader_timestamp l; src_ImageLeader_pixel_format l; src_ImageLeader_width l; src_ImageLeader_height l;
   src_ImageLeader_x_offset l; src_ImageLeader_y_offset l; src_ImageLeader_x_padding l].
Definition show_src_il_ext (l : src_ImageExtendedChunkLeader) : list Z :=
  [src_ImageExtendedChunkLeader_timestamp l; src_ImageExtendedChunkLeader_pixel_format l;
   src_ImageExtendedChunkLeader_width l; src_ImageExtendedChunkLeader_height l;
   src_ImageExtendedChunkLeader_x_offset l; src_ImageExtendedChunkLeader_y_offset l;
   src_ImageExtendedChunkLeader_x_padding l].

Theorem leader_parse_from_source_all :
  (forall bs, omap to_leader (src_Leader_parse bs) = parse_leader bs) /\
  (forall raw, omap to_il (src_ImageLeader_from_bytes raw) = parse_image_leader raw) /\
  (forall raw, omap to_il_ext (src_ImageExtendedChunkLeader_from_bytes raw) = parse_image_leader raw) /\
  (forall raw, omap src_ChunkLeader_timestamp (src_ChunkLeader_from_bytes raw) = parse_chunk_leader raw) /\
  (forall T (f : list Z -> outcome T) l, src_Leader_specific_leader_as f l = f (l_raw (to_leader l))) /\
  (forall l, src_Leader_leader_size l = l_size (to_leader l) /\ src_Leader_block_id l = l_block_id (to_leader l) /\
             src_Leader_payload_type l = l_type (to_leader l)) /\
  (forall il, show_src_il il = show_il (to_il il)) /\ (forall il, show_src_il_ext il = show_il (to_il_ext il)) /\
  src_Leader_LEADER_MAGIC = src_leader_magic /\
  (forall v, src_PayloadType_try_from v = table_fn src_payload_type 0 v) /\
  (forall c, r_map_err E_INVALID_PACKET (pixel_try_from c) = pf_of_code c).
Proof.
  split; [exact leader_parse_from_source|]. split; [exact image_leader_from_source|].
  split; [exact ext_leader_from_source|]. split; [exact chunk_leader_from_source|].
  split; [reflexivity|]. split; [intros l; repeat split|]. split; [reflexivity|]. split; [reflexivity|].
  split; [reflexivity|]. split; [intros v; rewrite payload_type_eq; apply payload_type_src|]. exact pixel_eq.
Qed.

Theorem trailer_parse_from_source_all :
  (forall bs, omap to_trailer (src_Trailer_parse bs) = parse_trailer bs) /\
  (forall raw, omap src_ImageTrailer_actual_height (src_ImageTrailer_from_bytes raw) = parse_image_trailer raw) /\
  (forall raw, omap (fun t => (src_ImageExtendedChunkTrailer_actual_height t, src_ImageExtendedChunkTrailer_chunk_layout_id t))
                    (src_ImageExtendedChunkTrailer_from_bytes raw) = parse_ext_trailer raw) /\
  (forall raw, omap src_ChunkTrailer_chunk_layout_id (src_ChunkTrailer_from_bytes raw) = parse_chunk_trailer raw) /\
  (forall T (f : list Z -> outcome T) t, src_Trailer_specific_trailer_as f t = f (t_raw (to_trailer t))) /\
  (forall t, src_Trailer_trailer_size t = t_size (to_trailer t) /\ src_Trailer_block_id t = t_block_id (to_trailer t) /\
             src_Trailer_payload_status t = t_status (to_trailer t) /\
             src_Trailer_valid_payload_size t = t_valid (to_trailer t)) /\
  src_Trailer_TRAILER_MAGIC = src_trailer_magic /\
  (forall v, src_PayloadStatus_try_from v = table_fn src_payload_status 0 v).
Proof.
  split; [exact trailer_parse_from_source|]. split; [exact image_trailer_from_source|].
  split; [exact ext_trailer_from_source|]. split; [exact chunk_trailer_from_source|].
  split; [reflexivity|]. split; [intros t; repeat split|]. split; [reflexivity|].
  intros v; rewrite payload_status_eq; apply payload_status_src.
Qed.

Theorem builder_bounds_from_source :
  (forall l t buf rs,
     bytes_ok (l_raw l) -> bytes_ok (t_raw t) -> bytes_ok buf ->
     0 <= t_valid t < 2 ^ 64 -> 0 <= rs < 2 ^ 64 -> zlen buf < 2 ^ 64 ->
     omap to_payload (src_PayloadBuilder_build (S (Z.to_nat (t_valid t / 8))) (mk_builder l t buf rs)) =
     build l t buf rs) /\
  (forall pb fuel off, bytes_ok (PayloadBuilder_payload_buf pb) -> zlen (PayloadBuilder_payload_buf pb) < 2 ^ 64 ->
     r_loop fuel (src_PayloadBuilder_build_image_extended_payload_loop pb) off =
     chunk_walk fuel (PayloadBuilder_payload_buf pb) off) /\
  (forall p, 0 <= Payload_valid_payload_size p -> src_Payload_payload p = view_payload (to_payload p)) /\
  (forall p, (forall ii, Payload_image_info p = Some ii -> 0 <= ImageInfo_image_size ii) ->
     src_Payload_image p = view_image (to_payload p)) /\
  (forall p, 0 <= Payload_valid_payload_size p <= zlen (Payload_payload p) ->
     omap Some (src_Payload_into_vec p) = omap Some (src_Payload_payload p)) /\
  (forall p v, 0 <= Payload_valid_payload_size p -> src_Payload_into_vec p = Ok v ->
     zlen v = Payload_valid_payload_size p) /\
  (forall p, src_Payload_id p = p_id (to_payload p) /\ src_Payload_payload_type p = p_type (to_payload p) /\
             src_Payload_timestamp p = p_timestamp (to_payload p) /\
             option_map to_info (src_Payload_image_info p) = p_info (to_payload p)) /\
  E_STREAM_INVALID_PAYLOAD = E_INVALID_PAYLOAD.
Proof.
  split; [exact builder_from_source|]. split; [intros; now apply chunk_loop_from_source|].
  split; [exact view_payload_from_source|]. split; [exact view_image_from_source|].
  split.
  { intros p H. rewrite into_vec_of_source by assumption. unfold src_Payload_payload, sl_to.
    replace ((0 <=? Payload_valid_payload_size p) && (Payload_valid_payload_size p <=? zlen (Payload_payload p)))
      with true by (symmetry; apply andb_true_iff; split; apply Z.leb_le; lia). reflexivity. }
  split; [exact into_vec_length_of_source|]. split; [intros p; repeat split|]. reflexivity.
Qed.

(* the bytes the decoders are given are what the builder's hypotheses ask for *)
Theorem builder_total_of_source lb tb buf rs f1 f2 sl st :
  bytes_ok lb -> bytes_ok tb -> bytes_ok buf -> 0 <= rs < 2 ^ 64 -> zlen buf < 2 ^ 64 ->
  src_Leader_parse lb = Ok sl -> src_Trailer_parse tb = Ok st ->
  Trailer_valid_payload_size st / 8 < Z.of_nat f1 -> Trailer_valid_payload_size st / 8 < Z.of_nat f2 ->
  let pb := {| PayloadBuilder_leader := sl; PayloadBuilder_payload_buf := buf;
               PayloadBuilder_read_payload_size := rs; PayloadBuilder_trailer := st |} in
  omap to_payload (src_PayloadBuilder_build f1 pb) = omap to_payload (src_PayloadBuilder_build f2 pb) /\
  src_PayloadBuilder_build f1 pb <> Err E_FUEL /\
  (rs <= zlen buf -> src_PayloadBuilder_build f1 pb <> Panic).
Proof.
  intros Hlb Htb Hb Hrs Hl El Et Hf1 Hf2 pb.
  pose proof (leader_parse_from_source lb) as Hl1. rewrite El in Hl1. cbn [omap] in Hl1. symmetry in Hl1.
  pose proof (trailer_parse_from_source tb) as Ht1. rewrite Et in Ht1. cbn [omap] in Ht1. symmetry in Ht1.
  destruct (leader_range _ _ Hlb Hl1) as [Hlr _]. destruct (trailer_range _ _ Htb Ht1) as [Htr [Hv _]].
  assert (Hv' : 0 <= t_valid (to_trailer st) < 2 ^ 64) by (change (2 ^ 64) with 18446744073709551616; exact Hv).
  assert (Hpb : pb = mk_builder (to_leader sl) (to_trailer st) buf rs).
  { unfold pb, mk_builder. now rewrite of_to_leader, of_to_trailer. }
  rewrite Hpb.
  destruct (builder_fuel_of_source _ _ buf rs f1 f2 Hlr Htr Hb Hv' Hrs Hl Hf1 Hf2) as [Heq Hnf].
  split; [exact Heq|]. split; [exact Hnf|].
  intros Hle Hp.
  assert (Hf3 : t_valid (to_trailer st) / 8 < Z.of_nat (S (Z.to_nat (t_valid (to_trailer st) / 8)))).
  { assert (0 <= t_valid (to_trailer st) / 8) by (apply Z.div_pos; lia). lia. }
  destruct (builder_fuel_of_source _ _ buf rs f1 _ Hlr Htr Hb Hv' Hrs Hl Hf1 Hf3) as [Heq2 _].
  rewrite builder_from_source in Heq2 by assumption. rewrite Hp in Heq2. cbn [omap] in Heq2.
  symmetry in Heq2. revert Heq2. apply build_no_panic; [assumption|lia|lia].
Qed.

(* ---- non-vacuity ------------------------------------------------------------------------------------------------ *)
Definition ex_leader (ptype : Z) : list Z :=
  le_bytes 4 0x4C563355 ++ le_bytes 2 0 ++ le_bytes 2 52 ++ le_bytes 8 51 ++ le_bytes 2 0 ++ le_bytes 2 ptype ++
  le_bytes 8 100 ++ le_bytes 4 0x01080001 ++ le_bytes 4 4 ++ le_bytes 4 2 ++ le_bytes 4 1 ++ le_bytes 4 3 ++
  le_bytes 2 0 ++ le_bytes 2 0.
Definition ex_trailer (valid : Z) : list Z :=
  le_bytes 4 0x54563355 ++ le_bytes 2 0 ++ le_bytes 2 36 ++ le_bytes 8 51 ++ le_bytes 2 0 ++ le_bytes 2 0 ++
  le_bytes 8 valid ++ le_bytes 4 2 ++ le_bytes 4 7.
(* image (4 bytes), its chunk id and length 4, a second chunk of 2 bytes with id and length *)
Definition ex_chunks : list Z := [9; 9; 9; 9; 0; 0; 0; 1; 0; 0; 0; 4; 5; 5; 0; 0; 0; 2; 0; 0; 0; 2; 77; 77].

Definition ex_run (ptype valid rs : Z) (buf : list Z) :=
  match src_Leader_parse (ex_leader ptype), src_Trailer_parse (ex_trailer valid) with
  | Ok l, Ok t =>
    match src_PayloadBuilder_build 5 {| PayloadBuilder_leader := l; PayloadBuilder_payload_buf := buf;
                                        PayloadBuilder_read_payload_size := rs; PayloadBuilder_trailer := t |} with
    | Ok p => Ok (Payload_id p, Payload_payload_type p, Payload_valid_payload_size p, Payload_timestamp p,
                  option_map (fun i => (ImageInfo_width i, ImageInfo_height i, ImageInfo_x_offset i,
                                        ImageInfo_y_offset i, ImageInfo_pixel_format i, ImageInfo_image_size i))
                             (Payload_image_info p),
                  src_Payload_image p, src_Payload_payload p, src_Payload_into_vec p)
    | Err e => Err e
    | Panic => Panic
    end
  | _, _ => Err 0
  end.

Example c11s_example_image :
  ex_run 1 8 8 [1; 2; 3; 4; 5; 6; 7; 8; 66; 66] =
  Ok (51, 0, 8, 100, Some (4, 2, 1, 3, 0, 8), Ok (Some [1; 2; 3; 4; 5; 6; 7; 8]), Ok [1; 2; 3; 4; 5; 6; 7; 8],
      Ok [1; 2; 3; 4; 5; 6; 7; 8]).
Proof. vm_compute. reflexivity. Qed.

Example c11s_example_ext_chunk :
  ex_run 0x4001 22 23 ex_chunks =
  Ok (51, 1, 22, 100, Some (4, 2, 1, 3, 0, 4), Ok (Some [9; 9; 9; 9]), Ok (firstn 22 ex_chunks), Ok (firstn 22 ex_chunks)).
Proof. vm_compute. reflexivity. Qed.

Example c11s_example_errors :
  ex_run 1 9 8 [1; 2; 3; 4; 5; 6; 7; 8; 66; 66] = Err E_STREAM_INVALID_PAYLOAD /\
  ex_run 0x4001 21 23 ex_chunks = Err E_STREAM_INVALID_PAYLOAD /\
  src_Leader_parse (firstn 19 (ex_leader 1)) = Err E_BUFFER_IO /\
  src_Leader_parse (ex_leader 2) = Err E_INVALID_PACKET /\
  src_Trailer_parse (0 :: ex_trailer 8) = Err E_INVALID_PACKET /\
  omap Leader_raw_specfic_leader (src_Leader_parse (firstn 20 (ex_leader 1))) = Ok [].
Proof. vm_compute. repeat split; reflexivity. Qed.

Lemma source_examples :
  ex_run 1 8 8 [1; 2; 3; 4; 5; 6; 7; 8; 66; 66] =
    Ok (51, 0, 8, 100, Some (4, 2, 1, 3, 0, 8), Ok (Some [1; 2; 3; 4; 5; 6; 7; 8]), Ok [1; 2; 3; 4; 5; 6; 7; 8],
        Ok [1; 2; 3; 4; 5; 6; 7; 8]) /\
  ex_run 0x4001 22 23 ex_chunks =
    Ok (51, 1, 22, 100, Some (4, 2, 1, 3, 0, 4), Ok (Some [9; 9; 9; 9]), Ok (firstn 22 ex_chunks),
        Ok (firstn 22 ex_chunks)) /\
  ex_run 1 9 8 [1; 2; 3; 4; 5; 6; 7; 8; 66; 66] = Err E_STREAM_INVALID_PAYLOAD /\
  src_Leader_parse (firstn 19 (ex_leader 1)) = Err E_BUFFER_IO /\
  src_Leader_parse (ex_leader 2) = Err E_INVALID_PACKET /\
  src_Trailer_parse (0 :: ex_trailer 8) = Err E_INVALID_PACKET.
Proof. vm_compute. repeat split; reflexivity. Qed.
