(* Proofs for C04: the cached run of model/Cache.v simulates the uncached run. *)
From Cam Require Import Outcome Bytes Mem BitField RegCodec Cache CacheSpec P_C01.

(* ---- lists and device memory ------------------------------------------------------------- *)

Lemma sublist_refl {A} (l : list A) : sublist l l.
Proof. induction l; [apply sub_nil | apply sub_cons; auto]. Qed.

Lemma zmem_In x l : zmem x l = true <-> In x l.
Proof.
  unfold zmem. rewrite existsb_exists. split.
  - intros [y [Hy He]]. apply Z.eqb_eq in He. now subst.
  - intros H. exists x. split; auto. apply Z.eqb_refl.
Qed.

Lemma zlen_splice off bs mem :
  0 <= off -> off + zlen bs <= zlen mem -> zlen (splice off bs mem) = zlen mem.
Proof.
  intros H0 H1. unfold splice. pose proof (zlen_nonneg bs).
  rewrite !zlen_app, zlen_take, zlen_drop by lia. lia.
Qed.

Lemma read_splice_same off bs mem :
  0 <= off -> off + zlen bs <= zlen mem ->
  take (zlen bs) (drop off (splice off bs mem)) = bs.
Proof.
  intros H0 H1. unfold splice. pose proof (zlen_nonneg bs).
  assert (E : zlen (take off mem) = off) by (apply zlen_take; lia).
  rewrite <- E at 1. rewrite drop_app_exact. apply take_app_exact.
Qed.

Lemma take_drop_prefix {A} l o k (X Y : list A) :
  0 <= o -> 0 <= l -> o + l <= k -> take k X = take k Y -> take l (drop o X) = take l (drop o Y).
Proof.
  intros Ho Hl Hk E. unfold take, drop in *.
  rewrite !firstn_skipn_comm.
  replace (Z.to_nat o + Z.to_nat l)%nat with (Z.to_nat (o + l)) by lia.
  assert (F : forall Z0 : list A, firstn (Z.to_nat (o + l)) Z0 = firstn (Z.to_nat (o + l)) (firstn (Z.to_nat k) Z0)).
  { intros Z0. rewrite firstn_firstn. f_equal. lia. }
  rewrite (F X), (F Y), E. reflexivity.
Qed.

Lemma take_app_le {A} k (a b : list A) : k <= zlen a -> take k (a ++ b) = take k a.
Proof.
  intros H. unfold take, zlen in *. rewrite firstn_app.
  replace (Z.to_nat k - length a)%nat with 0%nat by lia. cbn. apply app_nil_r.
Qed.

Lemma take_take {A} k n (l : list A) : k <= n -> take k (take n l) = take k l.
Proof. intros H. unfold take. rewrite firstn_firstn. f_equal. lia. Qed.

Lemma drop_app_ge {A} k (a b : list A) : zlen a <= k -> drop k (a ++ b) = drop (k - zlen a) b.
Proof.
  intros H. unfold drop, zlen in *. rewrite skipn_app.
  rewrite skipn_all2 by lia. cbn. f_equal. lia.
Qed.

Lemma read_splice_disjoint off bs mem o l :
  0 <= off -> off + zlen bs <= zlen mem -> 0 <= o -> 0 <= l ->
  o + l <= off \/ off + zlen bs <= o ->
  take l (drop o (splice off bs mem)) = take l (drop o mem).
Proof.
  intros H0 H1 Ho Hl [D | D]; pose proof (zlen_nonneg bs) as Hb.
  - apply take_drop_prefix with (k := off); try lia.
    unfold splice. rewrite take_app_le by (rewrite zlen_take; lia). apply take_take. lia.
  - f_equal. unfold splice. rewrite app_assoc.
    rewrite drop_app_ge by (rewrite zlen_app, zlen_take; lia).
    rewrite zlen_app, zlen_take by lia.
    rewrite drop_drop by lia. f_equal. lia.
Qed.

(* ---- peek -------------------------------------------------------------------------------------- *)

Lemma peek_same_mem d d' a l :
  d_base d = d_base d' -> d_mem d = d_mem d' -> peek d a l = peek d' a l.
Proof. intros Hb Hm. unfold peek, in_image. now rewrite Hb, Hm. Qed.

Lemma in_image_bounds d a n :
  in_image d a n = true <-> 0 <= a - d_base d /\ a - d_base d + n <= zlen (d_mem d).
Proof.
  unfold in_image. rewrite negb_true_iff, orb_false_iff, !Z.ltb_ge. tauto.
Qed.

Definition written (d : dev) (a : Z) (bs : list Z) : dev :=
  {| d_base := d_base d; d_mem := splice (a - d_base d) bs (d_mem d);
     d_log := WrAcc a bs :: d_log d; d_count := d_count d + 1; d_rej := d_rej d |}.

Lemma peek_written_same d a bs :
  in_image d a (zlen bs) = true -> peek (written d a bs) a (zlen bs) = Some bs.
Proof.
  intros H. pose proof H as H'. apply in_image_bounds in H' as [H0 H1].
  unfold peek. replace (in_image (written d a bs) a (zlen bs)) with true.
  - cbn [written d_base d_mem]. f_equal. apply read_splice_same; lia.
  - symmetry. apply in_image_bounds. cbn [written d_base d_mem]. rewrite zlen_splice by lia. lia.
Qed.

Lemma peek_written_disjoint d a bs a' l' x :
  in_image d a (zlen bs) = true -> 0 <= l' ->
  ~ overlap a (zlen bs) a' l' ->
  peek d a' l' = Some x -> peek (written d a bs) a' l' = Some x.
Proof.
  intros H Hl Hno. pose proof H as H'. apply in_image_bounds in H' as [H0 H1].
  unfold peek. destruct (in_image d a' l') eqn:E; [|discriminate].
  pose proof E as E'. apply in_image_bounds in E' as [E0 E1].
  replace (in_image (written d a bs) a' l') with true.
  - cbn [written d_base d_mem]. intros P. injection P as P. f_equal. rewrite <- P.
    apply read_splice_disjoint; try lia. unfold overlap in Hno. lia.
  - symmetry. apply in_image_bounds. cbn [written d_base d_mem]. rewrite zlen_splice by lia. lia.
Qed.

(* ---- the invariant and the simulation relation --------------------------------------------------- *)

Ltac sset := cbn [fst snd c_dev c_cache c_vars set_dev set_cache set_vars
                  d_base d_mem d_log d_count d_rej written] in *.

Lemma entry_ok_dev y d d' e :
  d_base d = d_base d' -> d_mem d = d_mem d' -> entry_ok y d e -> entry_ok y d' e.
Proof. intros Hb Hm [H1 H2]. split; auto. now rewrite <- (peek_same_mem d d'). Qed.

Lemma Forall_filter {A} (P : A -> Prop) f (l : list A) : Forall P l -> Forall P (filter f l).
Proof.
  induction 1 as [|x l Hx Hl IH]; cbn [filter]; [constructor|].
  destruct (f x); auto.
Qed.

Lemma Forall_dev y d d' (c : cache) :
  d_base d = d_base d' -> d_mem d = d_mem d' ->
  Forall (entry_ok y d) c -> Forall (entry_ok y d') c.
Proof. intros Hb Hm H. eapply Forall_impl; [|exact H]. intros e. now apply entry_ok_dev. Qed.

Record Sim (y : system) (sc su : cst) : Prop := mkSim {
  sim_base : d_base (c_dev sc) = d_base (c_dev su);
  sim_mem : d_mem (c_dev sc) = d_mem (c_dev su);
  sim_count : d_count (c_dev sc) = d_count (c_dev su);
  sim_rej : d_rej (c_dev sc) = d_rej (c_dev su);
  sim_vars : c_vars sc = c_vars su;
  sim_empty : c_cache su = [];
  sim_inv : Inv y sc;
  sim_log : sublist (d_log (c_dev sc)) (d_log (c_dev su));
  sim_writes : writes_of (d_log (c_dev sc)) = writes_of (d_log (c_dev su))
}.

Definition simM {A} (y : system) (mc mu : M A) : Prop :=
  forall sc su, Sim y sc su -> fst (mc sc) = fst (mu su) /\ Sim y (snd (mc sc)) (snd (mu su)).

Lemma simM_bind {A B} y (mc mu : M A) (fc fu : A -> M B) :
  simM y mc mu -> (forall a, simM y (fc a) (fu a)) -> simM y (mbind mc fc) (mbind mu fu).
Proof.
  intros H1 H2 sc su HS. specialize (H1 sc su HS). unfold mbind.
  destruct (mc sc) as [oc sc'], (mu su) as [ou su']. cbn [fst snd] in H1.
  destruct H1 as [E S]. subst ou. destruct oc; cbn [fst snd]; auto. now apply H2.
Qed.

Lemma simM_lift {A} y (x : outcome A) : simM y (mlift x) (mlift x).
Proof. intros sc su HS. unfold mlift. cbn [fst snd]. auto. Qed.

Lemma simM_ret {A} y (x : A) : simM y (mret x) (mret x).
Proof. intros sc su HS. unfold mret. cbn [fst snd]. auto. Qed.

(* changing only the cache *)
Lemma Sim_cache y sc su c' :
  Sim y sc su -> Forall (entry_ok y (c_dev sc)) c' -> Sim y (set_cache sc c') (set_cache su []).
Proof. intros [Hb Hm Hc Hr Hv He Hi Hl Hw] H. constructor; sset; auto. Qed.

Lemma set_cache_nil su : c_cache su = [] -> set_cache su [] = su.
Proof. destruct su as [d c v]. cbn. intros ->. reflexivity. Qed.

Lemma sim_inval_by y n : simM y (m_inval_by y n) (m_inval_by y n).
Proof.
  intros sc su HS. unfold m_inval_by. sset. split; auto.
  rewrite (sim_empty _ _ _ HS). cbn [c_inval_by filter].
  apply Sim_cache; auto. apply Forall_filter. apply HS.
Qed.

Lemma sim_inval_of y n : simM y (m_inval_of n) (m_inval_of n).
Proof.
  intros sc su HS. unfold m_inval_of. sset. split; auto.
  rewrite (sim_empty _ _ _ HS). cbn [c_inval_of filter].
  apply Sim_cache; auto. apply Forall_filter. apply HS.
Qed.

Lemma sim_clear y : simM y m_clear m_clear.
Proof. intros sc su HS. unfold m_clear. sset. split; auto. apply Sim_cache; auto. Qed.

Lemma sim_var_get y slot : simM y (m_var_get slot) (m_var_get slot).
Proof. intros sc su HS. unfold m_var_get. sset. rewrite (sim_vars _ _ _ HS). auto. Qed.

Lemma sim_length y r : simM y (m_length r) (m_length r).
Proof. intros sc su HS. unfold m_length. sset. rewrite (sim_vars _ _ _ HS). auto. Qed.

Lemma sim_var_put y slot v : simM y (m_var_put slot v) (m_var_put slot v).
Proof.
  intros sc su HS. unfold m_var_put. sset. split; auto.
  destruct HS as [Hb Hm Hc Hr Hv He Hi Hl Hw]. constructor; sset; auto. now rewrite Hv.
Qed.

(* ---- reads ------------------------------------------------------------------------------------------- *)

Lemma key_eqb_eq k1 k2 : key_eqb k1 k2 = true -> k1 = k2.
Proof.
  destruct k1 as [[n1 a1] l1], k2 as [[n2 a2] l2]. unfold key_eqb, key_node, key_addr, key_len.
  cbn [fst snd]. rewrite !andb_true_iff, !Z.eqb_eq. intros [[-> ->] ->]. reflexivity.
Qed.

Lemma key_eqb_refl k : key_eqb k k = true.
Proof. unfold key_eqb. now rewrite !Z.eqb_refl. Qed.

Lemma c_find_In k c bs : c_find k c = Some bs -> In (k, bs) c.
Proof.
  induction c as [|[k' b'] c IH]; cbn [c_find]; [discriminate|].
  destruct (key_eqb k k') eqn:E.
  - intros H. injection H as ->. apply key_eqb_eq in E. subst. now left.
  - intros H. right. auto.
Qed.

Lemma c_find_put k bs c : c_find k (c_put true k bs c) = Some bs.
Proof. unfold c_put. cbn [c_find]. now rewrite key_eqb_refl. Qed.

Definition logged (d : dev) (x : access) : dev :=
  {| d_base := d_base d; d_mem := d_mem d; d_log := x :: d_log d; d_count := d_count d; d_rej := d_rej d |}.

Lemma cdev_read_peek d a n :
  cdev_read d a n = (match peek d a n with Some bs => Ok bs | None => Err E_DEVICE end, logged d (RdAcc a n)).
Proof. unfold cdev_read, peek, logged. destruct (in_image d a n); reflexivity. Qed.

Lemma peek_sim y sc su a n : Sim y sc su -> peek (c_dev su) a n = peek (c_dev sc) a n.
Proof. intros HS. apply peek_same_mem; symmetry; apply HS. Qed.

Lemma Sim_read y sc su a n c' :
  Sim y sc su -> Forall (entry_ok y (c_dev sc)) c' ->
  Sim y (set_cache (set_dev sc (logged (c_dev sc) (RdAcc a n))) c')
        (set_cache (set_dev su (logged (c_dev su) (RdAcc a n))) []).
Proof.
  intros [Hb Hm Hc Hr Hv He Hi Hl Hw] H. constructor; sset; unfold logged; sset; auto;
    try (now apply sub_cons); try (unfold writes_of in *; cbn [filter]; assumption);
    try (unfold Inv; sset; eapply Forall_dev; [| |exact H]; reflexivity).
Qed.

(* the cached side found the bytes in the cache, the uncached side reads them *)
Lemma Sim_hit y sc su a n :
  Sim y sc su -> Sim y sc (set_dev su (logged (c_dev su) (RdAcc a n))).
Proof.
  intros [Hb Hm Hc Hr Hv He Hi Hl Hw]. constructor; sset; unfold logged; sset; auto;
    try (now apply sub_skip); try (unfold writes_of in *; cbn [filter]; assumption).
Qed.

Lemma entry_new y d n r a l bs :
  node_at y n = Some (NReg r) -> cacheable r = true -> 0 <= l ->
  (exists vs, address r vs = Ok a /\ len_of r vs = l) -> peek d a l = Some bs ->
  entry_ok y d ((n, a, l), bs).
Proof.
  intros Hn Hc Hl Ha Hp. split; unfold key_node, key_addr, key_len; cbn [fst snd]; auto.
  exists r. auto.
Qed.

Lemma Forall_put y d k bs c :
  entry_ok y d (k, bs) -> Forall (entry_ok y d) c -> Forall (entry_ok y d) (c_put true k bs c).
Proof. intros H1 H2. unfold c_put. constructor; auto. unfold c_remove. now apply Forall_filter. Qed.

Lemma sim_read_and_cache y n r a l :
  node_at y n = Some (NReg r) -> 0 <= l -> (exists vs, address r vs = Ok a /\ len_of r vs = l) ->
  simM y (m_read_and_cache true n r a l) (m_read_and_cache false n r a l).
Proof.
  intros Hn Hl Ha sc su HS. unfold m_read_and_cache.
  rewrite !cdev_read_peek. rewrite (peek_sim y sc su) by auto.
  destruct (peek (c_dev sc) a l) as [bs|] eqn:Hp; sset.
  - split; auto. unfold c_put at 2. rewrite (sim_empty _ _ _ HS).
    destruct (cacheable r) eqn:Hc; apply Sim_read; auto; [|apply HS].
    apply Forall_put; [|apply HS]. now apply (entry_new y _ n r a l bs).
  - split; auto.
    replace (set_dev sc (logged (c_dev sc) (RdAcc a l)))
      with (set_cache (set_dev sc (logged (c_dev sc) (RdAcc a l))) (c_cache sc)) by reflexivity.
    replace (set_dev su (logged (c_dev su) (RdAcc a l)))
      with (set_cache (set_dev su (logged (c_dev su) (RdAcc a l))) []).
    + apply Sim_read; auto. apply HS.
    + unfold set_cache, set_dev. sset. now rewrite (sim_empty _ _ _ HS).
Qed.

Lemma bind_address {B} r (f : Z -> M B) s :
  mbind (m_address r) f s =
  match address r (c_vars s) with Ok a => f a s | Err e => (Err e, s) | Panic => (Panic, s) end.
Proof. unfold mbind, m_address. destruct (address r (c_vars s)); reflexivity. Qed.

Lemma bind_length {B} r (f : Z -> M B) s :
  mbind (m_length r) f s = f (len_of r (c_vars s)) s.
Proof. reflexivity. Qed.

Lemma sim_cached_bytes y n r :
  node_at y n = Some (NReg r) -> simM y (m_cached_bytes true n r) (m_cached_bytes false n r).
Proof.
  intros Hn sc su HS. unfold m_cached_bytes. rewrite !bind_length. rewrite <- (sim_vars _ _ _ HS).
  set (l := len_of r (c_vars sc)). assert (El : len_of r (c_vars sc) = l) by reflexivity.
  destruct (l <? 0) eqn:Hlen; [now apply simM_lift|]. apply Z.ltb_ge in Hlen.
  unfold mbind, m_address. rewrite <- (sim_vars _ _ _ HS).
  destruct (address r (c_vars sc)) as [a|e|] eqn:Ha; sset; auto.
  rewrite (sim_empty _ _ _ HS). cbn [c_find].
  destruct (c_find (n, a, l) (c_cache sc)) as [bs|] eqn:Hf.
  - apply c_find_In in Hf.
    pose proof (sim_inv _ _ _ HS) as Hi. unfold Inv in Hi. rewrite Forall_forall in Hi.
    destruct (Hi _ Hf) as [_ Hp]. unfold key_addr, key_len in Hp. cbn [fst snd] in Hp.
    unfold m_read_and_cache. rewrite cdev_read_peek, (peek_sim y sc su), Hp by auto. sset.
    split; auto. unfold c_put. rewrite (sim_empty _ _ _ HS).
    replace (set_cache (set_dev su (logged (c_dev su) (RdAcc a l))) (if cacheable r then [] else []))
      with (set_cache (set_dev su (logged (c_dev su) (RdAcc a l))) []) by (destruct (cacheable r); reflexivity).
    replace (set_cache (set_dev su (logged (c_dev su) (RdAcc a l))) [])
      with (set_dev su (logged (c_dev su) (RdAcc a l))).
    + now apply Sim_hit.
    + unfold set_cache, set_dev. sset. now rewrite (sim_empty _ _ _ HS).
  - apply sim_read_and_cache; eauto.
Qed.

Lemma sim_raw_read y n r blen :
  node_at y n = Some (NReg r) -> simM y (m_raw_read true n r blen) (m_raw_read false n r blen).
Proof.
  intros Hn sc su HS. unfold m_raw_read.
  rewrite !bind_address. rewrite <- (sim_vars _ _ _ HS).
  destruct (address r (c_vars sc)) as [a|e|] eqn:Ha; sset; auto.
  rewrite !bind_length. rewrite <- (sim_vars _ _ _ HS).
  set (l := len_of r (c_vars sc)). assert (El : len_of r (c_vars sc) = l) by reflexivity.
  destruct (l <? 0) eqn:Hlen; [now apply simM_lift|]. apply Z.ltb_ge in Hlen.
  destruct (negb (blen =? l)); [now apply simM_lift|].
  apply sim_read_and_cache; eauto.
Qed.

(* ---- writes ------------------------------------------------------------------------------------------ *)

Definition wfail (d : dev) (a : Z) (bs : list Z) : dev :=
  {| d_base := d_base d; d_mem := d_mem d; d_log := WrAcc a bs :: d_log d;
     d_count := d_count d + 1; d_rej := d_rej d |}.

Definition wok (d : dev) (a : Z) (bs : list Z) : bool :=
  negb (zmem (d_count d) (d_rej d)) && in_image d a (zlen bs).

Lemma cdev_write_eq d a bs :
  cdev_write d a bs = if wok d a bs then (Ok tt, written d a bs) else (Err E_DEVICE, wfail d a bs).
Proof. unfold cdev_write, wok, written, wfail. destruct (_ && _); reflexivity. Qed.

Lemma wok_sim y sc su a bs : Sim y sc su -> wok (c_dev su) a bs = wok (c_dev sc) a bs.
Proof.
  intros [Hb Hm Hc Hr Hv He Hi Hl Hw]. unfold wok, in_image. now rewrite Hb, Hm, Hc, Hr.
Qed.

Lemma Sim_wfail y sc su a bs :
  Sim y sc su -> Sim y (set_dev sc (wfail (c_dev sc) a bs)) (set_dev su (wfail (c_dev su) a bs)).
Proof.
  intros [Hb Hm Hc Hr Hv He Hi Hl Hw]. constructor; sset; unfold wfail; sset; auto;
    try (now apply sub_cons); try lia;
    try (unfold writes_of in *; cbn [filter]; now f_equal);
    try (unfold Inv; sset; eapply Forall_dev; [| |exact Hi]; reflexivity).
Qed.

Lemma Sim_written y sc su a bs c' :
  Sim y sc su -> Forall (entry_ok y (written (c_dev sc) a bs)) c' ->
  Sim y (set_cache (set_dev sc (written (c_dev sc) a bs)) c')
        (set_cache (set_dev su (written (c_dev su) a bs)) []).
Proof.
  intros [Hb Hm Hc Hr Hv He Hi Hl Hw] H. constructor; sset; auto;
    try (now apply sub_cons); try lia; try (now rewrite Hb, Hm);
    try (unfold writes_of in *; cbn [filter]; now f_equal).
Qed.

Lemma invals_of_reg y m r : node_at y m = Some (NReg r) -> invals_of y m = g_inval r.
Proof. intros H. unfold invals_of. now rewrite H. Qed.

(* what a successful write of register n at address a does to a coherent entry that n does not
   invalidate: either it is a block of n itself, or it stays coherent *)
Lemma entry_after_write y n r vs a buf d e :
  Declared y -> node_at y n = Some (NReg r) -> address r vs = Ok a -> zlen buf = len_of r vs ->
  in_image d a (zlen buf) = true ->
  entry_ok y d e -> zmem n (invals_of y (key_node (fst e))) = false ->
  key_node (fst e) = n \/ entry_ok y (written d a buf) e.
Proof.
  intros HD Hn Ha Hlen Him [[r' [Hm [Hc [H0 [vs' [Ha' Hl']]]]]] Hp] Hz.
  destruct e as [[[m a'] l'] bs]. unfold key_node, key_addr, key_len in *. cbn [fst snd] in *.
  destruct (Z.eq_dec m n) as [E|Hne]; [now left|right].
  destruct (Z_lt_dec a (a' + l')) as [L1|L1]; [destruct (Z_lt_dec a' (a + zlen buf)) as [L2|L2]|].
  - exfalso. assert (Hov : overlap a (len_of r vs) a' (len_of r' vs')) by (unfold overlap; lia).
    assert (Hne' : n <> m) by congruence.
    pose proof (HD n m r r' vs vs' a a' Hn Hm Hne' Ha Ha' Hov) as Hin.
    rewrite (invals_of_reg _ _ _ Hm) in Hz. apply zmem_In in Hin. congruence.
  - split; [exists r'; eauto 10|]. unfold key_addr, key_len. cbn [fst snd].
    apply peek_written_disjoint; auto; try lia. unfold overlap. lia.
  - split; [exists r'; eauto 10|]. unfold key_addr, key_len. cbn [fst snd].
    apply peek_written_disjoint; auto; try lia. unfold overlap. lia.
Qed.

Definition NoDep (y : system) (n : Z) (c : cache) : Prop :=
  Forall (fun e => zmem n (invals_of y (key_node (fst e))) = false) c.

Lemma NoDep_inval_by y n c : NoDep y n (c_inval_by y n c).
Proof.
  unfold NoDep, c_inval_by. apply Forall_forall. intros e He.
  apply filter_In in He as [_ He]. now apply negb_true_iff in He.
Qed.

Definition write_tail (on : bool) (n : Z) (r : creg) (a l : Z) (buf : list Z) : M unit :=
  let! _ := m_dev_write a buf in
  if g_mode r =? WT then (let! _ := m_inval_of n in m_put on (n, a, l) buf)
  else if (g_mode r =? WA) && true then m_inval_of n
  else mret tt.

Lemma sim_write_tail y n r a l buf sc su :
  Declared y -> node_at y n = Some (NReg r) -> 0 <= l -> zlen buf = l ->
  address r (c_vars sc) = Ok a -> len_of r (c_vars sc) = l -> Sim y sc su -> NoDep y n (c_cache sc) ->
  fst (write_tail true n r a l buf sc) = fst (write_tail false n r a l buf su) /\
  Sim y (snd (write_tail true n r a l buf sc)) (snd (write_tail false n r a l buf su)).
Proof.
  intros HD Hn H0 Hlen Ha El HS Hnd. unfold write_tail, mbind, m_dev_write.
  rewrite !cdev_write_eq, (wok_sim y sc su) by auto.
  destruct (wok (c_dev sc) a buf) eqn:Hok; sset.
  2:{ split; auto. now apply Sim_wfail. }
  assert (Him : in_image (c_dev sc) a (zlen buf) = true).
  { unfold wok in Hok. now apply andb_true_iff in Hok. }
  pose proof (sim_inv _ _ _ HS) as Hi. unfold Inv in Hi.
  assert (Hnew : entry_ok y (written (c_dev sc) a buf) ((n, a, l), buf) \/ cacheable r = false).
  { destruct (cacheable r) eqn:Hc; auto. left. apply (entry_new y _ n r a l buf); eauto.
    rewrite <- Hlen. now apply peek_written_same. }
  assert (Hold : forall e, In e (c_cache sc) -> key_node (fst e) <> n ->
                           entry_ok y (written (c_dev sc) a buf) e).
  { intros e He Hne. unfold NoDep in Hnd. rewrite Forall_forall in Hi, Hnd.
    destruct (entry_after_write y n r (c_vars sc) a buf (c_dev sc) e) as [E|E]; auto; congruence. }
  assert (Hdrop : Forall (entry_ok y (written (c_dev sc) a buf)) (c_inval_of n (c_cache sc))).
  { apply Forall_forall. intros e He. unfold c_inval_of in He. apply filter_In in He as [He Hk].
    apply Hold; auto. intros E. rewrite E, Z.eqb_refl in Hk. discriminate. }
  destruct (g_mode r =? WT) eqn:Hwt.
  - unfold m_inval_of, m_put. sset. split; auto. unfold c_put at 2. rewrite (sim_empty _ _ _ HS).
    cbn [c_inval_of filter].
    replace (set_cache (set_cache (set_dev sc (written (c_dev sc) a buf)) (c_inval_of n (c_cache sc)))
               (c_put true (n, a, l) buf (c_inval_of n (c_cache sc))))
      with (set_cache (set_dev sc (written (c_dev sc) a buf)) (c_put true (n, a, l) buf (c_inval_of n (c_cache sc))))
      by reflexivity.
    replace (set_cache (set_cache (set_dev su (written (c_dev su) a buf)) []) [])
      with (set_cache (set_dev su (written (c_dev su) a buf)) []) by reflexivity.
    apply Sim_written; auto. apply Forall_put; auto.
    destruct Hnew as [?|Hc]; auto. unfold cacheable in Hc. rewrite Hwt in Hc. discriminate.
  - destruct (g_mode r =? WA) eqn:Hwa; cbn [andb].
    + unfold m_inval_of. sset. split; auto. rewrite (sim_empty _ _ _ HS). cbn [c_inval_of filter].
      apply Sim_written; auto.
    + unfold mret. sset. split; auto.
      replace (set_dev sc (written (c_dev sc) a buf))
        with (set_cache (set_dev sc (written (c_dev sc) a buf)) (c_cache sc)) by reflexivity.
      replace (set_dev su (written (c_dev su) a buf))
        with (set_cache (set_dev su (written (c_dev su) a buf)) []).
      2:{ unfold set_cache, set_dev. sset. now rewrite (sim_empty _ _ _ HS). }
      apply Sim_written; auto. apply Forall_forall. intros e He.
      apply Hold; auto. intros E.
      rewrite Forall_forall in Hi. destruct (Hi e He) as [[r' [Hm [Hc _]]] _].
      rewrite E in Hm. rewrite Hn in Hm. injection Hm as <-.
      unfold cacheable in Hc. rewrite Hwt, Hwa in Hc. discriminate.
Qed.

Lemma bind_inval_by {B} y n (f : unit -> M B) s :
  mbind (m_inval_by y n) f s = f tt (set_cache s (c_inval_by y n (c_cache s))).
Proof. reflexivity. Qed.

Lemma sim_write_and_cache y n r buf :
  Declared y -> node_at y n = Some (NReg r) ->
  simM y (m_write_and_cache true cur y n r buf) (m_write_and_cache false cur y n r buf).
Proof.
  intros HD Hn sc su HS. unfold m_write_and_cache.
  cbn [fix_raw fix_wa fix_own cur]. rewrite !bind_inval_by.
  pose proof (sim_inval_by y n sc su HS) as [_ HS1]. unfold m_inval_by in HS1. sset.
  pose proof (NoDep_inval_by y n (c_cache sc)) as Hnd.
  set (sc1 := set_cache sc (c_inval_by y n (c_cache sc))) in *.
  set (su1 := set_cache su (c_inval_by y n (c_cache su))) in *.
  rewrite !bind_length. replace (c_vars su1) with (c_vars sc1) by apply HS1.
  set (l := len_of r (c_vars sc1)). assert (El : len_of r (c_vars sc1) = l) by reflexivity.
  destruct (l <? 0) eqn:Hlen; [now apply simM_lift|]. apply Z.ltb_ge in Hlen.
  destruct (negb (zlen buf =? l)) eqn:Hbl; [now apply simM_lift|].
  apply negb_false_iff, Z.eqb_eq in Hbl.
  rewrite !bind_address. replace (c_vars su1) with (c_vars sc1) by apply HS1.
  destruct (address r (c_vars sc1)) as [a|e|] eqn:Ha; sset; auto.
  rewrite !bind_inval_by.
  pose proof (sim_inval_by y (y_port y) sc1 su1 HS1) as [_ HS2]. unfold m_inval_by in HS2. sset.
  apply (sim_write_tail y n r a l buf); auto.
  unfold sc1. sset. unfold c_inval_by at 1. apply Forall_filter. exact Hnd.
Qed.

(* ---- nodes, operations, histories ------------------------------------------------------------------ *)

Definition simS {X} (y : system) (f g : cst -> X * cst) : Prop :=
  forall sc su, Sim y sc su -> fst (f sc) = fst (g su) /\ Sim y (snd (f sc)) (snd (g su)).

Section Composite.
Variable y : system.
Hypothesis HD : Declared y.

Ltac sim1 :=
  first [ apply simM_lift | apply simM_ret | apply sim_inval_by | apply sim_inval_of
        | apply sim_var_get | apply sim_var_put | apply sim_length
        | (apply sim_cached_bytes; assumption) | (apply sim_write_and_cache; assumption)
        | (apply sim_raw_read; assumption) ].
Ltac sim := repeat first [ sim1 | (apply simM_bind; [|intros]) ].

Lemma sim_intreg_value n r :
  node_at y n = Some (NReg r) -> simM y (m_intreg_value true n r) (m_intreg_value false n r).
Proof. intros Hn. unfold m_intreg_value. sim. Qed.

Lemma sim_intreg_set n r x :
  node_at y n = Some (NReg r) -> simM y (m_intreg_set true cur y n r x) (m_intreg_set false cur y n r x).
Proof. intros Hn. unfold m_intreg_set. sim. Qed.

Lemma sim_masked_value n r :
  node_at y n = Some (NReg r) -> simM y (m_masked_value true n r) (m_masked_value false n r).
Proof. intros Hn. unfold m_masked_value. apply simM_bind; [now apply sim_intreg_value|intros]. sim. Qed.

Lemma sim_masked_set n r x :
  node_at y n = Some (NReg r) -> simM y (m_masked_set true cur y n r x) (m_masked_set false cur y n r x).
Proof.
  intros Hn. unfold m_masked_set. apply simM_bind; [sim|intros].
  apply simM_bind; [now apply sim_intreg_value|intros]. sim.
Qed.

Lemma sim_float_value n r :
  node_at y n = Some (NReg r) -> simM y (m_float_value true n r) (m_float_value false n r).
Proof. intros Hn. unfold m_float_value. sim. Qed.

Lemma sim_float_set n r x :
  node_at y n = Some (NReg r) -> simM y (m_float_set true cur y n r x) (m_float_set false cur y n r x).
Proof. intros Hn. unfold m_float_set. sim. Qed.

Lemma sim_string_value n r :
  node_at y n = Some (NReg r) -> simM y (m_string_value true n r) (m_string_value false n r).
Proof. intros Hn. unfold m_string_value. sim. Qed.

Lemma sim_string_set n r x :
  node_at y n = Some (NReg r) -> simM y (m_string_set true cur y n r x) (m_string_set false cur y n r x).
Proof.
  intros Hn. unfold m_string_set. apply simM_bind; [apply sim_length|intros l].
  destruct (negb (is_ascii x) || has_nul x); [sim|]. destruct (l <? zlen x); sim.
Qed.

Lemma sim_ival fuel : forall n, simM y (m_ival fuel true y n) (m_ival fuel false y n).
Proof.
  induction fuel as [|f IH]; intros n; cbn [m_ival]; [sim|].
  destruct (node_at y n) as [[r|slot|t|t cv]|] eqn:Hn; try solve [sim]; auto.
  destruct (g_kind r =? 0); [now apply sim_intreg_value|].
  destruct (g_kind r =? 4); [now apply sim_masked_value|]. sim.
Qed.

Lemma sim_iset fuel : forall n x, simM y (m_iset fuel true cur y n x) (m_iset fuel false cur y n x).
Proof.
  induction fuel as [|f IH]; intros n x; cbn [m_iset]; [sim|].
  destruct (node_at y n) as [[r|slot|t|t cv]|] eqn:Hn; try solve [sim].
  - destruct (g_kind r =? 0); [now apply sim_intreg_set|].
    destruct (g_kind r =? 4); [now apply sim_masked_set|]. sim.
  - apply simM_bind; [sim|intros]. apply IH.
Qed.

Lemma sim_pr_unit mc mu : simM y mc mu -> simS y (pr_unit mc) (pr_unit mu).
Proof.
  intros H sc su HS. specialize (H sc su HS). unfold pr_unit.
  destruct (mc sc), (mu su). cbn [fst snd] in *. destruct H as [-> H]. auto.
Qed.
Lemma sim_pr_z mc mu : simM y mc mu -> simS y (pr_z mc) (pr_z mu).
Proof.
  intros H sc su HS. specialize (H sc su HS). unfold pr_z.
  destruct (mc sc), (mu su). cbn [fst snd] in *. destruct H as [-> H]. auto.
Qed.
Lemma sim_pr_bytes mc mu : simM y mc mu -> simS y (pr_bytes mc) (pr_bytes mu).
Proof.
  intros H sc su HS. specialize (H sc su HS). unfold pr_bytes.
  destruct (mc sc), (mu su). cbn [fst snd] in *. destruct H as [-> H]. auto.
Qed.
Lemma sim_pr_str mc mu : simM y mc mu -> simS y (pr_str mc) (pr_str mu).
Proof.
  intros H sc su HS. specialize (H sc su HS). unfold pr_str.
  destruct (mc sc), (mu su). cbn [fst snd] in *. destruct H as [-> H]. auto.
Qed.
Lemma sim_pr_const l : simS y (pr_const l) (pr_const l).
Proof. intros sc su HS. unfold pr_const. cbn [fst snd]. auto. Qed.

Lemma Sim_reject sc su k :
  Sim y sc su -> Sim y (set_dev sc (dev_reject (c_dev sc) k)) (set_dev su (dev_reject (c_dev su) k)).
Proof.
  intros [Hb Hm Hc Hr Hv He Hi Hl Hw]. constructor; sset; unfold dev_reject; sset; auto;
    try (now rewrite Hc, Hr);
    try (unfold Inv; sset; eapply Forall_dev; [| |exact Hi]; reflexivity).
Qed.

Lemma sim_step op : simS y (step true cur y op) (step false cur y op).
Proof.
  destruct op as [n|n args|n blen|n bs|n|n| |k]; cbn [step].
  - destruct (node_at y n) as [[r|slot|t|t cv]|] eqn:Hn; try apply sim_pr_const.
    + destruct ((g_kind r =? 0) || (g_kind r =? 4)); [apply sim_pr_z, sim_ival|].
      destruct (g_kind r =? 1).
      { apply sim_pr_z. apply simM_bind; [now apply sim_float_value|intros; apply simM_ret]. }
      destruct (g_kind r =? 2); [apply sim_pr_str; now apply sim_string_value|apply sim_pr_const].
    + apply sim_pr_z, sim_ival.
    + apply sim_pr_z, sim_ival.
  - destruct (node_at y n) as [[r|slot|t|t cv]|] eqn:Hn; try apply sim_pr_const.
    + destruct ((g_kind r =? 0) || (g_kind r =? 4)).
      { destruct args as [|x [|? ?]]; try apply sim_pr_const. apply sim_pr_unit, sim_iset. }
      destruct (g_kind r =? 1).
      { destruct args as [|x [|? ?]]; try apply sim_pr_const. apply sim_pr_unit. now apply sim_float_set. }
      destruct (g_kind r =? 2); [apply sim_pr_unit; now apply sim_string_set|apply sim_pr_const].
    + destruct args as [|x [|? ?]]; try apply sim_pr_const. apply sim_pr_unit, sim_iset.
    + destruct args as [|x [|? ?]]; try apply sim_pr_const. apply sim_pr_unit, sim_iset.
  - destruct (node_at y n) as [[r|slot|t|t cv]|] eqn:Hn; try apply sim_pr_const.
    apply sim_pr_bytes. now apply sim_raw_read.
  - destruct (node_at y n) as [[r|slot|t|t cv]|] eqn:Hn; try apply sim_pr_const.
    apply sim_pr_unit. now apply sim_write_and_cache.
  - destruct (node_at y n) as [[r|slot|t|t cv]|] eqn:Hn; try apply sim_pr_const.
    apply sim_pr_unit. apply simM_bind; [apply sim_inval_by|intros; apply sim_iset].
  - destruct (node_at y n) as [[r|slot|t|t cv]|] eqn:Hn; try apply sim_pr_const.
    apply sim_pr_z. apply simM_bind; [apply sim_inval_of|intros].
    apply simM_bind; [apply sim_ival|intros; apply simM_ret].
  - intros sc su HS. cbn [fst snd]. split; auto. apply Sim_cache; auto.
  - intros sc su HS. cbn [fst snd]. split; auto. now apply Sim_reject.
Qed.

Lemma sim_run h : simS y (run_ops true cur y h) (run_ops false cur y h).
Proof.
  induction h as [|op h IH]; intros sc su HS; cbn [run_ops]; [cbn [fst snd]; auto|].
  destruct (sim_step op sc su HS) as [E1 S1].
  destruct (step true cur y op sc) as [oc sc1], (step false cur y op su) as [ou su1].
  cbn [fst snd] in *. subst ou.
  destruct (IH sc1 su1 S1) as [E2 S2].
  destruct (run_ops true cur y h sc1) as [osc sc2], (run_ops false cur y h su1) as [osu su2].
  cbn [fst snd] in *. subst osu. auto.
Qed.

End Composite.

Lemma Sim_init y base image vars rej : Sim y (init base image vars rej) (init base image vars rej).
Proof.
  constructor; cbn; auto.
  - constructor.
  - apply sub_nil.
Qed.

Lemma Sim_self y s : Inv y s -> Sim y s (set_cache s []).
Proof. intros H. constructor; sset; auto. apply sublist_refl. Qed.

(* ---- the theorems -------------------------------------------------------------------------------------- *)

Lemma transparent y : Declared y -> forall base image vars rej h,
  outputs (run true cur y base image vars rej h) = outputs (run false cur y base image vars rej h) /\
  final_mem (run true cur y base image vars rej h) = final_mem (run false cur y base image vars rej h).
Proof.
  intros HD base image vars rej h. unfold run, outputs, final_mem.
  destruct (sim_run y HD h _ _ (Sim_init y base image vars rej)) as [E S]. split; auto. apply S.
Qed.

Lemma no_extra_access y : Declared y -> forall base image vars rej h,
  sublist (access_log (run true cur y base image vars rej h)) (access_log (run false cur y base image vars rej h)) /\
  writes_of (access_log (run true cur y base image vars rej h)) =
  writes_of (access_log (run false cur y base image vars rej h)).
Proof.
  intros HD base image vars rej h. unfold run, access_log.
  destruct (sim_run y HD h _ _ (Sim_init y base image vars rej)) as [E S]. split; apply S.
Qed.

Lemma inv_init y base image vars rej : Inv y (init base image vars rej).
Proof. constructor. Qed.

Lemma inv_step y : Declared y -> forall op s, Inv y s -> Inv y (snd (step true cur y op s)).
Proof. intros HD op s H. destruct (sim_step y HD op s _ (Sim_self y s H)) as [_ S]. apply S. Qed.

Lemma inv_run y : Declared y -> forall base image vars rej h,
  Inv y (snd (run true cur y base image vars rej h)).
Proof.
  intros HD base image vars rej h. unfold run.
  destruct (sim_run y HD h _ _ (Sim_init y base image vars rej)) as [E S]. apply S.
Qed.

Lemma inv_coh y s : Inv y s -> Coh s.
Proof.
  intros H n a l bs Hin. unfold Inv in H. rewrite Forall_forall in H.
  destruct (H _ Hin) as [_ Hp]. exact Hp.
Qed.

(* ---- NoCache registers ------------------------------------------------------------------------------------ *)

Lemma cacheable_not_nc r : cacheable r = true -> g_mode r <> NC.
Proof.
  unfold cacheable, WT, WA, NC. intros H E. rewrite E in H. discriminate.
Qed.

Lemma entry_cacheable y s n a l bs r :
  Inv y s -> In ((n, a, l), bs) (c_cache s) -> node_at y n = Some (NReg r) -> cacheable r = true.
Proof.
  intros H Hin Hn. unfold Inv in H. rewrite Forall_forall in H.
  destruct (H _ Hin) as [[r' [Hm [Hc _]]] _]. unfold key_node in Hm. cbn [fst] in Hm.
  rewrite Hn in Hm. injection Hm as <-. exact Hc.
Qed.

Lemma nocache_never_served y : Declared y -> forall base image vars rej h n a l bs r,
  In ((n, a, l), bs) (c_cache (snd (run true cur y base image vars rej h))) ->
  node_at y n = Some (NReg r) -> g_mode r <> NC.
Proof.
  intros HD base image vars rej h n a l bs r Hin Hn. apply cacheable_not_nc.
  eapply entry_cacheable; eauto. now apply inv_run.
Qed.

Lemma find_none_uncacheable y s n r a l :
  Inv y s -> node_at y n = Some (NReg r) -> cacheable r = false ->
  c_find (n, a, l) (c_cache s) = None.
Proof.
  intros H Hn Hc. destruct (c_find _ _) as [bs|] eqn:Hf; auto.
  apply c_find_In in Hf. rewrite (entry_cacheable y s n a l bs r H Hf Hn) in Hc. discriminate.
Qed.

Lemma log_read_and_cache on n r a l s :
  d_log (c_dev (snd (m_read_and_cache on n r a l s))) = RdAcc a l :: d_log (c_dev s).
Proof.
  unfold m_read_and_cache. rewrite cdev_read_peek.
  destruct (peek (c_dev s) a l); reflexivity.
Qed.

Lemma nocache_bytes_read y s n r a :
  Inv y s -> node_at y n = Some (NReg r) -> cacheable r = false -> 0 <= len_of r (c_vars s) ->
  address r (c_vars s) = Ok a ->
  d_log (c_dev (snd (m_cached_bytes true n r s))) = RdAcc a (len_of r (c_vars s)) :: d_log (c_dev s) /\
  c_vars (snd (m_cached_bytes true n r s)) = c_vars s.
Proof.
  intros H Hn Hc Hl Ha. unfold m_cached_bytes. rewrite bind_length.
  replace (len_of r (c_vars s) <? 0) with false by (symmetry; apply Z.ltb_ge; lia).
  rewrite bind_address, Ha, (find_none_uncacheable y s n r a _) by auto.
  split; [apply log_read_and_cache|].
  unfold m_read_and_cache. rewrite cdev_read_peek. destruct (peek _ _ _); reflexivity.
Qed.

Lemma snd_bind_lift {A B} (m : M A) (g : A -> outcome B) s :
  snd (mbind m (fun x => mlift (g x)) s) = snd (m s).
Proof. unfold mbind, mlift. destruct (m s) as [[x|e|] s']; reflexivity. Qed.

Lemma snd_bind_length_lift {A B} (m : M A) r (g : A -> Z -> outcome B) s :
  snd (mbind m (fun x => mbind (m_length r) (fun l => mlift (g x l))) s) = snd (m s).
Proof. unfold mbind, mlift, m_length. destruct (m s) as [[x|e|] s']; reflexivity. Qed.

Lemma snd_bind_ret {A B} (m : M A) (g : A -> B) s :
  snd (mbind m (fun x => mret (g x)) s) = snd (m s).
Proof. unfold mbind, mret. destruct (m s) as [[x|e|] s']; reflexivity. Qed.

Lemma snd_pr_z m s : snd (pr_z m s) = snd (m s).
Proof. unfold pr_z. destruct (m s). reflexivity. Qed.
Lemma snd_pr_str m s : snd (pr_str m s) = snd (m s).
Proof. unfold pr_str. destruct (m s). reflexivity. Qed.

Lemma nocache_value_reads y s n r a :
  Inv y s -> node_at y n = Some (NReg r) -> cacheable r = false -> 0 <= len_of r (c_vars s) ->
  In (g_kind r) [0; 1; 2; 4] -> address r (c_vars s) = Ok a ->
  d_log (c_dev (snd (step true cur y (OpValue n) s))) = RdAcc a (len_of r (c_vars s)) :: d_log (c_dev s).
Proof.
  intros H Hn Hc Hl Hk Ha. cbn [step]. rewrite Hn.
  pose proof (nocache_bytes_read y s n r a H Hn Hc Hl Ha) as [P _].
  cbn [In] in Hk. destruct Hk as [K|[K|[K|[K|[]]]]]; rewrite <- K; cbn [Z.eqb orb Pos.eqb].
  - rewrite snd_pr_z. unfold fuel_of. cbn [m_ival]. rewrite Hn, <- K. cbn [Z.eqb].
    unfold m_intreg_value. now rewrite snd_bind_lift.
  - rewrite snd_pr_z, snd_bind_ret. unfold m_float_value. now rewrite snd_bind_lift.
  - rewrite snd_pr_str. unfold m_string_value. now rewrite (snd_bind_ret _ until_nul).
  - rewrite snd_pr_z. unfold fuel_of. cbn [m_ival]. rewrite Hn, <- K. cbn [Z.eqb Pos.eqb].
    unfold m_masked_value. rewrite snd_bind_length_lift. unfold m_intreg_value. now rewrite snd_bind_lift.
Qed.

(* ---- a register's own write is visible ------------------------------------------------------------------ *)

Lemma c_find_inval_of n a l c : c_find (n, a, l) (c_inval_of n c) = None.
Proof.
  induction c as [|[k bs] c IH]; cbn [c_inval_of filter c_find]; auto. cbn [fst].
  destruct (key_node k =? n) eqn:E; cbn [negb]; [exact IH|].
  cbn [c_find]. destruct (key_eqb (n, a, l) k) eqn:Hk; [|exact IH].
  apply key_eqb_eq in Hk. subst k. unfold key_node in E. cbn [fst] in E. rewrite Z.eqb_refl in E. discriminate.
Qed.

Lemma c_find_filter_none k f c : c_find k c = None -> c_find k (filter f c) = None.
Proof.
  induction c as [|[k' bs] c IH]; cbn [filter c_find]; auto.
  destruct (key_eqb k k') eqn:Hk; [discriminate|]. intros H.
  destruct (f (k', bs)); auto. cbn [c_find]. rewrite Hk. auto.
Qed.

Lemma bind_lift {A B} (x : outcome A) (f : A -> M B) s :
  mbind (mlift x) f s = match x with Ok a => f a s | Err e => (Err e, s) | Panic => (Panic, s) end.
Proof. unfold mbind, mlift. destruct x; reflexivity. Qed.

Lemma own_write_visible y n r buf s s1 :
  Inv y s -> node_at y n = Some (NReg r) ->
  m_write_and_cache true cur y n r buf s = (Ok tt, s1) ->
  fst (m_cached_bytes true n r s1) = Ok buf.
Proof.
  intros HI Hn Hw. unfold m_write_and_cache in Hw. cbn [fix_raw fix_wa cur] in Hw.
  rewrite bind_inval_by, bind_length in Hw. sset.
  remember (len_of r (c_vars s)) as l eqn:El.
  destruct (l <? 0) eqn:Hlen; [discriminate Hw|].
  destruct (negb (zlen buf =? l)) eqn:Hbl; [discriminate Hw|].
  apply negb_false_iff, Z.eqb_eq in Hbl.
  rewrite bind_address in Hw. sset.
  destruct (address r (c_vars s)) as [a|e|] eqn:Ha; try discriminate Hw.
  rewrite bind_inval_by in Hw. unfold mbind, m_dev_write in Hw. rewrite cdev_write_eq in Hw. sset.
  set (c2 := c_inval_by y (y_port y) (c_inval_by y n (c_cache s))) in *.
  destruct (wok (c_dev s) a buf) eqn:Hok; [|discriminate Hw].
  assert (Him : in_image (c_dev s) a (zlen buf) = true).
  { unfold wok in Hok. now apply andb_true_iff in Hok. }
  assert (Hpk : peek (written (c_dev s) a buf) a l = Some buf).
  { rewrite <- Hbl. now apply peek_written_same. }
  unfold m_cached_bytes. rewrite bind_length.
  destruct (g_mode r =? WT) eqn:Hwt; [|destruct (g_mode r =? WA) eqn:Hwa; cbn [andb] in Hw].
  - unfold m_put in Hw. injection Hw as <-. sset. rewrite <- El, Hlen, bind_address. sset. rewrite Ha.
    cbn [c_find]. now rewrite key_eqb_refl.
  - unfold m_inval_of in Hw. injection Hw as <-. sset. rewrite <- El, Hlen, bind_address. sset. rewrite Ha.
    rewrite c_find_inval_of. unfold m_read_and_cache. rewrite cdev_read_peek. sset. now rewrite Hpk.
  - unfold mret in Hw. injection Hw as <-. sset. rewrite <- El, Hlen, bind_address. sset. rewrite Ha.
    assert (Hnc : cacheable r = false) by (unfold cacheable; now rewrite Hwt, Hwa).
    unfold c2, c_inval_by.
    rewrite c_find_filter_none
      by (apply c_find_filter_none; now apply (find_none_uncacheable y s n r a l)).
    unfold m_read_and_cache. rewrite cdev_read_peek. sset. now rewrite Hpk.
Qed.

Lemma sh_unit_ok_inv (o : outcome unit) : sh_unit o = sh_unit (Ok tt) -> o = Ok tt.
Proof. destruct o as [[]|e|]; cbn; intros H; try reflexivity; discriminate H. Qed.

Lemma Inv_inval_by y n s : Inv y s -> Inv y (set_cache s (c_inval_by y n (c_cache s))).
Proof. intros H. unfold Inv. cbn [set_cache c_dev c_cache]. unfold c_inval_by. now apply Forall_filter. Qed.

(* IntReg: set_value x; value  returns the decoding of the bytes of x, in every caching mode *)
Lemma own_write_intreg y n r x s :
  Inv y s -> node_at y n = Some (NReg r) -> g_kind r = 0 ->
  fst (step true cur y (OpSet n [x]) s) = sh_unit (Ok tt) ->
  exists buf, bytes_from_int x (len_of r (c_vars s)) (g_endian r) (g_sign r) = Ok buf /\
    fst (step true cur y (OpValue n) (snd (step true cur y (OpSet n [x]) s))) =
    sh_z (int_from_slice buf (g_endian r) (g_sign r)).
Proof.
  intros HI Hn Hk. cbn [step]. rewrite Hn, Hk. cbn [Z.eqb orb].
  unfold fuel_of. cbn [m_iset m_ival]. rewrite Hn, Hk. cbn [Z.eqb].
  unfold pr_unit, pr_z, m_intreg_set, m_intreg_value. rewrite bind_inval_by, bind_length, bind_lift. sset.
  destruct (bytes_from_int x (len_of r (c_vars s)) (g_endian r) (g_sign r)) as [buf|e|] eqn:Hb;
    cbn [fst snd]; try (intros H; apply sh_unit_ok_inv in H; discriminate H).
  destruct (m_write_and_cache true cur y n r buf _) as [o s1] eqn:Hw. cbn [fst snd].
  intros H. apply sh_unit_ok_inv in H. subst o.
  exists buf. split; auto.
  pose proof (own_write_visible y n r buf _ s1 (Inv_inval_by y n s HI) Hn Hw) as Hv.
  unfold mbind. destruct (m_cached_bytes true n r s1) as [o2 s2]. cbn [fst] in Hv. subst o2.
  unfold mlift. reflexivity.
Qed.

(* ... and so the value written: set_value v; value = v for every v the register can hold *)
Lemma own_write_intreg_value y n r x s :
  Inv y s -> node_at y n = Some (NReg r) -> g_kind r = 0 ->
  supported_int_len (len_of r (c_vars s)) = true -> int_in_range (len_of r (c_vars s)) (g_sign r) x ->
  fst (step true cur y (OpSet n [x]) s) = sh_unit (Ok tt) ->
  fst (step true cur y (OpValue n) (snd (step true cur y (OpSet n [x]) s))) = sh_z (Ok x).
Proof.
  intros HI Hn Hk Hs Hr Hok.
  destruct (own_write_intreg y n r x s HI Hn Hk Hok) as [buf [Hb Hv]].
  rewrite Hv. rewrite bytes_from_int_image in Hb by auto. apply Ok_inj in Hb. subst buf.
  now rewrite int_roundtrip.
Qed.

(* ---- a decidable sufficient condition for Declared ----------------------------------------------------- *)

Lemma node_at_nth y n c : node_at y n = Some c -> 0 <= n /\ nth_error (y_nodes y) (Z.to_nat n) = Some c.
Proof. unfold node_at. destruct (n <? 0) eqn:E; [discriminate|]. apply Z.ltb_ge in E. auto. Qed.

Lemma declared_static_sound y : declared_static y = true -> Declared y.
Proof.
  unfold declared_static. rewrite andb_true_iff. intros [H1 H2].
  rewrite forallb_forall in H1, H2.
  intros n m rn rm vs vs' a a' Hn Hm Hne Ha Ha' [O1 O2].
  apply node_at_nth in Hn as [Hn0 Hn]. apply node_at_nth in Hm as [Hm0 Hm].
  assert (In1 : g_index rn = [] /\ len_of rn vs = imm_len rn).
  { specialize (H1 _ (nth_error_In _ _ Hn)). cbn [no_index] in H1. unfold len_of, imm_len.
    destruct (g_index rn); [|discriminate]. destruct (g_len rn); [auto|discriminate]. }
  assert (In2 : g_index rm = [] /\ len_of rm vs' = imm_len rm).
  { specialize (H1 _ (nth_error_In _ _ Hm)). cbn [no_index] in H1. unfold len_of, imm_len.
    destruct (g_index rm); [|discriminate]. destruct (g_len rm); [auto|discriminate]. }
  destruct In1 as [In1 L1']. destruct In2 as [In2 L2'].
  unfold address in Ha, Ha'. rewrite In1 in Ha. rewrite In2 in Ha'. cbn [addr_index] in Ha, Ha'.
  apply Ok_inj in Ha. apply Ok_inj in Ha'. subst a a'. rewrite L1', L2' in *.
  assert (L1 : (Z.to_nat n < length (y_nodes y))%nat) by (apply nth_error_Some; congruence).
  assert (L2 : (Z.to_nat m < length (y_nodes y))%nat) by (apply nth_error_Some; congruence).
  assert (P : static_pair_ok y (Z.to_nat n) (Z.to_nat m) = true).
  { specialize (H2 (Z.to_nat n)). rewrite forallb_forall in H2.
    apply H2; apply in_seq; lia. }
  unfold static_pair_ok in P. rewrite Hn, Hm in P.
  rewrite !orb_true_iff in P. destruct P as [[P|P]|P].
  - apply negb_true_iff in P. unfold overlapb in P. apply andb_false_iff in P.
    destruct P as [P|P]; apply Z.ltb_ge in P; lia.
  - apply Nat.eqb_eq in P. exfalso. apply Hne. lia.
  - apply zmem_In in P. rewrite Z2Nat.id in P by lia. exact P.
Qed.

(* ---- the pinned code violates the property ----------------------------------------------------------------- *)

Definition wit_reg (mode : Z) (inv : list Z) : cnode := NReg (Build_creg 0 0 0 0 0 256 [] (LImm 4) mode inv).
Definition wit_wa : system := Build_system [wit_reg WA []] 1.
Definition wit_raw : system := Build_system [wit_reg WT [1]; wit_reg WT [0]] 2.
Definition wit_image : list Z := [255; 255; 255; 255; 255; 255; 255; 255].
Definition after_fix_wa : ver := {| fix_wa := true; fix_raw := false; fix_own := false |}.

Lemma declared_wit_wa : Declared wit_wa.
Proof. apply declared_static_sound. vm_compute. reflexivity. Qed.
Lemma declared_wit_raw : Declared wit_raw.
Proof. apply declared_static_sound. vm_compute. reflexivity. Qed.

(* (a) WriteAround: read 0xFFFFFFFF, write 5, read -> the cached run still answers 0xFFFFFFFF *)
Lemma refuted_writearound :
  exists y base image vars rej h, Declared y /\
    outputs (run true pinned y base image vars rej h) <> outputs (run false pinned y base image vars rej h).
Proof.
  exists wit_wa, 256, wit_image, [], [], [OpValue 0; OpSet 0 [5]; OpValue 0].
  split; [exact declared_wit_wa|]. vm_compute. intros H. discriminate H.
Qed.

(* (b) IRegister::write of A leaves B (which declares A) cached *)
Lemma refuted_rawwrite :
  exists y base image vars rej h, Declared y /\
    outputs (run true after_fix_wa y base image vars rej h) <> outputs (run false after_fix_wa y base image vars rej h).
Proof.
  exists wit_raw, 256, wit_image, [], [], [OpValue 1; OpRawWrite 0 [1; 0; 0; 0]; OpValue 1].
  split; [exact declared_wit_raw|]. vm_compute. intros H. discriminate H.
Qed.

Lemma refuted_rawwrite_pinned :
  exists y base image vars rej h, Declared y /\
    outputs (run true pinned y base image vars rej h) <> outputs (run false pinned y base image vars rej h) /\
    (forall n r, node_at y n = Some (NReg r) -> g_mode r = WT).
Proof.
  exists wit_raw, 256, wit_image, [], [], [OpValue 1; OpRawWrite 0 [1; 0; 0; 0]; OpValue 1].
  split; [exact declared_wit_raw|]. split; [vm_compute; intros H; discriminate H|].
  intros n r Hn. apply node_at_nth in Hn as [_ Hn]. cbn [y_nodes wit_raw] in Hn.
  destruct (Z.to_nat n) as [|[|k]]; cbn [nth_error] in Hn.
  - injection Hn as <-. reflexivity.
  - injection Hn as <-. reflexivity.
  - destruct k; discriminate Hn.
Qed.

(* the own write hidden by an older cached read, on a state the pinned code reaches *)
Lemma own_write_refuted :
  exists y base image h n r buf s1,
    node_at y n = Some (NReg r) /\
    m_write_and_cache true pinned y n r buf (snd (run true pinned y base image [] [] h)) = (Ok tt, s1) /\
    fst (m_cached_bytes true n r s1) <> Ok buf.
Proof.
  exists wit_wa, 256, wit_image, [OpValue 0], 0, (Build_creg 0 0 0 0 0 256 [] (LImm 4) WA []), [5; 0; 0; 0].
  eexists. split; [reflexivity|]. split; [vm_compute; reflexivity|].
  vm_compute. intros H. discriminate H.
Qed.

(* ---- the hypotheses are satisfiable ------------------------------------------------------------------------ *)

(* a selector-addressed bank (4-byte slots at 256 + 4 * variable) and a static register aliasing its
   second slot, declared as each other's invalidators *)
Definition ex_bank : system :=
  Build_system [NVar 0;
                NReg (Build_creg 0 0 0 0 0 256 [(0, 4)] (LImm 4) WT [2]);
                NReg (Build_creg 0 0 0 0 0 260 [] (LImm 2) WA [1])] 3.

Lemma bank_address vs a :
  address (Build_creg 0 0 0 0 0 256 [(0, 4)] (LImm 4) WT [2]) vs = Ok a -> a = 256 + nth 0 vs 0 * 4.
Proof.
  unfold address. cbn [g_index g_base addr_index Z.to_nat]. unfold chk_s.
  destruct (in_s 64 (nth 0 vs 0 * 4)); cbn [bind]; [|discriminate].
  destruct (in_s 64 (256 + nth 0 vs 0 * 4)); cbn [bind]; [|discriminate].
  intros H. apply Ok_inj in H. auto.
Qed.

Lemma declared_ex_bank : Declared ex_bank.
Proof.
  intros n m rn rm vs vs' a a' Hn Hm Hne Ha Ha' [O1 O2].
  apply node_at_nth in Hn as [Hn0 Hn]. apply node_at_nth in Hm as [Hm0 Hm].
  cbn [y_nodes ex_bank] in Hn, Hm.
  destruct (Z.to_nat n) as [|[|[|kn]]] eqn:En; cbn [nth_error] in Hn; try discriminate Hn;
    try (destruct kn; discriminate Hn);
  (destruct (Z.to_nat m) as [|[|[|km]]] eqn:Em; cbn [nth_error] in Hm; try discriminate Hm;
    try (destruct km; discriminate Hm));
  injection Hn as <-; injection Hm as <-; try (exfalso; apply Hne; lia).
  - cbn [g_inval]. left. lia.
  - cbn [g_inval]. left. lia.
Qed.

Lemma hypotheses_satisfiable :
  Declared ex_bank /\
  let h := [OpValue 1; OpValue 1; OpValue 2; OpSet 0 [1]; OpValue 1; OpSet 2 [7]; OpValue 1; OpValue 2; OpValue 2] in
  let lc := access_log (run true cur ex_bank 256 wit_image [0] [] h) in
  let lu := access_log (run false cur ex_bank 256 wit_image [0] [] h) in
  (length lc < length lu)%nat.
Proof. split; [exact declared_ex_bank|]. vm_compute. lia. Qed.

(* ---- registers whose length is a variable (<pLength>) ------------------------------------------------------ *)

Lemma peek_zlen d a l bs : 0 <= l -> peek d a l = Some bs -> zlen bs = l.
Proof.
  intros Hl. unfold peek. destruct (in_image d a l) eqn:E; [|discriminate].
  apply in_image_bounds in E as [E0 E1]. intros H. injection H as <-.
  pose proof (zlen_nonneg (d_mem d)) as Hm.
  apply zlen_take. rewrite zlen_drop by lia. lia.
Qed.

Lemma entry_length y s n a l bs : Inv y s -> In ((n, a, l), bs) (c_cache s) -> zlen bs = l.
Proof.
  intros H Hin. unfold Inv in H. rewrite Forall_forall in H.
  destruct (H _ Hin) as [[r [_ [_ [H0 _]]]] Hp]. unfold key_addr, key_len in *. cbn [fst snd] in *.
  now apply (peek_zlen (c_dev s) a l).
Qed.

(* the bytes with_cache_or_read hands to the decoder - served from the cache or read from the device - have
   exactly the register's current length *)
Lemma cached_bytes_length y s n r bs s' :
  Inv y s -> m_cached_bytes true n r s = (Ok bs, s') -> zlen bs = len_of r (c_vars s).
Proof.
  intros HI. unfold m_cached_bytes. rewrite bind_length.
  remember (len_of r (c_vars s)) as l eqn:El.
  destruct (l <? 0) eqn:Hlen; [discriminate|]. apply Z.ltb_ge in Hlen.
  rewrite bind_address. destruct (address r (c_vars s)) as [a|e|]; try discriminate.
  destruct (c_find (n, a, l) (c_cache s)) as [cb|] eqn:Hf.
  - intros H. injection H as <- _. apply c_find_In in Hf. now apply (entry_length y s n a l cb).
  - unfold m_read_and_cache. rewrite cdev_read_peek.
    destruct (peek (c_dev s) a l) as [pb|] eqn:Hp; [|discriminate].
    intros H. injection H as <- _. now apply (peek_zlen (c_dev s) a l).
Qed.

Lemma key_includes_length y s : Inv y s ->
  (forall n a l bs, In ((n, a, l), bs) (c_cache s) -> zlen bs = l) /\
  (forall n r a bs, address r (c_vars s) = Ok a ->
     c_find (n, a, len_of r (c_vars s)) (c_cache s) = Some bs -> zlen bs = len_of r (c_vars s)) /\
  (forall n r bs s', m_cached_bytes true n r s = (Ok bs, s') -> zlen bs = len_of r (c_vars s)).
Proof.
  intros HI. split; [|split].
  - intros n a l bs. now apply (entry_length y s n a l bs).
  - intros n r a bs _ Hf. apply c_find_In in Hf. now apply (entry_length y s n a _ bs).
  - intros n r bs s'. now apply (cached_bytes_length y s n r bs s').
Qed.

(* a StringReg whose length is the variable node 0 and a static 2-byte IntReg on its bytes 2..3; each names the
   other, neither names itself *)
Definition ex_plen : system :=
  Build_system [NVar 0;
                NReg (Build_creg 2 0 0 0 0 256 [] (LVar 0) WT [2]);
                NReg (Build_creg 0 0 0 0 0 258 [] (LImm 2) WA [1])] 3.

Definition ex_plen_image : list Z := [65; 66; 67; 68; 69; 70; 71; 72].

Lemma declared_ex_plen : Declared ex_plen.
Proof.
  intros n m rn rm vs vs' a a' Hn Hm Hne Ha Ha' [O1 O2].
  apply node_at_nth in Hn as [Hn0 Hn]. apply node_at_nth in Hm as [Hm0 Hm].
  cbn [y_nodes ex_plen] in Hn, Hm.
  destruct (Z.to_nat n) as [|[|[|kn]]] eqn:En; cbn [nth_error] in Hn; try discriminate Hn;
    try (destruct kn; discriminate Hn);
  (destruct (Z.to_nat m) as [|[|[|km]]] eqn:Em; cbn [nth_error] in Hm; try discriminate Hm;
    try (destruct km; discriminate Hm));
  injection Hn as <-; injection Hm as <-; try (exfalso; apply Hne; lia).
  - cbn [g_inval In]. left. lia.
  - cbn [g_inval In]. left. lia.
Qed.

(* the length shrinks (8 -> 4) and grows again along the history, the register is written while short; both runs
   print the same, the cached one with fewer device accesses *)
Definition ex_plen_history : list cop :=
  [OpValue 1; OpValue 1; OpSet 0 [4]; OpValue 1; OpValue 1; OpSet 0 [8]; OpValue 1;
   OpSet 1 [97; 98; 99]; OpValue 1; OpSet 0 [2]; OpValue 1; OpSet 0 [8]; OpValue 1; OpValue 2; OpValue 2;
   OpSet 2 [12593]; OpValue 1; OpSet 0 [4]; OpValue 1].

Lemma plength_example :
  Declared ex_plen /\
  let xc := run true cur ex_plen 256 ex_plen_image [8] [] ex_plen_history in
  let xu := run false cur ex_plen 256 ex_plen_image [8] [] ex_plen_history in
  outputs xc = outputs xu /\ final_mem xc = final_mem xu /\
  (* the values of node 1 along the history: ABCDEFGH (twice), ABCD (twice), ABCDEFGH, then written "abc",
     "ab", "abc" (node 2 reads 99 = "c\0"), and after node 2 wrote "11": "ab11", "ab11" *)
  outputs xc = [10; 0; 8; 65; 66; 67; 68; 69; 70; 71; 72;  10; 0; 8; 65; 66; 67; 68; 69; 70; 71; 72;  1; 0;
                6; 0; 4; 65; 66; 67; 68;  6; 0; 4; 65; 66; 67; 68;  1; 0;
                10; 0; 8; 65; 66; 67; 68; 69; 70; 71; 72;  1; 0;  5; 0; 3; 97; 98; 99;  1; 0;
                4; 0; 2; 97; 98;  1; 0;  5; 0; 3; 97; 98; 99;  2; 0; 99;  2; 0; 99;  1; 0;
                6; 0; 4; 97; 98; 49; 49;  1; 0;  6; 0; 4; 97; 98; 49; 49] /\
  (length (access_log xc) < length (access_log xu))%nat.
Proof. split; [exact declared_ex_plen|]. vm_compute. repeat split; lia. Qed.

(* THE THIRD DEFECT (repaired by fix_own).  Before it, write_and_cache of a WriteThrough register stored
   (nid, a, len) and kept the blocks the register had cached under its other keys.  With no pInvalidator at all -
   the description owes none, no node alters ANOTHER register's bytes - a register whose length is a variable was
   not transparent: read it 8 bytes long, make it 4 bytes long, write it, make it 8 bytes long, read: the cached
   run answered the block read before the write.  Neither of the two earlier fixes helps. *)
Definition ex_plen_noself : system :=
  Build_system [NVar 0; NReg (Build_creg 0 0 0 0 0 256 [] (LVar 0) WT [])] 2.

Definition ownkeys_history : list cop := [OpValue 1; OpSet 0 [4]; OpSet 1 [16909060]; OpSet 0 [8]; OpValue 1].

Definition before_fix_own : ver := {| fix_wa := true; fix_raw := true; fix_own := false |}.

Lemma declared_ex_plen_noself : Declared ex_plen_noself.
Proof.
  intros n m rn rm vs vs' a a' Hn Hm Hne.
  apply node_at_nth in Hn as [Hn0 Hn]. apply node_at_nth in Hm as [Hm0 Hm].
  cbn [y_nodes ex_plen_noself] in Hn, Hm. exfalso. apply Hne.
  destruct (Z.to_nat n) as [|[|kn]] eqn:En; cbn [nth_error] in Hn; try discriminate Hn;
    try (destruct kn; discriminate Hn).
  destruct (Z.to_nat m) as [|[|km]] eqn:Em; cbn [nth_error] in Hm; try discriminate Hm;
    try (destruct km; discriminate Hm).
  lia.
Qed.

Lemma refuted_ownkeys :
  exists y base image vars rej h, DeclaredOthers y /\
    outputs (run true pinned y base image vars rej h) <> outputs (run false pinned y base image vars rej h) /\
    outputs (run true before_fix_own y base image vars rej h) <> outputs (run false before_fix_own y base image vars rej h).
Proof.
  exists ex_plen_noself, 256, wit_image, [8], [], ownkeys_history.
  split; [exact declared_ex_plen_noself|]. split; vm_compute; intros H; discriminate H.
Qed.

(* the same for a self-overlapping selector bank (4-byte slots 2 bytes apart): read slot 1, write slot 0, read slot 1 *)
Definition ex_bank_noself : system :=
  Build_system [NVar 0; NReg (Build_creg 0 0 0 0 0 256 [(0, 2)] (LImm 4) WT [])] 2.

Lemma declared_ex_bank_noself : Declared ex_bank_noself.
Proof.
  intros n m rn rm vs vs' a a' Hn Hm Hne.
  apply node_at_nth in Hn as [Hn0 Hn]. apply node_at_nth in Hm as [Hm0 Hm].
  cbn [y_nodes ex_bank_noself] in Hn, Hm. exfalso. apply Hne.
  destruct (Z.to_nat n) as [|[|kn]] eqn:En; cbn [nth_error] in Hn; try discriminate Hn;
    try (destruct kn; discriminate Hn).
  destruct (Z.to_nat m) as [|[|km]] eqn:Em; cbn [nth_error] in Hm; try discriminate Hm;
    try (destruct km; discriminate Hm).
  lia.
Qed.

Definition bank_history : list cop := [OpSet 0 [1]; OpValue 1; OpSet 0 [0]; OpSet 1 [16909060]; OpSet 0 [1]; OpValue 1].

Lemma refuted_ownkeys_bank :
  exists y base image vars rej h, DeclaredOthers y /\
    (forall n r, node_at y n = Some (NReg r) -> exists l, g_len r = LImm l) /\
    outputs (run true before_fix_own y base image vars rej h) <> outputs (run false before_fix_own y base image vars rej h).
Proof.
  exists ex_bank_noself, 256, wit_image, [0], [], bank_history.
  split; [exact declared_ex_bank_noself|]. split.
  - intros n r Hn. apply node_at_nth in Hn as [_ Hn]. cbn [y_nodes ex_bank_noself] in Hn.
    destruct (Z.to_nat n) as [|[|k]]; cbn [nth_error] in Hn; try discriminate Hn.
    + injection Hn as <-. now exists 4.
    + destruct k; discriminate Hn.
  - vm_compute. intros H. discriminate H.
Qed.

(* ... and the repaired code on the same two systems and histories: equal outputs (an instance of [transparent]),
   the last read returns the written low half / the overlapped bytes *)
Lemma ownkeys_repaired :
  Declared ex_plen_noself /\ Declared ex_bank_noself /\
  outputs (run true cur ex_plen_noself 256 wit_image [8] [] ownkeys_history) =
    outputs (run false cur ex_plen_noself 256 wit_image [8] [] ownkeys_history) /\
  outputs (run true cur ex_plen_noself 256 wit_image [8] [] ownkeys_history) =
    [2; 0; -1; 1; 0; 1; 0; 1; 0; 2; 0; -4278058236] /\
  outputs (run true cur ex_bank_noself 256 wit_image [0] [] bank_history) =
    outputs (run false cur ex_bank_noself 256 wit_image [0] [] bank_history) /\
  outputs (run true cur ex_bank_noself 256 wit_image [0] [] bank_history) =
    [1; 0; 2; 0; 4294967295; 1; 0; 1; 0; 1; 0; 2; 0; 4294902018].
Proof.
  split; [exact declared_ex_plen_noself|]. split; [exact declared_ex_bank_noself|]. vm_compute. repeat split.
Qed.

(* the hypothesis of the previous round (own keys need a self-invalidator) implies the present one *)
Lemma declared_weakened y : DeclaredOwnKeys y -> Declared y.
Proof.
  intros HD n m rn rm vs vs' a a' Hn Hm Hne Ha Ha' Hov.
  destruct (HD n m rn rm vs vs' a a' Hn Hm Ha Ha' Hov) as [[E _]|H]; [contradiction|exact H].
Qed.
