(* The translation of the hand-written part of impl/src/memory.rs (gen/MemProtSrc.v, regenerated from the source on every
   run by tools/translate_memprot.py with the debug-build semantics of lib/RustInt.v and the Vec / slice / iterator
   operations of model/MemProtOps.v) IS the hand-written model model/Memory.v: AccessRight (the ar_ functions), MemoryProtection
   (the prot_ functions) and the provided methods of trait Register (region_of / reg_read / the default arm of reg_write).
   Every statement is for ALL inputs: every right, every usize address / memory size, item lists of any length (by
   induction), every protection vector (also ill-formed ones: the same Panic on both sides), every register record.

   The proofs unfold a translated function, evaluate its binds ([ev]) and discharge the overflow / shift-amount side
   conditions from the usize ranges; they do not depend on the names of the locals or on how a literal is written. *)
From Cam Require Import P_C01.
From Cam Require Import Outcome Bytes RustInt MemProtOps MemProtSrc MacroBitField Memory P_C20.

Definition usize (x : Z) : Prop := 0 <= x < 2 ^ 64.

(* ---- how the translated types are read as the model's ------------------------------------------------------------- *)
Definition ar_of (r : access_right) : aright := match r with AR_NA => NA | AR_RO => RO | AR_WO => WO | AR_RW => RW end.
Definition ar_to (r : aright) : access_right := match r with NA => AR_NA | RO => AR_RO | WO => AR_WO | RW => AR_RW end.
Definition prot_of (p : memory_protection) : prot := {| p_inner := mp_inner p; p_size := mp_memory_size p |}.
Definition mp_of (p : prot) : memory_protection := {| mp_inner := p_inner p; mp_memory_size := p_size p |}.

Lemma ar_of_to r : ar_of (ar_to r) = r.
Proof. destruct r; reflexivity. Qed.
Lemma ar_to_of r : ar_to (ar_of r) = r.
Proof. destruct r; reflexivity. Qed.
Lemma mp_of_prot_of p : mp_of (prot_of p) = p.
Proof. destruct p; reflexivity. Qed.
Lemma prot_of_mp_of p : prot_of (mp_of p) = p.
Proof. destruct p; reflexivity. Qed.

Lemma error_classes_src :
  E_AddressNotReadable = ME_NOT_READABLE /\ E_AddressNotWritable = ME_NOT_WRITABLE /\
  E_InvalidAddress = ME_INVALID_ADDRESS /\ E_InvalidRegisterData = ME_INVALID_DATA.
Proof. repeat split. Qed.

(* ---- the checked operations inside their ranges ---------------------------------------------------------------------- *)
Lemma r_sub_ok w a b : b <= a -> r_sub w a b = Ok (a - b).
Proof. intros H. unfold r_sub. destruct (a - b <? 0) eqn:E; [lia|reflexivity]. Qed.
Lemma r_add_ok w a b : a + b < 2 ^ w -> r_add w a b = Ok (a + b).
Proof. intros H. unfold r_add. destruct (a + b <? 2 ^ w) eqn:E; [reflexivity|lia]. Qed.
Lemma r_add_ovf w a b : 2 ^ w <= a + b -> r_add w a b = Panic.
Proof. intros H. unfold r_add. destruct (a + b <? 2 ^ w) eqn:E; [lia|reflexivity]. Qed.
Lemma r_mul_ok w a b : a * b < 2 ^ w -> r_mul w a b = Ok (a * b).
Proof. intros H. unfold r_mul. destruct (a * b <? 2 ^ w) eqn:E; [reflexivity|lia]. Qed.
Lemma r_div_ok a b : b <> 0 -> r_div a b = Ok (a / b).
Proof. intros H. unfold r_div. destruct (b =? 0) eqn:E; [lia|reflexivity]. Qed.
Lemma r_rem_ok a b : b <> 0 -> r_rem a b = Ok (a mod b).
Proof. intros H. unfold r_rem. destruct (b =? 0) eqn:E; [lia|reflexivity]. Qed.
Lemma r_shl_ok w a s : 0 <= s < w -> r_shl w a s = Ok ((a * 2 ^ s) mod 2 ^ w).
Proof. intros H. unfold r_shl, shift_ok. destruct (0 <=? s) eqn:A; destruct (s <? w) eqn:B; try lia; reflexivity. Qed.
Lemma r_shr_ok w a s : 0 <= s < w -> r_shr w a s = Ok (Z.shiftr a s).
Proof. intros H. unfold r_shr, shift_ok. destruct (0 <=? s) eqn:A; destruct (s <? w) eqn:B; try lia; reflexivity. Qed.

Lemma bind_ret {A} (x : outcome A) : (let? y := x in Ok y) = x.
Proof. destruct x; reflexivity. Qed.
Lemma bind_unit (x : outcome unit) : (let? _ := x in Ok tt) = x.
Proof. destruct x as [[]| |]; reflexivity. Qed.

(* side conditions: linear arithmetic with / and mod over the usize hypotheses *)
Ltac sc := unfold usize in *; ev_pows; dlia.

(* all comparisons of the goal, whichever way the source writes them *)
Ltac cmp_cases := repeat match goal with
  | |- context [?a >=? ?b] => rewrite (Z.geb_leb a b)
  | |- context [?a >? ?b] => rewrite (Z.gtb_ltb a b)
  | |- context [?a <=? ?b] => let C := fresh "C" in destruct (a <=? b) eqn:C; [apply Z.leb_le in C | apply Z.leb_gt in C]
  | |- context [?a <? ?b] => let C := fresh "C" in destruct (a <? b) eqn:C; [apply Z.ltb_lt in C | apply Z.ltb_ge in C]
  end.

(* equal up to linear arithmetic inside the arguments (`1 + x` for `x + 1`, `2 * k` for `k * 2`, 2 ^ 8 - 1 for 255) *)
Ltac lit_pows := repeat match goal with
  | |- context [2 ^ Zpos ?p] => let v := eval vm_compute in (2 ^ Zpos p) in progress change (2 ^ Zpos p) with v
  end.
Ltac zeq := lit_pows; repeat match goal with
  | |- ?x = ?x => reflexivity
  | |- @eq Z _ _ => dlia
  | |- _ => progress f_equal
  end.

(* ---- Vec operations against the model's nth_z / set_nth ------------------------------------------------------------- *)
Lemma v_set_nth_eq l n x : v_set_nth l n x = set_nth l n x.
Proof. revert n; induction l as [|y l IH]; intros [|n]; cbn; f_equal; auto. Qed.

Lemma nth_z_v_in l i : nth_z l i = if v_in l i then nth_error l (Z.to_nat i) else None.
Proof.
  unfold nth_z, v_in. destruct (i <? 0) eqn:A; destruct (0 <=? i) eqn:B; try lia; cbn [andb]; [reflexivity|].
  destruct (i <? zlen l) eqn:C; [reflexivity|]. apply nth_error_None. unfold zlen in C. lia.
Qed.

Lemma v_index_nth_z l i : v_index l i = match nth_z l i with Some x => Ok x | None => Panic end.
Proof. unfold v_index. rewrite nth_z_v_in. destruct (v_in l i); [|reflexivity]. destruct (nth_error l (Z.to_nat i)); reflexivity. Qed.

Lemma v_in_nth_z l i : v_in l i = match nth_z l i with Some _ => true | None => false end.
Proof.
  rewrite nth_z_v_in. destruct (v_in l i) eqn:V; [|reflexivity].
  destruct (nth_error l (Z.to_nat i)) eqn:N; [reflexivity|]. apply nth_error_None in N.
  unfold v_in, zlen in V. lia.
Qed.

Lemma v_index_mut_nth_z l i : v_index_mut l i = match nth_z l i with Some _ => Ok i | None => Panic end.
Proof. unfold v_index_mut. rewrite v_in_nth_z. destruct (nth_z l i); reflexivity. Qed.

Lemma v_store_nth_z l i x b : nth_z l i = Some b -> v_store l i x = Ok (set_nth l (Z.to_nat i) x).
Proof. intros H. unfold v_store. rewrite v_in_nth_z, H, v_set_nth_eq. reflexivity. Qed.

Lemma v_load_nth_z l i b : nth_z l i = Some b -> v_load l i = Ok b.
Proof. intros H. unfold v_load. rewrite v_index_nth_z, H. reflexivity. Qed.

Lemma v_range_zrange s e : v_range s e = zrange s e.
Proof. reflexivity. Qed.

Lemma o_fold_ext {A B} (f g : A -> B -> outcome A) l : (forall a x, In x l -> f a x = g a x) ->
  forall acc, o_fold f l acc = o_fold g l acc.
Proof.
  induction l as [|x l IH]; intros H acc; cbn [o_fold]; [reflexivity|].
  rewrite (H acc x (or_introl eq_refl)). destruct (g acc x); cbn [bind]; try reflexivity.
  apply IH. intros a0 y Hy. apply H. now right.
Qed.

(* ================================================================================ AccessRight ============ *)
Lemma as_num_src r : src_ar_as_num r = Ok (ar_num (ar_of r)).
Proof. destruct r; reflexivity. Qed.
Lemma is_readable_src r : src_ar_is_readable r = Ok (ar_readable (ar_of r)).
Proof. destruct r; reflexivity. Qed.
Lemma is_writable_src r : src_ar_is_writable r = Ok (ar_writable (ar_of r)).
Proof. destruct r; reflexivity. Qed.
Lemma meet_src a b : src_ar_meet a b = Ok (ar_to (ar_meet (ar_of a) (ar_of b))).
Proof. destruct a, b; reflexivity. Qed.
Lemma eqb_src a b : access_right_eqb a b = ar_eqb (ar_of a) (ar_of b).
Proof. destruct a, b; reflexivity. Qed.

Ltac eqb_cases := repeat match goal with
  | |- context [?a =? ?b] => let E := fresh "E" in destruct (a =? b) eqn:E; [apply Z.eqb_eq in E | apply Z.eqb_neq in E]
  end.

(* every u8 - in fact every integer: outside the table the code panics (debug_assert! / unreachable!), as the model *)
Lemma from_num_src n : src_ar_from_num n = omap ar_to (ar_from_num n).
Proof.
  unfold src_ar_from_num, ar_from_num. cbn [bind]. rewrite r_shr_ok by lia. cbn [bind].
  eqb_cases; cbn [bind omap ar_to]; try reflexivity; exfalso; lia.
Qed.

Lemma access_right_from_source :
  (forall r, src_ar_as_num r = Ok (ar_num (ar_of r))) /\
  (forall r, src_ar_is_readable r = Ok (ar_readable (ar_of r))) /\
  (forall r, src_ar_is_writable r = Ok (ar_writable (ar_of r))) /\
  (forall a b, src_ar_meet a b = Ok (ar_to (ar_meet (ar_of a) (ar_of b)))) /\
  (forall n, src_ar_from_num n = omap ar_to (ar_from_num n)) /\
  (forall a b, access_right_eqb a b = ar_eqb (ar_of a) (ar_of b)) /\
  (forall r, ar_of (ar_to r) = r) /\ (forall r, ar_to (ar_of r) = r).
Proof.
  split; [exact as_num_src|]. split; [exact is_readable_src|]. split; [exact is_writable_src|].
  split; [exact meet_src|]. split; [exact from_num_src|]. split; [exact eqb_src|]. split; [exact ar_of_to|exact ar_to_of].
Qed.

(* ================================================================================ MemoryProtection ======= *)
Ltac ev := repeat first
  [ progress cbn [bind]
  | rewrite r_div_ok by (clear; lia)
  | rewrite r_rem_ok by (clear; lia)
  | rewrite r_sub_ok by sc
  | rewrite r_add_ok by sc
  | rewrite r_mul_ok by sc
  | rewrite r_shl_ok by sc
  | rewrite r_shr_ok by sc
  | rewrite as_num_src
  | rewrite from_num_src ].

Lemma new_src size : usize size -> src_mp_new size = Ok (mp_of (prot_new size)).
Proof.
  intros U. unfold src_mp_new, mp_of, prot_new, v_repeat. cbn [bind p_inner p_size].
  destruct (size =? 0) eqn:E; [reflexivity|]. apply Z.eqb_neq in E. ev. zeq.
Qed.

Lemma set_access_right_src p a r : usize a ->
  src_mp_set_access_right p a r = omap mp_of (prot_set (prot_of p) a (ar_of r)).
Proof.
  intros U. unfold src_mp_set_access_right, prot_set. cbn [p_inner p_size prot_of]. ev.
  rewrite v_index_mut_nth_z. destruct (nth_z (mp_inner p) (a / 4)) as [b|] eqn:N; [|reflexivity]. ev.
  rewrite (v_load_nth_z _ _ _ N). ev.
  match goal with |- context [v_store ?l ?i ?x] => rewrite (v_store_nth_z l i x b N) end. ev.
  unfold omap, mp_of, mp_with_inner, cell_set, r_not, wrapu. cbn [p_inner p_size]. zeq.
Qed.

Lemma access_right_src p a : usize a ->
  src_mp_access_right p a = omap ar_to (prot_get (prot_of p) a).
Proof.
  intros U. unfold src_mp_access_right, prot_get. cbn [p_inner p_size prot_of]. ev.
  rewrite v_index_nth_z. destruct (nth_z (mp_inner p) (a / 4)) as [b|] eqn:N; [|reflexivity]. ev.
  unfold cell_get. zeq.
Qed.

Lemma fold_meet_src p l : Forall usize l -> forall acc,
  o_fold (fun acc i => let? r := src_mp_access_right p i in src_ar_meet acc r) l acc =
  omap ar_to (prot_fold (prot_of p) l (ar_of acc)).
Proof.
  induction 1 as [|i l Hi Hl IH]; intros acc; cbn [o_fold prot_fold omap]; [now rewrite ar_to_of|].
  rewrite (access_right_src p i Hi). destruct (prot_get (prot_of p) i) as [r| |]; cbn [omap bind]; try reflexivity.
  rewrite meet_src. cbn [bind]. rewrite IH, !ar_of_to. reflexivity.
Qed.

Lemma access_right_with_range_src p l : Forall usize l ->
  src_mp_access_right_with_range p l = omap ar_to (prot_fold (prot_of p) l RW).
Proof. intros H. unfold src_mp_access_right_with_range. cbn [bind]. exact (fold_meet_src p l H AR_RW). Qed.

Lemma fold_set_src r l : Forall usize l -> forall p,
  o_fold (fun s i => src_mp_set_access_right s i r) l p = omap mp_of (prot_set_list (prot_of p) l (ar_of r)).
Proof.
  induction 1 as [|i l Hi Hl IH]; intros p; cbn [o_fold prot_set_list omap]; [now rewrite mp_of_prot_of|].
  rewrite (set_access_right_src p i r Hi). destruct (prot_set (prot_of p) i (ar_of r)) as [q| |]; cbn [omap bind]; try reflexivity.
  rewrite IH, prot_of_mp_of. reflexivity.
Qed.

Lemma set_access_right_with_range_src p l r : Forall usize l ->
  src_mp_set_access_right_with_range p l r = omap mp_of (prot_set_list (prot_of p) l (ar_of r)).
Proof.
  intros H. unfold src_mp_set_access_right_with_range. cbn [bind]. rewrite bind_ret.
  rewrite <- (fold_set_src r l H p). apply o_fold_ext. intros s i _. apply bind_ret.
Qed.

Lemma verify_address_src p a : src_mp_verify_address p a = prot_verify (prot_of p) a.
Proof. unfold src_mp_verify_address, prot_verify. cbn [bind p_size prot_of]. cmp_cases; try reflexivity; exfalso; lia. Qed.

(* the loop over any item list: the first address at or above the size ends it with InvalidAddress *)
Fixpoint verify_list (p : prot) (l : list Z) : outcome unit :=
  match l with
  | [] => Ok tt
  | i :: r => let? _ := prot_verify p i in verify_list p r
  end.

Lemma fold_verify_src p l : o_fold (fun (_ : unit) i => src_mp_verify_address p i) l tt = verify_list (prot_of p) l.
Proof.
  induction l as [|i l IH]; cbn [o_fold verify_list]; [reflexivity|]. rewrite verify_address_src.
  destruct (prot_verify (prot_of p) i) as [[]| |]; cbn [bind]; [exact IH|reflexivity|reflexivity].
Qed.

Lemma verify_address_with_range_list_src p l : src_mp_verify_address_with_range p l = verify_list (prot_of p) l.
Proof.
  unfold src_mp_verify_address_with_range. cbn [bind]. rewrite bind_unit. rewrite <- fold_verify_src.
  apply o_fold_ext. intros [] i _. apply bind_unit.
Qed.

Lemma verify_list_spec p l :
  verify_list p l = if existsb (fun i => p_size p <=? i) l then Err ME_INVALID_ADDRESS else Ok tt.
Proof.
  induction l as [|i l IH]; cbn [verify_list existsb]; [reflexivity|]. unfold prot_verify.
  destruct (p_size p <=? i); cbn [bind orb]; [reflexivity|exact IH].
Qed.

Lemma zrange_cons s e : s < e -> zrange s e = s :: zrange (s + 1) e.
Proof.
  intros H. unfold zrange. replace (Z.to_nat (e - s)) with (S (Z.to_nat (e - (s + 1)))) by lia.
  cbn [seq map]. f_equal; [lia|]. rewrite <- seq_shift, map_map. apply map_ext. intros k. lia.
Qed.

(* the model's fuelled loop over a Range is the loop over the range's items - for every start, end and size *)
Lemma verify_loop_list p e : forall n i, n = Z.to_nat (e - i) ->
  verify_loop (S (Z.to_nat (p_size p - i))) p i e = verify_list p (zrange i e).
Proof.
  induction n as [|n IH]; intros i Hn.
  - rewrite zrange_empty by lia. cbn [verify_loop verify_list]. destruct (i <? e) eqn:A; [lia|reflexivity].
  - rewrite zrange_cons by lia. cbn [verify_loop verify_list]. destruct (i <? e) eqn:A; [|lia].
    unfold prot_verify. destruct (p_size p <=? i) eqn:B; cbn [bind]; [reflexivity|].
    replace (Z.to_nat (p_size p - i)) with (S (Z.to_nat (p_size p - (i + 1)))) by lia. apply IH. lia.
Qed.

Lemma verify_address_with_range_src p s e :
  src_mp_verify_address_with_range p (zrange s e) = prot_verify_range (prot_of p) s e.
Proof.
  rewrite verify_address_with_range_list_src. unfold prot_verify_range. symmetry. now apply verify_loop_list with (n := Z.to_nat (e - s)).
Qed.

Lemma zrange_usize s e : 0 <= s -> e <= 2 ^ 64 -> Forall usize (zrange s e).
Proof. intros H1 H2. apply Forall_forall. intros i Hi. apply in_zrange in Hi. unfold usize. lia. Qed.

Lemma protection_from_source :
  (forall size, usize size -> src_mp_new size = Ok (mp_of (prot_new size))) /\
  (forall p a r, usize a -> src_mp_set_access_right p a r = omap mp_of (prot_set (prot_of p) a (ar_of r))) /\
  (forall p a, usize a -> src_mp_access_right p a = omap ar_to (prot_get (prot_of p) a)) /\
  (forall p l, Forall usize l -> src_mp_access_right_with_range p l = omap ar_to (prot_fold (prot_of p) l RW)) /\
  (forall p l r, Forall usize l ->
     src_mp_set_access_right_with_range p l r = omap mp_of (prot_set_list (prot_of p) l (ar_of r))) /\
  (forall p s e, 0 <= s -> e <= 2 ^ 64 ->
     src_mp_access_right_with_range p (v_range s e) = omap ar_to (prot_range_right (prot_of p) s e) /\
     forall r, src_mp_set_access_right_with_range p (v_range s e) r = omap mp_of (prot_set_range (prot_of p) s e (ar_of r))) /\
  (forall p, mp_of (prot_of p) = p) /\ (forall p, prot_of (mp_of p) = p).
Proof.
  split; [exact new_src|]. split; [exact set_access_right_src|]. split; [exact access_right_src|].
  split; [exact access_right_with_range_src|]. split; [exact set_access_right_with_range_src|].
  split; [|split; [exact mp_of_prot_of|exact prot_of_mp_of]].
  intros p s e H1 H2. rewrite v_range_zrange. pose proof (zrange_usize s e H1 H2) as F. split.
  - exact (access_right_with_range_src p _ F).
  - intros r. exact (set_access_right_with_range_src p _ r F).
Qed.

Lemma verify_from_source :
  (forall p a, src_mp_verify_address p a = prot_verify (prot_of p) a) /\
  (forall p l, src_mp_verify_address_with_range p l =
     if existsb (fun i => mp_memory_size p <=? i) l then Err ME_INVALID_ADDRESS else Ok tt) /\
  (forall p s e, src_mp_verify_address_with_range p (v_range s e) = prot_verify_range (prot_of p) s e) /\
  (forall p, src_mp_verify_address_with_range p [] = Ok tt).
Proof.
  split; [exact verify_address_src|]. split; [|split].
  - intros p l. rewrite verify_address_with_range_list_src. exact (verify_list_spec (prot_of p) l).
  - intros p s e. rewrite v_range_zrange. apply verify_address_with_range_src.
  - intros p. reflexivity.
Qed.

(* ================================================================================ trait Register ========= *)
Definition reg_of (r : reg) : register value :=
  {| rg_ADDRESS := r_addr r; rg_LENGTH := r_len r; rg_ACCESS_RIGHT := ar_to (r_acc r);
     rg_parse := reg_parse r; rg_serialize := reg_serialize r |}.

Lemma range_src {Ty} (R : register Ty) :
  src_reg_range R = if rg_ADDRESS R + rg_LENGTH R <? 2 ^ 64 then Ok (rg_ADDRESS R, rg_ADDRESS R + rg_LENGTH R) else Panic.
Proof. unfold src_reg_range, r_add. cbn [bind]. destruct (rg_ADDRESS R + rg_LENGTH R <? 2 ^ 64); reflexivity. Qed.

(* for EVERY implementor (any constants, any parse / serialize) and every memory slice *)
Lemma read_src {Ty} (R : register Ty) raw : 0 <= rg_ADDRESS R -> 0 <= rg_LENGTH R -> zlen raw < 2 ^ 64 ->
  src_reg_read R raw =
  if zlen raw <? rg_ADDRESS R + rg_LENGTH R then Panic else rg_parse R (take (rg_LENGTH R) (drop (rg_ADDRESS R) raw)).
Proof.
  intros HA HL HR. unfold src_reg_read. cbn [bind]. rewrite range_src.
  destruct (zlen raw <? rg_ADDRESS R + rg_LENGTH R) eqn:A.
  - destruct (rg_ADDRESS R + rg_LENGTH R <? 2 ^ 64) eqn:B; [|reflexivity]. cbn [bind fst snd]. unfold v_slice, r_slice.
    destruct (rg_ADDRESS R <=? rg_ADDRESS R + rg_LENGTH R) eqn:C; [|lia]. cbn [andb].
    destruct (rg_ADDRESS R + rg_LENGTH R <=? zlen raw) eqn:D; [lia|reflexivity].
  - destruct (rg_ADDRESS R + rg_LENGTH R <? 2 ^ 64) eqn:B; [|lia]. cbn [bind fst snd]. unfold v_slice, r_slice.
    destruct (rg_ADDRESS R <=? rg_ADDRESS R + rg_LENGTH R) eqn:C; [|lia]. cbn [andb].
    destruct (rg_ADDRESS R + rg_LENGTH R <=? zlen raw) eqn:D; [|lia]. cbn [bind].
    replace (rg_ADDRESS R + rg_LENGTH R - rg_ADDRESS R) with (rg_LENGTH R) by lia. reflexivity.
Qed.

Lemma write_src {Ty} (R : register Ty) v raw : 0 <= rg_ADDRESS R -> 0 <= rg_LENGTH R -> zlen raw < 2 ^ 64 ->
  src_reg_write R v raw =
  let? data := rg_serialize R v in
  if zlen raw <? rg_ADDRESS R + rg_LENGTH R then Panic
  else if zlen data =? rg_LENGTH R then Ok (splice_at (rg_ADDRESS R) data raw) else Panic.
Proof.
  intros HA HL HR. unfold src_reg_write. cbn [bind]. destruct (rg_serialize R v) as [data| |]; cbn [bind]; try reflexivity.
  rewrite range_src.
  destruct (zlen raw <? rg_ADDRESS R + rg_LENGTH R) eqn:A.
  - destruct (rg_ADDRESS R + rg_LENGTH R <? 2 ^ 64) eqn:B; [|reflexivity]. cbn [bind fst snd]. unfold v_copy_from_slice, r_slice.
    destruct (rg_ADDRESS R <=? rg_ADDRESS R + rg_LENGTH R) eqn:C; [|lia]. cbn [andb].
    destruct (rg_ADDRESS R + rg_LENGTH R <=? zlen raw) eqn:D; [lia|reflexivity].
  - destruct (rg_ADDRESS R + rg_LENGTH R <? 2 ^ 64) eqn:B; [|lia]. cbn [bind fst snd]. unfold v_copy_from_slice, r_slice.
    destruct (rg_ADDRESS R <=? rg_ADDRESS R + rg_LENGTH R) eqn:C; [|lia]. cbn [andb].
    destruct (rg_ADDRESS R + rg_LENGTH R <=? zlen raw) eqn:D; [|lia]. cbn [bind].
    replace (rg_ADDRESS R + rg_LENGTH R - rg_ADDRESS R) with (rg_LENGTH R) by lia.
    destruct (zlen data =? rg_LENGTH R) eqn:F; cbn [bind]; [|reflexivity].
    apply Z.eqb_eq in F. unfold splice_at. rewrite F. reflexivity.
Qed.

Definition is_bitfield (t : regty) : bool := match t with TBitField _ _ _ _ => true | _ => false end.

Lemma register_rw_from_source :
  (forall Ty (R : register Ty),
     src_reg_range R = if rg_ADDRESS R + rg_LENGTH R <? 2 ^ 64 then Ok (rg_ADDRESS R, rg_ADDRESS R + rg_LENGTH R) else Panic) /\
  (forall Ty (R : register Ty) raw, 0 <= rg_ADDRESS R -> 0 <= rg_LENGTH R -> zlen raw < 2 ^ 64 ->
     src_reg_read R raw =
     if zlen raw <? rg_ADDRESS R + rg_LENGTH R then Panic else rg_parse R (take (rg_LENGTH R) (drop (rg_ADDRESS R) raw))) /\
  (forall Ty (R : register Ty) v raw, 0 <= rg_ADDRESS R -> 0 <= rg_LENGTH R -> zlen raw < 2 ^ 64 ->
     src_reg_write R v raw =
     let? data := rg_serialize R v in
     if zlen raw <? rg_ADDRESS R + rg_LENGTH R then Panic
     else if zlen data =? rg_LENGTH R then Ok (splice_at (rg_ADDRESS R) data raw) else Panic) /\
  (forall r raw, 0 <= r_addr r -> 0 <= r_len r -> zlen raw < 2 ^ 64 -> src_reg_read (reg_of r) raw = reg_read r raw) /\
  (forall r v raw, 0 <= r_addr r -> 0 <= r_len r -> zlen raw < 2 ^ 64 -> is_bitfield (r_ty r) = false ->
     src_reg_write (reg_of r) v raw = reg_write r v raw).
Proof.
  split; [intros; apply range_src|]. split; [intros; now apply read_src|]. split; [intros; now apply write_src|]. split.
  - intros r raw HA HL HR. rewrite (read_src (reg_of r) raw HA HL HR). cbn [reg_of rg_ADDRESS rg_LENGTH rg_parse].
    unfold reg_read, region_of. destruct (zlen raw <? r_addr r + r_len r); reflexivity.
  - intros r v raw HA HL HR NB. rewrite (write_src (reg_of r) v raw HA HL HR). cbn [reg_of rg_ADDRESS rg_LENGTH rg_serialize].
    assert (D : reg_write r v raw =
                let? data := reg_serialize r v in let? region := region_of r raw in
                if zlen data =? r_len r then Ok (splice_at (r_addr r) data raw) else Panic).
    { unfold reg_write. destruct (r_ty r); try discriminate NB; destruct v; reflexivity. }
    rewrite D. destruct (reg_serialize r v) as [data| |]; cbn [bind]; try reflexivity.
    unfold region_of. destruct (zlen raw <? r_addr r + r_len r); reflexivity.
Qed.

(* ================================================================================ the property's clauses, on the translated code ===== *)
Definition mp_wf (p : memory_protection) : Prop := prot_wf (prot_of p).

(* set-then-get on the packed vector: every address below the size and every right; the neighbours (same byte or
   not) keep their rights, the vector keeps its length and stays a vector of bytes *)
Lemma protection_cells_of_source p a r : mp_wf p -> mp_memory_size p <= 2 ^ 64 -> 0 <= a < mp_memory_size p ->
  exists p', src_mp_set_access_right p a r = Ok p' /\ mp_wf p' /\ mp_memory_size p' = mp_memory_size p /\
    src_mp_access_right p' a = Ok r /\
    forall a', 0 <= a' < mp_memory_size p -> a' <> a -> src_mp_access_right p' a' = src_mp_access_right p a'.
Proof.
  intros W S Ha. assert (U : usize a) by (unfold usize; lia).
  destruct (protection_cells (prot_of p) a (ar_of r) W Ha) as (q & Q1 & Q2 & Q3 & Q4 & Q5).
  exists (mp_of q). rewrite (set_access_right_src p a r U), Q1. split; [reflexivity|].
  unfold mp_wf. rewrite prot_of_mp_of. split; [exact Q2|]. split; [exact Q3|]. split.
  - rewrite (access_right_src _ a U), prot_of_mp_of, Q4. cbn [omap]. now rewrite ar_to_of.
  - intros a' Ha' Hne. assert (U' : usize a') by (unfold usize; cbn [prot_of p_size] in *; lia).
    rewrite !(access_right_src _ a' U'), prot_of_mp_of. now rewrite (Q5 a' Ha' Hne).
Qed.

Lemma protection_new_of_source size : usize size ->
  exists p, src_mp_new size = Ok p /\ mp_wf p /\ mp_memory_size p = size /\
    zlen (mp_inner p) = (if size =? 0 then 0 else (size - 1) / 4 + 1) /\
    forall a, 0 <= a < size -> src_mp_access_right p a = Ok AR_NA.
Proof.
  intros U. exists (mp_of (prot_new size)). split; [exact (new_src size U)|].
  assert (W : prot_wf (prot_new size)) by (apply prot_new_wf; unfold usize in U; lia).
  unfold mp_wf. rewrite prot_of_mp_of. split; [exact W|]. split; [reflexivity|]. split.
  - destruct W as (_ & W & _). exact W.
  - intros a Ha. assert (U' : usize a) by (unfold usize in *; lia).
    rewrite (access_right_src _ a U'), prot_of_mp_of, (prot_new_cells size a Ha). reflexivity.
Qed.

Lemma range_right_of_source p l : Forall usize l ->
  forall r, src_mp_access_right_with_range p l = Ok r ->
  ar_readable (ar_of r) = forallb (fun i => match src_mp_access_right p i with Ok a => ar_readable (ar_of a) | _ => false end) l /\
  ar_writable (ar_of r) = forallb (fun i => match src_mp_access_right p i with Ok a => ar_writable (ar_of a) | _ => false end) l.
Proof.
  intros F r H. rewrite (access_right_with_range_src p l F) in H.
  destruct (prot_fold (prot_of p) l RW) as [m| |] eqn:E; try discriminate H. cbn [omap] in H. apply Ok_inj in H. subst r.
  rewrite ar_of_to. destruct (prot_fold_spec (prot_of p) l RW m E) as [A B]. cbn [andb] in A, B.
  assert (X : forall f, forallb (fun i => match prot_get (prot_of p) i with Ok a => f a | _ => false end) l =
                        forallb (fun i => match src_mp_access_right p i with Ok a => f (ar_of a) | _ => false end) l).
  { intros f. clear -F. induction F as [|i l Hi Hl IH]; cbn [forallb]; [reflexivity|]. rewrite IH. f_equal.
    rewrite (access_right_src p i Hi). destruct (prot_get (prot_of p) i); cbn [omap]; try reflexivity. now rewrite ar_of_to. }
  rewrite <- (X ar_readable), <- (X ar_writable). split; assumption.
Qed.

Lemma verify_of_source p :
  (forall a, src_mp_verify_address p a = Ok tt <-> a < mp_memory_size p) /\
  (forall a, src_mp_verify_address p a = Err E_InvalidAddress <-> mp_memory_size p <= a) /\
  (forall l, src_mp_verify_address_with_range p l = Ok tt <-> Forall (fun i => i < mp_memory_size p) l) /\
  (forall l, src_mp_verify_address_with_range p l <> Panic).
Proof.
  split; [|split; [|split]].
  - intros a. rewrite verify_address_src. unfold prot_verify. cbn [prot_of p_size].
    destruct (mp_memory_size p <=? a) eqn:E; split; intros H; try discriminate H; try reflexivity; lia.
  - intros a. rewrite verify_address_src. unfold prot_verify. cbn [prot_of p_size].
    destruct (mp_memory_size p <=? a) eqn:E; split; intros H; try discriminate H; try reflexivity; lia.
  - intros l. rewrite verify_address_with_range_list_src, verify_list_spec. cbn [prot_of p_size].
    induction l as [|i l IH]; cbn [existsb]; [split; [constructor|reflexivity]|].
    destruct (mp_memory_size p <=? i) eqn:E; cbn [orb].
    + split; [discriminate|]. intros H. inversion H; subst. lia.
    + rewrite IH. split; [intros H; constructor; [lia|exact H]|intros H; now inversion H].
  - intros l. rewrite verify_address_with_range_list_src, verify_list_spec.
    destruct (existsb _ l); discriminate.
Qed.

(* non-vacuity: the source's own unit test, and one panic / one error case, run on the translated code *)
Lemma source_examples :
  (let? p0 := src_mp_new 5 in let? p1 := src_mp_set_access_right p0 0 AR_RO in let? p2 := src_mp_set_access_right p1 1 AR_RW in
   let? p3 := src_mp_set_access_right p2 2 AR_NA in let? p4 := src_mp_set_access_right p3 3 AR_WO in
   let? p5 := src_mp_set_access_right p4 4 AR_RO in
   let? a := mapM (src_mp_access_right p5) [0; 1; 2; 3; 4] in
   let? b := mapM (fun '(s, e) => src_mp_access_right_with_range p5 (v_range s e)) [(0, 2); (2, 4); (3, 5)] in
   Ok (mp_inner p5, a, b)) = Ok ([141; 1], [AR_RO; AR_RW; AR_NA; AR_WO; AR_RO], [AR_RO; AR_NA; AR_NA]) /\
  (let? p := src_mp_new 5 in src_mp_verify_address_with_range p (v_range 2 5)) = Ok tt /\
  (let? p := src_mp_new 5 in src_mp_verify_address_with_range p (v_range 2 6)) = Err E_InvalidAddress /\
  (let? p := src_mp_new 5 in src_mp_access_right p 8) = Panic /\
  src_ar_from_num 4 = Panic /\ src_ar_meet AR_RO AR_WO = Ok AR_NA /\ src_ar_meet AR_RW AR_WO = Ok AR_WO /\
  (let? p := src_mp_new 9 in Ok (zlen (mp_inner p))) = Ok 3.
Proof. vm_compute. repeat split. Qed.
