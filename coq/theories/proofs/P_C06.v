(* Proofs for C06: the control handle against a conforming device. *)
From Cam Require Import Outcome Bytes Chunks Cmd Ack CmdLayout GenCPLayout Control P_C09 P_C08.

(* ---- device memory ranges --------------------------------------------------------------- *)

(* [a, a+n) lies in the segment (b, m), and no earlier segment touches [a, a+n] *)
Definition away (a n : Z) (s : Z * list Z) : Prop := fst s + zlen (snd s) < a \/ a + n < fst s.

Definition range_in (segs : list (Z * list Z)) (a n : Z) (pre : list (Z * list Z)) (b : Z) (m : list Z)
           (post : list (Z * list Z)) : Prop :=
  segs = pre ++ (b, m) :: post /\ b <= a /\ 0 <= n /\ a + n <= b + zlen m /\ Forall (away a n) pre.

Lemma zlen_take' {A} n (l : list A) : 0 <= n <= zlen l -> zlen (take n l) = n.
Proof. apply zlen_take. Qed.

Lemma seg_read_in segs a n pre b m post a1 n1 :
  range_in segs a n pre b m post -> a <= a1 -> 0 <= n1 -> a1 + n1 <= a + n ->
  seg_read segs a1 n1 = Some (take n1 (drop (a1 - b) m)).
Proof.
  intros [E [Hb [Hn [He F]]]] H1 H2 H3. subst segs.
  induction pre as [|[b0 m0] pre IH]; cbn [app seg_read].
  - destruct (b <=? a1) eqn:A; [|lia]. destruct (a1 - b + n1 <=? zlen m) eqn:B; [|lia]. reflexivity.
  - inversion F as [|x l Hx Hl]; subst. unfold away in Hx. cbn [fst snd] in Hx.
    destruct (b0 <=? a1) eqn:A; cbn [andb]; [|apply IH; exact Hl].
    destruct (a1 - b0 + n1 <=? zlen m0) eqn:B; [|apply IH; exact Hl]. lia.
Qed.

Lemma zlen_set_at o (m new : list Z) : 0 <= o -> o + zlen new <= zlen m -> zlen (set_at o m new) = zlen m.
Proof.
  intros H0 H1. pose proof (zlen_nonneg new). unfold set_at.
  rewrite !zlen_app, zlen_take, zlen_drop by lia. lia.
Qed.

Lemma seg_write_in segs a n pre b m post a1 data :
  range_in segs a n pre b m post -> a <= a1 -> a1 + zlen data <= a + n ->
  seg_write segs a1 data = Some (pre ++ (b, set_at (a1 - b) m data) :: post).
Proof.
  intros [E [Hb [Hn [He F]]]] H1 H3. subst segs. pose proof (zlen_nonneg data) as Hd.
  induction pre as [|[b0 m0] pre IH]; cbn [app seg_write].
  - destruct (b <=? a1) eqn:A; [|lia]. destruct (a1 - b + zlen data <=? zlen m) eqn:B; [|lia]. reflexivity.
  - inversion F as [|x l Hx Hl]; subst. unfold away in Hx. cbn [fst snd] in Hx.
    destruct (b0 <=? a1) eqn:A; cbn [andb].
    + destruct (a1 - b0 + zlen data <=? zlen m0) eqn:B; [lia|]. rewrite (IH Hl). reflexivity.
    + rewrite (IH Hl). reflexivity.
Qed.

Lemma range_in_after_write a n pre b m post a1 data :
  range_in (pre ++ (b, m) :: post) a n pre b m post -> a <= a1 -> a1 + zlen data <= a + n ->
  range_in (pre ++ (b, set_at (a1 - b) m data) :: post) a n pre b (set_at (a1 - b) m data) post.
Proof.
  intros [E [Hb [Hn [He F]]]] H1 H3. pose proof (zlen_nonneg data).
  split; [reflexivity|]. rewrite zlen_set_at by lia. auto.
Qed.

(* list facts about set_at: what a sequence of chunk writes adds up to *)
Lemma take_take_le {A} i j (l : list A) : 0 <= i <= j -> take i (take j l) = take i l.
Proof.
  intros H. unfold take. rewrite firstn_firstn. f_equal. lia.
Qed.

Lemma set_at_app o (m d1 d2 : list Z) : 0 <= o -> o + zlen d1 + zlen d2 <= zlen m ->
  set_at (o + zlen d1) (set_at o m d1) d2 = set_at o m (d1 ++ d2).
Proof.
  intros H0 H1. pose proof (zlen_nonneg d1) as Z1. pose proof (zlen_nonneg d2) as Z2.
  unfold set_at.
  assert (T : take (o + zlen d1) (take o m ++ d1 ++ drop (o + zlen d1) m) = take o m ++ d1).
  { rewrite app_assoc. replace (o + zlen d1) with (zlen (take o m ++ d1)) at 1
      by (rewrite zlen_app, zlen_take by lia; lia).
    apply take_app_exact. }
  assert (D : drop (o + zlen d1 + zlen d2) (take o m ++ d1 ++ drop (o + zlen d1) m) =
              drop (o + zlen (d1 ++ d2)) m).
  { rewrite app_assoc.
    replace (o + zlen d1 + zlen d2) with (zlen (take o m ++ d1) + zlen d2)
      by (rewrite zlen_app, zlen_take by lia; lia).
    unfold drop at 1. rewrite Z2Nat.inj_add by (try apply zlen_nonneg; lia).
    rewrite <- skipn_skipn_add. fold (drop (zlen (take o m ++ d1)) ((take o m ++ d1) ++ drop (o + zlen d1) m)).
    rewrite drop_app_exact. fold (drop (zlen d2) (drop (o + zlen d1) m)).
    rewrite drop_drop by lia. rewrite zlen_app. f_equal. lia. }
  rewrite T, D. rewrite <- !app_assoc. reflexivity.
Qed.

Lemma set_at_nil o (m : list Z) : set_at o m [] = m.
Proof. unfold set_at. cbn [app]. rewrite zlen_nil, Z.add_0_r. apply take_drop. Qed.

(* ---- conforming worlds --------------------------------------------------------------------- *)

Definition ms_ok (ms : Z) : Prop := 0 <= ms < 65536.

Definition plan_ok (R : Z) (p : txplan) : Prop :=
  tp_send_err p = None /\
  exists mss, zlen mss < R /\ Forall ms_ok mss /\ tp_replies p = map RPending mss ++ [RConform []].

Definition conf (R : Z) (w : world) : Prop := Forall (plan_ok R) (w_plans w).

Lemma default_plan_ok R : 1 <= R -> plan_ok R default_plan.
Proof.
  intros H. split; [reflexivity|]. exists []. rewrite zlen_nil. split; [lia|]. split; [constructor|reflexivity].
Qed.

Lemma zlen_enc_ack code id rid scd : zlen (enc_ack code id rid scd) = 12 + zlen scd.
Proof. unfold enc_ack. rewrite !zlen_app, !zlen_le_bytes. lia. Qed.

Lemma zlen_enc_write_scd n : zlen (enc_write_scd n) = 4.
Proof. unfold enc_write_scd. rewrite zlen_app, !zlen_le_bytes. lia. Qed.

Definition w_after_recv (w : world) (rest : list reply) (n : Z) : world :=
  {| w_segs := w_segs w; w_plans := w_plans w; w_replies := rest; w_cur_ack := w_cur_ack w;
     w_cur_rid := w_cur_rid w; w_log := WRecv n :: w_log w; w_open_err := w_open_err w;
     w_writes := w_writes w |}.

Lemma on_recv_conform w rest buflen : w_replies w = RConform [] :: rest -> zlen (w_cur_ack w) <= buflen ->
  on_recv w buflen = (Ok (w_cur_ack w), w_after_recv w rest (zlen (w_cur_ack w))).
Proof.
  intros H Hb. unfold on_recv. rewrite H. cbn [fold_left w_cur_ack].
  destruct (buflen <? zlen (w_cur_ack w)) eqn:B; [lia|]. reflexivity.
Qed.

Lemma on_recv_pending w ms rest buflen : w_replies w = RPending ms :: rest -> 16 <= buflen ->
  on_recv w buflen = (Ok (enc_ack 0 2053 (w_cur_rid w) (enc_write_scd ms)), w_after_recv w rest 16).
Proof.
  intros H Hb. unfold on_recv. rewrite H. cbn [w_cur_rid].
  rewrite zlen_enc_ack, zlen_enc_write_scd. destruct (buflen <? 12 + 4) eqn:B; [lia|]. reflexivity.
Qed.

Definition recv_ev (bound : Z) (e : wev) : Prop := exists n, e = WRecv n /\ n <= bound.

Lemma recv_conforming mss : forall fuel retry ek c w a,
  Forall ms_ok mss -> zlen mss < retry -> (length mss < fuel)%nat ->
  w_replies w = map RPending mss ++ [RConform []] ->
  w_cur_rid w = c_next c -> 0 <= c_next c < 65536 ->
  16 <= c_buflen c -> zlen (w_cur_ack w) <= c_buflen c ->
  parse_ack (w_cur_ack w) = Ok a -> a_status a = 0 -> a_request_id a = c_next c -> a_kind a = ek -> ek <> 4 ->
  exists w', recv_loop fuel retry ek (c, w) = (Ok a, (c_set_next c (wrapu 16 (c_next c + 1)), w')) /\
     w_segs w' = w_segs w /\ w_plans w' = w_plans w /\ w_writes w' = w_writes w /\
     w_open_err w' = w_open_err w /\
     exists evs, w_log w' = evs ++ w_log w /\ Forall (recv_ev (Z.max 16 (zlen (w_cur_ack w)))) evs.
Proof.
  induction mss as [|ms mss IH]; intros fuel retry ek c w a Fms Hr Hf Hrep Hrid Hn Hb16 Hbl Hp Hst Hreq Hk Hk4.
  - destruct fuel as [|f]; [cbn [length] in Hf; lia|].
    cbn [recv_loop]. rewrite zlen_nil in Hr. destruct (retry <=? 0) eqn:E; [lia|].
    cbn [map app] in Hrep. rewrite (on_recv_conform w [] _ Hrep Hbl). rewrite Hp.
    rewrite Hst, Hreq. cbn [Z.eqb negb]. rewrite Z.eqb_refl. cbn [negb].
    rewrite Hk. destruct (ek =? 4) eqn:E4; [apply Z.eqb_eq in E4; contradiction|].
    rewrite Z.eqb_refl. cbn [negb].
    eexists. split; [reflexivity|]. unfold w_after_recv. cbn [w_segs w_plans w_writes w_open_err w_log].
    repeat (split; [reflexivity|]). exists [WRecv (zlen (w_cur_ack w))]. split; [reflexivity|].
    constructor; [|constructor]. exists (zlen (w_cur_ack w)). split; [reflexivity|lia].
  - destruct fuel as [|f]; [cbn [length] in Hf; lia|].
    apply Forall_cons_iff in Fms as [Hms Fms'].
    rewrite zlen_cons in Hr. pose proof (zlen_nonneg mss).
    cbn [recv_loop]. destruct (retry <=? 0) eqn:E; [lia|].
    cbn [map app] in Hrep. rewrite (on_recv_pending w ms _ _ Hrep Hb16). rewrite Hrid.
    rewrite (accepts_conforming 0 0 2053 4 (c_next c) (enc_write_scd ms))
      by (try reflexivity; try lia; rewrite zlen_enc_write_scd; lia).
    cbn [a_status a_request_id a_kind]. cbn [Z.eqb negb]. rewrite Z.eqb_refl. cbn [negb].
    change (4 =? 4) with true. cbv iota.
    unfold view_pending. rewrite (view_write_conforming _ ms) by (try exact Hms; reflexivity).
    set (w1 := w_after_recv w (map RPending mss ++ [RConform []]) 16).
    destruct (IH f (retry - 1) ek c w1 a Fms') as [w' [Hrun [S1 [S2 [S3 [S4 [evs [L1 L2]]]]]]]];
      try assumption; try (subst w1; unfold w_after_recv; cbn [w_replies w_cur_rid w_cur_ack]; auto; fail).
    { lia. } { cbn [length] in Hf. lia. }
    exists w'. split; [exact Hrun|]. subst w1. unfold w_after_recv in *.
    cbn [w_segs w_plans w_writes w_open_err w_log w_cur_ack] in *.
    repeat (split; [assumption|]). exists (evs ++ [WRecv 16]). split.
    + rewrite L1, <- app_assoc. reflexivity.
    + apply Forall_app. split; [exact L2|]. constructor; [|constructor]. exists 16. split; [reflexivity|lia].
Qed.

(* ---- one transaction against the conforming device ----------------------------------------- *)

Lemma conform_read w a n id d : cmd_ok (CRead a n) -> 0 <= id < 2 ^ 16 ->
  seg_read (w_segs w) a n = Some d ->
  conform w (serialize_vec (CRead a n) id) = (enc_ack 0 2049 id d, w_set_rid w id).
Proof.
  intros Hc Hid Hr. unfold conform. rewrite (layout _ _ Hc Hid). cbn [abs_cmd]. rewrite Hr. reflexivity.
Qed.

Lemma conform_write w wm id segs' : cmd_ok (CWrite wm) -> 0 <= id < 2 ^ 16 ->
  seg_write (w_segs w) (wm_addr wm) (wm_data wm) = Some segs' ->
  conform w (serialize_vec (CWrite wm) id) =
  (enc_ack 0 2051 id (enc_write_scd (zlen (wm_data wm))),
   {| w_segs := segs'; w_plans := w_plans w; w_replies := w_replies w; w_cur_ack := w_cur_ack w;
      w_cur_rid := id; w_log := w_log w; w_open_err := w_open_err w;
      w_writes := (wm_addr wm, wm_data wm) :: w_writes w |}).
Proof.
  intros Hc Hid Hr. unfold conform. rewrite (layout _ _ Hc Hid). cbn [abs_cmd]. rewrite Hr. reflexivity.
Qed.

Definition next_plan (w : world) : txplan * list txplan :=
  match w_plans w with [] => (default_plan, []) | p :: r => (p, r) end.

Lemma next_plan_ok R w : 1 <= R -> conf R w ->
  plan_ok R (fst (next_plan w)) /\ Forall (plan_ok R) (snd (next_plan w)).
Proof.
  intros HR Hc. unfold next_plan, conf in *. destruct (w_plans w) as [|p r]; cbn [fst snd].
  - split; [apply default_plan_ok; exact HR|constructor].
  - apply Forall_cons_iff in Hc. exact Hc.
Qed.

(* what changes in the handle over one successful transaction *)
Definition ctl_step (c c' : ctl) : Prop :=
  c_opened c' = c_opened c /\ c_next c' = wrapu 16 (c_next c + 1) /\ c_retry c' = c_retry c /\
  c_max_cmd c' = c_max_cmd c /\ c_max_ack c' = c_max_ack c /\ c_buflen c <= c_buflen c' /\
  c_abrm c' = c_abrm c /\ c_sbrm c' = c_sbrm c /\ c_sirm c' = c_sirm c.

Definition wire_tx (w w' : world) (cmdb : list Z) (bound : Z) : Prop :=
  exists evs, w_log w' = evs ++ WSend cmdb :: w_log w /\ Forall (recv_ev bound) evs.

Lemma send_read_ok c w a n d :
  cmd_ok (CRead a n) -> 24 <= c_max_cmd c -> 0 <= c_next c < 2 ^ 16 -> 1 <= c_retry c ->
  conf (c_retry c) w -> seg_read (w_segs w) a n = Some d -> zlen d = n ->
  exists c' w' ak,
    send_cmd (CRead a n) (c, w) = (Ok ak, (c', w')) /\ view_data ak = Ok d /\ ctl_step c c' /\
    w_segs w' = w_segs w /\ w_writes w' = w_writes w /\ w_open_err w' = w_open_err w /\
    conf (c_retry c) w' /\
    wire_tx w w' (serialize_vec (CRead a n) (c_next c)) (12 + Z.max n 4).
Proof.
  intros Hc Hmc Hid HR Hconf Hrd Hzd. pose proof Hc as [Ha Hn].
  unfold send_cmd. change (cmd_len (CRead a n)) with 24.
  change (maximum_ack_len (CRead a n)) with (12 + Z.max n 4). change (expected_ack_kind (CRead a n)) with 0.
  destruct (c_max_cmd c <? 24) eqn:E; [lia|].
  set (need := Z.max 24 (12 + Z.max n 4)).
  set (c1 := if c_buflen c <? need then c_set_buflen c need else c).
  assert (Hb1 : need <= c_buflen c1).
  { subst c1. destruct (c_buflen c <? need) eqn:B; [cbn [c_set_buflen c_buflen]; lia|lia]. }
  assert (Hn1 : c_next c1 = c_next c) by (subst c1; destruct (c_buflen c <? need); reflexivity).
  destruct (next_plan_ok _ _ HR Hconf) as [[Hse [mss [Hm1 [Hm2 Hm3]]]] Hrest].
  unfold on_send. fold (next_plan w). destruct (next_plan w) as [p rest]. cbn [fst snd] in *.
  rewrite Hse.
  rewrite (conform_read _ a n (c_next c) d Hc Hid) by (cbn [w_logev w_set_log w_segs]; exact Hrd).
  cbn [w_set_rid w_logev w_set_log w_segs w_plans w_replies w_cur_ack w_cur_rid w_log w_open_err w_writes].
  match goal with |- context [recv_loop ?f ?r ?k (c1, ?W)] => set (w1 := W) end.
  set (ak0 := {| a_code := 0; a_status := 0; a_kind := 0; a_scd_len := zlen d;
                 a_request_id := c_next c; a_raw_scd := d |}).
  assert (Hack : parse_ack (w_cur_ack w1) = Ok ak0).
  { subst w1 ak0. cbn [w_cur_ack]. apply accepts_conforming; try reflexivity; lia. }
  destruct (recv_conforming mss (S (Z.to_nat (c_retry c))) (c_retry c) 0 c1 w1 ak0 Hm2) as
      [w' [Hrun [S1 [S2 [S3 [S4 [evs [L1 L2]]]]]]]]; try exact Hack; try reflexivity.
  { lia. } { unfold zlen in Hm1. lia. }
  { subst w1. cbn [w_replies]. exact Hm3. }
  { subst w1. cbn [w_cur_rid]. rewrite Hn1. reflexivity. }
  { rewrite Hn1. exact Hid. } { subst need. lia. }
  { subst w1. cbn [w_cur_ack]. rewrite zlen_enc_ack. subst need. lia. }
  { cbn [a_request_id]. rewrite Hn1. reflexivity. } { discriminate. }
  eexists. exists w'. eexists. split; [exact Hrun|].
  split; [apply view_data_conforming; reflexivity|].
  split.
  { unfold ctl_step. subst c1. destruct (c_buflen c <? need) eqn:B;
      cbn [c_set_next c_set_buflen c_opened c_next c_retry c_max_cmd c_max_ack c_buflen c_abrm c_sbrm c_sirm];
      repeat split; try reflexivity; lia. }
  subst w1. cbn [w_segs w_plans w_writes w_open_err w_log w_cur_ack] in *.
  split; [exact S1|]. split; [exact S3|]. split; [exact S4|].
  split; [unfold conf; rewrite S2; exact Hrest|].
  exists evs. split; [exact L1|]. rewrite zlen_enc_ack in L2. rewrite Hzd in L2.
  eapply Forall_impl; [|exact L2]. intros e [k [E1 E2]]. exists k. split; [exact E1|lia].
Qed.

Lemma send_write_ok c w wm segs' :
  cmd_ok (CWrite wm) -> 20 + zlen (wm_data wm) <= c_max_cmd c -> 0 <= c_next c < 2 ^ 16 -> 1 <= c_retry c ->
  conf (c_retry c) w -> seg_write (w_segs w) (wm_addr wm) (wm_data wm) = Some segs' ->
  exists c' w' ak,
    send_cmd (CWrite wm) (c, w) = (Ok ak, (c', w')) /\ view_write ak = Ok (zlen (wm_data wm)) /\ ctl_step c c' /\
    w_segs w' = segs' /\ w_writes w' = (wm_addr wm, wm_data wm) :: w_writes w /\
    w_open_err w' = w_open_err w /\ conf (c_retry c) w' /\
    wire_tx w w' (serialize_vec (CWrite wm) (c_next c)) 16.
Proof.
  intros Hc Hmc Hid HR Hconf Hwr. pose proof Hc as [[Hw1 [Hw2 Hw3]] [Ha Hb]].
  pose proof (zlen_nonneg (wm_data wm)) as Hd0.
  unfold send_cmd. change (cmd_len (CWrite wm)) with (4 + 8 + wm_len wm).
  change (maximum_ack_len (CWrite wm)) with (12 + Z.max 4 4). change (expected_ack_kind (CWrite wm)) with 1.
  rewrite Hw2.
  destruct (c_max_cmd c <? 4 + 8 + (zlen (wm_data wm) + 8)) eqn:E; [lia|].
  set (need := Z.max (4 + 8 + (zlen (wm_data wm) + 8)) (12 + Z.max 4 4)).
  set (c1 := if c_buflen c <? need then c_set_buflen c need else c).
  assert (Hb1 : need <= c_buflen c1).
  { subst c1. destruct (c_buflen c <? need) eqn:B; [cbn [c_set_buflen c_buflen]; lia|lia]. }
  assert (Hn1 : c_next c1 = c_next c) by (subst c1; destruct (c_buflen c <? need); reflexivity).
  destruct (next_plan_ok _ _ HR Hconf) as [[Hse [mss [Hm1 [Hm2 Hm3]]]] Hrest].
  unfold on_send. fold (next_plan w). destruct (next_plan w) as [p rest]. cbn [fst snd] in *.
  rewrite Hse.
  rewrite (conform_write _ wm (c_next c) segs' Hc Hid) by (cbn [w_logev w_set_log w_segs]; exact Hwr).
  cbn [w_logev w_set_log w_segs w_plans w_replies w_cur_ack w_cur_rid w_log w_open_err w_writes].
  match goal with |- context [recv_loop ?f ?r ?k (c1, ?W)] => set (w1 := W) end.
  set (ak0 := {| a_code := 0; a_status := 0; a_kind := 1; a_scd_len := zlen (enc_write_scd (zlen (wm_data wm)));
                 a_request_id := c_next c; a_raw_scd := enc_write_scd (zlen (wm_data wm)) |}).
  assert (Hack : parse_ack (w_cur_ack w1) = Ok ak0).
  { subst w1 ak0. cbn [w_cur_ack]. apply accepts_conforming; try reflexivity; try lia;
      try (rewrite zlen_enc_write_scd; lia). }
  destruct (recv_conforming mss (S (Z.to_nat (c_retry c))) (c_retry c) 1 c1 w1 ak0 Hm2) as
      [w' [Hrun [S1 [S2 [S3 [S4 [evs [L1 L2]]]]]]]]; try exact Hack; try reflexivity.
  { lia. } { unfold zlen in Hm1. lia. }
  { subst w1. cbn [w_replies]. exact Hm3. }
  { subst w1. cbn [w_cur_rid]. rewrite Hn1. reflexivity. }
  { rewrite Hn1. exact Hid. } { subst need. lia. }
  { subst w1. cbn [w_cur_ack]. rewrite zlen_enc_ack, zlen_enc_write_scd. subst need. lia. }
  { subst ak0. cbn [a_request_id]. rewrite Hn1. reflexivity. } { discriminate. }
  eexists. exists w'. exists ak0. split; [exact Hrun|].
  split; [apply view_write_conforming; [lia|reflexivity]|].
  split.
  { unfold ctl_step. subst c1. destruct (c_buflen c <? need) eqn:B;
      cbn [c_set_next c_set_buflen c_opened c_next c_retry c_max_cmd c_max_ack c_buflen c_abrm c_sbrm c_sirm];
      repeat split; try reflexivity; lia. }
  subst w1. cbn [w_segs w_plans w_writes w_open_err w_log w_cur_ack] in *.
  split; [exact S1|]. split; [exact S3|]. split; [exact S4|].
  split; [unfold conf; rewrite S2; exact Hrest|].
  exists evs. split; [exact L1|]. rewrite zlen_enc_ack, zlen_enc_write_scd in L2.
  eapply Forall_impl; [|exact L2]. intros e [k [E1 E2]]. exists k. split; [exact E1|lia].
Qed.

(* ---- sequences of transactions on the wire ------------------------------------------------- *)

(* the events added by a sequence of completed transactions (newest first), starting with request id [id]:
   each command is sent with the next id (mod 2^16) and answered by acknowledges of at most [bound cm] bytes *)
Inductive wire_txs (bound : cmd -> Z) : Z -> list cmd -> list wev -> Prop :=
| wt_nil id : wire_txs bound id [] []
| wt_cons id cm cms evs recvs :
    Forall (recv_ev (bound cm)) recvs ->
    wire_txs bound (wrapu 16 (id + 1)) cms evs ->
    wire_txs bound id (cm :: cms) (evs ++ recvs ++ [WSend (serialize_vec cm id)]).

Definition ctl_steps (k : Z) (c c' : ctl) : Prop :=
  c_opened c' = c_opened c /\ c_next c' = wrapu 16 (c_next c + k) /\ c_retry c' = c_retry c /\
  c_max_cmd c' = c_max_cmd c /\ c_max_ack c' = c_max_ack c /\ c_buflen c <= c_buflen c' /\
  c_abrm c' = c_abrm c /\ c_sbrm c' = c_sbrm c /\ c_sirm c' = c_sirm c.

Lemma wrapu16_range z : 0 <= wrapu 16 z < 2 ^ 16.
Proof. unfold wrapu. apply Z.mod_pos_bound. lia. Qed.

Lemma wrapu16_add z k : wrapu 16 (wrapu 16 (z + 1) + k) = wrapu 16 (z + (1 + k)).
Proof. unfold wrapu. rewrite Zplus_mod_idemp_l. f_equal. lia. Qed.

Lemma ctl_steps_0 c : ctl_steps 0 c c.
Proof.
  unfold ctl_steps. rewrite Z.add_0_r. repeat split; try reflexivity; try lia.
  symmetry. unfold wrapu. apply Z.mod_small.
Abort.

Lemma ctl_steps_0 c : 0 <= c_next c < 2 ^ 16 -> ctl_steps 0 c c.
Proof.
  intros H. unfold ctl_steps. rewrite Z.add_0_r. repeat split; try reflexivity; try lia.
  symmetry. unfold wrapu. apply Z.mod_small. exact H.
Qed.

Lemma take_split {A} n r (l : list A) : 0 <= n <= r -> take r l = take n l ++ take (r - n) (drop n l).
Proof.
  intros H. unfold take, drop. replace (Z.to_nat r) with (Z.to_nat n + Z.to_nat (r - n))%nat by lia.
  rewrite <- (firstn_skipn (Z.to_nat n) l) at 1.
  rewrite firstn_app. rewrite firstn_length.
  destruct (Nat.le_gt_cases (Z.to_nat n) (length l)) as [L|L].
  - rewrite Nat.min_l by lia. replace (Z.to_nat n + Z.to_nat (r - n) - Z.to_nat n)%nat with (Z.to_nat (r - n)) by lia.
    f_equal. rewrite firstn_firstn. f_equal. lia.
  - rewrite Nat.min_r by lia. rewrite (skipn_all2 l) by lia. rewrite !firstn_nil, !app_nil_r.
    rewrite firstn_firstn. f_equal. lia.
Qed.

(* the commands ControlHandle::read issues: buf.chunks_mut(chunk) *)
Fixpoint read_cmds (fuel : nat) (addr remaining chunk : Z) : list cmd :=
  match fuel with
  | O => []
  | S f => if remaining <=? 0 then [] else
           let n := Z.min chunk remaining in
           CRead addr n :: read_cmds f (addr + n) (remaining - n) chunk
  end.

Definition read_bound (cm : cmd) : Z := match cm with CRead _ n => 12 + Z.max n 4 | _ => 16 end.

Lemma read_loop_ok A N pre b m post chunk R : forall fuel c w addr remaining acc,
  range_in (w_segs w) A N pre b m post -> A <= addr -> 0 <= remaining -> addr + remaining <= A + N ->
  addr + remaining <= 2 ^ 64 -> 0 <= addr ->
  1 <= chunk < 2 ^ 16 -> 24 <= c_max_cmd c -> 0 <= c_next c < 2 ^ 16 -> c_retry c = R -> 1 <= R ->
  conf R w -> (Z.to_nat remaining < fuel)%nat ->
  exists c' w',
    read_loop fuel addr remaining chunk acc (c, w) = (Ok (acc ++ take remaining (drop (addr - b) m)), (c', w')) /\
    w_segs w' = w_segs w /\ w_writes w' = w_writes w /\ w_open_err w' = w_open_err w /\ conf R w' /\
    ctl_steps (zlen (read_cmds fuel addr remaining chunk)) c c' /\
    exists evs, w_log w' = evs ++ w_log w /\
                wire_txs read_bound (c_next c) (read_cmds fuel addr remaining chunk) evs.
Proof.
  induction fuel as [|f IH]; intros c w addr remaining acc Hri HA Hrem Hend H64 Ha0 Hch Hmc Hid HR HR1 Hconf Hf; [lia|].
  cbn [read_loop read_cmds]. destruct (remaining <=? 0) eqn:E.
  - assert (remaining = 0) by lia. subst remaining. exists c, w. unfold ret.
    split; [unfold take; cbn [Z.to_nat firstn]; rewrite app_nil_r; reflexivity|].
    repeat (split; [reflexivity || assumption|]). split; [apply ctl_steps_0; exact Hid|].
    exists []. split; [reflexivity|constructor].
  - set (n := Z.min chunk remaining). assert (Hn : 1 <= n <= remaining /\ n <= chunk) by (subst n; lia).
    pose proof (seg_read_in _ _ _ _ _ _ _ addr n Hri HA ltac:(lia) ltac:(lia)) as Hrd.
    assert (Hzl : zlen (take n (drop (addr - b) m)) = n).
    { destruct Hri as [_ [Hb [_ [He _]]]]. rewrite zlen_take; [reflexivity|]. rewrite zlen_drop; lia. }
    destruct (send_read_ok c w addr n _ ltac:(cbn [cmd_ok]; lia) Hmc Hid ltac:(lia)
                           ltac:(rewrite HR; exact Hconf) Hrd Hzl)
      as [c1 [w1 [ak [Hs [Hv [Hstep [S1 [S2 [S3 [Hc1 Hw1]]]]]]]]]].
    unfold bindM at 1. rewrite Hs. unfold bindM at 1. unfold lift at 1. rewrite Hv.
    rewrite Hzl, Z.eqb_refl. cbn [negb].
    destruct Hstep as [T1 [T2 [T3 [T4 [T5 [T6 [T7 [T8 T9]]]]]]]].
    rewrite HR in Hc1.
    assert (Haddr : remaining - n = 0 \/ wrapu 64 (addr + n) = addr + n).
    { destruct (Z.eq_dec (remaining - n) 0); [left; assumption|right].
      unfold wrapu. apply Z.mod_small. lia. }
    assert (Hri1 : range_in (w_segs w1) A N pre b m post) by (rewrite S1; exact Hri).
    destruct Haddr as [Hz|Hw].
    + (* last chunk: the loop ends whatever the next address is *)
      rewrite Hz. destruct f as [|f']; [lia|].
      cbn [read_loop read_cmds]. change (0 <=? 0) with true. cbv iota. unfold ret.
      exists c1, w1. assert (Hnr : n = remaining) by lia.
      split. { rewrite Hnr. reflexivity. }
      rewrite S1, S2, S3. repeat (split; [reflexivity || assumption|]).
      split. { unfold ctl_steps. cbn [zlen length]. rewrite T1, T2, T3, T4, T5, T7, T8, T9.
               repeat split; try reflexivity; try lia. }
      destruct Hw1 as [evs [L1 L2]]. exists (evs ++ [WSend (serialize_vec (CRead addr n) (c_next c))]).
      split; [rewrite L1, <- app_assoc; reflexivity|].
      change (evs ++ [WSend (serialize_vec (CRead addr n) (c_next c))])
        with ([] ++ evs ++ [WSend (serialize_vec (CRead addr n) (c_next c))]).
      constructor; [exact L2|constructor].
    + rewrite Hw.
      destruct (IH c1 w1 (addr + n) (remaining - n) (acc ++ take n (drop (addr - b) m)) Hri1
                   ltac:(lia) ltac:(lia) ltac:(lia) ltac:(lia) ltac:(lia) Hch
                   ltac:(rewrite T4; exact Hmc) ltac:(rewrite T2; apply wrapu16_range)
                   ltac:(rewrite T3; exact HR) HR1 Hc1 ltac:(lia))
        as [c2 [w2 [Hrun [U1 [U2 [U3 [Hc2 [Hst2 [evs2 [M1 M2]]]]]]]]]].
      exists c2, w2. split.
      { rewrite Hrun. f_equal. f_equal. rewrite <- app_assoc. f_equal.
        destruct Hri as [_ [Hb [_ [He _]]]].
        replace (addr + n - b) with ((addr - b) + n) by lia.
        rewrite <- drop_drop by lia. symmetry. apply take_split. lia. }
      rewrite U1, U2, U3, S1, S2, S3. repeat (split; [reflexivity || assumption|]).
      destruct Hst2 as [V1 [V2 [V3 [V4 [V5 [V6 [V7 [V8 V9]]]]]]]].
      split.
      { unfold ctl_steps. rewrite zlen_cons. rewrite V1, V2, V3, V4, V5, V7, V8, V9, T1, T2, T3, T4, T5, T7, T8, T9.
        rewrite wrapu16_add. repeat split; try reflexivity; try lia. }
      destruct Hw1 as [evs [L1 L2]].
      exists (evs2 ++ evs ++ [WSend (serialize_vec (CRead addr n) (c_next c))]).
      split; [rewrite M1, L1, <- !app_assoc; reflexivity|].
      constructor; [exact L2|]. rewrite <- T2. exact M2.
Qed.

(* ---- ControlHandle::read against a conforming device ------------------------------------------- *)

Definition read_chunk (max_ack : Z) : Z := if max_ack - 12 <? 2 ^ 16 then max_ack - 12 else 65535.

Lemma ctl_read_exact c w a n pre b m post :
  c_opened c = true -> 12 < c_max_ack c < 2 ^ 32 -> 24 <= c_max_cmd c -> 0 <= c_next c < 2 ^ 16 ->
  1 <= c_retry c -> conf (c_retry c) w ->
  range_in (w_segs w) a n pre b m post -> 0 <= a -> a + n <= 2 ^ 64 ->
  exists c' w',
    ctl_read a n (c, w) = (Ok (take n (drop (a - b) m)), (c', w')) /\
    w_segs w' = w_segs w /\ w_writes w' = w_writes w /\ w_open_err w' = w_open_err w /\
    conf (c_retry c) w' /\
    ctl_steps (zlen (read_cmds (S (Z.to_nat n)) a n (read_chunk (c_max_ack c)))) c c' /\
    exists evs, w_log w' = evs ++ w_log w /\
                wire_txs read_bound (c_next c) (read_cmds (S (Z.to_nat n)) a n (read_chunk (c_max_ack c))) evs.
Proof.
  intros Ho Hma Hmc Hid HR Hconf Hri Ha H64. pose proof Hri as [_ [_ [Hn0 _]]].
  unfold ctl_read. unfold bindM at 1. unfold assert_open. cbn [fst]. rewrite Ho.
  unfold bindM at 1. unfold verify_range. destruct (a <? 0) eqn:EV0; [lia|]. destruct (2 ^ 64 <? a + n) eqn:EV; [lia|]. cbn [orb]. unfold ret at 1.
  unfold bindM at 1. unfold get_ctl. cbn [fst].
  unfold bindM at 1. unfold lift at 1. unfold read_chunks_init.
  destruct (c_max_ack c <=? ACK_HEADER_LENGTH) eqn:E; [unfold ACK_HEADER_LENGTH in E; lia|].
  unfold bindM at 1. unfold lift at 1. unfold maximum_read_length, chk_u, in_u, ACK_HEADER_LENGTH.
  destruct (0 <=? c_max_ack c - 12) eqn:E1; [|lia].
  destruct (c_max_ack c - 12 <? 2 ^ 64) eqn:E2; [|change (2 ^ 64) with 18446744073709551616 in E2; change (2 ^ 32) with 4294967296 in Hma; lia].
  cbn [andb bind]. fold (read_chunk (c_max_ack c)).
  assert (Hch : 1 <= read_chunk (c_max_ack c) < 2 ^ 16).
  { unfold read_chunk. destruct (c_max_ack c - 12 <? 2 ^ 16) eqn:E3; lia. }
  destruct (read_chunk (c_max_ack c) =? 0) eqn:E0; [lia|].
  destruct (read_loop_ok a n pre b m post (read_chunk (c_max_ack c)) (c_retry c) (S (Z.to_nat n)) c w a n []
              Hri ltac:(lia) Hn0 ltac:(lia) H64 Ha Hch Hmc Hid eq_refl HR Hconf ltac:(lia))
    as [c' [w' [Hrun Hrest]]].
  exists c', w'. rewrite Hrun. cbn [app]. split; [reflexivity|exact Hrest].
Qed.

(* ---- ControlHandle::write against a conforming device ------------------------------------------ *)

Definition mkw (a : Z) (d : list Z) : cmd :=
  CWrite {| wm_addr := a; wm_data := d; wm_data_len := zlen d; wm_len := zlen d + 8 |}.

Lemma mk_write_mkw a d : zlen d <= 65527 -> mk_write a d = Ok (mkw a d).
Proof.
  intros H. pose proof (zlen_nonneg d). unfold mk_write, mk_write_mem, into_scd_len.
  destruct (zlen d <? 2 ^ 16) eqn:E1; [|change (2 ^ 16) with 65536 in E1; lia].
  destruct (zlen d + 8 <? 2 ^ 16) eqn:E2; [|change (2 ^ 16) with 65536 in E2; lia].
  reflexivity.
Qed.

Lemma write_mem_new_ok a d : zlen d <= 65527 -> write_mem_new a d = Ok (a, d).
Proof.
  intros H. pose proof (zlen_nonneg d). unfold write_mem_new, into_scd_len.
  destruct (zlen d <? 2 ^ 16) eqn:E1; [|change (2 ^ 16) with 65536 in E1; lia].
  destruct (zlen d + 8 <? 2 ^ 16) eqn:E2; [|change (2 ^ 16) with 65536 in E2; lia].
  reflexivity.
Qed.

(* the commands one block of ControlHandle::write issues (WriteMemChunks) *)
Fixpoint write_cmds (fuel : nat) (addr : Z) (rest : list Z) (mx : Z) : list cmd :=
  match fuel with
  | O => []
  | S f => if zlen rest =? 0 then []
           else if mx <? zlen rest then mkw addr (take mx rest) :: write_cmds f (addr + mx) (drop mx rest) mx
           else [mkw addr rest]
  end.

Definition write_bound (_ : cmd) : Z := 16.

Lemma bytes_ok_take_drop i k (d : list Z) : bytes_ok d -> bytes_ok (take k (drop i d)).
Proof. intros H. apply bytes_ok_take, bytes_ok_drop, H. Qed.

Lemma write_loop_ok A N pre b post R data mx : forall fuel c w m addr idx,
  range_in (w_segs w) A N pre b m post ->
  0 <= idx <= zlen data -> zlen data <= 65527 -> bytes_ok data -> 1 <= mx -> 20 + mx <= c_max_cmd c ->
  A <= addr -> addr + (zlen data - idx) <= A + N -> addr + (zlen data - idx) <= 2 ^ 64 -> 0 <= addr ->
  0 <= c_next c < 2 ^ 16 -> c_retry c = R -> 1 <= R -> conf R w ->
  (Z.to_nat (zlen data - idx) < fuel)%nat ->
  exists c' w',
    write_loop fuel {| w_addr := addr; w_data := data; w_idx := idx; w_max := mx |} (c, w) = (Ok tt, (c', w')) /\
    range_in (w_segs w') A N pre b (set_at (addr - b) m (drop idx data)) post /\
    w_open_err w' = w_open_err w /\ conf R w' /\
    ctl_steps (zlen (write_cmds fuel addr (drop idx data) mx)) c c' /\
    exists evs, w_log w' = evs ++ w_log w /\
                wire_txs write_bound (c_next c) (write_cmds fuel addr (drop idx data) mx) evs.
Proof.
  induction fuel as [|f IH];
    intros c w m addr idx Hri Hidx Hlen Hbytes Hmx Hmc HA Hend H64 Ha0 Hid HR HR1 Hconf Hf; [lia|].
  pose proof (zlen_nonneg data) as Hd0.
  assert (Hzd : zlen (drop idx data) = zlen data - idx) by (apply zlen_drop; lia).
  cbn [write_loop write_cmds]. unfold bindM at 1. unfold lift at 1.
  unfold write_next. cbn [w_idx w_data w_max w_addr]. rewrite Hzd.
  destruct (idx =? zlen data) eqn:E.
  - apply Z.eqb_eq in E. replace (zlen data - idx =? 0) with true by (symmetry; apply Z.eqb_eq; lia).
    unfold ret. exists c, w.
    split; [reflexivity|]. split.
    { replace (drop idx data) with (@nil Z). 2:{ symmetry. apply length_zero_iff_nil. clear - Hzd E. subst idx. unfold zlen in *. lia. }
      rewrite set_at_nil. exact Hri. }
    split; [reflexivity|]. split; [exact Hconf|]. split; [apply ctl_steps_0; exact Hid|].
    exists []. split; [reflexivity|constructor].
  - apply Z.eqb_neq in E. replace (zlen data - idx =? 0) with false by (symmetry; apply Z.eqb_neq; lia).
    destruct (idx + mx <? zlen data) eqn:E2.
    + (* a full chunk, more to come *)
      apply Z.ltb_lt in E2. replace (mx <? zlen data - idx) with true by (symmetry; apply Z.ltb_lt; lia).
      set (chunk := take mx (drop idx data)).
      assert (Hzc : zlen chunk = mx) by (subst chunk; apply zlen_take; lia).
      rewrite write_mem_new_ok by lia. cbn [unwrap bind].
      unfold chk_u, in_u. destruct ((0 <=? addr + mx) && (addr + mx <? 2 ^ 64)) eqn:E3.
      2:{ apply andb_false_iff in E3. destruct E3 as [E3|E3]; [apply Z.leb_gt in E3|apply Z.ltb_ge in E3]; lia. }
      cbn [bind]. unfold bindM at 1. unfold lift at 1. rewrite mk_write_mkw by lia.
      assert (Hok : cmd_ok (mkw addr chunk)).
      { unfold mkw. cbn [cmd_ok wm_addr wm_data]. unfold wm_ok. cbn [wm_data_len wm_len wm_data].
        repeat split; try lia. subst chunk. apply bytes_ok_take_drop, Hbytes. }
      pose proof (seg_write_in _ _ _ _ _ _ _ addr chunk Hri HA ltac:(lia)) as Hsw.
      destruct (send_write_ok c w _ _ Hok ltac:(cbn [wm_data]; lia) Hid ltac:(lia)
                              ltac:(rewrite HR; exact Hconf) Hsw)
        as [c1 [w1 [ak [Hs [Hv [Hstep [S1 [S2 [S3 [Hc1 Hw1]]]]]]]]]].
      cbn [wm_addr wm_data] in Hs, Hv, S2, Hw1. fold (mkw addr chunk) in Hs, Hw1. unfold bindM at 1. rewrite Hs.
      unfold bindM at 1. unfold lift at 1. rewrite Hv. rewrite Z.eqb_refl. cbn [negb].
      destruct Hstep as [T1 [T2 [T3 [T4 [T5 [T6 [T7 [T8 T9]]]]]]]]. rewrite HR in Hc1.
      assert (Hri1 : range_in (w_segs w1) A N pre b (set_at (addr - b) m chunk) post).
      { rewrite S1. destruct Hri as [Eq Hrest]. rewrite Eq in *.
        apply range_in_after_write; [split; [reflexivity|exact Hrest]|exact HA|lia]. }
      destruct (IH c1 w1 (set_at (addr - b) m chunk) (addr + mx) (idx + mx) Hri1
                   ltac:(lia) Hlen Hbytes Hmx ltac:(rewrite T4; exact Hmc) ltac:(lia) ltac:(lia) ltac:(lia) ltac:(lia)
                   ltac:(rewrite T2; apply wrapu16_range) ltac:(rewrite T3; exact HR) HR1 Hc1 ltac:(lia))
        as [c2 [w2 [Hrun [U1 [U3 [Hc2 [Hst2 [evs2 [M1 M2]]]]]]]]].
      exists c2, w2. split; [exact Hrun|].
      assert (Hdd : drop (idx + mx) data = drop mx (drop idx data)) by (rewrite drop_drop by lia; reflexivity).
      split.
      { destruct Hri as [_ [Hb [_ [He _]]]].
        replace (addr + mx - b) with ((addr - b) + zlen chunk) in U1 by lia.
        rewrite Hdd in U1. rewrite set_at_app in U1.
        - subst chunk. rewrite take_drop in U1. exact U1.
        - lia.
        - rewrite Hzc. rewrite zlen_drop by lia. lia. }
      rewrite U3, S3. split; [reflexivity|]. split; [exact Hc2|].
      rewrite Hdd in Hst2, M2. fold chunk.
      destruct Hst2 as [V1 [V2 [V3 [V4 [V5 [V6 [V7 [V8 V9]]]]]]]].
      split.
      { unfold ctl_steps. rewrite zlen_cons.
        rewrite V1, V2, V3, V4, V5, V7, V8, V9, T1, T2, T3, T4, T5, T7, T8, T9.
        rewrite wrapu16_add. repeat split; try reflexivity; try lia. }
      destruct Hw1 as [evs [L1 L2]].
      exists (evs2 ++ evs ++ [WSend (serialize_vec (mkw addr chunk) (c_next c))]).
      split; [rewrite M1, L1, <- !app_assoc; reflexivity|].
      constructor; [exact L2|]. rewrite <- T2. exact M2.
    + (* the last chunk *)
      apply Z.ltb_ge in E2. replace (mx <? zlen data - idx) with false by (symmetry; apply Z.ltb_ge; lia).
      set (chunk := drop idx data). fold chunk in Hzd.
      rewrite write_mem_new_ok by lia. cbn [unwrap bind].
      unfold bindM at 1. unfold lift at 1. rewrite mk_write_mkw by lia.
      assert (Hok : cmd_ok (mkw addr chunk)).
      { unfold mkw. cbn [cmd_ok wm_addr wm_data]. unfold wm_ok. cbn [wm_data_len wm_len wm_data].
        repeat split; try lia. subst chunk. apply bytes_ok_drop, Hbytes. }
      pose proof (seg_write_in _ _ _ _ _ _ _ addr chunk Hri HA ltac:(lia)) as Hsw.
      destruct (send_write_ok c w _ _ Hok ltac:(cbn [wm_data]; lia) Hid ltac:(lia)
                              ltac:(rewrite HR; exact Hconf) Hsw)
        as [c1 [w1 [ak [Hs [Hv [Hstep [S1 [S2 [S3 [Hc1 Hw1]]]]]]]]]].
      cbn [wm_addr wm_data] in Hs, Hv, S2, Hw1. fold (mkw addr chunk) in Hs, Hw1. unfold bindM at 1. rewrite Hs.
      unfold bindM at 1. unfold lift at 1. rewrite Hv. rewrite Z.eqb_refl. cbn [negb].
      destruct Hstep as [T1 [T2 [T3 [T4 [T5 [T6 [T7 [T8 T9]]]]]]]]. rewrite HR in Hc1.
      destruct f as [|f']; [lia|].
      cbn [write_loop]. unfold bindM at 1. unfold lift at 1. unfold write_next. cbn [w_idx w_data].
      rewrite Z.eqb_refl. cbn [bind]. unfold ret.
      exists c1, w1. split; [reflexivity|]. split.
      { rewrite S1. destruct Hri as [Eq Hrest]. rewrite Eq in *.
        apply range_in_after_write; [split; [reflexivity|exact Hrest]|exact HA|lia]. }
      split; [exact S3|]. split; [exact Hc1|]. split.
      { unfold ctl_steps. cbn [zlen length]. rewrite T1, T2, T3, T4, T5, T7, T8, T9.
        repeat split; try reflexivity; try lia. }
      destruct Hw1 as [evs [L1 L2]]. exists (evs ++ [WSend (serialize_vec (mkw addr chunk) (c_next c))]).
      split; [rewrite L1, <- app_assoc; reflexivity|].
      change (evs ++ [WSend (serialize_vec (mkw addr chunk) (c_next c))])
        with ([] ++ evs ++ [WSend (serialize_vec (mkw addr chunk) (c_next c))]).
      constructor; [exact L2|constructor].
Qed.

Lemma wire_txs_app bound id cms1 evs1 : wire_txs bound id cms1 evs1 ->
  forall cms2 evs2, wire_txs bound (wrapu 16 (id + zlen cms1)) cms2 evs2 -> 0 <= id < 2 ^ 16 ->
  wire_txs bound id (cms1 ++ cms2) (evs2 ++ evs1).
Proof.
  induction 1 as [id|id cm cms evs recvs Hr Ht IH]; intros cms2 evs2 H2 Hid.
  - rewrite zlen_nil, Z.add_0_r in H2. unfold wrapu in H2. rewrite Z.mod_small in H2 by exact Hid.
    rewrite app_nil_r. exact H2.
  - cbn [app]. rewrite (app_assoc evs2 evs). constructor; [exact Hr|].
    apply IH; [|apply wrapu16_range]. rewrite zlen_cons in H2. rewrite wrapu16_add. exact H2.
Qed.

Lemma ctl_steps_trans j k c c1 c2 : ctl_steps j c c1 -> ctl_steps k c1 c2 -> ctl_steps (j + k) c c2.
Proof.
  intros [A1 [A2 [A3 [A4 [A5 [A6 [A7 [A8 A9]]]]]]]] [B1 [B2 [B3 [B4 [B5 [B6 [B7 [B8 B9]]]]]]]].
  unfold ctl_steps. rewrite B1, B2, B3, B4, B5, B7, B8, B9, A1, A2, A3, A4, A5, A7, A8, A9.
  repeat split; try reflexivity; try lia.
  unfold wrapu. rewrite Zplus_mod_idemp_l. f_equal. lia.
Qed.

(* all commands of ControlHandle::write: the data is split in blocks of 65527 bytes first *)
Fixpoint block_cmds (fuel : nat) (addr : Z) (data : list Z) (mx : Z) : list cmd :=
  match fuel with
  | O => []
  | S f => if zlen data =? 0 then []
           else write_cmds (S (length (take MAX_WRITE data))) addr (take MAX_WRITE data) mx ++
                block_cmds f (addr + zlen (take MAX_WRITE data)) (drop MAX_WRITE data) mx
  end.

Lemma drop_0 {A} (l : list A) : drop 0 l = l.
Proof. reflexivity. Qed.

Lemma write_blocks_ok A N pre b post R mx : forall fuel c w m addr data,
  range_in (w_segs w) A N pre b m post -> bytes_ok data -> 1 <= mx -> 20 + mx = c_max_cmd c ->
  A <= addr -> addr + zlen data <= A + N -> addr + zlen data <= 2 ^ 64 -> 0 <= addr ->
  0 <= c_next c < 2 ^ 16 -> c_retry c = R -> 1 <= R -> conf R w -> (length data < fuel)%nat ->
  exists c' w',
    write_blocks fuel addr data (c_max_cmd c) (c, w) = (Ok tt, (c', w')) /\
    range_in (w_segs w') A N pre b (set_at (addr - b) m data) post /\
    w_open_err w' = w_open_err w /\ conf R w' /\
    ctl_steps (zlen (block_cmds fuel addr data mx)) c c' /\
    exists evs, w_log w' = evs ++ w_log w /\ wire_txs write_bound (c_next c) (block_cmds fuel addr data mx) evs.
Proof.
  induction fuel as [|f IH]; intros c w m addr data Hri Hbytes Hmx Hmc HA Hend H64 Ha0 Hid HR HR1 Hconf Hf; [lia|].
  pose proof (zlen_nonneg data) as Hd0.
  cbn [write_blocks block_cmds]. destruct (zlen data =? 0) eqn:E.
  - apply Z.eqb_eq in E. unfold ret. exists c, w. split; [reflexivity|].
    replace data with (@nil Z) by (symmetry; apply length_zero_iff_nil; unfold zlen in E; lia).
    rewrite set_at_nil. split; [exact Hri|]. split; [reflexivity|]. split; [exact Hconf|].
    split; [apply ctl_steps_0; exact Hid|]. exists []. split; [reflexivity|constructor].
  - apply Z.eqb_neq in E. set (block := take MAX_WRITE data).
    assert (Hzb : zlen block = Z.min MAX_WRITE (zlen data)).
    { subst block. unfold MAX_WRITE. destruct (Z_le_gt_dec 65527 (zlen data)).
      - rewrite zlen_take by lia. lia.
      - unfold take. rewrite firstn_all2 by (unfold zlen in *; lia). lia. }
    unfold MAX_WRITE in Hzb.
    unfold bindM at 1. unfold lift at 1. rewrite write_mem_new_ok by lia. cbn [fst snd].
    unfold bindM at 1. unfold lift at 1. unfold write_chunks_init, WRITE_HEADER_LEN.
    destruct (c_max_cmd c <=? 20) eqn:E20; [lia|].
    replace (c_max_cmd c - 20) with mx by lia.
    destruct (write_loop_ok A N pre b post R block mx (S (length block)) c w m addr 0 Hri
                ltac:(lia) ltac:(lia) ltac:(subst block; apply bytes_ok_take, Hbytes) Hmx ltac:(lia) HA
                ltac:(lia) ltac:(lia) Ha0 Hid HR HR1 Hconf ltac:(unfold zlen; lia))
      as [c1 [w1 [Hrun [Hri1 [S3 [Hc1 [Hst1 [evs1 [L1 L2]]]]]]]]].
    rewrite drop_0 in *.
    unfold bindM at 1. rewrite Hrun.
    pose proof Hst1 as [T1 [T2 [T3 [T4 [T5 [T6 [T7 [T8 T9]]]]]]]].
    assert (Hw64 : zlen (drop MAX_WRITE data) = 0 \/ wrapu 64 (addr + zlen block) = addr + zlen block).
    { destruct (Z_le_gt_dec (zlen data) 65527) as [L|G].
      - left. unfold drop, MAX_WRITE. rewrite skipn_all2 by (unfold zlen in *; lia). reflexivity.
      - right. unfold wrapu. apply Z.mod_small. lia. }
    assert (Hdrop : zlen (drop MAX_WRITE data) = zlen data - zlen block).
    { unfold MAX_WRITE. destruct (Z_le_gt_dec (zlen data) 65527) as [L|G].
      - unfold drop. rewrite skipn_all2 by (unfold zlen in *; lia). rewrite zlen_nil. lia.
      - rewrite zlen_drop by lia. lia. }
    assert (Happ : block ++ drop MAX_WRITE data = data) by (subst block; apply take_drop).
    destruct Hw64 as [Hz|Hw].
    + (* this was the last block *)
      destruct f as [|f']; [unfold zlen in *; lia|].
      cbn [write_blocks block_cmds]. rewrite Hz. change (0 =? 0) with true. cbv iota. unfold ret.
      assert (Hb : block = data).
      { rewrite <- Happ. replace (drop MAX_WRITE data) with (@nil Z); [rewrite app_nil_r; reflexivity|].
        symmetry. apply length_zero_iff_nil. unfold zlen in Hz. lia. }
      exists c1, w1. split; [reflexivity|]. rewrite Hb in *. split; [exact Hri1|]. split; [exact S3|].
      split; [exact Hc1|]. rewrite app_nil_r. split; [exact Hst1|]. exists evs1. split; [exact L1|exact L2].
    + rewrite Hw.
      destruct (IH c1 w1 (set_at (addr - b) m block) (addr + zlen block) (drop MAX_WRITE data) Hri1
                   ltac:(apply bytes_ok_drop, Hbytes) Hmx ltac:(lia) ltac:(lia) ltac:(lia) ltac:(lia) ltac:(lia)
                   ltac:(rewrite T2; apply wrapu16_range) ltac:(rewrite T3; exact HR) HR1 Hc1
                   ltac:(unfold zlen in *; lia))
        as [c2 [w2 [Hrun2 [Hri2 [U3 [Hc2 [Hst2 [evs2 [M1 M2]]]]]]]]].
      rewrite T4 in Hrun2. exists c2, w2. split; [exact Hrun2|].
      split.
      { destruct Hri as [_ [Hb0 [_ [He _]]]].
        replace (addr + zlen block - b) with ((addr - b) + zlen block) in Hri2 by lia.
        rewrite set_at_app in Hri2 by lia. rewrite Happ in Hri2. exact Hri2. }
      rewrite U3, S3. split; [reflexivity|]. split; [exact Hc2|].
      split.
      { rewrite zlen_app. eapply ctl_steps_trans; [exact Hst1|exact Hst2]. }
      exists (evs2 ++ evs1). split; [rewrite M1, L1, <- app_assoc; reflexivity|].
      apply wire_txs_app; [exact L2| |exact Hid]. rewrite <- T2. exact M2.
Qed.

Lemma ctl_write_exact c w a data pre b m post :
  c_opened c = true -> 20 < c_max_cmd c -> 0 <= c_next c < 2 ^ 16 -> 1 <= c_retry c -> conf (c_retry c) w ->
  bytes_ok data -> range_in (w_segs w) a (zlen data) pre b m post -> 0 <= a -> a + zlen data <= 2 ^ 64 ->
  exists c' w',
    ctl_write a data (c, w) = (Ok tt, (c', w')) /\
    w_segs w' = pre ++ (b, set_at (a - b) m data) :: post /\
    w_open_err w' = w_open_err w /\ conf (c_retry c) w' /\
    ctl_steps (zlen (block_cmds (S (length data)) a data (c_max_cmd c - 20))) c c' /\
    exists evs, w_log w' = evs ++ w_log w /\
                wire_txs write_bound (c_next c) (block_cmds (S (length data)) a data (c_max_cmd c - 20)) evs.
Proof.
  intros Ho Hmc Hid HR Hconf Hbytes Hri Ha H64.
  unfold ctl_write. unfold bindM at 1. unfold assert_open. cbn [fst]. rewrite Ho.
  unfold bindM at 1. unfold verify_range. destruct (a <? 0) eqn:EV0; [lia|]. destruct (2 ^ 64 <? a + zlen data) eqn:EV; [lia|]. cbn [orb]. unfold ret at 1.
  unfold bindM at 1. unfold get_ctl. cbn [fst].
  destruct (write_blocks_ok a (zlen data) pre b post (c_retry c) (c_max_cmd c - 20) (S (length data)) c w m a data
              Hri Hbytes ltac:(lia) ltac:(lia) ltac:(lia) ltac:(lia) H64 Ha Hid eq_refl HR Hconf ltac:(lia))
    as [c' [w' [Hrun [Hri' Hrest]]]].
  exists c', w'. split; [exact Hrun|]. split; [destruct Hri' as [E _]; exact E|exact Hrest].
Qed.

(* ---- what is on the wire ------------------------------------------------------------------------ *)

Definition sends (evs : list wev) : list (list Z) :=
  flat_map (fun e => match e with WSend b => [b] | _ => [] end) (rev evs).

Fixpoint expected_sends (id : Z) (cms : list cmd) : list (list Z) :=
  match cms with
  | [] => []
  | cm :: r => serialize_vec cm id :: expected_sends (wrapu 16 (id + 1)) r
  end.

Lemma sends_recvs bound recvs : Forall (recv_ev bound) recvs -> sends recvs = [].
Proof.
  intros H. unfold sends. apply Forall_rev in H. induction H as [|e l [n [He _]] _ IH]; [reflexivity|].
  cbn [flat_map]. rewrite He. exact IH.
Qed.

Lemma sends_app a b : sends (a ++ b) = sends b ++ sends a.
Proof. unfold sends. rewrite rev_app_distr, flat_map_app. reflexivity. Qed.

(* the commands are sent in order, the k-th one carrying request id (id + k) mod 2^16 *)
Lemma wire_txs_sends bound id cms evs : wire_txs bound id cms evs -> sends evs = expected_sends id cms.
Proof.
  induction 1 as [id|id cm cms evs recvs Hr Ht IH]; [reflexivity|].
  rewrite !sends_app, (sends_recvs _ _ Hr), IH. reflexivity.
Qed.

Lemma wire_txs_recvs bound id cms evs : wire_txs bound id cms evs ->
  forall B, Forall (fun cm => bound cm <= B) cms ->
  Forall (fun e => match e with WRecv n => n <= B | WSend _ => True | _ => False end) evs.
Proof.
  induction 1 as [id|id cm cms evs recvs Hr Ht IH]; intros B HB; [constructor|].
  apply Forall_cons_iff in HB as [Hb HB]. apply Forall_app. split; [apply IH; exact HB|].
  apply Forall_app. split; [|constructor; [exact I|constructor]].
  eapply Forall_impl; [|exact Hr]. intros e [n [-> Hn]]. lia.
Qed.

Lemma read_cmds_spec chunk : forall fuel addr remaining,
  1 <= chunk -> Forall (fun cm => cmd_len cm = 24 /\ read_bound cm <= Z.max 16 (12 + chunk))
                       (read_cmds fuel addr remaining chunk).
Proof.
  induction fuel as [|f IH]; intros addr remaining Hc; cbn [read_cmds]; [constructor|].
  destruct (remaining <=? 0); [constructor|]. constructor; [|apply IH; exact Hc].
  unfold cmd_len, read_bound. cbn [scd_len]. split; lia.
Qed.

Lemma write_cmds_spec mx : forall fuel addr rest, 1 <= mx ->
  Forall (fun cm => cmd_len cm <= 20 + mx /\ write_bound cm = 16) (write_cmds fuel addr rest mx).
Proof.
  induction fuel as [|f IH]; intros addr rest Hm; cbn [write_cmds]; [constructor|].
  destruct (zlen rest =? 0); [constructor|].
  destruct (mx <? zlen rest) eqn:E.
  - apply Z.ltb_lt in E. constructor; [|apply IH; exact Hm]. unfold mkw, cmd_len. cbn [scd_len wm_len].
    rewrite zlen_take by lia. split; [lia|reflexivity].
  - apply Z.ltb_ge in E. constructor; [|constructor]. unfold mkw, cmd_len. cbn [scd_len wm_len]. split; [lia|reflexivity].
Qed.

Lemma block_cmds_spec mx : forall fuel addr data, 1 <= mx ->
  Forall (fun cm => cmd_len cm <= 20 + mx /\ write_bound cm = 16) (block_cmds fuel addr data mx).
Proof.
  induction fuel as [|f IH]; intros addr data Hm; cbn [block_cmds]; [constructor|].
  destruct (zlen data =? 0); [constructor|]. apply Forall_app. split; [apply write_cmds_spec|apply IH]; exact Hm.
Qed.

(* ---- non-vacuity: a concrete conforming world ------------------------------------------------------ *)

Definition ex_world : world :=
  {| w_segs := [(0, repeat 0 16); (4096, [1; 2; 3; 4; 5; 6; 7; 8; 9; 10])];
     w_plans := [{| tp_send_err := None; tp_replies := [RPending 1; RConform []] |}];
     w_replies := []; w_cur_ack := []; w_cur_rid := 0; w_log := []; w_open_err := None; w_writes := [] |}.

Definition ex_ctl : ctl :=
  {| c_opened := true; c_next := 65535; c_retry := 3; c_max_cmd := 24; c_max_ack := 16; c_buflen := 0;
     c_abrm := None; c_sbrm := None; c_sirm := None |}.

Example ex_hypotheses :
  conf 3 ex_world /\ range_in (w_segs ex_world) 4098 7 [(0, repeat 0 16)] 4096 [1; 2; 3; 4; 5; 6; 7; 8; 9; 10] [].
Proof.
  split.
  - unfold conf. cbn [w_plans ex_world]. apply Forall_cons; [|apply Forall_nil].
    unfold plan_ok. cbn [tp_send_err tp_replies]. split; [reflexivity|]. exists [1].
    split; [reflexivity|]. split; [|reflexivity].
    apply Forall_cons; [unfold ms_ok; lia|apply Forall_nil].
  - unfold range_in. cbn [w_segs ex_world app]. split; [reflexivity|].
    split; [lia|]. split; [lia|]. split; [cbn; lia|].
    apply Forall_cons; [|apply Forall_nil]. unfold away. left. cbn. lia.
Qed.

Example ex_read : fst (ctl_read 4098 7 (ex_ctl, ex_world)) = Ok [3; 4; 5; 6; 7; 8; 9].
Proof. vm_compute. reflexivity. Qed.

(* ---- the pinned code -------------------------------------------------------------------------------- *)

(* ControlHandle::write of the pinned commit built one WriteMem from the whole slice *)
Definition ctl_write_v0 (addr : Z) (data : list Z) : M unit :=
  do _ <- assert_open;
  do c <- get_ctl;
  do wm <- lift (write_mem_new addr data) CE_IO;
  do ws <- lift (write_chunks_init (fst wm) (snd wm) (c_max_cmd c)) CE_IO;
  write_loop (S (length data)) ws.

Lemma big_write_v0_refuted : forall c w a data, c_opened c = true -> 65527 < zlen data ->
  fst (ctl_write_v0 a data (c, w)) = Err CE_IO.
Proof.
  intros c w a data Ho Hl. unfold ctl_write_v0. unfold bindM at 1. unfold assert_open. cbn [fst]. rewrite Ho.
  unfold bindM at 1. unfold get_ctl. cbn [fst]. unfold bindM at 1. unfold lift at 1.
  unfold write_mem_new, into_scd_len.
  destruct (zlen data <? 2 ^ 16) eqn:E1; cbn [bind].
  - destruct (zlen data + 8 <? 2 ^ 16) eqn:E2; cbn [bind]; [change (2 ^ 16) with 65536 in E2; lia|reflexivity].
  - reflexivity.
Qed.
