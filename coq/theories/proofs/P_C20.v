(* C20 — proofs about model/Memory.v and model/MacroBitField.v. *)
From Cam Require Import P_C01 P_C02.
From Cam Require Import Outcome Bytes MacroBitField Memory.

(* ================================================================================ AccessRight lattice == *)
Lemma meet_is_land a b : ar_num (ar_meet a b) = Z.land (ar_num a) (ar_num b).
Proof. destruct a, b; reflexivity. Qed.

Lemma meet_lattice :
  (forall a b, ar_meet a b = ar_meet b a) /\
  (forall a b c, ar_meet a (ar_meet b c) = ar_meet (ar_meet a b) c) /\
  (forall a, ar_meet a a = a) /\
  (forall a, ar_meet RW a = a /\ ar_meet a RW = a) /\
  (forall a, ar_meet NA a = NA /\ ar_meet a NA = NA) /\
  (forall a b, ar_readable (ar_meet a b) = ar_readable a && ar_readable b) /\
  (forall a b, ar_writable (ar_meet a b) = ar_writable a && ar_writable b) /\
  (forall a, ar_from_num (ar_num a) = Ok a) /\
  (forall a b, ar_readable a = ar_readable b -> ar_writable a = ar_writable b -> a = b).
Proof.
  split; [intros a b; destruct a, b; reflexivity|].
  split; [intros a b c; destruct a, b, c; reflexivity|].
  split; [intros a; destruct a; reflexivity|].
  split; [intros a; destruct a; split; reflexivity|].
  split; [intros a; destruct a; split; reflexivity|].
  split; [intros a b; destruct a, b; reflexivity|].
  split; [intros a b; destruct a, b; reflexivity|].
  split; [intros a; destruct a; reflexivity|].
  intros a b; destruct a, b; cbv; intros; congruence.
Qed.

(* the right of a range is the meet (= bitwise and of R and W) of its cells *)
Lemma prot_fold_spec p l : forall acc r, prot_fold p l acc = Ok r ->
  ar_readable r = ar_readable acc && forallb (fun i => match prot_get p i with Ok a => ar_readable a | _ => false end) l /\
  ar_writable r = ar_writable acc && forallb (fun i => match prot_get p i with Ok a => ar_writable a | _ => false end) l.
Proof.
  induction l as [|i l IH]; intros acc r H; cbn [prot_fold forallb] in *.
  - apply Ok_inj in H; subst. now rewrite !andb_true_r.
  - destruct (prot_get p i) as [a| |] eqn:G; cbn [bind] in H; try discriminate.
    apply IH in H. destruct H as [H1 H2]. rewrite H1, H2.
    destruct meet_lattice as (_ & _ & _ & _ & _ & Hr & Hw & _). rewrite Hr, Hw. now rewrite !andb_assoc.
Qed.

(* ================================================================================ protection cells ===== *)
Definition byte_range : list Z := map Z.of_nat (seq 0 256).

Lemma in_byte_range b : 0 <= b < 256 -> In b byte_range.
Proof.
  intros H. unfold byte_range. apply in_map_iff. exists (Z.to_nat b). split; [lia|]. apply in_seq. lia.
Qed.

Lemma cell_sweep_true :
  forallb (fun b => forallb (fun k => forallb (fun n =>
    let b' := cell_set b (k * 2) n in
    (0 <=? b') && (b' <? 256) &&
    forallb (fun k' => cell_get b' (k' * 2) =? (if k' =? k then n else cell_get b (k' * 2))) [0; 1; 2; 3])
    [0; 1; 2; 3]) [0; 1; 2; 3]) byte_range = true.
Proof. vm_cast_no_check (eq_refl true). Qed.

Lemma in4 k : 0 <= k < 4 -> In k [0; 1; 2; 3].
Proof. intros H. assert (k = 0 \/ k = 1 \/ k = 2 \/ k = 3) as [->|[->|[->| ->]]] by lia; cbn; auto. Qed.

Lemma cell_block b k n : 0 <= b < 256 -> 0 <= k < 4 -> 0 <= n < 4 ->
  0 <= cell_set b (k * 2) n < 256 /\
  forall k', 0 <= k' < 4 -> cell_get (cell_set b (k * 2) n) (k' * 2) = if k' =? k then n else cell_get b (k' * 2).
Proof.
  intros Hb Hk Hn. pose proof cell_sweep_true as S.
  rewrite forallb_forall in S. specialize (S b (in_byte_range b Hb)).
  rewrite forallb_forall in S. specialize (S k (in4 k Hk)).
  rewrite forallb_forall in S. specialize (S n (in4 n Hn)). cbv zeta in S.
  apply andb_true_iff in S. destruct S as [S1 S2]. apply andb_true_iff in S1. destruct S1 as [A B].
  split; [lia|]. intros k' Hk'. rewrite forallb_forall in S2. specialize (S2 k' (in4 k' Hk')). lia.
Qed.

Lemma cell_get_range b off : 0 <= cell_get b off < 4.
Proof.
  unfold cell_get. change 3 with (Z.ones 2). rewrite Z.land_ones by lia. apply Z.mod_pos_bound. lia.
Qed.

Definition nblocks (size : Z) : Z := if size =? 0 then 0 else (size - 1) / 4 + 1.

Definition prot_wf (p : prot) : Prop :=
  0 <= p_size p /\ zlen (p_inner p) = nblocks (p_size p) /\ Forall (fun b => 0 <= b < 256) (p_inner p).

Lemma repeat_Forall {A} (P : A -> Prop) x n : P x -> Forall P (repeat x n).
Proof. intros H. induction n; cbn; constructor; auto. Qed.

Lemma prot_new_wf size : 0 <= size -> prot_wf (prot_new size).
Proof.
  intros H. unfold prot_wf, prot_new, nblocks; cbn [p_size p_inner]. split; [exact H|]. split.
  - unfold zlen. rewrite repeat_length. destruct (size =? 0) eqn:E; [reflexivity|].
    apply Z.eqb_neq in E. rewrite Z2Nat.id; [reflexivity|]. dlia.
  - apply repeat_Forall. lia.
Qed.

Lemma nth_z_Some {A} (l : list A) i : 0 <= i < zlen l -> exists x, nth_z l i = Some x.
Proof.
  intros H. unfold nth_z. destruct (i <? 0) eqn:E; [lia|].
  destruct (nth_error l (Z.to_nat i)) eqn:N; [eauto|]. apply nth_error_None in N. unfold zlen in H. lia.
Qed.

Lemma block_index size a : 0 <= a < size -> 0 <= a / 4 < nblocks size.
Proof. intros H. unfold nblocks. destruct (size =? 0) eqn:E; [lia|]. dlia. Qed.

Lemma set_nth_length {A} (l : list A) n x : length (set_nth l n x) = length l.
Proof. revert n; induction l as [|y l IH]; intros [|n]; cbn; auto. Qed.

Lemma nth_error_set_nth {A} (l : list A) n x m : (n < length l)%nat ->
  nth_error (set_nth l n x) m = if Nat.eqb m n then Some x else nth_error l m.
Proof.
  revert n m; induction l as [|y l IH]; intros n m H; cbn in H; [lia|].
  destruct n as [|n]; destruct m as [|m]; cbn; auto. apply IH. lia.
Qed.

Lemma Forall_set_nth {A} (P : A -> Prop) (l : list A) n x : Forall P l -> P x -> Forall P (set_nth l n x).
Proof.
  intros H Hx. revert n. induction H as [|y l Hy Hl IH]; intros [|n]; cbn; constructor; auto.
Qed.

Lemma nth_z_In {A} (l : list A) i x : nth_z l i = Some x -> In x l.
Proof. unfold nth_z. destruct (i <? 0); [discriminate|]. apply nth_error_In. Qed.

Lemma mod4_twice a : a mod 4 * 2 = (a mod 4) * 2.
Proof. reflexivity. Qed.

(* every cell below the size holds a right; set/get behave as an array of independent cells *)
Lemma prot_get_total p a : prot_wf p -> 0 <= a < p_size p -> exists r, prot_get p a = Ok r.
Proof.
  intros (H0 & H1 & H2) Ha. unfold prot_get.
  destruct (nth_z_Some (p_inner p) (a / 4)) as [b Hb]; [rewrite H1; now apply block_index|].
  rewrite Hb. pose proof (cell_get_range b (a mod 4 * 2)) as R. set (c := cell_get b (a mod 4 * 2)) in *.
  assert (c = 0 \/ c = 1 \/ c = 2 \/ c = 3) as [->|[->|[->| ->]]] by lia; cbv; eauto.
Qed.

Lemma ar_num_range r : 0 <= ar_num r < 4.
Proof. destruct r; cbn; lia. Qed.

Lemma from_num_cell n : 0 <= n < 4 -> exists r, ar_from_num n = Ok r /\ ar_num r = n.
Proof. intros H. assert (n = 0 \/ n = 1 \/ n = 2 \/ n = 3) as [->|[->|[->| ->]]] by lia; cbv; eauto. Qed.

Lemma from_num_inj n r : ar_from_num n = Ok r -> ar_num r = n.
Proof.
  unfold ar_from_num. destruct (Z.shiftr n 2 =? 0); [|discriminate].
  destruct (n =? 0) eqn:E0; [intros H; apply Ok_inj in H; subst; cbn; lia|].
  destruct (n =? 1) eqn:E1; [intros H; apply Ok_inj in H; subst; cbn; lia|].
  destruct (n =? 2) eqn:E2; [intros H; apply Ok_inj in H; subst; cbn; lia|].
  destruct (n =? 3) eqn:E3; [intros H; apply Ok_inj in H; subst; cbn; lia|discriminate].
Qed.

Lemma ar_num_inj a b : ar_num a = ar_num b -> a = b.
Proof. destruct a, b; cbn; intros; congruence || lia. Qed.

Lemma protection_cells p a r : prot_wf p -> 0 <= a < p_size p ->
  exists p', prot_set p a r = Ok p' /\ prot_wf p' /\ p_size p' = p_size p /\
    prot_get p' a = Ok r /\
    forall a', 0 <= a' < p_size p -> a' <> a -> prot_get p' a' = prot_get p a'.
Proof.
  intros (H0 & H1 & H2) Ha. unfold prot_set.
  pose proof (block_index _ _ Ha) as Hi.
  destruct (nth_z_Some (p_inner p) (a / 4)) as [b Hb]; [rewrite H1; exact Hi|]. rewrite Hb.
  assert (Bb : 0 <= b < 256) by (rewrite Forall_forall in H2; apply H2; eapply nth_z_In; eauto).
  assert (Hk : 0 <= a mod 4 < 4) by (apply Z.mod_pos_bound; lia).
  destruct (cell_block b (a mod 4) (ar_num r) Bb Hk (ar_num_range r)) as [Cb Cg].
  eexists. split; [reflexivity|]. unfold prot_wf. cbn [p_size p_inner].
  assert (Hlen : (Z.to_nat (a / 4) < length (p_inner p))%nat) by (unfold zlen in H1; lia).
  split; [|split; [reflexivity|split]].
  - split; [exact H0|]. split.
    + unfold zlen. rewrite set_nth_length. exact H1.
    + apply Forall_set_nth; assumption.
  - unfold prot_get; cbn [p_inner]. unfold nth_z. destruct (a / 4 <? 0) eqn:E; [lia|].
    rewrite nth_error_set_nth by exact Hlen. rewrite Nat.eqb_refl.
    rewrite (Cg (a mod 4) Hk), Z.eqb_refl.
    destruct (from_num_cell (ar_num r) (ar_num_range r)) as [r' [F1 F2]]. rewrite F1. f_equal. now apply ar_num_inj.
  - intros a' Ha' Hne. unfold prot_get; cbn [p_inner]. unfold nth_z.
    pose proof (block_index _ _ Ha') as Hi'.
    destruct (a' / 4 <? 0) eqn:E; [lia|].
    rewrite nth_error_set_nth by exact Hlen.
    destruct (Nat.eqb (Z.to_nat (a' / 4)) (Z.to_nat (a / 4))) eqn:Q.
    + apply Nat.eqb_eq in Q. assert (Q' : a' / 4 = a / 4) by lia.
      unfold nth_z in Hb. destruct (a / 4 <? 0); [discriminate|]. rewrite Q, Hb.
      assert (Hk' : 0 <= a' mod 4 < 4) by (apply Z.mod_pos_bound; lia).
      rewrite (Cg (a' mod 4) Hk').
      destruct (a' mod 4 =? a mod 4) eqn:M; [|reflexivity].
      apply Z.eqb_eq in M. exfalso. apply Hne.
      rewrite (Z.div_mod a' 4), (Z.div_mod a 4) by lia. lia.
    + reflexivity.
Qed.

Lemma prot_new_cells size a : 0 <= a < size -> prot_get (prot_new size) a = Ok NA.
Proof.
  intros Ha. unfold prot_get, prot_new; cbn [p_inner]. pose proof (block_index _ _ Ha) as Hi.
  unfold nth_z. destruct (a / 4 <? 0) eqn:E; [lia|].
  assert (N : nth_error (repeat 0 (Z.to_nat (if size =? 0 then 0 else (size - 1) / 4 + 1))) (Z.to_nat (a / 4)) = Some 0).
  { unfold nblocks in Hi. rewrite nth_error_repeat; [reflexivity|]. lia. }
  rewrite N. assert (Hk : 0 <= a mod 4 < 4) by (apply Z.mod_pos_bound; lia).
  set (k := a mod 4) in *. assert (k = 0 \/ k = 1 \/ k = 2 \/ k = 3) as [->|[->|[->| ->]]] by lia; reflexivity.
Qed.

(* ================================================================================ observers ============ *)
Lemma notify_all_spec obs ws we :
  notify_all obs ws we =
  map (fun '(s, e, n) => (s, e, if (Z.max ws s <? Z.min we e) then n + 1 else n)) obs.
Proof.
  unfold notify_all. apply map_ext. intros [[s e] n].
  destruct (Z.min we e <=? Z.max ws s) eqn:A; destruct (Z.max ws s <? Z.min we e) eqn:B; try reflexivity; lia.
Qed.

(* real overlap: some address lies in both ranges *)
Lemma overlap_iff ws we s e :
  (Z.max ws s <? Z.min we e) = true <-> exists a, ws <= a < we /\ s <= a < e.
Proof.
  split.
  - intros H. apply Z.ltb_lt in H. exists (Z.max ws s). lia.
  - intros [a Ha]. apply Z.ltb_lt. lia.
Qed.

Lemma notify_v0_refuted :
  notify_all_v0 [(0, 2, 0)] 1 1 = [(0, 2, 1)] /\ ~ (exists a, 1 <= a < 1 /\ 0 <= a < 2).
Proof. split; [reflexivity|]. intros [a H]. lia. Qed.

(* ================================================================================ layout =============== *)
Lemma offsets_length regs : forall run, length (offsets regs run) = length regs.
Proof. induction regs as [|r rest IH]; intros run; cbn [offsets length]; auto. Qed.

(* offset of register i: explicit, or the end of register i-1 (0 for the first) *)
Lemma offsets_spec regs : forall run i r, nth_error regs i = Some r ->
  nth_error (offsets regs run) i =
  Some (match rd_off r with
        | Some s => s
        | None => match i with
                  | O => run
                  | S j => match nth_error regs j, nth_error (offsets regs run) j with
                           | Some q, Some oq => oq + rd_len q
                           | _, _ => 0
                           end
                  end
        end).
Proof.
  induction regs as [|r0 rest IH]; intros run i r H; [destruct i; discriminate|].
  destruct i as [|i]; cbn [nth_error offsets] in *.
  - injection H as ->. reflexivity.
  - rewrite (IH _ i r H). destruct (rd_off r); [reflexivity|].
    destruct i as [|j]; cbn [nth_error]; [reflexivity|].
    destruct (nth_error rest j) eqn:E; [|reflexivity]. reflexivity.
Qed.

Lemma fold_max_ge l : forall a, a <= fold_left Z.max l a /\ (forall x, In x l -> x <= fold_left Z.max l a).
Proof.
  induction l as [|y l IH]; intros a; cbn [fold_left]; [split; [lia|intros x Hx; inversion Hx]|].
  destruct (IH (Z.max a y)) as [H1 H2]. split; [lia|].
  intros x [->|Hx]; [lia|auto].
Qed.

Lemma fold_max_in l : forall a, fold_left Z.max l a = a \/ In (fold_left Z.max l a) l.
Proof.
  induction l as [|y l IH]; intros a; cbn [fold_left]; [left; reflexivity|].
  destruct (IH (Z.max a y)) as [H|H].
  - destruct (Z.max_spec a y) as [[_ E]|[_ E]]; rewrite E in *; [right; left; auto|left; auto].
  - right; right; exact H.
Qed.

Definition reg_end (r : reg) : Z := r_addr r + r_len r.

Lemma frag_regs_ends f :
  map reg_end (frag_regs f) =
  map (fun x => fd_base f + x) (map (fun '(o, r) => o + rd_len r) (combine (offsets (fd_regs f) 0) (fd_regs f))).
Proof.
  unfold frag_regs. rewrite !map_map. apply map_ext. intros [o r]. unfold reg_end; cbn. lia.
Qed.

Lemma frag_size_spec f :
  (forall r, In r (frag_regs f) -> reg_end r <= fd_base f + frag_size f) /\
  (frag_size f = 0 \/ exists r, In r (frag_regs f) /\ reg_end r = fd_base f + frag_size f).
Proof.
  unfold frag_size. set (l := map _ (combine _ _)).
  pose proof (frag_regs_ends f) as E. fold l in E. split.
  - intros r Hr. apply (in_map reg_end) in Hr. rewrite E in Hr. apply in_map_iff in Hr.
    destruct Hr as [x [<- Hx]]. pose proof (proj2 (fold_max_ge l 0) x Hx). lia.
  - destruct (fold_max_in l 0) as [H|H]; [left; exact H|right].
    apply (in_map (fun x => fd_base f + x)) in H. rewrite <- E in H. apply in_map_iff in H.
    destruct H as [r [Hr1 Hr2]]. exists r. split; auto.
Qed.

Lemma mem_size_spec md :
  0 <= mem_size md /\
  (forall f, In f md -> fd_base f + frag_size f <= mem_size md) /\
  (mem_size md = 0 \/ exists f, In f md /\ fd_base f + frag_size f = mem_size md).
Proof.
  unfold mem_size. set (l := map _ md). split; [apply (proj1 (fold_max_ge l 0))|]. split.
  - intros f Hf. pose proof (proj2 (fold_max_ge l 0) (frag_size f + fd_base f)) as H.
    assert (In (frag_size f + fd_base f) l) by (subst l; apply in_map_iff; exists f; auto). specialize (H H0). lia.
  - destruct (fold_max_in l 0) as [H|H]; [left; exact H|right].
    subst l. apply in_map_iff in H. destruct H as [f [H1 H2]]. exists f. split; [exact H2|lia].
Qed.

(* every declared register lies inside the memory *)
Lemma reg_in_memory md r : In r (all_regs md) -> reg_end r <= mem_size md.
Proof.
  unfold all_regs. intros H. apply in_flat_map in H. destruct H as [f [Hf Hr]].
  pose proof (proj1 (frag_size_spec f) r Hr). pose proof (proj1 (proj2 (mem_size_spec md)) f Hf). lia.
Qed.

Lemma frag_regs_nth f i rd : nth_error (fd_regs f) i = Some rd ->
  exists o, nth_error (offsets (fd_regs f) 0) i = Some o /\
    nth_error (frag_regs f) i =
    Some {| r_addr := fd_base f + o; r_len := rd_len rd; r_acc := rd_acc rd; r_ty := rd_ty rd;
            r_endian := fd_endian f; r_init := rd_init rd |}.
Proof.
  intros H. pose proof (offsets_spec (fd_regs f) 0 i rd H) as Ho. eexists. split; [exact Ho|].
  unfold frag_regs. rewrite nth_error_map.
  assert (C : forall (A B : Type) (l : list A) (l' : list B) n a b, nth_error l n = Some a -> nth_error l' n = Some b ->
              nth_error (combine l l') n = Some (a, b)).
  { intros A B l. induction l as [|x l IH]; intros l' n a b H1 H2; [destruct n; discriminate|].
    destruct l' as [|y l']; [destruct n; discriminate|]. destruct n; cbn in *; [congruence|eauto]. }
  rewrite (C _ _ _ _ _ _ _ Ho H). reflexivity.
Qed.

(* ================================================================================ raw access =========== *)
Definition mem_wf (m : memory) : Prop := prot_wf (m_prot m) /\ zlen (m_raw m) = p_size (m_prot m).

Definition cells_all (f : aright -> bool) (p : prot) (s e : Z) : bool :=
  forallb (fun i => match prot_get p i with Ok a => f a | _ => false end) (zrange s e).

Lemma in_zrange s e i : In i (zrange s e) <-> s <= i < e.
Proof.
  unfold zrange. rewrite in_map_iff. split.
  - intros [k [<- Hk]]. apply in_seq in Hk. lia.
  - intros H. exists (Z.to_nat (i - s)). split; [lia|]. apply in_seq. lia.
Qed.

Lemma zrange_empty s e : e <= s -> zrange s e = [].
Proof. intros H. unfold zrange. replace (Z.to_nat (e - s)) with O by lia. reflexivity. Qed.

Lemma verify_loop_spec p e : 0 <= p_size p -> forall fuel i, 0 <= i -> (1 <= fuel)%nat -> p_size p - i < Z.of_nat fuel ->
  verify_loop fuel p i e = if (i <? e) && (p_size p <? e) then Err ME_INVALID_ADDRESS else Ok tt.
Proof.
  intros Hs. induction fuel as [|f IH]; intros i Hi H1 H2; [lia|].
  cbn [verify_loop]. destruct (i <? e) eqn:A; cbn [andb]; [|reflexivity].
  unfold prot_verify. destruct (p_size p <=? i) eqn:B; cbn [bind].
  - destruct (p_size p <? e) eqn:C; [reflexivity|lia].
  - rewrite IH by lia. destruct (i + 1 <? e) eqn:D; cbn [andb]; [reflexivity|].
    destruct (p_size p <? e) eqn:C; [lia|reflexivity].
Qed.

Lemma verify_range_spec p s e : 0 <= p_size p -> 0 <= s ->
  prot_verify_range p s e = if (s <? e) && (p_size p <? e) then Err ME_INVALID_ADDRESS else Ok tt.
Proof. intros H1 H2. unfold prot_verify_range. apply verify_loop_spec; lia. Qed.

Lemma prot_fold_total p l : prot_wf p -> (forall i, In i l -> 0 <= i < p_size p) ->
  forall acc, exists r, prot_fold p l acc = Ok r.
Proof.
  intros W. induction l as [|i l IH]; intros Hl acc; cbn [prot_fold]; [eauto|].
  destruct (prot_get_total p i W (Hl i (or_introl eq_refl))) as [a Ha]. rewrite Ha. cbn [bind].
  apply IH. intros j Hj. apply Hl. now right.
Qed.

Lemma range_right_spec p s e : prot_wf p -> 0 <= s -> e <= p_size p ->
  exists r, prot_range_right p s e = Ok r /\
            ar_readable r = cells_all ar_readable p s e /\ ar_writable r = cells_all ar_writable p s e.
Proof.
  intros W Hs He. unfold prot_range_right.
  destruct (prot_fold_total p (zrange s e) W) with (acc := RW) as [r Hr].
  { intros i Hi. apply in_zrange in Hi. lia. }
  exists r. split; [exact Hr|]. apply prot_fold_spec in Hr. exact Hr.
Qed.

Lemma read_raw_spec m s e : mem_wf m -> 0 <= s -> 0 <= e ->
  read_raw m s e =
  if (s <=? e) && (e <=? p_size (m_prot m)) then
    if cells_all ar_readable (m_prot m) s e then Ok (take (e - s) (drop s (m_raw m))) else Err ME_NOT_READABLE
  else Err ME_INVALID_ADDRESS.
Proof.
  intros [W L] Hs He. pose proof W as (W0 & _). unfold read_raw. rewrite verify_range_spec by lia.
  destruct (s <? e) eqn:A; cbn [andb].
  - destruct (p_size (m_prot m) <? e) eqn:B; cbn [bind].
    + destruct (s <=? e); cbn [andb]; [|reflexivity]. destruct (e <=? p_size (m_prot m)) eqn:C; [lia|reflexivity].
    + destruct (range_right_spec (m_prot m) s e W Hs ltac:(lia)) as (r & R1 & R2 & _). rewrite R1. cbn [bind].
      rewrite R2. destruct (s <=? e) eqn:C; [|lia]. destruct (e <=? p_size (m_prot m)) eqn:D; [|lia]. cbn [andb].
      destruct (cells_all ar_readable (m_prot m) s e); cbn [negb]; [|reflexivity].
      unfold slice_get. destruct (e <? s) eqn:F; [lia|]. rewrite L. destruct (p_size (m_prot m) <? e) eqn:G; [lia|]. reflexivity.
  - cbn [bind]. unfold prot_range_right, cells_all. rewrite zrange_empty by lia. cbn [prot_fold bind forallb].
    change (negb (ar_readable RW)) with false. cbv iota. unfold slice_get. rewrite L.
    destruct (s <=? e) eqn:C; destruct (e <=? p_size (m_prot m)) eqn:D; destruct (e <? s) eqn:F;
      destruct (p_size (m_prot m) <? e) eqn:G; cbn [andb orb]; try lia; reflexivity.
Qed.

Lemma write_raw_spec m a buf : mem_wf m -> 0 <= a ->
  write_raw m a buf =
  let e := a + zlen buf in
  if (e <=? USIZE_MAX) && (e <=? p_size (m_prot m)) then
    if cells_all ar_writable (m_prot m) a e then
      Ok {| m_raw := splice_at a buf (m_raw m); m_prot := m_prot m; m_obs := notify_all (m_obs m) a e |}
    else Err ME_NOT_WRITABLE
  else Err ME_INVALID_ADDRESS.
Proof.
  intros [W L] Ha. pose proof W as (W0 & _). pose proof (zlen_nonneg buf) as Hb. cbv zeta.
  unfold write_raw. destruct (USIZE_MAX <? a + zlen buf) eqn:U.
  { destruct (a + zlen buf <=? USIZE_MAX) eqn:V; [lia|reflexivity]. }
  destruct (a + zlen buf <=? USIZE_MAX) eqn:V; [|lia]. cbn [andb].
  set (e := a + zlen buf) in *. rewrite verify_range_spec by lia.
  destruct (a <? e) eqn:A; cbn [andb].
  - destruct (p_size (m_prot m) <? e) eqn:B; cbn [bind].
    + destruct (e <=? p_size (m_prot m)) eqn:C; [lia|reflexivity].
    + destruct (range_right_spec (m_prot m) a e W Ha ltac:(lia)) as (r & R1 & _ & R3). rewrite R1. cbn [bind].
      rewrite R3. destruct (e <=? p_size (m_prot m)) eqn:D; [|lia].
      destruct (cells_all ar_writable (m_prot m) a e); cbn [negb]; [|reflexivity].
      unfold slice_get. destruct (e <? a) eqn:F; [lia|]. rewrite L. rewrite B. reflexivity.
  - cbn [bind]. unfold prot_range_right, cells_all. rewrite zrange_empty by lia. cbn [prot_fold bind forallb].
    change (negb (ar_writable RW)) with false. cbv iota. unfold slice_get. rewrite L.
    destruct (e <? a) eqn:F; [lia|]. cbn [orb].
    destruct (e <=? p_size (m_prot m)) eqn:D; destruct (p_size (m_prot m) <? e) eqn:G; try lia; reflexivity.
Qed.

(* the access functions never panic on a well-formed memory *)
Lemma raw_never_panics m s e a buf : mem_wf m -> 0 <= s -> 0 <= e -> 0 <= a ->
  read_raw m s e <> Panic /\ write_raw m a buf <> Panic.
Proof.
  intros W Hs He Ha. rewrite read_raw_spec, write_raw_spec by assumption. cbv zeta. split.
  - destruct ((s <=? e) && (e <=? p_size (m_prot m))); [destruct (cells_all _ _ _ _)|]; discriminate.
  - destruct ((a + zlen buf <=? USIZE_MAX) && (a + zlen buf <=? p_size (m_prot m))); [destruct (cells_all _ _ _ _)|]; discriminate.
Qed.

(* a successful raw write changes exactly the addressed bytes *)
Lemma zlen_splice_at off bs mem : 0 <= off -> off + zlen bs <= zlen mem -> zlen (splice_at off bs mem) = zlen mem.
Proof.
  intros H0 H1. pose proof (zlen_nonneg bs). unfold splice_at. rewrite !zlen_app, zlen_take, zlen_drop by lia. lia.
Qed.

Lemma read_splice_at_same off bs mem : 0 <= off -> off + zlen bs <= zlen mem ->
  take (zlen bs) (drop off (splice_at off bs mem)) = bs.
Proof.
  intros H0 H1. unfold splice_at.
  replace off with (zlen (take off mem)) at 1 by (apply zlen_take; pose proof (zlen_nonneg bs); lia).
  rewrite drop_app_exact. apply take_app_exact.
Qed.

Lemma splice_at_before off bs mem : 0 <= off -> off + zlen bs <= zlen mem ->
  take off (splice_at off bs mem) = take off mem.
Proof.
  intros H0 H1. unfold splice_at.
  replace off with (zlen (take off mem)) at 1 by (apply zlen_take; pose proof (zlen_nonneg bs); lia).
  apply take_app_exact.
Qed.

Lemma splice_at_after off bs mem : 0 <= off -> off + zlen bs <= zlen mem ->
  drop (off + zlen bs) (splice_at off bs mem) = drop (off + zlen bs) mem.
Proof.
  intros H0 H1. pose proof (zlen_nonneg bs). unfold splice_at. rewrite app_assoc.
  replace (off + zlen bs) with (zlen (take off mem ++ bs)) at 1 by (rewrite zlen_app, zlen_take by lia; lia).
  apply drop_app_exact.
Qed.

Lemma write_raw_wf m a buf m' : mem_wf m -> 0 <= a -> write_raw m a buf = Ok m' ->
  mem_wf m' /\ m_prot m' = m_prot m /\
  take (zlen buf) (drop a (m_raw m')) = buf /\
  take a (m_raw m') = take a (m_raw m) /\
  drop (a + zlen buf) (m_raw m') = drop (a + zlen buf) (m_raw m).
Proof.
  intros W Ha H. rewrite write_raw_spec in H by assumption. cbv zeta in H.
  destruct ((a + zlen buf <=? USIZE_MAX) && (a + zlen buf <=? p_size (m_prot m))) eqn:C; [|discriminate].
  destruct (cells_all _ _ _ _); [|discriminate]. apply Ok_inj in H. subst m'. cbn [m_raw m_prot].
  destruct W as [W L]. apply andb_true_iff in C. destruct C as [_ C]. apply Z.leb_le in C.
  split; [split; [exact W|cbn [m_raw m_prot]; rewrite zlen_splice_at by lia; exact L]|].
  split; [reflexivity|]. split; [apply read_splice_at_same; lia|].
  split; [apply splice_at_before; lia|apply splice_at_after; lia].
Qed.

(* ================================================================================ typed round trips ==== *)
Definition ty_bits_ok (bits : Z) : Prop := bits = 8 \/ bits = 16 \/ bits = 32 \/ bits = 64.

Lemma eorder_involutive e bs : eorder e (eorder e bs) = bs.
Proof. destruct e; cbn [eorder]; [reflexivity|apply rev_involutive]. Qed.

Lemma zlen_eorder e bs : zlen (eorder e bs) = zlen bs.
Proof. destruct e; cbn [eorder]; [reflexivity|]. unfold zlen. now rewrite rev_length. Qed.

Lemma bytes_ok_eorder e bs : bytes_ok bs -> bytes_ok (eorder e bs).
Proof. destruct e; cbn [eorder]; [auto|apply bytes_ok_rev]. Qed.

Lemma take_all {A} (l : list A) n : n = zlen l -> take n l = l.
Proof. intros ->. unfold take, zlen. rewrite Nat2Z.id. apply firstn_all. Qed.

Lemma zlen_t_to_bytes bits e v : 0 <= bits -> zlen (t_to_bytes bits e v) = bits / 8.
Proof.
  intros H. unfold t_to_bytes. rewrite zlen_eorder, zlen_le_bytes. rewrite Z2Nat.id; [reflexivity|]. dlia.
Qed.

Lemma pow256_bits bits : ty_bits_ok bits -> 256 ^ Z.of_nat (Z.to_nat (bits / 8)) = 2 ^ bits.
Proof. intros [->|[->|[->| ->]]]; reflexivity. Qed.

(* the bytes written for x decode to x truncated to the type *)
Lemma t_bytes_cast bits sg e x : ty_bits_ok bits ->
  t_of_bytes bits sg e (t_to_bytes bits e x) = t_cast bits sg x.
Proof.
  intros Hb. unfold t_of_bytes, t_to_bytes. rewrite eorder_involutive.
  rewrite of_le_le_bytes.
  - unfold t_cast, sw, wrapu. destruct sg; [|reflexivity].
    rewrite Zplus_mod_idemp_l. reflexivity.
  - rewrite pow256_bits by exact Hb. unfold wrapu. apply Z.mod_pos_bound. apply pow2_pos.
    destruct Hb as [->|[->|[->| ->]]]; lia.
Qed.

Lemma t_cast_in_range bits sg v : ty_bits_ok bits -> t_in bits sg v = true -> t_cast bits sg v = v.
Proof.
  intros Hb H. unfold t_in, t_min, t_max in H. unfold t_cast, sw, wrapu.
  destruct Hb as [->|[->|[->| ->]]]; destruct sg; ev_pows; change (2 ^ 7) with 128 in *; dlia.
Qed.

Lemma t_bytes_roundtrip bits sg e v : ty_bits_ok bits -> t_in bits sg v = true ->
  t_of_bytes bits sg e (t_to_bytes bits e v) = v.
Proof. intros Hb H. rewrite t_bytes_cast by exact Hb. now apply t_cast_in_range. Qed.

Definition is_scalar_ty (t : regty) (bits : Z) (sg : bool) : Prop :=
  (t = TInt bits sg /\ ty_bits_ok bits) \/ (t = TF32 /\ bits = 32 /\ sg = false) \/ (t = TF64 /\ bits = 64 /\ sg = false).

Lemma region_after_write r data raw : 0 <= r_addr r -> zlen data = r_len r -> r_addr r + r_len r <= zlen raw ->
  region_of r (splice_at (r_addr r) data raw) = Ok data.
Proof.
  intros H0 H1 H2. unfold region_of. rewrite zlen_splice_at by lia.
  destruct (zlen raw <? r_addr r + r_len r) eqn:E; [lia|]. rewrite <- H1. f_equal. apply read_splice_at_same; lia.
Qed.

(* integers of every width and signedness, f32/f64 bit patterns: write then read returns the value,
   bytes outside the register are untouched *)
Lemma scalar_roundtrip r bits sg v raw : is_scalar_ty (r_ty r) bits sg -> r_len r = bits / 8 ->
  t_in bits sg v = true -> 0 <= r_addr r -> r_addr r + r_len r <= zlen raw ->
  exists raw', reg_write r (VInt v) raw = Ok raw' /\ zlen raw' = zlen raw /\
    reg_read r raw' = Ok (VInt v) /\
    take (r_addr r) raw' = take (r_addr r) raw /\ drop (r_addr r + r_len r) raw' = drop (r_addr r + r_len r) raw /\
    take (r_len r) (drop (r_addr r) raw') = t_to_bytes bits (r_endian r) v.
Proof.
  intros Ht Hl Hv H0 H1.
  assert (Hb : ty_bits_ok bits).
  { destruct Ht as [[_ H]|[[_ [-> _]]|[_ [-> _]]]]; [exact H|right; right; left; reflexivity|right; right; right; reflexivity]. }
  assert (Hpos : 0 <= bits) by (destruct Hb as [->|[->|[->| ->]]]; lia).
  set (data := t_to_bytes bits (r_endian r) v).
  assert (Hd : zlen data = r_len r) by (subst data; rewrite zlen_t_to_bytes by exact Hpos; lia).
  assert (Hser : reg_serialize r (VInt v) = Ok data).
  { unfold reg_serialize. destruct Ht as [[-> _]|[[-> [-> _]]|[-> [-> _]]]]; reflexivity. }
  assert (Hw : reg_write r (VInt v) raw = Ok (splice_at (r_addr r) data raw)).
  { unfold reg_write. replace (match r_ty r with TBitField _ _ _ _ => _ | _ => _ end) with
      (let? data := reg_serialize r (VInt v) in let? region := region_of r raw in
       if zlen data =? r_len r then Ok (splice_at (r_addr r) data raw) else Panic)
      by (destruct Ht as [[-> _]|[[-> _]|[-> _]]]; reflexivity).
    rewrite Hser. cbn [bind]. unfold region_of. destruct (zlen raw <? r_addr r + r_len r) eqn:E; [lia|]. cbn [bind].
    rewrite Hd, Z.eqb_refl. reflexivity. }
  exists (splice_at (r_addr r) data raw). split; [exact Hw|]. split; [apply zlen_splice_at; lia|]. split.
  - unfold reg_read. rewrite region_after_write by assumption. cbn [bind].
    assert (Hp : read_scalar bits sg (r_endian r) data = Ok v).
    { unfold read_scalar. rewrite Hd, Hl, Z.ltb_irrefl. rewrite take_all by lia. subst data.
      now rewrite t_bytes_roundtrip. }
    unfold reg_parse. destruct Ht as [[-> _]|[[-> [E1 E2]]|[-> [E1 E2]]]]; subst; rewrite Hp; reflexivity.
  - split; [apply splice_at_before; lia|]. split; [rewrite <- Hd; apply splice_at_after; lia|].
    rewrite <- Hd. apply read_splice_at_same; lia.
Qed.

(* strings *)
Lemma until_nul_pad s : forall k, m_until_nul (s ++ repeat 0 k) = m_until_nul s.
Proof.
  induction s as [|b s IH]; intros k; cbn [app m_until_nul].
  - destruct k; reflexivity.
  - destruct (b =? 0); [reflexivity|]. now rewrite IH.
Qed.

Lemma until_nul_ascii s : is_ascii s = true -> is_ascii (m_until_nul s) = true.
Proof.
  induction s as [|b s IH]; cbn [m_until_nul is_ascii forallb]; [auto|].
  intros H. apply andb_true_iff in H. destruct H as [H1 H2]. destruct (b =? 0); [reflexivity|].
  cbn [forallb]. rewrite H1. apply IH. exact H2.
Qed.

Lemma until_nul_no_nul s : Forall (fun b => b <> 0) s -> m_until_nul s = s.
Proof.
  induction 1 as [|b s Hb Hs IH]; cbn [m_until_nul]; [reflexivity|].
  destruct (b =? 0) eqn:E; [lia|]. now rewrite IH.
Qed.

Lemma nul_pos_spec bs :
  match nul_pos bs with
  | Some p => 0 <= p <= zlen bs /\ take p bs = m_until_nul bs
  | None => m_until_nul bs = bs
  end.
Proof.
  induction bs as [|b r IH]; cbn [nul_pos m_until_nul]; [reflexivity|].
  destruct (b =? 0).
  - split; [rewrite zlen_cons; pose proof (zlen_nonneg r); lia|reflexivity].
  - destruct (nul_pos r) as [p|].
    + destruct IH as [[A B] C]. split; [rewrite zlen_cons; lia|].
      unfold take. replace (Z.to_nat (p + 1)) with (S (Z.to_nat p)) by lia. cbn [firstn]. f_equal. exact C.
    + now rewrite IH.
Qed.

(* on the register's own bytes (what Register::read passes) the generated String parse is "cut at the first NUL" *)
Lemma parse_str_exact len data : zlen data = len ->
  parse_str len data = (let s := m_until_nul data in if is_ascii s then Ok (VBytes s) else Err ME_INVALID_DATA).
Proof.
  intros H. unfold parse_str. cbv zeta. pose proof (nul_pos_spec data) as N.
  destruct (nul_pos data) as [p|].
  - destruct N as [[A B] C]. destruct (zlen data <? p) eqn:E; [lia|]. now rewrite C.
  - rewrite H, Z.ltb_irrefl. rewrite take_all by lia. now rewrite N.
Qed.

Lemma string_roundtrip r s raw : r_ty r = TStr -> 0 <= r_addr r -> r_addr r + r_len r <= zlen raw ->
  (is_ascii s = true -> zlen s <= r_len r ->
   exists raw', reg_write r (VBytes s) raw = Ok raw' /\ zlen raw' = zlen raw /\
     reg_read r raw' = Ok (VBytes (m_until_nul s)) /\
     take (r_addr r) raw' = take (r_addr r) raw /\ drop (r_addr r + r_len r) raw' = drop (r_addr r + r_len r) raw) /\
  (is_ascii s = false \/ r_len r < zlen s -> reg_write r (VBytes s) raw = Err ME_INVALID_DATA).
Proof.
  intros Ht H0 H1. split.
  - intros Ha Hl.
    set (data := s ++ repeat 0 (Z.to_nat (r_len r - zlen s))).
    assert (Hd : zlen data = r_len r).
    { subst data. rewrite zlen_app. unfold zlen at 2. rewrite repeat_length. lia. }
    assert (Hser : reg_serialize r (VBytes s) = Ok data).
    { unfold reg_serialize. rewrite Ht, Ha. cbn [negb]. destruct (zlen s <? r_len r) eqn:E; [reflexivity|].
      destruct (r_len r <? zlen s) eqn:F; [lia|]. subst data. replace (r_len r - zlen s) with 0 by lia.
      cbn [Z.to_nat repeat]. now rewrite app_nil_r. }
    exists (splice_at (r_addr r) data raw). split.
    { unfold reg_write. rewrite Ht, Hser. cbn [bind]. unfold region_of.
      destruct (zlen raw <? r_addr r + r_len r) eqn:E; [lia|]. cbn [bind]. now rewrite Hd, Z.eqb_refl. }
    split; [apply zlen_splice_at; lia|]. split.
    { unfold reg_read. rewrite region_after_write by assumption. cbn [bind]. unfold reg_parse. rewrite Ht.
      rewrite parse_str_exact by exact Hd. cbv zeta.
      subst data. rewrite until_nul_pad. now rewrite until_nul_ascii. }
    split; [apply splice_at_before; lia|rewrite <- Hd; apply splice_at_after; lia].
  - intros H. unfold reg_write. rewrite Ht. unfold reg_serialize. rewrite Ht.
    destruct (is_ascii s) eqn:A; cbn [negb]; [|reflexivity]. destruct H as [H|H]; [discriminate|].
    destruct (zlen s <? r_len r) eqn:E; [lia|]. destruct (r_len r <? zlen s) eqn:F; [reflexivity|lia].
Qed.

Lemma bytes_roundtrip r s raw : r_ty r = TBytes -> 0 <= r_addr r -> r_addr r + r_len r <= zlen raw ->
  (zlen s = r_len r ->
   exists raw', reg_write r (VBytes s) raw = Ok raw' /\ zlen raw' = zlen raw /\ reg_read r raw' = Ok (VBytes s) /\
     take (r_addr r) raw' = take (r_addr r) raw /\ drop (r_addr r + r_len r) raw' = drop (r_addr r + r_len r) raw) /\
  (zlen s <> r_len r -> reg_write r (VBytes s) raw = Err ME_INVALID_DATA).
Proof.
  intros Ht H0 H1. split.
  - intros Hl. exists (splice_at (r_addr r) s raw). split.
    { unfold reg_write, reg_serialize. rewrite Ht. rewrite Hl, Z.eqb_refl. cbn [bind]. unfold region_of.
      destruct (zlen raw <? r_addr r + r_len r) eqn:E; [lia|]. cbn [bind]. now rewrite Hl, Z.eqb_refl. }
    split; [apply zlen_splice_at; lia|]. split.
    { unfold reg_read. rewrite region_after_write by assumption. cbn [bind]. unfold reg_parse. now rewrite Ht. }
    split; [apply splice_at_before; lia|rewrite <- Hl; apply splice_at_after; lia].
  - intros Hl. unfold reg_write, reg_serialize. rewrite Ht. destruct (zlen s =? r_len r) eqn:E; [lia|reflexivity].
Qed.

(* ================================================================================ bit fields =========== *)
(* normalised positions of a field in a `bits`-wide integer; reuses width / field_raw / mask_pat / mbit of P_C02 *)
Definition bf_ok (bits lsb msb : Z) : Prop := ty_bits_ok bits /\ 0 <= lsb <= msb /\ msb < bits.

Definition f_min (sg : bool) (lsb msb : Z) : Z := if sg then - 2 ^ (width lsb msb - 1) else 0.
Definition f_max (sg : bool) (lsb msb : Z) : Z := if sg then 2 ^ (width lsb msb - 1) - 1 else 2 ^ width lsb msb - 1.

Definition mk_code (bits : Z) (sg : bool) (lsb msb : Z) : bfcode :=
  {| c_bits := bits; c_signed := sg; c_lsb := lsb; c_msb := msb; c_min := f_min sg lsb msb; c_max := f_max sg lsb msb |}.

(* the value of mask() : bits lsb..msb set, as a value of the type *)
Definition mask_val (bits : Z) (sg : bool) (lsb msb : Z) : Z :=
  if sg && (msb =? bits - 1) then - 2 ^ lsb else 2 ^ (msb + 1) - 2 ^ lsb.

(* the field's value in a register pattern P *)
Definition spec_field (sg : bool) (lsb msb P : Z) : Z :=
  let f := field_raw lsb msb P in if sg then sw (width lsb msb) f else f.

Lemma bf_ok_field bits l m : bf_ok bits l m -> field_ok l m /\ 0 < bits /\ bits <= 64.
Proof. intros [Hb H]. unfold field_ok. destruct Hb as [->|[->|[->| ->]]]; lia. Qed.

(* ---- facts that depend on the macro parameters only: complete enumeration ---- *)
Definition all_pairs (bits : Z) : list (Z * Z) :=
  flat_map (fun l => map (fun m => (l, m)) (zrange l bits)) (zrange 0 bits).

Lemma in_all_pairs bits l m : 0 <= l <= m -> m < bits -> In (l, m) (all_pairs bits).
Proof.
  intros H1 H2. unfold all_pairs. apply in_flat_map. exists l. split; [apply in_zrange; lia|].
  apply in_map_iff. exists m. split; [reflexivity|apply in_zrange; lia].
Qed.

Definition code_eqb (a b : bfcode) : bool :=
  (c_bits a =? c_bits b) && Bool.eqb (c_signed a) (c_signed b) && (c_lsb a =? c_lsb b) && (c_msb a =? c_msb b) &&
  (c_min a =? c_min b) && (c_max a =? c_max b).

Lemma code_eqb_eq a b : code_eqb a b = true -> a = b.
Proof.
  unfold code_eqb. rewrite !andb_true_iff. intros [[[[[H1 H2] H3] H4] H5] H6].
  destruct a, b; cbn in *. apply Z.eqb_eq in H1, H3, H4, H5, H6. apply Bool.eqb_prop in H2. now subst.
Qed.

Definition chk_params (bits : Z) (sg : bool) (l m : Z) : bool :=
  match expand_bf MACRO_W bits sg LE l m with
  | Some c => code_eqb c (mk_code bits sg l m)
  | None => false
  end &&
  match gen_mask true (mk_code bits sg l m) with
  | Ok M => M =? mask_val bits sg l m
  | _ => false
  end.

Lemma param_sweep_true :
  forallb (fun bits => forallb (fun sg => forallb (fun lm => chk_params bits sg (fst lm) (snd lm)) (all_pairs bits))
                               [false; true]) [8; 16; 32; 64] = true.
Proof. vm_cast_no_check (eq_refl true). Qed.

Lemma params_chk bits sg l m : bf_ok bits l m -> chk_params bits sg l m = true.
Proof.
  intros [Hb [H1 H2]].
  assert (Hin : In bits [8; 16; 32; 64]) by (destruct Hb as [->|[->|[->| ->]]]; cbn; auto).
  assert (Hs : In sg [false; true]) by (destruct sg; cbn; auto).
  pose proof (proj1 (forallb_forall _ _) param_sweep_true bits Hin) as S1.
  pose proof (proj1 (forallb_forall _ _) S1 sg Hs) as S2.
  exact (proj1 (forallb_forall _ _) S2 (l, m) (in_all_pairs bits l m H1 H2)).
Qed.

Lemma params_ok bits sg l m : bf_ok bits l m ->
  expand_bf MACRO_W bits sg LE l m = Some (mk_code bits sg l m) /\
  gen_mask true (mk_code bits sg l m) = Ok (mask_val bits sg l m).
Proof.
  intros H. pose proof (params_chk bits sg l m H) as S. unfold chk_params in S.
  apply andb_true_iff in S. destruct S as [S1 S2]. split.
  - destruct (expand_bf MACRO_W bits sg LE l m) as [c|]; [|discriminate]. f_equal. now apply code_eqb_eq.
  - destruct (gen_mask true (mk_code bits sg l m)) as [M| |]; try discriminate. f_equal. now apply Z.eqb_eq.
Qed.

(* BE numbering declares the mirrored positions and expands to the same code *)
Lemma expand_be W bits sg l m : 0 <= l -> 0 <= m ->
  expand_bf W bits sg BE (bits - 1 - l) (bits - 1 - m) = expand_bf W bits sg LE l m.
Proof.
  intros Hl Hm. unfold expand_bf, mt_pos.
  replace (bits - (bits - 1 - l) - 1) with l by lia. replace (bits - (bits - 1 - m) - 1) with m by lia.
  destruct (0 <=? l) eqn:A; [|lia]. destruct (0 <=? m) eqn:B; [|lia]. reflexivity.
Qed.

(* declarations the macro must refuse *)
Lemma expand_rejects W bits sg l m : m < l \/ bits <= m -> expand_bf W bits sg LE l m = None.
Proof.
  intros H. unfold expand_bf, mt_pos. destruct (m <? l) eqn:A; [reflexivity|].
  destruct (bits <=? m) eqn:B; [reflexivity|lia].
Qed.

(* ---- bit-level helpers ---- *)
Lemma mask_val_pat bits sg l m : bf_ok bits l m -> sg && (m =? bits - 1) = false ->
  mask_val bits sg l m = mask_pat l m.
Proof.
  intros [Hb H] E. unfold mask_val, mask_pat, width. rewrite E.
  replace (m + 1) with ((m - l + 1) + l) by lia. rewrite pow2_split by lia. lia.
Qed.

Lemma neg_pow2_lnot l : 0 <= l -> - 2 ^ l = Z.lnot (Z.ones l).
Proof. intros H. rewrite Z.ones_equiv. pose proof (Z.add_lnot_diag (Z.pred (2 ^ l))). lia. Qed.

Lemma mask_val_testbit bits sg l m i : bf_ok bits l m -> 0 <= i < bits ->
  Z.testbit (mask_val bits sg l m) i = mbit l m i.
Proof.
  intros H Hi. pose proof (bf_ok_field _ _ _ H) as [F _]. destruct H as [Hb [H1 H2]].
  destruct (sg && (m =? bits - 1)) eqn:E.
  - unfold mask_val. rewrite E. apply andb_true_iff in E. destruct E as [_ E]. apply Z.eqb_eq in E.
    rewrite neg_pow2_lnot by lia. rewrite Z.lnot_spec by lia. unfold mbit.
    destruct (l <=? i) eqn:A.
    + rewrite Z.ones_spec_high by lia. destruct (i <=? m) eqn:B; [reflexivity|lia].
    + rewrite Z.ones_spec_low by lia. reflexivity.
  - rewrite mask_val_pat by (unfold bf_ok; auto). apply mask_testbit; [exact F|lia].
Qed.

Lemma mask_val_unsigned_range bits l m : bf_ok bits l m -> 0 <= mask_val bits false l m < 2 ^ bits.
Proof.
  intros [Hb [H1 H2]]. unfold mask_val. cbn [andb].
  pose proof (pow2_le l (m + 1) ltac:(lia)). pose proof (pow2_le (m + 1) bits ltac:(lia)).
  pose proof (pow2_pos l ltac:(lia)). lia.
Qed.

Lemma pow2_double k : 1 <= k -> 2 ^ k = 2 * 2 ^ (k - 1).
Proof. intros H. replace k with (1 + (k - 1)) at 1 by lia. rewrite pow2_split by lia. reflexivity. Qed.

Lemma tcast_mod bits sg z : 1 <= bits -> (t_cast bits sg z) mod 2 ^ bits = z mod 2 ^ bits.
Proof.
  intros H. unfold t_cast, sw, wrapu. destruct sg; [|apply Z.mod_mod; pose proof (pow2_pos bits); lia].
  rewrite Zminus_mod_idemp_l. f_equal. lia.
Qed.

Lemma tcast_testbit bits sg z i : 0 <= i < bits -> Z.testbit (t_cast bits sg z) i = Z.testbit z i.
Proof.
  intros H. rewrite <- (testbit_mod_low (t_cast bits sg z) bits i) by lia.
  rewrite tcast_mod by lia. apply testbit_mod_low. lia.
Qed.

Lemma tcast_in bits sg z : 1 <= bits -> t_in bits sg (t_cast bits sg z) = true.
Proof.
  intros H. unfold t_in, t_min, t_max, t_cast, sw, wrapu. pose proof (pow2_pos (bits - 1) ltac:(lia)).
  rewrite (pow2_double bits) by lia. destruct sg.
  - pose proof (Z.mod_pos_bound (z + 2 ^ (bits - 1)) (2 * 2 ^ (bits - 1)) ltac:(lia)). lia.
  - pose proof (Z.mod_pos_bound z (2 * 2 ^ (bits - 1)) ltac:(lia)). lia.
Qed.

Lemma tnot_testbit bits sg M i : 1 <= bits -> (sg = false -> 0 <= M < 2 ^ bits) -> 0 <= i < bits ->
  Z.testbit (t_not bits sg M) i = negb (Z.testbit M i).
Proof.
  intros Hb HM Hi. unfold t_not. destruct sg; [apply Z.lnot_spec; lia|].
  specialize (HM eq_refl).
  replace (2 ^ bits - 1 - M) with ((Z.lnot M) mod 2 ^ bits).
  - rewrite testbit_mod_low by lia. apply Z.lnot_spec. lia.
  - symmetry. apply (Z.mod_unique _ _ (-1)); [left; lia|]. pose proof (Z.add_lnot_diag M). lia.
Qed.

Lemma mul_pow2_testbit v l i : 0 <= l -> 0 <= i -> Z.testbit (v * 2 ^ l) i = Z.testbit v (i - l).
Proof. intros Hl Hi. rewrite <- Z.shiftl_mul_pow2 by lia. apply Z.shiftl_spec. lia. Qed.

(* the register value computed by write(): only the field's bits change, and they are v's low bits *)
Lemma new_value_bits bits sg l m orig v i : bf_ok bits l m -> 0 <= i < bits ->
  let M := mask_val bits sg l m in
  Z.testbit (Z.lor (Z.land orig (t_not bits sg M)) (Z.land (t_cast bits sg (v * 2 ^ l)) M)) i =
  if mbit l m i then Z.testbit v (i - l) else Z.testbit orig i.
Proof.
  intros H Hi M. pose proof (bf_ok_field _ _ _ H) as (F & B0 & B1). pose proof H as [Hb [H1 H2]].
  rewrite Z.lor_spec, !Z.land_spec.
  rewrite tnot_testbit by (try lia; intros ->; apply mask_val_unsigned_range; exact H).
  subst M. rewrite mask_val_testbit by assumption. rewrite tcast_testbit by lia.
  rewrite mul_pow2_testbit by lia.
  destruct (mbit l m i); cbn [negb]; rewrite ?andb_false_r, ?andb_true_r, ?orb_false_r, ?orb_false_l; reflexivity.
Qed.

(* ---- parse() ---- *)
Lemma land_mask_shiftr_any l m p : field_ok l m ->
  Z.shiftr (Z.land p (mask_pat l m)) l = field_raw l m p.
Proof.
  intros H. pose proof H as [H0 H1]. rewrite mask_pat_shiftl by exact H.
  rewrite Z.shiftr_land. rewrite Z.shiftr_shiftl_l by lia. rewrite Z.sub_diag, Z.shiftl_0_r.
  rewrite Z.land_ones by (unfold width; lia). rewrite Z.shiftr_div_pow2 by lia. reflexivity.
Qed.

Lemma field_raw_wrap bits l m v : bf_ok bits l m -> field_raw l m (wrapu bits v) = field_raw l m v.
Proof.
  intros H. pose proof (bf_ok_field _ _ _ H) as (F & B0 & B1). destruct H as [Hb [H1 H2]].
  apply Z.bits_inj'. intros j Hj. rewrite !field_raw_testbit by (auto; lia).
  destruct (j <? width l m) eqn:C; cbn [andb]; [|reflexivity].
  unfold wrapu. apply testbit_mod_low. unfold width in C. lia.
Qed.

Lemma shiftr_neg_pow2 l : 0 <= l -> Z.shiftr (- 2 ^ l) l = -1.
Proof.
  intros H. rewrite Z.shiftr_div_pow2 by lia. replace (- 2 ^ l) with ((-1) * 2 ^ l) by lia.
  apply Z.div_mul. pose proof (pow2_pos l H). lia.
Qed.

Lemma top_field bits l v : 1 <= bits -> 0 <= l < bits -> - 2 ^ (bits - 1) <= v < 2 ^ (bits - 1) ->
  Z.shiftr v l = sw (bits - l) (field_raw l (bits - 1) (wrapu bits v)).
Proof.
  intros Hb Hl Hv. unfold field_raw, width, wrapu.
  replace (bits - 1 - l + 1) with (bits - l) by lia. set (w := bits - l).
  assert (Hw : 1 <= w) by (subst w; lia).
  pose proof (pow2_pos l ltac:(lia)) as Pl. pose proof (pow2_pos w ltac:(lia)) as Pw.
  replace bits with (l + w) at 1 by (subst w; lia). rewrite pow2_split by lia.
  rewrite Z.rem_mul_r by lia.
  replace ((v mod 2 ^ l + 2 ^ l * ((v / 2 ^ l) mod 2 ^ w)) / 2 ^ l) with ((v / 2 ^ l) mod 2 ^ w).
  2:{ rewrite (Z.mul_comm (2 ^ l)). rewrite Z.div_add by lia. rewrite (Z.div_small (v mod 2 ^ l) (2 ^ l)) by (apply Z.mod_pos_bound; lia). lia. }
  rewrite Z.mod_mod by lia. rewrite Z.shiftr_div_pow2 by lia. symmetry. apply sw_mod; [exact Hw|].
  assert (E : 2 ^ (bits - 1) = 2 ^ l * 2 ^ (w - 1)).
  { rewrite <- pow2_split by lia. f_equal. subst w. lia. }
  rewrite E in Hv. split.
  - apply Z.div_le_lower_bound; lia.
  - apply Z.div_lt_upper_bound; lia.
Qed.

Lemma sw_small w z : 1 <= w -> 0 <= z < 2 ^ (w - 1) -> sw w z = z.
Proof.
  intros Hw Hz. unfold sw. rewrite (pow2_double w) by lia. rewrite Z.mod_small by lia. lia.
Qed.

Lemma land_pow2_testbit k f : 0 <= k -> (Z.land (2 ^ k) f =? 0) = negb (Z.testbit f k).
Proof.
  intros Hk. destruct (Z.testbit f k) eqn:T; cbn [negb].
  - assert (E : Z.land (2 ^ k) f = 2 ^ k).
    { apply Z.bits_inj'. intros i Hi. rewrite Z.land_spec, Z.pow2_bits_eqb by lia.
      destruct (k =? i) eqn:Q; [|reflexivity]. apply Z.eqb_eq in Q. subst i. now rewrite T. }
    rewrite E. pose proof (pow2_pos k Hk). apply Z.eqb_neq. lia.
  - assert (E : Z.land (2 ^ k) f = 0).
    { apply Z.bits_inj'. intros i Hi. rewrite Z.land_spec, Z.pow2_bits_eqb, Z.bits_0 by lia.
      destruct (k =? i) eqn:Q; [|reflexivity]. apply Z.eqb_eq in Q. subst i. now rewrite T. }
    now rewrite E.
Qed.

Lemma lor_neg_pow2 f w : 0 <= w -> 0 <= f < 2 ^ w -> Z.lor f (- 2 ^ w) = f - 2 ^ w.
Proof.
  intros Hw Hf. replace (- 2 ^ w) with (Z.shiftl (-1) w) by (rewrite Z.shiftl_mul_pow2 by lia; lia).
  assert (D : Z.land f (Z.shiftl (-1) w) = 0).
  { apply Z.bits_inj'. intros i Hi. rewrite Z.land_spec, Z.bits_0.
    destruct (i <? w) eqn:C.
    - rewrite Z.shiftl_spec_low by lia. apply andb_false_r.
    - rewrite (testbit_high f w i) by lia. reflexivity. }
  rewrite <- Z.lxor_lor by exact D. rewrite <- Z.add_nocarry_lxor by exact D.
  rewrite Z.shiftl_mul_pow2 by lia. lia.
Qed.

Lemma testbit_top w f : 1 <= w -> 0 <= f < 2 ^ w -> Z.testbit f (w - 1) = (2 ^ (w - 1) <=? f).
Proof.
  intros Hw Hf. rewrite <- (shiftr_top w f Hw Hf). rewrite Z.testbit_odd.
  pose proof (pow2_pos (w - 1) ltac:(lia)) as Ph. rewrite (pow2_double w) in Hf by lia.
  assert (R : 0 <= Z.shiftr f (w - 1) < 2).
  { rewrite Z.shiftr_div_pow2 by lia. split; [apply Z.div_pos; lia|apply Z.div_lt_upper_bound; lia]. }
  destruct (Z.shiftr f (w - 1) =? 1) eqn:E.
  - apply Z.eqb_eq in E. now rewrite E.
  - apply Z.eqb_neq in E. replace (Z.shiftr f (w - 1)) with 0 by lia. reflexivity.
Qed.

Lemma in_ty_wrap bits sg v : ty_bits_ok bits -> t_in bits sg v = true ->
  (sg = false -> wrapu bits v = v) /\ (sg = true -> - 2 ^ (bits - 1) <= v < 2 ^ (bits - 1)).
Proof.
  intros Hb H. unfold t_in, t_min, t_max in H. split; intros ->.
  - unfold wrapu. apply Z.mod_small. lia.
  - lia.
Qed.

Lemma parse_spec bits sg l m v : bf_ok bits l m -> t_in bits sg v = true ->
  gen_parse true (mk_code bits sg l m) v = Ok (spec_field sg l m (wrapu bits v)).
Proof.
  intros H Hv. pose proof (bf_ok_field _ _ _ H) as (F & B0 & B1). pose proof H as [Hb [H1 H2]].
  destruct (params_ok bits sg l m H) as [_ HM].
  destruct (in_ty_wrap bits sg v Hb Hv) as [Wu Ws].
  unfold gen_parse. cbn [c_bits c_signed c_lsb c_msb mk_code]. cbv zeta. rewrite HM. cbn [bind].
  unfold t_shr. replace ((0 <=? l) && (l <? bits)) with true by (symmetry; apply andb_true_iff; split; lia).
  cbn [bind]. unfold spec_field. cbv zeta. rewrite field_raw_wrap by exact H.
  destruct sg.
  - (* signed *)
    unfold t_shl. replace ((0 <=? m - l) && (m - l <? bits)) with true by (symmetry; apply andb_true_iff; split; lia).
    cbn [bind]. rewrite Z.mul_1_l.
    destruct (m =? bits - 1) eqn:T.
    + apply Z.eqb_eq in T. unfold mask_val. rewrite T, Z.eqb_refl. cbn [andb].
      rewrite Z.shiftr_land, shiftr_neg_pow2, Z.land_m1_r by lia.
      rewrite Z.lxor_nilpotent, Z.lor_0_r.
      assert (E : Z.shiftr v l = sw (width l (bits - 1)) (field_raw l (bits - 1) v)).
      { rewrite <- (field_raw_wrap bits l (bits - 1) v) by (subst m; exact H).
        unfold width. replace (bits - 1 - l + 1) with (bits - l) by lia. specialize (Ws eq_refl). apply top_field; lia. }
      rewrite <- E. destruct (negb _); reflexivity.
    + apply Z.eqb_neq in T. rewrite mask_val_pat by (auto; cbn [andb]; apply Z.eqb_neq; exact T).
      rewrite land_mask_shiftr_any by exact F. set (f := field_raw l m v).
      pose proof (field_raw_range l m v F) as Rf. fold f in Rf. set (w := width l m) in *.
      assert (Hw : 1 <= w) by (subst w; unfold width; lia).
      assert (Em : m - l = w - 1) by (subst w; unfold width; lia). rewrite Em.
      unfold t_cast.
      assert (Hs : 0 <= 2 ^ (w - 1) < 2 ^ (bits - 1)) by (split; [pose proof (pow2_pos (w - 1)); lia|apply pow2_lt; subst w; unfold width; lia]).
      rewrite (sw_small bits (2 ^ (w - 1))) by (auto; lia).
      rewrite land_pow2_testbit by lia. rewrite negb_involutive.
      rewrite mask_pat_shiftl by exact F. rewrite Z.shiftr_shiftl_l by lia. rewrite Z.sub_diag, Z.shiftl_0_r.
      rewrite Z.lxor_m1_l. fold w. rewrite <- neg_pow2_lnot by lia.
      rewrite testbit_top by assumption. rewrite sw_eq_sub by assumption.
      destruct (2 ^ (w - 1) <=? f); [|reflexivity]. now rewrite lor_neg_pow2 by lia.
  - (* unsigned *)
    rewrite mask_val_pat by (auto; reflexivity). now rewrite land_mask_shiftr_any by exact F.
Qed.

(* ---- masked_int() / write() ---- *)
Lemma masked_int_spec bits sg l m v : bf_ok bits l m ->
  gen_masked_int true (mk_code bits sg l m) v =
  if (v <? f_min sg l m) || (f_max sg l m <? v) then Err ME_INVALID_DATA
  else Ok (Z.land (t_cast bits sg (v * 2 ^ l)) (mask_val bits sg l m)).
Proof.
  intros H. pose proof H as [Hb [H1 H2]]. destruct (params_ok bits sg l m H) as [_ HM].
  unfold gen_masked_int. cbn [c_bits c_signed c_lsb c_msb c_min c_max mk_code]. cbv zeta.
  destruct ((v <? f_min sg l m) || (f_max sg l m <? v)); [reflexivity|].
  unfold t_shl. replace ((0 <=? l) && (l <? bits)) with true by (symmetry; apply andb_true_iff; split; lia).
  cbn [bind]. rewrite HM. reflexivity.
Qed.

(* min / max are exactly the field's representable range *)
Lemma field_range_in_ty bits sg l m v : bf_ok bits l m -> f_min sg l m <= v <= f_max sg l m -> t_in bits sg v = true.
Proof.
  intros H Hv. pose proof H as [Hb [H1 H2]]. unfold f_min, f_max in Hv. unfold t_in, t_min, t_max.
  set (w := width l m) in *. assert (Hw : 1 <= w <= bits) by (subst w; unfold width; lia).
  destruct sg.
  - pose proof (pow2_le (w - 1) (bits - 1) ltac:(lia)). lia.
  - pose proof (pow2_le w bits ltac:(lia)). lia.
Qed.

Definition reg_pattern (e : endian) (region : list Z) : Z := of_le (eorder e region).

Lemma reg_pattern_range bits e region : ty_bits_ok bits -> bytes_ok region -> zlen region = bits / 8 ->
  0 <= reg_pattern e region < 2 ^ bits.
Proof.
  intros Hb Hok Hl. unfold reg_pattern. pose proof (of_le_bound (eorder e region) (bytes_ok_eorder e _ Hok)) as B.
  replace (Z.of_nat (length (eorder e region))) with (Z.of_nat (Z.to_nat (bits / 8))) in B.
  - now rewrite pow256_bits in B.
  - pose proof (zlen_eorder e region) as Z1. unfold zlen in *. lia.
Qed.

Lemma t_of_bytes_cast bits sg e region : ty_bits_ok bits -> bytes_ok region -> zlen region = bits / 8 ->
  t_of_bytes bits sg e region = t_cast bits sg (reg_pattern e region).
Proof.
  intros Hb Hok Hl. unfold t_of_bytes, t_cast. fold (reg_pattern e region). destruct sg; [reflexivity|].
  unfold wrapu. symmetry. apply Z.mod_small. now apply reg_pattern_range.
Qed.

Lemma bits_pos bits : ty_bits_ok bits -> 1 <= bits /\ 0 <= bits / 8.
Proof. intros [->|[->|[->| ->]]]; cbn; lia. Qed.

Lemma reg_pattern_to_bytes bits e x : ty_bits_ok bits -> reg_pattern e (t_to_bytes bits e x) = wrapu bits x.
Proof.
  intros Hb. unfold reg_pattern, t_to_bytes. rewrite eorder_involutive. apply of_le_le_bytes.
  rewrite pow256_bits by exact Hb. unfold wrapu. apply Z.mod_pos_bound. apply pow2_pos. pose proof (bits_pos bits Hb). lia.
Qed.

Lemma bytes_ok_t_to_bytes bits e x : bytes_ok (t_to_bytes bits e x).
Proof. unfold t_to_bytes. apply bytes_ok_eorder. apply le_bytes_ok. Qed.

Lemma write_front_same img region : zlen img = zlen region -> write_front img region = img.
Proof.
  intros H. unfold write_front. rewrite H, Z.min_id. rewrite <- H at 1. rewrite take_all by reflexivity.
  unfold drop, zlen. rewrite Nat2Z.id, skipn_all. apply app_nil_r.
Qed.

(* reading: for every register content the value is the field's bits, sign-interpreted *)
Lemma bitfield_read_any bits sg l m e region : bf_ok bits l m -> bytes_ok region -> zlen region = bits / 8 ->
  gen_read true (mk_code bits sg l m) e region = Ok (spec_field sg l m (reg_pattern e region)).
Proof.
  intros H Hok Hl. pose proof H as [Hb _]. pose proof (bits_pos bits Hb) as [P1 P2].
  unfold gen_read, read_scalar. cbn [c_bits c_signed mk_code]. rewrite Hl, Z.ltb_irrefl. cbn [bind].
  rewrite take_all by lia. rewrite t_of_bytes_cast by assumption.
  rewrite parse_spec by (auto; apply tcast_in; lia). f_equal. f_equal.
  unfold wrapu. rewrite tcast_mod by lia. apply Z.mod_small. now apply reg_pattern_range.
Qed.

Lemma bitfield_write_out_of_range bits sg l m e v region : bf_ok bits l m ->
  v < f_min sg l m \/ f_max sg l m < v ->
  gen_write true (mk_code bits sg l m) e v region = Err ME_INVALID_DATA.
Proof.
  intros H Hv. unfold gen_write. rewrite masked_int_spec by exact H.
  destruct ((v <? f_min sg l m) || (f_max sg l m <? v)) eqn:C; [reflexivity|].
  apply orb_false_iff in C. destruct C. lia.
Qed.

Lemma bitfield_write_read bits sg l m e v region : bf_ok bits l m -> bytes_ok region -> zlen region = bits / 8 ->
  f_min sg l m <= v <= f_max sg l m ->
  exists region', gen_write true (mk_code bits sg l m) e v region = Ok region' /\
    zlen region' = zlen region /\ bytes_ok region' /\
    gen_read true (mk_code bits sg l m) e region' = Ok v /\
    (forall i, 0 <= i < bits -> mbit l m i = false ->
       Z.testbit (reg_pattern e region') i = Z.testbit (reg_pattern e region) i) /\
    (forall i, 0 <= i < bits -> mbit l m i = true ->
       Z.testbit (reg_pattern e region') i = Z.testbit v (i - l)).
Proof.
  intros H Hok Hl Hv. pose proof H as [Hb [H1 H2]]. pose proof (bits_pos bits Hb) as [P1 P2].
  pose proof (bf_ok_field _ _ _ H) as (F & B0 & B1). destruct (params_ok bits sg l m H) as [_ HM].
  set (M := mask_val bits sg l m).
  set (orig := t_cast bits sg (reg_pattern e region)).
  set (nv := Z.lor (Z.land orig (t_not bits sg M)) (Z.land (t_cast bits sg (v * 2 ^ l)) M)).
  assert (Hw : gen_write true (mk_code bits sg l m) e v region = Ok (t_to_bytes bits e nv)).
  { unfold gen_write. rewrite masked_int_spec by exact H.
    destruct ((v <? f_min sg l m) || (f_max sg l m <? v)) eqn:C.
    { apply orb_true_iff in C. destruct C; lia. }
    cbn [bind]. unfold read_scalar. cbn [c_bits c_signed mk_code]. rewrite Hl, Z.ltb_irrefl. cbn [bind].
    rewrite take_all by lia. rewrite t_of_bytes_cast by assumption. rewrite HM. cbn [bind].
    rewrite write_front_same by (rewrite zlen_t_to_bytes by lia; lia). reflexivity. }
  assert (Hbits : forall i, 0 <= i < bits -> Z.testbit (wrapu bits nv) i =
                  if mbit l m i then Z.testbit v (i - l) else Z.testbit (reg_pattern e region) i).
  { intros i Hi. unfold wrapu. rewrite testbit_mod_low by lia. subst nv M.
    rewrite (new_value_bits bits sg l m orig v i H Hi). destruct (mbit l m i); [reflexivity|].
    subst orig. apply tcast_testbit. lia. }
  exists (t_to_bytes bits e nv). split; [exact Hw|]. split; [rewrite zlen_t_to_bytes by lia; lia|].
  split; [apply bytes_ok_t_to_bytes|]. split.
  - rewrite bitfield_read_any by (auto using bytes_ok_t_to_bytes; rewrite zlen_t_to_bytes by lia; reflexivity).
    rewrite reg_pattern_to_bytes by exact Hb. f_equal. unfold spec_field. cbv zeta.
    assert (E : field_raw l m (wrapu bits nv) = v mod 2 ^ width l m).
    { apply Z.bits_inj'. intros j Hj. rewrite field_raw_testbit by (auto; lia).
      destruct (j <? width l m) eqn:C; cbn [andb].
      - rewrite Z.mod_pow2_bits_low by lia. unfold width in C. rewrite Hbits by lia.
        unfold mbit. destruct (l <=? j + l) eqn:A; [|lia]. destruct (j + l <=? m) eqn:B; [|lia]. cbn [andb].
        f_equal. lia.
      - symmetry. apply Z.mod_pow2_bits_high. unfold width in *. lia. }
    rewrite E. unfold f_min, f_max in Hv. set (w := width l m) in *.
    assert (Hw' : 1 <= w) by (subst w; unfold width; lia).
    destruct sg; [apply sw_mod; lia|apply Z.mod_small; lia].
  - split; intros i Hi Hm; rewrite reg_pattern_to_bytes by exact Hb; rewrite Hbits by exact Hi; now rewrite Hm.
Qed.

(* ---- the pinned code (before the fix: commits) ---- *)
Lemma signed_top_bit_v0_refuted :
  gen_mask false (mk_code 8 true 7 7) = Ok 127 /\
  gen_read false (mk_code 8 true 7 7) LE [128] = Ok 0 /\ spec_field true 7 7 128 = -1 /\
  gen_write false (mk_code 8 true 7 7) LE (-1) [0] = Ok [0].
Proof. vm_compute. repeat split; reflexivity. Qed.

Lemma wide_fields_v0_refuted :
  expand_bf 64 64 false LE 0 63 = None /\ expand_bf 64 64 true LE 0 63 = None /\
  expand_bf 64 64 false LE 0 62 = None /\ expand_bf 64 64 false LE 1 63 = None /\
  bf_ok 64 0 63 /\ bf_ok 64 0 62 /\ bf_ok 64 1 63.
Proof. unfold bf_ok, ty_bits_ok. repeat split; try reflexivity; lia. Qed.

Lemma raw_access_v0_refuted :
  let m := {| m_raw := [0; 0; 0; 0]; m_prot := prot_new 4; m_obs := [] |} in
  read_raw_v0 m 5 5 = Panic /\ read_raw_v0 m 3 1 = Panic /\ write_raw_v0 m 5 [] = Panic /\
  write_raw_v0 m USIZE_MAX [0] = Panic.
Proof. vm_compute. repeat split; reflexivity. Qed.

(* ---- from the declaration (type, declared LSB/MSB, endianness of the map) to the register's behaviour ---- *)
Definition norm_pos (bits : Z) (e : endian) (raw : Z) : Z := match e with LE => raw | BE => bits - 1 - raw end.

Lemma expand_norm bits sg e rl rm :
  bf_ok bits (norm_pos bits e rl) (norm_pos bits e rm) ->
  expand_bf MACRO_W bits sg e rl rm = Some (mk_code bits sg (norm_pos bits e rl) (norm_pos bits e rm)).
Proof.
  intros H. destruct e; cbn [norm_pos] in *.
  - apply params_ok. exact H.
  - pose proof H as [_ [H1 H2]].
    rewrite <- (proj1 (params_ok bits sg _ _ H)). rewrite <- (expand_be MACRO_W bits sg) by lia.
    f_equal; lia.
Qed.

Lemma zlen_write_front img region : zlen (write_front img region) = zlen region.
Proof.
  unfold write_front. pose proof (zlen_nonneg img). pose proof (zlen_nonneg region).
  rewrite zlen_app, zlen_take, zlen_drop by lia. lia.
Qed.

Lemma bitfield_register r bits sg rl rm raw :
  r_ty r = TBitField bits sg rl rm ->
  let l := norm_pos bits (r_endian r) rl in
  let m := norm_pos bits (r_endian r) rm in
  bf_ok bits l m -> r_len r = bits / 8 -> 0 <= r_addr r -> r_addr r + r_len r <= zlen raw -> bytes_ok raw ->
  let region := take (r_len r) (drop (r_addr r) raw) in
  (* reading *)
  reg_read r raw = Ok (VInt (spec_field sg l m (reg_pattern (r_endian r) region))) /\
  (* writing a value outside [min, max] is refused (and nothing is written) *)
  (forall v, v < f_min sg l m \/ f_max sg l m < v -> reg_write r (VInt v) raw = Err ME_INVALID_DATA) /\
  (* writing a value inside: read-back, only the field's bits of the register change, other bytes untouched *)
  (forall v, f_min sg l m <= v <= f_max sg l m ->
     exists raw', reg_write r (VInt v) raw = Ok raw' /\ zlen raw' = zlen raw /\
       reg_read r raw' = Ok (VInt v) /\
       take (r_addr r) raw' = take (r_addr r) raw /\
       drop (r_addr r + r_len r) raw' = drop (r_addr r + r_len r) raw /\
       forall i, 0 <= i < bits -> mbit l m i = false ->
         Z.testbit (reg_pattern (r_endian r) (take (r_len r) (drop (r_addr r) raw'))) i =
         Z.testbit (reg_pattern (r_endian r) region) i).
Proof.
  intros Ht l m H Hl H0 H1 Hok region.
  pose proof (expand_norm bits sg (r_endian r) rl rm H) as Hx. fold l m in Hx.
  assert (Hreg : region_of r raw = Ok region).
  { unfold region_of. destruct (zlen raw <? r_addr r + r_len r) eqn:E; [lia|]. reflexivity. }
  assert (Hrok : bytes_ok region) by (subst region; apply bytes_ok_take, bytes_ok_drop, Hok).
  pose proof H as [Hb _]. pose proof (bits_pos bits Hb) as [P1 P2].
  assert (Hrl : zlen region = bits / 8).
  { subst region. rewrite zlen_take; [lia|]. rewrite zlen_drop by lia. lia. }
  split; [|split].
  - unfold reg_read. rewrite Hreg. cbn [bind]. unfold reg_parse. rewrite Ht, Hx.
    rewrite bitfield_read_any by assumption. reflexivity.
  - intros v Hv. unfold reg_write. rewrite Ht, Hx. rewrite masked_int_spec by exact H.
    destruct ((v <? f_min sg l m) || (f_max sg l m <? v)) eqn:C; [reflexivity|].
    apply orb_false_iff in C. destruct C. lia.
  - intros v Hv.
    destruct (bitfield_write_read bits sg l m (r_endian r) v region H Hrok Hrl Hv)
      as (region' & W1 & W2 & W3 & W4 & W5 & _).
    assert (Hl' : zlen region' = r_len r) by lia.
    exists (splice_at (r_addr r) region' raw). split.
    { unfold reg_write. rewrite Ht, Hx. rewrite masked_int_spec by exact H.
      destruct ((v <? f_min sg l m) || (f_max sg l m <? v)) eqn:C.
      { apply orb_true_iff in C. destruct C; lia. }
      cbn [bind]. rewrite Hreg. cbn [bind]. rewrite W1. reflexivity. }
    split; [apply zlen_splice_at; lia|]. split.
    { unfold reg_read. rewrite region_after_write by assumption. cbn [bind]. unfold reg_parse. rewrite Ht, Hx.
      rewrite W4. reflexivity. }
    split; [apply splice_at_before; lia|]. split; [rewrite <- Hl'; apply splice_at_after; lia|].
    intros i Hi Hm. rewrite <- Hl'. rewrite read_splice_at_same by lia. apply W5; assumption.
Qed.

(* ================================================================================ observers on writes ==== *)
Lemma observers_on_write m :
  (forall a buf m', write_raw m a buf = Ok m' -> m_obs m' = notify_all (m_obs m) a (a + zlen buf)) /\
  (forall r v m', mem_write m r v = Ok m' -> m_obs m' = notify_all (m_obs m) (r_addr r) (r_addr r + r_len r)) /\
  (forall r a m', mem_set_access_right m r a = Ok m' -> m_obs m' = m_obs m /\ m_raw m' = m_raw m).
Proof.
  split; [|split].
  - intros a buf m' H. unfold write_raw in H.
    destruct (USIZE_MAX <? a + zlen buf); [discriminate|].
    destruct (prot_verify_range _ _ _); cbn [bind] in H; try discriminate.
    destruct (prot_range_right _ _ _); cbn [bind] in H; try discriminate.
    destruct (negb _); [discriminate|]. destruct (slice_get _ _ _); [|discriminate].
    apply Ok_inj in H. subst m'. reflexivity.
  - intros r v m' H. unfold mem_write in H. destruct (reg_write r v (m_raw m)); cbn [bind] in H; try discriminate.
    apply Ok_inj in H. subst m'. reflexivity.
  - intros r a m' H. unfold mem_set_access_right in H.
    destruct (prot_set_range _ _ _ _); cbn [bind] in H; try discriminate.
    apply Ok_inj in H. subst m'. split; reflexivity.
Qed.

(* ================================================================================ packaged statements ==== *)
Lemma protection_new size : 0 <= size ->
  prot_wf (prot_new size) /\ forall a, 0 <= a < size -> prot_get (prot_new size) a = Ok NA.
Proof. intros H. split; [exact (prot_new_wf size H)|exact (prot_new_cells size)]. Qed.

Lemma layout_size md :
  (forall f, In f md ->
     (forall r, In r (frag_regs f) -> reg_end r <= fd_base f + frag_size f) /\
     (frag_size f = 0 \/ exists r, In r (frag_regs f) /\ reg_end r = fd_base f + frag_size f)) /\
  0 <= mem_size md /\
  (forall f, In f md -> fd_base f + frag_size f <= mem_size md) /\
  (mem_size md = 0 \/ exists f, In f md /\ fd_base f + frag_size f = mem_size md) /\
  (forall r, In r (all_regs md) -> reg_end r <= mem_size md).
Proof.
  split; [intros f _; exact (frag_size_spec f)|].
  destruct (mem_size_spec md) as (A & B & C). repeat split; auto. exact (reg_in_memory md).
Qed.

Lemma bitfield_expand bits sg e rl rm :
  (bf_ok bits (norm_pos bits e rl) (norm_pos bits e rm) ->
   expand_bf MACRO_W bits sg e rl rm = Some (mk_code bits sg (norm_pos bits e rl) (norm_pos bits e rm))) /\
  (rm < rl \/ bits <= rm -> expand_bf MACRO_W bits sg LE rl rm = None).
Proof. split; [exact (expand_norm bits sg e rl rm)|exact (expand_rejects MACRO_W bits sg rl rm)]. Qed.

Lemma bitfield_mask bits sg l m : bf_ok bits l m ->
  gen_mask true (mk_code bits sg l m) = Ok (mask_val bits sg l m) /\
  forall i, 0 <= i < bits -> Z.testbit (mask_val bits sg l m) i = mbit l m i.
Proof.
  intros H. split; [exact (proj2 (params_ok bits sg l m H))|].
  intros i Hi. exact (mask_val_testbit bits sg l m i H Hi).
Qed.

Lemma observers_all m :
  (forall obs ws we, notify_all obs ws we =
     map (fun '(s, e, n) => (s, e, if (Z.max ws s <? Z.min we e) then n + 1 else n)) obs) /\
  (forall ws we s e, (Z.max ws s <? Z.min we e) = true <-> exists a, ws <= a < we /\ s <= a < e) /\
  (forall a buf m', write_raw m a buf = Ok m' -> m_obs m' = notify_all (m_obs m) a (a + zlen buf)) /\
  (forall r v m', mem_write m r v = Ok m' -> m_obs m' = notify_all (m_obs m) (r_addr r) (r_addr r + r_len r)) /\
  (forall r a m', mem_set_access_right m r a = Ok m' -> m_obs m' = m_obs m /\ m_raw m' = m_raw m).
Proof. split; [exact notify_all_spec|]. split; [exact overlap_iff|]. exact (observers_on_write m). Qed.

(* ================================================================================ reachable memories ===== *)
(* Memory::new() and every operation keep the memory well formed, so the raw-access theorems apply to every
   state a program can reach. *)
Definition regs_ok (md : list fragdecl) : Prop := Forall (fun r => 0 <= r_addr r /\ 0 <= r_len r) (all_regs md).

Lemma prot_set_list_wf l : forall p r, prot_wf p -> (forall i, In i l -> 0 <= i < p_size p) ->
  exists p', prot_set_list p l r = Ok p' /\ prot_wf p' /\ p_size p' = p_size p.
Proof.
  induction l as [|i l IH]; intros p r W Hl; cbn [prot_set_list]; [eauto|].
  destruct (protection_cells p i r W (Hl i (or_introl eq_refl))) as (p1 & S1 & W1 & Z1 & _). rewrite S1. cbn [bind].
  destruct (IH p1 r W1) as (p2 & S2 & W2 & Z2).
  { intros j Hj. rewrite Z1. apply Hl. now right. }
  exists p2. split; [exact S2|]. split; [exact W2|lia].
Qed.

Lemma prot_set_range_wf p s e r : prot_wf p -> 0 <= s -> e <= p_size p ->
  exists p', prot_set_range p s e r = Ok p' /\ prot_wf p' /\ p_size p' = p_size p.
Proof.
  intros W Hs He. unfold prot_set_range. apply prot_set_list_wf; [exact W|].
  intros i Hi. apply in_zrange in Hi. lia.
Qed.

Lemma init_prot_wf rs : forall p, prot_wf p -> Forall (fun r => 0 <= r_addr r /\ r_addr r + r_len r <= p_size p) rs ->
  exists p', init_prot p rs = Ok p' /\ prot_wf p' /\ p_size p' = p_size p.
Proof.
  induction rs as [|r rs IH]; intros p W H; cbn [init_prot]; [eauto|].
  inversion H as [|? ? [H1 H2] H3]; subst.
  destruct (prot_set_range_wf p (r_addr r) (r_addr r + r_len r) (r_acc r) W H1 H2) as (p1 & S1 & W1 & Z1).
  rewrite S1. cbn [bind]. destruct (IH p1 W1) as (p2 & S2 & W2 & Z2).
  { rewrite Z1. exact H3. }
  exists p2. split; [exact S2|]. split; [exact W2|lia].
Qed.

Lemma region_of_ok r raw region : region_of r raw = Ok region -> 0 <= r_addr r -> 0 <= r_len r ->
  r_addr r + r_len r <= zlen raw /\ zlen region = r_len r.
Proof.
  unfold region_of. destruct (zlen raw <? r_addr r + r_len r) eqn:E; [discriminate|].
  intros H H0 H1. apply Ok_inj in H. subst region. split; [lia|].
  rewrite zlen_take; [lia|]. rewrite zlen_drop by lia. lia.
Qed.

Lemma default_write_len r data raw raw' : 0 <= r_addr r -> 0 <= r_len r ->
  (let? region := region_of r raw in if zlen data =? r_len r then Ok (splice_at (r_addr r) data raw) else Panic) = Ok raw' ->
  zlen raw' = zlen raw.
Proof.
  intros H0 H1 H. destruct (region_of r raw) as [region| |] eqn:R; cbn [bind] in H; try discriminate.
  destruct (region_of_ok r raw region R H0 H1) as [A B].
  destruct (zlen data =? r_len r) eqn:E; [|discriminate]. apply Ok_inj in H. subst raw'.
  apply zlen_splice_at; lia.
Qed.

Lemma reg_write_len r v raw raw' : 0 <= r_addr r -> 0 <= r_len r -> reg_write r v raw = Ok raw' -> zlen raw' = zlen raw.
Proof.
  intros H0 H1 H. unfold reg_write in H.
  destruct (r_ty r) eqn:T; destruct v as [z|bs];
    try (destruct (reg_serialize r _) as [data| |]; cbn [bind] in H; try discriminate;
         exact (default_write_len r data raw raw' H0 H1 H)).
  destruct (expand_bf MACRO_W bits signed (r_endian r) rawlsb rawmsb) as [c|]; [|discriminate].
  destruct (gen_masked_int true c z); cbn [bind] in H; try discriminate.
  destruct (region_of r raw) as [region| |] eqn:R; cbn [bind] in H; try discriminate.
  destruct (region_of_ok r raw region R H0 H1) as [A B].
  destruct (gen_write true c (r_endian r) z region) as [region'| |] eqn:G; cbn [bind] in H; try discriminate.
  apply Ok_inj in H. subst raw'.
  assert (zlen region' = zlen region).
  { unfold gen_write in G. destruct (gen_masked_int true c z); cbn [bind] in G; try discriminate.
    destruct (read_scalar _ _ _ _); cbn [bind] in G; try discriminate.
    destruct (gen_mask true c); cbn [bind] in G; try discriminate.
    apply Ok_inj in G. subst region'. apply zlen_write_front. }
  apply zlen_splice_at; lia.
Qed.

Lemma init_raw_len rs : forall raw raw', Forall (fun r => 0 <= r_addr r /\ 0 <= r_len r) rs ->
  init_raw raw rs = Ok raw' -> zlen raw' = zlen raw.
Proof.
  induction rs as [|r rs IH]; intros raw raw' H E; cbn [init_raw] in E; [apply Ok_inj in E; now subst|].
  inversion H as [|? ? [H1 H2] H3]; subst.
  destruct (r_init r) as [v|]; [|eauto].
  destruct (reg_write r v raw) as [raw1| |] eqn:W; try discriminate.
  rewrite (IH raw1 raw' H3 E). eapply reg_write_len; eauto.
Qed.

Lemma init_frags_wf fs : forall raw p raw' p',
  prot_wf p -> zlen raw = p_size p ->
  Forall (fun f => Forall (fun r => 0 <= r_addr r /\ 0 <= r_len r /\ r_addr r + r_len r <= p_size p) (frag_regs f)) fs ->
  init_frags raw p fs = Ok (raw', p') -> prot_wf p' /\ p_size p' = p_size p /\ zlen raw' = zlen raw.
Proof.
  induction fs as [|f fs IH]; intros raw p raw' p' W L H E; cbn [init_frags] in E.
  - apply Ok_inj in E. injection E as -> ->. auto.
  - inversion H as [|? ? Hf Hr]; subst.
    destruct (init_prot_wf (frag_regs f) p W) as (p1 & S1 & W1 & Z1).
    { eapply Forall_impl; [|exact Hf]. cbn. intros r (A & B & C). split; assumption. }
    rewrite S1 in E. cbn [bind] in E.
    destruct (init_raw raw (frag_regs f)) as [raw1| |] eqn:R; cbn [bind] in E; try discriminate.
    assert (L1 : zlen raw1 = zlen raw).
    { eapply init_raw_len; [|exact R]. eapply Forall_impl; [|exact Hf]. cbn. intros r (A & B & C). split; assumption. }
    destruct (IH raw1 p1 raw' p' W1 ltac:(lia)) as (A & B & C); [|exact E|].
    { rewrite Z1. exact Hr. }
    split; [exact A|]. split; lia.
Qed.

Lemma mem_new_wf md m : regs_ok md -> mem_new md = Ok m ->
  mem_wf m /\ p_size (m_prot m) = mem_size md /\ m_obs m = [].
Proof.
  intros H E. unfold mem_new in E. cbv zeta in E.
  destruct (init_frags _ _ md) as [[raw' p']| |] eqn:I; cbn [bind] in E; try discriminate.
  apply Ok_inj in E. subst m. cbn [m_raw m_prot m_obs fst snd].
  pose proof (proj1 (mem_size_spec md)) as S0.
  destruct (init_frags_wf md (repeat 0 (Z.to_nat (mem_size md))) (prot_new (mem_size md)) raw' p' (prot_new_wf _ S0)) as (A & B & C); [| |exact I|].
  - unfold zlen. rewrite repeat_length. cbn [p_size prot_new]. lia.
  - cbn [p_size prot_new]. apply Forall_forall. intros f Hf. apply Forall_forall. intros r Hr.
    assert (Hin : In r (all_regs md)) by (unfold all_regs; apply in_flat_map; eauto).
    unfold regs_ok in H. rewrite Forall_forall in H. destruct (H r Hin) as [H1 H2].
    pose proof (reg_in_memory md r Hin). unfold reg_end in *. lia.
  - cbn [p_size prot_new] in B. unfold mem_wf. cbn [m_raw m_prot].
    split; [split; [exact A|]|split; [exact B|reflexivity]].
    rewrite C. unfold zlen. rewrite repeat_length. lia.
Qed.

Lemma ops_keep_wf m : mem_wf m ->
  (forall r v m', 0 <= r_addr r -> 0 <= r_len r -> mem_write m r v = Ok m' -> mem_wf m' /\ m_prot m' = m_prot m) /\
  (forall r a m', 0 <= r_addr r -> r_addr r + r_len r <= p_size (m_prot m) ->
                  mem_set_access_right m r a = Ok m' -> mem_wf m' /\ p_size (m_prot m') = p_size (m_prot m)) /\
  (forall r, mem_wf (mem_observe m r)) /\
  (forall a buf m', 0 <= a -> write_raw m a buf = Ok m' -> mem_wf m' /\ m_prot m' = m_prot m).
Proof.
  intros [W L]. split; [|split; [|split]].
  - intros r v m' H0 H1 E. unfold mem_write in E.
    destruct (reg_write r v (m_raw m)) as [raw'| |] eqn:R; cbn [bind] in E; try discriminate.
    apply Ok_inj in E. subst m'. cbn [m_prot]. split; [|reflexivity]. split; [exact W|]. cbn [m_raw m_prot].
    rewrite (reg_write_len r v _ _ H0 H1 R). exact L.
  - intros r a m' H0 H1 E. unfold mem_set_access_right in E.
    destruct (prot_set_range_wf (m_prot m) (r_addr r) (r_addr r + r_len r) a W H0 H1) as (p1 & S1 & W1 & Z1).
    rewrite S1 in E. cbn [bind] in E. apply Ok_inj in E. subst m'. cbn [m_prot]. split; [|exact Z1].
    split; [exact W1|]. cbn [m_raw m_prot]. lia.
  - intros r. split; [exact W|exact L].
  - intros a buf m' Ha E. destruct (write_raw_wf m a buf m' (conj W L) Ha E) as (A & B & _). split; assumption.
Qed.

(* ================================================================================ any register: frame ==== *)
(* A typed write, whatever the register type and its declared length, returns a memory of the same size that
   differs from the old one at most inside [ADDRESS, ADDRESS + LENGTH). *)
Lemma default_write_frame r data raw raw' : 0 <= r_addr r -> 0 <= r_len r ->
  (let? region := region_of r raw in if zlen data =? r_len r then Ok (splice_at (r_addr r) data raw) else Panic) = Ok raw' ->
  zlen raw' = zlen raw /\ take (r_addr r) raw' = take (r_addr r) raw /\
  drop (r_addr r + r_len r) raw' = drop (r_addr r + r_len r) raw.
Proof.
  intros H0 H1 H. destruct (region_of r raw) as [region| |] eqn:R; cbn [bind] in H; try discriminate.
  destruct (region_of_ok r raw region R H0 H1) as [A B].
  destruct (zlen data =? r_len r) eqn:E; [|discriminate]. apply Z.eqb_eq in E. apply Ok_inj in H. subst raw'.
  split; [apply zlen_splice_at; lia|]. split; [apply splice_at_before; lia|].
  rewrite <- E. apply splice_at_after; lia.
Qed.

Lemma reg_write_frame r v raw raw' : 0 <= r_addr r -> 0 <= r_len r -> reg_write r v raw = Ok raw' ->
  zlen raw' = zlen raw /\ take (r_addr r) raw' = take (r_addr r) raw /\
  drop (r_addr r + r_len r) raw' = drop (r_addr r + r_len r) raw.
Proof.
  intros H0 H1 H. unfold reg_write in H.
  destruct (r_ty r) eqn:T; destruct v as [z|bs];
    try (destruct (reg_serialize r _) as [data| |]; cbn [bind] in H; try discriminate;
         exact (default_write_frame r data raw raw' H0 H1 H)).
  destruct (expand_bf MACRO_W bits signed (r_endian r) rawlsb rawmsb) as [c|]; [|discriminate].
  destruct (gen_masked_int true c z); cbn [bind] in H; try discriminate.
  destruct (region_of r raw) as [region| |] eqn:R; cbn [bind] in H; try discriminate.
  destruct (region_of_ok r raw region R H0 H1) as [A B].
  destruct (gen_write true c (r_endian r) z region) as [region'| |] eqn:G; cbn [bind] in H; try discriminate.
  apply Ok_inj in H. subst raw'.
  assert (E : zlen region' = r_len r).
  { unfold gen_write in G. destruct (gen_masked_int true c z); cbn [bind] in G; try discriminate.
    destruct (read_scalar _ _ _ _); cbn [bind] in G; try discriminate.
    destruct (gen_mask true c); cbn [bind] in G; try discriminate.
    apply Ok_inj in G. subst region'. rewrite zlen_write_front. exact B. }
  split; [apply zlen_splice_at; lia|]. split; [apply splice_at_before; lia|].
  rewrite <- E. apply splice_at_after; lia.
Qed.

Lemma take_drop_take {A} (l : list A) a n b : 0 <= a -> 0 <= n -> a + n <= b ->
  take n (drop a (take b l)) = take n (drop a l).
Proof.
  intros Ha Hn Hb. unfold take, drop.
  replace (Z.to_nat b) with (Z.to_nat a + (Z.to_nat b - Z.to_nat a))%nat by lia.
  rewrite <- firstn_skipn_comm. rewrite firstn_firstn. f_equal. lia.
Qed.

(* the bytes of any register that lies entirely before or entirely behind the written register are unchanged,
   so every typed read of such a register returns what it returned before *)
Lemma disjoint_register_unchanged r v raw raw' r2 :
  0 <= r_addr r -> 0 <= r_len r -> reg_write r v raw = Ok raw' ->
  0 <= r_addr r2 -> 0 <= r_len r2 ->
  r_addr r2 + r_len r2 <= r_addr r \/ r_addr r + r_len r <= r_addr r2 ->
  region_of r2 raw' = region_of r2 raw /\ reg_read r2 raw' = reg_read r2 raw.
Proof.
  intros H0 H1 H A0 A1 D. destruct (reg_write_frame r v raw raw' H0 H1 H) as (L & B & C).
  assert (E : region_of r2 raw' = region_of r2 raw).
  { unfold region_of. rewrite L. destruct (zlen raw <? r_addr r2 + r_len r2); [reflexivity|]. f_equal.
    destruct D as [D|D].
    - rewrite <- (take_drop_take raw' (r_addr r2) (r_len r2) (r_addr r)) by lia.
      rewrite <- (take_drop_take raw (r_addr r2) (r_len r2) (r_addr r)) by lia. now rewrite B.
    - replace (r_addr r2) with ((r_addr r + r_len r) + (r_addr r2 - (r_addr r + r_len r))) by lia.
      rewrite <- (drop_drop (r_addr r + r_len r) (r_addr r2 - (r_addr r + r_len r)) raw') by lia.
      rewrite <- (drop_drop (r_addr r + r_len r) (r_addr r2 - (r_addr r + r_len r)) raw) by lia. now rewrite C. }
  split; [exact E|]. unfold reg_read. now rewrite E.
Qed.

(* ================================================================================ accepted declarations == *)
Definition reg_accepts (r : reg) : bool :=
  decl_accepts true (r_endian r)
    {| rd_len := r_len r; rd_acc := r_acc r; rd_ty := r_ty r; rd_off := None; rd_init := r_init r |}.

(* the vocabulary of the Rust declaration: integer types are 8..64 bit wide, LSB/MSB are usize literals *)
Definition ty_vocab (t : regty) : Prop :=
  match t with
  | TInt bits _ => ty_bits_ok bits
  | TBitField bits _ rl rm => ty_bits_ok bits /\ 0 <= rl /\ 0 <= rm
  | _ => True
  end.

Lemma accepted_len e rd : decl_accepts true e rd = true ->
  match ty_size (rd_ty rd) with Some n => rd_len rd = n | None => True end.
Proof.
  unfold decl_accepts. intros H. apply andb_true_iff in H. destruct H as [_ H].
  destruct (ty_size (rd_ty rd)); [now apply Z.eqb_eq|exact I].
Qed.

Lemma map_accepts_regs md : map_accepts true md = true ->
  forall r, In r (all_regs md) -> reg_accepts r = true.
Proof.
  intros H r Hr. unfold all_regs in Hr. apply in_flat_map in Hr. destruct Hr as [f [Hf Hr]].
  assert (Hm : forallb (frag_accepts true) md = true) by (destruct md; [discriminate|exact H]).
  rewrite forallb_forall in Hm. specialize (Hm f Hf). unfold frag_accepts in Hm.
  assert (Hq : forallb (decl_accepts true (fd_endian f)) (fd_regs f) = true) by (destruct (fd_regs f); [discriminate|exact Hm]).
  rewrite forallb_forall in Hq.
  unfold frag_regs in Hr. apply in_map_iff in Hr. destruct Hr as [[o rd] [<- Hin]].
  apply in_combine_r in Hin. specialize (Hq rd Hin). unfold reg_accepts. cbn [r_endian r_len r_acc r_ty r_init].
  unfold decl_accepts in *. cbn [rd_ty rd_len]. exact Hq.
Qed.

Lemma expand_some_ok bits sg e rl rm : ty_bits_ok bits -> 0 <= rl -> 0 <= rm ->
  expand_bf MACRO_W bits sg e rl rm <> None -> bf_ok bits (norm_pos bits e rl) (norm_pos bits e rm).
Proof.
  intros Hb Hl Hm H. unfold expand_bf, mt_pos in H. unfold bf_ok. split; [exact Hb|].
  destruct e; cbn [norm_pos].
  - destruct ((rm <? rl) || (bits <=? rm)) eqn:C; [congruence|]. apply orb_false_iff in C. lia.
  - destruct (0 <=? bits - rl - 1) eqn:A; [|congruence]. destruct (0 <=? bits - rm - 1) eqn:B; [|congruence].
    destruct ((bits - rm - 1 <? bits - rl - 1) || (bits <=? bits - rm - 1)) eqn:C; [congruence|].
    apply orb_false_iff in C. lia.
Qed.

Lemma accepted_bitfield r bits sg rl rm : reg_accepts r = true -> r_ty r = TBitField bits sg rl rm ->
  ty_vocab (r_ty r) ->
  bf_ok bits (norm_pos bits (r_endian r) rl) (norm_pos bits (r_endian r) rm) /\ r_len r = bits / 8.
Proof.
  intros H T V. rewrite T in V. destruct V as (Hb & Hl & Hm). unfold reg_accepts, decl_accepts in H.
  cbn [rd_ty rd_len] in H. rewrite T in H. cbn [ty_size] in H. apply andb_true_iff in H. destruct H as [H1 H2].
  split; [|now apply Z.eqb_eq]. apply (expand_some_ok bits sg); try assumption.
  destruct (expand_bf MACRO_W bits sg (r_endian r) rl rm); [discriminate|discriminate H1].
Qed.

(* the values a Rust program can pass / the values that round-trip exactly *)
Definition value_typed (r : reg) (v : value) : Prop :=
  match r_ty r, v with
  | TInt bits sg, VInt z => t_in bits sg z = true
  | TBitField bits sg _ _, VInt z => t_in bits sg z = true
  | TF32, VInt z => t_in 32 false z = true
  | TF64, VInt z => t_in 64 false z = true
  | TStr, VBytes _ => True
  | TBytes, VBytes _ => True
  | _, _ => False
  end.

Definition value_fits (r : reg) (v : value) : Prop :=
  match r_ty r, v with
  | TInt bits sg, VInt z => t_in bits sg z = true
  | TBitField bits sg rl rm, VInt z =>
    f_min sg (norm_pos bits (r_endian r) rl) (norm_pos bits (r_endian r) rm) <= z <=
    f_max sg (norm_pos bits (r_endian r) rl) (norm_pos bits (r_endian r) rm)
  | TF32, VInt z => t_in 32 false z = true
  | TF64, VInt z => t_in 64 false z = true
  | TStr, VBytes s => is_ascii s = true /\ zlen s <= r_len r /\ Forall (fun b => b <> 0) s
  | TBytes, VBytes s => zlen s = r_len r
  | _, _ => False
  end.

Lemma accepted_scalar r : reg_accepts r = true -> ty_vocab (r_ty r) ->
  forall bits sg, (r_ty r = TInt bits sg \/ (r_ty r = TF32 /\ bits = 32 /\ sg = false) \/ (r_ty r = TF64 /\ bits = 64 /\ sg = false)) ->
  is_scalar_ty (r_ty r) bits sg /\ r_len r = bits / 8.
Proof.
  intros H V bits sg T. unfold reg_accepts, decl_accepts in H. cbn [rd_ty rd_len] in H.
  apply andb_true_iff in H. destruct H as [_ H]. unfold is_scalar_ty.
  destruct T as [T|[[T [-> ->]]|[T [-> ->]]]]; rewrite T in *; cbn [ty_size ty_vocab] in *; apply Z.eqb_eq in H.
  - split; [left; auto|exact H].
  - split; [right; left; auto|exact H].
  - split; [right; right; auto|exact H].
Qed.

(* every register of an accepted map: a fitting value is written, reads back exactly, nothing outside the register
   changes *)
Lemma accepted_roundtrip r v raw : reg_accepts r = true -> ty_vocab (r_ty r) -> value_fits r v ->
  0 <= r_addr r -> 0 <= r_len r -> r_addr r + r_len r <= zlen raw -> bytes_ok raw ->
  exists raw', reg_write r v raw = Ok raw' /\ reg_read r raw' = Ok v /\ zlen raw' = zlen raw /\
    take (r_addr r) raw' = take (r_addr r) raw /\ drop (r_addr r + r_len r) raw' = drop (r_addr r + r_len r) raw.
Proof.
  intros Hacc V F H0 H1 H2 Hok. unfold value_fits in F.
  destruct (r_ty r) eqn:T; destruct v as [z|s]; try contradiction.
  - (* String *) destruct F as (Fa & Fl & Fn).
    destruct (proj1 (string_roundtrip r s raw T H0 H2) Fa Fl) as (raw' & W & L & R & B & C).
    exists raw'. rewrite (until_nul_no_nul s Fn) in R. auto.
  - (* Bytes *) destruct (proj1 (bytes_roundtrip r s raw T H0 H2) F) as (raw' & W & L & R & B & C).
    exists raw'. auto.
  - (* integers *) rewrite <- T in V.
    destruct (accepted_scalar r Hacc V bits signed (or_introl T)) as [S Ln].
    destruct (scalar_roundtrip r bits signed z raw S Ln F H0 H2) as (raw' & W & L & R & B & C & _).
    exists raw'. auto.
  - rewrite <- T in V. destruct (accepted_scalar r Hacc V 32 false (or_intror (or_introl (conj T (conj eq_refl eq_refl))))) as [S Ln].
    destruct (scalar_roundtrip r 32 false z raw S Ln F H0 H2) as (raw' & W & L & R & B & C & _).
    exists raw'. auto.
  - rewrite <- T in V. destruct (accepted_scalar r Hacc V 64 false (or_intror (or_intror (conj T (conj eq_refl eq_refl))))) as [S Ln].
    destruct (scalar_roundtrip r 64 false z raw S Ln F H0 H2) as (raw' & W & L & R & B & C & _).
    exists raw'. auto.
  - (* BitField *) rewrite <- T in V. destruct (accepted_bitfield r bits signed rawlsb rawmsb Hacc T V) as [Bf Ln].
    destruct (bitfield_register r bits signed rawlsb rawmsb raw T Bf Ln H0 H2 Hok) as (_ & _ & Wr).
    destruct (Wr z F) as (raw' & W & L & R & B & C & _). exists raw'. auto.
Qed.

(* typed access to a register of an accepted map never panics, whatever value of the register's Rust type is
   written and whatever the memory holds *)
Lemma accepted_never_panics r v raw : reg_accepts r = true -> ty_vocab (r_ty r) -> value_typed r v ->
  0 <= r_addr r -> 0 <= r_len r -> r_addr r + r_len r <= zlen raw -> bytes_ok raw ->
  reg_write r v raw <> Panic /\ reg_read r raw <> Panic.
Proof.
  intros Hacc V F H0 H1 H2 Hok.
  assert (Hreg : region_of r raw = Ok (take (r_len r) (drop (r_addr r) raw))).
  { unfold region_of. destruct (zlen raw <? r_addr r + r_len r) eqn:E; [lia|reflexivity]. }
  unfold value_typed in F.
  destruct (r_ty r) eqn:T; destruct v as [z|s]; try contradiction.
  - (* String *) split.
    + destruct (is_ascii s) eqn:A.
      * destruct (Z_le_gt_dec (zlen s) (r_len r)) as [L|L].
        -- destruct (proj1 (string_roundtrip r s raw T H0 H2) A L) as (raw' & W & _). rewrite W. discriminate.
        -- rewrite (proj2 (string_roundtrip r s raw T H0 H2)) by (right; lia). discriminate.
      * rewrite (proj2 (string_roundtrip r s raw T H0 H2)) by (left; exact A). discriminate.
    + unfold reg_read. rewrite Hreg. cbn [bind]. unfold reg_parse. rewrite T.
      rewrite parse_str_exact by (rewrite zlen_take; [lia|]; rewrite zlen_drop by lia; lia). cbv zeta.
      destruct (is_ascii _); discriminate.
  - (* Bytes *) split.
    + destruct (Z.eq_dec (zlen s) (r_len r)) as [L|L].
      * destruct (proj1 (bytes_roundtrip r s raw T H0 H2) L) as (raw' & W & _). rewrite W. discriminate.
      * rewrite (proj2 (bytes_roundtrip r s raw T H0 H2) L). discriminate.
    + unfold reg_read. rewrite Hreg. cbn [bind]. unfold reg_parse. rewrite T. discriminate.
  - rewrite <- T in V. destruct (accepted_scalar r Hacc V bits signed (or_introl T)) as [S Ln]. split.
    + destruct (scalar_roundtrip r bits signed z raw S Ln F H0 H2) as (raw' & W & _). rewrite W. discriminate.
    + unfold reg_read. rewrite Hreg. cbn [bind]. unfold reg_parse. rewrite T. unfold read_scalar.
      destruct (_ <? _); discriminate.
  - rewrite <- T in V. destruct (accepted_scalar r Hacc V 32 false (or_intror (or_introl (conj T (conj eq_refl eq_refl))))) as [S Ln]. split.
    + destruct (scalar_roundtrip r 32 false z raw S Ln F H0 H2) as (raw' & W & _). rewrite W. discriminate.
    + unfold reg_read. rewrite Hreg. cbn [bind]. unfold reg_parse. rewrite T. unfold read_scalar.
      destruct (_ <? _); discriminate.
  - rewrite <- T in V. destruct (accepted_scalar r Hacc V 64 false (or_intror (or_intror (conj T (conj eq_refl eq_refl))))) as [S Ln]. split.
    + destruct (scalar_roundtrip r 64 false z raw S Ln F H0 H2) as (raw' & W & _). rewrite W. discriminate.
    + unfold reg_read. rewrite Hreg. cbn [bind]. unfold reg_parse. rewrite T. unfold read_scalar.
      destruct (_ <? _); discriminate.
  - rewrite <- T in V. destruct (accepted_bitfield r bits signed rawlsb rawmsb Hacc T V) as [Bf Ln].
    destruct (bitfield_register r bits signed rawlsb rawmsb raw T Bf Ln H0 H2 Hok) as (Rd & Er & Wr). split.
    + set (l := norm_pos bits (r_endian r) rawlsb) in *. set (m := norm_pos bits (r_endian r) rawmsb) in *.
      destruct (Z_lt_ge_dec z (f_min signed l m)) as [A|A]; [rewrite (Er z (or_introl A)); discriminate|].
      destruct (Z_lt_ge_dec (f_max signed l m) z) as [B|B]; [rewrite (Er z (or_intror B)); discriminate|].
      destruct (Wr z ltac:(lia)) as (raw' & W & _). rewrite W. discriminate.
    + rewrite Rd. discriminate.
Qed.

(* ---- what the pinned macro accepted: a numerical register of any length ---- *)
Lemma scalar_mismatch_v0 r bits sg z raw : is_scalar_ty (r_ty r) bits sg -> r_len r <> bits / 8 ->
  0 <= r_addr r -> r_addr r + r_len r <= zlen raw ->
  decl_accepts false (r_endian r)
    {| rd_len := r_len r; rd_acc := r_acc r; rd_ty := r_ty r; rd_off := None; rd_init := r_init r |} = true /\
  reg_accepts r = false /\
  reg_write r (VInt z) raw = Panic /\
  (r_len r < bits / 8 -> reg_read r raw = Err ME_INVALID_DATA).
Proof.
  intros S Hl H0 H2.
  assert (Hb : ty_bits_ok bits).
  { destruct S as [[_ H]|[[_ [-> _]]|[_ [-> _]]]]; [exact H|right; right; left; reflexivity|right; right; right; reflexivity]. }
  pose proof (bits_pos bits Hb) as [P1 P2].
  assert (Hreg : region_of r raw = Ok (take (r_len r) (drop (r_addr r) raw))).
  { unfold region_of. destruct (zlen raw <? r_addr r + r_len r) eqn:E; [lia|reflexivity]. }
  split; [|split; [|split]].
  - unfold decl_accepts. cbn [rd_ty]. destruct S as [[-> _]|[[-> _]|[-> _]]]; reflexivity.
  - unfold reg_accepts, decl_accepts. cbn [rd_ty rd_len].
    destruct S as [[-> _]|[[-> [-> _]]|[-> [-> _]]]]; cbn [ty_size andb]; apply Z.eqb_neq; exact Hl.
  - unfold reg_write.
    replace (match r_ty r with TBitField _ _ _ _ => _ | _ => _ end) with
      (let? data := reg_serialize r (VInt z) in let? region := region_of r raw in
       if zlen data =? r_len r then Ok (splice_at (r_addr r) data raw) else Panic)
      by (destruct S as [[-> _]|[[-> _]|[-> _]]]; reflexivity).
    assert (Hser : reg_serialize r (VInt z) = Ok (t_to_bytes bits (r_endian r) z)).
    { unfold reg_serialize. destruct S as [[-> _]|[[-> [-> _]]|[-> [-> _]]]]; reflexivity. }
    rewrite Hser. cbn [bind]. rewrite Hreg. cbn [bind]. rewrite zlen_t_to_bytes by lia.
    destruct (bits / 8 =? r_len r) eqn:E; [lia|reflexivity].
  - intros Hs. unfold reg_read. rewrite Hreg. cbn [bind].
    assert (Hz : zlen (take (r_len r) (drop (r_addr r) raw)) <= r_len r \/ r_len r < 0).
    { destruct (Z_lt_ge_dec (r_len r) 0); [right; lia|left]. rewrite zlen_take; [lia|]. rewrite zlen_drop by lia. lia. }
    assert (Hp : read_scalar bits sg (r_endian r) (take (r_len r) (drop (r_addr r) raw)) = Err ME_INVALID_DATA).
    { unfold read_scalar. destruct (_ <? bits / 8) eqn:E; [reflexivity|]. apply Z.ltb_ge in E.
      destruct Hz as [Hz|Hz]; [exfalso; clear - Hz Hs E; lia|]. unfold take in E. replace (Z.to_nat (r_len r)) with O in E by lia.
      cbn [firstn] in E. unfold zlen in E. cbn [length] in E.
      assert (1 <= bits / 8) by (destruct Hb as [->|[->|[->| ->]]]; cbn; lia). lia. }
    unfold reg_parse. destruct S as [[-> _]|[[-> [E1 E2]]|[-> [E1 E2]]]]; subst; rewrite Hp; reflexivity.
Qed.

Lemma mismatched_len_v0_refuted :
  let r := {| r_addr := 0; r_len := 4; r_acc := RW; r_ty := TInt 16 false; r_endian := BE; r_init := None |} in
  let s := {| r_addr := 0; r_len := 1; r_acc := RW; r_ty := TBitField 16 false 11 4; r_endian := BE; r_init := None |} in
  decl_accepts false BE {| rd_len := 4; rd_acc := RW; rd_ty := TInt 16 false; rd_off := None; rd_init := None |} = true /\
  reg_write r (VInt 7) [1; 2; 3; 4] = Panic /\ reg_accepts r = false /\
  reg_read s [1; 2; 3; 4] = Err ME_INVALID_DATA /\ reg_write s (VInt 1) [1; 2; 3; 4] = Err ME_INVALID_DATA /\
  reg_accepts s = false.
Proof. vm_compute. repeat split; reflexivity. Qed.

(* ================================================================================ further facts ========== *)
(* typed access is machine-side: it does not look at the access rights *)
Lemma typed_access_ignores_rights raw p p' obs r v :
  mem_read {| m_raw := raw; m_prot := p; m_obs := obs |} r = mem_read {| m_raw := raw; m_prot := p'; m_obs := obs |} r /\
  omap m_raw (mem_write {| m_raw := raw; m_prot := p; m_obs := obs |} r v) =
  omap m_raw (mem_write {| m_raw := raw; m_prot := p'; m_obs := obs |} r v).
Proof.
  split; [reflexivity|]. unfold mem_write. cbn [m_raw m_obs m_prot].
  destruct (reg_write r v raw); reflexivity.
Qed.

(* registers declared without explicit offsets follow each other without gap or overlap *)
Lemma running_offsets regs : forall run, Forall (fun r => rd_off r = None) regs ->
  forall i r o, nth_error regs i = Some r -> nth_error (offsets regs run) i = Some o ->
  o = run + fold_left Z.add (map rd_len (firstn i regs)) 0.
Proof.
  induction regs as [|r0 rest IH]; intros run H i r o Hr Ho; [destruct i; discriminate|].
  inversion H as [|? ? Hn Hrest]; subst. cbn [offsets] in Ho. rewrite Hn in Ho.
  destruct i as [|i]; cbn [nth_error firstn map fold_left] in *.
  - injection Ho as <-. lia.
  - rewrite (IH (run + rd_len r0) Hrest i r o Hr Ho).
    assert (G : forall l a, fold_left Z.add l a = a + fold_left Z.add l 0).
    { induction l as [|x l IHl]; intros a; cbn [fold_left]; [lia|]. rewrite (IHl (a + x)), (IHl (0 + x)). lia. }
    rewrite (G _ (0 + rd_len r0)). lia.
Qed.

(* on a memory built from an accepted map, typed access to any of its registers never panics *)
Lemma accepted_map_access md m r v : map_accepts true md = true -> regs_ok md ->
  mem_wf m -> p_size (m_prot m) = mem_size md -> bytes_ok (m_raw m) ->
  In r (all_regs md) -> ty_vocab (r_ty r) -> value_typed r v ->
  mem_write m r v <> Panic /\ mem_read m r <> Panic.
Proof.
  intros Ha Hr [W L] Hs Hok Hin V F.
  pose proof (map_accepts_regs md Ha r Hin) as Acc.
  unfold regs_ok in Hr. rewrite Forall_forall in Hr. destruct (Hr r Hin) as [H0 H1].
  pose proof (reg_in_memory md r Hin) as Hm. unfold reg_end in Hm.
  destruct (accepted_never_panics r v (m_raw m) Acc V F H0 H1 ltac:(lia) Hok) as [A B].
  split; [|exact B]. unfold mem_write. destruct (reg_write r v (m_raw m)); cbn [bind]; [discriminate|discriminate|contradiction].
Qed.

(* ================================================================================ memory holds bytes ===== *)
(* every reachable raw memory is a vector of bytes (the hypothesis bytes_ok of the typed theorems) *)
Definition value_bytes (v : value) : Prop := match v with VInt _ => True | VBytes s => bytes_ok s end.

Lemma bytes_ok_repeat0 n : bytes_ok (repeat 0 n).
Proof. apply repeat_Forall. unfold is_byte. lia. Qed.

Lemma bytes_ok_splice_at off bs mem : bytes_ok bs -> bytes_ok mem -> bytes_ok (splice_at off bs mem).
Proof.
  intros Hb Hm. unfold splice_at. apply bytes_ok_app; [apply bytes_ok_take, Hm|].
  apply bytes_ok_app; [exact Hb|apply bytes_ok_drop, Hm].
Qed.

Lemma reg_serialize_bytes r v data : value_bytes v -> reg_serialize r v = Ok data -> bytes_ok data.
Proof.
  intros Hv H. unfold reg_serialize in H.
  destruct (r_ty r) eqn:T; destruct v as [z|s]; try discriminate; cbn [value_bytes] in Hv.
  - destruct (negb (is_ascii s)); [discriminate|]. destruct (zlen s <? r_len r).
    + apply Ok_inj in H. subst data. apply bytes_ok_app; [exact Hv|apply bytes_ok_repeat0].
    + destruct (r_len r <? zlen s); [discriminate|]. apply Ok_inj in H. now subst.
  - destruct (zlen s =? r_len r); [|discriminate]. apply Ok_inj in H. now subst.
  - apply Ok_inj in H. subst. apply bytes_ok_t_to_bytes.
  - apply Ok_inj in H. subst. apply bytes_ok_t_to_bytes.
  - apply Ok_inj in H. subst. apply bytes_ok_t_to_bytes.
  - destruct (expand_bf _ _ _ _ _ _); [|discriminate]. destruct (gen_masked_int _ _ _); cbn [bind] in H; try discriminate.
    apply Ok_inj in H. subst. apply bytes_ok_t_to_bytes.
Qed.

Lemma reg_write_bytes r v raw raw' : value_bytes v -> bytes_ok raw -> reg_write r v raw = Ok raw' -> bytes_ok raw'.
Proof.
  intros Hv Hok H. unfold reg_write in H.
  assert (D : forall data, reg_serialize r v = Ok data ->
              (let? region := region_of r raw in if zlen data =? r_len r then Ok (splice_at (r_addr r) data raw) else Panic) = Ok raw' ->
              bytes_ok raw').
  { intros data S E. destruct (region_of r raw); cbn [bind] in E; try discriminate.
    destruct (zlen data =? r_len r); [|discriminate]. apply Ok_inj in E. subst raw'.
    apply bytes_ok_splice_at; [|exact Hok]. eapply reg_serialize_bytes; eauto. }
  destruct (r_ty r) eqn:T; destruct v as [z|bs];
    try (destruct (reg_serialize r _) as [data| |] eqn:S; cbn [bind] in H; try discriminate; exact (D data eq_refl H)).
  destruct (expand_bf MACRO_W bits signed (r_endian r) rawlsb rawmsb) as [c|]; [|discriminate].
  destruct (gen_masked_int true c z); cbn [bind] in H; try discriminate.
  destruct (region_of r raw) as [region| |] eqn:R; cbn [bind] in H; try discriminate.
  destruct (gen_write true c (r_endian r) z region) as [region'| |] eqn:G; cbn [bind] in H; try discriminate.
  apply Ok_inj in H. subst raw'. apply bytes_ok_splice_at; [|exact Hok].
  assert (Hr : bytes_ok region).
  { unfold region_of in R. destruct (_ <? _); [discriminate|]. apply Ok_inj in R. subst region.
    apply bytes_ok_take, bytes_ok_drop, Hok. }
  unfold gen_write in G. destruct (gen_masked_int true c z); cbn [bind] in G; try discriminate.
  destruct (read_scalar _ _ _ _); cbn [bind] in G; try discriminate.
  destruct (gen_mask true c); cbn [bind] in G; try discriminate.
  apply Ok_inj in G. subst region'. unfold write_front.
  apply bytes_ok_app; [apply bytes_ok_take, bytes_ok_t_to_bytes|apply bytes_ok_drop, Hr].
Qed.

Definition inits_bytes (md : list fragdecl) : Prop :=
  Forall (fun r => match r_init r with Some v => value_bytes v | None => True end) (all_regs md).

Lemma init_raw_bytes rs : forall raw raw',
  Forall (fun r => match r_init r with Some v => value_bytes v | None => True end) rs ->
  bytes_ok raw -> init_raw raw rs = Ok raw' -> bytes_ok raw'.
Proof.
  induction rs as [|r rs IH]; intros raw raw' H Hok E; cbn [init_raw] in E; [apply Ok_inj in E; now subst|].
  inversion H as [|? ? Hr Hrs]; subst. destruct (r_init r) as [v|]; [|eauto].
  destruct (reg_write r v raw) as [raw1| |] eqn:W; try discriminate.
  apply (IH raw1 raw' Hrs); [|exact E]. eapply reg_write_bytes; eauto.
Qed.

Lemma init_frags_bytes fs : forall raw p raw' p',
  Forall (fun f => Forall (fun r => match r_init r with Some v => value_bytes v | None => True end) (frag_regs f)) fs ->
  bytes_ok raw -> init_frags raw p fs = Ok (raw', p') -> bytes_ok raw'.
Proof.
  induction fs as [|f fs IH]; intros raw p raw' p' H Hok E; cbn [init_frags] in E.
  - apply Ok_inj in E. injection E as -> ->. exact Hok.
  - inversion H as [|? ? Hf Hr]; subst.
    destruct (init_prot p (frag_regs f)); cbn [bind] in E; try discriminate.
    destruct (init_raw raw (frag_regs f)) as [raw1| |] eqn:R; cbn [bind] in E; try discriminate.
    apply (IH raw1 a raw' p' Hr); [|exact E]. eapply init_raw_bytes; eauto.
Qed.

Lemma reachable_bytes md :
  (forall m, inits_bytes md -> mem_new md = Ok m -> bytes_ok (m_raw m)) /\
  (forall m r v m', bytes_ok (m_raw m) -> value_bytes v -> mem_write m r v = Ok m' -> bytes_ok (m_raw m')) /\
  (forall m a buf m', bytes_ok (m_raw m) -> bytes_ok buf -> write_raw m a buf = Ok m' -> bytes_ok (m_raw m')) /\
  (forall m r a m', bytes_ok (m_raw m) -> mem_set_access_right m r a = Ok m' -> bytes_ok (m_raw m')).
Proof.
  split; [|split; [|split]].
  - intros m Hi E. unfold mem_new in E. cbv zeta in E.
    destruct (init_frags _ _ md) as [[raw' p']| |] eqn:I; cbn [bind] in E; try discriminate.
    apply Ok_inj in E. subst m. cbn [m_raw fst].
    eapply init_frags_bytes; [|apply bytes_ok_repeat0|exact I].
    apply Forall_forall. intros f Hf. apply Forall_forall. intros r Hr.
    unfold inits_bytes in Hi. rewrite Forall_forall in Hi. apply Hi. unfold all_regs. apply in_flat_map. eauto.
  - intros m r v m' Hok Hv E. unfold mem_write in E.
    destruct (reg_write r v (m_raw m)) as [raw'| |] eqn:W; cbn [bind] in E; try discriminate.
    apply Ok_inj in E. subst m'. cbn [m_raw]. eapply reg_write_bytes; eauto.
  - intros m a buf m' Hok Hb E. unfold write_raw in E.
    destruct (USIZE_MAX <? a + zlen buf); [discriminate|].
    destruct (prot_verify_range _ _ _); cbn [bind] in E; try discriminate.
    destruct (prot_range_right _ _ _); cbn [bind] in E; try discriminate.
    destruct (negb _); [discriminate|]. destruct (slice_get _ _ _); [|discriminate].
    apply Ok_inj in E. subst m'. cbn [m_raw]. now apply bytes_ok_splice_at.
  - intros m r a m' Hok E. destruct (proj2 (proj2 (observers_on_write m)) r a m' E) as [_ R]. now rewrite R.
Qed.
