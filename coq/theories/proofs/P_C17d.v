(* Proofs for C17, fourth part: the literal / reference decision at the ImmOrPNode sites, on node names that look
   like numbers or booleans. *)
From Cam Require Import Outcome GenApiParse P_C17.
From Coq Require Import String.
Open Scope Z_scope.

(* a node name that starts with an (ASCII) letter is read as a reference at every ImmOrPNode site, whatever the tag
   and the attributes of the element - unless it is spelled exactly like a literal of that site: INF / NaN at a
   float site, Yes / No / true / false at a boolean site *)
Lemma reference_decision name tag attrs k : ident name ->
  p_imm_i64 (Elem tag attrs (txt name) :: k) = Ok (PNode name, k) /\
  (str_eqb name L_INF = false -> str_eqb name L_NaN = false ->
   p_imm_f64 (Elem tag attrs (txt name) :: k) = Ok (PNode name, k)) /\
  (convert_to_bool_opt name = None -> p_imm_bool (Elem tag attrs (txt name) :: k) = Ok (PNode name, k)).
Proof.
  intros I. split; [|split].
  - apply (proj2 ileaf_i64). exact I.
  - intros H1 H2. apply (proj2 ileaf_f64). repeat split; assumption.
  - intros H. apply (proj2 ileaf_bool). exact H.
Qed.

(* names a sloppy "is it a number / a boolean?" test would misread *)
Definition name_pool : list str :=
  List.map s2l ["inf"; "Inf"; "INFINITY"; "Infinity"; "infinity"; "nan"; "NAN"; "Nan"; "NaNx"; "INFx"; "e5"; "E10"; "x0";
                "xFF"; "OxFF"; "True"; "False"; "Yes"; "No"; "true"; "false"; "On"; "Off"]%string.
Definition bool_words : list str := [L_Yes; L_No; L_true; L_false].

Definition is_ref {A} (x : outcome (imm A * list xml)) (name : str) : bool :=
  match x with Ok (PNode n, []) => str_eqb n name | _ => false end.

Lemma pool_decision :
  List.forallb (fun n => is_ref (p_imm_i64 [Elem T_pMin [] [Text n]]) n &&
                         is_ref (p_imm_f64 [Elem T_pMax [] [Text n]]) n &&
                         (mem_str n bool_words || is_ref (p_imm_bool [Elem T_pValue [] [Text n]]) n)) name_pool = true.
Proof. vm_compute. reflexivity. Qed.

(* KNOWN finding: a legal name spelled exactly like a literal of the site is read as that literal; a name starting
   with an underscore is read as a numeral (convert_to_int panics, the float text goes to the float parser) *)
Lemma literal_named_nodes_refuted :
  p_imm_f64 [Elem T_pMax [] [Text L_INF]] = Ok (Imm FvInf, []) /\
  p_imm_f64 [Elem T_pMax [] [Text L_NaN]] = Ok (Imm (FvText L_NaN), []) /\
  p_imm_bool [Elem T_pValue [] [Text L_Yes]] = Ok (Imm true, []) /\
  p_imm_bool [Elem T_pValue [] [Text L_false]] = Ok (Imm false, []) /\
  p_imm_i64 [Elem T_pMin [] [Text (s2l "_x")]] = Panic /\
  p_imm_f64 [Elem T_pMin [] [Text (s2l "_x")]] = Ok (Imm (FvText (s2l "_x")), []).
Proof. repeat split; vm_compute; reflexivity. Qed.
