(* Proofs for C17 (statements in props/C17.v). *)
From Cam Require Import Outcome GenApiParse.
From Coq Require Import Permutation.
Open Scope Z_scope.

(* ---------------------------------------------------------------------------------------------- *)
(* strings                                                                                          *)

Lemma str_eqb_refl s : str_eqb s s = true.
Proof. induction s; cbn; [reflexivity|]. rewrite Z.eqb_refl. exact IHs. Qed.

Lemma str_eqb_eq a : forall b, str_eqb a b = true -> a = b.
Proof.
  induction a as [|x a IH]; intros [|y b]; cbn; intros H; try discriminate; [reflexivity|].
  apply andb_true_iff in H. destruct H as [H1 H2]. apply Z.eqb_eq in H1. subst. f_equal. auto.
Qed.

Lemma str_eqb_neq a b : a <> b -> str_eqb a b = false.
Proof. intros H. destruct (str_eqb a b) eqn:E; [|reflexivity]. apply str_eqb_eq in E. contradiction. Qed.

Lemma text_of_txt s : text_of (txt s) = s.
Proof. destruct s; cbn; [reflexivity|]. now rewrite app_nil_r. Qed.

(* ---------------------------------------------------------------------------------------------- *)
(* numerals: printer / parser round trip                                                            *)

Definition dval (b : Z) (ds : list Z) (acc : Z) : Z := fold_left (fun a d => a * b + d) ds acc.

Lemma to_digits_spec : forall fuel b n, 2 <= b -> 0 <= n < 2 ^ Z.of_nat fuel -> (0 < fuel)%nat ->
  Forall (fun d => 0 <= d < b) (to_digits fuel b n) /\ dval b (to_digits fuel b n) 0 = n /\
  to_digits fuel b n <> [].
Proof.
  induction fuel as [|f IH]; intros b n Hb Hn Hf; [lia|].
  cbn [to_digits]. destruct (n <? b) eqn:E.
  - apply Z.ltb_lt in E. split; [|split]; [constructor; [lia|constructor] | cbn; lia | discriminate].
  - apply Z.ltb_ge in E.
    assert (Hp : 2 ^ Z.of_nat (S f) = 2 * 2 ^ Z.of_nat f).
    { rewrite Nat2Z.inj_succ, Z.pow_succ_r by lia. reflexivity. }
    assert (Hf' : (0 < f)%nat).
    { destruct f; [|lia]. cbn in Hn. lia. }
    assert (Hq : 0 <= n / b < 2 ^ Z.of_nat f).
    { split; [apply Z.div_pos; lia|].
      apply Z.div_lt_upper_bound; [lia|]. rewrite Hp in Hn.
      assert (0 < 2 ^ Z.of_nat f) by (apply Z.pow_pos_nonneg; lia). nia. }
    destruct (IH b (n / b) Hb Hq Hf') as (F1 & F2 & F3).
    split; [|split].
    + apply Forall_app. split; [exact F1|]. constructor; [|constructor]. apply Z.mod_pos_bound. lia.
    + unfold dval in *. rewrite fold_left_app. cbn [fold_left]. rewrite F2.
      rewrite (Z.div_mod n b) at 3 by lia. lia.
    + intros H. apply app_eq_nil in H. destruct H; discriminate.
Qed.

Lemma log2_fuel n : 0 <= n -> 0 <= n < 2 ^ Z.of_nat (S (Z.to_nat (Z.log2 n))).
Proof.
  intros H. split; [exact H|].
  rewrite Nat2Z.inj_succ, Z2Nat.id by apply Z.log2_nonneg.
  destruct (Z.eq_dec n 0) as [->|Hn]; [reflexivity|].
  apply Z.log2_spec. lia.
Qed.

Definition digits_of (b n : Z) : list Z := to_digits (S (Z.to_nat (Z.log2 n))) b n.

Lemma digits_of_spec b n : 2 <= b -> 0 <= n ->
  Forall (fun d => 0 <= d < b) (digits_of b n) /\ dval b (digits_of b n) 0 = n /\ digits_of b n <> [].
Proof. intros. apply to_digits_spec; [assumption | apply log2_fuel; assumption | lia]. Qed.

Lemma char_digit_char up radix d : (radix = 10 \/ radix = 16) -> 0 <= d < radix ->
  char_digit radix (digit_char up d) = Some d.
Proof.
  intros Hr Hd.
  assert (H : d = 0 \/ d = 1 \/ d = 2 \/ d = 3 \/ d = 4 \/ d = 5 \/ d = 6 \/ d = 7 \/ d = 8 \/ d = 9 \/
              d = 10 \/ d = 11 \/ d = 12 \/ d = 13 \/ d = 14 \/ d = 15) by lia.
  destruct Hr; subst radix; destruct up;
    repeat (destruct H as [->|H]; [try reflexivity; lia|]); subst; try reflexivity; lia.
Qed.

Lemma digits_acc_print up radix ds : (radix = 10 \/ radix = 16) -> Forall (fun d => 0 <= d < radix) ds ->
  forall acc, digits_acc radix (map (digit_char up) ds) acc = Some (dval radix ds acc).
Proof.
  intros Hr F. induction F as [|d ds Hd F IH]; intros acc; cbn; [reflexivity|].
  rewrite (char_digit_char up radix d Hr Hd). apply IH.
Qed.

(* a printed digit is a letter or a decimal digit, never a sign *)
Lemma digit_char_range up d : 0 <= d < 16 ->
  let c := digit_char up d in (48 <= c <= 57 /\ d < 10) \/ (65 <= c <= 70 /\ 10 <= d) \/ (97 <= c <= 102 /\ 10 <= d).
Proof.
  intros H. unfold digit_char. destruct (d <? 10) eqn:E; [apply Z.ltb_lt in E; left; lia|].
  apply Z.ltb_ge in E. destruct up; [right; left | right; right]; lia.
Qed.

Lemma print_nat_eq up b n : print_nat up b n = map (digit_char up) (digits_of b n).
Proof. reflexivity. Qed.

Lemma print_nat_head up b n : (b = 10 \/ b = 16) -> 0 <= n ->
  exists c r, print_nat up b n = c :: r /\ c <> 43 /\ c <> 45 /\ is_alpha c = (10 <=? hd 0 (digits_of b n)) /\
              (b = 10 -> 48 <= c <= 57 /\ Forall (fun x => 48 <= x <= 57) r).
Proof.
  intros Hb Hn. rewrite print_nat_eq.
  destruct (digits_of_spec b n ltac:(lia) Hn) as (F & _ & NE).
  destruct (digits_of b n) as [|d ds]; [congruence|]. cbn [map hd].
  inversion F as [|? ? Hd F']; subst.
  exists (digit_char up d), (map (digit_char up) ds).
  assert (Hd16 : 0 <= d < 16) by lia.
  pose proof (digit_char_range up d Hd16) as R. cbn zeta in R.
  split; [reflexivity|]. split; [lia|]. split; [lia|]. split.
  - unfold is_alpha. destruct (10 <=? d) eqn:E; [apply Z.leb_le in E | apply Z.leb_gt in E].
    + destruct R as [R|[R|R]]; [lia| |].
      * assert (H1 : (65 <=? digit_char up d) = true) by (apply Z.leb_le; lia).
        assert (H2 : (digit_char up d <=? 90) = true) by (apply Z.leb_le; lia).
        rewrite H1, H2. reflexivity.
      * assert (H1 : (97 <=? digit_char up d) = true) by (apply Z.leb_le; lia).
        assert (H2 : (digit_char up d <=? 122) = true) by (apply Z.leb_le; lia).
        assert (H3 : (digit_char up d <=? 90) = false) by (apply Z.leb_gt; lia).
        rewrite H1, H2, H3. now rewrite andb_false_r.
    + assert (H1 : (65 <=? digit_char up d) = false) by (apply Z.leb_gt; lia).
      assert (H2 : (97 <=? digit_char up d) = false) by (apply Z.leb_gt; lia).
      rewrite H1, H2. reflexivity.
  - intros ->. split; [destruct R as [R|[R|R]]; lia|].
    apply Forall_forall. intros x Hx. apply in_map_iff in Hx. destruct Hx as (e & <- & He).
    rewrite Forall_forall in F'. specialize (F' e He).
    assert (He16 : 0 <= e < 16) by lia.
    pose proof (digit_char_range up e He16) as Re. cbn zeta in Re. lia.
Qed.

Lemma from_str_radix_print (signed : bool) up radix n : (radix = 10 \/ radix = 16) -> 0 <= n ->
  (if signed then n <= I64_MAX else n <= U64_MAX) ->
  from_str_radix signed radix (print_nat up radix n) = Ok n.
Proof.
  intros Hr Hn Hmax.
  destruct (print_nat_head up radix n Hr Hn) as (c & r & E & N1 & N2 & _ & _).
  unfold from_str_radix. rewrite E.
  assert (E1 : (c =? 43) = false) by (apply Z.eqb_neq; exact N1).
  assert (E2 : (c =? 45) = false) by (apply Z.eqb_neq; exact N2).
  rewrite E1, E2. cbn [andb]. rewrite <- E. rewrite print_nat_eq.
  destruct (digits_of_spec radix n ltac:(lia) Hn) as (F & V & NE).
  rewrite (digits_acc_print up radix _ Hr F 0), V.
  destruct (map (digit_char up) (digits_of radix n)) eqn:EM.
  { apply map_eq_nil in EM. congruence. }
  destruct signed.
  - assert (H1 : (I64_MIN <=? n) = true) by (apply Z.leb_le; unfold I64_MIN; lia).
    assert (H2 : (n <=? I64_MAX) = true) by (apply Z.leb_le; exact Hmax).
    rewrite H1, H2. reflexivity.
  - assert (H2 : (n <=? U64_MAX) = true) by (apply Z.leb_le; exact Hmax).
    rewrite H2. reflexivity.
Qed.

Lemma from_str_radix_minus s : from_str_radix true 10 (45 :: s) =
  match s with
  | [] => Panic
  | _ => match digits_acc 10 s 0 with
         | None => Panic
         | Some v => if (I64_MIN <=? - v) && (- v <=? I64_MAX) then Ok (- v) else Panic
         end
  end.
Proof. reflexivity. Qed.

Lemma from_str_radix_neg n : 0 < n <= - I64_MIN ->
  from_str_radix true 10 (45 :: print_nat false 10 n) = Ok (- n).
Proof.
  intros Hn. rewrite from_str_radix_minus. rewrite print_nat_eq.
  destruct (digits_of_spec 10 n ltac:(lia) ltac:(lia)) as (F & V & NE).
  rewrite (digits_acc_print false 10 _ (or_introl eq_refl) F 0), V.
  destruct (map (digit_char false) (digits_of 10 n)) eqn:EM.
  { apply map_eq_nil in EM. congruence. }
  assert (H1 : (I64_MIN <=? - n) = true) by (apply Z.leb_le; unfold I64_MIN in *; lia).
  assert (H2 : (- n <=? I64_MAX) = true) by (apply Z.leb_le; unfold I64_MAX; lia).
  rewrite H1, H2. reflexivity.
Qed.

Lemma no_hex_prefix_digits c r : 48 <= c <= 57 -> Forall (fun x => 48 <= x <= 57) r -> has_hex_prefix (c :: r) = None.
Proof.
  intros Hc F. unfold has_hex_prefix. destruct r as [|c2 r]; [reflexivity|].
  inversion F; subst.
  assert (E1 : (c2 =? 120) = false) by (apply Z.eqb_neq; lia).
  assert (E2 : (c2 =? 88) = false) by (apply Z.eqb_neq; lia).
  rewrite E1, E2. now rewrite andb_false_r.
Qed.

Lemma no_hex_prefix_minus s : has_hex_prefix (45 :: s) = None.
Proof. destruct s; reflexivity. Qed.

(* well-formed integer literals *)
Definition wf_i64 (l : ilit) : Prop :=
  match il_form l with
  | FmDec => I64_MIN <= il_val l <= I64_MAX
  | FmHex _ _ => 0 <= il_val l <= I64_MAX
  end.
Definition wf_u64 (l : ilit) : Prop := 0 <= il_val l <= U64_MAX.
Definition wf_h64 (l : hlit) : Prop := 0 <= hl_val l <= U64_MAX.

Lemma hex_prefix_sh (px : bool) dg v : has_hex_prefix (48 :: (if px then 88 else 120) :: print_nat dg 16 v) = Some (print_nat dg 16 v).
Proof. destruct px; reflexivity. Qed.

Lemma convert_to_int_sh l : wf_i64 l -> convert_to_int (sh_ilit l) = Ok (il_val l).
Proof.
  destruct l as [f v]. unfold wf_i64, sh_ilit, convert_to_int. cbn [il_form il_val].
  destruct f as [|px dg]; intros H.
  - unfold print_dec. destruct (v <? 0) eqn:E.
    + apply Z.ltb_lt in E. rewrite no_hex_prefix_minus.
      rewrite from_str_radix_neg by (unfold I64_MIN in *; lia). rewrite Z.opp_involutive. reflexivity.
    + apply Z.ltb_ge in E.
      destruct (print_nat_head false 10 v (or_introl eq_refl) E) as (c & r & EQ & _ & _ & _ & D).
      destruct (D eq_refl) as [D1 D2]. rewrite EQ, (no_hex_prefix_digits c r D1 D2), <- EQ.
      apply (from_str_radix_print true); [left; reflexivity | lia | lia].
  - rewrite hex_prefix_sh. apply (from_str_radix_print true); [right; reflexivity | lia | lia].
Qed.

Lemma convert_to_uint_sh l : wf_u64 l -> convert_to_uint (sh_ilit l) = Ok (il_val l).
Proof.
  destruct l as [f v]. unfold wf_u64, sh_ilit, convert_to_uint. cbn [il_form il_val].
  destruct f as [|px dg]; intros H.
  - unfold print_dec. assert (E : (v <? 0) = false) by (apply Z.ltb_ge; lia). rewrite E.
    destruct (print_nat_head false 10 v (or_introl eq_refl) ltac:(lia)) as (c & r & EQ & _ & _ & _ & D).
    destruct (D eq_refl) as [D1 D2]. rewrite EQ, (no_hex_prefix_digits c r D1 D2), <- EQ.
    apply (from_str_radix_print false); [left; reflexivity | lia | lia].
  - rewrite hex_prefix_sh. apply (from_str_radix_print false); [right; reflexivity | lia | lia].
Qed.

Lemma hex64_sh l : wf_h64 l -> from_str_radix false 16 (sh_hlit l) = Ok (hl_val l).
Proof. intros H. apply (from_str_radix_print false); [right; reflexivity | apply H | apply H]. Qed.

(* the first character of a rendered integer literal is not alphabetic *)
Lemma sh_ilit_head l : (wf_i64 l \/ wf_u64 l) -> exists c r, sh_ilit l = c :: r /\ is_alpha c = false.
Proof.
  destruct l as [f v]. unfold sh_ilit, wf_i64, wf_u64. cbn [il_form il_val]. destruct f as [|px dg]; intros H.
  - unfold print_dec. destruct (v <? 0) eqn:E.
    + eexists _, _. split; reflexivity.
    + apply Z.ltb_ge in E.
      destruct (print_nat_head false 10 v (or_introl eq_refl) E) as (c & r & EQ & _ & _ & _ & D).
      destruct (D eq_refl) as [D1 _]. exists c, r. split; [exact EQ|].
      unfold is_alpha.
      assert (H1 : (65 <=? c) = false) by (apply Z.leb_gt; lia).
      assert (H2 : (97 <=? c) = false) by (apply Z.leb_gt; lia).
      rewrite H1, H2. reflexivity.
  - eexists _, _. split; reflexivity.
Qed.

Lemma bool_sh l : convert_to_bool (sh_blit l) = Ok (bl_val l).
Proof. destruct l as [[|] [|]]; reflexivity. Qed.
Lemma bool_opt_sh l : convert_to_bool_opt (sh_blit l) = Some (bl_val l).
Proof. destruct l as [[|] [|]]; reflexivity. Qed.

(* floats: INF / -INF are the special forms, everything else is handed to the float parser unchanged *)
Definition wf_f (f : fval) : Prop :=
  match f with
  | FvInf | FvNegInf => True
  | FvText t => str_eqb t L_INF = false /\ str_eqb t L_NegINF = false
  | FvBits _ => False
  end.
(* ... and is recognised as a literal by the ImmOrPNode sniffing: "NaN", or not starting with a letter *)
Definition sniff_f (f : fval) : Prop :=
  match f with
  | FvText t => t = L_NaN \/ exists c r, t = c :: r /\ is_alpha c = false
  | _ => True
  end.

Lemma f64_sh f : wf_f f -> convert_to_f64 (sh_fval f) = f.
Proof.
  destruct f as [| |t|b]; cbn; try reflexivity; [|contradiction].
  intros [H1 H2]. unfold convert_to_f64. now rewrite H1, H2.
Qed.

(* identifiers: what the sniffing takes for a node reference *)
Definition ident (s : str) : Prop := exists c r, s = c :: r /\ is_alpha c = true.
Definition ident_f (s : str) : Prop :=
  ident s /\ str_eqb s L_INF = false /\ str_eqb s L_NaN = false.
Definition ident_b (s : str) : Prop := convert_to_bool_opt s = None.

Lemma literals_int :
  (forall z, I64_MIN <= z <= I64_MAX -> convert_to_int (print_dec z) = Ok z) /\
  (forall z (px : bool) dg, 0 <= z <= I64_MAX -> convert_to_int (48 :: (if px then 88 else 120) :: print_nat dg 16 z) = Ok z) /\
  (forall z, 0 <= z <= U64_MAX -> convert_to_uint (print_dec z) = Ok z) /\
  (forall z (px : bool) dg, 0 <= z <= U64_MAX -> convert_to_uint (48 :: (if px then 88 else 120) :: print_nat dg 16 z) = Ok z) /\
  (forall z up, 0 <= z <= U64_MAX -> from_str_radix false 16 (print_nat up 16 z) = Ok z).
Proof.
  repeat split; intros.
  - apply (convert_to_int_sh (IL FmDec z)). exact H.
  - apply (convert_to_int_sh (IL (FmHex px dg) z)). exact H.
  - apply (convert_to_uint_sh (IL FmDec z)). exact H.
  - apply (convert_to_uint_sh (IL (FmHex px dg) z)). exact H.
  - apply (hex64_sh (HL up z)). exact H.
Qed.

Lemma literals_other :
  (forall l, convert_to_bool (sh_blit l) = Ok (bl_val l)) /\
  convert_to_f64 L_INF = FvInf /\ convert_to_f64 L_NegINF = FvNegInf /\ convert_to_f64 L_NaN = FvText L_NaN /\
  (forall f, wf_f f -> convert_to_f64 (sh_fval f) = f).
Proof. repeat split; [apply bool_sh | apply f64_sh]. Qed.

(* ---------------------------------------------------------------------------------------------- *)
(* cursor combinators on rendered element lists                                                     *)

Lemma bind_step {A B} (p : P A) (f : A -> P B) c a c' r :
  p c = Ok (a, c') -> f a c' = r -> bindP p f c = r.
Proof. intros H1 H2. unfold bindP. rewrite H1. exact H2. Qed.

(* the next element (if any) carries none of the tags ts *)
Definition hn (ts : list str) (c : list xml) : Prop :=
  match peek c with Some (t, _, _, _) => mem_str t ts = false | None => True end.

Lemma hn_nil ts : hn ts [].
Proof. exact Logic.I. Qed.
Lemma hn_elem ts t a ch k : mem_str t ts = false -> hn ts (Elem t a ch :: k).
Proof. intros H. exact H. Qed.
Lemma hn_ropt {A} ts tag (sh : A -> str) o k : mem_str tag ts = false -> hn ts k -> hn ts (ropt tag sh o k).
Proof. intros H1 H2. destruct o; [exact H1 | exact H2]. Qed.
Lemma hn_rmany {A} ts tag (sh : A -> str) l k : mem_str tag ts = false -> hn ts k -> hn ts (rmany tag sh l k).
Proof. intros H1 H2. destruct l; [exact H2 | exact H1]. Qed.
Lemma hn_rimm {L} ts tagI tagP (sh : L -> str) x k :
  mem_str tagI ts = false -> mem_str tagP ts = false -> hn ts (rimm tagI tagP sh x k).
Proof. intros H1 H2. destruct x; [exact H1 | exact H2]. Qed.
Lemma hn_roimm {L} ts tagI tagP (sh : L -> str) o k :
  mem_str tagI ts = false -> mem_str tagP ts = false -> hn ts k -> hn ts (roimm tagI tagP sh o k).
Proof. intros H1 H2 H3. destruct o; [apply hn_rimm; assumption | exact H3]. Qed.

Lemma mem_str_true t ts : mem_str t ts = true -> exists u, In u ts /\ t = u.
Proof.
  unfold mem_str. intros H. apply existsb_exists in H. destruct H as (u & Hu & E).
  exists u. split; [exact Hu | apply str_eqb_eq; exact E].
Qed.
Lemma hn_incl ts ts' c : hn ts c -> forallb (fun t => mem_str t ts) ts' = true -> hn ts' c.
Proof.
  unfold hn. destruct (peek c) as [[[[t a] ch] r]|]; [|trivial]. intros H1 H2.
  destruct (mem_str t ts') eqn:E; [|reflexivity].
  apply mem_str_true in E. destruct E as (u & Hu & ->).
  rewrite forallb_forall in H2. specialize (H2 u Hu). congruence.
Qed.

Ltac hn_tac :=
  repeat first
    [ apply hn_nil
    | apply hn_elem; reflexivity
    | apply hn_ropt; [reflexivity|]
    | apply hn_rmany; [reflexivity|]
    | apply hn_rimm; [reflexivity|reflexivity]
    | apply hn_roimm; [reflexivity|reflexivity|]
    | (eapply hn_incl; [eassumption|reflexivity]) ].

Lemma parse_if_absent {A} tag (p : P A) c : hn [tag] c -> parse_if tag p c = Ok (None, c).
Proof.
  unfold parse_if, hn. destruct (peek c) as [[[[t a] ch] r]|]; [|reflexivity].
  cbn. rewrite orb_false_r. intros ->. reflexivity.
Qed.

Lemma parse_if_present {A} tag (p : P A) attrs ch k v :
  p (Elem tag attrs ch :: k) = Ok (v, k) -> parse_if tag p (Elem tag attrs ch :: k) = Ok (Some v, k).
Proof.
  intros H. unfold parse_if. cbn [peek]. rewrite str_eqb_refl. unfold mapP, bindP. rewrite H. reflexivity.
Qed.

Definition oall {A} (P : A -> Prop) (o : option A) : Prop := match o with Some x => P x | None => True end.
Definition tt_ok {A} (_ : A) : Prop := True.
Lemma oall_tt {A} (o : option A) : oall tt_ok o.
Proof. destruct o; exact Logic.I. Qed.
Lemma Forall_tt {A} (l : list A) : Forall tt_ok l.
Proof. induction l; constructor; [exact Logic.I | assumption]. Qed.

(* a leaf parser reads back what the renderer wrote into one element *)
Definition leaf {A B} (p : P B) (sh : A -> str) (nm : A -> B) (ok : A -> Prop) : Prop :=
  forall tag attrs x k, ok x -> p (Elem tag attrs (txt (sh x)) :: k) = Ok (nm x, k).

Lemma parse_if_ropt {A B} tag (p : P B) (sh : A -> str) nm ok o k :
  leaf p sh nm ok -> oall ok o -> hn [tag] k -> parse_if tag p (ropt tag sh o k) = Ok (option_map nm o, k).
Proof.
  intros L W H. destruct o as [x|]; cbn [ropt option_map].
  - apply parse_if_present. apply L. exact W.
  - apply parse_if_absent. exact H.
Qed.
Lemma parse_if_ropt_id {A} tag (p : P A) (sh : A -> str) ok o k :
  leaf p sh (fun x => x) ok -> oall ok o -> hn [tag] k -> parse_if tag p (ropt tag sh o k) = Ok (o, k).
Proof.
  intros L W H. rewrite (parse_if_ropt tag p sh (fun x => x) ok o k L W H). destruct o; reflexivity.
Qed.

Lemma loop_rmany {A B} tag (p : P B) (sh : A -> str) nm ok k :
  leaf p sh nm ok -> hn [tag] k -> forall l, Forall ok l -> forall fuel, (List.length l < fuel)%nat ->
  loop_f fuel (parse_if tag p) (rmany tag sh l k) = Ok (map nm l, k).
Proof.
  intros L H. induction l as [|x l IH]; intros W fuel Hf; (destruct fuel as [|f]; [cbn in Hf; lia|]).
  - cbn [loop_f rmany map app]. eapply bind_step; [apply parse_if_absent; exact H | reflexivity].
  - inversion W; subst. cbn [loop_f]. unfold rmany. cbn [map app].
    eapply bind_step; [apply parse_if_present; apply L; assumption|].
    cbn beta iota. eapply bind_step; [apply IH; [assumption | cbn in Hf; lia] | reflexivity].
Qed.
Lemma parse_while_rmany {A B} tag (p : P B) (sh : A -> str) nm ok l k :
  leaf p sh nm ok -> Forall ok l -> hn [tag] k -> parse_while tag p (rmany tag sh l k) = Ok (map nm l, k).
Proof.
  intros L W H. unfold parse_while, loop. apply (loop_rmany tag p sh nm ok k L H l W).
  unfold rmany. rewrite app_length, map_length. lia.
Qed.
Lemma parse_while_rmany_id {A} tag (p : P A) (sh : A -> str) ok l k :
  leaf p sh (fun x => x) ok -> Forall ok l -> hn [tag] k -> parse_while tag p (rmany tag sh l k) = Ok (l, k).
Proof. intros L W H. rewrite (parse_while_rmany tag p sh (fun x => x) ok l k L W H). now rewrite map_id. Qed.

(* leaves *)
Lemma next_text_el tag attrs s k : next_text (Elem tag attrs (txt s) :: k) = Ok (s, k).
Proof. unfold next_text. cbn [peek]. now rewrite text_of_txt. Qed.

Lemma leaf_string : leaf p_string sid (fun x => x) tt_ok.
Proof. intros tag attrs x k _. apply next_text_el. Qed.
Lemma leaf_nodeid : leaf p_nodeid sid (fun x => x) tt_ok.
Proof. exact leaf_string. Qed.
Lemma leaf_text {A B} (sh : A -> str) (nm : A -> B) (ok : A -> Prop) (conv : str -> outcome B) :
  (forall x, ok x -> conv (sh x) = Ok (nm x)) -> leaf (let! t := next_text in lift (conv t)) sh nm ok.
Proof.
  intros H tag attrs x k W. eapply bind_step; [apply next_text_el|]. unfold lift. now rewrite (H x W).
Qed.
Lemma leaf_bool : leaf p_bool sh_blit bl_val tt_ok.
Proof. apply leaf_text. intros x _. apply bool_sh. Qed.
Lemma leaf_i64 : leaf p_i64 sh_ilit il_val wf_i64.
Proof. apply leaf_text. exact convert_to_int_sh. Qed.
Lemma leaf_u64 : leaf p_u64 sh_ilit il_val wf_u64.
Proof. apply leaf_text. exact convert_to_uint_sh. Qed.
Lemma leaf_hex64 : leaf p_hex64 sh_hlit hl_val wf_h64.
Proof. apply leaf_text. exact hex64_sh. Qed.
Lemma leaf_f64 : leaf p_f64 sh_fval (fun x => x) wf_f.
Proof.
  intros tag attrs x k W. eapply bind_step; [apply next_text_el|]. unfold ret. now rewrite (f64_sh x W).
Qed.
Lemma leaf_enum {A} (tbl : list (str * A)) (name : A -> str) :
  (forall x, assoc_str (name x) tbl = Some x) -> leaf (p_enum tbl) name (fun x => x) tt_ok.
Proof.
  intros H tag attrs x k _. eapply bind_step; [apply next_text_el|]. now rewrite H.
Qed.
Lemma leaf_vis : leaf (p_enum vis_tbl) vis_name (fun x => x) tt_ok.
Proof. apply leaf_enum. intros []; reflexivity. Qed.
Lemma leaf_access : leaf (p_enum access_tbl) access_name (fun x => x) tt_ok.
Proof. apply leaf_enum. intros []; reflexivity. Qed.
Lemma leaf_caching : leaf (p_enum caching_tbl) caching_name (fun x => x) tt_ok.
Proof. apply leaf_enum. intros []; reflexivity. Qed.
Lemma leaf_irep : leaf (p_enum irep_tbl) irep_name (fun x => x) tt_ok.
Proof. apply leaf_enum. intros []; reflexivity. Qed.
Lemma leaf_frep : leaf (p_enum frep_tbl) frep_name (fun x => x) tt_ok.
Proof. apply leaf_enum. intros []; reflexivity. Qed.
Lemma leaf_dnot : leaf (p_enum dnot_tbl) dnot_name (fun x => x) tt_ok.
Proof. apply leaf_enum. intros []; reflexivity. Qed.
Lemma leaf_sign : leaf (p_enum sign_tbl) sign_name (fun x => x) tt_ok.
Proof. apply leaf_enum. intros []; reflexivity. Qed.
Lemma leaf_endian : leaf (p_enum endian_tbl) endian_name (fun x => x) tt_ok.
Proof. apply leaf_enum. intros []; reflexivity. Qed.

Ltac leaf_tac :=
  first [ exact leaf_string | exact leaf_nodeid | exact leaf_bool | exact leaf_i64 | exact leaf_u64
        | exact leaf_hex64 | exact leaf_f64 | exact leaf_vis | exact leaf_access | exact leaf_caching
        | exact leaf_irep | exact leaf_frep | exact leaf_dnot | exact leaf_sign | exact leaf_endian ].
Ltac wf_tac := first [ apply oall_tt | apply Forall_tt | assumption | exact Logic.I ].

(* one optional / repeated element of the rendered list is consumed *)
Ltac step :=
  eapply bind_step;
  [ first [ eapply parse_if_ropt_id; [leaf_tac | wf_tac | solve [hn_tac]]
          | eapply parse_if_ropt; [leaf_tac | wf_tac | solve [hn_tac]]
          | eapply parse_while_rmany_id; [leaf_tac | wf_tac | solve [hn_tac]]
          | eapply parse_while_rmany; [leaf_tac | wf_tac | solve [hn_tac]] ]
  | cbn beta ].

(* ---------------------------------------------------------------------------------------------- *)
(* NodeAttributeBase, NodeElementBase                                                               *)

Lemma attribute_of_r_attr a :
  attribute_of T_Name (r_attr a) = Some (a_name a) /\
  attribute_of T_NameSpace (r_attr a) = option_map namespace_name (a_ns a) /\
  attribute_of T_MergePriority (r_attr a) = option_map mergeprio_name (a_mp a) /\
  attribute_of T_ExposeStatic (r_attr a) = option_map sh_blit (a_es a).
Proof.
  destruct a as [n ns mp es]. cbn [a_name a_ns a_mp a_es]. unfold r_attr. cbn [a_name a_ns a_mp a_es].
  destruct ns, mp, es; repeat split; reflexivity.
Qed.

Lemma parse_attr_rt a : parse_attr (r_attr a) = Ok (n_attr a).
Proof.
  destruct (attribute_of_r_attr a) as (H1 & H2 & H3 & H4).
  unfold parse_attr. rewrite H1, H2, H3, H4. unfold n_attr.
  destruct a as [n ns mp es]. cbn [a_name a_ns a_mp a_es option_map].
  destruct ns as [[]|], mp as [[]|], es as [[[] []]|]; reflexivity.
Qed.

Definition eb_tags : list str :=
  [T_Extension; T_ToolTip; T_Description; T_DisplayName; T_Visibility; T_DocuURL; T_IsDeprecated; T_EventID;
   T_pIsImplemented; T_pIsAvailable; T_pIsLocked; T_pBlockPolling; T_ImposedAccessMode; T_pError; T_pAlias;
   T_pCastAlias; T_pInvalidator].

Definition wf_eb (e : eb Src) : Prop := oall wf_h64 (eb_event e).

Lemma p_eb_rt e k : wf_eb e -> hn eb_tags k -> p_eb (r_eb e k) = Ok (n_eb e, k).
Proof.
  intros W H. unfold wf_eb in W. unfold p_eb, r_eb.
  assert (E : exists x, parse_if T_Extension p_string
     ((match eb_ext e with Some ch => fun k => Elem T_Extension [] ch :: k | None => fun k => k end)
      (ropt T_ToolTip sid (eb_tooltip e) (ropt T_Description sid (eb_description e)
      (ropt T_DisplayName sid (eb_display_name e) (ropt T_Visibility vis_name (eb_vis e)
      (ropt T_DocuURL sid (eb_docu_url e) (ropt T_IsDeprecated sh_blit (eb_deprecated e)
      (ropt T_EventID sh_hlit (eb_event e) (ropt T_pIsImplemented sid (eb_impl e)
      (ropt T_pIsAvailable sid (eb_avail e) (ropt T_pIsLocked sid (eb_locked e)
      (ropt T_pBlockPolling sid (eb_block e) (ropt T_ImposedAccessMode access_name (eb_imposed e)
      (rmany T_pError sid (eb_errors e) (ropt T_pAlias sid (eb_alias e) (ropt T_pCastAlias sid (eb_cast e)
      (rmany T_pInvalidator sid (eb_invs e) k))))))))))))))))) =
     Ok (x, ropt T_ToolTip sid (eb_tooltip e) (ropt T_Description sid (eb_description e)
      (ropt T_DisplayName sid (eb_display_name e) (ropt T_Visibility vis_name (eb_vis e)
      (ropt T_DocuURL sid (eb_docu_url e) (ropt T_IsDeprecated sh_blit (eb_deprecated e)
      (ropt T_EventID sh_hlit (eb_event e) (ropt T_pIsImplemented sid (eb_impl e)
      (ropt T_pIsAvailable sid (eb_avail e) (ropt T_pIsLocked sid (eb_locked e)
      (ropt T_pBlockPolling sid (eb_block e) (ropt T_ImposedAccessMode access_name (eb_imposed e)
      (rmany T_pError sid (eb_errors e) (ropt T_pAlias sid (eb_alias e) (ropt T_pCastAlias sid (eb_cast e)
      (rmany T_pInvalidator sid (eb_invs e) k))))))))))))))))).
  { destruct (eb_ext e) as [ch|].
    - eexists. apply parse_if_present. reflexivity.
    - eexists. apply parse_if_absent. hn_tac. }
  destruct E as (x & E). eapply bind_step; [exact E|]. cbn beta.
  do 16 step.
  reflexivity.
Qed.

Lemma with_attr_rt {A} a (f : attr Par -> P A) : with_attr (r_attr a) f = f (n_attr a).
Proof. unfold with_attr. now rewrite parse_attr_rt. Qed.

(* ---------------------------------------------------------------------------------------------- *)
(* ImmOrPNode sniffing                                                                              *)

Definition ileaf {L L'} (pimm : P (imm L')) (sh : L -> str) (nm : L -> L') (okL : L -> Prop) (okN : str -> Prop) : Prop :=
  (forall tag attrs l k, okL l -> pimm (Elem tag attrs (txt (sh l)) :: k) = Ok (Imm (nm l), k)) /\
  (forall tag attrs n k, okN n -> pimm (Elem tag attrs (txt n) :: k) = Ok (PNode n, k)).

Lemma peek_text_el tag attrs s k : peek_text (Elem tag attrs (txt s) :: k) = Ok (s, Elem tag attrs (txt s) :: k).
Proof. unfold peek_text. cbn [peek]. now rewrite text_of_txt. Qed.

Lemma mapP_leaf {A B C} (p : P B) (sh : A -> str) nm ok (g : B -> C) tag attrs x k :
  leaf p sh nm ok -> ok x -> mapP g p (Elem tag attrs (txt (sh x)) :: k) = Ok (g (nm x), k).
Proof. intros L W. unfold mapP. eapply bind_step; [apply L; exact W | reflexivity]. Qed.

Lemma ileaf_i64 : ileaf p_imm_i64 sh_ilit il_val wf_i64 ident.
Proof.
  split.
  - intros tag attrs l k W. unfold p_imm_i64. eapply bind_step; [apply peek_text_el|]. cbn beta.
    destruct (sh_ilit_head l (or_introl W)) as (c & r & E & HA).
    assert (G : forall s cur, s = c :: r ->
              (match s with [] => fail | c0 :: _ => if is_alpha c0 then mapP PNode p_nodeid else mapP Imm p_i64 end) cur
              = mapP Imm p_i64 cur) by (intros s cur ->; now rewrite HA).
    rewrite (G _ _ E).
    apply (mapP_leaf p_i64 sh_ilit il_val wf_i64 Imm); [exact leaf_i64 | exact W].
  - intros tag attrs n k (c & r & -> & HA). unfold p_imm_i64.
    eapply bind_step; [apply peek_text_el|]. cbn beta iota. rewrite HA.
    apply (mapP_leaf p_nodeid sid (fun x => x) tt_ok PNode tag attrs (c :: r) k leaf_nodeid Logic.I).
Qed.

Definition wf_fs (f : fval) : Prop := wf_f f /\ sniff_f f.

Lemma ileaf_f64 : ileaf p_imm_f64 sh_fval (fun x => x) wf_fs ident_f.
Proof.
  split.
  - intros tag attrs l k [W S]. unfold p_imm_f64. eapply bind_step; [apply peek_text_el|]. cbn beta.
    assert (G : mapP Imm p_f64 (Elem tag attrs (txt (sh_fval l)) :: k) = Ok (Imm l, k))
      by (apply (mapP_leaf p_f64 sh_fval (fun x => x) wf_f Imm); [exact leaf_f64 | exact W]).
    destruct l as [| |t|b]; [exact G | exact G | | destruct W].
    cbn [sh_fval] in *. destruct W as [W1 W2]. rewrite W1, W2. cbn [orb].
    destruct S as [->|(c & r & -> & HA)]; [exact G|].
    destruct (str_eqb (c :: r) L_NaN); [exact G|]. rewrite HA. exact G.
  - intros tag attrs n k ((c & r & -> & HA) & N1 & N2). unfold p_imm_f64.
    eapply bind_step; [apply peek_text_el|]. cbn beta. rewrite N1, N2.
    assert (N3 : str_eqb (c :: r) L_NegINF = false).
    { cbn. destruct (c =? 45) eqn:E; [|reflexivity]. apply Z.eqb_eq in E. subst. discriminate. }
    rewrite N3, HA. cbn [orb].
    apply (mapP_leaf p_nodeid sid (fun x => x) tt_ok PNode tag attrs (c :: r) k leaf_nodeid Logic.I).
Qed.

Lemma ileaf_bool : ileaf p_imm_bool sh_blit bl_val tt_ok ident_b.
Proof.
  split.
  - intros tag attrs l k _. unfold p_imm_bool. eapply bind_step; [apply peek_text_el|]. cbn beta.
    rewrite bool_opt_sh. apply (mapP_leaf p_bool sh_blit bl_val tt_ok Imm); [exact leaf_bool | exact Logic.I].
  - intros tag attrs n k W. unfold p_imm_bool. eapply bind_step; [apply peek_text_el|]. cbn beta.
    unfold ident_b in W. rewrite W.
    apply (mapP_leaf p_nodeid sid (fun x => x) tt_ok PNode tag attrs n k leaf_nodeid Logic.I).
Qed.

Definition wf_imm {L} (okL : L -> Prop) (okN : str -> Prop) (x : imm L) : Prop :=
  match x with Imm l => okL l | PNode n => okN n end.

Lemma pimm_rimm {L L'} pimm (sh : L -> str) (nm : L -> L') okL okN tagI tagP x k :
  ileaf pimm sh nm okL okN -> wf_imm okL okN x -> pimm (rimm tagI tagP sh x k) = Ok (imm_map nm x, k).
Proof. intros [L1 L2] W. destruct x; [apply L1 | apply L2]; exact W. Qed.

Lemma or_else_roimm {L L'} pimm (sh : L -> str) (nm : L -> L') okL okN tagI tagP o k :
  ileaf pimm sh nm okL okN -> str_eqb tagP tagI = false -> oall (wf_imm okL okN) o -> hn [tagI; tagP] k ->
  or_else (parse_if tagI pimm) (parse_if tagP pimm) (roimm tagI tagP sh o k) = Ok (option_map (imm_map nm) o, k).
Proof.
  intros [L1 L2] NE W H. unfold or_else. destruct o as [[l|n]|]; cbn [roimm rimm option_map imm_map oall wf_imm] in *.
  - eapply bind_step; [apply parse_if_present; apply L1; exact W | reflexivity].
  - eapply bind_step.
    + apply parse_if_absent. unfold hn, el. cbn [peek mem_str existsb]. now rewrite NE.
    + cbn beta iota. apply parse_if_present. apply L2. exact W.
  - assert (H2 : hn [tagI] k /\ hn [tagP] k).
    { unfold hn in *. destruct (peek k) as [[[[t a] ch] r]|]; [|split; exact Logic.I].
      cbn [mem_str existsb] in *. apply orb_false_iff in H. destruct H as [Ha Hb].
      apply orb_false_iff in Hb. destruct Hb as [Hb _]. rewrite Ha, Hb. split; reflexivity. }
    destruct H2 as [Ha Hb].
    eapply bind_step; [apply parse_if_absent; exact Ha|].
    cbn beta iota. apply parse_if_absent. exact Hb.
Qed.

(* ---------------------------------------------------------------------------------------------- *)
(* ValueKind                                                                                        *)

Definition wf_vk {L} (okL : L -> Prop) (okN : str -> Prop) (v : svkind L) : Prop :=
  match v with
  | SvValue l => okL l
  | SvPValue _ _ _ => True
  | SvPIndex _ ixs d => Forall (fun p => wf_i64 (fst p) /\ wf_imm okL okN (snd p)) ixs /\ wf_imm okL okN d
  end.

Lemma p_value_indexed_el {L L'} pimm (sh : L -> str) (nm : L -> L') okL okN (p : ilit * imm L) k :
  ileaf pimm sh nm okL okN -> wf_i64 (fst p) -> wf_imm okL okN (snd p) ->
  let e := match snd p with
           | Imm l => Elem T_ValueIndexed [(T_Index, sh_ilit (fst p))] (txt (sh l))
           | PNode n => Elem T_pValueIndexed [(T_Index, sh_ilit (fst p))] (txt n)
           end in
  or_else (parse_if T_ValueIndexed (p_value_indexed pimm)) (parse_if T_pValueIndexed (p_value_indexed pimm)) (e :: k)
  = Ok (Some (il_val (fst p), imm_map nm (snd p)), k).
Proof.
  intros [L1 L2] Wi Wv. destruct p as [i [l|n]]; cbn [fst snd wf_imm imm_map] in *; cbv zeta; unfold or_else.
  - eapply bind_step.
    + apply parse_if_present. unfold p_value_indexed.
      eapply bind_step; [reflexivity|]. cbn beta iota. cbn [attribute_of]. rewrite str_eqb_refl.
      rewrite (convert_to_int_sh i Wi). cbn [lift].
      eapply bind_step; [reflexivity|]. cbn beta. eapply bind_step; [apply L1; exact Wv | reflexivity].
    + reflexivity.
  - eapply bind_step; [apply parse_if_absent; reflexivity|]. cbn beta iota.
    apply parse_if_present. unfold p_value_indexed.
    eapply bind_step; [reflexivity|]. cbn beta iota. cbn [attribute_of]. rewrite str_eqb_refl.
      rewrite (convert_to_int_sh i Wi). cbn [lift].
    eapply bind_step; [reflexivity|]. cbn beta. eapply bind_step; [apply L2; exact Wv | reflexivity].
Qed.

Lemma loop_r_ixs {L L'} pimm (sh : L -> str) (nm : L -> L') okL okN k :
  ileaf pimm sh nm okL okN -> hn [T_ValueIndexed; T_pValueIndexed] k ->
  forall ixs, Forall (fun p => wf_i64 (fst p) /\ wf_imm okL okN (snd p)) ixs ->
  forall fuel, (List.length ixs < fuel)%nat ->
  loop_f fuel (or_else (parse_if T_ValueIndexed (p_value_indexed pimm)) (parse_if T_pValueIndexed (p_value_indexed pimm)))
         (r_ixs sh ixs k) = Ok (map (fun p => (il_val (fst p), imm_map nm (snd p))) ixs, k).
Proof.
  intros IL H. induction ixs as [|p ixs IH]; intros W fuel Hf; (destruct fuel as [|f]; [cbn in Hf; lia|]).
  - cbn [loop_f r_ixs map app]. eapply bind_step.
    + unfold or_else.
      eapply bind_step; [apply parse_if_absent; eapply hn_incl; [exact H | reflexivity]|]. cbn beta iota.
      apply parse_if_absent. eapply hn_incl; [exact H | reflexivity].
    + reflexivity.
  - inversion W as [|? ? [W1 W2] W']; subst. cbn [loop_f]. unfold r_ixs. cbn [map app].
    eapply bind_step; [apply (p_value_indexed_el pimm sh nm okL okN p _ IL W1 W2)|]. cbn beta iota.
    eapply bind_step; [apply IH; [exact W' | cbn in Hf; lia] | reflexivity].
Qed.

Lemma p_vkind_rt {L L'} (pT : P L') pimm (sh : L -> str) (nm : L -> L') okL okN v k :
  leaf pT sh nm okL -> ileaf pimm sh nm okL okN -> wf_vk okL okN v -> hn [T_pValueCopy] k ->
  p_vkind pT pimm (r_vk sh v k) = Ok (n_vk nm v, k).
Proof.
  intros LT IL W H. unfold p_vkind. destruct v as [l|before pv after|pi ixs d]; cbn [r_vk n_vk wf_vk] in *.
  - eapply bind_step; [reflexivity|]. cbn beta. rewrite str_eqb_refl.
    apply (mapP_leaf pT sh nm okL VkValue); assumption.
  - assert (PV : p_pvalue (rmany T_pValueCopy sid before (el T_pValue pv :: rmany T_pValueCopy sid after k))
                 = Ok ((pv, before ++ after), k)).
    { unfold p_pvalue.
      eapply bind_step; [eapply parse_while_rmany_id; [exact leaf_nodeid | apply Forall_tt | hn_tac]|]. cbn beta.
      eapply bind_step; [apply (leaf_nodeid T_pValue [] pv); exact Logic.I|]. cbn beta.
      eapply bind_step; [eapply parse_while_rmany_id; [exact leaf_nodeid | apply Forall_tt | exact H]|].
      reflexivity. }
    destruct before as [|b0 before].
    + eapply bind_step; [reflexivity|]. cbn beta.
      change (str_eqb T_pValue T_Value) with false. change (str_eqb T_pValue T_pValueCopy) with false.
      rewrite str_eqb_refl. cbn [orb]. eapply bind_step; [exact PV | reflexivity].
    + eapply bind_step; [reflexivity|]. cbn beta.
      change (str_eqb T_pValueCopy T_Value) with false. rewrite str_eqb_refl. cbn [orb].
      eapply bind_step; [exact PV | reflexivity].
  - destruct W as [W1 W2].
    eapply bind_step; [reflexivity|]. cbn beta.
    change (str_eqb T_pIndex T_Value) with false. change (str_eqb T_pIndex T_pValueCopy) with false.
    change (str_eqb T_pIndex T_pValue) with false. rewrite str_eqb_refl. cbn [orb].
    assert (PI : p_pindex pimm (el T_pIndex pi :: r_ixs sh ixs (rimm T_ValueDefault T_pValueDefault sh d k)) =
      Ok ((pi, map (fun p => (il_val (fst p), imm_map nm (snd p))) ixs, imm_map nm d), k)).
    { unfold p_pindex.
    eapply bind_step; [apply (leaf_nodeid T_pIndex [] pi); exact Logic.I|]. cbn beta.
    eapply bind_step.
    { unfold loop. eapply (loop_r_ixs pimm sh nm okL okN _ IL); [|exact W1|].
      - destruct d; apply hn_elem; reflexivity.
      - unfold r_ixs. rewrite app_length, map_length. lia. }
      cbn beta. eapply bind_step; [apply (pimm_rimm pimm sh nm okL okN _ _ d k IL W2)|]. reflexivity. }
    eapply bind_step; [exact PI | reflexivity].
Qed.

(* ---------------------------------------------------------------------------------------------- *)
(* node kinds built on the element base                                                             *)

Lemma hn_r_vk {L} ts (sh : L -> str) v k :
  mem_str T_Value ts = false -> mem_str T_pValueCopy ts = false -> mem_str T_pValue ts = false ->
  mem_str T_pIndex ts = false -> hn ts (r_vk sh v k).
Proof. intros H1 H2 H3 H4. destruct v as [l|[|b before] pv after|pi ixs d]; assumption. Qed.

Ltac hn_tac ::=
  repeat first
    [ apply hn_nil
    | apply hn_elem; reflexivity
    | apply hn_ropt; [reflexivity|]
    | apply hn_rmany; [reflexivity|]
    | apply hn_rimm; [reflexivity|reflexivity]
    | apply hn_roimm; [reflexivity|reflexivity|]
    | apply hn_r_vk; reflexivity
    | (eapply hn_incl; [eassumption|reflexivity]) ].

Ltac eb_step W :=
  eapply bind_step; [ apply p_eb_rt; [exact W | solve [hn_tac]] | cbn beta ].

Definition wf_plain (n : plain Src) : Prop := wf_eb (pl_eb n).
Lemma plain_rt n : wf_plain n -> p_plain (r_attr (pl_attr n)) (r_eb (pl_eb n) []) = Ok (n_plain n, []).
Proof. intros W. unfold p_plain. rewrite with_attr_rt. eb_step W. reflexivity. Qed.

Definition wf_category (n : category Src) : Prop := wf_eb (ca_eb n).
Lemma category_rt n : wf_category n ->
  p_category (r_attr (ca_attr n)) (r_eb (ca_eb n) (rmany T_pFeature sid (ca_features n) [])) = Ok (n_category n, []).
Proof. intros W. unfold p_category. rewrite with_attr_rt. eb_step W. step. reflexivity. Qed.

Definition wf_imm_i := wf_imm wf_i64 ident.

Definition wf_integer (n : integer Src) : Prop :=
  wf_eb (i_eb n) /\ wf_vk wf_i64 ident (i_value n) /\ oall wf_imm_i (i_min n) /\ oall wf_imm_i (i_max n) /\
  oall wf_imm_i (i_inc n).

Ltac oimm_step IL :=
  eapply bind_step; [ eapply (or_else_roimm _ _ _ _ _ _ _ _ _ IL); [reflexivity | assumption | solve [hn_tac]] | cbn beta ].

Lemma integer_rt n : wf_integer n ->
  match r_integer n with Elem _ attrs ch => p_integer attrs ch | _ => fail [] end = Ok (n_integer n, []).
Proof.
  intros (W1 & W2 & W3 & W4 & W5). unfold r_integer, p_integer. rewrite with_attr_rt.
  eb_step W1. step.
  eapply bind_step; [apply (p_vkind_rt p_i64 p_imm_i64 sh_ilit il_val wf_i64 ident _ _ leaf_i64 ileaf_i64 W2); hn_tac|].
  cbn beta.
  oimm_step ileaf_i64. oimm_step ileaf_i64. oimm_step ileaf_i64.
  step. step. step. reflexivity.
Qed.

Definition wf_boolean (n : boolean Src) : Prop :=
  wf_eb (b_eb n) /\ wf_imm tt_ok ident_b (b_value n) /\ oall wf_i64 (b_on n) /\ oall wf_i64 (b_off n).

Lemma boolean_rt n : wf_boolean n ->
  match r_boolean n with Elem _ attrs ch => p_boolean attrs ch | _ => fail [] end = Ok (n_boolean n, []).
Proof.
  intros (W1 & W2 & W3 & W4). unfold r_boolean, p_boolean. rewrite with_attr_rt.
  eb_step W1. step.
  eapply bind_step; [apply (pimm_rimm p_imm_bool sh_blit bl_val tt_ok ident_b _ _ _ _ ileaf_bool W2)|]. cbn beta.
  step. step. step. unfold n_boolean. destruct (b_value n); reflexivity.
Qed.

Definition wf_command (n : command Src) : Prop :=
  wf_eb (c_eb n) /\ wf_imm_i (c_value n) /\ wf_imm_i (c_command_value n) /\ oall wf_u64 (c_polling n).

Lemma command_rt n : wf_command n ->
  match r_command n with Elem _ attrs ch => p_command attrs ch | _ => fail [] end = Ok (n_command n, []).
Proof.
  intros (W1 & W2 & W3 & W4). unfold r_command, p_command. rewrite with_attr_rt.
  eb_step W1.
  eapply bind_step; [apply (pimm_rimm p_imm_i64 sh_ilit il_val wf_i64 ident _ _ _ _ ileaf_i64 W2)|]. cbn beta.
  eapply bind_step; [apply (pimm_rimm p_imm_i64 sh_ilit il_val wf_i64 ident _ _ _ _ ileaf_i64 W3)|]. cbn beta.
  step. reflexivity.
Qed.

Definition wf_imm_f := wf_imm wf_fs ident_f.
Definition wf_float (n : floatn Src) : Prop :=
  wf_eb (f_eb n) /\ wf_vk wf_fs ident_f (f_value n) /\ oall wf_imm_f (f_min n) /\ oall wf_imm_f (f_max n) /\
  oall wf_imm_f (f_inc n) /\ oall wf_i64 (f_dprec n).

Lemma leaf_f64s : leaf p_f64 sh_fval (fun x => x) wf_fs.
Proof. intros tag attrs x k [W _]. apply leaf_f64. exact W. Qed.

Lemma option_map_imm_id {L} (o : option (imm L)) : option_map (imm_map (fun x => x)) o = o.
Proof. destruct o as [[|]|]; reflexivity. Qed.

Lemma float_rt n : wf_float n ->
  match r_float n with Elem _ attrs ch => p_float attrs ch | _ => fail [] end = Ok (n_float n, []).
Proof.
  intros (W1 & W2 & W3 & W4 & W5 & W6). unfold r_float, p_float, r_float_tail. rewrite with_attr_rt.
  eb_step W1. step.
  eapply bind_step; [apply (p_vkind_rt p_f64 p_imm_f64 sh_fval (fun x => x) wf_fs ident_f _ _ leaf_f64s ileaf_f64 W2); hn_tac|].
  cbn beta.
  oimm_step ileaf_f64. oimm_step ileaf_f64. oimm_step ileaf_f64.
  step. step. step. step. rewrite !option_map_imm_id. reflexivity.
Qed.

Definition wf_stringn (n : stringn Src) : Prop := wf_eb (s_eb n).
Lemma stringn_rt n : wf_stringn n ->
  match r_stringn n with Elem _ attrs ch => p_stringn attrs ch | _ => fail [] end = Ok (n_stringn n, []).
Proof.
  intros W. unfold r_stringn, p_stringn. rewrite with_attr_rt. eb_step W. step.
  unfold n_stringn. destruct (s_value n) as [v|p]; cbn [rimm].
  - eapply bind_step; [reflexivity|]. cbn beta iota.
    rewrite text_of_txt. reflexivity.
  - eapply bind_step; [reflexivity|]. cbn beta iota.
    eapply bind_step; [apply (mapP_leaf next_text sid (fun x => x) tt_ok PNode _ _ p _ leaf_string Logic.I)|].
    reflexivity.
Qed.

Lemma next_if_absent tag c : hn [tag] c -> next_if tag c = Ok (None, c).
Proof.
  unfold next_if, hn. destruct (peek c) as [[[[t a] ch] r]|]; [|reflexivity].
  cbn. rewrite orb_false_r. intros ->. reflexivity.
Qed.

Definition wf_port (n : port Src) : Prop := wf_eb (po_eb n) /\ oall (wf_imm wf_h64 tt_ok) (po_chunk n).
Lemma port_rt n : wf_port n ->
  match r_port n with Elem _ attrs ch => p_port attrs ch | _ => fail [] end = Ok (n_port n, []).
Proof.
  intros (W1 & W2). unfold r_port, p_port. rewrite with_attr_rt. eb_step W1.
  unfold n_port. destruct (po_chunk n) as [[h|p]|]; cbn [roimm rimm oall wf_imm option_map imm_map] in *.
  - eapply bind_step; [reflexivity|]. cbn beta iota.
    rewrite text_of_txt, (hex64_sh h W2). cbn [lift bindP ret]. unfold bindP, lift, ret. cbn beta iota.
    step. step. reflexivity.
  - eapply bind_step; [reflexivity|]. cbn beta iota.
    eapply bind_step; [reflexivity|]. cbn beta iota.
    rewrite text_of_txt. unfold ret at 1. unfold bindP at 1. cbn beta iota.
    step. step. reflexivity.
  - eapply bind_step; [apply next_if_absent; solve [hn_tac]|].
    cbn beta iota.
    eapply bind_step; [eapply bind_step; [apply next_if_absent; solve [hn_tac] | reflexivity]|].
    cbn beta iota. step. step. reflexivity.
Qed.

(* ---------------------------------------------------------------------------------------------- *)
(* StructReg = its MaskedIntReg twins                                                               *)

(* GenICam 2.8.7: the entry's element if it is present, else the structure's *)
Definition inh {A} (e s : option A) : option A := match e with Some x => Some x | None => s end.
Definition inh_l {A} (e s : list A) : list A := match e with [] => s | _ :: _ => e end.

Definition twin_eb (s e : eb Src) : eb Src :=
  mkEb Src None (inh (eb_tooltip e) (eb_tooltip s)) (inh (eb_description e) (eb_description s))
       (inh (eb_display_name e) (eb_display_name s)) (inh (eb_vis e) (eb_vis s)) (inh (eb_docu_url e) (eb_docu_url s))
       (inh (eb_deprecated e) (eb_deprecated s)) (inh (eb_event e) (eb_event s)) (inh (eb_impl e) (eb_impl s))
       (inh (eb_avail e) (eb_avail s)) (inh (eb_locked e) (eb_locked s)) (inh (eb_block e) (eb_block s))
       (inh (eb_imposed e) (eb_imposed s)) (inh_l (eb_errors e) (eb_errors s)) (inh (eb_alias e) (eb_alias s))
       (inh (eb_cast e) (eb_cast s)) [].

(* the MaskedIntReg declaration equivalent to entry e of structure s (the entry's pInvalidator list stands in
   its element base) *)
Definition twin_src (s : structreg Src) (e : sentry Src) : maskedreg Src :=
  let r := st_rb s in
  mkMasked Src (se_attr e)
    (mkRb Src (twin_eb (rb_eb r) (se_eb e)) (inh (se_streamable e) (rb_streamable r)) (rb_addrs r) (rb_length r)
          (inh (se_access e) (rb_access r)) (rb_port r) (inh (se_cache e) (rb_cache r))
          (inh (se_polling e) (rb_polling r)) (inh_l (eb_invs (se_eb e)) (rb_invs r)))
    (se_mask e) (se_sign e) (st_endian s) (se_unit e) (se_repr e) (se_selected e).

(* KNOWN limitation (finding): an entry that spells out a schema default cannot override a non-default value of
   the structure, because the parsed entry no longer tells "absent" from "default" *)
Definition lim {A} (is_default : A -> bool) (e s : option A) : bool :=
  match e, s with Some x, Some y => is_default x && negb (is_default y) | _, _ => false end.
Definition access_is (d : access) (a : access) : bool := access_eqb a d.
Definition blit_is_no (b : blit) : bool := negb (bl_val b).
Definition limited (s : structreg Src) (e : sentry Src) : bool :=
  let r := st_rb s in
  lim vis_is_default (eb_vis (se_eb e)) (eb_vis (rb_eb r)) ||
  lim blit_is_no (eb_deprecated (se_eb e)) (eb_deprecated (rb_eb r)) ||
  lim (access_is AmRW) (eb_imposed (se_eb e)) (eb_imposed (rb_eb r)) ||
  lim (access_is AmRO) (se_access e) (rb_access r) ||
  lim caching_is_default (se_cache e) (rb_cache r) ||
  lim blit_is_no (se_streamable e) (rb_streamable r).

Lemma merge_opt_inh {A B} (f : A -> B) (e s : option A) :
  merge_opt (option_map f s) (option_map f e) = option_map f (inh e s).
Proof. destruct e; reflexivity. Qed.
Lemma merge_opt_inh_id {A} (e s : option A) : merge_opt s e = inh e s.
Proof. destruct e; reflexivity. Qed.
Lemma merge_vec_inh {A} (e s : list A) : merge_vec true s e = inh_l e s.
Proof. destruct e; reflexivity. Qed.

Lemma struct_desugar s :
  eb_invs (rb_eb (st_rb s)) = [] -> Forall (fun e => limited s e = false) (st_entries s) ->
  into_masked_int_regs true (n_struct s) = map (fun e => n_masked (twin_src s e)) (st_entries s).
Proof.
  intros HI F. unfold into_masked_int_regs, n_struct. cbn [st_rb st_endian st_entries].
  rewrite map_map. apply map_ext_in. intros e He. rewrite Forall_forall in F. specialize (F e He).
  unfold limited in F. repeat (apply orb_false_iff in F; destruct F as [F ?]).
  destruct s as [r en es]. destruct r as [rbe rst rad rle rac rpo rca rpl riv].
  destruct e as [ea ee ei eac eca epl est ema esg eun ere esl].
  destruct rbe as [x1 x2 x3 x4 x5 x6 x7 x8 x9 x10 x11 x12 x13 x14 x15 x16 x17].
  destruct ee as [y1 y2 y3 y4 y5 y6 y7 y8 y9 y10 y11 y12 y13 y14 y15 y16 y17].
  cbn [st_rb rb_eb eb_invs eb_vis eb_deprecated eb_imposed se_eb se_access se_cache se_streamable rb_access
       rb_cache rb_streamable] in *. subst x17.
  unfold entry_to_masked, n_masked, twin_src, n_sentry, n_rb, n_eb, n_eb_noinv, twin_eb, merge_eb, nb.
  cbn [st_rb st_endian rb_eb rb_streamable rb_addrs rb_length rb_access rb_port rb_cache rb_polling rb_invs
       se_attr se_eb se_invs se_access se_cache se_polling se_streamable se_mask se_sign se_unit se_repr
       se_selected mr_attr mr_rb mr_mask mr_sign mr_endian mr_unit mr_repr mr_selected
       eb_ext eb_tooltip eb_description eb_display_name eb_vis eb_docu_url eb_deprecated eb_event eb_impl
       eb_avail eb_locked eb_block eb_imposed eb_errors eb_alias eb_cast eb_invs].
  rewrite !merge_opt_inh, !merge_opt_inh_id, !merge_vec_inh.
  f_equal. f_equal.
  - f_equal.
    + destruct y5 as [[]|], x5 as [[]|]; try reflexivity; discriminate.
    + destruct y7 as [[? []]|], x7 as [[? []]|]; try reflexivity; discriminate.
    + destruct y13 as [[]|], x13 as [[]|]; try reflexivity; discriminate.
  - destruct est as [[? []]|], rst as [[? []]|]; try reflexivity; discriminate.
  - destruct eac as [[]|], rac as [[]|]; try reflexivity; discriminate.
  - destruct eca as [[]|], rca as [[]|]; try reflexivity; discriminate.
Qed.

(* the pinned code (before 70ffa75): structure pInvalidator X, entry E0 pInvalidator Y, entry E1 none:
   both entries end without invalidator and nothing is registered *)
Definition eb0 : eb Src := mkEb Src None None None None None None None None None None None None None [] None None [].
Definition refuted_struct : structreg Src :=
  mkStruct Src (mkRb Src eb0 None [SaAddr (Imm (IL FmDec 256))] (Imm (IL FmDec 4)) None [68] None None [[88]]) None
    [mkSentry Src (mkAttr Src [69; 48] None None None)
              (mkEb Src None None None None None None None None None None None None None [] None None [[89]])
              tt None None None None (BmBit (IL FmDec 0)) None None None [];
     mkSentry Src (mkAttr Src [69; 49] None None None) eb0 tt None None None None (BmBit (IL FmDec 1)) None None None []].

Lemma struct_v0_refuted :
  exists s, wf_eb (rb_eb (st_rb s)) /\
    (forall p, parse_node false 0 (render (SnStructReg s)) = Ok p ->
       map (fun d => match d with NdMaskedIntReg m => rb_invs (mr_rb m) | _ => [[0]] end) (pr_ret p) = [[]; []] /\
       pr_invs p = []) /\
    (exists p, parse_node false 0 (render (SnStructReg s)) = Ok p) /\
    (exists p, parse_node true 0 (render (SnStructReg s)) = Ok p /\
       map (fun d => match d with NdMaskedIntReg m => rb_invs (mr_rb m) | _ => [[0]] end) (pr_ret p) = [[[89]]; [[88]]] /\
       pr_invs p = [([89], [69; 48]); ([88], [69; 49])]).
Proof.
  exists refuted_struct. split; [exact Logic.I|]. split; [|split].
  - intros p. vm_compute. intros H. apply Ok_inj in H. subst p. split; reflexivity.
  - eexists. vm_compute. reflexivity.
  - eexists. split; [vm_compute; reflexivity|]. split; reflexivity.
Qed.

(* ---------------------------------------------------------------------------------------------- *)
(* declared node -> stored node, by kind                                                            *)

Ltac node_tac H :=
  cbn [render]; unfold r_plain, r_category, r_integer, r_boolean, r_command, r_float, r_stringn, r_port in *;
  match goal with
  | |- parse_node ?fx ?fr (Elem ?t ?a ?c) = _ => change (parse_node fx fr (Elem t a c)) with (parse_leaf fx fr t a c)
  end;
  unfold parse_leaf;
  repeat match goal with
         | |- context [str_eqb ?x ?y] => let b := eval vm_compute in (str_eqb x y) in change (str_eqb x y) with b
         end;
  cbn [orb]; cbv iota; rewrite H; reflexivity.

Lemma node_plain fixed fresh n : wf_plain n ->
  parse_node fixed fresh (render (SnNode n)) = Ok (pres1 fresh (NdNode (n_plain n))).
Proof. intros W. pose proof (plain_rt n W) as H. node_tac H. Qed.
Lemma node_category fixed fresh n : wf_category n ->
  parse_node fixed fresh (render (SnCategory n)) = Ok (pres1 fresh (NdCategory (n_category n))).
Proof. intros W. pose proof (category_rt n W) as H. node_tac H. Qed.
Lemma node_integer fixed fresh n : wf_integer n ->
  parse_node fixed fresh (render (SnInteger n)) = Ok (pres1 fresh (NdInteger (n_integer n))).
Proof. intros W. pose proof (integer_rt n W) as H. node_tac H. Qed.
Lemma node_boolean fixed fresh n : wf_boolean n ->
  parse_node fixed fresh (render (SnBoolean n)) = Ok (pres1 fresh (NdBoolean (n_boolean n))).
Proof. intros W. pose proof (boolean_rt n W) as H. node_tac H. Qed.
Lemma node_command fixed fresh n : wf_command n ->
  parse_node fixed fresh (render (SnCommand n)) = Ok (pres1 fresh (NdCommand (n_command n))).
Proof. intros W. pose proof (command_rt n W) as H. node_tac H. Qed.
Lemma node_float fixed fresh n : wf_float n ->
  parse_node fixed fresh (render (SnFloat n)) = Ok (pres1 fresh (NdFloat (n_float n))).
Proof. intros W. pose proof (float_rt n W) as H. node_tac H. Qed.
Lemma node_string fixed fresh n : wf_stringn n ->
  parse_node fixed fresh (render (SnString n)) = Ok (pres1 fresh (NdString (n_stringn n))).
Proof. intros W. pose proof (stringn_rt n W) as H. node_tac H. Qed.
Lemma node_port fixed fresh n : wf_port n ->
  parse_node fixed fresh (render (SnPort n)) = Ok (pres1 fresh (NdPort (n_port n))).
Proof. intros W. pose proof (port_rt n W) as H. node_tac H. Qed.

(* the declared nodes of the kinds above, their well-formedness and what the store must hold for them *)
Definition wf_snode (n : snode) : Prop :=
  match n with
  | SnNode x => wf_plain x | SnCategory x => wf_category x | SnInteger x => wf_integer x
  | SnBoolean x => wf_boolean x | SnCommand x => wf_command x | SnFloat x => wf_float x
  | SnString x => wf_stringn x | SnPort x => wf_port x
  | _ => False
  end.
Definition normalise (n : snode) : list node_data :=
  match n with
  | SnNode x => [NdNode (n_plain x)] | SnCategory x => [NdCategory (n_category x)]
  | SnInteger x => [NdInteger (n_integer x)] | SnBoolean x => [NdBoolean (n_boolean x)]
  | SnCommand x => [NdCommand (n_command x)] | SnFloat x => [NdFloat (n_float x)]
  | SnString x => [NdString (n_stringn x)] | SnPort x => [NdPort (n_port x)]
  | _ => []
  end.
Definition declared_name (n : snode) : str :=
  match n with
  | SnNode x => a_name (pl_attr x) | SnCategory x => a_name (ca_attr x) | SnInteger x => a_name (i_attr x)
  | SnBoolean x => a_name (b_attr x) | SnCommand x => a_name (c_attr x) | SnFloat x => a_name (f_attr x)
  | SnString x => a_name (s_attr x) | SnPort x => a_name (po_attr x)
  | _ => []
  end.
Definition kind_code (d : node_data) : Z := hd 0 (sh_body d).
Definition declared_kind (n : snode) : Z :=
  match n with
  | SnNode _ => 0 | SnCategory _ => 1 | SnInteger _ => 2 | SnBoolean _ => 5 | SnCommand _ => 6 | SnFloat _ => 9
  | SnString _ => 11 | SnPort _ => 18 | _ => -1
  end.

Lemma roundtrip_partial fixed fresh n : wf_snode n ->
  parse_node fixed fresh (render n) = Ok (mkPres [] (normalise n) [] fresh).
Proof.
  destruct n; cbn [wf_snode normalise]; intros W; try contradiction;
    [ apply node_plain | apply node_category | apply node_integer | apply node_boolean | apply node_command
    | apply node_float | apply node_string | apply node_port ]; exact W.
Qed.

Lemma names_partial n : wf_snode n ->
  exists d, normalise n = [d] /\ nd_name d = declared_name n /\ kind_code d = declared_kind n.
Proof. destruct n; cbn [wf_snode]; intros W; try contradiction; eexists; repeat split. Qed.

(* ---------------------------------------------------------------------------------------------- *)
(* Group                                                                                            *)

(* the element children parsed one after the other, the fresh id threaded through *)
Fixpoint seq_results (fixed : bool) (fresh : Z) (c : list xml) : outcome (list presult) :=
  match c with
  | [] => Ok []
  | Elem t a ch :: r => let? p := parse_node fixed fresh (Elem t a ch) in
                        let? ps := seq_results fixed (pr_fresh p) r in Ok (p :: ps)
  | _ :: r => seq_results fixed fresh r
  end.

Definition group_go (fixed : bool) :=
  fix go (c : list xml) (acc : presult) {struct c} : outcome presult :=
    match c with
    | [] => Ok acc
    | y :: r => match y with
                | Elem _ _ _ => let? p := parse_node fixed (pr_fresh acc) y in go r (pres_app acc p)
                | _ => go r acc
                end
    end.

Lemma group_unfold fixed fresh attrs ch :
  parse_node fixed fresh (Elem T_Group attrs ch) = group_go fixed ch (mkPres [] [] [] fresh).
Proof. reflexivity. Qed.

Lemma group_go_seq fixed : forall c acc p, group_go fixed c acc = Ok p ->
  exists rs, seq_results fixed (pr_fresh acc) c = Ok rs /\
    pr_stored p = pr_stored acc ++ List.concat (map pr_stored rs) /\
    pr_ret p = pr_ret acc ++ List.concat (map pr_ret rs) /\
    pr_invs p = pr_invs acc ++ List.concat (map pr_invs rs) /\
    pr_fresh p = fold_left (fun _ q => pr_fresh q) rs (pr_fresh acc).
Proof.
  induction c as [|y r IH]; intros acc p H.
  - cbn in H. apply Ok_inj in H. subst p. exists []. cbn. rewrite !app_nil_r. repeat split.
  - destruct y as [t a ch| | |]; cbn [group_go] in H; fold (group_go fixed) in H; cbn [seq_results].
    + destruct (parse_node fixed (pr_fresh acc) (Elem t a ch)) as [q| |] eqn:E; cbn [bind] in H; try discriminate.
      destruct (IH _ _ H) as (rs & R1 & R2 & R3 & R4 & R5). cbn [pres_app pr_fresh pr_stored pr_ret pr_invs] in *.
      cbn [bind]. rewrite R1. cbn [bind]. exists (q :: rs). cbn [map List.concat fold_left].
      rewrite R2, R3, R4, R5, <- !app_assoc. repeat split.
    + exact (IH _ _ H).
    + exact (IH _ _ H).
    + exact (IH _ _ H).
Qed.

Lemma perm_interleave {A} (l : list (list A * list A)) :
  Permutation (List.concat (map fst l) ++ List.concat (map snd l)) (List.concat (map (fun p => fst p ++ snd p) l)).
Proof.
  induction l as [|[a b] l IH]; cbn; [constructor|].
  rewrite <- !app_assoc. apply Permutation_app_head.
  rewrite app_assoc. rewrite (Permutation_app_comm (List.concat (map fst l)) b). rewrite <- app_assoc.
  apply Permutation_app_head. exact IH.
Qed.

Lemma group_flat fixed fresh attrs ch p : parse_node fixed fresh (Elem T_Group attrs ch) = Ok p ->
  exists rs, seq_results fixed fresh ch = Ok rs /\
    Permutation (pr_stored p ++ pr_ret p) (List.concat (map (fun q => pr_stored q ++ pr_ret q) rs)) /\
    pr_invs p = List.concat (map pr_invs rs) /\
    pr_fresh p = fold_left (fun _ q => pr_fresh q) rs fresh.
Proof.
  rewrite group_unfold. intros H. destruct (group_go_seq fixed _ _ _ H) as (rs & R1 & R2 & R3 & R4 & R5).
  cbn [pr_stored pr_ret pr_invs pr_fresh app] in *. exists rs. split; [exact R1|]. split; [|split; assumption].
  rewrite R2, R3. pose proof (perm_interleave (map (fun q => (pr_stored q, pr_ret q)) rs)) as P.
  rewrite !map_map in P. cbn [fst snd] in P. exact P.
Qed.

(* the document level: the members at top level are stored child by child *)
Lemma store_all_app st a : forall b, store_all st (a ++ b) = (let? s1 := store_all st a in store_all s1 b).
Proof.
  revert st. induction a as [|d a IH]; intros st b; cbn [store_all app bind]; [reflexivity|].
  destruct (existsb _ st); [reflexivity | apply IH].
Qed.

Lemma children_seq fixed : forall c fresh st rs, seq_results fixed fresh c = Ok rs ->
  parse_children fixed c fresh st =
  (let? ns := store_all (s_nodes st) (List.concat (map (fun q => pr_stored q ++ pr_ret q) rs)) in
   Ok (mkStore ns (s_invs st ++ List.concat (map pr_invs rs)))).
Proof.
  induction c as [|y r IH]; intros fresh st rs H.
  - cbn in H. apply Ok_inj in H. subst rs. cbn. rewrite app_nil_r. destruct st; reflexivity.
  - destruct y as [t a ch| | |]; cbn [seq_results parse_children] in *.
    + destruct (parse_node fixed fresh (Elem t a ch)) as [q| |] eqn:E; cbn [bind] in *; try discriminate.
      destruct (seq_results fixed (pr_fresh q) r) as [qs| |] eqn:E2; cbn [bind] in H; try discriminate.
      apply Ok_inj in H. subst rs. cbn [map List.concat].
      rewrite (store_all_app (s_nodes st) (pr_stored q ++ pr_ret q)).
      destruct (store_all (s_nodes st) (pr_stored q ++ pr_ret q)) as [ns| |]; cbn [bind]; try reflexivity.
      rewrite (IH _ _ _ E2). cbn [s_nodes s_invs]. now rewrite <- app_assoc.
    + exact (IH _ _ _ H).
    + exact (IH _ _ _ H).
    + exact (IH _ _ _ H).
Qed.

Lemma text_view_v0_refuted : text_view_v0 [] = Panic /\ (forall s, text_view_v0 [Comment s] = Ok s).
Proof. split; reflexivity. Qed.
