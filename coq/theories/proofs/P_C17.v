(* Proofs for C17 (statements in props/C17.v). *)
From Cam Require Import Outcome GenApiParse.
From Coq Require Import Permutation.
Open Scope Z_scope.

(* ---------------------------------------------------------------------------------------------- *)
(* strings                                                                                          *)

Lemma str_eqb_refl s : str_eqb s s = true.
Proof. induction s; cbn; [reflexivity|]. rewrite Z.eqb_refl. exact IHs. Qed.

Lemma str_eqb_eq a : forall b, str_eqb a b = true -> a = b.
Proof.
  induction a as [|x a IH]; intros [|y b]; cbn; intros H; try discriminate; [reflexivity|].
  apply andb_true_iff in H. destruct H as [H1 H2]. apply Z.eqb_eq in H1. subst. f_equal. auto.
Qed.

Lemma str_eqb_neq a b : a <> b -> str_eqb a b = false.
Proof. intros H. destruct (str_eqb a b) eqn:E; [|reflexivity]. apply str_eqb_eq in E. contradiction. Qed.

Lemma text_of_txt s : text_of (txt s) = s.
Proof. destruct s; cbn; [reflexivity|]. now rewrite app_nil_r. Qed.

(* ---------------------------------------------------------------------------------------------- *)
(* numerals: printer / parser round trip                                                            *)

Definition dval (b : Z) (ds : list Z) (acc : Z) : Z := fold_left (fun a d => a * b + d) ds acc.

Lemma to_digits_spec : forall fuel b n, 2 <= b -> 0 <= n < 2 ^ Z.of_nat fuel -> (0 < fuel)%nat ->
  Forall (fun d => 0 <= d < b) (to_digits fuel b n) /\ dval b (to_digits fuel b n) 0 = n /\
  to_digits fuel b n <> [].
Proof.
  induction fuel as [|f IH]; intros b n Hb Hn Hf; [lia|].
  cbn [to_digits]. destruct (n <? b) eqn:E.
  - apply Z.ltb_lt in E. split; [|split]; [constructor; [lia|constructor] | cbn; lia | discriminate].
  - apply Z.ltb_ge in E.
    assert (Hp : 2 ^ Z.of_nat (S f) = 2 * 2 ^ Z.of_nat f).
    { rewrite Nat2Z.inj_succ, Z.pow_succ_r by lia. reflexivity. }
    assert (Hf' : (0 < f)%nat).
    { destruct f; [|lia]. cbn in Hn. lia. }
    assert (Hq : 0 <= n / b < 2 ^ Z.of_nat f).
    { split; [apply Z.div_pos; lia|].
      apply Z.div_lt_upper_bound; [lia|]. rewrite Hp in Hn.
      assert (0 < 2 ^ Z.of_nat f) by (apply Z.pow_pos_nonneg; lia). nia. }
    destruct (IH b (n / b) Hb Hq Hf') as (F1 & F2 & F3).
    split; [|split].
    + apply Forall_app. split; [exact F1|]. constructor; [|constructor]. apply Z.mod_pos_bound. lia.
    + unfold dval in *. rewrite fold_left_app. cbn [fold_left]. rewrite F2.
      rewrite (Z.div_mod n b) at 3 by lia. lia.
    + intros H. apply app_eq_nil in H. destruct H; discriminate.
Qed.

Lemma log2_fuel n : 0 <= n -> 0 <= n < 2 ^ Z.of_nat (S (Z.to_nat (Z.log2 n))).
Proof.
  intros H. split; [exact H|].
  rewrite Nat2Z.inj_succ, Z2Nat.id by apply Z.log2_nonneg.
  destruct (Z.eq_dec n 0) as [->|Hn]; [reflexivity|].
  apply Z.log2_spec. lia.
Qed.

Definition digits_of (b n : Z) : list Z := to_digits (S (Z.to_nat (Z.log2 n))) b n.

Lemma digits_of_spec b n : 2 <= b -> 0 <= n ->
  Forall (fun d => 0 <= d < b) (digits_of b n) /\ dval b (digits_of b n) 0 = n /\ digits_of b n <> [].
Proof. intros. apply to_digits_spec; [assumption | apply log2_fuel; assumption | lia]. Qed.

Lemma char_digit_char up radix d : (radix = 10 \/ radix = 16) -> 0 <= d < radix ->
  char_digit radix (digit_char up d) = Some d.
Proof.
  intros Hr Hd.
  assert (H : d = 0 \/ d = 1 \/ d = 2 \/ d = 3 \/ d = 4 \/ d = 5 \/ d = 6 \/ d = 7 \/ d = 8 \/ d = 9 \/
              d = 10 \/ d = 11 \/ d = 12 \/ d = 13 \/ d = 14 \/ d = 15) by lia.
  destruct Hr; subst radix; destruct up;
    repeat (destruct H as [->|H]; [try reflexivity; lia|]); subst; try reflexivity; lia.
Qed.

Lemma digits_acc_print up radix ds : (radix = 10 \/ radix = 16) -> Forall (fun d => 0 <= d < radix) ds ->
  forall acc, digits_acc radix (map (digit_char up) ds) acc = Some (dval radix ds acc).
Proof.
  intros Hr F. induction F as [|d ds Hd F IH]; intros acc; cbn; [reflexivity|].
  rewrite (char_digit_char up radix d Hr Hd). apply IH.
Qed.

(* a printed digit is a letter or a decimal digit, never a sign *)
Lemma digit_char_range up d : 0 <= d < 16 ->
  let c := digit_char up d in (48 <= c <= 57 /\ d < 10) \/ (65 <= c <= 70 /\ 10 <= d) \/ (97 <= c <= 102 /\ 10 <= d).
Proof.
  intros H. unfold digit_char. destruct (d <? 10) eqn:E; [apply Z.ltb_lt in E; left; lia|].
  apply Z.ltb_ge in E. destruct up; [right; left | right; right]; lia.
Qed.

Lemma print_nat_eq up b n : print_nat up b n = map (digit_char up) (digits_of b n).
Proof. reflexivity. Qed.

Lemma print_nat_head up b n : (b = 10 \/ b = 16) -> 0 <= n ->
  exists c r, print_nat up b n = c :: r /\ c <> 43 /\ c <> 45 /\ is_alpha c = (10 <=? hd 0 (digits_of b n)) /\
              (b = 10 -> 48 <= c <= 57 /\ Forall (fun x => 48 <= x <= 57) r).
Proof.
  intros Hb Hn. rewrite print_nat_eq.
  destruct (digits_of_spec b n ltac:(lia) Hn) as (F & _ & NE).
  destruct (digits_of b n) as [|d ds]; [congruence|]. cbn [map hd].
  inversion F as [|? ? Hd F']; subst.
  exists (digit_char up d), (map (digit_char up) ds).
  assert (Hd16 : 0 <= d < 16) by lia.
  pose proof (digit_char_range up d Hd16) as R. cbn zeta in R.
  split; [reflexivity|]. split; [lia|]. split; [lia|]. split.
  - unfold is_alpha. destruct (10 <=? d) eqn:E; [apply Z.leb_le in E | apply Z.leb_gt in E].
    + destruct R as [R|[R|R]]; [lia| |].
      * assert (H1 : (65 <=? digit_char up d) = true) by (apply Z.leb_le; lia).
        assert (H2 : (digit_char up d <=? 90) = true) by (apply Z.leb_le; lia).
        rewrite H1, H2. reflexivity.
      * assert (H1 : (97 <=? digit_char up d) = true) by (apply Z.leb_le; lia).
        assert (H2 : (digit_char up d <=? 122) = true) by (apply Z.leb_le; lia).
        assert (H3 : (digit_char up d <=? 90) = false) by (apply Z.leb_gt; lia).
        rewrite H1, H2, H3. now rewrite andb_false_r.
    + assert (H1 : (65 <=? digit_char up d) = false) by (apply Z.leb_gt; lia).
      assert (H2 : (97 <=? digit_char up d) = false) by (apply Z.leb_gt; lia).
      rewrite H1, H2. reflexivity.
  - intros ->. split; [destruct R as [R|[R|R]]; lia|].
    apply Forall_forall. intros x Hx. apply in_map_iff in Hx. destruct Hx as (e & <- & He).
    rewrite Forall_forall in F'. specialize (F' e He).
    assert (He16 : 0 <= e < 16) by lia.
    pose proof (digit_char_range up e He16) as Re. cbn zeta in Re. lia.
Qed.

Lemma from_str_radix_print signed up radix n : (radix = 10 \/ radix = 16) -> 0 <= n ->
  (if signed then n <= I64_MAX else n <= U64_MAX) ->
  from_str_radix signed radix (print_nat up radix n) = Ok n.
Proof.
  intros Hr Hn Hmax.
  destruct (print_nat_head up radix n Hr Hn) as (c & r & E & N1 & N2 & _ & _).
  unfold from_str_radix. rewrite E.
  assert (E1 : (c =? 43) = false) by (apply Z.eqb_neq; exact N1).
  assert (E2 : (c =? 45) = false) by (apply Z.eqb_neq; exact N2).
  rewrite E1, E2. cbn [andb]. rewrite <- E. rewrite print_nat_eq.
  destruct (digits_of_spec radix n ltac:(lia) Hn) as (F & V & NE).
  rewrite (digits_acc_print up radix _ Hr F 0), V.
  destruct (map (digit_char up) (digits_of radix n)) eqn:EM.
  { apply map_eq_nil in EM. congruence. }
  destruct signed.
  - assert (H1 : (I64_MIN <=? n) = true) by (apply Z.leb_le; unfold I64_MIN; lia).
    assert (H2 : (n <=? I64_MAX) = true) by (apply Z.leb_le; exact Hmax).
    rewrite H1, H2. reflexivity.
  - assert (H2 : (n <=? U64_MAX) = true) by (apply Z.leb_le; exact Hmax).
    rewrite H2. reflexivity.
Qed.

Lemma from_str_radix_neg n : 0 < n <= - I64_MIN ->
  from_str_radix true 10 (45 :: print_nat false 10 n) = Ok (- n).
Proof.
  intros Hn. unfold from_str_radix. cbn [Z.eqb andb]. change (45 =? 43) with false. change (45 =? 45) with true.
  cbn [andb]. rewrite print_nat_eq.
  destruct (digits_of_spec 10 n ltac:(lia) ltac:(lia)) as (F & V & NE).
  rewrite (digits_acc_print false 10 _ (or_introl eq_refl) F 0), V.
  destruct (map (digit_char false) (digits_of 10 n)) eqn:EM.
  { apply map_eq_nil in EM. congruence. }
  assert (H1 : (I64_MIN <=? - n) = true) by (apply Z.leb_le; unfold I64_MIN in *; lia).
  assert (H2 : (- n <=? I64_MAX) = true) by (apply Z.leb_le; unfold I64_MAX; lia).
  rewrite H1, H2. reflexivity.
Qed.

Lemma no_hex_prefix_digits c r : 48 <= c <= 57 -> Forall (fun x => 48 <= x <= 57) r -> has_hex_prefix (c :: r) = None.
Proof.
  intros Hc F. unfold has_hex_prefix. destruct r as [|c2 r]; [reflexivity|].
  inversion F; subst.
  assert (E1 : (c2 =? 120) = false) by (apply Z.eqb_neq; lia).
  assert (E2 : (c2 =? 88) = false) by (apply Z.eqb_neq; lia).
  rewrite E1, E2. now rewrite andb_false_r.
Qed.

(* well-formed integer literals *)
Definition wf_i64 (l : ilit) : Prop :=
  match il_form l with
  | FmDec => I64_MIN <= il_val l <= I64_MAX
  | FmHex _ _ => 0 <= il_val l <= I64_MAX
  end.
Definition wf_u64 (l : ilit) : Prop := 0 <= il_val l <= U64_MAX.
Definition wf_h64 (l : hlit) : Prop := 0 <= hl_val l <= U64_MAX.

Lemma hex_prefix_sh px dg v : has_hex_prefix (48 :: (if px then 88 else 120) :: print_nat dg 16 v) = Some (print_nat dg 16 v).
Proof. destruct px; reflexivity. Qed.

Lemma convert_to_int_sh l : wf_i64 l -> convert_to_int (sh_ilit l) = Ok (il_val l).
Proof.
  destruct l as [f v]. unfold wf_i64, sh_ilit, convert_to_int. cbn [il_form il_val].
  destruct f as [|px dg]; intros H.
  - unfold print_dec. destruct (v <? 0) eqn:E.
    + apply Z.ltb_lt in E. change (has_hex_prefix (45 :: print_nat false 10 (- v))) with
        (match print_nat false 10 (- v) with
         | c2 :: r => if (45 =? 48) && ((c2 =? 120) || (c2 =? 88)) then Some r else None
         | [] => None end).
      change (45 =? 48) with false. cbn [andb].
      replace (match print_nat false 10 (- v) with _ :: _ => None | [] => None end) with (@None str)
        by (destruct (print_nat false 10 (- v)); reflexivity).
      rewrite from_str_radix_neg by (unfold I64_MIN in *; lia). f_equal. lia.
    + apply Z.ltb_ge in E.
      destruct (print_nat_head false 10 v (or_introl eq_refl) E) as (c & r & EQ & _ & _ & _ & D).
      destruct (D eq_refl) as [D1 D2]. rewrite EQ, (no_hex_prefix_digits c r D1 D2), <- EQ.
      apply (from_str_radix_print true); [left; reflexivity | lia | lia].
  - rewrite hex_prefix_sh. apply (from_str_radix_print true); [right; reflexivity | lia | lia].
Qed.

Lemma convert_to_uint_sh l : wf_u64 l -> convert_to_uint (sh_ilit l) = Ok (il_val l).
Proof.
  destruct l as [f v]. unfold wf_u64, sh_ilit, convert_to_uint. cbn [il_form il_val].
  destruct f as [|px dg]; intros H.
  - unfold print_dec. assert (E : (v <? 0) = false) by (apply Z.ltb_ge; lia). rewrite E.
    destruct (print_nat_head false 10 v (or_introl eq_refl) ltac:(lia)) as (c & r & EQ & _ & _ & _ & D).
    destruct (D eq_refl) as [D1 D2]. rewrite EQ, (no_hex_prefix_digits c r D1 D2), <- EQ.
    apply (from_str_radix_print false); [left; reflexivity | lia | lia].
  - rewrite hex_prefix_sh. apply (from_str_radix_print false); [right; reflexivity | lia | lia].
Qed.

Lemma hex64_sh l : wf_h64 l -> from_str_radix false 16 (sh_hlit l) = Ok (hl_val l).
Proof. intros H. apply (from_str_radix_print false); [right; reflexivity | apply H | apply H]. Qed.

(* the first character of a rendered integer literal is not alphabetic *)
Lemma sh_ilit_head l : (wf_i64 l \/ wf_u64 l) -> exists c r, sh_ilit l = c :: r /\ is_alpha c = false.
Proof.
  destruct l as [f v]. unfold sh_ilit, wf_i64, wf_u64. cbn [il_form il_val]. destruct f as [|px dg]; intros H.
  - unfold print_dec. destruct (v <? 0) eqn:E.
    + eexists _, _. split; reflexivity.
    + apply Z.ltb_ge in E.
      destruct (print_nat_head false 10 v (or_introl eq_refl) E) as (c & r & EQ & _ & _ & _ & D).
      destruct (D eq_refl) as [D1 _]. exists c, r. split; [exact EQ|].
      unfold is_alpha.
      assert (H1 : (65 <=? c) = false) by (apply Z.leb_gt; lia).
      assert (H2 : (97 <=? c) = false) by (apply Z.leb_gt; lia).
      rewrite H1, H2. reflexivity.
  - eexists _, _. split; reflexivity.
Qed.

Lemma bool_sh l : convert_to_bool (sh_blit l) = Ok (bl_val l).
Proof. destruct l as [[|] [|]]; reflexivity. Qed.
Lemma bool_opt_sh l : convert_to_bool_opt (sh_blit l) = Some (bl_val l).
Proof. destruct l as [[|] [|]]; reflexivity. Qed.

(* floats: INF / -INF are the special forms, everything else is handed to the float parser unchanged *)
Definition wf_f (f : fval) : Prop :=
  match f with
  | FvInf | FvNegInf => True
  | FvText t => str_eqb t L_INF = false /\ str_eqb t L_NegINF = false
  | FvBits _ => False
  end.
(* ... and is recognised as a literal by the ImmOrPNode sniffing: "NaN", or not starting with a letter *)
Definition sniff_f (f : fval) : Prop :=
  match f with
  | FvText t => t = L_NaN \/ exists c r, t = c :: r /\ is_alpha c = false
  | _ => True
  end.

Lemma f64_sh f : wf_f f -> convert_to_f64 (sh_fval f) = f.
Proof.
  destruct f as [| |t|b]; cbn; try reflexivity; [|contradiction].
  intros [H1 H2]. unfold convert_to_f64. now rewrite H1, H2.
Qed.

(* identifiers: what the sniffing takes for a node reference *)
Definition ident (s : str) : Prop := exists c r, s = c :: r /\ is_alpha c = true.
Definition ident_f (s : str) : Prop :=
  ident s /\ str_eqb s L_INF = false /\ str_eqb s L_NaN = false.
Definition ident_b (s : str) : Prop := convert_to_bool_opt s = None.

Lemma literals_int :
  (forall z, I64_MIN <= z <= I64_MAX -> convert_to_int (print_dec z) = Ok z) /\
  (forall z px dg, 0 <= z <= I64_MAX -> convert_to_int (48 :: (if px then 88 else 120) :: print_nat dg 16 z) = Ok z) /\
  (forall z, 0 <= z <= U64_MAX -> convert_to_uint (print_dec z) = Ok z) /\
  (forall z px dg, 0 <= z <= U64_MAX -> convert_to_uint (48 :: (if px then 88 else 120) :: print_nat dg 16 z) = Ok z) /\
  (forall z up, 0 <= z <= U64_MAX -> from_str_radix false 16 (print_nat up 16 z) = Ok z).
Proof.
  repeat split; intros.
  - apply (convert_to_int_sh (IL FmDec z)). exact H.
  - apply (convert_to_int_sh (IL (FmHex px dg) z)). exact H.
  - apply (convert_to_uint_sh (IL FmDec z)). exact H.
  - apply (convert_to_uint_sh (IL (FmHex px dg) z)). exact H.
  - apply (hex64_sh (HL up z)). exact H.
Qed.

Lemma literals_other :
  (forall l, convert_to_bool (sh_blit l) = Ok (bl_val l)) /\
  convert_to_f64 L_INF = FvInf /\ convert_to_f64 L_NegINF = FvNegInf /\ convert_to_f64 L_NaN = FvText L_NaN /\
  (forall f, wf_f f -> convert_to_f64 (sh_fval f) = f).
Proof. repeat split; [apply bool_sh | apply f64_sh]. Qed.
