(* The pieces of cameleon/src/u3v/register_map.rs that DeviceControl::genapi relies on - ManifestEntry::
   genicam_file_version, GenICamFileInfo::file_type / compression_type - as model/XmlFetch.v has them ([version_of],
   [file_type], [compression_type], div / mod arithmetic) are the TRANSLATED code (gen/DecodersSrc.v, regenerated from
   the source on every run by tools/translate_decoders.py; shifts and masks, debug-build semantics of lib/RustInt.v),
   for every register word.

   The error class of the translated code is the InvalidDevice of the register-map numbering
   (U3VTables.CE_INVALID_DEVICE); model/XmlFetch.v reports the same case as its own CE_INVALID_DEVICE. *)
From Cam Require Import XmlFetch DecodersSrc RustInt.
From Cam Require U3VTables.

Lemma r_shr_lit' w a s : shift_ok w s = true -> r_shr w a s = Ok (Z.shiftr a s).
Proof. intros H. unfold r_shr. rewrite H. reflexivity. Qed.

Ltac src_eval' := repeat (cbn [bind] || rewrite r_shr_lit' by reflexivity);
  (* a mask written on the left *)
  repeat match goal with
  | |- context [Z.land (Zpos ?p) ?x] =>
    lazymatch x with Zpos _ => fail | Z0 => fail | _ => rewrite (Z.land_comm (Zpos p) x) end
  end.

Lemma land_low x k : 0 <= k -> Z.land x (2 ^ k - 1) = x mod 2 ^ k.
Proof. intros H. rewrite <- Z.land_ones by exact H. f_equal. rewrite Z.ones_equiv. lia. Qed.

Lemma file_version_src : forall v, src_genicam_file_version v = Ok (version_of v).
Proof.
  intros v. unfold src_genicam_file_version, version_of. src_eval'.
  change 255 with (2 ^ 8 - 1). change 65535 with (2 ^ 16 - 1). rewrite !land_low by lia.
  rewrite !Z.shiftr_div_pow2 by lia. reflexivity.
Qed.

Definition type_of_raw (raw : Z) : outcome Z :=
  if raw =? 0 then Ok 0 else if raw =? 1 then Ok 1 else Err U3VTables.CE_INVALID_DEVICE.

Lemma file_info_src : forall info,
  src_file_type info = type_of_raw (file_type info) /\
  src_compression_type info = type_of_raw (compression_type info).
Proof.
  intros info. unfold src_file_type, src_compression_type, type_of_raw, file_type, compression_type. src_eval'.
  change 7 with (2 ^ 3 - 1). change 63 with (2 ^ 6 - 1). rewrite !land_low by lia.
  rewrite !Z.shiftr_div_pow2 by lia. split; reflexivity.
Qed.

Lemma file_version_from_source :
  src_genicam_file_version_reg = (0, 4) /\ forall v, src_genicam_file_version v = Ok (version_of v).
Proof. split; [reflexivity|exact file_version_src]. Qed.

(* what the loop of genapi and the fetch of the selected file branch on *)
Lemma file_info_from_source : forall info,
  src_file_type info = type_of_raw (file_type info) /\
  src_compression_type info = type_of_raw (compression_type info) /\
  ((file_type info =? 0) = true <-> src_file_type info = Ok 0) /\
  ((file_type info =? 1) = true <-> src_file_type info = Ok 1) /\
  (negb ((compression_type info =? 0) || (compression_type info =? 1)) = true <->
     src_compression_type info = Err U3VTables.CE_INVALID_DEVICE).
Proof.
  intros info. destruct (file_info_src info) as [A B]. split; [exact A|]. split; [exact B|].
  rewrite A, B. unfold type_of_raw.
  destruct (file_type info =? 0) eqn:F0; [assert (F1 : (file_type info =? 1) = false) by lia; rewrite F1|];
    destruct (file_type info =? 1) eqn:F1'; destruct (compression_type info =? 0) eqn:C0;
    destruct (compression_type info =? 1) eqn:C1; cbn [negb orb];
    repeat split; intros; try reflexivity; try discriminate; try lia.
Qed.

Example file_examples :
  src_genicam_file_version 16909060 = Ok (1, 2, 772) /\ version_of 16909060 = (1, 2, 772) /\
  src_file_type 9 = Ok 1 /\ file_type 9 = 1 /\ src_file_type 2 = Err U3VTables.CE_INVALID_DEVICE /\
  src_compression_type 1024 = Ok 1 /\ compression_type 1024 = 1 /\
  src_compression_type 2048 = Err U3VTables.CE_INVALID_DEVICE.
Proof. repeat split. Qed.
