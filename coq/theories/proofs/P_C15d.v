(* C15, histories: whatever sequence of enable / disable / start / stop / reconfiguration steps is
   performed on a conforming device, the stream parameters a start puts in force are the ones
   programmed by the latest successful enable_streaming (restarts included).
   Builds on proofs/P_C15c.v (total runs on good conforming states, the SIRM block as `blk`). *)
From Cam Require Import Outcome Bytes Chunks Cmd Ack CmdLayout Control ControlRun StreamStart ManifestSpec
  P_C09 P_C06 P_C07 P_C14b P_C15 P_C15b P_C15c.

Lemma bytes_ok_set_at o (m d : list Z) : bytes_ok m -> bytes_ok d -> bytes_ok (set_at o m d).
Proof.
  intros Hm Hd. unfold set_at. apply bytes_ok_app; [apply bytes_ok_take; exact Hm|].
  apply bytes_ok_app; [exact Hd|apply bytes_ok_drop; exact Hm].
Qed.

Section Hist.
Variables (pre post : list (Z * list Z)) (b sirm sbrm ucap devcap resp : Z).

Notation blk := (blk pre post b).
Notation atg := (atg sirm sbrm ucap).
Notation get := (get b sirm).
Notation put := (put b sirm).
Notation same_out := (same_out b sirm).

(* everything C15_params_readback assumes about the device memory, for the memory image m of the
   segment that holds the SIRM block; plus: that segment holds bytes *)
Definition Env (m : list Z) : Prop :=
  range_in (pre ++ (b, m) :: post) sirm 48 pre b m post /\ 0 <= sirm /\ sirm + 48 <= 2 ^ 64 /\
  u_field (blk m) 472 8 sbrm /\ sbrm + 4 < 2 ^ 64 /\ u_field (blk m) (sbrm + 4) 8 ucap /\ Z.odd ucap = true /\
  sbrm + 32 < 2 ^ 64 /\ u_field (blk m) (sbrm + 32) 8 sirm /\
  u_field (blk m) 452 8 devcap /\ u_field (blk m) 460 4 resp /\
  (472 + 8 <= sirm \/ sirm + 48 <= 472) /\ (452 + 8 <= sirm \/ sirm + 48 <= 452) /\
  (460 + 4 <= sirm \/ sirm + 48 <= 460) /\
  (sbrm + 4 + 8 <= sirm \/ sirm + 48 <= sbrm + 4) /\ (sbrm + 32 + 8 <= sirm \/ sirm + 48 <= sbrm + 32) /\
  bytes_ok m.

Lemma same_out_trans m m' m'' : same_out m m' -> same_out m' m'' -> same_out m m''.
Proof.
  intros [Z1 O1] [Z2 O2]. split; [congruence|]. intros i n Hi Hn Hd. rewrite O2, O1; auto.
Qed.

Lemma Env_move m mi : Env m -> same_out m mi -> bytes_ok mi -> Env mi.
Proof.
  intros (Hri & H0 & H64 & F1 & L1 & F2 & Od & L2 & F3 & F4 & F5 & A1 & A2 & A3 & A4 & A5 & _) Hs Hb.
  pose proof Hs as [Hz _]. destruct Hri as (_ & R1 & R2 & R3 & R4).
  assert (FF : forall a (n : nat) v, (a + Z.of_nat n <= sirm \/ sirm + 48 <= a) ->
                 u_field (blk m) a n v -> u_field (blk mi) a n v).
  { intros a n v Ha Hu. eapply field_frame; eassumption. }
  unfold Env. split. { unfold range_in. rewrite Hz. auto. }
  split; [exact H0|]. split; [exact H64|]. split; [apply FF; auto|]. split; [exact L1|].
  split; [apply FF; auto|]. split; [exact Od|]. split; [exact L2|]. split; [apply FF; auto|].
  split; [apply FF; auto|]. split; [apply FF; auto|]. auto 10.
Qed.

(* the plan's six size registers are in the image *)
Definition regs (p : sirm_plan) (m : list Z) : Prop :=
  forall off v, In (off, v) (six p) -> u_field (blk m) (sirm + off) 4 v.

Lemma zlen_get m off n : Env m -> 0 <= off -> 0 <= n -> off + n <= 48 -> zlen (get off n m) = n.
Proof.
  intros (Hri & _) H0 Hn H1. destruct Hri as (_ & R1 & _ & R3 & _). unfold P_C15c.get.
  rewrite zlen_take; [reflexivity|]. rewrite zlen_drop by lia. lia.
Qed.

(* any window of the block is a register holding the number its bytes spell *)
Lemma fld m off (n : nat) : Env m -> 0 <= off -> 0 < Z.of_nat n -> off + Z.of_nat n <= 48 ->
  u_field (blk m) (sirm + off) n (of_le (get off (Z.of_nat n) m)).
Proof.
  intros E H0 Hn H1. pose proof E as (Hri & Hs0 & Hs64 & _). pose proof E as Eb.
  repeat (destruct Eb as [_ Eb]).
  assert (Hb : bytes_ok (get off (Z.of_nat n) m)) by (apply bytes_ok_take, bytes_ok_drop; exact Eb).
  assert (Hl : length (get off (Z.of_nat n) m) = n).
  { pose proof (zlen_get m off (Z.of_nat n) E H0 ltac:(lia) H1) as Z. unfold zlen in Z. lia. }
  split.
  - pose proof (of_le_bound _ Hb) as B. rewrite Hl in B. exact B.
  - rewrite (mem_read_blk pre post b sirm m Hri Hs0 Hs64 m off (Z.of_nat n) (same_out_refl b sirm m) H0 Hn H1).
    f_equal. pose proof (le_bytes_of_le _ Hb) as X. rewrite Hl in X. symmetry. exact X.
Qed.

Lemma u_field_inj segs a n v v' : u_field segs a n v -> u_field segs a n v' -> v = v'.
Proof.
  intros [Hv Hm] [Hv' Hm']. rewrite Hm in Hm'. apply Some_inj in Hm'.
  rewrite <- (of_le_le_bytes n v Hv), <- (of_le_le_bytes n v' Hv'). congruence.
Qed.

(* a change of the image below offset 24 of the block keeps the six size registers *)
Lemma regs_keep p m m' : Env m -> Env m' ->
  (forall off, 24 <= off -> off + 4 <= 48 -> get off 4 m' = get off 4 m) -> regs p m -> regs p m'.
Proof.
  intros E E' Hg R off v Hin. specialize (R off v Hin).
  assert (Ho : 24 <= off /\ off + 4 <= 48).
  { unfold six in Hin. cbn [In] in Hin.
    repeat (destruct Hin as [Hin|Hin]; [inversion Hin; lia|]). contradiction. }
  pose proof (fld m' off 4 E' ltac:(lia) ltac:(lia) ltac:(lia)) as F'.
  pose proof (fld m off 4 E ltac:(lia) ltac:(lia) ltac:(lia)) as F.
  change (Z.of_nat 4) with 4 in *. rewrite (Hg off) in F' by lia.
  rewrite (u_field_inj _ _ _ _ _ R F). exact F'.
Qed.

Lemma bytes_ok_puts L : forall mi, bytes_ok mi -> bytes_ok (puts b sirm L mi).
Proof.
  induction L as [|x L IH]; intros mi Hb; [exact Hb|]. cbn [puts fold_left]. apply IH.
  unfold P_C15c.put. apply bytes_ok_set_at; [exact Hb|apply le_bytes_ok].
Qed.

(* what the SIRM currently asks for, and the plan compute_sizes yields for it *)
Definition info_of (m : list Z) : Z := of_le (get 0 4 m).
Definition ctrl_of (m : list Z) : Z := of_le (get 4 4 m).
Definition rl_of (m : list Z) : Z := of_le (get 16 4 m).
Definition rp_of (m : list Z) : Z := of_le (get 8 8 m).
Definition rt_of (m : list Z) : Z := of_le (get 20 4 m).
Definition plan_now (m : list Z) : sirm_plan :=
  plan_of (2 ^ (info_of m / 2 ^ 24)) (rl_of m) (rp_of m) (rt_of m).

Lemma in_six_regs p off v : In (off, v) (six p) -> In (off, v) (plan_regs p).
Proof.
  intros H. change (plan_regs p) with (six p ++ [(4, 1)]). apply in_or_app. left. exact H.
Qed.

Lemma six_off p off v : In (off, v) (six p) -> 24 <= off /\ off + 4 <= 48.
Proof.
  unfold six. cbn [In]. intros Hin.
  repeat (destruct Hin as [Hin|Hin]; [inversion Hin; lia|]). contradiction.
Qed.

(* ---- one step of a history ------------------------------------------------------------------------- *)

Lemma op_enable m s r s' : Env m -> atg (blk m) s -> ctl_enable_streaming s = (r, s') ->
  exists m', Env m' /\ atg (blk m') s' /\
    ((r = Ok tt /\ regs (plan_now m) m') \/ (r <> Ok tt /\ forall p, regs p m -> regs p m')).
Proof.
  intros E Hat H. rewrite enable_as_seq in H.
  pose proof E as (Hri & H0 & H64 & F1 & L1 & F2 & Od & L2 & F3 & F4 & F5 & A1 & A2 & A3 & A4 & A5 & Hb).
  pose proof (fld m 0 4 E ltac:(lia) ltac:(lia) ltac:(lia)) as Ui.
  pose proof (fld m 4 4 E ltac:(lia) ltac:(lia) ltac:(lia)) as Uc.
  pose proof (fld m 16 4 E ltac:(lia) ltac:(lia) ltac:(lia)) as Ul.
  pose proof (fld m 8 8 E ltac:(lia) ltac:(lia) ltac:(lia)) as Up.
  pose proof (fld m 20 4 E ltac:(lia) ltac:(lia) ltac:(lia)) as Ut.
  destruct (enable_run pre post b sirm m Hri H0 H64 sbrm ucap F1 L1 F2 Od L2 F3 A1 A2 A3 A4 A5
              (info_of m) (ctrl_of m) (rl_of m) (rp_of m) (rt_of m) Ui Uc Ul Up Ut s Hat)
    as (r0 & s0 & E0 & Hpost).
  rewrite E0 in H. apply pair_inj in H as [<- <-].
  assert (S1 : same_out m (m1 b sirm m (ctrl_of m))) by (apply (same_out_m1 pre post b sirm m Hri)).
  assert (B1 : bytes_ok (m1 b sirm m (ctrl_of m))).
  { unfold m1. destruct (Z.odd (ctrl_of m)); [|exact Hb]. unfold P_C15c.put.
    apply bytes_ok_set_at; [exact Hb|apply le_bytes_ok]. }
  destruct Hpost as [(-> & _ & Hat')|(-> & Hk & Pr & Hat')].
  - exists (m1 b sirm m (ctrl_of m)). pose proof (Env_move _ _ E S1 B1) as E1.
    split; [exact E1|]. split; [exact Hat'|]. right. split; [discriminate|].
    intros p R. eapply regs_keep; [exact E|exact E1| |exact R].
    intros off Ho1 Ho2. unfold m1. destruct (Z.odd (ctrl_of m)); [|reflexivity].
    apply (get_put_other pre post b sirm m Hri); try reflexivity; lia.
  - set (mf := m_final b sirm m (info_of m) (ctrl_of m) (rl_of m) (rp_of m) (rt_of m)) in *.
    assert (Sf : same_out m mf).
    { unfold mf, m_final. apply (same_out_puts pre post b sirm m Hri); [apply plan_regs_ok|exact S1]. }
    assert (Bf : bytes_ok mf) by (unfold mf, m_final; apply bytes_ok_puts; exact B1).
    exists mf. split; [exact (Env_move _ _ E Sf Bf)|]. split; [exact Hat'|]. left. split; [reflexivity|].
    intros off v Hin. apply in_six_regs in Hin.
    exact (final_field pre post b sirm m Hri H0 H64 sbrm A1 A2 A3 A4 A5 (info_of m) (ctrl_of m) (rl_of m) (rp_of m)
             (rt_of m) Ui Ul Up Ut off v Hk Pr Hin).
Qed.

Lemma op_disable m s r s' : Env m -> atg (blk m) s -> ctl_disable_streaming s = (r, s') ->
  exists m', Env m' /\ atg (blk m') s' /\ r = Ok tt /\ forall p, regs p m -> regs p m'.
Proof.
  intros E Hat H.
  pose proof E as (Hri & H0 & H64 & F1 & L1 & F2 & Od & L2 & F3 & F4 & F5 & A1 & A2 & A3 & A4 & A5 & Hb).
  destruct (disable_run pre post b sirm m Hri H0 H64 sbrm ucap F1 L1 F2 Od L2 F3 A1 A4 A5 s Hat)
    as (r0 & s0 & E0 & -> & Hat').
  rewrite E0 in H. apply pair_inj in H as [<- <-].
  assert (S1 : same_out m (put 4 0 m)).
  { apply (same_out_put pre post b sirm m Hri); [apply same_out_refl|lia|lia]. }
  assert (B1 : bytes_ok (put 4 0 m)) by (unfold P_C15c.put; apply bytes_ok_set_at; [exact Hb|apply le_bytes_ok]).
  pose proof (Env_move _ _ E S1 B1) as E1.
  exists (put 4 0 m). split; [exact E1|]. split; [exact Hat'|]. split; [reflexivity|].
  intros p R. eapply regs_keep; [exact E|exact E1| |exact R].
  intros off Ho1 Ho2. apply (get_put_other pre post b sirm m Hri); try reflexivity; lia.
Qed.

(* the camera is reconfigured: bytes below offset 24 of the block change behind the host's back *)
Lemma op_reconf m c w off d : Env m -> atg (blk m) (c, w) -> 0 <= off -> off + zlen d <= 24 -> bytes_ok d ->
  exists m', Env m' /\ atg (blk m') (c, w_poke w (sirm + off) d) /\ forall p, regs p m -> regs p m'.
Proof.
  intros E (G & S & Hc) H0 H1 Hd. cbn [snd fst] in *.
  pose proof E as (Hri & Hs0 & Hs64 & _). pose proof E as Eb. repeat (destruct Eb as [_ Eb]).
  pose proof Hri as (_ & R1 & _ & R3 & _). pose proof (zlen_nonneg d) as Zd.
  set (m' := set_at (sirm - b + off) m d).
  assert (Zm : zlen m' = zlen m) by (unfold m'; apply zlen_set_at; lia).
  assert (Sm : same_out m m').
  { split; [exact Zm|]. intros i n Hi Hn Hdj. unfold m'. apply frame_set_at; lia. }
  assert (Bm : bytes_ok m') by (unfold m'; apply bytes_ok_set_at; assumption).
  pose proof (Env_move _ _ E Sm Bm) as E'.
  exists m'. split; [exact E'|]. split.
  - unfold w_poke. rewrite S. change (P_C15c.blk pre post b m) with (pre ++ (b, m) :: post).
    rewrite (seg_write_in _ _ _ _ _ _ _ (sirm + off) d Hri) by lia.
    replace (sirm + off - b) with (sirm - b + off) by lia. fold m'. fold (P_C15c.blk pre post b m').
    destruct G as ((Ho & Hma & Hid & Hab & Hw & Hsep) & Hmc & HR & Hcf).
    split; [|split; [reflexivity|exact Hc]].
    unfold good_conf, good_honest. cbn [w_set_segs w_segs w_plans].
    repeat split; try assumption; try lia.
    rewrite S in Hsep. eapply segs_sep_gen; [|exact Hsep]. exact Zm.
  - intros p R. eapply regs_keep; [exact E|exact E'| |exact R].
    intros o Ho1 Ho2. unfold P_C15c.get, m'. apply frame_set_at; lia.
Qed.

Lemma op_start m s h r s' h' : Env m -> atg (blk m) s -> strm_start (s, h) = (r, (s', h')) ->
  atg (blk m) s' /\ (r = Ok tt \/ r = Err SE_IN_STREAMING) /\ sh_running h' = true /\
  forall p, regs p m ->
    sh_params h' = [sp_leader p; sp_trailer p; sp_size p; sp_count p; sp_final1 p; sp_final2 p].
Proof.
  intros E Hat H.
  pose proof E as (Hri & H0 & H64 & F1 & L1 & F2 & Od & L2 & F3 & F4 & F5 & A1 & A2 & A3 & A4 & A5 & Hb).
  pose proof (fld m 24 4 E ltac:(lia) ltac:(lia) ltac:(lia)) as U1.
  pose proof (fld m 44 4 E ltac:(lia) ltac:(lia) ltac:(lia)) as U2.
  pose proof (fld m 28 4 E ltac:(lia) ltac:(lia) ltac:(lia)) as U3.
  pose proof (fld m 32 4 E ltac:(lia) ltac:(lia) ltac:(lia)) as U4.
  pose proof (fld m 36 4 E ltac:(lia) ltac:(lia) ltac:(lia)) as U5.
  pose proof (fld m 40 4 E ltac:(lia) ltac:(lia) ltac:(lia)) as U6.
  destruct (params_run_gen pre post b sirm m H64 sbrm ucap devcap resp F1 L1 F2 Od L2 F3 F4 F5 A1 A2 A3 A4 A5
              m _ _ _ _ _ _ (same_out_refl b sirm m) U1 U2 U3 U4 U5 U6 s Hat) as (r0 & s0 & E0 & -> & Hat').
  unfold strm_start in H. rewrite E0 in H.
  assert (Hp : forall p, regs p m ->
     [of_le (get 24 (Z.of_nat 4) m); of_le (get 44 (Z.of_nat 4) m); of_le (get 28 (Z.of_nat 4) m);
      of_le (get 32 (Z.of_nat 4) m); of_le (get 36 (Z.of_nat 4) m); of_le (get 40 (Z.of_nat 4) m)] =
     [sp_leader p; sp_trailer p; sp_size p; sp_count p; sp_final1 p; sp_final2 p]).
  { intros p R. unfold regs, six in R.
    rewrite (u_field_inj _ _ _ _ _ U1 (R 24 (sp_leader p) ltac:(cbn [In]; auto 10))).
    rewrite (u_field_inj _ _ _ _ _ U2 (R 44 (sp_trailer p) ltac:(cbn [In]; auto 10))).
    rewrite (u_field_inj _ _ _ _ _ U3 (R 28 (sp_size p) ltac:(cbn [In]; auto 10))).
    rewrite (u_field_inj _ _ _ _ _ U4 (R 32 (sp_count p) ltac:(cbn [In]; auto 10))).
    rewrite (u_field_inj _ _ _ _ _ U5 (R 36 (sp_final1 p) ltac:(cbn [In]; auto 10))).
    rewrite (u_field_inj _ _ _ _ _ U6 (R 40 (sp_final2 p) ltac:(cbn [In]; auto 10))). reflexivity. }
  destruct (sh_running h); apply pair_inj in H as [<- H]; apply pair_inj in H as [<- <-]; cbn [sh_params sh_running];
    (split; [exact Hat'|]); (split; [auto|]); (split; [reflexivity|exact Hp]).
Qed.

(* ---- histories ----------------------------------------------------------------------------------------- *)

Inductive hop := HEnable | HDisable | HStart | HStop | HReconf (off : Z) (data : list Z).

(* a reconfiguration changes bytes of SI_INFO / SI_CONTROL / REQUIRED_* only (offsets 0..23 of the SIRM) *)
Definition hop_ok (o : hop) : Prop :=
  match o with HReconf off d => 0 <= off /\ off + zlen d <= 24 /\ bytes_ok d | _ => True end.

(* the plan compute_sizes yields for what the SIRM in device memory segs asks for *)
Definition reg_val (segs : list (Z * list Z)) (a n : Z) : Z :=
  match mem_read segs a n with Some d => of_le d | None => 0 end.
Definition plan_in (segs : list (Z * list Z)) : sirm_plan :=
  plan_of (2 ^ (reg_val segs (sirm + 0) 4 / 2 ^ 24)) (reg_val segs (sirm + 16) 4) (reg_val segs (sirm + 8) 8)
          (reg_val segs (sirm + 20) 4).

(* one step on (control handle, device, stream handle); the ghost component is the plan programmed by
   the latest successful enable_streaming *)
Definition hstep (o : hop) (x : hst) (last : option sirm_plan) : hst * option sirm_plan :=
  match o with
  | HEnable => let '(r, x') := lift_ctl ctl_enable_streaming x in
               (x', match r with Ok _ => Some (plan_in (w_segs (snd (fst x)))) | _ => last end)
  | HDisable => (snd (lift_ctl ctl_disable_streaming x), last)
  | HStart => (snd (strm_start x), last)
  | HStop => (snd (strm_stop x), last)
  | HReconf off d => (((fst (fst x), w_poke (snd (fst x)) (sirm + off) d), snd x), last)
  end.

Fixpoint run_hist (ops : list hop) (x : hst) (last : option sirm_plan) : hst * option sirm_plan :=
  match ops with
  | [] => (x, last)
  | o :: r => let '(x', l') := hstep o x last in run_hist r x' l'
  end.

Definition hist_inv (x : hst) (last : option sirm_plan) : Prop :=
  exists m, Env m /\ atg (blk m) (fst x) /\ forall p, last = Some p -> regs p m.

Lemma plan_in_blk m : Env m -> plan_in (blk m) = plan_now m.
Proof.
  intros E. pose proof E as (Hri & H0 & H64 & _).
  assert (R : forall off n, 0 <= off -> 0 < n -> off + n <= 48 -> reg_val (blk m) (sirm + off) n = of_le (get off n m)).
  { intros off n A B C. unfold reg_val.
    rewrite (mem_read_blk pre post b sirm m Hri H0 H64 m off n (same_out_refl b sirm m) A B C). reflexivity. }
  unfold plan_in, plan_now, info_of, rl_of, rp_of, rt_of. rewrite !R by lia. reflexivity.
Qed.

Lemma hstep_inv o x last : hist_inv x last -> hop_ok o ->
  hist_inv (fst (hstep o x last)) (snd (hstep o x last)).
Proof.
  intros (m & E & Hat & HR) Hok. destruct x as [[c w] h]. cbn [fst] in Hat.
  destruct o as [| | | |off d]; unfold hstep.
  - unfold lift_ctl. cbn [fst snd]. destruct (ctl_enable_streaming (c, w)) as [r s'] eqn:Er.
    destruct (op_enable m (c, w) r s' E Hat Er) as (m' & E' & Hat' & [[-> R]|[N K]]); cbn [fst snd].
    + exists m'. split; [exact E'|]. split; [exact Hat'|]. intros p Hp. apply Some_inj in Hp. subst p.
      destruct Hat as (_ & S & _). cbn [snd] in S. rewrite S, plan_in_blk by exact E. exact R.
    + exists m'. split; [exact E'|]. split; [exact Hat'|]. intros p Hp.
      destruct r as [[]|e|]; [exfalso; apply N; reflexivity| |]; apply K, HR; exact Hp.
  - unfold lift_ctl. cbn [fst snd]. destruct (ctl_disable_streaming (c, w)) as [r s'] eqn:Er.
    destruct (op_disable m (c, w) r s' E Hat Er) as (m' & E' & Hat' & _ & K). cbn [fst snd].
    exists m'. split; [exact E'|]. split; [exact Hat'|]. intros p Hp. apply K, HR. exact Hp.
  - match goal with |- context [strm_start ?a] => destruct (strm_start a) as [r [s' h']] eqn:Er end. cbn [fst snd].
    destruct (op_start m (c, w) h r s' h' E Hat Er) as (Hat' & _).
    exists m. split; [exact E|]. split; [exact Hat'|exact HR].
  - cbn [strm_stop fst snd]. exists m. split; [exact E|]. split; [exact Hat|exact HR].
  - cbn [fst snd]. destruct Hok as (H0 & H1 & Hd).
    destruct (op_reconf m c w off d E Hat H0 H1 Hd) as (m' & E' & Hat' & K).
    exists m'. split; [exact E'|]. split; [exact Hat'|]. intros p Hp. apply K, HR. exact Hp.
Qed.

Lemma run_hist_inv ops : forall x last, hist_inv x last -> Forall hop_ok ops ->
  hist_inv (fst (run_hist ops x last)) (snd (run_hist ops x last)).
Proof.
  induction ops as [|o ops IH]; intros x last Hi Hok; [exact Hi|].
  inversion Hok as [|o' l' Ho Hl]; subst. cbn [run_hist].
  pose proof (hstep_inv o x last Hi Ho) as H1. destruct (hstep o x last) as [x' l']. cbn [fst snd] in H1.
  apply IH; assumption.
Qed.

(* C15_restart: after any history, a start puts in force exactly the plan of the latest successful
   enable_streaming; on a conforming device the start itself cannot fail except with InStreaming *)
Theorem restart_params ops x last x' p r x'' : hist_inv x last -> Forall hop_ok ops ->
  run_hist ops x last = (x', Some p) -> strm_start x' = (r, x'') ->
  (r = Ok tt \/ r = Err SE_IN_STREAMING) /\ sh_running (snd x'') = true /\
  sh_params (snd x'') = [sp_leader p; sp_trailer p; sp_size p; sp_count p; sp_final1 p; sp_final2 p] /\
  hist_inv x'' (Some p).
Proof.
  intros Hi Hok Hrun Hs. pose proof (run_hist_inv ops x last Hi Hok) as H. rewrite Hrun in H. cbn [fst snd] in H.
  destruct H as (m & E & Hat & HR). destruct x' as [s h]. destruct x'' as [s' h']. cbn [fst snd] in *.
  destruct (op_start m s h r s' h' E Hat Hs) as (Hat' & Hr & Hrun' & Hp).
  split; [exact Hr|]. split; [exact Hrun'|]. split; [apply Hp, HR; reflexivity|].
  exists m. auto.
Qed.

(* the invariant holds initially under the hypotheses of C15_params_readback (nothing enabled yet) *)
Lemma hist_inv_init m s h : Env m -> atg (blk m) s -> hist_inv (s, h) None.
Proof. intros E Hat. exists m. split; [exact E|]. split; [exact Hat|]. intros p Hp. discriminate Hp. Qed.

(* a successful enable makes the ghost plan the one compute_sizes yields for the current SIRM contents *)
Lemma hstep_enable_last x last s' : lift_ctl ctl_enable_streaming x = (Ok tt, s') ->
  hstep HEnable x last = (s', Some (plan_in (w_segs (snd (fst x))))).
Proof. intros H. cbn [hstep]. rewrite H. reflexivity. Qed.

End Hist.

(* ---- the hypotheses are satisfiable: the standard device image of the check ----------------------------- *)

Lemma bytes_ok_dec l : forallb is_byteb l = true -> bytes_ok l.
Proof.
  intros H. unfold bytes_ok. apply Forall_forall. intros x Hx.
  rewrite forallb_forall in H. specialize (H x Hx). unfold is_byteb in H. apply andb_true_iff in H as [A B].
  unfold is_byte. lia.
Qed.

Lemma ex_env : Env [(0, ex_abrm); (65536, ex_sbrm)] [] 131072 131072 65536 1 0 0 ex_sirm.
Proof.
  unfold Env.
  split. { unfold range_in; rewrite zl_sirm; repeat split; try lia;
           repeat constructor; unfold away; cbn [fst snd]; rewrite ?zl_abrm, ?zl_sbrm; lia. }
  split; [lia|]. split; [lia|]. split; [uf|]. split; [lia|]. split; [uf|]. split; [reflexivity|].
  split; [lia|]. split; [uf|]. split; [uf|]. split; [uf|].
  split; [lia|]. split; [lia|]. split; [lia|]. split; [lia|]. split; [lia|].
  apply bytes_ok_dec. vm_compute. reflexivity.
Qed.

Example hist_inv_example :
  hist_inv [(0, ex_abrm); (65536, ex_sbrm)] [] 131072 131072 65536 1 0 0 ((ex_good_ctl, ex_world), sh_init) None.
Proof.
  apply (hist_inv_init _ _ _ _ _ _ _ _ ex_sirm); [exact ex_env|].
  split; [exact ex_good|]. split; [reflexivity|]. split; left; reflexivity.
Qed.

(* the seeded history: enable, start, stop, disable, the camera asks for a larger frame, enable, start *)
Example restart_example :
  exists x' p x'',
    run_hist 131072 [HEnable; HStart; HStop; HDisable; HReconf 8 (le_bytes 8 300000); HReconf 16 (le_bytes 4 100);
                     HEnable] ((ex_good_ctl, ex_world), sh_init) None = (x', Some p) /\
    strm_start x' = (Ok tt, x'') /\ sh_params (snd x'') = [104; 64; 65536; 4; 37856; 0].
Proof.
  destruct (run_hist 131072 [HEnable; HStart; HStop; HDisable; HReconf 8 (le_bytes 8 300000);
                             HReconf 16 (le_bytes 4 100); HEnable] (ex_good_ctl, ex_world, sh_init) None)
    as [x' l] eqn:E.
  assert (El : l = Some (plan_of (2 ^ 3) 100 300000 64)).
  { assert (X : snd (run_hist 131072 [HEnable; HStart; HStop; HDisable; HReconf 8 (le_bytes 8 300000);
                             HReconf 16 (le_bytes 4 100); HEnable] (ex_good_ctl, ex_world, sh_init) None) =
                Some (plan_of (2 ^ 3) 100 300000 64)) by (vm_compute; reflexivity).
    rewrite E in X. exact X. }
  subst l. destruct (strm_start x') as [r x''] eqn:Es.
  assert (Hok : Forall hop_ok [HEnable; HStart; HStop; HDisable; HReconf 8 (le_bytes 8 300000);
                               HReconf 16 (le_bytes 4 100); HEnable]).
  { repeat constructor; try (cbn; lia); try apply le_bytes_ok; rewrite zlen_le_bytes; lia. }
  destruct (restart_params _ _ _ _ _ _ _ _ _ _ _ _ _ _ _ hist_inv_example Hok E Es) as (Hr & _ & Hp & _).
  assert (Er : fst (strm_start x') = Ok tt).
  { assert (X : fst (strm_start (fst (run_hist 131072 [HEnable; HStart; HStop; HDisable; HReconf 8 (le_bytes 8 300000);
                             HReconf 16 (le_bytes 4 100); HEnable] (ex_good_ctl, ex_world, sh_init) None))) = Ok tt)
      by (vm_compute; reflexivity).
    rewrite E in X. exact X. }
  rewrite Es in Er. cbn [fst] in Er. subst r.
  exists x', (plan_of (2 ^ 3) 100 300000 64), x''. split; [reflexivity|]. split; [exact Es|].
  rewrite Hp. vm_compute. reflexivity.
Qed.
