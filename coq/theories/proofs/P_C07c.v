(* C07, every operation, every sequence, a HOSTILE device.

   P_C07.v proves that a read or a write never panics, the read under the side condition
   [c_max_ack c - 12 < 2 ^ 64].  That condition is an invariant of the real handle (the limits are u32
   registers), but the limits are read from the DEVICE during open, so it has to be shown that a hostile
   device cannot break it.  This file does that, and extends totality to the whole API of the model:

   1. [wbytes w] : the only assumption on the device - what it holds and sends consists of BYTES
      (memory segments, the current acknowledge, raw replies, the bytes that edits put into a conforming
      acknowledge).  Everything else is arbitrary: any script of plans, raw garbage of any length, libusb
      errors on send / receive, wrong ids, truncations, any number of pending acknowledges, any memory.
   2. the device side keeps [wbytes] (on_send for a command made of bytes, conform, on_recv), what is
      received are bytes, parse_ack / view_data return sub-slices, so ctl_read returns bytes and a 4 / 8
      byte register read returns a value below 2^32 / 2^64.
   3. [hinv c] : limits below 2^32, request id below 2^16, cached register values below 2^64.
      [sound np m Q] : from a state with hinv and wbytes, [m] does not panic (np = true), ends in such a
      state again, and an Ok value satisfies Q.  Proved for every operation of model/Control.v, then for
      arbitrary operation sequences from (ctl_init, w).
   4. a concrete hostile world as a witness that the hypotheses are satisfiable. *)
From Cam Require Import Outcome Bytes Chunks Cmd Ack CmdLayout GenCPLayout Control P_C09 P_C07.

Lemma pinj {A B} (a a' : A) (b b' : B) : (a, b) = (a', b') -> a = a' /\ b = b'.
Proof. intros H. injection H. auto. Qed.
Lemma sinj {A} (a b : A) : Some a = Some b -> a = b.
Proof. intros H. injection H. auto. Qed.

Lemma P16 : 2 ^ 16 = 65536. Proof. reflexivity. Qed.
Lemma P32 : 2 ^ 32 = 4294967296. Proof. reflexivity. Qed.
Lemma P64 : 2 ^ 64 = 18446744073709551616. Proof. reflexivity. Qed.

(* ================================================================================== *)
(* 1. byte-well-formed worlds                                                         *)
(* ================================================================================== *)

Definition edit_bytes (e : edit) : Prop :=
  match e with ESet8 _ v => is_byte v | EExt bs => bytes_ok bs | _ => True end.
Definition reply_bytes (r : reply) : Prop :=
  match r with RRaw bs => bytes_ok bs | RConform es => Forall edit_bytes es | _ => True end.
Definition plan_bytes (p : txplan) : Prop := Forall reply_bytes (tp_replies p).
Definition segs_bytes (segs : list (Z * list Z)) : Prop := Forall (fun s => bytes_ok (snd s)) segs.

Record wbytes (w : world) : Prop := {
  wb_segs : segs_bytes (w_segs w);
  wb_plans : Forall plan_bytes (w_plans w);
  wb_replies : Forall reply_bytes (w_replies w);
  wb_ack : bytes_ok (w_cur_ack w)
}.

Lemma wbytes_same w w' :
  w_segs w' = w_segs w -> w_plans w' = w_plans w -> w_replies w' = w_replies w -> w_cur_ack w' = w_cur_ack w ->
  wbytes w -> wbytes w'.
Proof. intros E1 E2 E3 E4 [A B C D]. constructor; [rewrite E1|rewrite E2|rewrite E3|rewrite E4]; assumption. Qed.

Lemma wbytes_logev w e : wbytes w -> wbytes (w_logev w e).
Proof. apply wbytes_same; reflexivity. Qed.
Lemma wbytes_set_rid w r : wbytes w -> wbytes (w_set_rid w r).
Proof. apply wbytes_same; reflexivity. Qed.

(* ---- byte strings built by the device ---------------------------------------------------- *)

Lemma bytes_ok_repeat b n : is_byte b -> bytes_ok (repeat b n).
Proof. intros H. induction n as [|n IH]; cbn [repeat]; constructor; auto. Qed.

Lemma bytes_ok_set_at o bs new : bytes_ok bs -> bytes_ok new -> bytes_ok (set_at o bs new).
Proof.
  intros Hb Hn. unfold set_at. apply bytes_ok_app; [apply bytes_ok_take, Hb|].
  apply bytes_ok_app; [exact Hn|apply bytes_ok_drop, Hb].
Qed.

Lemma apply_edit_bytes b e : bytes_ok b -> edit_bytes e -> bytes_ok (apply_edit b e).
Proof.
  intros Hb He. destruct e as [o v|o v|n|x|n]; cbn [apply_edit edit_bytes] in *.
  - destruct (o <? zlen b); [|exact Hb]. apply bytes_ok_set_at; [exact Hb|]. constructor; [exact He|constructor].
  - destruct (o + 1 <? zlen b); [|exact Hb]. apply bytes_ok_set_at; [exact Hb|apply le_bytes_ok].
  - apply bytes_ok_take, Hb.
  - apply bytes_ok_app; assumption.
  - destruct (12 <=? zlen b); [|exact Hb]. apply bytes_ok_set_at; [|apply le_bytes_ok].
    apply bytes_ok_app; [apply bytes_ok_take, Hb|]. apply bytes_ok_repeat. unfold is_byte. lia.
Qed.

Lemma fold_edits_bytes es : forall b, bytes_ok b -> Forall edit_bytes es -> bytes_ok (fold_left apply_edit es b).
Proof.
  induction es as [|e es IH]; intros b Hb He; cbn [fold_left]; [exact Hb|].
  inversion He as [|? ? He1 He2]; subst. apply IH; [apply apply_edit_bytes; assumption|exact He2].
Qed.

Lemma enc_ack_bytes code id rid scd : bytes_ok scd -> bytes_ok (enc_ack code id rid scd).
Proof. intros H. unfold enc_ack. repeat (apply bytes_ok_app; [apply le_bytes_ok|]). exact H. Qed.

Lemma enc_write_scd_bytes n : bytes_ok (enc_write_scd n).
Proof. unfold enc_write_scd. apply bytes_ok_app; apply le_bytes_ok. Qed.

Lemma seg_read_bytes segs a n d : segs_bytes segs -> seg_read segs a n = Some d -> bytes_ok d.
Proof.
  induction segs as [|[b m] r IH]; intros Hs; cbn [seg_read]; [intros E; discriminate E|].
  inversion Hs as [|? ? Hm Hr]; subst. cbn [snd] in Hm.
  destruct (_ && _); [|apply IH, Hr].
  intros E. apply sinj in E. subst d. apply bytes_ok_take, bytes_ok_drop, Hm.
Qed.

Lemma seg_write_bytes segs a data : forall segs', segs_bytes segs -> bytes_ok data ->
  seg_write segs a data = Some segs' -> segs_bytes segs'.
Proof.
  induction segs as [|[b m] r IH]; intros segs' Hs Hd; cbn [seg_write]; [intros E; discriminate E|].
  inversion Hs as [|? ? Hm Hr]; subst. cbn [snd] in Hm.
  destruct (_ && _).
  - intros E. apply sinj in E. subst segs'. constructor; [|exact Hr]. cbn [snd]. apply bytes_ok_set_at; assumption.
  - destruct (seg_write r a data) as [r'|] eqn:W; intros E; [|discriminate E].
    apply sinj in E. subst segs'. constructor; [exact Hm|]. apply (IH r' Hr Hd eq_refl).
Qed.

(* ---- the write data a conforming device extracts from a command are bytes of the command --- *)

Lemma get_le_rest n bs v r : get_le n bs = Some (v, r) -> r = skipn n bs.
Proof.
  unfold get_le. destruct (_ <=? _); intros E; [|discriminate E].
  apply sinj in E. apply pinj in E as [_ <-]. reflexivity.
Qed.

Lemma DWrite_inj a d a' d' : DWrite a d = DWrite a' d' -> d = d'.
Proof. intros H. injection H. auto. Qed.

Lemma spec_decode_write_bytes cmd a data rid :
  bytes_ok cmd -> spec_decode cmd = Some (DWrite a data, rid) -> bytes_ok data.
Proof.
  intros Hb. unfold spec_decode.
  destruct (get_le 4 cmd) as [[magic r1]|] eqn:E1; [|intros E; discriminate E].
  destruct (get_le 2 r1) as [[flag r2]|] eqn:E2; [|intros E; discriminate E].
  destruct (get_le 2 r2) as [[kind r3]|] eqn:E3; [|intros E; discriminate E].
  destruct (get_le 2 r3) as [[sl r4]|] eqn:E4; [|intros E; discriminate E].
  destruct (get_le 2 r4) as [[id scd]|] eqn:E5; [|intros E; discriminate E].
  destruct (_ && _); [|intros E; discriminate E].
  destruct (kind =? 2048).
  { destruct (dec_read_entries 1 scd) as [[|[a0 n0] [|? ?]]|]; intros E; discriminate E. }
  destruct (kind =? 2050).
  { destruct (get_le 8 scd) as [[a0 d]|] eqn:E6; intros E; [|discriminate E].
    apply sinj in E. apply pinj in E as [E _]. apply DWrite_inj in E. subst d.
    apply get_le_rest in E1, E2, E3, E4, E5, E6. subst.
    repeat apply bytes_ok_skipn. exact Hb. }
  destruct (kind =? 2054).
  { destruct (dec_read_entries _ scd); cbn [option_map]; intros E; discriminate E. }
  destruct (kind =? 2056).
  { destruct (dec_write_entries _ scd); cbn [option_map]; intros E; discriminate E. }
  intros E. discriminate E.
Qed.

(* ---- conform / on_send / on_recv keep the world made of bytes ----------------------------- *)

Ltac conform_fallback Hw :=
  repeat match goal with |- context [if ?b then _ else _] => destruct b end;
  cbn [fst snd];
  (split; [apply enc_ack_bytes; constructor|first [exact Hw|apply wbytes_set_rid; exact Hw]]).

Lemma conform_bytes w cmd : wbytes w -> bytes_ok cmd ->
  bytes_ok (fst (conform w cmd)) /\ wbytes (snd (conform w cmd)).
Proof.
  intros Hw Hb. unfold conform.
  destruct (spec_decode cmd) as [[[a n|a data|es|es] rid]|] eqn:D.
  - destruct (seg_read (w_segs w) a n) as [d|] eqn:R; cbn [fst snd];
      (split; [apply enc_ack_bytes|apply wbytes_set_rid; exact Hw]).
    + eapply seg_read_bytes; [exact (wb_segs _ Hw)|exact R].
    + constructor.
  - pose proof (spec_decode_write_bytes _ _ _ _ Hb D) as Hd.
    destruct (seg_write (w_segs w) a data) as [segs'|] eqn:S; cbn [fst snd]; split.
    + apply enc_ack_bytes, enc_write_scd_bytes.
    + constructor; cbn [w_segs w_plans w_replies w_cur_ack];
        [eapply seg_write_bytes; [exact (wb_segs _ Hw)|exact Hd|exact S]
        |exact (wb_plans _ Hw)|exact (wb_replies _ Hw)|exact (wb_ack _ Hw)].
    + apply enc_ack_bytes. constructor.
    + revert Hw. apply wbytes_same; reflexivity.
  - conform_fallback Hw.
  - conform_fallback Hw.
  - conform_fallback Hw.
Qed.

Lemma default_plan_bytes : plan_bytes default_plan.
Proof. unfold plan_bytes, default_plan. cbn [tp_replies]. constructor; [|constructor]. cbn [reply_bytes]. constructor. Qed.

Lemma on_send_bytes w cmd : wbytes w -> bytes_ok cmd -> wbytes (snd (on_send w cmd)).
Proof.
  intros Hw Hb. unfold on_send.
  assert (HP : exists plan rest,
            (match w_plans w with [] => (default_plan, []) | p :: r => (p, r) end) = (plan, rest) /\
            plan_bytes plan /\ Forall plan_bytes rest).
  { pose proof (wb_plans _ Hw) as P. destruct (w_plans w) as [|p r].
    - exists default_plan, []. split; [reflexivity|]. split; [apply default_plan_bytes|constructor].
    - exists p, r. split; [reflexivity|]. inversion P; subst. auto. }
  destruct HP as (plan & rest & -> & Hp & Hr). cbv beta iota zeta.
  assert (Hw0 : wbytes {| w_segs := w_segs w; w_plans := rest; w_replies := w_replies w;
                          w_cur_ack := w_cur_ack w; w_cur_rid := w_cur_rid w; w_log := w_log w;
                          w_open_err := w_open_err w; w_writes := w_writes w |}).
  { constructor; cbn [w_segs w_plans w_replies w_cur_ack];
      [exact (wb_segs _ Hw)|exact Hr|exact (wb_replies _ Hw)|exact (wb_ack _ Hw)]. }
  destruct (tp_send_err plan); cbn [snd]; [apply wbytes_logev, Hw0|].
  match goal with |- context [conform ?x cmd] =>
    pose proof (conform_bytes x cmd (wbytes_logev _ _ Hw0) Hb) as [A B]; destruct (conform x cmd) as [ack w1] end.
  cbn [fst snd] in *.
  constructor; cbn [w_segs w_plans w_replies w_cur_ack];
    [exact (wb_segs _ B)|exact (wb_plans _ B)|exact Hp|exact A].
Qed.

Lemma on_recv_bytes w n : wbytes w ->
  wbytes (snd (on_recv w n)) /\ (forall bs, fst (on_recv w n) = Ok bs -> bytes_ok bs).
Proof.
  intros Hw. unfold on_recv. pose proof (wb_replies _ Hw) as R.
  destruct (w_replies w) as [|r rest].
  - cbn [fst snd]. split; [apply wbytes_logev, Hw|intros bs E; discriminate E].
  - inversion R as [|? ? Hr Hrest]; subst.
    assert (Hw0 : wbytes {| w_segs := w_segs w; w_plans := w_plans w; w_replies := rest;
                            w_cur_ack := w_cur_ack w; w_cur_rid := w_cur_rid w; w_log := w_log w;
                            w_open_err := w_open_err w; w_writes := w_writes w |}).
    { constructor; cbn [w_segs w_plans w_replies w_cur_ack];
        [exact (wb_segs _ Hw)|exact (wb_plans _ Hw)|exact Hrest|exact (wb_ack _ Hw)]. }
    destruct r as [ms|es|b|e]; cbn [reply_bytes] in Hr.
    + destruct (n <? _); cbn [fst snd];
        (split; [apply wbytes_logev, Hw0|intros bs E; try discriminate E]).
      apply Ok_inj in E. subst bs. apply enc_ack_bytes, enc_write_scd_bytes.
    + destruct (n <? _); cbn [fst snd];
        (split; [apply wbytes_logev, Hw0|intros bs E; try discriminate E]).
      apply Ok_inj in E. subst bs. cbn [w_cur_ack]. apply fold_edits_bytes; [exact (wb_ack _ Hw)|exact Hr].
    + destruct (n <? _); cbn [fst snd];
        (split; [apply wbytes_logev, Hw0|intros bs E; try discriminate E]).
      apply Ok_inj in E. subst bs. exact Hr.
    + cbn [fst snd]. split; [apply wbytes_logev, Hw0|intros bs E; discriminate E].
Qed.

(* ---- what the handle sends are bytes ------------------------------------------------------ *)

Definition cmd_bytes (cm : cmd) : Prop :=
  match cm with
  | CWrite w => bytes_ok (wm_data w)
  | CWriteStacked es _ _ => Forall (fun w => bytes_ok (wm_data w)) es
  | _ => True
  end.

Lemma enc_read_entry_bytes e : bytes_ok (enc_read_entry e).
Proof. unfold enc_read_entry. repeat (apply bytes_ok_app; [apply le_bytes_ok|]). apply le_bytes_ok. Qed.

Lemma serialize_vec_bytes cm id : cmd_bytes cm -> bytes_ok (serialize_vec cm id).
Proof.
  intros H. rewrite serialize_vec_enc. unfold enc, enc_header.
  repeat (rewrite <- app_assoc). repeat (apply bytes_ok_app; [apply le_bytes_ok|]).
  destruct cm as [a n|w|es l k|es l k]; cbn [enc_scd cmd_bytes] in *.
  - apply enc_read_entry_bytes.
  - apply bytes_ok_app; [apply le_bytes_ok|exact H].
  - induction es as [|e es IH]; cbn [flat_map]; [constructor|].
    apply bytes_ok_app; [apply enc_read_entry_bytes|exact IH].
  - induction H as [|w es Hw Hes IH]; cbn [flat_map]; [constructor|].
    apply bytes_ok_app; [|exact IH]. unfold enc_write_entry.
    repeat (apply bytes_ok_app; [apply le_bytes_ok|]). exact Hw.
Qed.

Lemma mk_write_bytes a d cm : bytes_ok d -> mk_write a d = Ok cm -> cmd_bytes cm.
Proof.
  intros Hd. unfold mk_write. destruct (mk_write_mem a d) as [w|e|] eqn:E; cbn [omap]; intros H; try discriminate H.
  apply Ok_inj in H. subst cm. cbn [cmd_bytes].
  destruct (mk_write_mem_ok _ _ _ E) as (_ & _ & ->). exact Hd.
Qed.

(* ---- what the handle decodes are sub-slices of what it received --------------------------- *)

Lemma rd_rest n bs v r : rd n bs = Ok (v, r) -> r = skipn n bs.
Proof.
  unfold rd. destruct (_ <? _)%nat; intros E; [discriminate E|].
  apply Ok_inj in E. apply pinj in E as [_ <-]. reflexivity.
Qed.

Lemma parse_ack_scd_bytes bs a : bytes_ok bs -> parse_ack bs = Ok a -> bytes_ok (a_raw_scd a).
Proof.
  intros Hb. unfold parse_ack, parse_ack_with.
  destruct (rd 4 bs) as [[v r]|e|] eqn:E1; cbn [bind]; try (intros E; discriminate E).
  destruct (negb _); [intros E; discriminate E|].
  destruct (rd 2 r) as [[v2 r2]|e|] eqn:E2; cbn [bind]; try (intros E; discriminate E).
  destruct (status_kind v2); cbn [bind]; try (intros E; discriminate E).
  destruct (rd 2 r2) as [[v3 r3]|e|] eqn:E3; cbn [bind]; try (intros E; discriminate E).
  destruct (scd_kind_of v3); cbn [bind]; try (intros E; discriminate E).
  destruct (rd 2 r3) as [[v4 r4]|e|] eqn:E4; cbn [bind]; try (intros E; discriminate E).
  destruct (rd 2 r4) as [[v5 r5]|e|] eqn:E5; cbn [bind]; try (intros E; discriminate E).
  intros E. apply Ok_inj in E. subst a. cbn [a_raw_scd].
  apply rd_rest in E1, E2, E3, E4, E5. subst. repeat apply bytes_ok_skipn. exact Hb.
Qed.

Lemma view_data_bytes a d : bytes_ok (a_raw_scd a) -> view_data a = Ok d -> bytes_ok d.
Proof.
  intros Hb. unfold view_data. destruct (_ <? _); intros E; [discriminate E|].
  apply Ok_inj in E. subst d. apply bytes_ok_take, Hb.
Qed.

(* ================================================================================== *)
(* 2. the handle invariant                                                            *)
(* ================================================================================== *)

Definition is_u16 (z : Z) : Prop := 0 <= z < 2 ^ 16.
Definition is_u32 (z : Z) : Prop := 0 <= z < 2 ^ 32.
Definition is_u64 (z : Z) : Prop := 0 <= z < 2 ^ 64.

Record hinv (c : ctl) : Prop := {
  hi_ack : is_u32 (c_max_ack c);
  hi_cmd : is_u32 (c_max_cmd c);
  hi_next : is_u16 (c_next c);
  hi_abrm : forall v, c_abrm c = Some v -> is_u64 v;
  hi_sbrm : forall a v, c_sbrm c = Some (a, v) -> is_u64 a /\ is_u64 v;
  hi_sirm : forall a, c_sirm c = Some a -> is_u64 a
}.

Lemma hinv_mk o n r mc ma bl ab sb si :
  is_u32 ma -> is_u32 mc -> is_u16 n -> (forall v, ab = Some v -> is_u64 v) ->
  (forall a v, sb = Some (a, v) -> is_u64 a /\ is_u64 v) -> (forall a, si = Some a -> is_u64 a) ->
  hinv {| c_opened := o; c_next := n; c_retry := r; c_max_cmd := mc; c_max_ack := ma; c_buflen := bl;
          c_abrm := ab; c_sbrm := sb; c_sirm := si |}.
Proof. intros. constructor; cbn [c_max_ack c_max_cmd c_next c_abrm c_sbrm c_sirm]; assumption. Qed.

Lemma hinv_init : hinv ctl_init.
Proof.
  unfold ctl_init. apply hinv_mk; unfold is_u32, is_u16; rewrite ?P32, ?P16; try lia; intros; discriminate.
Qed.

Lemma hinv_set_next c n : hinv c -> hinv (c_set_next c (wrapu 16 n)).
Proof.
  intros [A B C D E F]. unfold c_set_next. apply hinv_mk; try assumption.
  unfold is_u16, wrapu. apply Z.mod_pos_bound. rewrite P16. lia.
Qed.

Lemma hinv_set_buflen c n : hinv c -> hinv (c_set_buflen c n).
Proof. intros [A B C D E F]. unfold c_set_buflen. apply hinv_mk; assumption. Qed.

Definition inv (s : st) : Prop := hinv (fst s) /\ wbytes (snd s).

(* ================================================================================== *)
(* 3. one transaction                                                                 *)
(* ================================================================================== *)

Ltac fin := intros E; apply pinj in E as [<- E]; apply pinj in E as [<- <-];
            (split; [assumption|split; [assumption|intros ? E'; discriminate E']]).

Lemma recv_loop_keeps : forall fuel retry ek c w x c' w', hinv c -> wbytes w ->
  recv_loop fuel retry ek (c, w) = (x, (c', w')) ->
  hinv c' /\ wbytes w' /\ (forall a, x = Ok a -> bytes_ok (a_raw_scd a)).
Proof.
  induction fuel as [|f IH]; intros retry ek c w x c' w' Hc Hw; cbn [recv_loop]; [fin|].
  destruct (retry <=? 0); [fin|].
  pose proof (on_recv_bytes w (c_buflen c) Hw) as [W1 B1].
  destruct (on_recv w (c_buflen c)) as [r w1]. cbn [fst snd] in W1, B1.
  destruct r as [bytes|e|]; [|fin|fin].
  pose proof (B1 bytes eq_refl) as Hb.
  destruct (parse_ack bytes) as [a|e|] eqn:P; [|fin|fin].
  destruct (negb (a_status a =? 0)); [fin|].
  destruct (negb (a_request_id a =? c_next c)); [fin|].
  destruct (a_kind a =? 4).
  - destruct (view_pending a); [|fin|fin]. apply IH; assumption.
  - destruct (negb (a_kind a =? ek)); [fin|].
    intros E. apply pinj in E as [<- E]. apply pinj in E as [<- <-].
    split; [apply hinv_set_next; exact Hc|]. split; [exact W1|].
    intros a0 E0. apply Ok_inj in E0. subst a0. eapply parse_ack_scd_bytes; eassumption.
Qed.

Lemma send_cmd_keeps cm c w x c' w' : cmd_bytes cm -> hinv c -> wbytes w ->
  send_cmd cm (c, w) = (x, (c', w')) ->
  hinv c' /\ wbytes w' /\ (forall a, x = Ok a -> bytes_ok (a_raw_scd a)).
Proof.
  intros Hcm Hc Hw. unfold send_cmd. destruct (c_max_cmd c <? cmd_len cm); [fin|].
  cbv zeta.
  set (c1 := if c_buflen c <? Z.max (cmd_len cm) (maximum_ack_len cm)
             then c_set_buflen c (Z.max (cmd_len cm) (maximum_ack_len cm)) else c).
  assert (Hc1 : hinv c1).
  { subst c1. destruct (_ <? _); [apply hinv_set_buflen|]; exact Hc. }
  pose proof (on_send_bytes w (serialize_vec cm (c_next c)) Hw (serialize_vec_bytes cm _ Hcm)) as W1.
  destruct (on_send w (serialize_vec cm (c_next c))) as [r w1]. cbn [snd] in W1.
  destruct r as [u|e|]; [|fin|fin]. apply recv_loop_keeps; assumption.
Qed.

(* ================================================================================== *)
(* 4. sound computations                                                              *)
(* ================================================================================== *)

(* from a state with [hinv] and [wbytes]: no panic (when np = true), the same holds afterwards, and an Ok
   value satisfies Q.  [sound false] is the preservation half alone: it is what the write loops are proved
   with, their freedom from panics being P_C07.write_blocks_total. *)
Definition sound (np : bool) {A} (m : M A) (Q : A -> Prop) : Prop :=
  forall s x s', inv s -> m s = (x, s') ->
    (np = true -> x <> Panic) /\ inv s' /\ (forall a, x = Ok a -> Q a).

Lemma sound_ret np {A} (a : A) (Q : A -> Prop) : Q a -> sound np (ret a) Q.
Proof.
  intros HQ s x s' I E. apply pinj in E as [<- <-]. split; [intros _ H; discriminate H|].
  split; [exact I|]. intros b Eb. apply Ok_inj in Eb. subst b. exact HQ.
Qed.

Lemma sound_fail np {A} e (Q : A -> Prop) : sound np (@fail A e) Q.
Proof.
  intros s x s' I E. apply pinj in E as [<- <-]. split; [intros _ H; discriminate H|].
  split; [exact I|]. intros b Eb. discriminate Eb.
Qed.

Lemma sound_lift np {A} (x : outcome A) cls (Q : A -> Prop) :
  (np = true -> x <> Panic) -> (forall a, x = Ok a -> Q a) -> sound np (lift x cls) Q.
Proof.
  intros NP HQ s y s' I E. unfold lift in E. destruct x as [a|e|].
  - apply pinj in E as [<- <-]. split; [intros _ H; discriminate H|]. split; [exact I|exact HQ].
  - apply pinj in E as [<- <-]. split; [intros _ H; discriminate H|]. split; [exact I|].
    intros b Eb. discriminate Eb.
  - apply pinj in E as [<- <-]. split; [exact NP|]. split; [exact I|]. intros b Eb. discriminate Eb.
Qed.

Lemma sound_bind np {A B} (m : M A) (f : A -> M B) (Q : A -> Prop) (R : B -> Prop) :
  sound np m Q -> (forall a, Q a -> sound np (f a) R) -> sound np (bindM m f) R.
Proof.
  intros Hm Hf s x s' I E. unfold bindM in E.
  destruct (m s) as [[a|e|] s1] eqn:Em.
  - destruct (Hm _ _ _ I Em) as (_ & I1 & Q1). exact (Hf a (Q1 a eq_refl) _ _ _ I1 E).
  - destruct (Hm _ _ _ I Em) as (_ & I1 & _). apply pinj in E as [<- <-].
    split; [intros _ H; discriminate H|]. split; [exact I1|]. intros b Eb. discriminate Eb.
  - destruct (Hm _ _ _ I Em) as (NP & I1 & _). apply pinj in E as [<- <-].
    split; [intros T _; apply (NP T); reflexivity|]. split; [exact I1|]. intros b Eb. discriminate Eb.
Qed.

Lemma sound_weaken np {A} (m : M A) (Q R : A -> Prop) :
  sound np m Q -> (forall a, Q a -> R a) -> sound np m R.
Proof.
  intros Hm QR s x s' I E. destruct (Hm _ _ _ I E) as (NP & I1 & Q1).
  split; [exact NP|]. split; [exact I1|]. intros a Ea. apply QR, Q1, Ea.
Qed.

Lemma sound_total np {A} (m : M A) (Q : A -> Prop) :
  sound false m Q -> (forall s, inv s -> fst (m s) <> Panic) -> sound np m Q.
Proof.
  intros Hm NP s x s' I E. destruct (Hm _ _ _ I E) as (_ & I1 & Q1).
  split; [|split; [exact I1|exact Q1]]. intros _. pose proof (NP s I) as N. rewrite E in N. exact N.
Qed.

Lemma sound_get_ctl np : sound np get_ctl hinv.
Proof.
  intros s x s' I E. apply pinj in E as [<- <-]. split; [intros _ H; discriminate H|].
  split; [exact I|]. intros c Ec. apply Ok_inj in Ec. subst c. apply I.
Qed.

Lemma sound_upd_ctl np f : (forall c, hinv c -> hinv (f c)) -> sound np (upd_ctl f) (fun _ => True).
Proof.
  intros F s x s' [Hc Hw] E. apply pinj in E as [<- <-]. split; [intros _ H; discriminate H|].
  split; [split; [apply F, Hc|exact Hw]|]. intros; exact I.
Qed.

Lemma sound_w_ev np e : sound np (w_ev e) (fun _ => True).
Proof.
  intros s x s' [Hc Hw] E. apply pinj in E as [<- <-]. split; [intros _ H; discriminate H|].
  split; [split; [exact Hc|apply wbytes_logev, Hw]|]. intros; exact I.
Qed.

Lemma sound_assert_open np : sound np assert_open (fun _ => True).
Proof.
  intros s x s' Is E. unfold assert_open in E. destruct (c_opened (fst s)); apply pinj in E as [<- <-];
    (split; [intros _ H; discriminate H|]; split; [exact Is|]; intros; exact I).
Qed.

Lemma sound_verify_range np a n : sound np (verify_range a n) (fun _ => 0 <= a /\ a + n <= 2 ^ 64).
Proof.
  unfold verify_range. destruct ((a <? 0) || (2 ^ 64 <? a + n)) eqn:E; [apply sound_fail|].
  apply sound_ret. apply orb_false_iff in E as [E1 E2]. apply Z.ltb_ge in E1, E2. auto.
Qed.

Lemma sound_reg_addr np b o : sound np (reg_addr b o) (fun _ => True).
Proof. unfold reg_addr. destruct (_ <? _); [apply sound_ret; exact I|apply sound_fail]. Qed.

Lemma sound_send_cmd np cm : cmd_bytes cm -> sound np (send_cmd cm) (fun a => bytes_ok (a_raw_scd a)).
Proof.
  intros Hcm [c w] x [c' w'] [Hc Hw] E. cbn [fst snd] in Hc, Hw.
  destruct (send_cmd_keeps _ _ _ _ _ _ Hcm Hc Hw E) as (A & B & C).
  split; [|split; [split; assumption|exact C]].
  intros _. destruct (send_cmd_spec cm c w) as (x0 & c0 & w0 & R & NP & _).
  rewrite E in R. apply pinj in R as [<- _]. exact NP.
Qed.

(* ================================================================================== *)
(* 5. DeviceControl::read / write                                                     *)
(* ================================================================================== *)

Lemma sound_read_loop np chunk : forall fuel addr remaining acc, bytes_ok acc ->
  sound np (read_loop fuel addr remaining chunk acc) bytes_ok.
Proof.
  induction fuel as [|f IH]; intros addr remaining acc Hacc; cbn [read_loop]; [apply sound_fail|].
  destruct (remaining <=? 0); [apply sound_ret; exact Hacc|].
  eapply sound_bind; [apply sound_send_cmd; exact I|]. intros a Ha.
  eapply sound_bind.
  { apply (sound_lift np (view_data a) CE_IO bytes_ok).
    - intros _. apply view_data_total.
    - intros d. apply view_data_bytes, Ha. }
  intros data Hd. destruct (negb _); [apply sound_fail|]. apply IH. apply bytes_ok_app; assumption.
Qed.

Lemma max_read_len_facts m : 12 < m < 4294967296 ->
  maximum_read_length m <> Panic /\ (forall ch, maximum_read_length m = Ok ch -> ch <> 0).
Proof.
  intros H. unfold maximum_read_length, chk_u, in_u, ACK_HEADER_LENGTH.
  destruct (0 <=? m - 12) eqn:E1; [|apply Z.leb_gt in E1; lia].
  destruct (m - 12 <? 2 ^ 64) eqn:E2; [|apply Z.ltb_ge in E2; rewrite P64 in E2; lia].
  cbn [andb bind]. split; [discriminate|]. intros ch E. apply Ok_inj in E. subst ch.
  destruct (m - 12 <? 2 ^ 16); lia.
Qed.

Lemma sound_ctl_read_bytes np a n : sound np (ctl_read a n) bytes_ok.
Proof.
  unfold ctl_read.
  eapply sound_bind; [apply sound_assert_open|intros _ _].
  eapply sound_bind; [apply sound_verify_range|intros _ _].
  eapply sound_bind; [apply sound_get_ctl|intros c Hc].
  eapply sound_bind.
  { apply (sound_lift np _ CE_IO (fun _ => 12 < c_max_ack c)).
    - intros _. unfold read_chunks_init. destruct (_ <=? _); discriminate.
    - intros r. unfold read_chunks_init, ACK_HEADER_LENGTH.
      destruct (c_max_ack c <=? 12) eqn:E; intros H; [discriminate H|]. apply Z.leb_gt in E. exact E. }
  intros r0 H12. cbv beta in H12.
  assert (F : 12 < c_max_ack c < 4294967296).
  { pose proof (hi_ack _ Hc) as U. unfold is_u32 in U. rewrite P32 in U. lia. }
  destruct (max_read_len_facts _ F) as [NP NZ].
  eapply sound_bind.
  { apply (sound_lift np _ CE_IO (fun ch => ch <> 0)); [intros _; exact NP|exact NZ]. }
  intros ch Hch. destruct (ch =? 0) eqn:E0; [apply Z.eqb_eq in E0; contradiction|].
  apply sound_read_loop. constructor.
Qed.

(* read: bytes, and exactly as many as requested *)
Lemma sound_ctl_read np a n : sound np (ctl_read a n) (fun d => bytes_ok d /\ (0 <= n -> zlen d = n)).
Proof.
  intros [c w] x s' I E. destruct (sound_ctl_read_bytes np a n _ _ _ I E) as (A & B & C).
  split; [exact A|]. split; [exact B|]. intros d Ed. split; [apply C, Ed|].
  destruct I as [Hc _]. cbn [fst] in Hc.
  destruct (ctl_read_total c w a n) as (x0 & s0 & R & _ & L).
  { pose proof (hi_ack _ Hc) as U. unfold is_u32 in U. rewrite P32 in U. rewrite P64. lia. }
  rewrite E in R. apply pinj in R as [<- _]. intros Hn. apply L; assumption.
Qed.

Lemma of_le_u32 bs : bytes_ok bs -> zlen bs = 4 -> is_u32 (of_le bs).
Proof.
  intros Hb Hl. pose proof (of_le_bound bs Hb) as B. unfold zlen in Hl.
  assert (L : length bs = 4%nat) by lia. rewrite L in B. exact B.
Qed.

Lemma of_le_u64 bs : bytes_ok bs -> zlen bs = 8 -> is_u64 (of_le bs).
Proof.
  intros Hb Hl. pose proof (of_le_bound bs Hb) as B. unfold zlen in Hl.
  assert (L : length bs = 8%nat) by lia. rewrite L in B. exact B.
Qed.

Lemma sound_read_reg4 np a : sound np (read_reg a 4) is_u32.
Proof.
  unfold read_reg. eapply sound_bind; [apply sound_ctl_read|]. intros bs [Hb Hl].
  apply sound_ret. apply of_le_u32; [exact Hb|apply Hl; lia].
Qed.

Lemma sound_read_reg8 np a : sound np (read_reg a 8) is_u64.
Proof.
  unfold read_reg. eapply sound_bind; [apply sound_ctl_read|]. intros bs [Hb Hl].
  apply sound_ret. apply of_le_u64; [exact Hb|apply Hl; lia].
Qed.

(* ---- write ---------------------------------------------------------------------------------- *)

Lemma write_mem_new_inv a d p : write_mem_new a d = Ok p -> p = (a, d).
Proof.
  unfold write_mem_new, into_scd_len. destruct (zlen d <? 2 ^ 16); cbn [bind]; [|intros E; discriminate E].
  destruct (zlen d + 8 <? 2 ^ 16); cbn [bind]; intros E; [|discriminate E]. apply Ok_inj in E. auto.
Qed.

Lemma write_next_bytes ws o : bytes_ok (w_data ws) -> write_next ws = Ok o ->
  match o with
  | None => True
  | Some ((_, d), ws') => bytes_ok d /\ bytes_ok (w_data ws')
  end.
Proof.
  intros Hb. unfold write_next. destruct (w_idx ws =? zlen (w_data ws)).
  { intros E. apply Ok_inj in E. subst o. exact I. }
  destruct (w_idx ws + w_max ws <? zlen (w_data ws)).
  - destruct (write_mem_new _ _) as [p|e|] eqn:W; cbn [unwrap bind]; try (intros E; discriminate E).
    apply write_mem_new_inv in W. subst p.
    destruct (chk_u 64 _) as [a'|e|]; cbn [bind]; intros E; try discriminate E.
    apply Ok_inj in E. subst o. cbn [w_data]. split; [apply bytes_ok_take, bytes_ok_drop, Hb|exact Hb].
  - destruct (write_mem_new _ _) as [p|e|] eqn:W; cbn [unwrap bind]; try (intros E; discriminate E).
    apply write_mem_new_inv in W. subst p.
    intros E. apply Ok_inj in E. subst o. cbn [w_data]. split; [apply bytes_ok_drop, Hb|exact Hb].
Qed.

Lemma keeps_write_loop : forall fuel ws, bytes_ok (w_data ws) -> sound false (write_loop fuel ws) (fun _ => True).
Proof.
  induction fuel as [|f IH]; intros ws Hb; cbn [write_loop]; [apply sound_fail|].
  eapply sound_bind.
  { apply (sound_lift false (write_next ws) CE_IO
             (fun o => match o with None => True | Some ((_, d), ws') => bytes_ok d /\ bytes_ok (w_data ws') end)).
    - intros H; discriminate H.
    - intros o. apply write_next_bytes, Hb. }
  intros [[[a d] ws']|] Ho; [|apply sound_ret; exact I]. destruct Ho as [Hd Hws'].
  eapply sound_bind.
  { apply (sound_lift false (mk_write a d) CE_IO cmd_bytes); [intros H; discriminate H|].
    intros cm. apply mk_write_bytes, Hd. }
  intros cm Hcm. eapply sound_bind; [apply sound_send_cmd, Hcm|intros ak _].
  eapply sound_bind.
  { apply (sound_lift false (view_write ak) CE_IO (fun _ => True)); [intros H; discriminate H|intros; exact I]. }
  intros k _. destruct (negb _); [apply sound_fail|apply IH, Hws'].
Qed.

Lemma keeps_write_blocks mc : forall fuel addr data, bytes_ok data ->
  sound false (write_blocks fuel addr data mc) (fun _ => True).
Proof.
  induction fuel as [|f IH]; intros addr data Hb; cbn [write_blocks]; [apply sound_fail|].
  destruct (zlen data =? 0); [apply sound_ret; exact I|].
  eapply sound_bind.
  { apply (sound_lift false _ CE_IO (fun wm => snd wm = take MAX_WRITE data)); [intros H; discriminate H|].
    intros wm E. apply write_mem_new_inv in E. subst wm. reflexivity. }
  intros wm Hwm. eapply sound_bind.
  { apply (sound_lift false _ CE_IO (fun ws => w_data ws = snd wm)); [intros H; discriminate H|].
    intros ws. unfold write_chunks_init. destruct (_ <=? _); intros E; [discriminate E|].
    apply Ok_inj in E. subst ws. reflexivity. }
  intros ws Hws. eapply sound_bind.
  { apply keeps_write_loop. rewrite Hws, Hwm. apply bytes_ok_take, Hb. }
  intros _ _. apply IH. apply bytes_ok_drop, Hb.
Qed.

(* write: any address (a negative one is refused by verify_range), any data made of bytes *)
Lemma sound_ctl_write np a data : bytes_ok data -> sound np (ctl_write a data) (fun _ => True).
Proof.
  intros Hb. unfold ctl_write.
  eapply sound_bind; [apply sound_assert_open|intros _ _].
  eapply sound_bind; [apply sound_verify_range|intros _ [H0 H64]].
  eapply sound_bind; [apply sound_get_ctl|intros c Hc].
  apply sound_total; [apply keeps_write_blocks, Hb|].
  intros [c0 w0] _.
  destruct (write_blocks_total (c_max_cmd c) (S (length data)) a data c0 w0 H0 H64) as (x & s' & R & NP).
  rewrite R. exact NP.
Qed.

Lemma sound_write_reg np a len v : sound np (write_reg a len v) (fun _ => True).
Proof. unfold write_reg. apply sound_ctl_write, le_bytes_ok. Qed.

(* ================================================================================== *)
(* 6. the register maps, open / close, streaming                                      *)
(* ================================================================================== *)

Ltac sb_step :=
  match goal with
  | |- sound _ (read_reg _ 4) _ => apply sound_read_reg4
  | |- sound _ (read_reg _ 8) _ => apply sound_read_reg8
  | |- sound _ (reg_addr _ _) _ => apply sound_reg_addr
  | |- sound _ (sirm_reg _ _) _ => apply sound_reg_addr
  | |- sound _ get_ctl _ => apply sound_get_ctl
  | |- sound _ (write_reg _ _ _) _ => apply sound_write_reg
  | |- sound _ (w_ev _) _ => apply sound_w_ev
  end.
Ltac sb := eapply sound_bind; [sb_step|].

Lemma sound_h_abrm np : sound np h_abrm is_u64.
Proof.
  unfold h_abrm. sb. intros c Hc. destruct (c_abrm c) as [cap|] eqn:E.
  { apply sound_ret. exact (hi_abrm _ Hc _ E). }
  sb. intros cap Hcap. eapply sound_bind; [|intros _ _; apply sound_ret; exact Hcap].
  apply sound_upd_ctl. intros c0 [A B C D E0 F]. apply hinv_mk; try assumption.
  intros v Ev. apply sinj in Ev. subst v. exact Hcap.
Qed.

Lemma sound_abrm_sbrm np : sound np abrm_sbrm (fun s => is_u64 (fst s) /\ is_u64 (snd s)).
Proof.
  unfold abrm_sbrm. sb. intros a Ha. sb. intros ca _. sb. intros cap Hcap.
  apply sound_ret. cbn [fst snd]. auto.
Qed.

Lemma sound_h_sbrm np : sound np h_sbrm (fun s => is_u64 (fst s) /\ is_u64 (snd s)).
Proof.
  unfold h_sbrm. sb. intros c Hc. destruct (c_sbrm c) as [[a v]|] eqn:E.
  { apply sound_ret. cbn [fst snd]. exact (hi_sbrm _ Hc _ _ E). }
  eapply sound_bind; [apply sound_h_abrm|intros _ _].
  eapply sound_bind; [apply sound_abrm_sbrm|intros s Hs].
  eapply sound_bind; [|intros _ _; apply sound_ret; exact Hs].
  apply sound_upd_ctl. intros c0 [A B C D E0 F]. apply hinv_mk; try assumption.
  intros a v Ev. apply sinj in Ev. subst s. exact Hs.
Qed.

Lemma sound_sbrm_sirm_address np s :
  sound np (sbrm_sirm_address s) (fun oa => forall a, oa = Some a -> is_u64 a).
Proof.
  unfold sbrm_sirm_address. destruct (Z.odd (snd s)).
  - sb. intros ra _. sb. intros a Ha. apply sound_ret. intros a0 E. apply sinj in E. subst a0. exact Ha.
  - apply sound_ret. intros a E. discriminate E.
Qed.

Lemma sound_h_sirm np : sound np h_sirm is_u64.
Proof.
  unfold h_sirm. sb. intros c Hc. destruct (c_sirm c) as [a|] eqn:E.
  { apply sound_ret. exact (hi_sirm _ Hc _ E). }
  eapply sound_bind; [apply sound_h_sbrm|intros s _].
  eapply sound_bind; [apply sound_sbrm_sirm_address|intros oa Hoa].
  destruct oa as [a|]; [|apply sound_fail]. pose proof (Hoa a eq_refl) as Ha.
  eapply sound_bind; [|intros _ _; apply sound_ret; exact Ha].
  apply sound_upd_ctl. intros c0 [A B C D E0 F]. apply hinv_mk; assumption.
Qed.

(* the limits the handle adopts are whatever the device's SBRM holds - but they are 4-byte registers *)
Lemma sound_initialize_config np : sound np initialize_config (fun _ => True).
Proof.
  unfold initialize_config.
  eapply sound_bind; [apply sound_h_abrm|intros _ _].
  eapply sound_bind; [apply sound_abrm_sbrm|intros s _].
  sb. intros _ _. sb. intros a1 _. sb. intros mc Hmc. sb. intros a2 _. sb. intros ma Hma.
  apply sound_upd_ctl. intros c0 [A B C D E0 F]. apply hinv_mk; assumption.
Qed.

Lemma sound_open_err np (m : M unit) Q : sound np m Q ->
  sound np (fun s => match w_open_err (snd s) with Some e => (Err (ce_of_usb e), s) | None => m s end) Q.
Proof.
  intros Hm s x s' Is. destruct (w_open_err (snd s)); [|apply Hm, Is].
  intros E. apply pinj in E as [<- <-]. split; [intros _ H; discriminate H|]. split; [exact Is|].
  intros a H. discriminate H.
Qed.

Lemma sound_ctl_open np : sound np ctl_open (fun _ => True).
Proof.
  unfold ctl_open. sb. intros c Hc. destruct (c_opened c); [apply sound_ret; exact I|].
  sb. intros _ _. apply sound_open_err.
  eapply sound_bind.
  { apply sound_upd_ctl. intros c0 [A B C D E0 F]. apply hinv_mk; assumption. }
  intros _ _. sb. intros _ _. sb. intros _ _. apply sound_initialize_config.
Qed.

Lemma sound_ctl_close np : sound np ctl_close (fun _ => True).
Proof.
  unfold ctl_close. sb. intros c Hc. destruct (c_opened c); [|apply sound_ret; exact I].
  sb. intros _ _. apply sound_upd_ctl. intros c0 [A B C D E0 F]. apply hinv_mk; assumption.
Qed.

(* compute_sizes contains no panicking step at all (align! is a checked_add reported as InvalidDevice) and
   does not touch the state: no condition on its arguments is needed here.  (That the divisor is positive
   and the results cover the requirements is C15: P_C15.pts_facts / compute_sizes_covers, under
   0 <= k <= 31, which ctl_enable_streaming establishes with its [32 <=? exp] test.) *)
Lemma sound_align np w x al : sound np (align w x al) (fun _ => True).
Proof. unfold align. destruct (_ <? _); [apply sound_ret; exact I|apply sound_fail]. Qed.

Lemma sound_compute_sizes np al rl rp rt : sound np (compute_sizes al rl rp rt) (fun _ => True).
Proof.
  unfold compute_sizes.
  eapply sound_bind; [apply sound_align|intros pts _].
  apply (sound_bind np _ _ (fun _ => True));
    [destruct (_ <? _); [apply sound_ret; exact I|apply sound_fail]|intros count _].
  eapply sound_bind; [apply sound_align|intros f1 _].
  apply (sound_bind np _ _ (fun _ => True));
    [destruct (_ =? _); [apply sound_ret; exact I|apply sound_align]|intros ml _].
  apply (sound_bind np _ _ (fun _ => True));
    [destruct (_ =? _); [apply sound_ret; exact I|apply sound_align]|intros mt _].
  apply sound_ret. exact I.
Qed.

Lemma sound_sirm_reg np s o : sound np (sirm_reg s o) (fun _ => True).
Proof. apply sound_reg_addr. Qed.

Ltac sbs := sb; intros ? ?.

Lemma sound_ctl_enable_streaming np : sound np ctl_enable_streaming (fun _ => True).
Proof.
  unfold ctl_enable_streaming.
  eapply sound_bind; [apply sound_h_sirm|intros sirm _].
  sbs. sbs.
  apply (sound_bind np _ _ (fun _ => True));
    [destruct (Z.odd _); [apply sound_write_reg|apply sound_ret; exact I]|intros _ _].
  sbs. sbs. cbv zeta. destruct (32 <=? _); [apply sound_fail|].
  sbs. sbs. sbs. sbs. sbs. sbs.
  eapply sound_bind; [apply sound_compute_sizes|intros p _].
  do 12 sbs. apply sound_write_reg.
Qed.

Lemma sound_ctl_disable_streaming np : sound np ctl_disable_streaming (fun _ => True).
Proof.
  unfold ctl_disable_streaming.
  eapply sound_bind; [apply sound_h_sirm|intros sirm _]. sbs. apply sound_write_reg.
Qed.

Lemma sound_stream_params np : sound np stream_params (fun l => Forall is_u32 l).
Proof.
  unfold stream_params. sbs.
  eapply sound_bind; [apply sound_abrm_sbrm|intros s _].
  eapply sound_bind; [apply sound_sbrm_sirm_address|intros oa _].
  destruct oa as [sirm|]; [|apply sound_fail].
  do 13 sbs. apply sound_ret. repeat (constructor; [assumption|]). constructor.
Qed.

(* ================================================================================== *)
(* 7. every operation, every sequence                                                 *)
(* ================================================================================== *)

Inductive op :=
| OOpen | OClose | ORead (a n : Z) | OWrite (a : Z) (data : list Z)
| OAbrm | OSbrm | OSirm | OEnable | ODisable | OStreamParams.

(* the caller's side of the contract: write data are bytes (&[u8]) *)
Definition op_ok (o : op) : Prop := match o with OWrite _ data => bytes_ok data | _ => True end.

Inductive okind := KOk | KErr (e : Z) | KPanic.

Definition kind_of {A} (x : outcome A) : okind :=
  match x with Ok _ => KOk | Err e => KErr e | Panic => KPanic end.

Definition run_m {A} (m : M A) (s : st) : okind * st := let '(x, s') := m s in (kind_of x, s').

Definition run_op (o : op) : st -> okind * st :=
  match o with
  | OOpen => run_m ctl_open
  | OClose => run_m ctl_close
  | ORead a n => run_m (ctl_read a n)
  | OWrite a data => run_m (ctl_write a data)
  | OAbrm => run_m h_abrm
  | OSbrm => run_m h_sbrm
  | OSirm => run_m h_sirm
  | OEnable => run_m ctl_enable_streaming
  | ODisable => run_m ctl_disable_streaming
  | OStreamParams => run_m stream_params
  end.

Fixpoint run_ops (os : list op) (s : st) : list okind * st :=
  match os with
  | [] => ([], s)
  | o :: r => let '(k, s1) := run_op o s in let '(ks, s2) := run_ops r s1 in (k :: ks, s2)
  end.

Lemma run_m_sound {A} (m : M A) Q s : sound true m Q -> inv s ->
  fst (run_m m s) <> KPanic /\ inv (snd (run_m m s)).
Proof.
  intros Hm I. unfold run_m. destruct (m s) as [x s'] eqn:E. cbn [fst snd].
  destruct (Hm _ _ _ I E) as (NP & I1 & _). split; [|exact I1].
  destruct x; cbn [kind_of]; try discriminate. exfalso. apply (NP eq_refl). reflexivity.
Qed.

(* every operation of the model, with what an Ok result is known to be *)
Theorem every_operation_sound :
  sound true ctl_open (fun _ => True) /\
  sound true ctl_close (fun _ => True) /\
  (forall a n, sound true (ctl_read a n) (fun d => bytes_ok d /\ (0 <= n -> zlen d = n))) /\
  (forall a data, bytes_ok data -> sound true (ctl_write a data) (fun _ => True)) /\
  (forall a, sound true (read_reg a 4) is_u32) /\
  (forall a, sound true (read_reg a 8) is_u64) /\
  sound true h_abrm is_u64 /\
  sound true h_sbrm (fun s => is_u64 (fst s) /\ is_u64 (snd s)) /\
  sound true h_sirm is_u64 /\
  sound true ctl_enable_streaming (fun _ => True) /\
  sound true ctl_disable_streaming (fun _ => True) /\
  sound true stream_params (fun l => Forall is_u32 l).
Proof.
  split; [apply sound_ctl_open|]. split; [apply sound_ctl_close|].
  split; [intros; apply sound_ctl_read|]. split; [intros; apply sound_ctl_write; assumption|].
  split; [intros; apply sound_read_reg4|]. split; [intros; apply sound_read_reg8|].
  split; [apply sound_h_abrm|]. split; [apply sound_h_sbrm|]. split; [apply sound_h_sirm|].
  split; [apply sound_ctl_enable_streaming|]. split; [apply sound_ctl_disable_streaming|].
  apply sound_stream_params.
Qed.

(* (a) no operation panics, (b) the invariant and byte-well-formedness hold again afterwards;
   NO hypothesis on the plans of the world *)
Theorem every_operation_total o c w : op_ok o -> hinv c -> wbytes w ->
  fst (run_op o (c, w)) <> KPanic /\ hinv (fst (snd (run_op o (c, w)))) /\ wbytes (snd (snd (run_op o (c, w)))).
Proof.
  intros Ho Hc Hw. assert (I : inv (c, w)) by (split; assumption).
  assert (G : fst (run_op o (c, w)) <> KPanic /\ inv (snd (run_op o (c, w)))).
  { destruct o; cbn [run_op op_ok] in *.
    - eapply run_m_sound; [apply sound_ctl_open|exact I].
    - eapply run_m_sound; [apply sound_ctl_close|exact I].
    - eapply run_m_sound; [apply sound_ctl_read|exact I].
    - eapply run_m_sound; [apply sound_ctl_write, Ho|exact I].
    - eapply run_m_sound; [apply sound_h_abrm|exact I].
    - eapply run_m_sound; [apply sound_h_sbrm|exact I].
    - eapply run_m_sound; [apply sound_h_sirm|exact I].
    - eapply run_m_sound; [apply sound_ctl_enable_streaming|exact I].
    - eapply run_m_sound; [apply sound_ctl_disable_streaming|exact I].
    - eapply run_m_sound; [apply sound_stream_params|exact I]. }
  destruct G as [G1 [G2 G3]]. auto.
Qed.

Lemma run_ops_total : forall os s, Forall op_ok os -> inv s ->
  Forall (fun k => k <> KPanic) (fst (run_ops os s)) /\ inv (snd (run_ops os s)).
Proof.
  induction os as [|o r IH]; intros [c w] Hos I; cbn [run_ops].
  - cbn [fst snd]. split; [constructor|exact I].
  - inversion Hos as [|? ? Ho Hr]; subst. destruct I as [Hc Hw]. cbn [fst snd] in Hc, Hw.
    destruct (every_operation_total o c w Ho Hc Hw) as (K & Hc1 & Hw1).
    destruct (run_op o (c, w)) as [k s1]. cbn [fst snd] in K, Hc1, Hw1.
    destruct (IH s1 Hr (conj Hc1 Hw1)) as [F I2].
    destruct (run_ops r s1) as [ks s2]. cbn [fst snd] in *. split; [constructor; assumption|exact I2].
Qed.

(* any sequence of operations on a freshly created handle, against any device that sends bytes:
   no operation panics; the invariant holds at the end - and, the statement being for ALL sequences,
   after every prefix (next theorem) *)
Theorem sequences_total os w : wbytes w -> Forall op_ok os ->
  Forall (fun k => k <> KPanic) (fst (run_ops os (ctl_init, w))) /\
  hinv (fst (snd (run_ops os (ctl_init, w)))) /\ wbytes (snd (snd (run_ops os (ctl_init, w)))).
Proof.
  intros Hw Hos. destruct (run_ops_total os (ctl_init, w) Hos (conj hinv_init Hw)) as [A [B C]]. auto.
Qed.

Lemma Forall_firstn' {A} (P : A -> Prop) k (l : list A) : Forall P l -> Forall P (firstn k l).
Proof. apply Forall_firstn. Qed.

Theorem sequences_invariant_after_each os k w : wbytes w -> Forall op_ok os ->
  hinv (fst (snd (run_ops (firstn k os) (ctl_init, w)))) /\
  wbytes (snd (snd (run_ops (firstn k os) (ctl_init, w)))).
Proof.
  intros Hw Hos. apply (sequences_total (firstn k os) w Hw). apply Forall_firstn', Hos.
Qed.

(* the state after the first k operations of a sequence is the state after that prefix run alone, so the
   theorem above does speak about the intermediate states of the long run *)
Lemma run_ops_app : forall os1 os2 s,
  run_ops (os1 ++ os2) s =
  (fst (run_ops os1 s) ++ fst (run_ops os2 (snd (run_ops os1 s))), snd (run_ops os2 (snd (run_ops os1 s)))).
Proof.
  induction os1 as [|o r IH]; intros os2 s; cbn [run_ops app].
  - cbn [fst snd app]. destruct (run_ops os2 s); reflexivity.
  - destruct (run_op o s) as [k s1]. rewrite IH. destruct (run_ops r s1) as [ks s2]. cbn [fst snd].
    destruct (run_ops os2 s2) as [ks2 s3]. reflexivity.
Qed.

(* ================================================================================== *)
(* 8. non-vacuity: a concrete hostile device                                          *)
(* ================================================================================== *)

(* Memory: the ABRM at 0 (SBRM address register 472 -> 4096), an SBRM at 4096 whose maximum command /
   acknowledge length registers (offsets 20, 24) hold 0xFFFFFFFF, U3VCP capability with the SIRM bit and a
   SIRM address of 0xFFFFFFFFFFFFFFF0.  The first six transactions (those of open) are answered honestly,
   so the handle adopts the absurd limits; then: raw garbage, a libusb error on send, a libusb error on
   receive, pending acknowledges for ever, an acknowledge truncated in its header, an acknowledge with a
   wrong request id, an acknowledge that claims more payload than it carries. *)
Definition hostile_abrm : list Z :=
  repeat 0 472 ++ le_bytes 8 4096 ++ repeat 0 32.
Definition hostile_sbrm : list Z :=
  repeat 0 4 ++ le_bytes 8 1 ++ repeat 0 8 ++ le_bytes 4 4294967295 ++ le_bytes 4 4294967295 ++
  repeat 0 4 ++ le_bytes 8 18446744073709551600 ++ repeat 0 8.

Definition hostile_plans : list txplan :=
  repeat default_plan 6 ++
  [ {| tp_send_err := None; tp_replies := [RRaw [1; 2; 3; 255; 0; 77]] |};
    {| tp_send_err := Some 4; tp_replies := [] |};
    {| tp_send_err := None; tp_replies := [RRecvErr 6] |};
    {| tp_send_err := None; tp_replies := [RPending 10; RPending 10; RPending 10; RPending 10; RConform []] |};
    {| tp_send_err := None; tp_replies := [RConform [ETrunc 7]] |};
    {| tp_send_err := None; tp_replies := [RConform [ESet8 10 99]] |};
    {| tp_send_err := None; tp_replies := [RConform [ESet16 8 4000; EExt [1; 2; 3]]] |} ].

Definition hostile : world :=
  {| w_segs := [(0, hostile_abrm); (4096, hostile_sbrm)]; w_plans := hostile_plans; w_replies := [];
     w_cur_ack := []; w_cur_rid := 0; w_log := []; w_open_err := None; w_writes := [] |}.

Definition hostile_ops : list op :=
  [ORead 0 4; OOpen; ORead 0 16; OWrite 0 [1; 2]; ORead 0 16; OSirm; ORead 0 16; ORead 0 16; OEnable;
   ORead 472 8; OEnable; OClose; ORead 0 4].

Fixpoint bytesb (l : list Z) : bool :=
  match l with [] => true | b :: r => is_byteb b && bytesb r end.
Definition edit_bytesb (e : edit) : bool :=
  match e with ESet8 _ v => is_byteb v | EExt bs => bytesb bs | _ => true end.
Definition reply_bytesb (r : reply) : bool :=
  match r with RRaw bs => bytesb bs | RConform es => forallb edit_bytesb es | _ => true end.
Definition plan_bytesb (p : txplan) : bool := forallb reply_bytesb (tp_replies p).
Definition wbytesb (w : world) : bool :=
  forallb (fun s => bytesb (snd s)) (w_segs w) && forallb plan_bytesb (w_plans w) &&
  forallb reply_bytesb (w_replies w) && bytesb (w_cur_ack w).

Lemma is_byteb_ok b : is_byteb b = true -> is_byte b.
Proof.
  unfold is_byteb. intros H. apply andb_true_iff in H as [A B]. apply Z.leb_le in A. apply Z.ltb_lt in B.
  split; assumption.
Qed.

Lemma bytesb_ok l : bytesb l = true -> bytes_ok l.
Proof.
  induction l as [|b r IH]; cbn [bytesb]; intros H; [constructor|].
  apply andb_true_iff in H as [H1 H2]. constructor; [apply is_byteb_ok, H1|apply IH, H2].
Qed.

Lemma forallb_Forall {A} (f : A -> bool) (P : A -> Prop) l :
  (forall x, f x = true -> P x) -> forallb f l = true -> Forall P l.
Proof.
  intros F. induction l as [|x r IH]; cbn [forallb]; intros H; [constructor|].
  apply andb_true_iff in H as [H1 H2]. constructor; [apply F, H1|apply IH, H2].
Qed.

Lemma edit_bytesb_ok e : edit_bytesb e = true -> edit_bytes e.
Proof. destruct e; cbn [edit_bytesb edit_bytes]; auto using is_byteb_ok, bytesb_ok. Qed.

Lemma reply_bytesb_ok r : reply_bytesb r = true -> reply_bytes r.
Proof.
  destruct r; cbn [reply_bytesb reply_bytes]; auto using bytesb_ok.
  apply forallb_Forall, edit_bytesb_ok.
Qed.

(* a decidable form of the hypothesis, for concrete worlds *)
Lemma wbytesb_ok w : wbytesb w = true -> wbytes w.
Proof.
  unfold wbytesb. intros H. apply andb_true_iff in H as [H H4]. apply andb_true_iff in H as [H H3].
  apply andb_true_iff in H as [H1 H2]. constructor.
  - revert H1. apply forallb_Forall. intros x. apply bytesb_ok.
  - revert H2. apply forallb_Forall. intros p. unfold plan_bytesb, plan_bytes.
    apply forallb_Forall, reply_bytesb_ok.
  - revert H3. apply forallb_Forall, reply_bytesb_ok.
  - apply bytesb_ok, H4.
Qed.

Lemma hostile_wbytes : wbytes hostile.
Proof. apply wbytesb_ok. vm_compute. reflexivity. Qed.

Lemma hostile_ops_ok : Forall op_ok hostile_ops.
Proof. unfold hostile_ops. repeat (constructor; [cbn [op_ok]; try exact I; apply bytesb_ok; reflexivity|]). constructor. Qed.

(* the same device with limits of 0 in its SBRM, answering honestly otherwise *)
Definition hostile0 : world :=
  {| w_segs := [(0, hostile_abrm);
                (4096, repeat 0 4 ++ le_bytes 8 1 ++ repeat 0 8 ++ le_bytes 4 0 ++ le_bytes 4 0 ++ repeat 0 20)];
     w_plans := []; w_replies := []; w_cur_ack := []; w_cur_rid := 0; w_log := []; w_open_err := None;
     w_writes := [] |}.

(* NOT a device: the top "byte" of its maximum acknowledge length register is 2^48, so that the register
   reads as 2^72 *)
Definition not_bytes : world :=
  {| w_segs := [(0, hostile_abrm);
                (4096, repeat 0 4 ++ le_bytes 8 1 ++ repeat 0 8 ++ le_bytes 4 1024 ++ [0; 0; 0; 2 ^ 48] ++ repeat 0 20)];
     w_plans := []; w_replies := []; w_cur_ack := []; w_cur_rid := 0; w_log := []; w_open_err := None;
     w_writes := [] |}.

(* the hostile device satisfies the hypotheses of the theorems, makes the handle adopt limits of
   0xFFFFFFFF, and every one of its attacks ends in an error of the expected class, never in a panic;
   the handle keeps working in between (the read of 472 succeeds after seven failed operations) *)
Lemma hostile_example :
  wbytes hostile /\ Forall op_ok hostile_ops /\
  fst (run_ops hostile_ops (ctl_init, hostile)) =
    [KErr CE_NOT_OPENED; KOk; KErr CE_IO; KErr CE_DISCONNECTED; KErr CE_TIMEOUT; KErr CE_IO; KErr CE_IO;
     KErr CE_IO; KErr CE_IO; KOk; KErr CE_IO; KOk; KErr CE_NOT_OPENED] /\
  c_max_ack (fst (snd (run_ops hostile_ops (ctl_init, hostile)))) = 4294967295 /\
  c_max_cmd (fst (snd (run_ops hostile_ops (ctl_init, hostile)))) = 4294967295.
Proof.
  split; [exact hostile_wbytes|]. split; [exact hostile_ops_ok|]. vm_compute. auto.
Qed.

(* limits of 0: open succeeds, every transfer is refused with an error *)
Lemma hostile0_example :
  wbytes hostile0 /\
  fst (run_ops [OOpen; ORead 0 4; OWrite 0 [1]; OSirm; OClose] (ctl_init, hostile0)) =
    [KOk; KErr CE_IO; KErr CE_IO; KErr CE_IO; KOk].
Proof. split; [apply wbytesb_ok; vm_compute; reflexivity|vm_compute; reflexivity]. Qed.

(* the hypothesis is not decoration: the model's byte strings are lists of integers, and a "device" holding
   an integer that is not a byte makes the u32 limit register read as 2^72, which the usize subtraction of
   maximum_read_length does not survive.  No such device exists (the transport delivers u8), which is
   exactly what [wbytes] says. *)
Lemma wbytes_needed :
  ~ wbytes not_bytes /\ fst (run_ops [OOpen; ORead 0 4] (ctl_init, not_bytes)) = [KOk; KPanic].
Proof.
  split; [|vm_compute; reflexivity].
  intros H. pose proof (wb_segs _ H) as S. unfold not_bytes in S. cbn [w_segs] in S.
  apply Forall_inv_tail, Forall_inv in S. cbn [snd] in S.
  unfold bytes_ok in S. rewrite !Forall_app in S. destruct S as (_ & _ & _ & _ & S & _).
  apply Forall_inv_tail, Forall_inv_tail, Forall_inv_tail, Forall_inv in S. unfold is_byte in S.
  change (2 ^ 48) with 281474976710656 in S. lia.
Qed.

(* ================================================================================== *)
(* 9. the statements exported to props/C07.v                                          *)
(* ================================================================================== *)

Lemma device_side_bytes :
  (forall w cmd, wbytes w -> bytes_ok cmd ->
     bytes_ok (fst (conform w cmd)) /\ wbytes (snd (conform w cmd))) /\
  (forall w cmd, wbytes w -> bytes_ok cmd -> wbytes (snd (on_send w cmd))) /\
  (forall w n, wbytes w ->
     wbytes (snd (on_recv w n)) /\ (forall bs, fst (on_recv w n) = Ok bs -> bytes_ok bs)) /\
  (forall cm id, cmd_bytes cm -> bytes_ok (serialize_vec cm id)) /\
  (forall a d cm, bytes_ok d -> mk_write a d = Ok cm -> cmd_bytes cm) /\
  (forall bs a, bytes_ok bs -> parse_ack bs = Ok a -> bytes_ok (a_raw_scd a)) /\
  (forall a d, bytes_ok (a_raw_scd a) -> view_data a = Ok d -> bytes_ok d).
Proof.
  split; [exact conform_bytes|]. split; [exact on_send_bytes|]. split; [exact on_recv_bytes|].
  split; [exact serialize_vec_bytes|]. split; [exact mk_write_bytes|].
  split; [exact parse_ack_scd_bytes|exact view_data_bytes].
Qed.

(* P_C07.ctl_read_total without its side condition: the invariant supplies it (any world here) *)
Lemma ctl_read_total_inv c w a n : hinv c ->
  exists x s', ctl_read a n (c, w) = (x, s') /\ x <> Panic /\ (forall d, x = Ok d -> 0 <= n -> zlen d = n).
Proof.
  intros Hc. apply ctl_read_total. pose proof (hi_ack _ Hc) as U. unfold is_u32 in U.
  rewrite P32 in U. rewrite P64. lia.
Qed.

Lemma op_no_panic o c w : op_ok o -> hinv c -> wbytes w -> fst (run_op o (c, w)) <> KPanic.
Proof. intros Ho Hc Hw. apply (every_operation_total o c w Ho Hc Hw). Qed.

Lemma op_invariant_kept o c w : op_ok o -> hinv c -> wbytes w ->
  hinv (fst (snd (run_op o (c, w)))) /\ wbytes (snd (snd (run_op o (c, w)))).
Proof. intros Ho Hc Hw. apply (every_operation_total o c w Ho Hc Hw). Qed.
