(* C01, binary32 path: narrowing the widening of any non-NaN binary32 pattern gives the pattern
   back (so a 4-byte float register written with an f32-representable value reads back exactly).
   widen / narrow are the integer-arithmetic definitions of model/RegCodec.v. *)
From Cam Require Import Outcome Bytes Mem BitField RegCodec P_C01.

Definition is_nan32 (b : Z) : bool := (f32_exp b =? 255) && negb (f32_man b =? 0).

Lemma f32_fields b : 0 <= b < 2 ^ 32 ->
  b = f32_sign b * 2 ^ 31 + f32_exp b * 2 ^ 23 + f32_man b /\
  0 <= f32_sign b <= 1 /\ 0 <= f32_exp b <= 255 /\ 0 <= f32_man b < 2 ^ 23.
Proof. intros H. unfold f32_sign, f32_exp, f32_man. ev_pows. dlia. Qed.

Lemma f64_fields_of s e m : 0 <= s <= 1 -> 0 <= e < 2 ^ 11 -> 0 <= m < 2 ^ 52 ->
  f64_sign (s * 2 ^ 63 + e * 2 ^ 52 + m) = s /\ f64_exp (s * 2 ^ 63 + e * 2 ^ 52 + m) = e /\
  f64_man (s * 2 ^ 63 + e * 2 ^ 52 + m) = m.
Proof. intros Hs He Hm. unfold f64_sign, f64_exp, f64_man. ev_pows. dlia. Qed.

Lemma rne_shift_exact q k : 0 < k -> 0 <= q -> rne_shift (q * 2 ^ k) k = q.
Proof.
  intros Hk Hq. unfold rne_shift. destruct (k <=? 0) eqn:E; [lia|].
  assert (P : 0 < 2 ^ k) by (apply Z.pow_pos_nonneg; lia).
  rewrite Z.div_mul by lia. rewrite Z.mod_mul by lia.
  assert (H : 0 < 2 ^ (k - 1)) by (apply Z.pow_pos_nonneg; lia).
  destruct (2 ^ (k - 1) <? 0) eqn:A; [lia|]. destruct (0 =? 2 ^ (k - 1)) eqn:B; [lia|]. reflexivity.
Qed.

Lemma narrow_of s e m : 0 <= s <= 1 -> 0 <= e < 2047 -> 0 <= m < 2 ^ 52 ->
  narrow (s * 2 ^ 63 + e * 2 ^ 52 + m) =
  (let sig := if e =? 0 then m else 2 ^ 52 + m in
   let ee := if e =? 0 then 1 else e in
   let t := ee - 896 in
   if 1 <=? t then
     let r := rne_shift sig 29 in
     let bits := (t - 1) * 2 ^ 23 + r in
     if 255 * 2 ^ 23 <=? bits then s * 2 ^ 31 + 255 * 2 ^ 23 else s * 2 ^ 31 + bits
   else
     let sh := 29 + (1 - t) in
     if 80 <? sh then s * 2 ^ 31 else s * 2 ^ 31 + rne_shift sig sh).
Proof.
  intros Hs He Hm. unfold narrow.
  destruct (f64_fields_of s e m Hs ltac:(change (2 ^ 11) with 2048; lia) Hm) as [E1 [E2 E3]].
  rewrite E1, E2, E3. destruct (e =? 2047) eqn:E; [lia|]. reflexivity.
Qed.

Lemma f32_roundtrip b : 0 <= b < 2 ^ 32 -> is_nan32 b = false -> narrow (widen b) = b.
Proof.
  intros Hb Hn. destruct (f32_fields b Hb) as [Eb [Hs [He Hm]]].
  unfold is_nan32 in Hn. unfold widen.
  set (s := f32_sign b) in *. set (e := f32_exp b) in *. set (m := f32_man b) in *.
  destruct (e =? 255) eqn:E255.
  - (* infinity *)
    apply Z.eqb_eq in E255. cbn [andb] in Hn. apply negb_false_iff, Z.eqb_eq in Hn. rewrite Hn.
    change (0 =? 0) with true. cbv iota.
    unfold narrow. destruct (f64_fields_of s 2047 0 Hs ltac:(change (2 ^ 11) with 2048; lia) ltac:(change (2 ^ 52) with 4503599627370496; lia))
      as [E1 [E2 E3]].
    rewrite Z.add_0_r in E1, E2, E3. rewrite E1, E2, E3. cbn [Z.eqb Pos.eqb]. lia.
  - apply Z.eqb_neq in E255. destruct (e =? 0) eqn:E0.
    + apply Z.eqb_eq in E0. destruct (m =? 0) eqn:M0.
      * (* zero *)
        apply Z.eqb_eq in M0. replace (s * 2 ^ 63) with (s * 2 ^ 63 + 0 * 2 ^ 52 + 0) by lia.
        rewrite narrow_of by (try lia; change (2 ^ 52) with 4503599627370496; lia). cbv zeta.
        cbn [Z.eqb Z.leb Z.sub Z.add Z.opp Z.ltb Z.compare Pos.compare Pos.compare_cont Z.pos_sub Pos.pred_double Pos.add Pos.succ].
        lia.
      * (* subnormal: normalised by widen, denormalised exactly by narrow *)
        apply Z.eqb_neq in M0. assert (Hm0 : 0 < m) by lia.
        pose proof (Z.log2_spec m Hm0) as [L1 L2]. pose proof (Z.log2_nonneg m) as L0.
        assert (Lk : Z.log2 m < 23) by (apply Z.log2_lt_pow2; lia).
        set (k := Z.log2 m) in *.
        assert (P1 : 0 < 2 ^ k) by (apply Z.pow_pos_nonneg; lia).
        assert (P2 : 0 < 2 ^ (52 - k)) by (apply Z.pow_pos_nonneg; lia).
        assert (P3 : 2 ^ k * 2 ^ (52 - k) = 2 ^ 52) by (rewrite <- Z.pow_add_r by lia; f_equal; lia).
        replace (Z.succ k) with (k + 1) in L2 by lia. rewrite Z.pow_add_r in L2 by lia. change (2 ^ 1) with 2 in L2.
        assert (Hman : 0 <= (m - 2 ^ k) * 2 ^ (52 - k) < 2 ^ 52) by nia.
        rewrite narrow_of; [| lia | lia | exact Hman]. cbv zeta.
        destruct (k - 149 + 1023 =? 0) eqn:Z0; [lia|].
        replace (2 ^ 52 + (m - 2 ^ k) * 2 ^ (52 - k)) with (m * 2 ^ (52 - k)) by nia.
        replace (k - 149 + 1023 - 896) with (k - 22) by lia.
        destruct (1 <=? k - 22) eqn:T; [lia|].
        replace (29 + (1 - (k - 22))) with (52 - k) by lia.
        destruct (80 <? 52 - k) eqn:S80; [lia|].
        rewrite rne_shift_exact by lia. lia.
    + (* normal *)
      apply Z.eqb_neq in E0.
      replace (s * 2 ^ 63 + (e - 127 + 1023) * 2 ^ 52 + m * 2 ^ 29)
        with (s * 2 ^ 63 + (e + 896) * 2 ^ 52 + m * 2 ^ 29) by lia.
      assert (Hm29 : 0 <= m * 2 ^ 29 < 2 ^ 52).
      { change (2 ^ 52) with (2 ^ 23 * 2 ^ 29). change (2 ^ 29) with 536870912. change (2 ^ 23) with 8388608 in *. lia. }
      rewrite narrow_of by (try lia; exact Hm29). cbv zeta.
      destruct (e + 896 =? 0) eqn:Z0; [lia|].
      replace (e + 896 - 896) with e by lia. destruct (1 <=? e) eqn:T; [|lia].
      replace (2 ^ 52 + m * 2 ^ 29) with ((2 ^ 23 + m) * 2 ^ 29)
        by (change (2 ^ 52) with (2 ^ 23 * 2 ^ 29); lia).
      rewrite rne_shift_exact by (change (2 ^ 23) with 8388608; lia).
      destruct (255 * 2 ^ 23 <=? (e - 1) * 2 ^ 23 + (2 ^ 23 + m)) eqn:O.
      { change (2 ^ 23) with 8388608 in *. lia. }
      lia.
Qed.

(* node level: a 4-byte float register written with widen x holds the image of x and reads back widen x *)
Lemma f32_register_roundtrip x e : 0 <= x < 2 ^ 32 -> is_nan32 x = false ->
  exists img, bytes_from_float (widen x) 4 e = Ok img /\ img = order e (le_bytes 4 x) /\
              float_from_slice img e = Ok (widen x).
Proof.
  intros Hx Hn. unfold bytes_from_float. cbn [Z.eqb Pos.eqb]. rewrite (f32_roundtrip x Hx Hn).
  eexists. split; [reflexivity|]. split; [reflexivity|].
  unfold float_from_slice. rewrite zlen_order, zlen_le_bytes. cbn [Z.of_nat Pos.of_succ_nat Pos.succ Z.eqb Pos.eqb].
  rewrite order_involutive. rewrite of_le_le_bytes; [reflexivity|]. change (256 ^ Z.of_nat 4) with (2 ^ 32). exact Hx.
Qed.
