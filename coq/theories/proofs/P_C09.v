From Cam Require Import Outcome Bytes Chunks Cmd CmdLayout.

Lemma chk_u_ok' w z : 0 <= z < 2 ^ w -> chk_u w z = Ok z.
Proof.
  intros H. unfold chk_u, in_u.
  destruct (0 <=? z) eqn:E1; [|lia]. destruct (z <? 2 ^ w) eqn:E2; [|lia]. reflexivity.
Qed.

Lemma wrapu_small' w z : 0 <= z < 2 ^ w -> wrapu w z = z.
Proof. intros. unfold wrapu. apply Z.mod_small. lia. Qed.

(* ---- abstraction of a constructed command ----------------------------- *)

Definition abs_cmd (c : cmd) : dcmd :=
  match c with
  | CRead a n => DRead a n
  | CWrite w => DWrite (wm_addr w) (wm_data w)
  | CReadStacked es _ _ => DReadStacked es
  | CWriteStacked es _ _ => DWriteStacked (map (fun w => (wm_addr w, wm_data w)) es)
  end.

(* ---- explicit byte image (concatenation form) -------------------------- *)

Definition enc_read_entry (e : Z * Z) : list Z :=
  le_bytes 8 (fst e) ++ le_bytes 2 0 ++ le_bytes 2 (snd e).

Definition enc_write_entry (w : write_mem) : list Z :=
  le_bytes 8 (wm_addr w) ++ le_bytes 2 0 ++ le_bytes 2 (wm_data_len w) ++ wm_data w.

Definition enc_scd (c : cmd) : list Z :=
  match c with
  | CRead a n => enc_read_entry (a, n)
  | CWrite w => le_bytes 8 (wm_addr w) ++ wm_data w
  | CReadStacked es _ _ => flat_map enc_read_entry es
  | CWriteStacked es _ _ => flat_map enc_write_entry es
  end.

Definition enc_header (c : cmd) (id : Z) : list Z :=
  le_bytes 4 MAGIC ++ le_bytes 2 FLAG_REQUEST_ACK ++ le_bytes 2 (scd_kind_id c) ++
  le_bytes 2 (scd_len c) ++ le_bytes 2 id.

Definition enc (c : cmd) (id : Z) : list Z := enc_header c id ++ enc_scd c.

(* ---- Vec sink: serialize = enc ----------------------------------------- *)

Definition vs (l : list Z) : sink := {| s_rev := rev l; s_cap := None |}.

Lemma rev_append_revl (bs l : list Z) : rev_append bs (rev l) = rev (l ++ bs).
Proof. now rewrite rev_append_rev, rev_app_distr. Qed.

Lemma s_out_vs l : s_out (vs l) = l.
Proof. unfold s_out, vs, rev'. cbn [s_rev]. rewrite <- rev_alt. apply rev_involutive. Qed.

Lemma write_le_vs n v l : write_le n v (vs l) = vs (l ++ le_bytes n v).
Proof. unfold write_le, sink_write, vs. cbn [s_cap s_rev fst]. now rewrite rev_append_revl. Qed.

Lemma write_all_vs bs l : write_all bs (vs l) = (Ok tt, vs (l ++ bs)).
Proof.
  unfold write_all, sink_write, vs. cbn [s_cap s_rev].
  destruct (zlen bs <? zlen bs) eqn:E; [lia|]. now rewrite rev_append_revl.
Qed.

Lemma ser_read_entry_vs e l : ser_read_entry e (vs l) = vs (l ++ enc_read_entry e).
Proof.
  unfold ser_read_entry, enc_read_entry. rewrite !write_le_vs. now rewrite <- !app_assoc.
Qed.

Lemma ser_read_entries_vs es : forall l,
  fold_left (fun s e => ser_read_entry e s) es (vs l) = vs (l ++ flat_map enc_read_entry es).
Proof.
  induction es as [|e es IH]; intros l; cbn [fold_left flat_map].
  - now rewrite app_nil_r.
  - rewrite ser_read_entry_vs, IH. now rewrite <- app_assoc.
Qed.

Lemma ser_write_entries_vs es : forall l,
  ser_write_entries es (vs l) = (Ok tt, vs (l ++ flat_map enc_write_entry es)).
Proof.
  induction es as [|w es IH]; intros l; cbn [ser_write_entries flat_map].
  - now rewrite app_nil_r.
  - rewrite !write_le_vs, write_all_vs, IH. unfold enc_write_entry.
    now rewrite <- !app_assoc.
Qed.

Lemma serialize_vs c id : serialize c id vec_sink = (Ok tt, vs (enc c id)).
Proof.
  unfold serialize, ser_header. change vec_sink with (vs []).
  rewrite !write_le_vs. cbn [app].
  unfold enc. replace (le_bytes 4 MAGIC ++ le_bytes 2 FLAG_REQUEST_ACK ++ le_bytes 2 (scd_kind_id c) ++
                        le_bytes 2 (scd_len c) ++ le_bytes 2 id) with (enc_header c id) by reflexivity.
  set (h := (((le_bytes 4 MAGIC ++ le_bytes 2 FLAG_REQUEST_ACK) ++ le_bytes 2 (scd_kind_id c)) ++
             le_bytes 2 (scd_len c)) ++ le_bytes 2 id).
  assert (Hh : h = enc_header c id) by (subst h; unfold enc_header; now rewrite <- !app_assoc).
  rewrite Hh. destruct c as [a n|w|es len ack|es len ack]; cbn [ser_scd enc_scd].
  - now rewrite ser_read_entry_vs.
  - now rewrite write_le_vs, write_all_vs, <- app_assoc.
  - now rewrite ser_read_entries_vs.
  - now rewrite ser_write_entries_vs.
Qed.

Lemma serialize_vec_enc c id : serialize_vec c id = enc c id.
Proof. unfold serialize_vec. rewrite serialize_vs. cbn [snd]. apply s_out_vs. Qed.

(* ---- lengths ------------------------------------------------------------ *)

Lemma zlen_enc_read_entry e : zlen (enc_read_entry e) = 12.
Proof. unfold enc_read_entry. rewrite !zlen_app, !zlen_le_bytes. lia. Qed.

Lemma zlen_flat_read es : zlen (flat_map enc_read_entry es) = 12 * zlen es.
Proof.
  induction es as [|e es IH]; cbn [flat_map]; [reflexivity|].
  rewrite zlen_app, zlen_enc_read_entry, IH, zlen_cons. lia.
Qed.

Lemma fold_read_len es : forall acc, fold_left (fun acc (_ : Z * Z) => acc + 12) es acc = acc + 12 * zlen es.
Proof.
  induction es as [|e es IH]; intros acc; cbn [fold_left]; [unfold zlen; cbn [length]; lia|].
  rewrite IH, zlen_cons. lia.
Qed.

Definition wm_ok (w : write_mem) : Prop :=
  wm_data_len w = zlen (wm_data w) /\ wm_len w = zlen (wm_data w) + 8 /\ zlen (wm_data w) <= 65527.

Lemma mk_write_mem_ok a d w : mk_write_mem a d = Ok w -> wm_ok w /\ wm_addr w = a /\ wm_data w = d.
Proof.
  unfold mk_write_mem, into_scd_len.
  destruct (zlen d <? 2 ^ 16) eqn:E1; cbn [bind]; [|discriminate].
  destruct (zlen d + 8 <? 2 ^ 16) eqn:E2; cbn [bind]; [|discriminate].
  intros H; inversion H; subst; clear H. unfold wm_ok; cbn. repeat split; lia.
Qed.

Lemma mk_write_mem_iff a d :
  (exists w, mk_write_mem a d = Ok w) <-> zlen d <= 65527.
Proof.
  unfold mk_write_mem, into_scd_len. split.
  - intros [w H]. destruct (zlen d <? 2 ^ 16) eqn:E1; cbn [bind] in H; [|discriminate].
    destruct (zlen d + 8 <? 2 ^ 16) eqn:E2; cbn [bind] in H; [|discriminate]. lia.
  - intros H. destruct (zlen d <? 2 ^ 16) eqn:E1; [|lia]. cbn [bind].
    destruct (zlen d + 8 <? 2 ^ 16) eqn:E2; [|lia]. cbn [bind]. eauto.
Qed.

Lemma mk_write_mem_err a d : 65527 < zlen d -> mk_write_mem a d = Err E_INVALID_PACKET.
Proof.
  intros H. unfold mk_write_mem, into_scd_len.
  destruct (zlen d <? 2 ^ 16) eqn:E1; cbn [bind]; [|reflexivity].
  destruct (zlen d + 8 <? 2 ^ 16) eqn:E2; cbn [bind]; [lia|reflexivity].
Qed.

Definition true_write_scd_len (es : list write_mem) : Z :=
  fold_right (fun w acc => 12 + zlen (wm_data w) + acc) 0 es.

Lemma fold_write_len es : Forall wm_ok es -> forall acc,
  fold_left (fun acc w => acc + 12 + wm_data_len w) es acc = acc + true_write_scd_len es.
Proof.
  induction 1 as [|w es Hw Hes IH]; intros acc; cbn [fold_left true_write_scd_len fold_right]; [lia|].
  rewrite IH. destruct Hw as [H1 _]. rewrite H1. unfold true_write_scd_len. lia.
Qed.

Lemma zlen_enc_write_entry w : wm_ok w -> zlen (enc_write_entry w) = 12 + zlen (wm_data w).
Proof. intros _. unfold enc_write_entry. rewrite !zlen_app, !zlen_le_bytes. lia. Qed.

Lemma zlen_flat_write es : Forall wm_ok es ->
  zlen (flat_map enc_write_entry es) = true_write_scd_len es.
Proof.
  induction 1 as [|w es Hw Hes IH]; cbn [flat_map true_write_scd_len fold_right]; [reflexivity|].
  rewrite zlen_app, zlen_enc_write_entry, IH by assumption. unfold true_write_scd_len. lia.
Qed.

(* validity of a constructed command: cached length fields are the true ones *)
Definition cmd_ok (c : cmd) : Prop :=
  match c with
  | CRead a n => 0 <= a < 2 ^ 64 /\ 0 <= n < 2 ^ 16
  | CWrite w => wm_ok w /\ 0 <= wm_addr w < 2 ^ 64 /\ bytes_ok (wm_data w)
  | CReadStacked es len ack =>
    len = 12 * zlen es /\ len < 2 ^ 16 /\
    ack = fold_right (fun e acc => snd e + acc) 0 es /\ ack < 2 ^ 16 /\
    Forall (fun e => 0 <= fst e < 2 ^ 64 /\ 0 <= snd e < 2 ^ 16) es
  | CWriteStacked es len ack =>
    Forall wm_ok es /\ len = true_write_scd_len es /\ len < 2 ^ 16 /\ ack = 4 * zlen es /\
    Forall (fun w => 0 <= wm_addr w < 2 ^ 64 /\ bytes_ok (wm_data w)) es
  end.

Lemma zlen_enc_scd c : cmd_ok c -> zlen (enc_scd c) = scd_len c.
Proof.
  destruct c as [a n|w|es len ack|es len ack]; cbn [cmd_ok enc_scd scd_len].
  - intros _. apply zlen_enc_read_entry.
  - intros [[H1 [H2 H3]] _]. rewrite zlen_app, zlen_le_bytes. lia.
  - intros [H _]. rewrite zlen_flat_read. lia.
  - intros [H [H2 _]]. rewrite zlen_flat_write; auto.
Qed.

Lemma zlen_enc c id : cmd_ok c -> zlen (enc c id) = cmd_len c.
Proof.
  intros H. unfold enc, enc_header, cmd_len. rewrite !zlen_app, !zlen_le_bytes, zlen_enc_scd by exact H. lia.
Qed.

(* ---- constructors: Ok iff the true lengths fit ---------------------------- *)

Definition sum_reads (es : list (Z * Z)) : Z := fold_right (fun e a => snd e + a) 0 es.

Lemma sum_reads_nonneg es : Forall (fun e => 0 <= snd e) es -> 0 <= sum_reads es.
Proof. induction 1 as [|e es He Hes IH]; cbn [sum_reads fold_right]; [lia|]. unfold sum_reads in IH. lia. Qed.

Lemma read_stacked_ack_spec es : forall acc, 0 <= acc < 2 ^ 16 ->
  Forall (fun e => 0 <= snd e) es ->
  read_stacked_ack es acc =
  if acc + sum_reads es <? 2 ^ 16 then Ok (acc + sum_reads es) else Err E_INVALID_PACKET.
Proof.
  induction es as [|[a n] es IH]; intros acc Hacc Hes; cbn [read_stacked_ack sum_reads fold_right snd].
  - rewrite Z.add_0_r. destruct (acc <? 2 ^ 16) eqn:E; [reflexivity|lia].
  - inversion Hes as [|x y Hn Hes']; subst. cbn [snd] in Hn.
    pose proof (sum_reads_nonneg es Hes') as Hs. unfold sum_reads in Hs.
    destruct (acc + n <? 2 ^ 16) eqn:E.
    + rewrite IH by (auto; lia). unfold sum_reads. rewrite Z.add_assoc. reflexivity.
    + destruct (acc + (n + fold_right (fun e a0 => snd e + a0) 0 es) <? 2 ^ 16) eqn:E2; [lia|reflexivity].
Qed.

(* ReadMemStacked::new is Ok exactly when 12*k and the total read length fit 16 bits *)
Lemma mk_read_stacked_spec es :
  Forall (fun e => 0 <= snd e) es ->
  mk_read_stacked es =
  if (12 * zlen es <? 2 ^ 16) && (sum_reads es <? 2 ^ 16)
  then Ok (CReadStacked es (12 * zlen es) (sum_reads es)) else Err E_INVALID_PACKET.
Proof.
  intros Hes. unfold mk_read_stacked, read_stacked_len, into_scd_len.
  rewrite fold_read_len. cbn [Z.add].
  destruct (12 * zlen es <? 2 ^ 16) eqn:E1; cbn [bind andb]; [|reflexivity].
  rewrite read_stacked_ack_spec by (auto; lia). cbn [Z.add].
  destruct (sum_reads es <? 2 ^ 16) eqn:E2; cbn [bind]; reflexivity.
Qed.

Lemma mapM_mk_write_ok raw es :
  mapM (fun p => mk_write_mem (fst p) (snd p)) raw = Ok es ->
  Forall wm_ok es /\ map (fun w => (wm_addr w, wm_data w)) es = raw.
Proof.
  revert es; induction raw as [|[a d] raw IH]; intros es; cbn [mapM].
  - intros H; inversion H; subst. split; [constructor|reflexivity].
  - cbn [fst snd]. destruct (mk_write_mem a d) as [w| |] eqn:Ew; cbn [bind]; try discriminate.
    destruct (mapM _ raw) as [ws| |] eqn:Em; cbn [bind]; try discriminate.
    intros H; inversion H; subst; clear H.
    destruct (IH ws eq_refl) as [F M]. apply mk_write_mem_ok in Ew. destruct Ew as [Hok [Ha Hd]].
    split; [constructor; auto|]. cbn [map]. now rewrite Ha, Hd, M.
Qed.

Lemma true_write_scd_len_ge es : 12 * zlen es <= true_write_scd_len es.
Proof.
  induction es as [|w es IH]; cbn [true_write_scd_len fold_right]; [unfold zlen; cbn [length]; lia|].
  rewrite zlen_cons. pose proof (zlen_nonneg (wm_data w)). unfold true_write_scd_len in IH. lia.
Qed.

(* WriteMemStacked::new on entries that were themselves constructible: Ok exactly when the
   true SCD length fits 16 bits; the u16 product for the ack length never overflows then. *)
Lemma mk_write_stacked_spec raw es :
  mapM (fun p => mk_write_mem (fst p) (snd p)) raw = Ok es ->
  mk_write_stacked raw =
  if true_write_scd_len es <? 2 ^ 16
  then Ok (CWriteStacked es (true_write_scd_len es) (4 * zlen es)) else Err E_INVALID_PACKET.
Proof.
  intros Hm. unfold mk_write_stacked. rewrite Hm. cbn [bind].
  destruct (mapM_mk_write_ok _ _ Hm) as [F _].
  unfold write_stacked_len, into_scd_len. rewrite fold_write_len by exact F. cbn [Z.add].
  destruct (true_write_scd_len es <? 2 ^ 16) eqn:E; cbn [bind]; [|reflexivity].
  unfold write_stacked_ack.
  pose proof (true_write_scd_len_ge es). pose proof (zlen_nonneg es).
  rewrite wrapu_small' by lia. rewrite chk_u_ok' by lia. cbn [bind]. do 2 f_equal. lia.
Qed.

(* ---- decoder . encoder = id ------------------------------------------------ *)

Lemma firstn_app_exact {A} n (a b : list A) : length a = n -> firstn n (a ++ b) = a.
Proof. intros <-. rewrite firstn_app, Nat.sub_diag, firstn_all. cbn. apply app_nil_r. Qed.

Lemma skipn_app_exact {A} n (a b : list A) : length a = n -> skipn n (a ++ b) = b.
Proof. intros <-. rewrite skipn_app, Nat.sub_diag, skipn_all. reflexivity. Qed.

Lemma get_le_app n v r :
  0 <= v < 256 ^ Z.of_nat n -> get_le n (le_bytes n v ++ r) = Some (v, r).
Proof.
  intros Hv. unfold get_le. rewrite zlen_app, zlen_le_bytes.
  pose proof (zlen_nonneg r).
  destruct (Z.of_nat n <=? Z.of_nat n + zlen r) eqn:E; [|lia].
  rewrite firstn_app_exact, skipn_app_exact by apply le_bytes_length.
  now rewrite of_le_le_bytes.
Qed.

Lemma get_bytes_app d r : get_bytes (zlen d) (d ++ r) = Some (d, r).
Proof.
  unfold get_bytes. rewrite zlen_app. pose proof (zlen_nonneg d). pose proof (zlen_nonneg r).
  destruct (0 <=? zlen d) eqn:E1; [|lia]. destruct (zlen d <=? zlen d + zlen r) eqn:E2; [|lia].
  cbn [andb]. now rewrite take_app_exact, drop_app_exact.
Qed.

Lemma pow256_8 : 256 ^ Z.of_nat 8 = 2 ^ 64. Proof. reflexivity. Qed.
Lemma pow256_4 : 256 ^ Z.of_nat 4 = 2 ^ 32. Proof. reflexivity. Qed.
Lemma pow256_2 : 256 ^ Z.of_nat 2 = 2 ^ 16. Proof. reflexivity. Qed.

Lemma zlen_pos_nonnil {A} (l : list A) : 0 < zlen l -> l <> [].
Proof. intros H ->. unfold zlen in H. cbn in H. lia. Qed.

Lemma dec_read_entries_unfold f bs : bs <> [] ->
  dec_read_entries (S f) bs =
  match get_le 8 bs with
  | Some (a, r1) =>
    match get_le 2 r1 with
    | Some (rsv, r2) =>
      match get_le 2 r2 with
      | Some (n, r3) => if rsv =? 0 then option_map (cons (a, n)) (dec_read_entries f r3) else None
      | None => None
      end
    | None => None
    end
  | None => None
  end.
Proof. destruct bs; [congruence|reflexivity]. Qed.

Lemma dec_write_entries_unfold f bs : bs <> [] ->
  dec_write_entries (S f) bs =
  match get_le 8 bs with
  | Some (a, r1) =>
    match get_le 2 r1 with
    | Some (rsv, r2) =>
      match get_le 2 r2 with
      | Some (n, r3) =>
        match get_bytes n r3 with
        | Some (d, r4) => if rsv =? 0 then option_map (cons (a, d)) (dec_write_entries f r4) else None
        | None => None
        end
      | None => None
      end
    | None => None
    end
  | None => None
  end.
Proof. destruct bs; [congruence|reflexivity]. Qed.

Definition read_entry_ok (e : Z * Z) : Prop := 0 <= fst e < 2 ^ 64 /\ 0 <= snd e < 2 ^ 16.

Lemma dec_read_flat es : Forall read_entry_ok es -> forall fuel, (length es <= fuel)%nat ->
  dec_read_entries fuel (flat_map enc_read_entry es) = Some es.
Proof.
  induction 1 as [|[a n] es [Ha Hn] Hes IH]; intros fuel Hf; cbn [flat_map].
  - destruct fuel; reflexivity.
  - destruct fuel as [|f]; [cbn [length] in Hf; lia|].
    rewrite dec_read_entries_unfold.
    2:{ apply zlen_pos_nonnil. rewrite zlen_app, zlen_enc_read_entry.
        pose proof (zlen_nonneg (flat_map enc_read_entry es)). lia. }
    unfold enc_read_entry. cbn [fst snd] in *. rewrite <- !app_assoc.
    rewrite get_le_app by (rewrite pow256_8; lia).
    rewrite get_le_app by (rewrite pow256_2; lia).
    rewrite get_le_app by (rewrite pow256_2; lia).
    cbn [Z.eqb]. rewrite IH by (cbn [length] in Hf; lia). reflexivity.
Qed.

Definition wm_wf (w : write_mem) : Prop := wm_ok w /\ 0 <= wm_addr w < 2 ^ 64.

Lemma dec_write_flat es : Forall wm_wf es -> forall fuel, (length es <= fuel)%nat ->
  dec_write_entries fuel (flat_map enc_write_entry es) =
  Some (map (fun w => (wm_addr w, wm_data w)) es).
Proof.
  induction 1 as [|w es [[H1 [H2 H3]] Ha] Hes IH]; intros fuel Hf; cbn [flat_map map].
  - destruct fuel; reflexivity.
  - destruct fuel as [|f]; [cbn [length] in Hf; lia|].
    rewrite dec_write_entries_unfold.
    2:{ apply zlen_pos_nonnil. rewrite zlen_app, zlen_enc_write_entry by (repeat split; assumption).
        pose proof (zlen_nonneg (flat_map enc_write_entry es)). pose proof (zlen_nonneg (wm_data w)). lia. }
    unfold enc_write_entry. rewrite <- !app_assoc.
    pose proof (zlen_nonneg (wm_data w)).
    rewrite get_le_app by (rewrite pow256_8; lia).
    rewrite get_le_app by (rewrite pow256_2; lia).
    rewrite get_le_app by (rewrite pow256_2; lia).
    rewrite H1, get_bytes_app.
    cbn [Z.eqb]. rewrite IH by (cbn [length] in Hf; lia). reflexivity.
Qed.

Lemma scd_len_range c : cmd_ok c -> 0 <= scd_len c < 2 ^ 16.
Proof.
  destruct c as [a n|w|es len ack|es len ack]; cbn [cmd_ok scd_len].
  - lia.
  - intros [[H1 [H2 H3]] _]. pose proof (zlen_nonneg (wm_data w)). lia.
  - intros [H [H2 _]]. pose proof (zlen_nonneg es). lia.
  - intros [F [H [H2 _]]]. pose proof (true_write_scd_len_ge es). pose proof (zlen_nonneg es). lia.
Qed.

Lemma length_le_zlen {A B} (a : list A) (b : list B) : zlen a <= zlen b -> (length a <= length b)%nat.
Proof. unfold zlen. lia. Qed.

Lemma decode_enc c id : cmd_ok c -> 0 <= id < 2 ^ 16 ->
  spec_decode (enc c id) = Some (abs_cmd c, id).
Proof.
  intros Hc Hid. pose proof (scd_len_range c Hc) as Hsl.
  unfold spec_decode, enc, enc_header. rewrite <- !app_assoc.
  rewrite get_le_app by (rewrite pow256_4; unfold MAGIC; lia).
  rewrite get_le_app by (rewrite pow256_2; unfold FLAG_REQUEST_ACK; lia).
  rewrite get_le_app
    by (rewrite pow256_2; destruct c; cbn [scd_kind_id];
        unfold ID_READ_MEM, ID_WRITE_MEM, ID_READ_MEM_STACKED, ID_WRITE_MEM_STACKED; lia).
  rewrite get_le_app by (rewrite pow256_2; lia).
  rewrite get_le_app by (rewrite pow256_2; lia).
  rewrite zlen_enc_scd by exact Hc.
  change (MAGIC =? 0x43563355) with true. change (FLAG_REQUEST_ACK =? 0x4000) with true.
  rewrite Z.eqb_refl. cbn [andb].
  destruct c as [a n|w|es len ack|es len ack]; cbn [scd_kind_id enc_scd abs_cmd cmd_ok] in *.
  - change (ID_READ_MEM =? 0x0800) with true. cbv iota.
    replace (enc_read_entry (a, n)) with (flat_map enc_read_entry [(a, n)])
      by (cbn [flat_map]; apply app_nil_r).
    rewrite dec_read_flat; [reflexivity| |cbn [length]; lia].
    constructor; [|constructor]. unfold read_entry_ok; cbn [fst snd]; lia.
  - change (ID_WRITE_MEM =? 0x0800) with false. change (ID_WRITE_MEM =? 0x0802) with true. cbv iota.
    destruct Hc as [_ [Ha _]].
    rewrite get_le_app by (rewrite pow256_8; lia). reflexivity.
  - change (ID_READ_MEM_STACKED =? 0x0800) with false. change (ID_READ_MEM_STACKED =? 0x0802) with false.
    change (ID_READ_MEM_STACKED =? 0x0806) with true. cbv iota.
    destruct Hc as [H1 [H2 [H3 [H4 F]]]].
    rewrite dec_read_flat; [reflexivity|exact F|].
    apply length_le_zlen. rewrite zlen_flat_read. pose proof (zlen_nonneg es). lia.
  - change (ID_WRITE_MEM_STACKED =? 0x0800) with false. change (ID_WRITE_MEM_STACKED =? 0x0802) with false.
    change (ID_WRITE_MEM_STACKED =? 0x0806) with false. change (ID_WRITE_MEM_STACKED =? 0x0808) with true.
    cbv iota. destruct Hc as [F [H1 [H2 [H3 F2]]]].
    assert (Fw : Forall wm_wf es).
    { rewrite Forall_forall in *. intros w Hw. split; [apply F; auto| apply F2; auto]. }
    rewrite dec_write_flat; [reflexivity|exact Fw|].
    apply length_le_zlen. rewrite zlen_flat_write by exact F.
    pose proof (true_write_scd_len_ge es). pose proof (zlen_nonneg es). lia.
Qed.

Lemma layout c id : cmd_ok c -> 0 <= id < 2 ^ 16 ->
  spec_decode (serialize_vec c id) = Some (abs_cmd c, id).
Proof. intros. rewrite serialize_vec_enc. now apply decode_enc. Qed.

Lemma lengths_agree c id : cmd_ok c ->
  zlen (serialize_vec c id) = cmd_len c /\ cmd_len c = 12 + scd_len c.
Proof. intros H. rewrite serialize_vec_enc, zlen_enc by exact H. unfold cmd_len. lia. Qed.

(* ---- constructed commands are valid ------------------------------------- *)

Lemma mk_write_cmd_ok a d c :
  0 <= a < 2 ^ 64 -> bytes_ok d -> mk_write a d = Ok c -> cmd_ok c /\ abs_cmd c = DWrite a d.
Proof.
  intros Ha Hd. unfold mk_write. destruct (mk_write_mem a d) as [w| |] eqn:E; cbn [omap]; try discriminate.
  intros H; inversion H; subst; clear H. apply mk_write_mem_ok in E. destruct E as [Hok [E1 E2]].
  cbn [cmd_ok abs_cmd]. rewrite E1, E2. auto.
Qed.

Lemma mk_read_stacked_cmd_ok es c :
  Forall read_entry_ok es -> mk_read_stacked es = Ok c -> cmd_ok c /\ abs_cmd c = DReadStacked es.
Proof.
  intros F. rewrite mk_read_stacked_spec.
  2:{ rewrite Forall_forall in *. intros e He. apply F in He. unfold read_entry_ok in He. lia. }
  destruct (12 * zlen es <? 2 ^ 16) eqn:E1; cbn [andb]; [|discriminate].
  destruct (sum_reads es <? 2 ^ 16) eqn:E2; [|discriminate].
  intros H; inversion H; subst; clear H. cbn [cmd_ok abs_cmd].
  apply Z.ltb_lt in E1. apply Z.ltb_lt in E2.
  split; [|reflexivity]. split; [reflexivity|]. split; [exact E1|]. split; [reflexivity|].
  split; [exact E2|exact F].
Qed.

Lemma mk_write_stacked_cmd_ok raw c :
  Forall (fun p => 0 <= fst p < 2 ^ 64 /\ bytes_ok (snd p)) raw ->
  mk_write_stacked raw = Ok c -> cmd_ok c /\ abs_cmd c = DWriteStacked raw.
Proof.
  intros F H. destruct (mapM (fun p => mk_write_mem (fst p) (snd p)) raw) as [es| |] eqn:Em.
  2,3: unfold mk_write_stacked in H; rewrite Em in H; discriminate.
  rewrite (mk_write_stacked_spec _ _ Em) in H.
  destruct (true_write_scd_len es <? 2 ^ 16) eqn:E; [|discriminate].
  inversion H; subst; clear H. destruct (mapM_mk_write_ok _ _ Em) as [Fo M].
  cbn [cmd_ok abs_cmd]. rewrite M. repeat split; auto; try lia.
  rewrite <- M in F. rewrite Forall_map in F. exact F.
Qed.

(* ---- maximum_ack_len bounds every conforming acknowledge ----------------- *)

Lemma ack_upper_bound c : cmd_ok c ->
  Forall (fun l => l <= maximum_ack_len c) (conforming_ack_lens (abs_cmd c)).
Proof.
  intros Hc. unfold maximum_ack_len.
  destruct c as [a n|w|es len ack|es len ack]; cbn [cmd_ok abs_cmd conforming_ack_lens ack_scd_len] in *;
    repeat constructor; try lia.
  destruct Hc as [_ [_ [_ [H _]]]]. unfold zlen in *. rewrite map_length. lia.
Qed.

(* ---- exact-size slice sink = Vec sink ------------------------------------- *)

Definition ss (l : list Z) (c : Z) : sink := {| s_rev := rev l; s_cap := Some c |}.

Lemma s_out_ss l c : s_out (ss l c) = l.
Proof. unfold s_out, ss, rev'. cbn [s_rev]. rewrite <- rev_alt. apply rev_involutive. Qed.

Lemma write_le_ss n v l c : Z.of_nat n <= c ->
  write_le n v (ss l c) = ss (l ++ le_bytes n v) (c - Z.of_nat n).
Proof.
  intros H. unfold write_le, sink_write, ss. cbn [s_cap s_rev fst].
  rewrite zlen_le_bytes. rewrite Z.min_r by lia.
  replace (take (Z.of_nat n) (le_bytes n v)) with (le_bytes n v).
  2:{ unfold take. rewrite Nat2Z.id. symmetry. apply firstn_all2. now rewrite le_bytes_length. }
  now rewrite rev_append_revl.
Qed.

Lemma write_all_ss bs l c : zlen bs <= c ->
  write_all bs (ss l c) = (Ok tt, ss (l ++ bs) (c - zlen bs)).
Proof.
  intros H. unfold write_all, sink_write, ss. cbn [s_cap s_rev].
  rewrite Z.min_r by lia. destruct (zlen bs <? zlen bs) eqn:E; [lia|].
  replace (take (zlen bs) bs) with bs.
  2:{ unfold take, zlen. rewrite Nat2Z.id. symmetry. apply firstn_all. }
  now rewrite rev_append_revl.
Qed.

Lemma ser_read_entry_ss e l c : 12 <= c ->
  ser_read_entry e (ss l c) = ss (l ++ enc_read_entry e) (c - 12).
Proof.
  intros H. unfold ser_read_entry, enc_read_entry.
  rewrite !write_le_ss by lia. rewrite <- !app_assoc. f_equal. lia.
Qed.

Lemma ser_read_entries_ss es : forall l c, 12 * zlen es <= c ->
  fold_left (fun s e => ser_read_entry e s) es (ss l c) =
  ss (l ++ flat_map enc_read_entry es) (c - 12 * zlen es).
Proof.
  induction es as [|e es IH]; intros l c H; cbn [fold_left flat_map].
  - rewrite app_nil_r. f_equal. unfold zlen; cbn [length]; lia.
  - rewrite zlen_cons in H. pose proof (zlen_nonneg es).
    rewrite ser_read_entry_ss by lia. rewrite IH by lia. rewrite <- app_assoc. f_equal.
    rewrite zlen_cons. lia.
Qed.

Lemma true_write_scd_len_cons w es :
  true_write_scd_len (w :: es) = 12 + zlen (wm_data w) + true_write_scd_len es.
Proof. reflexivity. Qed.

Lemma ser_write_entries_ss es : Forall wm_ok es -> forall l c, true_write_scd_len es <= c ->
  ser_write_entries es (ss l c) =
  (Ok tt, ss (l ++ flat_map enc_write_entry es) (c - true_write_scd_len es)).
Proof.
  induction 1 as [|w es Hw Hes IH]; intros l c H; cbn [ser_write_entries flat_map].
  - rewrite app_nil_r. change (true_write_scd_len []) with 0. do 2 f_equal. lia.
  - rewrite true_write_scd_len_cons in *.
    pose proof (true_write_scd_len_ge es). pose proof (zlen_nonneg es). pose proof (zlen_nonneg (wm_data w)).
    rewrite !write_le_ss by lia. rewrite write_all_ss by lia.
    rewrite IH by lia. unfold enc_write_entry. rewrite <- !app_assoc. do 2 f_equal. lia.
Qed.

Lemma serialize_exact_slice c id : cmd_ok c ->
  serialize c id (slice_sink (cmd_len c)) = (Ok tt, ss (enc c id) 0).
Proof.
  intros Hc. pose proof (scd_len_range c Hc) as Hsl.
  unfold serialize, ser_header, cmd_len. change (slice_sink (4 + 8 + scd_len c)) with (ss [] (4 + 8 + scd_len c)).
  rewrite !write_le_ss by lia. cbn [app].
  set (h := (((le_bytes 4 MAGIC ++ le_bytes 2 FLAG_REQUEST_ACK) ++ le_bytes 2 (scd_kind_id c)) ++
             le_bytes 2 (scd_len c)) ++ le_bytes 2 id).
  assert (Hh : h = enc_header c id) by (subst h; unfold enc_header; now rewrite <- !app_assoc).
  rewrite Hh. unfold enc.
  replace (4 + 8 + scd_len c - Z.of_nat 4 - Z.of_nat 2 - Z.of_nat 2 - Z.of_nat 2 - Z.of_nat 2)
    with (scd_len c) by lia.
  destruct c as [a n|w|es len ack|es len ack]; cbn [ser_scd enc_scd scd_len cmd_ok] in *.
  - rewrite ser_read_entry_ss by lia. reflexivity.
  - destruct Hc as [[H1 [H2 H3]] _]. pose proof (zlen_nonneg (wm_data w)).
    rewrite write_le_ss by lia. rewrite write_all_ss by lia.
    rewrite <- app_assoc. do 2 f_equal. lia.
  - destruct Hc as [H1 _]. rewrite ser_read_entries_ss by lia.
    replace (len - 12 * zlen es) with 0 by lia. reflexivity.
  - destruct Hc as [F [H1 _]]. rewrite ser_write_entries_ss by (auto; lia).
    replace (len - true_write_scd_len es) with 0 by lia. reflexivity.
Qed.

Lemma sinks_agree c id : cmd_ok c ->
  fst (serialize c id (slice_sink (cmd_len c))) = Ok tt /\
  s_out (snd (serialize c id (slice_sink (cmd_len c)))) = serialize_vec c id.
Proof.
  intros H. rewrite serialize_exact_slice by exact H. rewrite serialize_vec_enc. cbn [fst snd].
  split; [reflexivity|apply s_out_ss].
Qed.

(* non-vacuity *)
Example c09_example :
  exists c, mk_write 4 [1;2;3] = Ok c /\
    serialize_vec c 1 = [0x55;0x33;0x56;0x43; 0x00;0x40; 0x02;0x08; 11;0; 1;0; 4;0;0;0;0;0;0;0; 1;2;3].
Proof. eexists; split; vm_compute; reflexivity. Qed.

(* ---- commands obtainable through the public constructors ------------------- *)

Definition wentry_ok (p : Z * list Z) : Prop := 0 <= fst p < 2 ^ 64 /\ bytes_ok (snd p).

Inductive constructed : cmd -> dcmd -> Prop :=
| c_read a n : 0 <= a < 2 ^ 64 -> 0 <= n < 2 ^ 16 -> constructed (CRead a n) (DRead a n)
| c_write a d c : 0 <= a < 2 ^ 64 -> bytes_ok d -> mk_write a d = Ok c -> constructed c (DWrite a d)
| c_read_stacked es c : Forall read_entry_ok es -> mk_read_stacked es = Ok c ->
                        constructed c (DReadStacked es)
| c_write_stacked raw c : Forall wentry_ok raw -> mk_write_stacked raw = Ok c ->
                          constructed c (DWriteStacked raw).

Lemma constructed_ok c d : constructed c d -> cmd_ok c /\ abs_cmd c = d.
Proof.
  destruct 1 as [a n Ha Hn|a d c Ha Hd Hc|es c F Hc|raw c F Hc].
  - cbn. auto.
  - eapply mk_write_cmd_ok; eauto.
  - eapply mk_read_stacked_cmd_ok; eauto.
  - eapply mk_write_stacked_cmd_ok; eauto.
Qed.

Lemma constructed_layout c d id : constructed c d -> 0 <= id < 2 ^ 16 ->
  spec_decode (serialize_vec c id) = Some (d, id).
Proof. intros H Hid. destruct (constructed_ok _ _ H) as [Hc <-]. now apply layout. Qed.

Lemma constructed_lengths c d id : constructed c d ->
  zlen (serialize_vec c id) = cmd_len c /\ cmd_len c = 12 + scd_len c /\ 0 <= scd_len c < 2 ^ 16.
Proof.
  intros H. destruct (constructed_ok _ _ H) as [Hc _].
  destruct (lengths_agree c id Hc). pose proof (scd_len_range c Hc). auto.
Qed.

Lemma constructed_ack_bound c d : constructed c d ->
  Forall (fun l => l <= maximum_ack_len c) (conforming_ack_lens d).
Proof. intros H. destruct (constructed_ok _ _ H) as [Hc <-]. now apply ack_upper_bound. Qed.

Lemma constructed_sinks_agree c d id : constructed c d ->
  fst (serialize c id (slice_sink (cmd_len c))) = Ok tt /\
  s_out (snd (serialize c id (slice_sink (cmd_len c)))) = serialize_vec c id.
Proof. intros H. destruct (constructed_ok _ _ H) as [Hc _]. now apply sinks_agree. Qed.

Lemma mk_write_refuses a d : 65527 < zlen d -> mk_write a d = Err E_INVALID_PACKET.
Proof. intros H. unfold mk_write. now rewrite mk_write_mem_err. Qed.

Lemma mk_write_accepts a d : zlen d <= 65527 -> exists c, mk_write a d = Ok c.
Proof.
  intros H. unfold mk_write. destruct (proj2 (mk_write_mem_iff a d) H) as [w Hw]. rewrite Hw. cbn. eauto.
Qed.
