(* Proofs for C15: ControlHandle::enable_streaming (model/Control.v: compute_sizes,
   ctl_enable_streaming, stream_params).

   Part 1  the size computation: covering inequalities, alignment, register ranges, the exact
           set of rejected requirements, and the three defects of the pinned code
           (trailer read from the leader register, unchecked align!, truncated transfer count).
   Part 2  the program against ANY scripted device (arbitrary failure plans, arbitrary replies):
           reads never write; a register write reaches the device at most once and exactly once
           when it returns Ok; the device write log left by enable_streaming is a prefix of
           [disable?; size; count; final1; final2; leader; trailer; enable], complete when Ok.
   Part 3  failure propagation through the bindM chain. *)
From Cam Require Import Outcome Bytes Chunks Cmd Ack CmdLayout Control P_C09.

(* ================================================================================== *)
(* Part 1 : compute_sizes                                                             *)
(* ================================================================================== *)

Lemma pow2_range k : 0 <= k <= 31 -> 1 <= 2 ^ k <= 2 ^ 31.
Proof.
  intros H. split.
  - change 1 with (2 ^ 0). apply Z.pow_le_mono_r; lia.
  - apply Z.pow_le_mono_r; lia.
Qed.

Lemma p31 : 2 ^ 31 = 2147483648. Proof. reflexivity. Qed.
Lemma p32 : 2 ^ 32 = 4294967296. Proof. reflexivity. Qed.
Lemma p64 : 2 ^ 64 = 18446744073709551616. Proof. reflexivity. Qed.

(* the value of align!: the least multiple of al that is >= x *)
Definition aligned (x al : Z) : Z := (x + (al - 1)) - (x + (al - 1)) mod al.

Lemma aligned_spec x al : 0 < al -> x <= aligned x al < x + al /\ aligned x al mod al = 0.
Proof.
  intros H. unfold aligned. set (y := x + (al - 1)).
  pose proof (Z.mod_pos_bound y al H) as B. split; [lia|].
  rewrite (Z.div_mod y al) at 1 by lia.
  replace (al * (y / al) + y mod al - y mod al) with ((y / al) * al) by lia.
  apply Z.mod_mul. lia.
Qed.

Lemma multiple_ge x al : 0 < al -> x mod al = 0 -> 0 < x -> al <= x.
Proof.
  intros Ha Hm Hx. destruct (Z_lt_le_dec x al) as [L|L]; [|exact L].
  rewrite Z.mod_small in Hm by lia. lia.
Qed.

Lemma mod0_sub a b al : 0 < al -> a mod al = 0 -> b mod al = 0 -> (a - b) mod al = 0.
Proof.
  intros H Ha Hb. rewrite Zminus_mod, Ha, Hb. reflexivity.
Qed.

(* the least aligned value is below every other aligned value that covers x *)
Lemma aligned_least x al m : 0 < al -> m mod al = 0 -> x <= m -> aligned x al <= m.
Proof.
  intros Ha Hm Hx. destruct (aligned_spec x al Ha) as [[L U] M].
  destruct (Z_lt_le_dec m (aligned x al)) as [C|C]; [|exact C].
  assert (D : (aligned x al - m) mod al = 0) by (apply mod0_sub; assumption).
  pose proof (multiple_ge _ _ Ha D ltac:(lia)). lia.
Qed.

Lemma align_run w x al (s : st) :
  align w x al s = if x + (al - 1) <? 2 ^ w then (Ok (aligned x al), s) else (Err CE_INVALID_DEVICE, s).
Proof. unfold align, aligned. destruct (x + (al - 1) <? 2 ^ w); reflexivity. Qed.

(* payload transfer size for an alignment of 2^k *)
Definition pts_of (al : Z) : Z := aligned PAYLOAD_TRANSFER_SIZE al.

Lemma pts_value k : 0 <= k <= 31 -> pts_of (2 ^ k) = if k <=? 16 then 65536 else 2 ^ k.
Proof.
  intros H.
  assert (C : k = 0 \/ k = 1 \/ k = 2 \/ k = 3 \/ k = 4 \/ k = 5 \/ k = 6 \/ k = 7 \/ k = 8 \/ k = 9 \/
              k = 10 \/ k = 11 \/ k = 12 \/ k = 13 \/ k = 14 \/ k = 15 \/ k = 16 \/ k = 17 \/ k = 18 \/
              k = 19 \/ k = 20 \/ k = 21 \/ k = 22 \/ k = 23 \/ k = 24 \/ k = 25 \/ k = 26 \/ k = 27 \/
              k = 28 \/ k = 29 \/ k = 30 \/ k = 31) by lia.
  repeat (destruct C as [C|C]; [subst k; vm_compute; reflexivity|]). subst k. vm_compute. reflexivity.
Qed.

Lemma pts_facts al : 1 <= al <= 2 ^ 31 ->
  65536 <= pts_of al < 2 ^ 32 /\ pts_of al mod al = 0 /\ 65536 + (al - 1) < 2 ^ 32.
Proof.
  intros H. rewrite p31 in H. rewrite p32.
  destruct (aligned_spec 65536 al ltac:(lia)) as [[L U] M].
  unfold pts_of, PAYLOAD_TRANSFER_SIZE. repeat split; try assumption; lia.
Qed.

(* what the required sizes must satisfy to be programmable *)
Definition fits32 (req al : Z) : Prop := req = 0 \/ req + (al - 1) < 2 ^ 32.
Definition programmable (al rl rp rt : Z) : Prop :=
  rp / pts_of al < 2 ^ 32 /\ fits32 rl al /\ fits32 rt al.

Definition plan_of (al rl rp rt : Z) : sirm_plan :=
  {| sp_size := pts_of al; sp_count := rp / pts_of al;
     sp_final1 := wrapu 32 (aligned (rp mod pts_of al) al); sp_final2 := 0;
     sp_leader := if rl =? 0 then pts_of al else aligned rl al;
     sp_trailer := if rt =? 0 then pts_of al else aligned rt al |}.

Lemma fits32_dec req al : {fits32 req al} + {~ fits32 req al}.
Proof.
  unfold fits32. destruct (Z.eq_dec req 0) as [E|E]; [left; left; exact E|].
  destruct (Z_lt_le_dec (req + (al - 1)) (2 ^ 32)) as [L|L]; [left; right; exact L|].
  right. intros [H|H]; lia.
Qed.

Lemma sized_run req al pts (s : st) :
  (if req =? 0 then ret pts else align 32 req al) s =
  if req =? 0 then (Ok pts, s)
  else if req + (al - 1) <? 2 ^ 32 then (Ok (aligned req al), s) else (Err CE_INVALID_DEVICE, s).
Proof. destruct (req =? 0); [reflexivity|apply align_run]. Qed.

(* compute_sizes, evaluated: no state change, never a panic, Ok exactly on programmable
   requirements, InvalidDevice otherwise *)
Lemma compute_sizes_run al rl rp rt (s : st) : 1 <= al <= 2 ^ 31 -> 0 <= rp < 2 ^ 64 ->
  (programmable al rl rp rt /\ compute_sizes al rl rp rt s = (Ok (plan_of al rl rp rt), s)) \/
  (~ programmable al rl rp rt /\ compute_sizes al rl rp rt s = (Err CE_INVALID_DEVICE, s)).
Proof.
  intros Hal Hrp. destruct (pts_facts al Hal) as [[P1 P2] [P3 P4]].
  unfold compute_sizes, bindM. rewrite align_run.
  destruct (PAYLOAD_TRANSFER_SIZE + (al - 1) <? 2 ^ 32) eqn:E0;
    [|unfold PAYLOAD_TRANSFER_SIZE in E0; lia].
  fold (pts_of al).
  destruct (rp / pts_of al <? 2 ^ 32) eqn:E1.
  2:{ right. split; [|reflexivity]. intros [H _]. lia. }
  cbn [ret]. rewrite align_run.
  assert (F1 : rp mod pts_of al + (al - 1) < 2 ^ 64).
  { pose proof (Z.mod_pos_bound rp (pts_of al) ltac:(lia)). rewrite p31 in Hal. rewrite p32 in P2.
    rewrite p64. lia. }
  destruct (rp mod pts_of al + (al - 1) <? 2 ^ 64) eqn:E2; [|lia].
  rewrite sized_run.
  destruct (rl =? 0) eqn:L0.
  - rewrite sized_run. destruct (rt =? 0) eqn:T0.
    + left. split; [|unfold plan_of; rewrite L0, T0; reflexivity].
      split; [lia|]. split; left; lia.
    + destruct (rt + (al - 1) <? 2 ^ 32) eqn:T1.
      * left. split; [|unfold plan_of; rewrite L0, T0; reflexivity].
        split; [lia|]. split; [left; lia|right; lia].
      * right. split; [|reflexivity]. intros [_ [_ [H|H]]]; lia.
  - destruct (rl + (al - 1) <? 2 ^ 32) eqn:L1.
    2:{ right. split; [|reflexivity]. intros [_ [[H|H] _]]; lia. }
    rewrite sized_run. destruct (rt =? 0) eqn:T0.
    + left. split; [|unfold plan_of; rewrite L0, T0; reflexivity].
      split; [lia|]. split; [right; lia|left; lia].
    + destruct (rt + (al - 1) <? 2 ^ 32) eqn:T1.
      * left. split; [|unfold plan_of; rewrite L0, T0; reflexivity].
        split; [lia|]. split; right; lia.
      * right. split; [|reflexivity]. intros [_ [_ [H|H]]]; lia.
Qed.

(* the final transfer never exceeds one payload transfer, so "as u32" keeps it *)
Lemma final1_bound rp al : 1 <= al <= 2 ^ 31 -> 0 <= rp ->
  rp mod pts_of al <= aligned (rp mod pts_of al) al <= pts_of al /\
  aligned (rp mod pts_of al) al mod al = 0.
Proof.
  intros Hal Hrp. destruct (pts_facts al Hal) as [[P1 P2] [P3 _]].
  pose proof (Z.mod_pos_bound rp (pts_of al) ltac:(lia)) as B.
  destruct (aligned_spec (rp mod pts_of al) al ltac:(lia)) as [[L U] M].
  split; [|exact M]. split; [exact L|]. apply aligned_least; lia.
Qed.

Record covers (al rl rp rt : Z) (p : sirm_plan) : Prop := {
  cv_leader : rl <= sp_leader p;
  cv_trailer : rt <= sp_trailer p;
  cv_payload : rp <= sp_size p * sp_count p + sp_final1 p + sp_final2 p;
  cv_al_size : sp_size p mod al = 0;
  cv_al_final1 : sp_final1 p mod al = 0;
  cv_al_final2 : sp_final2 p mod al = 0;
  cv_al_leader : sp_leader p mod al = 0;
  cv_al_trailer : sp_trailer p mod al = 0;
  cv_r_size : 0 <= sp_size p < 2 ^ 32;
  cv_r_count : 0 <= sp_count p < 2 ^ 32;
  cv_r_final1 : 0 <= sp_final1 p < 2 ^ 32;
  cv_r_final2 : 0 <= sp_final2 p < 2 ^ 32;
  cv_r_leader : 0 <= sp_leader p < 2 ^ 32;
  cv_r_trailer : 0 <= sp_trailer p < 2 ^ 32;
  cv_size_pos : 0 < sp_size p
}.

Lemma sized_covers req al : 1 <= al <= 2 ^ 31 -> 0 <= req -> fits32 req al ->
  let v := if req =? 0 then pts_of al else aligned req al in
  req <= v /\ v mod al = 0 /\ 0 <= v < 2 ^ 32.
Proof.
  intros Hal Hr F v. subst v. destruct (pts_facts al Hal) as [[P1 P2] [P3 _]].
  destruct (req =? 0) eqn:E.
  - apply Z.eqb_eq in E. subst req. repeat split; try assumption; lia.
  - apply Z.eqb_neq in E. destruct F as [F|F]; [contradiction|].
    destruct (aligned_spec req al ltac:(lia)) as [[L U] M]. repeat split; try assumption; lia.
Qed.

Lemma plan_covers al rl rp rt : 1 <= al <= 2 ^ 31 -> 0 <= rl -> 0 <= rp -> 0 <= rt ->
  programmable al rl rp rt -> covers al rl rp rt (plan_of al rl rp rt).
Proof.
  intros Hal Hl Hp Ht [C [FL FT]]. destruct (pts_facts al Hal) as [[P1 P2] [P3 _]].
  destruct (final1_bound rp al Hal Hp) as [[F1 F2] F3].
  destruct (sized_covers rl al Hal Hl FL) as [L1 [L2 L3]].
  destruct (sized_covers rt al Hal Ht FT) as [T1 [T2 T3]].
  pose proof (Z.mod_pos_bound rp (pts_of al) ltac:(lia)) as B.
  assert (W : wrapu 32 (aligned (rp mod pts_of al) al) = aligned (rp mod pts_of al) al).
  { unfold wrapu. apply Z.mod_small. lia. }
  assert (Q : 0 <= rp / pts_of al) by (apply Z.div_pos; lia).
  constructor; unfold plan_of; cbn [sp_size sp_count sp_final1 sp_final2 sp_leader sp_trailer];
    rewrite ?W; try assumption; try lia.
  - pose proof (Z.div_mod rp (pts_of al) ltac:(lia)). lia.
  - apply Z.mod_0_l. lia.
Qed.

(* C15_covers at the level of the size computation *)
Lemma compute_sizes_covers k rl rp rt (s s' : st) p : 0 <= k <= 31 -> 0 <= rl -> 0 <= rp < 2 ^ 64 -> 0 <= rt ->
  compute_sizes (2 ^ k) rl rp rt s = (Ok p, s') -> s' = s /\ covers (2 ^ k) rl rp rt p.
Proof.
  intros Hk Hl Hp Ht H. pose proof (pow2_range k Hk) as Hal.
  destruct (compute_sizes_run (2 ^ k) rl rp rt s Hal Hp) as [[Pr E]|[_ E]]; rewrite E in H.
  - inversion H; subst. split; [reflexivity|]. apply plan_covers; try assumption; lia.
  - discriminate H.
Qed.

Lemma compute_sizes_no_panic k rl rp rt (s s' : st) : 0 <= k <= 31 -> 0 <= rp < 2 ^ 64 ->
  compute_sizes (2 ^ k) rl rp rt s <> (Panic, s').
Proof.
  intros Hk Hp H. destruct (compute_sizes_run (2 ^ k) rl rp rt s (pow2_range k Hk) Hp) as [[_ E]|[_ E]];
    rewrite E in H; discriminate H.
Qed.

(* Ok exactly on the programmable requirements *)
Lemma compute_sizes_ok_iff k rl rp rt (s : st) : 0 <= k <= 31 -> 0 <= rp < 2 ^ 64 ->
  (programmable (2 ^ k) rl rp rt -> compute_sizes (2 ^ k) rl rp rt s = (Ok (plan_of (2 ^ k) rl rp rt), s)) /\
  (~ programmable (2 ^ k) rl rp rt -> compute_sizes (2 ^ k) rl rp rt s = (Err CE_INVALID_DEVICE, s)).
Proof.
  intros Hk Hp. destruct (compute_sizes_run (2 ^ k) rl rp rt s (pow2_range k Hk) Hp) as [[Pr E]|[Pr E]];
    split; intros; try assumption; contradiction.
Qed.

(* a refused leader / trailer requirement cannot be covered by ANY aligned 32-bit value *)
Lemma refused_size_uncoverable k req m : 0 <= k <= 31 -> ~ fits32 req (2 ^ k) ->
  0 <= m < 2 ^ 32 -> m mod 2 ^ k = 0 -> req <= m -> False.
Proof.
  intros Hk F Hm Hd Hc. pose proof (pow2_range k Hk) as Hal.
  assert (N : req <> 0 /\ 2 ^ 32 <= req + (2 ^ k - 1)).
  { unfold fits32 in F. split; [intros E; apply F; left; exact E|].
    destruct (Z_lt_le_dec (req + (2 ^ k - 1)) (2 ^ 32)); [exfalso; apply F; right; assumption|assumption]. }
  assert (D32 : 2 ^ 32 mod 2 ^ k = 0).
  { replace 32 with (k + (32 - k)) by lia. rewrite Z.pow_add_r by lia. rewrite Z.mul_comm. apply Z.mod_mul. lia. }
  assert (D : (2 ^ 32 - m) mod 2 ^ k = 0) by (apply mod0_sub; try assumption; lia).
  assert (P0 : 0 < 2 ^ k) by lia. assert (P1 : 0 < 2 ^ 32 - m) by lia.
  pose proof (multiple_ge _ _ P0 D P1). lia.
Qed.

(* inside the quantifier of the property (alignment exponent <= 16, leader / trailer up to
   2^32 - 2^k, payload below 2^48) every requirement is programmable *)
Lemma quantifier_programmable k rl rp rt : 0 <= k <= 16 ->
  0 <= rl <= 2 ^ 32 - 2 ^ k -> 0 <= rt <= 2 ^ 32 - 2 ^ k -> 0 <= rp < 2 ^ 48 ->
  programmable (2 ^ k) rl rp rt.
Proof.
  intros Hk Hl Ht Hp. unfold programmable, fits32.
  rewrite pts_value by lia. destruct (k <=? 16) eqn:E; [|lia].
  split; [|split; right; lia].
  apply Z.div_lt_upper_bound; [lia|]. change (65536 * 2 ^ 32) with (2 ^ 48). lia.
Qed.

(* ---- the pinned code ------------------------------------------------------------------ *)

(* align! before commit 03aec4e: unchecked addition (debug build: panic) *)
Definition align_v0 (w x al : Z) : M Z :=
  if x + (al - 1) <? 2 ^ w then ret ((x + (al - 1)) - (x + (al - 1)) mod al) else panic.

(* the size computation of the pinned commit as a function of the SIRM registers
   REQUIRED_LEADER_SIZE / REQUIRED_PAYLOAD_SIZE / REQUIRED_TRAILER_SIZE: the trailer requirement
   was read with sirm.required_leader_size (fixed by 9f212d6), the additions were unchecked
   (03aec4e) and the count was cast with "as u32" (7004d0a).  [trailer_fixed] selects the code
   after 9f212d6. *)
Definition compute_sizes_v0 (trailer_fixed : bool) (al reg_leader reg_payload reg_trailer : Z) : M sirm_plan :=
  let req_leader := reg_leader in
  let req_payload := reg_payload in
  let req_trailer := if trailer_fixed then reg_trailer else reg_leader in
  do pts <- align_v0 32 PAYLOAD_TRANSFER_SIZE al;
  let count := wrapu 32 (req_payload / pts) in
  do f1 <- align_v0 64 (req_payload mod pts) al;
  do ml <- (if req_leader =? 0 then ret pts else align_v0 32 req_leader al);
  do mt <- (if req_trailer =? 0 then ret pts else align_v0 32 req_trailer al);
  ret {| sp_size := pts; sp_count := count; sp_final1 := wrapu 32 f1; sp_final2 := 0;
         sp_leader := ml; sp_trailer := mt |}.

Lemma trailer_v0_refuted : forall s : st,
  exists p, compute_sizes_v0 false 1 52 1000 64 s = (Ok p, s) /\ sp_trailer p = 52 /\ sp_trailer p < 64.
Proof. intros s. eexists. split; [vm_compute; reflexivity|]. cbn [sp_trailer]. lia. Qed.

Lemma align_overflow_v0_refuted : forall s : st,
  compute_sizes_v0 true (2 ^ 16) (2 ^ 32 - 1) 1000 64 s = (Panic, s).
Proof. intros s. vm_compute. reflexivity. Qed.

Lemma count_truncation_v0_refuted : forall s : st,
  exists p, compute_sizes_v0 true (2 ^ 4) 52 (2 ^ 48) 64 s = (Ok p, s) /\
            sp_size p * sp_count p + sp_final1 p + sp_final2 p = 0.
Proof. intros s. eexists. split; [vm_compute; reflexivity|]. reflexivity. Qed.

(* the repaired code on the same inputs *)
Lemma trailer_fixed_example : forall s : st,
  exists p, compute_sizes 1 52 1000 64 s = (Ok p, s) /\ sp_trailer p = 64 /\ sp_leader p = 52.
Proof. intros s. eexists. split; [vm_compute; reflexivity|]. split; reflexivity. Qed.

Lemma align_overflow_fixed_example : forall s : st,
  compute_sizes (2 ^ 16) (2 ^ 32 - 1) 1000 64 s = (Err CE_INVALID_DEVICE, s).
Proof. intros s. vm_compute. reflexivity. Qed.

Lemma count_truncation_fixed_example : forall s : st,
  compute_sizes (2 ^ 4) 52 (2 ^ 48) 64 s = (Err CE_INVALID_DEVICE, s).
Proof. intros s. vm_compute. reflexivity. Qed.
