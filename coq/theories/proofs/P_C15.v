(* Proofs for C15: ControlHandle::enable_streaming (model/Control.v: compute_sizes,
   ctl_enable_streaming, stream_params).

   Part 1  the size computation: covering inequalities, alignment, register ranges, the exact
           set of rejected requirements, and the three defects of the pinned code
           (trailer read from the leader register, unchecked align!, truncated transfer count).
   Part 2  the program against ANY scripted device (arbitrary failure plans, arbitrary replies):
           reads never write; a register write reaches the device at most once and exactly once
           when it returns Ok; the device write log left by enable_streaming is a prefix of
           [disable?; size; count; final1; final2; leader; trailer; enable], complete when Ok.
   Part 3  failure propagation through the bindM chain. *)
From Cam Require Import Outcome Bytes Chunks Cmd Ack CmdLayout Control P_C09.

(* ================================================================================== *)
(* Part 1 : compute_sizes                                                             *)
(* ================================================================================== *)

Lemma pow2_range k : 0 <= k <= 31 -> 1 <= 2 ^ k <= 2 ^ 31.
Proof.
  intros H. split.
  - change 1 with (2 ^ 0). apply Z.pow_le_mono_r; lia.
  - apply Z.pow_le_mono_r; lia.
Qed.

Lemma p31 : 2 ^ 31 = 2147483648. Proof. reflexivity. Qed.
Lemma p32 : 2 ^ 32 = 4294967296. Proof. reflexivity. Qed.
Lemma p64 : 2 ^ 64 = 18446744073709551616. Proof. reflexivity. Qed.

(* the value of align!: the least multiple of al that is >= x *)
Definition aligned (x al : Z) : Z := (x + (al - 1)) - (x + (al - 1)) mod al.

Lemma aligned_spec x al : 0 < al -> x <= aligned x al < x + al /\ aligned x al mod al = 0.
Proof.
  intros H. unfold aligned. set (y := x + (al - 1)).
  pose proof (Z.mod_pos_bound y al H) as B. split; [lia|].
  rewrite (Z.div_mod y al) at 1 by lia.
  replace (al * (y / al) + y mod al - y mod al) with ((y / al) * al) by lia.
  apply Z.mod_mul. lia.
Qed.

Lemma multiple_ge x al : 0 < al -> x mod al = 0 -> 0 < x -> al <= x.
Proof.
  intros Ha Hm Hx. destruct (Z_lt_le_dec x al) as [L|L]; [|exact L].
  rewrite Z.mod_small in Hm by lia. lia.
Qed.

Lemma mod0_sub a b al : 0 < al -> a mod al = 0 -> b mod al = 0 -> (a - b) mod al = 0.
Proof.
  intros H Ha Hb. rewrite Zminus_mod, Ha, Hb. reflexivity.
Qed.

(* the least aligned value is below every other aligned value that covers x *)
Lemma aligned_least x al m : 0 < al -> m mod al = 0 -> x <= m -> aligned x al <= m.
Proof.
  intros Ha Hm Hx. destruct (aligned_spec x al Ha) as [[L U] M].
  destruct (Z_lt_le_dec m (aligned x al)) as [C|C]; [|exact C].
  assert (D : (aligned x al - m) mod al = 0) by (apply mod0_sub; assumption).
  pose proof (multiple_ge _ _ Ha D ltac:(lia)). lia.
Qed.

Lemma align_run w x al (s : st) :
  align w x al s = if x + (al - 1) <? 2 ^ w then (Ok (aligned x al), s) else (Err CE_INVALID_DEVICE, s).
Proof. unfold align, aligned. destruct (x + (al - 1) <? 2 ^ w); reflexivity. Qed.

(* payload transfer size for an alignment of 2^k *)
Definition pts_of (al : Z) : Z := aligned PAYLOAD_TRANSFER_SIZE al.

Lemma pts_value k : 0 <= k <= 31 -> pts_of (2 ^ k) = if k <=? 16 then 65536 else 2 ^ k.
Proof.
  intros H.
  assert (C : k = 0 \/ k = 1 \/ k = 2 \/ k = 3 \/ k = 4 \/ k = 5 \/ k = 6 \/ k = 7 \/ k = 8 \/ k = 9 \/
              k = 10 \/ k = 11 \/ k = 12 \/ k = 13 \/ k = 14 \/ k = 15 \/ k = 16 \/ k = 17 \/ k = 18 \/
              k = 19 \/ k = 20 \/ k = 21 \/ k = 22 \/ k = 23 \/ k = 24 \/ k = 25 \/ k = 26 \/ k = 27 \/
              k = 28 \/ k = 29 \/ k = 30 \/ k = 31) by lia.
  repeat (destruct C as [C|C]; [subst k; vm_compute; reflexivity|]). subst k. vm_compute. reflexivity.
Qed.

Lemma pts_facts al : 1 <= al <= 2 ^ 31 ->
  65536 <= pts_of al < 2 ^ 32 /\ pts_of al mod al = 0 /\ 65536 + (al - 1) < 2 ^ 32.
Proof.
  intros H. rewrite p31 in H. rewrite p32.
  destruct (aligned_spec 65536 al ltac:(lia)) as [[L U] M].
  unfold pts_of, PAYLOAD_TRANSFER_SIZE. repeat split; try assumption; lia.
Qed.

(* what the required sizes must satisfy to be programmable *)
Definition fits32 (req al : Z) : Prop := req = 0 \/ req + (al - 1) < 2 ^ 32.
Definition programmable (al rl rp rt : Z) : Prop :=
  rp / pts_of al < 2 ^ 32 /\ fits32 rl al /\ fits32 rt al.

Definition plan_of (al rl rp rt : Z) : sirm_plan :=
  {| sp_size := pts_of al; sp_count := rp / pts_of al;
     sp_final1 := wrapu 32 (aligned (rp mod pts_of al) al); sp_final2 := 0;
     sp_leader := if rl =? 0 then pts_of al else aligned rl al;
     sp_trailer := if rt =? 0 then pts_of al else aligned rt al |}.

Lemma fits32_dec req al : {fits32 req al} + {~ fits32 req al}.
Proof.
  unfold fits32. destruct (Z.eq_dec req 0) as [E|E]; [left; left; exact E|].
  destruct (Z_lt_le_dec (req + (al - 1)) (2 ^ 32)) as [L|L]; [left; right; exact L|].
  right. intros [H|H]; lia.
Qed.

Lemma sized_run req al pts (s : st) :
  (if req =? 0 then ret pts else align 32 req al) s =
  if req =? 0 then (Ok pts, s)
  else if req + (al - 1) <? 2 ^ 32 then (Ok (aligned req al), s) else (Err CE_INVALID_DEVICE, s).
Proof. destruct (req =? 0); [reflexivity|apply align_run]. Qed.

(* compute_sizes, evaluated: no state change, never a panic, Ok exactly on programmable
   requirements, InvalidDevice otherwise *)
Lemma compute_sizes_run al rl rp rt (s : st) : 1 <= al <= 2 ^ 31 -> 0 <= rp < 2 ^ 64 ->
  (programmable al rl rp rt /\ compute_sizes al rl rp rt s = (Ok (plan_of al rl rp rt), s)) \/
  (~ programmable al rl rp rt /\ compute_sizes al rl rp rt s = (Err CE_INVALID_DEVICE, s)).
Proof.
  intros Hal Hrp. destruct (pts_facts al Hal) as [[P1 P2] [P3 P4]].
  unfold compute_sizes, bindM. rewrite align_run.
  destruct (PAYLOAD_TRANSFER_SIZE + (al - 1) <? 2 ^ 32) eqn:E0;
    [|unfold PAYLOAD_TRANSFER_SIZE in E0; lia].
  fold (pts_of al).
  destruct (rp / pts_of al <? 2 ^ 32) eqn:E1.
  2:{ right. split; [|reflexivity]. intros [H _]. lia. }
  cbn [ret]. rewrite align_run.
  assert (F1 : rp mod pts_of al + (al - 1) < 2 ^ 64).
  { pose proof (Z.mod_pos_bound rp (pts_of al) ltac:(lia)). rewrite p31 in Hal. rewrite p32 in P2.
    rewrite p64. lia. }
  destruct (rp mod pts_of al + (al - 1) <? 2 ^ 64) eqn:E2; [|lia].
  rewrite sized_run.
  destruct (rl =? 0) eqn:L0.
  - rewrite sized_run. destruct (rt =? 0) eqn:T0.
    + left. split; [|unfold plan_of; rewrite L0, T0; reflexivity].
      split; [lia|]. split; left; lia.
    + destruct (rt + (al - 1) <? 2 ^ 32) eqn:T1.
      * left. split; [|unfold plan_of; rewrite L0, T0; reflexivity].
        split; [lia|]. split; [left; lia|right; lia].
      * right. split; [|reflexivity]. intros [_ [_ [H|H]]]; lia.
  - destruct (rl + (al - 1) <? 2 ^ 32) eqn:L1.
    2:{ right. split; [|reflexivity]. intros [_ [[H|H] _]]; lia. }
    rewrite sized_run. destruct (rt =? 0) eqn:T0.
    + left. split; [|unfold plan_of; rewrite L0, T0; reflexivity].
      split; [lia|]. split; [right; lia|left; lia].
    + destruct (rt + (al - 1) <? 2 ^ 32) eqn:T1.
      * left. split; [|unfold plan_of; rewrite L0, T0; reflexivity].
        split; [lia|]. split; right; lia.
      * right. split; [|reflexivity]. intros [_ [_ [H|H]]]; lia.
Qed.

(* the final transfer never exceeds one payload transfer, so "as u32" keeps it *)
Lemma final1_bound rp al : 1 <= al <= 2 ^ 31 -> 0 <= rp ->
  rp mod pts_of al <= aligned (rp mod pts_of al) al <= pts_of al /\
  aligned (rp mod pts_of al) al mod al = 0.
Proof.
  intros Hal Hrp. destruct (pts_facts al Hal) as [[P1 P2] [P3 _]].
  pose proof (Z.mod_pos_bound rp (pts_of al) ltac:(lia)) as B.
  destruct (aligned_spec (rp mod pts_of al) al ltac:(lia)) as [[L U] M].
  split; [|exact M]. split; [exact L|]. apply aligned_least; lia.
Qed.

Record covers (al rl rp rt : Z) (p : sirm_plan) : Prop := {
  cv_leader : rl <= sp_leader p;
  cv_trailer : rt <= sp_trailer p;
  cv_payload : rp <= sp_size p * sp_count p + sp_final1 p + sp_final2 p;
  cv_al_size : sp_size p mod al = 0;
  cv_al_final1 : sp_final1 p mod al = 0;
  cv_al_final2 : sp_final2 p mod al = 0;
  cv_al_leader : sp_leader p mod al = 0;
  cv_al_trailer : sp_trailer p mod al = 0;
  cv_r_size : 0 <= sp_size p < 2 ^ 32;
  cv_r_count : 0 <= sp_count p < 2 ^ 32;
  cv_r_final1 : 0 <= sp_final1 p < 2 ^ 32;
  cv_r_final2 : 0 <= sp_final2 p < 2 ^ 32;
  cv_r_leader : 0 <= sp_leader p < 2 ^ 32;
  cv_r_trailer : 0 <= sp_trailer p < 2 ^ 32;
  cv_size_pos : 0 < sp_size p
}.

Lemma sized_covers req al : 1 <= al <= 2 ^ 31 -> 0 <= req -> fits32 req al ->
  let v := if req =? 0 then pts_of al else aligned req al in
  req <= v /\ v mod al = 0 /\ 0 <= v < 2 ^ 32.
Proof.
  intros Hal Hr F v. subst v. destruct (pts_facts al Hal) as [[P1 P2] [P3 _]].
  destruct (req =? 0) eqn:E.
  - apply Z.eqb_eq in E. subst req. repeat split; try assumption; lia.
  - apply Z.eqb_neq in E. destruct F as [F|F]; [contradiction|].
    destruct (aligned_spec req al ltac:(lia)) as [[L U] M]. repeat split; try assumption; lia.
Qed.

Lemma plan_covers al rl rp rt : 1 <= al <= 2 ^ 31 -> 0 <= rl -> 0 <= rp -> 0 <= rt ->
  programmable al rl rp rt -> covers al rl rp rt (plan_of al rl rp rt).
Proof.
  intros Hal Hl Hp Ht [C [FL FT]]. destruct (pts_facts al Hal) as [[P1 P2] [P3 _]].
  destruct (final1_bound rp al Hal Hp) as [[F1 F2] F3].
  destruct (sized_covers rl al Hal Hl FL) as [L1 [L2 L3]].
  destruct (sized_covers rt al Hal Ht FT) as [T1 [T2 T3]].
  pose proof (Z.mod_pos_bound rp (pts_of al) ltac:(lia)) as B.
  assert (W : wrapu 32 (aligned (rp mod pts_of al) al) = aligned (rp mod pts_of al) al).
  { unfold wrapu. apply Z.mod_small. lia. }
  assert (Q : 0 <= rp / pts_of al) by (apply Z.div_pos; lia).
  constructor; unfold plan_of; cbn [sp_size sp_count sp_final1 sp_final2 sp_leader sp_trailer];
    rewrite ?W; try assumption; try lia.
  - pose proof (Z.div_mod rp (pts_of al) ltac:(lia)). lia.
  - apply Z.mod_0_l. lia.
Qed.

(* C15_covers at the level of the size computation *)
Lemma compute_sizes_covers k rl rp rt (s s' : st) p : 0 <= k <= 31 -> 0 <= rl -> 0 <= rp < 2 ^ 64 -> 0 <= rt ->
  compute_sizes (2 ^ k) rl rp rt s = (Ok p, s') -> s' = s /\ covers (2 ^ k) rl rp rt p.
Proof.
  intros Hk Hl Hp Ht H. pose proof (pow2_range k Hk) as Hal.
  destruct (compute_sizes_run (2 ^ k) rl rp rt s Hal Hp) as [[Pr E]|[_ E]]; rewrite E in H.
  - inversion H; subst. split; [reflexivity|]. apply plan_covers; try assumption; lia.
  - discriminate H.
Qed.

Lemma compute_sizes_no_panic k rl rp rt (s s' : st) : 0 <= k <= 31 -> 0 <= rp < 2 ^ 64 ->
  compute_sizes (2 ^ k) rl rp rt s <> (Panic, s').
Proof.
  intros Hk Hp H. destruct (compute_sizes_run (2 ^ k) rl rp rt s (pow2_range k Hk) Hp) as [[_ E]|[_ E]];
    rewrite E in H; discriminate H.
Qed.

(* Ok exactly on the programmable requirements *)
Lemma compute_sizes_ok_iff k rl rp rt (s : st) : 0 <= k <= 31 -> 0 <= rp < 2 ^ 64 ->
  (programmable (2 ^ k) rl rp rt -> compute_sizes (2 ^ k) rl rp rt s = (Ok (plan_of (2 ^ k) rl rp rt), s)) /\
  (~ programmable (2 ^ k) rl rp rt -> compute_sizes (2 ^ k) rl rp rt s = (Err CE_INVALID_DEVICE, s)).
Proof.
  intros Hk Hp. destruct (compute_sizes_run (2 ^ k) rl rp rt s (pow2_range k Hk) Hp) as [[Pr E]|[Pr E]];
    split; intros; try assumption; contradiction.
Qed.

(* a refused leader / trailer requirement cannot be covered by ANY aligned 32-bit value *)
Lemma refused_size_uncoverable k req m : 0 <= k <= 31 -> ~ fits32 req (2 ^ k) ->
  0 <= m < 2 ^ 32 -> m mod 2 ^ k = 0 -> req <= m -> False.
Proof.
  intros Hk F Hm Hd Hc. pose proof (pow2_range k Hk) as Hal.
  assert (N : req <> 0 /\ 2 ^ 32 <= req + (2 ^ k - 1)).
  { unfold fits32 in F. split; [intros E; apply F; left; exact E|].
    destruct (Z_lt_le_dec (req + (2 ^ k - 1)) (2 ^ 32)); [exfalso; apply F; right; assumption|assumption]. }
  assert (D32 : 2 ^ 32 mod 2 ^ k = 0).
  { replace 32 with (k + (32 - k)) by lia. rewrite Z.pow_add_r by lia. rewrite Z.mul_comm. apply Z.mod_mul. lia. }
  assert (D : (2 ^ 32 - m) mod 2 ^ k = 0) by (apply mod0_sub; try assumption; lia).
  assert (P0 : 0 < 2 ^ k) by lia. assert (P1 : 0 < 2 ^ 32 - m) by lia.
  pose proof (multiple_ge _ _ P0 D P1). lia.
Qed.

(* inside the quantifier of the property (alignment exponent <= 16, leader / trailer up to
   2^32 - 2^k, payload below 2^48) every requirement is programmable *)
Lemma quantifier_programmable k rl rp rt : 0 <= k <= 16 ->
  0 <= rl <= 2 ^ 32 - 2 ^ k -> 0 <= rt <= 2 ^ 32 - 2 ^ k -> 0 <= rp < 2 ^ 48 ->
  programmable (2 ^ k) rl rp rt.
Proof.
  intros Hk Hl Ht Hp. unfold programmable, fits32.
  rewrite pts_value by lia. destruct (k <=? 16) eqn:E; [|lia].
  split; [|split; right; lia].
  apply Z.div_lt_upper_bound; [lia|]. change (65536 * 2 ^ 32) with (2 ^ 48). lia.
Qed.

(* ---- the pinned code ------------------------------------------------------------------ *)

(* align! before commit 03aec4e: unchecked addition (debug build: panic) *)
Definition align_v0 (w x al : Z) : M Z :=
  if x + (al - 1) <? 2 ^ w then ret ((x + (al - 1)) - (x + (al - 1)) mod al) else panic.

(* the size computation of the pinned commit as a function of the SIRM registers
   REQUIRED_LEADER_SIZE / REQUIRED_PAYLOAD_SIZE / REQUIRED_TRAILER_SIZE: the trailer requirement
   was read with sirm.required_leader_size (fixed by 9f212d6), the additions were unchecked
   (03aec4e) and the count was cast with "as u32" (7004d0a).  [trailer_fixed] selects the code
   after 9f212d6. *)
Definition compute_sizes_v0 (trailer_fixed : bool) (al reg_leader reg_payload reg_trailer : Z) : M sirm_plan :=
  let req_leader := reg_leader in
  let req_payload := reg_payload in
  let req_trailer := if trailer_fixed then reg_trailer else reg_leader in
  do pts <- align_v0 32 PAYLOAD_TRANSFER_SIZE al;
  let count := wrapu 32 (req_payload / pts) in
  do f1 <- align_v0 64 (req_payload mod pts) al;
  do ml <- (if req_leader =? 0 then ret pts else align_v0 32 req_leader al);
  do mt <- (if req_trailer =? 0 then ret pts else align_v0 32 req_trailer al);
  ret {| sp_size := pts; sp_count := count; sp_final1 := wrapu 32 f1; sp_final2 := 0;
         sp_leader := ml; sp_trailer := mt |}.

Lemma trailer_v0_refuted : forall s : st,
  exists p, compute_sizes_v0 false 1 52 1000 64 s = (Ok p, s) /\ sp_trailer p = 52 /\ sp_trailer p < 64.
Proof. intros s. eexists. split; [vm_compute; reflexivity|]. cbn [sp_trailer]. lia. Qed.

Lemma align_overflow_v0_refuted : forall s : st,
  compute_sizes_v0 true (2 ^ 16) (2 ^ 32 - 1) 1000 64 s = (Panic, s).
Proof. intros s. vm_compute. reflexivity. Qed.

Lemma count_truncation_v0_refuted : forall s : st,
  exists p, compute_sizes_v0 true (2 ^ 4) 52 (2 ^ 48) 64 s = (Ok p, s) /\
            sp_size p * sp_count p + sp_final1 p + sp_final2 p = 0.
Proof. intros s. eexists. split; [vm_compute; reflexivity|]. reflexivity. Qed.

(* the repaired code on the same inputs *)
Lemma trailer_fixed_example : forall s : st,
  exists p, compute_sizes 1 52 1000 64 s = (Ok p, s) /\ sp_trailer p = 64 /\ sp_leader p = 52.
Proof. intros s. eexists. split; [vm_compute; reflexivity|]. split; reflexivity. Qed.

Lemma align_overflow_fixed_example : forall s : st,
  compute_sizes (2 ^ 16) (2 ^ 32 - 1) 1000 64 s = (Err CE_INVALID_DEVICE, s).
Proof. intros s. vm_compute. reflexivity. Qed.

Lemma count_truncation_fixed_example : forall s : st,
  compute_sizes (2 ^ 4) 52 (2 ^ 48) 64 s = (Err CE_INVALID_DEVICE, s).
Proof. intros s. vm_compute. reflexivity. Qed.

(* ================================================================================== *)
(* Part 2 : the program against any scripted device                                   *)
(* ================================================================================== *)

(* ---- monad laws, pointwise (no functional extensionality) ----------------------------- *)

Lemma bindM_ext {A B} (m : M A) (f g : A -> M B) s :
  (forall a s', m s = (Ok a, s') -> f a s' = g a s') -> bindM m f s = bindM m g s.
Proof. intros H. unfold bindM. destruct (m s) as [[a|e|] s'] eqn:E; auto. Qed.

Lemma bindM_assoc {A B C} (m : M A) (f : A -> M B) (g : B -> M C) s :
  bindM (bindM m f) g s = bindM m (fun a => bindM (f a) g) s.
Proof. unfold bindM. destruct (m s) as [[a|e|] s']; reflexivity. Qed.

Lemma bindM_ret_r (m : M unit) s : bindM m (fun _ => ret tt) s = m s.
Proof. unfold bindM, ret. destruct (m s) as [[[]|e|] s']; reflexivity. Qed.

Lemma bind_ok {A B} (m : M A) (f : A -> M B) s a s' : m s = (Ok a, s') -> bindM m f s = f a s'.
Proof. intros H. unfold bindM. rewrite H. reflexivity. Qed.

Lemma bind_err {A B} (m : M A) (f : A -> M B) s e s' : m s = (Err e, s') -> bindM m f s = (Err e, s').
Proof. intros H. unfold bindM. rewrite H. reflexivity. Qed.

Lemma bind_panic {A B} (m : M A) (f : A -> M B) s s' : m s = (Panic, s') -> bindM m f s = (Panic, s').
Proof. intros H. unfold bindM. rewrite H. reflexivity. Qed.

Lemma bind_lift_ok {A B} (x : A) cls (f : A -> M B) s : bindM (lift (Ok x) cls) f s = f x s.
Proof. reflexivity. Qed.

(* ---- quiet computations: they keep the handle usable and do not write to the device ---- *)

Definition good (c : ctl) : Prop := 0 <= c_next c < 2 ^ 16 /\ 24 <= c_max_cmd c.

Definition quiet {A} (m : M A) : Prop :=
  forall c w r c' w', good c -> m (c, w) = (r, (c', w')) -> good c' /\ w_writes w' = w_writes w.

Lemma quiet_ret {A} (a : A) : quiet (ret a).
Proof. intros c w r c' w' G H. inversion H; subst. auto. Qed.
Lemma quiet_fail {A} e : quiet (@fail A e).
Proof. intros c w r c' w' G H. inversion H; subst. auto. Qed.
Lemma quiet_panic {A} : quiet (@panic A).
Proof. intros c w r c' w' G H. inversion H; subst. auto. Qed.
Lemma quiet_lift {A} (x : outcome A) cls : quiet (lift x cls).
Proof. intros c w r c' w' G H. unfold lift in H. destruct x; inversion H; subst; auto. Qed.
Lemma quiet_get_ctl : quiet get_ctl.
Proof. intros c w r c' w' G H. inversion H; subst. auto. Qed.
Lemma quiet_upd_ctl f : (forall c, good c -> good (f c)) -> quiet (upd_ctl f).
Proof. intros F c w r c' w' G H. inversion H; subst. auto. Qed.
Lemma quiet_reg_addr b o : quiet (reg_addr b o).
Proof. unfold reg_addr. destruct (b + o <? 2 ^ 64); [apply quiet_ret|apply quiet_fail]. Qed.
Lemma quiet_assert_open : quiet assert_open.
Proof.
  intros c w r c' w' G H. unfold assert_open in H. cbn [fst] in H.
  destruct (c_opened c); inversion H; subst; auto.
Qed.

Lemma quiet_bind {A B} (m : M A) (f : A -> M B) : quiet m -> (forall a, quiet (f a)) -> quiet (bindM m f).
Proof.
  intros Qm Qf c w r c' w' G H. unfold bindM in H.
  destruct (m (c, w)) as [[a|e|] [c1 w1]] eqn:E.
  - destruct (Qm _ _ _ _ _ G E) as [G1 W1]. destruct (Qf a _ _ _ _ _ G1 H) as [G2 W2].
    split; [exact G2|congruence].
  - inversion H; subst. exact (Qm _ _ _ _ _ G E).
  - inversion H; subst. exact (Qm _ _ _ _ _ G E).
Qed.

(* ---- the device side: what a command does to the write log -------------------------------- *)

Lemma on_recv_writes w b : w_writes (snd (on_recv w b)) = w_writes w.
Proof.
  unfold on_recv. destruct (w_replies w) as [|r rest]; [reflexivity|].
  destruct r; try reflexivity;
    match goal with |- context [if ?x then _ else _] => destruct x end; reflexivity.
Qed.

Lemma recv_loop_quiet fuel : forall retry ek, quiet (recv_loop fuel retry ek).
Proof.
  induction fuel as [|f IH]; intros retry ek c w r c' w' G H; cbn [recv_loop] in H.
  - inversion H; subst. auto.
  - destruct (retry <=? 0); [inversion H; subst; auto|].
    pose proof (on_recv_writes w (c_buflen c)) as W.
    destruct (on_recv w (c_buflen c)) as [r0 w1]. cbn [snd] in W.
    destruct r0 as [bytes|e|]; [|inversion H; subst; auto|inversion H; subst; auto].
    destruct (parse_ack bytes) as [a|e|]; [|inversion H; subst; auto|inversion H; subst; auto].
    destruct (negb (a_status a =? 0)); [inversion H; subst; auto|].
    destruct (negb (a_request_id a =? c_next c)); [inversion H; subst; auto|].
    destruct (a_kind a =? 4).
    + destruct (view_pending a); [|inversion H; subst; auto|inversion H; subst; auto].
      destruct (IH _ _ _ _ _ _ _ G H) as [G' W']. split; [exact G'|congruence].
    + destruct (negb (a_kind a =? ek)); [inversion H; subst; auto|].
      inversion H; subst. split; [|exact W].
      destruct G as [G1 G2]. split; [|exact G2]. cbn [c_set_next c_next]. unfold wrapu.
      apply Z.mod_pos_bound. reflexivity.
Qed.

Lemma ser_read_norm a n id :
  serialize_vec (CRead a n) id = serialize_vec (CRead (a mod 2 ^ 64) (n mod 2 ^ 16)) id.
Proof.
  rewrite !serialize_vec_enc. unfold enc, enc_header, enc_scd, enc_read_entry. cbn [fst snd scd_kind_id scd_len].
  rewrite <- (le_bytes_mod 8 a), <- (le_bytes_mod 2 n). rewrite pow256_8, pow256_2. reflexivity.
Qed.

Lemma ser_write_norm wm id :
  serialize_vec (CWrite wm) id =
  serialize_vec (CWrite {| wm_addr := wm_addr wm mod 2 ^ 64; wm_data := wm_data wm;
                           wm_data_len := wm_data_len wm; wm_len := wm_len wm |}) id.
Proof.
  rewrite !serialize_vec_enc. unfold enc, enc_header, enc_scd. cbn [scd_kind_id scd_len wm_addr wm_data wm_len].
  rewrite <- (le_bytes_mod 8 (wm_addr wm)). rewrite pow256_8. reflexivity.
Qed.

Lemma conform_read_writes w a n id : 0 <= id < 2 ^ 16 ->
  w_writes (snd (conform w (serialize_vec (CRead a n) id))) = w_writes w.
Proof.
  intros Hid. rewrite ser_read_norm. unfold conform.
  rewrite layout; [|cbn [cmd_ok]; split; apply Z.mod_pos_bound; reflexivity|exact Hid].
  cbn [abs_cmd]. destruct (seg_read _ _ _); reflexivity.
Qed.

Definition wm_of (a : Z) (d : list Z) : write_mem :=
  {| wm_addr := a; wm_data := d; wm_data_len := zlen d; wm_len := zlen d + 8 |}.

Lemma conform_write_writes w a d id : 0 <= id < 2 ^ 16 -> zlen d <= 65527 -> bytes_ok d ->
  w_writes (snd (conform w (serialize_vec (CWrite (wm_of a d)) id))) = (a mod 2 ^ 64, d) :: w_writes w.
Proof.
  intros Hid Hd Hb. rewrite ser_write_norm. unfold conform.
  rewrite layout; [| |exact Hid].
  - cbn [abs_cmd wm_of wm_addr wm_data]. destruct (seg_write _ _ _); reflexivity.
  - cbn [cmd_ok wm_of wm_addr wm_data wm_data_len wm_len]. unfold wm_ok. cbn [wm_data wm_data_len wm_len].
    repeat split; try lia; try exact Hb; apply Z.mod_pos_bound; reflexivity.
Qed.

(* on_send: the command reaches the device unless the bulk-out transfer fails *)
Lemma on_send_cases w bytes :
  (exists e w1, on_send w bytes = (Err e, w1) /\ w_writes w1 = w_writes w) \/
  (exists w1, on_send w bytes = (Ok tt, w1) /\ w_writes w1 = w_writes (snd (conform (w_logev
      {| w_segs := w_segs w; w_plans := match w_plans w with [] => [] | _ :: r => r end;
         w_replies := w_replies w; w_cur_ack := w_cur_ack w; w_cur_rid := w_cur_rid w; w_log := w_log w;
         w_open_err := w_open_err w; w_writes := w_writes w |} (WSend bytes)) bytes))).
Proof.
  unfold on_send. destruct (w_plans w) as [|p rest].
  - cbn [default_plan tp_send_err]. right.
    destruct (conform _ bytes) as [ack w1] eqn:E. eexists. split; [reflexivity|]. cbn [w_writes snd]. reflexivity.
  - destruct (tp_send_err p) as [e|].
    + left. eexists. eexists. split; [reflexivity|]. reflexivity.
    + right. destruct (conform _ bytes) as [ack w1] eqn:E. eexists. split; [reflexivity|]. reflexivity.
Qed.

Lemma send_read_quiet a n : quiet (send_cmd (CRead a n)).
Proof.
  intros c w r c' w' G H. unfold send_cmd in H.
  destruct (c_max_cmd c <? cmd_len (CRead a n)); [inversion H; subst; auto|].
  set (need := Z.max (cmd_len (CRead a n)) (maximum_ack_len (CRead a n))) in H.
  set (c1 := if c_buflen c <? need then c_set_buflen c need else c) in H.
  assert (G1 : good c1) by (subst c1; destruct (c_buflen c <? need); exact G).
  destruct (on_send_cases w (serialize_vec (CRead a n) (c_next c))) as [[e [w1 [E W]]]|[w1 [E W]]];
    rewrite E in H.
  - inversion H; subst. auto.
  - rewrite conform_read_writes in W by apply G. cbn [w_logev w_set_log w_writes] in W.
    destruct (recv_loop_quiet _ _ _ _ _ _ _ _ G1 H) as [G' W']. split; [exact G'|congruence].
Qed.

(* a write command: either it never reaches the device (and the result is not Ok), or the device
   logs exactly this write *)
Lemma send_write_any a d c w r c' w' : zlen d <= 65527 -> bytes_ok d -> good c ->
  send_cmd (CWrite (wm_of a d)) (c, w) = (r, (c', w')) ->
  good c' /\ ((w_writes w' = w_writes w /\ forall x, r <> Ok x) \/ w_writes w' = (a mod 2 ^ 64, d) :: w_writes w).
Proof.
  intros Hd Hb G H. unfold send_cmd in H.
  destruct (c_max_cmd c <? cmd_len (CWrite (wm_of a d))).
  { inversion H; subst. split; [exact G|]. left. split; [reflexivity|discriminate]. }
  set (need := Z.max (cmd_len (CWrite (wm_of a d))) (maximum_ack_len (CWrite (wm_of a d)))) in H.
  set (c1 := if c_buflen c <? need then c_set_buflen c need else c) in H.
  assert (G1 : good c1) by (subst c1; destruct (c_buflen c <? need); exact G).
  destruct (on_send_cases w (serialize_vec (CWrite (wm_of a d)) (c_next c))) as [[e [w1 [E W]]]|[w1 [E W]]];
    rewrite E in H.
  - inversion H; subst. split; [exact G1|]. left. split; [exact W|discriminate].
  - rewrite conform_write_writes in W by (try apply G; assumption). cbn [w_logev w_set_log w_writes] in W.
    destruct (recv_loop_quiet _ _ _ _ _ _ _ _ G1 H) as [G' W']. split; [exact G'|]. right. congruence.
Qed.

(* ---- DeviceControl::read is quiet ------------------------------------------------------------ *)

Lemma read_loop_quiet fuel : forall addr remaining chunk acc, quiet (read_loop fuel addr remaining chunk acc).
Proof.
  induction fuel as [|f IH]; intros addr remaining chunk acc; cbn [read_loop]; [apply quiet_fail|].
  destruct (remaining <=? 0); [apply quiet_ret|].
  apply quiet_bind; [apply send_read_quiet|]. intros a.
  apply quiet_bind; [apply quiet_lift|]. intros data.
  destruct (negb (zlen data =? Z.min chunk remaining)); [apply quiet_fail|apply IH].
Qed.

Lemma quiet_verify_range a n : quiet (verify_range a n).
Proof. unfold verify_range. destruct (_ || _); [apply quiet_fail|apply quiet_ret]. Qed.

(* one step of a structural proof that a monadic program is quiet *)
Ltac qstep :=
  first [ apply quiet_ret | apply quiet_fail | apply quiet_panic | apply quiet_lift | apply quiet_get_ctl
        | apply quiet_reg_addr | apply quiet_assert_open | apply quiet_verify_range | apply read_loop_quiet
        | (apply quiet_bind; [|intros ?])
        | match goal with
          | |- quiet (if ?b then _ else _) => destruct b
          | |- quiet (match ?x with _ => _ end) => destruct x
          end ].

Lemma ctl_read_quiet addr len : quiet (ctl_read addr len).
Proof. unfold ctl_read. repeat qstep. Qed.

Lemma read_reg_quiet addr len : quiet (read_reg addr len).
Proof. unfold read_reg. apply quiet_bind; [apply ctl_read_quiet|]. intros bs. apply quiet_ret. Qed.

Ltac qb := apply quiet_bind; [|intros ?].

Lemma good_cache c a b s : good c ->
  good {| c_opened := c_opened c; c_next := c_next c; c_retry := c_retry c; c_max_cmd := c_max_cmd c;
          c_max_ack := c_max_ack c; c_buflen := c_buflen c; c_abrm := a; c_sbrm := b; c_sirm := s |}.
Proof. intros G. exact G. Qed.

Lemma h_abrm_quiet : quiet h_abrm.
Proof.
  unfold h_abrm. qb; [apply quiet_get_ctl|]. destruct (c_abrm a); [apply quiet_ret|].
  qb; [apply read_reg_quiet|]. qb; [|apply quiet_ret]. apply quiet_upd_ctl. intros c G. apply good_cache, G.
Qed.

Lemma abrm_sbrm_quiet : quiet abrm_sbrm.
Proof.
  unfold abrm_sbrm. qb; [apply read_reg_quiet|]. qb; [apply quiet_reg_addr|]. qb; [apply read_reg_quiet|].
  apply quiet_ret.
Qed.

Lemma h_sbrm_quiet : quiet h_sbrm.
Proof.
  unfold h_sbrm. qb; [apply quiet_get_ctl|]. destruct (c_sbrm a); [apply quiet_ret|].
  qb; [apply h_abrm_quiet|]. qb; [apply abrm_sbrm_quiet|]. qb; [|apply quiet_ret].
  apply quiet_upd_ctl. intros c G. apply good_cache, G.
Qed.

Lemma sbrm_sirm_address_quiet s : quiet (sbrm_sirm_address s).
Proof.
  unfold sbrm_sirm_address. destruct (Z.odd (snd s)); [|apply quiet_ret].
  qb; [apply quiet_reg_addr|]. qb; [apply read_reg_quiet|]. apply quiet_ret.
Qed.

Lemma h_sirm_quiet : quiet h_sirm.
Proof.
  unfold h_sirm. qb; [apply quiet_get_ctl|]. destruct (c_sirm a); [apply quiet_ret|].
  qb; [apply h_sbrm_quiet|]. qb; [apply sbrm_sirm_address_quiet|].
  destruct a1; [|apply quiet_fail]. qb; [|apply quiet_ret].
  apply quiet_upd_ctl. intros c G. apply good_cache, G.
Qed.

Lemma compute_sizes_quiet al rl rp rt : quiet (compute_sizes al rl rp rt).
Proof.
  assert (QA : forall w x a, quiet (align w x a)).
  { intros w x a. unfold align. destruct (_ <? _); [apply quiet_ret|apply quiet_fail]. }
  unfold compute_sizes. qb; [apply QA|]. qb; [destruct (_ <? _); [apply quiet_ret|apply quiet_fail]|].
  qb; [apply QA|]. qb; [destruct (_ =? _); [apply quiet_ret|apply QA]|].
  qb; [destruct (_ =? _); [apply quiet_ret|apply QA]|]. apply quiet_ret.
Qed.

Lemma stream_params_quiet : quiet stream_params.
Proof.
  unfold stream_params. qb; [apply read_reg_quiet|]. qb; [apply abrm_sbrm_quiet|].
  qb; [apply sbrm_sirm_address_quiet|]. destruct a1; [|apply quiet_fail].
  unfold sirm_reg.
  repeat (qb; [first [apply quiet_reg_addr|apply read_reg_quiet]|]). apply quiet_ret.
Qed.

(* ---- programs that write: what they add to the device's write log ------------------------ *)

(* [emits m P]: from a usable handle, m leaves a usable handle and appends to the device write
   log a list l (in execution order) with P result l *)
Definition emits {A} (m : M A) (P : outcome A -> list (Z * list Z) -> Prop) : Prop :=
  forall c w r c' w', good c -> m (c, w) = (r, (c', w')) ->
  good c' /\ exists l, w_writes w' = rev l ++ w_writes w /\ P r l.

Definition not_ok {A} (r : outcome A) : Prop := forall x, r <> Ok x.

Lemma emits_weaken {A} (m : M A) (P Q : outcome A -> list (Z * list Z) -> Prop) :
  emits m P -> (forall r l, P r l -> Q r l) -> emits m Q.
Proof.
  intros E I c w r c' w' G H. destruct (E _ _ _ _ _ G H) as [G' [l [W Pl]]].
  split; [exact G'|]. exists l. auto.
Qed.

Lemma emits_ext {A} (m m' : M A) P : (forall s, m s = m' s) -> emits m' P -> emits m P.
Proof. intros X E c w r c' w' G H. rewrite X in H. exact (E _ _ _ _ _ G H). Qed.

Lemma quiet_emits {A} (m : M A) : quiet m -> emits m (fun _ l => l = []).
Proof.
  intros Q c w r c' w' G H. destruct (Q _ _ _ _ _ G H) as [G' W]. split; [exact G'|].
  exists []. split; [exact W|reflexivity].
Qed.

(* a quiet step in front of a program whose specification tolerates an early failure *)
Lemma emits_bind_quiet {A B} (m : M A) (f : A -> M B) (S : outcome B -> list (Z * list Z) -> Prop) :
  (forall e, S (Err e) []) -> S Panic [] -> quiet m -> (forall a, emits (f a) S) -> emits (bindM m f) S.
Proof.
  intros Se Sp Q F c w r c' w' G H. unfold bindM in H.
  destruct (m (c, w)) as [[a|e|] [c1 w1]] eqn:E; destruct (Q _ _ _ _ _ G E) as [G1 W1].
  - destruct (F a _ _ _ _ _ G1 H) as [G2 [l [W2 Pl]]]. split; [exact G2|]. exists l. split; [congruence|exact Pl].
  - inversion H; subst. split; [exact G1|]. exists []. split; [exact W1|apply Se].
  - inversion H; subst. split; [exact G1|]. exists []. split; [exact W1|exact Sp].
Qed.

(* one register-sized write: nothing (and not Ok) or exactly this write *)
Definition one_write (a : Z) (d : list Z) {A} (r : outcome A) (l : list (Z * list Z)) : Prop :=
  (l = [] /\ not_ok r) \/ l = [(a mod 2 ^ 64, d)].

Lemma emits_send_write a d : zlen d <= 65527 -> bytes_ok d ->
  emits (send_cmd (CWrite (wm_of a d))) (one_write a d).
Proof.
  intros Hd Hb c w r c' w' G H. destruct (send_write_any _ _ _ _ _ _ _ Hd Hb G H) as [G' [[W N]|W]].
  - split; [exact G'|]. exists []. split; [exact W|]. left. split; [reflexivity|exact N].
  - split; [exact G'|]. exists [(a mod 2 ^ 64, d)]. split; [exact W|]. right. reflexivity.
Qed.

(* a writing step followed by quiet steps *)
Lemma emits_bind_then_quiet {A B} (m : M A) (f : A -> M B) a d :
  emits m (one_write a d) -> (forall x, quiet (f x)) -> emits (bindM m f) (one_write a d).
Proof.
  intros E Q c w r c' w' G H. unfold bindM in H.
  destruct (m (c, w)) as [[x|e|] [c1 w1]] eqn:Em; destruct (E _ _ _ _ _ G Em) as [G1 [l [W1 P1]]].
  - destruct (Q x _ _ _ _ _ G1 H) as [G2 W2]. split; [exact G2|]. exists l. split; [congruence|].
    destruct P1 as [[_ N]|P1]; [exfalso; exact (N x eq_refl)|]. right. exact P1.
  - inversion H; subst. split; [exact G1|]. exists l. split; [exact W1|].
    destruct P1 as [[L _]|P1]; [left; split; [exact L|discriminate]|right; exact P1].
  - inversion H; subst. split; [exact G1|]. exists l. split; [exact W1|].
    destruct P1 as [[L _]|P1]; [left; split; [exact L|discriminate]|right; exact P1].
Qed.

(* quiet steps in front of a writing step *)
Lemma emits_quiet_then {A B} (m : M A) (f : A -> M B) a d :
  quiet m -> (forall x, emits (f x) (one_write a d)) -> emits (bindM m f) (one_write a d).
Proof.
  intros Q E. apply emits_bind_quiet; try assumption.
  - intros e. left. split; [reflexivity|discriminate].
  - left. split; [reflexivity|discriminate].
Qed.

(* ---- DeviceControl::write of a register-sized value ------------------------------------------ *)

Lemma take_all {A} n (l : list A) : zlen l <= n -> take n l = l.
Proof. intros H. unfold take. apply firstn_all2. unfold zlen in H. lia. Qed.
Lemma drop_all {A} n (l : list A) : zlen l <= n -> drop n l = [].
Proof. intros H. unfold drop. apply skipn_all2. unfold zlen in H. lia. Qed.

Lemma write_mem_new_small a d : zlen d <= 65527 -> write_mem_new a d = Ok (a, d).
Proof.
  intros H. unfold write_mem_new, into_scd_len.
  destruct (zlen d <? 2 ^ 16) eqn:E1; [|lia]. cbn [bind].
  destruct (zlen d + 8 <? 2 ^ 16) eqn:E2; [|lia]. reflexivity.
Qed.

Lemma mk_write_small a d : zlen d <= 65527 -> mk_write a d = Ok (CWrite (wm_of a d)).
Proof.
  intros H. unfold mk_write, mk_write_mem, into_scd_len.
  destruct (zlen d <? 2 ^ 16) eqn:E1; [|lia]. cbn [bind].
  destruct (zlen d + 8 <? 2 ^ 16) eqn:E2; [|lia]. reflexivity.
Qed.

Lemma write_next_first a d m : 0 < zlen d <= m -> zlen d <= 65527 ->
  write_next {| w_addr := a; w_data := d; w_idx := 0; w_max := m |} =
  Ok (Some ((a, d), {| w_addr := a; w_data := d; w_idx := zlen d; w_max := m |})).
Proof.
  intros H1 H2. unfold write_next. cbn [w_idx w_data w_max w_addr].
  destruct (0 =? zlen d) eqn:E1; [lia|]. destruct (0 + m <? zlen d) eqn:E2; [lia|].
  change (drop 0 d) with d. rewrite write_mem_new_small by exact H2. reflexivity.
Qed.

Lemma write_next_done a d m :
  write_next {| w_addr := a; w_data := d; w_idx := zlen d; w_max := m |} = Ok None.
Proof. unfold write_next. cbn [w_idx w_data]. rewrite Z.eqb_refl. reflexivity. Qed.

Definition write1 (a : Z) (d : list Z) : M unit :=
  do ak <- send_cmd (CWrite (wm_of a d)); do n <- lift (view_write ak) CE_IO;
  if negb (n =? zlen d) then fail CE_IO else ret tt.

Lemma write_loop_small f a d m s : 0 < zlen d <= m -> zlen d <= 65527 ->
  write_loop (S (S f)) {| w_addr := a; w_data := d; w_idx := 0; w_max := m |} s = write1 a d s.
Proof.
  intros H1 H2. cbn [write_loop]. rewrite write_next_first by assumption. rewrite bind_lift_ok.
  rewrite mk_write_small by exact H2. rewrite bind_lift_ok. unfold write1.
  apply bindM_ext. intros ak s1 _. apply bindM_ext. intros n s2 _.
  destruct (negb (n =? zlen d)); [reflexivity|].
  rewrite write_next_done. rewrite bind_lift_ok. reflexivity.
Qed.

Lemma write_blocks_small f a d mc s : 0 < zlen d <= mc - 20 -> zlen d <= 65527 ->
  write_blocks (S (S f)) a d mc s = write1 a d s.
Proof.
  intros H1 H2. cbn [write_blocks]. destruct (zlen d =? 0) eqn:E0; [lia|].
  rewrite (take_all MAX_WRITE d) by (unfold MAX_WRITE; lia).
  rewrite (drop_all MAX_WRITE d) by (unfold MAX_WRITE; lia).
  rewrite write_mem_new_small by exact H2. rewrite bind_lift_ok. cbn [fst snd].
  unfold write_chunks_init, WRITE_HEADER_LEN. destruct (mc <=? 20) eqn:E1; [lia|]. rewrite bind_lift_ok.
  destruct d as [|b d']; [unfold zlen in H1; cbn [length] in H1; lia|]. cbn [length].
  transitivity (bindM (write_loop (S (S (length d')))
                  {| w_addr := a; w_data := b :: d'; w_idx := 0; w_max := mc - 20 |}) (fun _ => ret tt) s).
  - apply bindM_ext. intros u s1 _. cbn [write_blocks]. change (zlen (@nil Z) =? 0) with true. reflexivity.
  - rewrite bindM_ret_r. apply write_loop_small; assumption.
Qed.

Lemma emits_write1 a d : zlen d <= 65527 -> bytes_ok d -> emits (write1 a d) (one_write a d).
Proof.
  intros Hd Hb. unfold write1. apply emits_bind_then_quiet; [apply emits_send_write; assumption|].
  intros ak. repeat qstep.
Qed.

Lemma emits_get_ctl {B} (f : ctl -> M B) P : (forall c0, good c0 -> emits (f c0) P) -> emits (bindM get_ctl f) P.
Proof. intros F c w r c' w' G H. unfold bindM, get_ctl in H. cbn [fst] in H. exact (F c G _ _ _ _ _ G H). Qed.

Lemma emits_bind_ret {A B} (x : A) (f : A -> M B) P : emits (f x) P -> emits (bindM (ret x) f) P.
Proof. intros E. exact E. Qed.

Lemma emits_bind_fail {A B} e (f : A -> M B) (P : outcome B -> list (Z * list Z) -> Prop) :
  P (Err e) [] -> emits (bindM (fail e) f) P.
Proof.
  intros Pe c w r c' w' G H. inversion H; subst. split; [exact G|]. exists []. split; [reflexivity|exact Pe].
Qed.

(* a register of at most 4 bytes travels in one WriteMem command once the negotiated maximum
   command length is at least 24 (it is split into several commands below that) *)
Lemma emits_ctl_write a d : 0 < zlen d <= 4 -> bytes_ok d -> emits (ctl_write a d) (one_write a d).
Proof.
  intros Hd Hb. unfold ctl_write.
  repeat match goal with
         | |- emits (bindM get_ctl _) _ => fail 1
         | |- emits (bindM _ _) _ => apply emits_quiet_then; [solve [repeat qstep]|intros ?]
         end.
  apply emits_get_ctl. intros c0 [_ G0].
  destruct d as [|b d'] eqn:Ed; [unfold zlen in Hd; cbn [length] in Hd; lia|]. rewrite <- Ed in *.
  assert (L : S (length d) = S (S (length d'))) by (rewrite Ed; reflexivity). rewrite L.
  eapply emits_ext; [intros s; apply write_blocks_small; lia|]. apply emits_write1; [lia|exact Hb].
Qed.

(* ---- the write sequence of enable_streaming ---------------------------------------------------- *)

Definition img (sirm : Z) (x : Z * Z) : Z * list Z := ((sirm + fst x) mod 2 ^ 64, le_bytes 4 (snd x)).

(* the device log grew by the first n of the intended register writes L; all of them when Ok *)
Definition pref (sirm : Z) (L : list (Z * Z)) (r : outcome unit) (l : list (Z * list Z)) : Prop :=
  exists n, (n <= length L)%nat /\ l = firstn n (map (img sirm) L) /\ (r = Ok tt -> n = length L).

Lemma pref_nothing sirm L (r : outcome unit) : r <> Ok tt -> pref sirm L r [].
Proof. intros N. exists O. split; [lia|]. split; [reflexivity|]. intros E. contradiction. Qed.

Lemma zlen_le4 v : 0 < zlen (le_bytes 4 v) <= 4.
Proof. rewrite zlen_le_bytes. lia. Qed.

Lemma emits_wstep_ex {X} (x0 : X) sirm off v (rest : M unit) (Lf : X -> list (Z * Z)) :
  emits rest (fun r l => exists x, pref sirm (Lf x) r l) ->
  emits (do _ <- write_reg (sirm + off) 4 v; rest) (fun r l => exists x, pref sirm ((off, v) :: Lf x) r l).
Proof.
  intros E c w r c' w' G H. unfold bindM in H.
  destruct (write_reg (sirm + off) 4 v (c, w)) as [[u|e|] [c1 w1]] eqn:Ew;
    destruct (emits_ctl_write _ _ (zlen_le4 v) (le_bytes_ok 4 v) _ _ _ _ _ G Ew) as [G1 [l1 [W1 P1]]].
  - destruct P1 as [[_ N]|P1]; [exfalso; exact (N u eq_refl)|]. subst l1.
    destruct (E _ _ _ _ _ G1 H) as [G2 [l2 [W2 [x [n [Hn [L2 R2]]]]]]].
    split; [exact G2|]. exists (((sirm + off) mod 2 ^ 64, le_bytes 4 v) :: l2). split.
    + rewrite W2, W1. cbn [rev]. rewrite <- !app_assoc. reflexivity.
    + exists x. exists (S n). cbn [length map firstn img fst snd]. split; [lia|]. split; [rewrite L2; reflexivity|].
      intros Er. rewrite (R2 Er). reflexivity.
  - inversion H; subst. split; [exact G1|]. exists l1. split; [exact W1|]. exists x0.
    destruct P1 as [[L1 _]|P1]; subst l1.
    + apply pref_nothing. discriminate.
    + exists 1%nat. cbn [length map firstn img fst snd]. split; [lia|]. split; [reflexivity|discriminate].
  - inversion H; subst. split; [exact G1|]. exists l1. split; [exact W1|]. exists x0.
    destruct P1 as [[L1 _]|P1]; subst l1.
    + apply pref_nothing. discriminate.
    + exists 1%nat. cbn [length map firstn img fst snd]. split; [lia|]. split; [reflexivity|discriminate].
Qed.

Lemma emits_wstep sirm off v (rest : M unit) L : emits rest (pref sirm L) ->
  emits (do a <- sirm_reg sirm off; do _ <- write_reg a 4 v; rest) (pref sirm ((off, v) :: L)).
Proof.
  intros E. unfold sirm_reg, reg_addr. destruct (sirm + off <? 2 ^ 64).
  - apply emits_bind_ret.
    apply emits_weaken with (P := fun r l => exists _ : unit, pref sirm ((off, v) :: L) r l).
    + apply (emits_wstep_ex tt sirm off v rest (fun _ => L)).
      eapply emits_weaken; [exact E|]. intros r l P. exists tt. exact P.
    + intros r l [_ P]. exact P.
  - apply emits_bind_fail. apply pref_nothing. discriminate.
Qed.

Lemma emits_last sirm off v : emits (write_reg (sirm + off) 4 v) (pref sirm [(off, v)]).
Proof.
  eapply emits_weaken; [apply (emits_ctl_write _ _ (zlen_le4 v) (le_bytes_ok 4 v))|].
  intros r l [[L N]|L]; subst l.
  - apply pref_nothing. intros E. exact (N tt E).
  - exists 1%nat. cbn [length map firstn img fst snd]. split; [lia|]. split; [reflexivity|reflexivity].
Qed.

Definition plan_regs (p : sirm_plan) : list (Z * Z) :=
  [(28, sp_size p); (32, sp_count p); (36, sp_final1 p); (40, sp_final2 p); (24, sp_leader p);
   (44, sp_trailer p); (4, 1)].

Definition plan0 : sirm_plan :=
  {| sp_size := 0; sp_count := 0; sp_final1 := 0; sp_final2 := 0; sp_leader := 0; sp_trailer := 0 |}.

(* the register writes enable_streaming intends: clear SI_CONTROL when the stream was found
   enabled, the six size registers, then SI_CONTROL := 1 *)
Definition intended (dis : bool) (p : sirm_plan) : list (Z * Z) :=
  (if dis then [(4, 0)] else []) ++ plan_regs p.

Definition enable_spec (r : outcome unit) (l : list (Z * list Z)) : Prop :=
  exists sirm dis p, pref sirm (intended dis p) r l.

Lemma enable_spec_nothing (r : outcome unit) : r <> Ok tt -> enable_spec r [].
Proof. intros N. exists 0, false, plan0. apply pref_nothing. exact N. Qed.

Ltac nothing := first [ apply enable_spec_nothing; discriminate | exists plan0; apply pref_nothing; discriminate ].
Ltac peel := apply emits_bind_quiet;
  [intros ?e; nothing | nothing
  |first [apply quiet_reg_addr | apply read_reg_quiet | apply compute_sizes_quiet | apply h_sirm_quiet]
  |intros ?].

Theorem enable_any : emits ctl_enable_streaming enable_spec.
Proof.
  unfold ctl_enable_streaming. peel.
  match goal with sirm : Z |- _ => rename sirm into sirm0 end.
  unfold sirm_reg at 1, reg_addr at 1.
  destruct (sirm0 + 4 <? 2 ^ 64); [apply emits_bind_ret|apply emits_bind_fail; nothing].
  peel.
  (* everything after the conditional disable *)
  match goal with |- emits (bindM _ ?k) _ =>
    assert (T : emits (k tt) (fun r l => exists p, pref sirm0 (plan_regs p) r l)) end.
  { cbv beta. unfold sirm_reg. peel. peel.
    match goal with |- emits (if ?b then _ else _) _ => destruct b end.
    { intros c w r c' w' G H. inversion H; subst. split; [exact G|]. exists []. split; [reflexivity|]. nothing. }
    do 7 peel.
    match goal with p : sirm_plan |- _ =>
      apply emits_weaken with (P := pref sirm0 (plan_regs p)); [|intros r l P; exists p; exact P] end.
    unfold plan_regs. fold (sirm_reg sirm0). do 6 apply emits_wstep. apply emits_last. }
  match goal with |- emits (bindM (if Z.odd ?ctrl then _ else _) _) _ => destruct (Z.odd ctrl) end.
  - apply emits_weaken with (P := fun r l => exists p, pref sirm0 ((4, 0) :: plan_regs p) r l).
    + apply (emits_wstep_ex plan0 sirm0 4 0 _ plan_regs). exact T.
    + intros r l [p P]. exists sirm0, true, p. exact P.
  - apply emits_bind_ret. eapply emits_weaken; [exact T|]. intros r l [p P]. exists sirm0, false, p. exact P.
Qed.

(* C15_order, spelled out *)
Lemma enable_order c w r c' w' : good c -> ctl_enable_streaming (c, w) = (r, (c', w')) ->
  good c' /\ exists sirm dis p n, (n <= length (intended dis p))%nat /\
    w_writes w' = rev (firstn n (map (img sirm) (intended dis p))) ++ w_writes w /\
    (r = Ok tt -> n = length (intended dis p)).
Proof.
  intros G H. destruct (enable_any _ _ _ _ _ G H) as [G' [l [W [sirm [dis [p [n [Hn [L R]]]]]]]]].
  split; [exact G'|]. exists sirm, dis, p, n. subst l. auto.
Qed.

Definition six (p : sirm_plan) : list (Z * Z) :=
  [(28, sp_size p); (32, sp_count p); (36, sp_final1 p); (40, sp_final2 p); (24, sp_leader p); (44, sp_trailer p)].

(* after Ok: the newest entry of the device log is SI_CONTROL := 1, below it the six size
   registers in program order, below them the clearing write when the stream was found enabled *)
Lemma enable_order_ok c w c' w' : good c -> ctl_enable_streaming (c, w) = (Ok tt, (c', w')) ->
  exists sirm dis p,
    w_writes w' = img sirm (4, 1) :: rev (map (img sirm) (six p)) ++
                  (if dis : bool then [img sirm (4, 0)] else []) ++ w_writes w.
Proof.
  intros G H. destruct (enable_order _ _ _ _ _ G H) as [_ [sirm [dis [p [n [_ [W R]]]]]]].
  exists sirm, dis, p. rewrite W, (R eq_refl), firstn_all2 by (rewrite map_length; lia). unfold intended, plan_regs, six.
  destruct dis; cbn [app map rev]; rewrite <- ?app_assoc; reflexivity.
Qed.

(* ================================================================================== *)
(* Part 3 : failure propagation                                                        *)
(* ================================================================================== *)

Definition wstep1 (sirm : Z) (x : Z * Z) : M unit := do a <- sirm_reg sirm (fst x); write_reg a 4 (snd x).

Fixpoint write_seq (sirm : Z) (l : list (Z * Z)) : M unit :=
  match l with
  | [] => ret tt
  | x :: r => do _ <- wstep1 sirm x; write_seq sirm r
  end.

(* enable_streaming with its seven final steps written as a sequence *)
Definition enable_alt : M unit :=
  do sirm <- h_sirm;
  do a_ctrl <- sirm_reg sirm 4;
  do ctrl <- read_reg a_ctrl 4;
  do _ <- (if Z.odd ctrl then write_reg a_ctrl 4 0 else ret tt);
  do a_info <- sirm_reg sirm 0;
  do info <- read_reg a_info 4;
  let exp := info / 2 ^ 24 in
  if 32 <=? exp then fail CE_INVALID_DEVICE else
  let al := 2 ^ exp in
  do a <- sirm_reg sirm 16; do req_leader <- read_reg a 4;
  do a <- sirm_reg sirm 8; do req_payload <- read_reg a 8;
  do a <- sirm_reg sirm 20; do req_trailer <- read_reg a 4;
  do p <- compute_sizes al req_leader req_payload req_trailer;
  write_seq sirm (plan_regs p).

Lemma sirm_reg_ok sirm off s a s' : sirm_reg sirm off s = (Ok a, s') ->
  a = sirm + off /\ s' = s /\ (sirm + off <? 2 ^ 64) = true.
Proof.
  unfold sirm_reg, reg_addr. destruct (sirm + off <? 2 ^ 64); intros H; inversion H; subst; auto.
Qed.

Lemma enable_as_seq s : ctl_enable_streaming s = enable_alt s.
Proof.
  unfold ctl_enable_streaming, enable_alt.
  apply bindM_ext. intros sirm s1 _. apply bindM_ext. intros a_ctrl s2 E2.
  apply sirm_reg_ok in E2. destruct E2 as [E2 [_ E3]].
  do 4 (apply bindM_ext; intros ? ? _).
  match goal with |- (if ?b then _ else _) _ = _ => destruct b end; [reflexivity|].
  do 7 (apply bindM_ext; intros ? ? _).
  unfold plan_regs, write_seq, wstep1. cbn [fst snd].
  do 6 (rewrite (bindM_assoc (sirm_reg _ _)); apply bindM_ext; intros ? ? _; apply bindM_ext; intros ? ? _).
  rewrite bindM_ret_r. subst a_ctrl. unfold sirm_reg, reg_addr, bindM. rewrite E3. reflexivity.
Qed.

(* generic: a failing step ends a sequence with that step's result and state *)
Lemma write_seq_app_ok sirm pre post s s1 :
  write_seq sirm pre s = (Ok tt, s1) -> write_seq sirm (pre ++ post) s = write_seq sirm post s1.
Proof.
  revert s. induction pre as [|x pre IH]; intros s H; cbn [app write_seq] in *.
  - inversion H; subst. reflexivity.
  - unfold bindM in *. destruct (wstep1 sirm x s) as [[u|e|] s0]; [|discriminate|discriminate].
    apply IH. exact H.
Qed.

Lemma write_seq_fails_at sirm pre x post s s1 (r1 : outcome unit) s2 :
  write_seq sirm pre s = (Ok tt, s1) -> wstep1 sirm x s1 = (r1, s2) -> r1 <> Ok tt ->
  write_seq sirm (pre ++ x :: post) s = (r1, s2).
Proof.
  intros Hpre Hx N. rewrite (write_seq_app_ok _ _ _ _ _ Hpre). cbn [write_seq]. unfold bindM. rewrite Hx.
  destruct r1 as [[]|e|]; [contradiction|reflexivity|reflexivity].
Qed.

Lemma emits_wstep1 sirm x : emits (wstep1 sirm x) (pref sirm [x]).
Proof.
  destruct x as [off v]. unfold wstep1. cbn [fst snd].
  apply emits_ext with (m' := do a <- sirm_reg sirm off; do _ <- write_reg a 4 v; ret tt).
  - intros s. apply bindM_ext. intros a s' _. symmetry. apply bindM_ret_r.
  - apply emits_wstep. intros c w r c' w' G H. inversion H; subst. split; [exact G|]. exists []. split; [reflexivity|].
    exists O. split; [cbn [length]; lia|]. split; reflexivity.
Qed.

Lemma write_seq_emits sirm L : emits (write_seq sirm L) (pref sirm L).
Proof.
  induction L as [|[off v] L IH]; cbn [write_seq].
  - intros c w r c' w' G H. inversion H; subst. split; [exact G|]. exists []. split; [reflexivity|].
    exists O. split; [cbn [length]; lia|]. split; reflexivity.
  - apply emits_ext with (m' := do a <- sirm_reg sirm off; do _ <- write_reg a 4 v; write_seq sirm L).
    + intros s. unfold wstep1. cbn [fst snd]. apply bindM_assoc.
    + apply emits_wstep. exact IH.
Qed.

(* C15_failure for the write sequence: when the steps before step |pre| are acknowledged and
   step |pre| fails, the sequence returns that failure, the state is the one the failing step
   left (no later step runs), and the device log holds exactly the |pre| earlier writes plus at
   most the failing one *)
Lemma write_seq_failure sirm pre x post c w c1 w1 (r1 : outcome unit) c2 w2 : good c ->
  write_seq sirm pre (c, w) = (Ok tt, (c1, w1)) -> wstep1 sirm x (c1, w1) = (r1, (c2, w2)) -> r1 <> Ok tt ->
  write_seq sirm (pre ++ x :: post) (c, w) = (r1, (c2, w2)) /\
  exists n, (length pre <= n <= length pre + 1)%nat /\
    w_writes w2 = rev (firstn n (map (img sirm) (pre ++ x :: post))) ++ w_writes w.
Proof.
  intros G Hpre Hx N. split; [exact (write_seq_fails_at _ _ _ post _ _ _ _ Hpre Hx N)|].
  destruct (write_seq_emits sirm pre _ _ _ _ _ G Hpre) as [G1 [l1 [W1 [n1 [Hn1 [L1 R1]]]]]].
  destruct (emits_wstep1 sirm x _ _ _ _ _ G1 Hx) as [G2 [l2 [W2 [n2 [Hn2 [L2 _]]]]]].
  rewrite (R1 eq_refl) in L1. rewrite firstn_all2 in L1 by (rewrite map_length; lia).
  cbn [length] in Hn2. exists (length pre + n2)%nat. split; [lia|].
  rewrite W2, W1, L1, L2, map_app. cbn [map].
  rewrite <- (map_length (img sirm) pre). rewrite firstn_app_2.
  rewrite rev_app_distr, <- app_assoc.
  destruct n2 as [|[|n2]]; [reflexivity|reflexivity|lia].
Qed.
