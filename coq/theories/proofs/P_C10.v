From Cam Require Import Outcome Bytes Chunks.

(* ---- specification vocabulary (independent of the iterator code) ---- *)

Fixpoint contig (a : Z) (l : list (Z * Z)) : Prop :=
  match l with
  | [] => True
  | (a', n) :: r => a' = a /\ contig (a + n) r
  end.

Definition sum_len (l : list (Z * Z)) : Z := fold_right (fun p acc => snd p + acc) 0 l.

Fixpoint all_but_last {A} (P : A -> Prop) (l : list A) : Prop :=
  match l with
  | [] => True
  | x :: r => match r with [] => True | _ => P x /\ all_but_last P r end
  end.

Fixpoint contigw (a : Z) (l : list (Z * list Z)) : Prop :=
  match l with
  | [] => True
  | (a', d) :: r => a' = a /\ contigw (a + zlen d) r
  end.

Record read_partition (a n b : Z) (cs : list (Z * Z)) : Prop := {
  rp_contig : contig a cs;
  rp_sum : sum_len cs = n;
  rp_fit : Forall (fun c => 0 < snd c /\ ACK_HEADER_LENGTH + snd c <= b) cs;
  rp_full : all_but_last (fun c => ACK_HEADER_LENGTH + snd c = b) cs;
  rp_empty : n = 0 -> cs = [];
  rp_addr : Forall (fun c => 0 <= fst c /\ fst c + snd c <= 2 ^ 64) cs
}.

Record write_partition (a : Z) (data : list Z) (b : Z) (cs : list (Z * list Z)) : Prop := {
  wp_contig : contigw a cs;
  wp_concat : concat (map snd cs) = data;
  wp_fit : Forall (fun c => 0 < zlen (snd c) /\ WRITE_HEADER_LEN + zlen (snd c) <= b) cs;
  wp_full : all_but_last (fun c => WRITE_HEADER_LEN + zlen (snd c) = b) cs;
  wp_empty : data = [] -> cs = [];
  wp_addr : Forall (fun c => 0 <= fst c /\ fst c + zlen (snd c) <= 2 ^ 64) cs
}.

Ltac ulia := unfold ACK_HEADER_LENGTH, WRITE_HEADER_LEN, CMD_HEADER_LEN in *; lia.

(* ---- read side ------------------------------------------------------- *)

Lemma chk_u_ok w z : 0 <= z < 2 ^ w -> chk_u w z = Ok z.
Proof.
  intros H. unfold chk_u, in_u.
  destruct (0 <=? z) eqn:E1; [|lia]. destruct (z <? 2 ^ w) eqn:E2; [|lia]. reflexivity.
Qed.

Lemma wrapu_small w z : 0 <= z < 2 ^ w -> wrapu w z = z.
Proof. intros. unfold wrapu. apply Z.mod_small. lia. Qed.

Lemma read_collect_spec fuel :
  forall s, 0 <= r_len s < 2 ^ 16 -> 0 < r_max s -> 0 <= r_addr s ->
    r_addr s + r_len s <= 2 ^ 64 -> (Z.to_nat (r_len s) < fuel)%nat ->
    exists cs, read_collect fuel s = Ok cs /\
               read_partition (r_addr s) (r_len s) (r_max s + ACK_HEADER_LENGTH) cs.
Proof.
  induction fuel as [|f IH]; intros s Hlen Hmax Ha Hsp Hf; [lia|].
  cbn [read_collect]. unfold read_next.
  destruct (r_len s =? 0) eqn:E0.
  - apply Z.eqb_eq in E0. exists []. split; [reflexivity|].
    constructor; cbn; auto.
  - apply Z.eqb_neq in E0.
    destruct (r_max s <? r_len s) eqn:E1.
    + apply Z.ltb_lt in E1.
      assert (Hm16 : 0 <= r_max s < 2 ^ 16) by lia.
      rewrite (wrapu_small 16 (r_max s)) by exact Hm16.
      rewrite chk_u_ok by lia. cbn [bind].
      rewrite chk_u_ok by lia. cbn [bind].
      set (s' := {| r_addr := r_addr s + r_max s; r_len := r_len s - r_max s; r_max := r_max s |}).
      destruct (IH s') as [cs [Hc Hp]]; subst s'; cbn [r_addr r_len r_max]; try lia.
      rewrite Hc. cbn [bind]. eexists; split; [reflexivity|].
      cbn [r_addr r_len r_max] in Hp. destruct Hp as [P1 P2 P3 P4 P5 P6].
      constructor; cbn [contig sum_len fold_right snd fst all_but_last].
      * split; auto.
      * unfold sum_len in P2. lia.
      * constructor; auto. cbn [fst snd]. ulia.
      * destruct cs as [|c cs']; [exfalso|].
        { cbn in P2. lia. }
        split; [cbn [fst snd]; ulia| exact P4].
      * lia.
      * constructor; auto. cbn [fst snd]. ulia.
    + apply Z.ltb_ge in E1. cbn [bind].
      destruct f as [|f']; [lia|].
      cbn [read_collect]. unfold read_next. cbn [r_len]. cbn [Z.eqb bind].
      eexists; split; [reflexivity|].
      constructor; cbn [contig sum_len fold_right snd fst all_but_last]; auto;
        try lia; try (constructor; auto; cbn [fst snd]; ulia).
Qed.

Lemma read_chunks_partition a n b :
  0 <= a -> 0 <= n < 2 ^ 16 -> a + n <= 2 ^ 64 -> ACK_HEADER_LENGTH < b ->
  exists cs, read_chunks a n b = Ok cs /\ read_partition a n b cs.
Proof.
  intros Ha Hn Hs Hb. unfold read_chunks, read_chunks_init.
  destruct (b <=? ACK_HEADER_LENGTH) eqn:E; [lia|]. cbn [bind].
  set (s := {| r_addr := a; r_len := n; r_max := b - ACK_HEADER_LENGTH |}).
  destruct (read_collect_spec (S (Z.to_nat n)) s) as [cs [Hc Hp]];
    subst s; cbn [r_addr r_len r_max]; try lia.
  exists cs. split; [exact Hc|].
  cbn [r_addr r_len r_max] in Hp.
  replace (b - ACK_HEADER_LENGTH + ACK_HEADER_LENGTH) with b in Hp by lia. exact Hp.
Qed.

Lemma read_chunks_budget_too_small a n b :
  b <= ACK_HEADER_LENGTH -> read_chunks a n b = Err E_INVALID_PACKET.
Proof.
  intros H. unfold read_chunks, read_chunks_init.
  destruct (b <=? ACK_HEADER_LENGTH) eqn:E; [reflexivity|lia].
Qed.

(* ---- write side ------------------------------------------------------ *)

Lemma write_mem_new_ok a d : zlen d <= 65527 -> write_mem_new a d = Ok (a, d).
Proof.
  intros H. unfold write_mem_new, into_scd_len.
  destruct (zlen d <? 2 ^ 16) eqn:E1; [|lia].
  destruct (zlen d + 8 <? 2 ^ 16) eqn:E2; [|lia]. reflexivity.
Qed.

Lemma write_mem_new_too_long a d : 65527 < zlen d -> write_mem_new a d = Err E_INVALID_PACKET.
Proof.
  intros H. unfold write_mem_new, into_scd_len.
  destruct (zlen d <? 2 ^ 16) eqn:E1; [|reflexivity]. cbn [bind].
  destruct (zlen d + 8 <? 2 ^ 16) eqn:E2; [lia|reflexivity].
Qed.

Lemma write_collect_spec fuel :
  forall s, 0 <= w_idx s <= zlen (w_data s) -> zlen (w_data s) <= 65527 -> 0 < w_max s ->
    0 <= w_addr s -> w_addr s + (zlen (w_data s) - w_idx s) <= 2 ^ 64 ->
    (Z.to_nat (zlen (w_data s) - w_idx s) < fuel)%nat ->
    exists cs, write_collect fuel s = Ok cs /\
               write_partition (w_addr s) (drop (w_idx s) (w_data s))
                               (w_max s + WRITE_HEADER_LEN) cs.
Proof.
  induction fuel as [|f IH]; intros s Hidx Hlen Hmax Ha Hsp Hf; [lia|].
  cbn [write_collect]. unfold write_next.
  destruct (w_idx s =? zlen (w_data s)) eqn:E0.
  - apply Z.eqb_eq in E0. exists []. split; [reflexivity|].
    assert (Hd : drop (w_idx s) (w_data s) = []).
    { unfold drop. apply skipn_all2. unfold zlen in *. lia. }
    rewrite Hd. constructor; cbn; auto.
  - apply Z.eqb_neq in E0.
    destruct (w_idx s + w_max s <? zlen (w_data s)) eqn:E1.
    + apply Z.ltb_lt in E1.
      set (chunk := take (w_max s) (drop (w_idx s) (w_data s))).
      assert (Hcl : zlen chunk = w_max s).
      { subst chunk. apply zlen_take. rewrite zlen_drop; lia. }
      rewrite write_mem_new_ok by lia. cbn [unwrap bind].
      rewrite chk_u_ok by lia. cbn [bind].
      set (s' := {| w_addr := w_addr s + w_max s; w_data := w_data s;
                    w_idx := w_idx s + w_max s; w_max := w_max s |}).
      destruct (IH s') as [cs [Hc Hp]]; subst s'; cbn [w_addr w_data w_idx w_max]; try lia.
      rewrite Hc. cbn [bind]. eexists; split; [reflexivity|].
      cbn [w_addr w_data w_idx w_max] in Hp. destruct Hp as [P1 P2 P3 P4 P5 P6].
      constructor; cbn [contigw map concat snd fst all_but_last].
      * split; auto. rewrite Hcl. exact P1.
      * rewrite P2. subst chunk. rewrite <- drop_drop by lia. apply take_drop.
      * constructor; auto. cbn [fst snd]. ulia.
      * destruct cs as [|c cs']; [exfalso|].
        { cbn in P2. symmetry in P2. apply (f_equal zlen) in P2. rewrite zlen_drop in P2 by lia.
          cbn in P2. lia. }
        split; [cbn [fst snd]; ulia| exact P4].
      * intros Hnil. apply (f_equal zlen) in Hnil. rewrite zlen_drop in Hnil by lia. cbn in Hnil. lia.
      * constructor; auto. cbn [fst snd]. ulia.
    + apply Z.ltb_ge in E1.
      set (chunk := drop (w_idx s) (w_data s)).
      assert (Hcl : zlen chunk = zlen (w_data s) - w_idx s).
      { subst chunk. apply zlen_drop. lia. }
      rewrite write_mem_new_ok by lia. cbn [unwrap bind].
      destruct f as [|f']; [lia|].
      cbn [write_collect]. unfold write_next. cbn [w_idx w_data].
      rewrite Z.eqb_refl. cbn [bind].
      eexists; split; [reflexivity|].
      constructor; cbn [contigw map concat snd fst all_but_last]; auto;
        try apply app_nil_r; try (constructor; auto; cbn [fst snd]; ulia).
      intros Hnil. apply (f_equal zlen) in Hnil. cbn in Hnil. lia.
Qed.

Lemma write_chunks_partition a data b :
  0 <= a -> zlen data <= 65527 -> a + zlen data <= 2 ^ 64 -> WRITE_HEADER_LEN < b ->
  exists cs, write_chunks a data b = Ok cs /\ write_partition a data b cs.
Proof.
  intros Ha Hn Hs Hb. unfold write_chunks.
  rewrite write_mem_new_ok by lia. cbn [bind fst snd]. unfold write_chunks_init.
  destruct (b <=? WRITE_HEADER_LEN) eqn:E; [lia|]. cbn [bind].
  set (s := {| w_addr := a; w_data := data; w_idx := 0; w_max := b - WRITE_HEADER_LEN |}).
  pose proof (zlen_nonneg data) as Hz.
  destruct (write_collect_spec (S (length data)) s) as [cs [Hc Hp]];
    subst s; cbn [w_addr w_data w_idx w_max]; try lia.
  { unfold zlen. lia. }
  exists cs. split; [exact Hc|].
  cbn [w_addr w_data w_idx w_max] in Hp.
  replace (b - WRITE_HEADER_LEN + WRITE_HEADER_LEN) with b in Hp by lia.
  exact Hp.
Qed.

Lemma write_chunks_budget_too_small a data b :
  zlen data <= 65527 -> b <= WRITE_HEADER_LEN -> write_chunks a data b = Err E_INVALID_PACKET.
Proof.
  intros Hn H. unfold write_chunks. rewrite write_mem_new_ok by lia. cbn [bind fst snd].
  unfold write_chunks_init. destruct (b <=? WRITE_HEADER_LEN) eqn:E; [reflexivity|lia].
Qed.

Lemma write_chunks_too_long a data b :
  65527 < zlen data -> write_chunks a data b = Err E_INVALID_PACKET.
Proof.
  intros H. unfold write_chunks. now rewrite write_mem_new_too_long.
Qed.

Lemma maximum_read_length_spec m :
  ACK_HEADER_LENGTH <= m < 2 ^ 64 ->
  maximum_read_length m = Ok (Z.min (m - ACK_HEADER_LENGTH) 65535).
Proof.
  intros H. unfold maximum_read_length. rewrite chk_u_ok by (unfold ACK_HEADER_LENGTH in *; lia).
  cbn [bind]. destruct (m - ACK_HEADER_LENGTH <? 2 ^ 16) eqn:E; f_equal; lia.
Qed.

(* non-vacuity *)
Example read_partition_example :
  read_chunks 100 10 16 = Ok [(100, 4); (104, 4); (108, 2)].
Proof. vm_compute. reflexivity. Qed.

Example write_partition_example :
  write_chunks 7 [1;2;3;4;5] 22 = Ok [(7, [1;2]); (9, [3;4]); (11, [5])].
Proof. vm_compute. reflexivity. Qed.
