(* Proofs for C17, second part: IntSwissKnife, address kinds, RegisterBase and the kinds built on it, Enumeration
   with its entries, StructReg parsing, and the document level.  (Statements in props/C17.v.) *)
From Cam Require Import Outcome GenApiParse P_C17.
From Coq Require Import Permutation.
Open Scope Z_scope.

(* ---------------------------------------------------------------------------------------------- *)
(* NamedValue lists (pVariable / Constant / Expression)                                             *)

Lemma hn_r_named {A} ts tag (sh : A -> str) l k : mem_str tag ts = false -> hn ts k -> hn ts (r_named tag sh l k).
Proof. intros H1 H2. destruct l; [exact H2 | exact H1]. Qed.

Lemma p_named_el {A B} (p : P B) (sh : A -> str) nm ok tag name x k :
  leaf p sh nm ok -> ok x ->
  p_named p (Elem tag [(T_Name, name)] (txt (sh x)) :: k) = Ok ((name, nm x), k).
Proof.
  intros L W. unfold p_named. eapply bind_step; [reflexivity|]. cbn beta iota.
  cbn [attribute_of]. rewrite str_eqb_refl.
  eapply bind_step; [apply L; exact W | reflexivity].
Qed.

Lemma loop_r_named {A B} tag (p : P B) (sh : A -> str) nm ok k :
  leaf p sh nm ok -> hn [tag] k -> forall l, Forall (fun q => ok (snd q)) l -> forall fuel, (List.length l < fuel)%nat ->
  loop_f fuel (parse_if tag (p_named p)) (r_named tag sh l k) = Ok (n_named nm l, k).
Proof.
  intros L H. induction l as [|x l IH]; intros W fuel Hf; (destruct fuel as [|f]; [cbn in Hf; lia|]).
  - cbn [loop_f r_named n_named map app]. eapply bind_step; [apply parse_if_absent; exact H | reflexivity].
  - inversion W; subst. cbn [loop_f]. unfold r_named, n_named. cbn [map app].
    eapply bind_step; [apply parse_if_present; apply (p_named_el p sh nm ok); assumption|].
    cbn beta iota. eapply bind_step; [apply IH; [assumption | cbn in Hf; lia] | reflexivity].
Qed.
Lemma parse_while_r_named {A B} tag (p : P B) (sh : A -> str) nm ok l k :
  leaf p sh nm ok -> Forall (fun q => ok (snd q)) l -> hn [tag] k ->
  parse_while tag (p_named p) (r_named tag sh l k) = Ok (n_named nm l, k).
Proof.
  intros L W H. unfold parse_while, loop. apply (loop_r_named tag p sh nm ok k L H l W).
  unfold r_named. rewrite app_length, map_length. lia.
Qed.
Lemma n_named_id {A} (l : list (str * A)) : n_named (fun x => x) l = l.
Proof. unfold n_named. induction l as [|[a b] l IH]; cbn; [reflexivity | now rewrite IH]. Qed.
Lemma Forall_snd_tt {A} (l : list (str * A)) : Forall (fun q => tt_ok (snd q)) l.
Proof. induction l; constructor; [exact Logic.I | assumption]. Qed.

Ltac hn_tac ::=
  repeat first
    [ apply hn_nil
    | apply hn_elem; reflexivity
    | apply hn_ropt; [reflexivity|]
    | apply hn_rmany; [reflexivity|]
    | apply hn_rimm; [reflexivity|reflexivity]
    | apply hn_roimm; [reflexivity|reflexivity|]
    | apply hn_r_vk; reflexivity
    | apply hn_r_named; [reflexivity|]
    | (eapply hn_incl; [eassumption|reflexivity]) ].

(* ---------------------------------------------------------------------------------------------- *)
(* IntSwissKnife                                                                                    *)

Definition wf_iswiss (s : iswiss Src) : Prop :=
  wf_eb (sk_eb s) /\ Forall (fun q => wf_i64 (snd q)) (sk_consts s).

Lemma iswiss_rt s : wf_iswiss s -> p_iswiss (r_attr (sk_attr s)) (r_iswiss_body s) = Ok (n_iswiss s, []).
Proof.
  intros (W1 & W2). unfold p_iswiss, r_iswiss_body. rewrite with_attr_rt.
  eb_step W1. step.
  eapply bind_step; [eapply (parse_while_r_named _ p_nodeid sid (fun x => x) tt_ok);
                     [exact leaf_nodeid | apply Forall_snd_tt | solve [hn_tac]]|]. cbn beta.
  eapply bind_step; [eapply (parse_while_r_named _ p_i64 sh_ilit il_val wf_i64);
                     [exact leaf_i64 | exact W2 | solve [hn_tac]]|]. cbn beta.
  eapply bind_step; [eapply (parse_while_r_named _ p_string sid (fun x => x) tt_ok);
                     [exact leaf_string | apply Forall_snd_tt | solve [hn_tac]]|]. cbn beta.
  eapply bind_step; [apply (leaf_string T_Formula [] (sk_formula s)); exact Logic.I|]. cbn beta.
  step. step. rewrite !n_named_id. reflexivity.
Qed.

(* ---------------------------------------------------------------------------------------------- *)
(* AddressKind, RegisterBase                                                                        *)

Definition wf_addr (a : saddr) : Prop :=
  match a with
  | SaAddr x => wf_imm_i x
  | SaSwiss s => wf_iswiss s
  | SaPIndex (Some (Imm l)) _ => wf_i64 l
  | SaPIndex _ _ => True
  end.

Definition addr_step : P (option (addr * list node_data)) :=
  or_else (parse_if T_Address p_addr)
    (or_else (parse_if T_IntSwissKnife p_addr) (or_else (parse_if T_pAddress p_addr) (parse_if T_pIndex p_addr))).

Lemma run_elem_ok {A} (p : list (str * str) -> P A) attrs ch v r :
  p attrs ch = Ok (v, r) -> run_elem p attrs ch = Ok v.
Proof. intros H. unfold run_elem. now rewrite H. Qed.

Lemma p_addr_el a k : wf_addr a -> p_addr (r_addr a :: k) = Ok ((n_addr a, addr_nodes a), k).
Proof.
  intros W. unfold p_addr. destruct a as [[l|n]|s|[[l|n]|] pi]; cbn [r_addr wf_addr n_addr addr_nodes] in *.
  - eapply bind_step; [reflexivity|]. cbn beta.
    change (str_eqb T_Address T_Address) with true. cbn [orb].
    eapply bind_step; [apply (proj1 ileaf_i64); exact W | reflexivity].
  - eapply bind_step; [reflexivity|]. cbn beta.
    change (str_eqb T_pAddress T_Address) with false. change (str_eqb T_pAddress T_pAddress) with true. cbn [orb].
    eapply bind_step; [apply (proj2 ileaf_i64); exact W | reflexivity].
  - unfold r_iswiss. eapply bind_step; [reflexivity|]. cbn beta.
    change (str_eqb T_IntSwissKnife T_Address) with false. change (str_eqb T_IntSwissKnife T_pAddress) with false.
    change (str_eqb T_IntSwissKnife T_IntSwissKnife) with true. cbn [orb].
    eapply bind_step; [reflexivity|]. cbn beta iota.
    rewrite (run_elem_ok p_iswiss _ _ _ _ (iswiss_rt s W)). reflexivity.
  - eapply bind_step; [reflexivity|]. cbn beta.
    change (str_eqb T_pIndex T_Address) with false. change (str_eqb T_pIndex T_pAddress) with false.
    change (str_eqb T_pIndex T_IntSwissKnife) with false. change (str_eqb T_pIndex T_pIndex) with true. cbn [orb].
    eapply bind_step; [|reflexivity]. unfold p_reg_pindex.
    eapply bind_step; [reflexivity|]. cbn beta. eapply bind_step; [reflexivity|]. cbn beta.
    cbn [attribute_of]. change (str_eqb T_Offset T_Offset) with true. change (str_eqb T_Offset T_pOffset) with false.
    cbv iota. rewrite (convert_to_int_sh l W). cbn [lift].
    eapply bind_step; [reflexivity|]. cbn beta iota.
    eapply bind_step; [apply (leaf_nodeid T_pIndex _ pi); exact Logic.I | reflexivity].
  - eapply bind_step; [reflexivity|]. cbn beta.
    change (str_eqb T_pIndex T_Address) with false. change (str_eqb T_pIndex T_pAddress) with false.
    change (str_eqb T_pIndex T_IntSwissKnife) with false. change (str_eqb T_pIndex T_pIndex) with true. cbn [orb].
    eapply bind_step; [|reflexivity]. unfold p_reg_pindex.
    eapply bind_step; [reflexivity|]. cbn beta. eapply bind_step; [reflexivity|]. cbn beta.
    cbn [attribute_of]. change (str_eqb T_pOffset T_Offset) with false. change (str_eqb T_pOffset T_pOffset) with true.
    cbv iota.
    eapply bind_step; [reflexivity|]. cbn beta iota.
    eapply bind_step; [apply (leaf_nodeid T_pIndex _ pi); exact Logic.I | reflexivity].
  - eapply bind_step; [reflexivity|]. cbn beta.
    change (str_eqb T_pIndex T_Address) with false. change (str_eqb T_pIndex T_pAddress) with false.
    change (str_eqb T_pIndex T_IntSwissKnife) with false. change (str_eqb T_pIndex T_pIndex) with true. cbn [orb].
    eapply bind_step; [|reflexivity]. unfold p_reg_pindex.
    eapply bind_step; [reflexivity|]. cbn beta. eapply bind_step; [reflexivity|]. cbn beta.
    cbn [attribute_of]. cbv iota.
    eapply bind_step; [reflexivity|]. cbn beta iota.
    eapply bind_step; [apply (leaf_nodeid T_pIndex _ pi); exact Logic.I | reflexivity].
Qed.

Lemma addr_step_el a k : wf_addr a -> addr_step (r_addr a :: k) = Ok (Some (n_addr a, addr_nodes a), k).
Proof.
  intros W. pose proof (p_addr_el a k W) as PA. unfold addr_step, or_else.
  destruct a as [[l|n]|s|off pi].
  - eapply bind_step; [apply parse_if_present; exact PA | reflexivity].
  - eapply bind_step; [reflexivity|]. cbn beta iota.
    eapply bind_step; [reflexivity|]. cbn beta iota.
    eapply bind_step; [apply parse_if_present; exact PA | reflexivity].
  - eapply bind_step; [reflexivity|]. cbn beta iota.
    eapply bind_step; [apply parse_if_present; exact PA | reflexivity].
  - assert (E : exists attrs, r_addr (SaPIndex off pi) = Elem T_pIndex attrs (txt pi))
      by (destruct off as [[l|n]|]; eexists; reflexivity).
    destruct E as (attrs & E). rewrite E in *.
    eapply bind_step; [reflexivity|]. cbn beta iota.
    eapply bind_step; [reflexivity|]. cbn beta iota.
    eapply bind_step; [reflexivity|]. cbn beta iota.
    apply parse_if_present. exact PA.
Qed.

Definition addr_tags : list str := [T_Address; T_IntSwissKnife; T_pAddress; T_pIndex].

Lemma addr_step_absent k : hn addr_tags k -> addr_step k = Ok (None, k).
Proof.
  intros H. unfold addr_step, or_else.
  eapply bind_step; [apply parse_if_absent; eapply hn_incl; [exact H | reflexivity]|]. cbn beta iota.
  eapply bind_step; [apply parse_if_absent; eapply hn_incl; [exact H | reflexivity]|]. cbn beta iota.
  eapply bind_step; [apply parse_if_absent; eapply hn_incl; [exact H | reflexivity]|]. cbn beta iota.
  apply parse_if_absent. eapply hn_incl; [exact H | reflexivity].
Qed.

Lemma loop_addrs k : hn addr_tags k -> forall l, Forall wf_addr l -> forall fuel, (List.length l < fuel)%nat ->
  loop_f fuel addr_step (map r_addr l ++ k) = Ok (map (fun a => (n_addr a, addr_nodes a)) l, k).
Proof.
  intros H. induction l as [|a l IH]; intros W fuel Hf; (destruct fuel as [|f]; [cbn in Hf; lia|]).
  - cbn [loop_f map app]. eapply bind_step; [apply addr_step_absent; exact H | reflexivity].
  - inversion W; subst. cbn [loop_f map app].
    eapply bind_step; [apply addr_step_el; assumption|]. cbn beta iota.
    eapply bind_step; [apply IH; [assumption | cbn in Hf; lia] | reflexivity].
Qed.

Lemma hn_addrs ts l k : forallb (fun t => negb (mem_str t ts)) addr_tags = true -> hn ts k -> hn ts (map r_addr l ++ k).
Proof.
  intros H1 H2. destruct l as [|a l]; [exact H2|]. cbn [map app].
  cbn [forallb addr_tags] in H1. repeat (apply andb_true_iff in H1; destruct H1 as [? H1]).
  repeat match goal with X : negb _ = true |- _ => apply negb_true_iff in X end.
  destruct a as [[l0|n]|s|[[l0|n]|] pi]; apply hn_elem; assumption.
Qed.

Ltac hn_tac ::=
  repeat first
    [ apply hn_nil
    | apply hn_elem; reflexivity
    | apply hn_ropt; [reflexivity|]
    | apply hn_rmany; [reflexivity|]
    | apply hn_rimm; [reflexivity|reflexivity]
    | apply hn_roimm; [reflexivity|reflexivity|]
    | apply hn_r_vk; reflexivity
    | apply hn_r_named; [reflexivity|]
    | apply hn_addrs; [reflexivity|]
    | (eapply hn_incl; [eassumption|reflexivity]) ].

Definition wf_rb (r : rb Src) : Prop :=
  wf_eb (rb_eb r) /\ eb_invs (rb_eb r) = [] /\ Forall wf_addr (rb_addrs r) /\ wf_imm_i (rb_length r) /\
  oall wf_u64 (rb_polling r).

Definition rb_tags : list str := [T_Cachable; T_PollingTime; T_pInvalidator].

Lemma map_fst_pair {A B C} (f : A -> B) (g : A -> C) l : map fst (map (fun a => (f a, g a)) l) = map f l.
Proof. rewrite map_map. reflexivity. Qed.
Lemma map_snd_pair {A B C} (f : A -> B) (g : A -> C) l : map snd (map (fun a => (f a, g a)) l) = map g l.
Proof. rewrite map_map. reflexivity. Qed.

Lemma p_rb_rt r k : wf_rb r -> hn rb_tags k -> p_rb (r_rb r k) = Ok ((n_rb r, rb_nodes r), k).
Proof.
  intros (W1 & W2 & W3 & W4 & W5) H. unfold p_rb, r_rb.
  eb_step W1. step.
  eapply bind_step.
  { unfold loop. eapply loop_addrs; [solve [hn_tac] | exact W3 | rewrite app_length, map_length; lia]. }
  cbn beta.
  eapply bind_step; [apply (pimm_rimm p_imm_i64 sh_ilit il_val wf_i64 ident _ _ _ _ ileaf_i64 W4)|]. cbn beta.
  step.
  eapply bind_step; [apply (leaf_nodeid T_pPort [] (rb_port r)); exact Logic.I|]. cbn beta.
  step. step. step.
  cbn [eb_invs n_eb]. rewrite W2. rewrite map_fst_pair, map_snd_pair. reflexivity.
Qed.

(* ---------------------------------------------------------------------------------------------- *)
(* the register kinds                                                                               *)

Ltac rb_step W :=
  eapply bind_step; [ apply p_rb_rt; [exact W | solve [hn_tac]] | cbn beta ].

Definition wf_bitmask (b : bitmask ilit) : Prop :=
  match b with BmBit x => wf_u64 x | BmRange l m => wf_u64 l /\ wf_u64 m end.

Lemma p_bitmask_rt b k : wf_bitmask b -> p_bitmask (r_bitmask b k) = Ok (n_bitmask b, k).
Proof.
  intros W. unfold p_bitmask. destruct b as [x|l m]; cbn [r_bitmask n_bitmask wf_bitmask] in *.
  - eapply bind_step; [apply parse_if_present; apply leaf_u64; exact W | reflexivity].
  - destruct W as [W1 W2]. eapply bind_step; [reflexivity|]. cbn beta iota.
    eapply bind_step; [apply leaf_u64; exact W1|]. cbn beta.
    eapply bind_step; [apply leaf_u64; exact W2|]. reflexivity.
Qed.
Lemma hn_r_bitmask ts b k : mem_str T_Bit ts = false -> mem_str T_LSB ts = false -> hn ts (r_bitmask b k).
Proof. intros H1 H2. destruct b; [exact H1 | exact H2]. Qed.

Ltac hn_tac ::=
  repeat first
    [ apply hn_nil
    | apply hn_elem; reflexivity
    | apply hn_ropt; [reflexivity|]
    | apply hn_rmany; [reflexivity|]
    | apply hn_rimm; [reflexivity|reflexivity]
    | apply hn_roimm; [reflexivity|reflexivity|]
    | apply hn_r_vk; reflexivity
    | apply hn_r_named; [reflexivity|]
    | apply hn_addrs; [reflexivity|]
    | apply hn_r_bitmask; reflexivity
    | (eapply hn_incl; [eassumption|reflexivity]) ].

Definition wf_intreg (n : intreg Src) : Prop := wf_rb (ir_rb n).
Lemma intreg_rt n : wf_intreg n ->
  match r_intreg n with Elem _ attrs ch => p_intreg attrs ch | _ => fail [] end
  = Ok ((n_intreg n, rb_nodes (ir_rb n)), []).
Proof.
  intros W. unfold r_intreg, p_intreg, r_int_tail. rewrite with_attr_rt.
  rb_step W. step. step. step. step. step. reflexivity.
Qed.

Definition wf_masked (n : maskedreg Src) : Prop := wf_rb (mr_rb n) /\ wf_bitmask (mr_mask n).
Lemma masked_rt n : wf_masked n ->
  match r_masked n with Elem _ attrs ch => p_masked attrs ch | _ => fail [] end
  = Ok ((n_masked n, rb_nodes (mr_rb n)), []).
Proof.
  intros (W1 & W2). unfold r_masked, p_masked, r_int_tail. rewrite with_attr_rt.
  rb_step W1. eapply bind_step; [apply p_bitmask_rt; exact W2|]. cbn beta.
  step. step. step. step. step. reflexivity.
Qed.

Definition wf_floatreg (n : floatreg Src) : Prop := wf_rb (fr_rb n) /\ oall wf_i64 (fr_dprec n).
Lemma floatreg_rt n : wf_floatreg n ->
  match r_floatreg n with Elem _ attrs ch => p_floatreg attrs ch | _ => fail [] end
  = Ok ((n_floatreg n, rb_nodes (fr_rb n)), []).
Proof.
  intros (W1 & W2). unfold r_floatreg, p_floatreg, r_float_tail. rewrite with_attr_rt.
  rb_step W1. step. step. step. step. step. reflexivity.
Qed.

Definition wf_regnode (n : regnode Src) : Prop := wf_rb (rn_rb n).
Lemma regnode_rt tag n : wf_regnode n ->
  match r_regnode tag n with Elem _ attrs ch => p_regnode attrs ch | _ => fail [] end
  = Ok ((n_regnode n, rb_nodes (rn_rb n)), []).
Proof. intros W. unfold r_regnode, p_regnode. rewrite with_attr_rt. rb_step W. reflexivity. Qed.

Ltac node_tac2 H :=
  cbn [render]; unfold r_intreg, r_masked, r_floatreg, r_regnode, r_iswiss, r_enumeration, r_struct in *;
  match goal with
  | |- parse_node ?fx ?fr (Elem ?t ?a ?c) = _ => change (parse_node fx fr (Elem t a c)) with (parse_leaf fx fr t a c)
  end;
  unfold parse_leaf;
  repeat match goal with
         | |- context [str_eqb ?x ?y] => let b := eval vm_compute in (str_eqb x y) in change (str_eqb x y) with b
         end;
  cbn [orb]; cbv iota; rewrite H; reflexivity.

Lemma node_intreg fixed fresh n : wf_intreg n ->
  parse_node fixed fresh (render (SnIntReg n)) =
  Ok (mkPres (rb_nodes (ir_rb n)) [NdIntReg (n_intreg n)] (reg_invs (n_rb (ir_rb n)) (a_name (ir_attr n))) fresh).
Proof. intros W. pose proof (intreg_rt n W) as H. node_tac2 H. Qed.
Lemma node_masked fixed fresh n : wf_masked n ->
  parse_node fixed fresh (render (SnMaskedIntReg n)) =
  Ok (mkPres (rb_nodes (mr_rb n)) [NdMaskedIntReg (n_masked n)] (reg_invs (n_rb (mr_rb n)) (a_name (mr_attr n))) fresh).
Proof. intros W. pose proof (masked_rt n W) as H. node_tac2 H. Qed.
Lemma node_floatreg fixed fresh n : wf_floatreg n ->
  parse_node fixed fresh (render (SnFloatReg n)) =
  Ok (mkPres (rb_nodes (fr_rb n)) [NdFloatReg (n_floatreg n)] (reg_invs (n_rb (fr_rb n)) (a_name (fr_attr n))) fresh).
Proof. intros W. pose proof (floatreg_rt n W) as H. node_tac2 H. Qed.
Lemma node_stringreg fixed fresh n : wf_regnode n ->
  parse_node fixed fresh (render (SnStringReg n)) =
  Ok (mkPres (rb_nodes (rn_rb n)) [NdStringReg (n_regnode n)] (reg_invs (n_rb (rn_rb n)) (a_name (rn_attr n))) fresh).
Proof. intros W. pose proof (regnode_rt T_StringReg n W) as H. node_tac2 H. Qed.
Lemma node_register fixed fresh n : wf_regnode n ->
  parse_node fixed fresh (render (SnRegister n)) =
  Ok (mkPres (rb_nodes (rn_rb n)) [NdRegister (n_regnode n)] (reg_invs (n_rb (rn_rb n)) (a_name (rn_attr n))) fresh).
Proof. intros W. pose proof (regnode_rt T_Register n W) as H. node_tac2 H. Qed.
Lemma node_iswiss fixed fresh n : wf_iswiss n ->
  parse_node fixed fresh (render (SnIntSwissKnife n)) = Ok (pres1 fresh (NdIntSwissKnife (n_iswiss n))).
Proof. intros W. pose proof (iswiss_rt n W) as H. node_tac2 H. Qed.
