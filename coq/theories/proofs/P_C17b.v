(* Proofs for C17, second part: IntSwissKnife, address kinds, RegisterBase and the kinds built on it, Enumeration
   with its entries, StructReg parsing, and the document level.  (Statements in props/C17.v.) *)
From Cam Require Import Outcome GenApiParse P_C17.
From Coq Require Import Permutation.
Open Scope Z_scope.

(* ---------------------------------------------------------------------------------------------- *)
(* NamedValue lists (pVariable / Constant / Expression)                                             *)

Lemma hn_r_named {A} ts tag (sh : A -> str) l k : mem_str tag ts = false -> hn ts k -> hn ts (r_named tag sh l k).
Proof. intros H1 H2. destruct l; [exact H2 | exact H1]. Qed.

Lemma p_named_el {A B} (p : P B) (sh : A -> str) nm ok tag name x k :
  leaf p sh nm ok -> ok x ->
  p_named p (Elem tag [(T_Name, name)] (txt (sh x)) :: k) = Ok ((name, nm x), k).
Proof.
  intros L W. unfold p_named. eapply bind_step; [reflexivity|]. cbn beta iota.
  cbn [attribute_of]. rewrite str_eqb_refl.
  eapply bind_step; [apply L; exact W | reflexivity].
Qed.

Lemma loop_r_named {A B} tag (p : P B) (sh : A -> str) nm ok k :
  leaf p sh nm ok -> hn [tag] k -> forall l, Forall (fun q => ok (snd q)) l -> forall fuel, (List.length l < fuel)%nat ->
  loop_f fuel (parse_if tag (p_named p)) (r_named tag sh l k) = Ok (n_named nm l, k).
Proof.
  intros L H. induction l as [|x l IH]; intros W fuel Hf; (destruct fuel as [|f]; [cbn in Hf; lia|]).
  - cbn [loop_f r_named n_named map app]. eapply bind_step; [apply parse_if_absent; exact H | reflexivity].
  - inversion W; subst. cbn [loop_f]. unfold r_named, n_named. cbn [map app].
    eapply bind_step; [apply parse_if_present; apply (p_named_el p sh nm ok); assumption|].
    cbn beta iota. eapply bind_step; [apply IH; [assumption | cbn in Hf; lia] | reflexivity].
Qed.
Lemma parse_while_r_named {A B} tag (p : P B) (sh : A -> str) nm ok l k :
  leaf p sh nm ok -> Forall (fun q => ok (snd q)) l -> hn [tag] k ->
  parse_while tag (p_named p) (r_named tag sh l k) = Ok (n_named nm l, k).
Proof.
  intros L W H. unfold parse_while, loop. apply (loop_r_named tag p sh nm ok k L H l W).
  unfold r_named. rewrite app_length, map_length. lia.
Qed.
Lemma n_named_id {A} (l : list (str * A)) : n_named (fun x => x) l = l.
Proof. unfold n_named. induction l as [|[a b] l IH]; cbn; [reflexivity | now rewrite IH]. Qed.
Lemma Forall_snd_tt {A} (l : list (str * A)) : Forall (fun q => tt_ok (snd q)) l.
Proof. induction l; constructor; [exact Logic.I | assumption]. Qed.

Ltac hn_tac ::=
  repeat first
    [ apply hn_nil
    | apply hn_elem; reflexivity
    | apply hn_ropt; [reflexivity|]
    | apply hn_rmany; [reflexivity|]
    | apply hn_rimm; [reflexivity|reflexivity]
    | apply hn_roimm; [reflexivity|reflexivity|]
    | apply hn_r_vk; reflexivity
    | apply hn_r_named; [reflexivity|]
    | (eapply hn_incl; [eassumption|reflexivity]) ].

(* ---------------------------------------------------------------------------------------------- *)
(* IntSwissKnife                                                                                    *)

Definition wf_iswiss (s : iswiss Src) : Prop :=
  wf_eb (sk_eb s) /\ Forall (fun q => wf_i64 (snd q)) (sk_consts s).

Lemma iswiss_rt s : wf_iswiss s -> p_iswiss (r_attr (sk_attr s)) (r_iswiss_body s) = Ok (n_iswiss s, []).
Proof.
  intros (W1 & W2). unfold p_iswiss, r_iswiss_body. rewrite with_attr_rt.
  eb_step W1. step.
  eapply bind_step; [eapply (parse_while_r_named _ p_nodeid sid (fun x => x) tt_ok);
                     [exact leaf_nodeid | apply Forall_snd_tt | solve [hn_tac]]|]. cbn beta.
  eapply bind_step; [eapply (parse_while_r_named _ p_i64 sh_ilit il_val wf_i64);
                     [exact leaf_i64 | exact W2 | solve [hn_tac]]|]. cbn beta.
  eapply bind_step; [eapply (parse_while_r_named _ p_string sid (fun x => x) tt_ok);
                     [exact leaf_string | apply Forall_snd_tt | solve [hn_tac]]|]. cbn beta.
  eapply bind_step; [apply (leaf_string T_Formula [] (sk_formula s)); exact Logic.I|]. cbn beta.
  step. step. rewrite !n_named_id. reflexivity.
Qed.

(* ---------------------------------------------------------------------------------------------- *)
(* AddressKind, RegisterBase                                                                        *)

Definition wf_addr (a : saddr) : Prop :=
  match a with
  | SaAddr x => wf_imm_i x
  | SaSwiss s => wf_iswiss s
  | SaPIndex (Some (Imm l)) _ => wf_i64 l
  | SaPIndex _ _ => True
  end.

Definition addr_step : P (option (addr * list node_data)) :=
  or_else (parse_if T_Address p_addr)
    (or_else (parse_if T_IntSwissKnife p_addr) (or_else (parse_if T_pAddress p_addr) (parse_if T_pIndex p_addr))).

Lemma run_elem_ok {A} (p : list (str * str) -> P A) attrs ch v r :
  p attrs ch = Ok (v, r) -> run_elem p attrs ch = Ok v.
Proof. intros H. unfold run_elem. now rewrite H. Qed.

Lemma p_addr_el a k : wf_addr a -> p_addr (r_addr a :: k) = Ok ((n_addr a, addr_nodes a), k).
Proof.
  intros W. unfold p_addr. destruct a as [[l|n]|s|[[l|n]|] pi]; cbn [r_addr wf_addr n_addr addr_nodes] in *.
  - eapply bind_step; [reflexivity|]. cbn beta.
    change (str_eqb T_Address T_Address) with true. cbn [orb].
    eapply bind_step; [apply (proj1 ileaf_i64); exact W | reflexivity].
  - eapply bind_step; [reflexivity|]. cbn beta.
    change (str_eqb T_pAddress T_Address) with false. change (str_eqb T_pAddress T_pAddress) with true. cbn [orb].
    eapply bind_step; [apply (proj2 ileaf_i64); exact W | reflexivity].
  - unfold r_iswiss. eapply bind_step; [reflexivity|]. cbn beta.
    change (str_eqb T_IntSwissKnife T_Address) with false. change (str_eqb T_IntSwissKnife T_pAddress) with false.
    change (str_eqb T_IntSwissKnife T_IntSwissKnife) with true. cbn [orb].
    eapply bind_step; [reflexivity|]. cbn beta iota.
    rewrite (run_elem_ok p_iswiss _ _ _ _ (iswiss_rt s W)). reflexivity.
  - eapply bind_step; [reflexivity|]. cbn beta.
    change (str_eqb T_pIndex T_Address) with false. change (str_eqb T_pIndex T_pAddress) with false.
    change (str_eqb T_pIndex T_IntSwissKnife) with false. change (str_eqb T_pIndex T_pIndex) with true. cbn [orb].
    eapply bind_step; [|reflexivity]. unfold p_reg_pindex.
    eapply bind_step; [reflexivity|]. cbn beta. eapply bind_step; [reflexivity|]. cbn beta.
    cbn [attribute_of]. change (str_eqb T_Offset T_Offset) with true. change (str_eqb T_Offset T_pOffset) with false.
    cbv iota. rewrite (convert_to_int_sh l W). cbn [lift].
    eapply bind_step; [reflexivity|]. cbn beta iota.
    eapply bind_step; [apply (leaf_nodeid T_pIndex _ pi); exact Logic.I | reflexivity].
  - eapply bind_step; [reflexivity|]. cbn beta.
    change (str_eqb T_pIndex T_Address) with false. change (str_eqb T_pIndex T_pAddress) with false.
    change (str_eqb T_pIndex T_IntSwissKnife) with false. change (str_eqb T_pIndex T_pIndex) with true. cbn [orb].
    eapply bind_step; [|reflexivity]. unfold p_reg_pindex.
    eapply bind_step; [reflexivity|]. cbn beta. eapply bind_step; [reflexivity|]. cbn beta.
    cbn [attribute_of]. change (str_eqb T_pOffset T_Offset) with false. change (str_eqb T_pOffset T_pOffset) with true.
    cbv iota.
    eapply bind_step; [reflexivity|]. cbn beta iota.
    eapply bind_step; [apply (leaf_nodeid T_pIndex _ pi); exact Logic.I | reflexivity].
  - eapply bind_step; [reflexivity|]. cbn beta.
    change (str_eqb T_pIndex T_Address) with false. change (str_eqb T_pIndex T_pAddress) with false.
    change (str_eqb T_pIndex T_IntSwissKnife) with false. change (str_eqb T_pIndex T_pIndex) with true. cbn [orb].
    eapply bind_step; [|reflexivity]. unfold p_reg_pindex.
    eapply bind_step; [reflexivity|]. cbn beta. eapply bind_step; [reflexivity|]. cbn beta.
    cbn [attribute_of]. cbv iota.
    eapply bind_step; [reflexivity|]. cbn beta iota.
    eapply bind_step; [apply (leaf_nodeid T_pIndex _ pi); exact Logic.I | reflexivity].
Qed.

Lemma addr_step_el a k : wf_addr a -> addr_step (r_addr a :: k) = Ok (Some (n_addr a, addr_nodes a), k).
Proof.
  intros W. pose proof (p_addr_el a k W) as PA. unfold addr_step, or_else.
  destruct a as [[l|n]|s|off pi].
  - eapply bind_step; [apply parse_if_present; exact PA | reflexivity].
  - eapply bind_step; [reflexivity|]. cbn beta iota.
    eapply bind_step; [reflexivity|]. cbn beta iota.
    eapply bind_step; [apply parse_if_present; exact PA | reflexivity].
  - eapply bind_step; [reflexivity|]. cbn beta iota.
    eapply bind_step; [apply parse_if_present; exact PA | reflexivity].
  - assert (E : exists attrs, r_addr (SaPIndex off pi) = Elem T_pIndex attrs (txt pi))
      by (destruct off as [[l|n]|]; eexists; reflexivity).
    destruct E as (attrs & E). rewrite E in *.
    eapply bind_step; [reflexivity|]. cbn beta iota.
    eapply bind_step; [reflexivity|]. cbn beta iota.
    eapply bind_step; [reflexivity|]. cbn beta iota.
    apply parse_if_present. exact PA.
Qed.

Definition addr_tags : list str := [T_Address; T_IntSwissKnife; T_pAddress; T_pIndex].

Lemma addr_step_absent k : hn addr_tags k -> addr_step k = Ok (None, k).
Proof.
  intros H. unfold addr_step, or_else.
  eapply bind_step; [apply parse_if_absent; eapply hn_incl; [exact H | reflexivity]|]. cbn beta iota.
  eapply bind_step; [apply parse_if_absent; eapply hn_incl; [exact H | reflexivity]|]. cbn beta iota.
  eapply bind_step; [apply parse_if_absent; eapply hn_incl; [exact H | reflexivity]|]. cbn beta iota.
  apply parse_if_absent. eapply hn_incl; [exact H | reflexivity].
Qed.

Lemma loop_addrs k : hn addr_tags k -> forall l, Forall wf_addr l -> forall fuel, (List.length l < fuel)%nat ->
  loop_f fuel addr_step (map r_addr l ++ k) = Ok (map (fun a => (n_addr a, addr_nodes a)) l, k).
Proof.
  intros H. induction l as [|a l IH]; intros W fuel Hf; (destruct fuel as [|f]; [cbn in Hf; lia|]).
  - cbn [loop_f map app]. eapply bind_step; [apply addr_step_absent; exact H | reflexivity].
  - inversion W; subst. cbn [loop_f map app].
    eapply bind_step; [apply addr_step_el; assumption|]. cbn beta iota.
    eapply bind_step; [apply IH; [assumption | cbn in Hf; lia] | reflexivity].
Qed.

Lemma hn_addrs ts l k : forallb (fun t => negb (mem_str t ts)) addr_tags = true -> hn ts k -> hn ts (map r_addr l ++ k).
Proof.
  intros H1 H2. destruct l as [|a l]; [exact H2|]. cbn [map app].
  cbn [forallb addr_tags] in H1. repeat (apply andb_true_iff in H1; destruct H1 as [? H1]).
  repeat match goal with X : negb _ = true |- _ => apply negb_true_iff in X end.
  destruct a as [[l0|n]|s|[[l0|n]|] pi]; apply hn_elem; assumption.
Qed.

Ltac hn_tac ::=
  repeat first
    [ apply hn_nil
    | apply hn_elem; reflexivity
    | apply hn_ropt; [reflexivity|]
    | apply hn_rmany; [reflexivity|]
    | apply hn_rimm; [reflexivity|reflexivity]
    | apply hn_roimm; [reflexivity|reflexivity|]
    | apply hn_r_vk; reflexivity
    | apply hn_r_named; [reflexivity|]
    | apply hn_addrs; [reflexivity|]
    | (eapply hn_incl; [eassumption|reflexivity]) ].

Definition wf_rb (r : rb Src) : Prop :=
  wf_eb (rb_eb r) /\ eb_invs (rb_eb r) = [] /\ Forall wf_addr (rb_addrs r) /\ wf_imm_i (rb_length r) /\
  oall wf_u64 (rb_polling r).

Definition rb_tags : list str := [T_Cachable; T_PollingTime; T_pInvalidator].

Lemma map_fst_pair {A B C} (f : A -> B) (g : A -> C) l : map fst (map (fun a => (f a, g a)) l) = map f l.
Proof. rewrite map_map. reflexivity. Qed.
Lemma map_snd_pair {A B C} (f : A -> B) (g : A -> C) l : map snd (map (fun a => (f a, g a)) l) = map g l.
Proof. rewrite map_map. reflexivity. Qed.

Lemma p_rb_rt r k : wf_rb r -> hn rb_tags k -> p_rb (r_rb r k) = Ok ((n_rb r, rb_nodes r), k).
Proof.
  intros (W1 & W2 & W3 & W4 & W5) H. unfold p_rb, r_rb.
  eb_step W1. step.
  eapply bind_step.
  { unfold loop. eapply loop_addrs; [solve [hn_tac] | exact W3 | rewrite app_length, map_length; lia]. }
  cbn beta.
  eapply bind_step; [apply (pimm_rimm p_imm_i64 sh_ilit il_val wf_i64 ident _ _ _ _ ileaf_i64 W4)|]. cbn beta.
  step.
  eapply bind_step; [apply (leaf_nodeid T_pPort [] (rb_port r)); exact Logic.I|]. cbn beta.
  step. step. step.
  cbn [eb_invs n_eb]. rewrite W2. rewrite map_fst_pair, map_snd_pair. reflexivity.
Qed.

(* ---------------------------------------------------------------------------------------------- *)
(* the register kinds                                                                               *)

Ltac rb_step W :=
  eapply bind_step; [ apply p_rb_rt; [exact W | solve [hn_tac]] | cbn beta ].

Definition wf_bitmask (b : bitmask ilit) : Prop :=
  match b with BmBit x => wf_u64 x | BmRange l m => wf_u64 l /\ wf_u64 m end.

Lemma p_bitmask_rt b k : wf_bitmask b -> p_bitmask (r_bitmask b k) = Ok (n_bitmask b, k).
Proof.
  intros W. unfold p_bitmask. destruct b as [x|l m]; cbn [r_bitmask n_bitmask wf_bitmask] in *.
  - eapply bind_step; [apply parse_if_present; apply leaf_u64; exact W | reflexivity].
  - destruct W as [W1 W2]. eapply bind_step; [reflexivity|]. cbn beta iota.
    eapply bind_step; [apply leaf_u64; exact W1|]. cbn beta.
    eapply bind_step; [apply leaf_u64; exact W2|]. reflexivity.
Qed.
Lemma hn_r_bitmask ts b k : mem_str T_Bit ts = false -> mem_str T_LSB ts = false -> hn ts (r_bitmask b k).
Proof. intros H1 H2. destruct b; [exact H1 | exact H2]. Qed.

Ltac hn_tac ::=
  repeat first
    [ apply hn_nil
    | apply hn_elem; reflexivity
    | apply hn_ropt; [reflexivity|]
    | apply hn_rmany; [reflexivity|]
    | apply hn_rimm; [reflexivity|reflexivity]
    | apply hn_roimm; [reflexivity|reflexivity|]
    | apply hn_r_vk; reflexivity
    | apply hn_r_named; [reflexivity|]
    | apply hn_addrs; [reflexivity|]
    | apply hn_r_bitmask; reflexivity
    | (eapply hn_incl; [eassumption|reflexivity]) ].

Definition wf_intreg (n : intreg Src) : Prop := wf_rb (ir_rb n).
Lemma intreg_rt n : wf_intreg n ->
  match r_intreg n with Elem _ attrs ch => p_intreg attrs ch | _ => fail [] end
  = Ok ((n_intreg n, rb_nodes (ir_rb n)), []).
Proof.
  intros W. unfold r_intreg, p_intreg, r_int_tail. rewrite with_attr_rt.
  rb_step W. step. step. step. step. step. reflexivity.
Qed.

Definition wf_masked (n : maskedreg Src) : Prop := wf_rb (mr_rb n) /\ wf_bitmask (mr_mask n).
Lemma masked_rt n : wf_masked n ->
  match r_masked n with Elem _ attrs ch => p_masked attrs ch | _ => fail [] end
  = Ok ((n_masked n, rb_nodes (mr_rb n)), []).
Proof.
  intros (W1 & W2). unfold r_masked, p_masked, r_int_tail. rewrite with_attr_rt.
  rb_step W1. eapply bind_step; [apply p_bitmask_rt; exact W2|]. cbn beta.
  step. step. step. step. step. reflexivity.
Qed.

Definition wf_floatreg (n : floatreg Src) : Prop := wf_rb (fr_rb n) /\ oall wf_i64 (fr_dprec n).
Lemma floatreg_rt n : wf_floatreg n ->
  match r_floatreg n with Elem _ attrs ch => p_floatreg attrs ch | _ => fail [] end
  = Ok ((n_floatreg n, rb_nodes (fr_rb n)), []).
Proof.
  intros (W1 & W2). unfold r_floatreg, p_floatreg, r_float_tail. rewrite with_attr_rt.
  rb_step W1. step. step. step. step. step. reflexivity.
Qed.

Definition wf_regnode (n : regnode Src) : Prop := wf_rb (rn_rb n).
Lemma regnode_rt tag n : wf_regnode n ->
  match r_regnode tag n with Elem _ attrs ch => p_regnode attrs ch | _ => fail [] end
  = Ok ((n_regnode n, rb_nodes (rn_rb n)), []).
Proof. intros W. unfold r_regnode, p_regnode. rewrite with_attr_rt. rb_step W. reflexivity. Qed.

Ltac node_tac2 H :=
  cbn [render]; unfold r_intreg, r_masked, r_floatreg, r_regnode, r_iswiss, r_enumeration, r_struct in *;
  match goal with
  | |- parse_node ?fx ?fr (Elem ?t ?a ?c) = _ => change (parse_node fx fr (Elem t a c)) with (parse_leaf fx fr t a c)
  end;
  unfold parse_leaf;
  repeat match goal with
         | |- context [str_eqb ?x ?y] => let b := eval vm_compute in (str_eqb x y) in change (str_eqb x y) with b
         end;
  cbn [orb]; cbv iota; rewrite H; reflexivity.

Lemma node_intreg fixed fresh n : wf_intreg n ->
  parse_node fixed fresh (render (SnIntReg n)) =
  Ok (mkPres (rb_nodes (ir_rb n)) [NdIntReg (n_intreg n)] (reg_invs (n_rb (ir_rb n)) (a_name (ir_attr n))) fresh).
Proof. intros W. pose proof (intreg_rt n W) as H. node_tac2 H. Qed.
Lemma node_masked fixed fresh n : wf_masked n ->
  parse_node fixed fresh (render (SnMaskedIntReg n)) =
  Ok (mkPres (rb_nodes (mr_rb n)) [NdMaskedIntReg (n_masked n)] (reg_invs (n_rb (mr_rb n)) (a_name (mr_attr n))) fresh).
Proof. intros W. pose proof (masked_rt n W) as H. node_tac2 H. Qed.
Lemma node_floatreg fixed fresh n : wf_floatreg n ->
  parse_node fixed fresh (render (SnFloatReg n)) =
  Ok (mkPres (rb_nodes (fr_rb n)) [NdFloatReg (n_floatreg n)] (reg_invs (n_rb (fr_rb n)) (a_name (fr_attr n))) fresh).
Proof. intros W. pose proof (floatreg_rt n W) as H. node_tac2 H. Qed.
Lemma node_stringreg fixed fresh n : wf_regnode n ->
  parse_node fixed fresh (render (SnStringReg n)) =
  Ok (mkPres (rb_nodes (rn_rb n)) [NdStringReg (n_regnode n)] (reg_invs (n_rb (rn_rb n)) (a_name (rn_attr n))) fresh).
Proof. intros W. pose proof (regnode_rt T_StringReg n W) as H. node_tac2 H. Qed.
Lemma node_register fixed fresh n : wf_regnode n ->
  parse_node fixed fresh (render (SnRegister n)) =
  Ok (mkPres (rb_nodes (rn_rb n)) [NdRegister (n_regnode n)] (reg_invs (n_rb (rn_rb n)) (a_name (rn_attr n))) fresh).
Proof. intros W. pose proof (regnode_rt T_Register n W) as H. node_tac2 H. Qed.
Lemma node_iswiss fixed fresh n : wf_iswiss n ->
  parse_node fixed fresh (render (SnIntSwissKnife n)) = Ok (pres1 fresh (NdIntSwissKnife (n_iswiss n))).
Proof. intros W. pose proof (iswiss_rt n W) as H. node_tac2 H. Qed.

(* ---------------------------------------------------------------------------------------------- *)
(* SwissKnife, IntConverter, Converter (formula and expression texts are opaque strings)             *)

Lemma leaf_slope : leaf (p_enum slope_tbl) slope_name (fun x => x) tt_ok.
Proof. apply leaf_enum. intros []; reflexivity. Qed.
Ltac leaf_tac ::=
  first [ exact leaf_string | exact leaf_nodeid | exact leaf_bool | exact leaf_i64 | exact leaf_u64
        | exact leaf_hex64 | exact leaf_f64 | exact leaf_vis | exact leaf_access | exact leaf_caching
        | exact leaf_irep | exact leaf_frep | exact leaf_dnot | exact leaf_sign | exact leaf_endian
        | exact leaf_slope ].

Ltac named_step L W :=
  eapply bind_step; [ eapply (parse_while_r_named _ _ _ _ _ _ _ L); [exact W | solve [hn_tac]] | cbn beta ].

Definition wf_fswiss (s : fswiss Src) : Prop :=
  wf_eb (fk_eb s) /\ Forall (fun q => wf_f (snd q)) (fk_consts s) /\ oall wf_i64 (fk_dprec s).
Lemma fswiss_rt s : wf_fswiss s ->
  match r_fswiss s with Elem _ attrs ch => p_fswiss attrs ch | _ => fail [] end = Ok (n_fswiss s, []).
Proof.
  intros (W1 & W2 & W3). unfold r_fswiss, p_fswiss, r_float_tail. rewrite with_attr_rt.
  eb_step W1. step.
  named_step leaf_nodeid (Forall_snd_tt (fk_vars s)).
  named_step leaf_f64 W2.
  named_step leaf_string (Forall_snd_tt (fk_exprs s)).
  eapply bind_step; [apply (leaf_string T_Formula [] (fk_formula s)); exact Logic.I|]. cbn beta.
  step. step. step. step. rewrite !n_named_id. reflexivity.
Qed.

Definition wf_iconv (s : iconv Src) : Prop :=
  wf_eb (ic_eb s) /\ Forall (fun q => wf_i64 (snd q)) (ic_consts s).
Lemma iconv_rt s : wf_iconv s ->
  match r_iconv s with Elem _ attrs ch => p_iconv attrs ch | _ => fail [] end = Ok (n_iconv s, []).
Proof.
  intros (W1 & W2). unfold r_iconv, p_iconv. rewrite with_attr_rt.
  eb_step W1. step.
  named_step leaf_nodeid (Forall_snd_tt (ic_vars s)).
  named_step leaf_i64 W2.
  named_step leaf_string (Forall_snd_tt (ic_exprs s)).
  eapply bind_step; [apply (leaf_string T_FormulaTo [] (ic_to s)); exact Logic.I|]. cbn beta.
  eapply bind_step; [apply (leaf_string T_FormulaFrom [] (ic_from s)); exact Logic.I|]. cbn beta.
  eapply bind_step; [apply (leaf_nodeid T_pValue [] (ic_pvalue s)); exact Logic.I|]. cbn beta.
  step. step. step. rewrite !n_named_id. reflexivity.
Qed.

Definition wf_fconv (s : fconv Src) : Prop :=
  wf_eb (fc_eb s) /\ Forall (fun q => wf_f (snd q)) (fc_consts s) /\ oall wf_i64 (fc_dprec s).
Lemma fconv_rt s : wf_fconv s ->
  match r_fconv s with Elem _ attrs ch => p_fconv attrs ch | _ => fail [] end = Ok (n_fconv s, []).
Proof.
  intros (W1 & W2 & W3). unfold r_fconv, p_fconv. rewrite with_attr_rt.
  eb_step W1. step.
  named_step leaf_nodeid (Forall_snd_tt (fc_vars s)).
  named_step leaf_f64 W2.
  named_step leaf_string (Forall_snd_tt (fc_exprs s)).
  eapply bind_step; [apply (leaf_string T_FormulaTo [] (fc_to s)); exact Logic.I|]. cbn beta.
  eapply bind_step; [apply (leaf_string T_FormulaFrom [] (fc_from s)); exact Logic.I|]. cbn beta.
  eapply bind_step; [apply (leaf_nodeid T_pValue [] (fc_pvalue s)); exact Logic.I|]. cbn beta.
  step. step. step. step. step. step. rewrite !n_named_id. reflexivity.
Qed.

Ltac node_tac3 H :=
  cbn [render]; unfold r_fswiss, r_iconv, r_fconv in *;
  match goal with
  | |- parse_node ?fx ?fr (Elem ?t ?a ?c) = _ => change (parse_node fx fr (Elem t a c)) with (parse_leaf fx fr t a c)
  end;
  unfold parse_leaf;
  repeat match goal with
         | |- context [str_eqb ?x ?y] => let b := eval vm_compute in (str_eqb x y) in change (str_eqb x y) with b
         end;
  cbn [orb]; cbv iota; rewrite H; reflexivity.

Lemma node_fswiss fixed fresh n : wf_fswiss n ->
  parse_node fixed fresh (render (SnSwissKnife n)) = Ok (pres1 fresh (NdSwissKnife (n_fswiss n))).
Proof. intros W. pose proof (fswiss_rt n W) as H. node_tac3 H. Qed.
Lemma node_iconv fixed fresh n : wf_iconv n ->
  parse_node fixed fresh (render (SnIntConverter n)) = Ok (pres1 fresh (NdIntConverter (n_iconv n))).
Proof. intros W. pose proof (iconv_rt n W) as H. node_tac3 H. Qed.
Lemma node_fconv fixed fresh n : wf_fconv n ->
  parse_node fixed fresh (render (SnConverter n)) = Ok (pres1 fresh (NdConverter (n_fconv n))).
Proof. intros W. pose proof (fconv_rt n W) as H. node_tac3 H. Qed.

(* ---------------------------------------------------------------------------------------------- *)
(* Enumeration and its entries                                                                      *)

Definition wf_enumentry (e : enumentry Src) : Prop :=
  wf_eb (ee_eb e) /\ wf_i64 (ee_value e) /\ oall wf_f (ee_numeric e).

Lemma numeric_norm (o : option fval) : oall wf_f o -> option_map convert_to_f64 (option_map sh_fval o) = o.
Proof. destruct o as [f|]; cbn; [|reflexivity]. intros W. now rewrite (f64_sh f W). Qed.

Lemma enumentry_rt fresh e : wf_enumentry e ->
  match r_enumentry e with Elem _ attrs ch => p_enumentry fresh attrs ch | _ => fail [] end
  = Ok (n_enumentry fresh e, []).
Proof.
  intros (W1 & W2 & W3). unfold r_enumentry, p_enumentry.
  rewrite (proj1 (attribute_of_r_attr (ee_attr e))). rewrite with_attr_rt.
  eb_step W1.
  eapply bind_step; [apply (leaf_i64 T_Value [] (ee_value e)); exact W2|]. cbn beta.
  step. step. unfold n_enumentry, entry_name. rewrite (numeric_norm _ W3). reflexivity.
Qed.

Lemma n_enumentries_length l : forall fresh, List.length (n_enumentries fresh l) = List.length l.
Proof. induction l; intros fresh; cbn; [reflexivity | now rewrite IHl]. Qed.

Lemma loop_enumentries k : hn [T_EnumEntry] k -> forall l, Forall wf_enumentry l ->
  forall fuel fresh, (List.length l < fuel)%nat ->
  p_enumentries fuel fresh (map r_enumentry l ++ k) = Ok (n_enumentries fresh l, k).
Proof.
  intros H. induction l as [|e l IH]; intros W fuel fresh Hf; (destruct fuel as [|f]; [cbn in Hf; lia|]).
  - cbn [p_enumentries map app n_enumentries].
    eapply bind_step; [apply next_if_absent; exact H | reflexivity].
  - inversion W as [|? ? We Wl]; subst. cbn [p_enumentries map app n_enumentries].
    pose proof (enumentry_rt fresh e We) as E. unfold r_enumentry in *.
    eapply bind_step; [reflexivity|]. cbn beta iota.
    rewrite (run_elem_ok (p_enumentry fresh) _ _ _ _ E). cbn [lift].
    eapply bind_step; [reflexivity|]. cbn beta.
    eapply bind_step; [apply IH; [exact Wl | cbn in Hf; lia] | reflexivity].
Qed.

Lemma hn_enumentries ts l k : mem_str T_EnumEntry ts = false -> hn ts k -> hn ts (map r_enumentry l ++ k).
Proof. intros H1 H2. destruct l; [exact H2 | exact H1]. Qed.

Ltac hn_tac ::=
  repeat first
    [ apply hn_nil
    | apply hn_elem; reflexivity
    | apply hn_ropt; [reflexivity|]
    | apply hn_rmany; [reflexivity|]
    | apply hn_rimm; [reflexivity|reflexivity]
    | apply hn_roimm; [reflexivity|reflexivity|]
    | apply hn_r_vk; reflexivity
    | apply hn_r_named; [reflexivity|]
    | apply hn_addrs; [reflexivity|]
    | apply hn_r_bitmask; reflexivity
    | apply hn_enumentries; [reflexivity|]
    | (eapply hn_incl; [eassumption|reflexivity]) ].

Definition wf_enumeration (n : enumeration Src) : Prop :=
  wf_eb (en_eb n) /\ Forall wf_enumentry (en_entries n) /\ wf_imm_i (en_value n) /\ oall wf_u64 (en_polling n).

Lemma enumeration_rt fresh n : wf_enumeration n ->
  match r_enumeration n with Elem _ attrs ch => p_enumeration fresh attrs ch | _ => fail [] end
  = Ok ((n_enumeration fresh n, map NdEnumEntry (n_enumentries fresh (en_entries n))), []).
Proof.
  intros (W1 & W2 & W3 & W4). unfold r_enumeration, p_enumeration. rewrite with_attr_rt.
  eb_step W1. step.
  eapply bind_step.
  { eapply loop_enumentries; [solve [hn_tac] | exact W2 | rewrite app_length, map_length; lia]. }
  cbn beta.
  eapply bind_step; [apply (pimm_rimm p_imm_i64 sh_ilit il_val wf_i64 ident _ _ _ _ ileaf_i64 W3)|]. cbn beta.
  step. step. reflexivity.
Qed.

Lemma node_enumeration fixed fresh n : wf_enumeration n ->
  parse_node fixed fresh (render (SnEnumeration n)) =
  Ok (mkPres (map NdEnumEntry (n_enumentries fresh (en_entries n))) [NdEnumeration (n_enumeration fresh n)] []
             (fresh + Z.of_nat (List.length (en_entries n)))).
Proof.
  intros W. pose proof (enumeration_rt fresh n W) as H.
  replace (Z.of_nat (List.length (en_entries n)))
    with (Z.of_nat (List.length (map NdEnumEntry (n_enumentries fresh (en_entries n)))))
    by (rewrite map_length, n_enumentries_length; reflexivity).
  node_tac2 H.
Qed.

(* ---------------------------------------------------------------------------------------------- *)
(* StructReg parsing                                                                                *)

Definition wf_sentry (e : sentry Src) : Prop :=
  wf_eb (se_eb e) /\ oall wf_u64 (se_polling e) /\ wf_bitmask (se_mask e).

Lemma sentry_rt e : wf_sentry e ->
  match r_sentry e with Elem _ attrs ch => p_sentry true attrs ch | _ => fail [] end = Ok (n_sentry e, []).
Proof.
  intros (W1 & W2 & W3). unfold r_sentry, p_sentry. rewrite with_attr_rt.
  eb_step W1. eapply bind_step; [reflexivity|]. cbn beta iota zeta.
  step. step. step. step.
  eapply bind_step; [apply p_bitmask_rt; exact W3|]. cbn beta.
  step. step. step. step. reflexivity.
Qed.

Lemma sentries_rt l : Forall wf_sentry l -> p_sentries true (map r_sentry l) = Ok (map n_sentry l).
Proof.
  induction l as [|e l IH]; intros W; [reflexivity|]. inversion W as [|? ? We Wl]; subst.
  pose proof (sentry_rt e We) as E. cbn [map]. unfold r_sentry in *. cbn [p_sentries].
  change (str_eqb T_StructEntry T_StructEntry) with true. cbv iota.
  rewrite (run_elem_ok (p_sentry true) _ _ _ _ E). cbn [bind]. rewrite (IH Wl). reflexivity.
Qed.

Lemma hn_sentries ts l : mem_str T_StructEntry ts = false -> hn ts (map r_sentry l).
Proof. intros H. destruct l; [exact Logic.I | exact H]. Qed.

Ltac hn_tac ::=
  repeat first
    [ apply hn_nil
    | apply hn_elem; reflexivity
    | apply hn_ropt; [reflexivity|]
    | apply hn_rmany; [reflexivity|]
    | apply hn_rimm; [reflexivity|reflexivity]
    | apply hn_roimm; [reflexivity|reflexivity|]
    | apply hn_r_vk; reflexivity
    | apply hn_r_named; [reflexivity|]
    | apply hn_addrs; [reflexivity|]
    | apply hn_r_bitmask; reflexivity
    | apply hn_enumentries; [reflexivity|]
    | apply hn_sentries; reflexivity
    | (eapply hn_incl; [eassumption|reflexivity]) ].

Definition wf_struct (s : structreg Src) : Prop := wf_rb (st_rb s) /\ Forall wf_sentry (st_entries s).

Lemma struct_rt s : wf_struct s ->
  match r_struct s with Elem _ _ ch => p_struct true ch | _ => fail [] end
  = Ok ((n_struct s, rb_nodes (st_rb s)), []).
Proof.
  intros (W1 & W2). unfold r_struct, p_struct.
  rb_step W1. step. rewrite (sentries_rt _ W2). reflexivity.
Qed.

Lemma node_struct fresh s : wf_struct s ->
  parse_node true fresh (render (SnStructReg s)) =
  Ok (mkPres (rb_nodes (st_rb s)) (map NdMaskedIntReg (into_masked_int_regs true (n_struct s)))
             (masked_invs (into_masked_int_regs true (n_struct s))) fresh).
Proof. intros W. pose proof (struct_rt s W) as H. node_tac2 H. Qed.

(* parsing composed with the desugaring rule: a declared StructReg is stored as its MaskedIntReg twins *)
Lemma node_struct_twins fresh s : wf_struct s -> Forall (fun e => limited s e = false) (st_entries s) ->
  let twins := map (fun e => n_masked (twin_src s e)) (st_entries s) in
  parse_node true fresh (render (SnStructReg s)) =
  Ok (mkPres (rb_nodes (st_rb s)) (map NdMaskedIntReg twins) (masked_invs twins) fresh).
Proof.
  intros W L twins. rewrite (node_struct fresh s W).
  destruct W as ((_ & W2 & _) & _). rewrite (struct_desugar s W2 L). reflexivity.
Qed.

(* ---------------------------------------------------------------------------------------------- *)
(* every modelled kind, Group included                                                              *)

Fixpoint wf_node (n : snode) : Prop :=
  match n with
  | SnNode x => wf_plain x | SnCategory x => wf_category x | SnInteger x => wf_integer x
  | SnIntReg x => wf_intreg x | SnMaskedIntReg x => wf_masked x | SnBoolean x => wf_boolean x
  | SnCommand x => wf_command x | SnEnumeration x => wf_enumeration x | SnFloat x => wf_float x
  | SnFloatReg x => wf_floatreg x | SnString x => wf_stringn x | SnStringReg x => wf_regnode x
  | SnRegister x => wf_regnode x | SnIntSwissKnife x => wf_iswiss x | SnPort x => wf_port x
  | SnStructReg s => wf_struct s /\ Forall (fun e => limited s e = false) (st_entries s)
  | SnConverter x => wf_fconv x | SnIntConverter x => wf_iconv x | SnSwissKnife x => wf_fswiss x
  | SnGroup l => (fix all (l : list snode) : Prop := match l with [] => True | x :: r => wf_node x /\ all r end) l
  end.

(* what parsing the declared node must produce: nodes stored on the way (embedded swiss knives, enum entries),
   nodes handed to the caller, invalidator registrations, next fresh id *)
Fixpoint expect (fresh : Z) (n : snode) : presult :=
  match n with
  | SnNode x => pres1 fresh (NdNode (n_plain x))
  | SnCategory x => pres1 fresh (NdCategory (n_category x))
  | SnInteger x => pres1 fresh (NdInteger (n_integer x))
  | SnIntReg x => mkPres (rb_nodes (ir_rb x)) [NdIntReg (n_intreg x)] (reg_invs (n_rb (ir_rb x)) (a_name (ir_attr x))) fresh
  | SnMaskedIntReg x =>
      mkPres (rb_nodes (mr_rb x)) [NdMaskedIntReg (n_masked x)] (reg_invs (n_rb (mr_rb x)) (a_name (mr_attr x))) fresh
  | SnBoolean x => pres1 fresh (NdBoolean (n_boolean x))
  | SnCommand x => pres1 fresh (NdCommand (n_command x))
  | SnEnumeration x =>
      mkPres (map NdEnumEntry (n_enumentries fresh (en_entries x))) [NdEnumeration (n_enumeration fresh x)] []
             (fresh + Z.of_nat (List.length (en_entries x)))
  | SnFloat x => pres1 fresh (NdFloat (n_float x))
  | SnFloatReg x => mkPres (rb_nodes (fr_rb x)) [NdFloatReg (n_floatreg x)] (reg_invs (n_rb (fr_rb x)) (a_name (fr_attr x))) fresh
  | SnString x => pres1 fresh (NdString (n_stringn x))
  | SnStringReg x => mkPres (rb_nodes (rn_rb x)) [NdStringReg (n_regnode x)] (reg_invs (n_rb (rn_rb x)) (a_name (rn_attr x))) fresh
  | SnRegister x => mkPres (rb_nodes (rn_rb x)) [NdRegister (n_regnode x)] (reg_invs (n_rb (rn_rb x)) (a_name (rn_attr x))) fresh
  | SnIntSwissKnife x => pres1 fresh (NdIntSwissKnife (n_iswiss x))
  | SnPort x => pres1 fresh (NdPort (n_port x))
  | SnStructReg s =>
      let twins := map (fun e => n_masked (twin_src s e)) (st_entries s) in
      mkPres (rb_nodes (st_rb s)) (map NdMaskedIntReg twins) (masked_invs twins) fresh
  | SnConverter x => pres1 fresh (NdConverter (n_fconv x))
  | SnIntConverter x => pres1 fresh (NdIntConverter (n_iconv x))
  | SnSwissKnife x => pres1 fresh (NdSwissKnife (n_fswiss x))
  | SnGroup l =>
      (fix go (l : list snode) (acc : presult) : presult :=
         match l with [] => acc | x :: r => go r (pres_app acc (expect (pr_fresh acc) x)) end) l (mkPres [] [] [] fresh)
  end.

Definition wf_all := fix all (l : list snode) : Prop := match l with [] => True | x :: r => wf_node x /\ all r end.
Definition expect_go := fix go (l : list snode) (acc : presult) : presult :=
  match l with [] => acc | x :: r => go r (pres_app acc (expect (pr_fresh acc) x)) end.

Lemma render_is_elem n : exists t a c, render n = Elem t a c.
Proof. destruct n; eexists _, _, _; reflexivity. Qed.

Lemma roundtrip_all : forall n fresh, wf_node n -> parse_node true fresh (render n) = Ok (expect fresh n).
Proof.
  fix IH 1. intros n fresh. destruct n as [x|x|x|x|x|x|x|x|x|x|x|x|x|x|x|s|x|x|x|l]; cbn [wf_node expect]; intros W.
  - apply node_plain; exact W.
  - apply node_category; exact W.
  - apply node_integer; exact W.
  - apply node_intreg; exact W.
  - apply node_masked; exact W.
  - apply node_boolean; exact W.
  - apply node_command; exact W.
  - apply node_enumeration; exact W.
  - apply node_float; exact W.
  - apply node_floatreg; exact W.
  - apply node_string; exact W.
  - apply node_stringreg; exact W.
  - apply node_register; exact W.
  - apply node_iswiss; exact W.
  - apply node_port; exact W.
  - destruct W as [W1 W2]. apply (node_struct_twins fresh s W1 W2).
  - apply node_fconv; exact W.
  - apply node_iconv; exact W.
  - apply node_fswiss; exact W.
  - fold wf_all in W. fold expect_go. cbn [render]. rewrite group_unfold.
    generalize (mkPres [] [] [] fresh) as acc. revert W.
    induction l as [|x r IHr]; intros W acc; [reflexivity|].
    destruct W as [Wx Wr]. cbn [map].
    destruct (render_is_elem x) as (t & a & c & E). rewrite E. cbn [group_go]. fold (group_go true).
    rewrite <- E. rewrite (IH x (pr_fresh acc) Wx). cbn [bind]. cbn [expect_go]. fold expect_go.
    apply IHr. exact Wr.
Qed.

(* ---------------------------------------------------------------------------------------------- *)
(* declared names and kinds                                                                         *)

Fixpoint declared (n : snode) : list (str * Z) :=
  match n with
  | SnNode x => [(a_name (pl_attr x), 0)] | SnCategory x => [(a_name (ca_attr x), 1)]
  | SnInteger x => [(a_name (i_attr x), 2)] | SnIntReg x => [(a_name (ir_attr x), 3)]
  | SnMaskedIntReg x => [(a_name (mr_attr x), 4)] | SnBoolean x => [(a_name (b_attr x), 5)]
  | SnCommand x => [(a_name (c_attr x), 6)] | SnEnumeration x => [(a_name (en_attr x), 7)]
  | SnFloat x => [(a_name (f_attr x), 9)] | SnFloatReg x => [(a_name (fr_attr x), 10)]
  | SnString x => [(a_name (s_attr x), 11)] | SnStringReg x => [(a_name (rn_attr x), 12)]
  | SnRegister x => [(a_name (rn_attr x), 13)] | SnIntSwissKnife x => [(a_name (sk_attr x), 17)]
  | SnPort x => [(a_name (po_attr x), 18)]
  | SnStructReg s => map (fun e => (a_name (se_attr e), 4)) (st_entries s)
  | SnConverter x => [(a_name (fc_attr x), 14)] | SnIntConverter x => [(a_name (ic_attr x), 15)]
  | SnSwissKnife x => [(a_name (fk_attr x), 16)]
  | SnGroup l => (fix all (l : list snode) := match l with [] => [] | x :: r => declared x ++ all r end) l
  end.
Definition declared_all := fix all (l : list snode) := match l with [] => [] | x :: r => declared x ++ all r end.

Definition name_kind (d : node_data) : str * Z := (nd_name d, kind_code d).

Lemma names_all : forall n fresh, map name_kind (pr_ret (expect fresh n)) = declared n.
Proof.
  fix IH 1. intros n fresh. destruct n as [x|x|x|x|x|x|x|x|x|x|x|x|x|x|x|s|x|x|x|l]; try reflexivity.
  - cbn [expect pr_ret declared]. rewrite !map_map. apply map_ext. intros e. reflexivity.
  - cbn [expect declared]. fold expect_go. fold declared_all.
    assert (G : forall l acc, map name_kind (pr_ret (expect_go l acc)) = map name_kind (pr_ret acc) ++ declared_all l).
    { induction l0 as [|x r IHr]; intros acc; cbn [expect_go declared_all]; [now rewrite app_nil_r|].
      fold expect_go. fold declared_all. rewrite IHr. cbn [pres_app pr_ret]. rewrite map_app, IH, app_assoc. reflexivity. }
    rewrite G. reflexivity.
Qed.

(* enumeration entries are reachable through their enumeration: its entry list names exactly the stored entries *)
Lemma enum_entries_retrievable fresh x :
  en_entries (n_enumeration fresh x) = map nd_name (pr_stored (expect fresh (SnEnumeration x))) /\
  map (fun e => ee_symbolic e) (n_enumentries fresh (en_entries x)) = map (fun e => a_name (ee_attr e)) (en_entries x).
Proof.
  split.
  - cbn [expect pr_stored n_enumeration en_entries]. rewrite map_map. reflexivity.
  - generalize fresh. induction (en_entries x) as [|e l IH]; intros f; cbn; [reflexivity|]. now rewrite IH.
Qed.

(* ---------------------------------------------------------------------------------------------- *)
(* the document                                                                                     *)

Fixpoint expect_seq (fresh : Z) (ns : list snode) : list presult :=
  match ns with
  | [] => []
  | n :: r => let p := expect fresh n in p :: expect_seq (pr_fresh p) r
  end.

Lemma seq_expect : forall ns fresh, Forall wf_node ns -> seq_results true fresh (map render ns) = Ok (expect_seq fresh ns).
Proof.
  induction ns as [|n r IH]; intros fresh W; [reflexivity|]. inversion W as [|? ? Wn Wr]; subst.
  cbn [map expect_seq]. destruct (render_is_elem n) as (t & a & c & E). rewrite E. cbn [seq_results].
  rewrite <- E, (roundtrip_all n fresh Wn). cbn [bind]. rewrite (IH _ Wr). reflexivity.
Qed.

Lemma existsb_name_false st d : ~ In (nd_name d) (map nd_name st) ->
  existsb (fun x => str_eqb (nd_name x) (nd_name d)) st = false.
Proof.
  intros H. destruct (existsb _ st) eqn:E; [|reflexivity].
  apply existsb_exists in E. destruct E as (x & Hx & Ex). apply str_eqb_eq in Ex.
  exfalso. apply H. rewrite <- Ex. apply in_map. exact Hx.
Qed.

Lemma store_all_nodup : forall l st, NoDup (map nd_name (st ++ l)) -> store_all st l = Ok (st ++ l).
Proof.
  induction l as [|d r IH]; intros st H; cbn [store_all]; [now rewrite app_nil_r|].
  rewrite map_app in H. cbn [map] in H. pose proof (NoDup_remove_2 _ _ _ H) as N.
  rewrite existsb_name_false by (intros X; apply N; apply in_or_app; left; exact X).
  rewrite IH; [now rewrite <- app_assoc|]. rewrite <- app_assoc. cbn [app]. rewrite map_app. cbn [map]. exact H.
Qed.

Definition find_node (name : str) (l : list node_data) : option node_data :=
  find (fun x => str_eqb (nd_name x) name) l.

Lemma find_node_nodup : forall l d, NoDup (map nd_name l) -> In d l -> find_node (nd_name d) l = Some d.
Proof.
  induction l as [|x l IH]; intros d N I; [destruct I|]. cbn [map] in N. inversion N as [|? ? Nx Nl]; subst.
  unfold find_node. cbn [find]. destruct I as [->|I]; [now rewrite str_eqb_refl|].
  destruct (str_eqb (nd_name x) (nd_name d)) eqn:E.
  - apply str_eqb_eq in E. exfalso. apply Nx. rewrite E. apply in_map. exact I.
  - apply IH; assumption.
Qed.

Definition doc_nodes (ns : list snode) : list node_data :=
  List.concat (map (fun q => pr_stored q ++ pr_ret q) (expect_seq 0 ns)).
Definition doc_invs (ns : list snode) : list (str * str) := List.concat (map pr_invs (expect_seq 0 ns)).

Lemma expect_seq_incl : forall ns fresh n, In n ns ->
  exists f, incl (pr_ret (expect f n)) (List.concat (map (fun q => pr_stored q ++ pr_ret q) (expect_seq fresh ns))).
Proof.
  induction ns as [|m r IH]; intros fresh n I; [destruct I|]. cbn [expect_seq map List.concat].
  destruct I as [->|I].
  - exists fresh. intros d Hd. apply in_or_app. left. apply in_or_app. right. exact Hd.
  - destruct (IH (pr_fresh (expect fresh m)) n I) as (f & Hf). exists f.
    intros d Hd. apply in_or_app. right. apply Hf. exact Hd.
Qed.

Lemma document attrs rd ns :
  parse_regdesc attrs = Ok rd -> Forall wf_node ns -> NoDup (map nd_name (doc_nodes ns)) ->
  parse_doc true (Elem T_RegisterDescription attrs (map render ns)) = Ok (rd, mkStore (doc_nodes ns) (doc_invs ns)) /\
  (forall d, In d (doc_nodes ns) -> find_node (nd_name d) (doc_nodes ns) = Some d) /\
  (forall n name kind, In n ns -> In (name, kind) (declared n) ->
     exists d, find_node name (doc_nodes ns) = Some d /\ nd_name d = name /\ kind_code d = kind).
Proof.
  intros R W N. split; [|split].
  - unfold parse_doc. change (str_eqb T_RegisterDescription T_RegisterDescription) with true. cbn [negb].
    rewrite R. cbn [bind].
    rewrite (children_seq true _ 0 (mkStore [] []) _ (seq_expect ns 0 W)). cbn [s_nodes s_invs app].
    fold (doc_nodes ns). fold (doc_invs ns). rewrite (store_all_nodup _ [] N). reflexivity.
  - intros d I. apply find_node_nodup; assumption.
  - intros n name kind I D. destruct (expect_seq_incl ns 0 n I) as (f & Hf).
    rewrite <- (names_all n f) in D. apply in_map_iff in D. destruct D as (d & E & Hd).
    exists d. unfold name_kind in E. injection E as E1 E2. split; [|split; assumption].
    rewrite <- E1. apply find_node_nodup; [exact N | apply Hf; exact Hd].
Qed.

(* non-vacuity: a document (structure with two entries and invalidators + its port) meeting every hypothesis *)
Definition example_attrs : list (str * str) :=
  [(T_ModelName, [77]); (T_VendorName, [86]); (T_StandardNameSpace, L_None); (T_SchemaMajorVersion, [49]);
   (T_SchemaMinorVersion, [49]); (T_SchemaSubMinorVersion, [48]); (T_MajorVersion, [49]); (T_MinorVersion, [50]);
   (T_SubMinorVersion, [51]); (T_ProductGuid, [97]); (T_VersionGuid, [98])].
Definition example_nodes : list snode :=
  [SnStructReg refuted_struct; SnPort (mkPort Src (mkAttr Src [68] None None None) eb0 None None None);
   SnInteger (mkInteger Src (mkAttr Src [65] None None None) eb0 None (SvPValue [[67]] [86] []) None
                        (Some (PNode [77])) (Some (Imm (IL (FmHex true false) 255))) None None [])].

Lemma document_example :
  exists rd, parse_regdesc example_attrs = Ok rd /\ Forall wf_node example_nodes /\
    NoDup (map nd_name (doc_nodes example_nodes)) /\ List.length (doc_nodes example_nodes) = 4%nat /\
    doc_invs example_nodes = [([89], [69; 48]); ([88], [69; 49])].
Proof.
  eexists. split; [vm_compute; reflexivity|]. split; [|split; [|split; reflexivity]].
  - repeat constructor; try exact Logic.I; try (vm_compute; congruence).
    exists 77, []. split; reflexivity.
  - vm_compute. repeat constructor; cbn; intuition discriminate.
Qed.

(* ---------------------------------------------------------------------------------------------- *)
(* the formula-carrying kinds, stated on their own                                                  *)

Lemma roundtrip_formula_kinds fixed fresh :
  (forall n, wf_fconv n -> parse_node fixed fresh (render (SnConverter n)) = Ok (pres1 fresh (NdConverter (n_fconv n)))) /\
  (forall n, wf_iconv n -> parse_node fixed fresh (render (SnIntConverter n)) = Ok (pres1 fresh (NdIntConverter (n_iconv n)))) /\
  (forall n, wf_fswiss n -> parse_node fixed fresh (render (SnSwissKnife n)) = Ok (pres1 fresh (NdSwissKnife (n_fswiss n)))) /\
  (forall n, wf_iswiss n -> parse_node fixed fresh (render (SnIntSwissKnife n)) = Ok (pres1 fresh (NdIntSwissKnife (n_iswiss n)))).
Proof.
  repeat split; intros n W;
    [apply node_fconv | apply node_iconv | apply node_fswiss | apply node_iswiss]; exact W.
Qed.

Lemma names_formula_kinds :
  (forall n, name_kind (NdConverter (n_fconv n)) = (a_name (fc_attr n), 14) /\
             fc_pvalue (n_fconv n) = fc_pvalue n /\ fc_to (n_fconv n) = fc_to n /\ fc_from (n_fconv n) = fc_from n /\
             fc_vars (n_fconv n) = fc_vars n /\ fc_consts (n_fconv n) = fc_consts n /\ fc_exprs (n_fconv n) = fc_exprs n) /\
  (forall n, name_kind (NdIntConverter (n_iconv n)) = (a_name (ic_attr n), 15) /\
             ic_pvalue (n_iconv n) = ic_pvalue n /\ ic_to (n_iconv n) = ic_to n /\ ic_from (n_iconv n) = ic_from n /\
             ic_vars (n_iconv n) = ic_vars n /\ ic_exprs (n_iconv n) = ic_exprs n) /\
  (forall n, name_kind (NdSwissKnife (n_fswiss n)) = (a_name (fk_attr n), 16) /\
             fk_formula (n_fswiss n) = fk_formula n /\ fk_vars (n_fswiss n) = fk_vars n /\
             fk_consts (n_fswiss n) = fk_consts n /\ fk_exprs (n_fswiss n) = fk_exprs n) /\
  (forall n, name_kind (NdIntSwissKnife (n_iswiss n)) = (a_name (sk_attr n), 17) /\
             sk_formula (n_iswiss n) = sk_formula n /\ sk_vars (n_iswiss n) = sk_vars n /\ sk_exprs (n_iswiss n) = sk_exprs n).
Proof. repeat split. Qed.

(* non-vacuity: a Converter with two variables, a float constant, an expression, Slope and IsLinear *)
Definition example_converter : fconv Src :=
  mkFconv Src (mkAttr Src [67] None None None) eb0 (Some (BL true true)) [([65], [82; 49]); ([66], [82; 50])]
          [([75], FvText [49; 46; 53])] [([69], [65; 43; 49])] [65; 42; 66] [65; 47; 66] [86] (Some [117]) None
          (Some DnFixed) (Some (IL (FmHex false true) 10)) (Some SlVarying) (Some (BL false true)).
Lemma formula_example :
  wf_fconv example_converter /\
  exists p, parse_node true 0 (render (SnConverter example_converter)) = Ok p /\
    map (fun d => match d with
                  | NdConverter c => (fc_pvalue c, slope_ord (fc_slope c), fc_linear c, fc_dprec c, List.length (fc_vars c))
                  | _ => ([], -1, false, -1, O) end) (pr_ret p) = [([86], 2, true, 10, 2%nat)].
Proof.
  split.
  - repeat split; try exact Logic.I; repeat constructor; vm_compute; congruence.
  - eexists. split; [vm_compute; reflexivity | reflexivity].
Qed.
