(* C08, tie to the source CODE: the decoders of device/src/u3v/protocol/{ack,event}.rs as translated on every run by
   tools/translate_ackparse.py (gen/AckParseSrc.v, over model/CurOps.v and lib/RustInt.v) return, for every byte list,
   exactly what the hand-written models model/Ack.v and model/Event.v return. *)
From Cam Require Import Outcome RustInt Bytes Ack Event GenCPLayout CurOps AckParseSrc ProtoTables P_Tables P_C08.

(* ---- how the values of the translated types are read as the numbers of the models ------------------------------- *)
Definition gencp_num (g : src_GenCpStatus) : Z :=
  match g with
  | GenCpStatus_Success => 0 | GenCpStatus_NotImplemented => 1 | GenCpStatus_InvalidParameter => 2
  | GenCpStatus_InvalidAddress => 3 | GenCpStatus_WriteProtect => 4 | GenCpStatus_BadAlignment => 5
  | GenCpStatus_AccessDenied => 6 | GenCpStatus_Busy => 7 | GenCpStatus_Timeout => 8
  | GenCpStatus_InvalidHeader => 9 | GenCpStatus_WrongConfig => 10 | GenCpStatus_GenericError => 11
  end.
Definition usb_num (u : src_UsbSpecificStatus) : Z :=
  match u with
  | UsbSpecificStatus_ResendNotSupported => 100 | UsbSpecificStatus_StreamEndpointHalted => 101
  | UsbSpecificStatus_PayloadSizeNotAligned => 102 | UsbSpecificStatus_InvalidSiState => 103
  | UsbSpecificStatus_EventEndpointHalted => 104
  end.
Definition status_num (k : src_StatusKind) : Z :=
  match k with
  | StatusKind_GenCp g => gencp_num g | StatusKind_UsbSpecific u => usb_num u | StatusKind_DeviceSpecific => 200
  end.
Definition scd_kind_num (k : src_ScdKind) : Z :=
  match k with
  | ScdKind_ReadMem => 0 | ScdKind_WriteMem => 1 | ScdKind_ReadMemStacked => 2 | ScdKind_WriteMemStacked => 3
  | ScdKind_Pending => 4
  end.
Definition ack_of_src (p : src_AckPacket) : ack :=
  let c := AckPacket_ccd p in
  {| a_code := Status_code (AckCcd_status c); a_status := status_num (Status_kind (AckCcd_status c));
     a_kind := scd_kind_num (AckCcd_scd_kind c); a_scd_len := AckCcd_scd_len c;
     a_request_id := AckCcd_request_id c; a_raw_scd := AckPacket_raw_scd p |}.
Definition event_of_src (e : src_EventScd) : event :=
  {| ev_size := EventScd_event_size e; ev_id := EventScd_event_id e; ev_timestamp := EventScd_timestamp e;
     ev_data := EventScd_data e |}.
Definition events_of_src (p : src_EventPacket) : Z * list event :=
  (EventCcd_request_id (EventPacket_ccd p), map event_of_src (EventPacket_scd p)).

(* ---- cursors ------------------------------------------------------------------------------------------------------ *)
(* a cursor that stands behind [pre] with [r] still to read *)
Definition mkcur (pre r : list Z) : cur := (pre ++ r, zlen pre).

Lemma cur_new_mk bs : cur_new bs = mkcur [] bs.
Proof. reflexivity. Qed.

Lemma cur_rem_mk pre r : cur_rem (mkcur pre r) = r.
Proof.
  unfold cur_rem, mkcur, cur_buf, cur_pos; cbn [fst snd].
  rewrite zlen_app, Z.min_l by (pose proof (zlen_nonneg r); lia). apply drop_app_exact.
Qed.

Lemma rd_ok n r v r' : rd n r = Ok (v, r') ->
  v = of_le (firstn n r) /\ r' = skipn n r /\ length (firstn n r) = n.
Proof.
  unfold rd. destruct (length r <? n)%nat eqn:E; [discriminate|]. intros H. apply Ok_inj in H.
  apply Nat.ltb_ge in E. inversion H; subst. repeat split. rewrite firstn_length. lia.
Qed.

Lemma of_le_firstn_bound n r : bytes_ok r -> (n <= length r)%nat -> 0 <= of_le (firstn n r) < 256 ^ Z.of_nat n.
Proof.
  intros Hb Hn. pose proof (of_le_bound (firstn n r) (bytes_ok_firstn n r Hb)) as H.
  rewrite firstn_length, Nat.min_l in H by lia. exact H.
Qed.

(* every successful read moves the cursor over the bytes read; the slice underneath stays the same *)
Lemma read_rel n pre r :
  match rd n r with
  | Ok (v, r') => exists pre', cur_read_le n (mkcur pre r) = Ok (v, mkcur pre' r') /\
                               pre' ++ r' = pre ++ r /\ zlen pre' = zlen pre + Z.of_nat n /\
                               (bytes_ok r -> bytes_ok r' /\ 0 <= v < 256 ^ Z.of_nat n)
  | Err e => cur_read_le n (mkcur pre r) = Err e
  | Panic => cur_read_le n (mkcur pre r) = Panic
  end.
Proof.
  unfold cur_read_le. rewrite cur_rem_mk. unfold rd.
  destruct (length r <? n)%nat eqn:E; [reflexivity|]. apply Nat.ltb_ge in E.
  exists (pre ++ firstn n r). unfold mkcur, cur_buf, cur_pos; cbn [fst snd].
  rewrite <- app_assoc, firstn_skipn. repeat split.
  - rewrite zlen_app. unfold zlen at 3. rewrite firstn_length, Nat.min_l by lia. reflexivity.
  - rewrite zlen_app. unfold zlen at 2. rewrite firstn_length, Nat.min_l by lia. reflexivity.
  - now apply bytes_ok_skipn.
  - now apply of_le_firstn_bound.
  - now apply of_le_firstn_bound.
Qed.

Ltac rd_step :=
  match goal with
  | |- context [cur_read_le ?n (mkcur ?pre ?r)] =>
    let H := fresh "Hrd" in
    pose proof (read_rel n pre r) as H;
    destruct (rd n r) as [[? ?]|?|];
    [ let p := fresh "pre" in let Hb := fresh "Hbuf" in let Hl := fresh "Hlen" in
      let Hy := fresh "Hbytes" in
      destruct H as (p & H & Hb & Hl & Hy); rewrite H; clear H
    | rewrite H; clear H | rewrite H; clear H ];
    cbn [bind omap]; try reflexivity
  end.

(* use of a lemma of the shape [match rd .. with Ok .. => match .. with Ok _ => exists .., f (mkcur pre r) = Ok .. /\ facts
   | Err e => f (mkcur pre r) = Err e | .. end | .. end] for the call of f at the head of the goal *)
Ltac rel_go H :=
  lazymatch type of H with
  | match ?x with _ => _ end =>
    (destruct x as [[? ?]|?|] || destruct x as [?|?|]); cbn [bind omap];
    [ rel_go H | rewrite H; cbn [bind omap]; try reflexivity | rewrite H; cbn [bind omap]; try reflexivity ]
  | exists _, _ => let s := fresh "s" in destruct H as (s & H); rel_go H
  | _ = _ /\ _ => let E := fresh "E" in destruct H as (E & H); rewrite E; clear E; cbn [bind omap]
  end.
Ltac rel_step lem f :=
  match goal with
  | |- context [f (mkcur ?pre ?r)] => let H := fresh "Hrel" in pose proof (lem pre r) as H; rel_go H
  end.
Ltac guard_step :=
  match goal with
  | |- context [if negb ?c then _ else _] => destruct (negb c); cbn [bind omap]; [reflexivity|]
  end.
Ltac facts :=
  repeat (repeat match goal with H : _ /\ _ |- _ => destruct H end;
          repeat match goal with H : bytes_ok ?r -> _, H' : bytes_ok ?r |- _ => specialize (H H') end).

(* ---- status and kind ---------------------------------------------------------------------------------------------- *)
Lemma tz_count_nonneg f x : 0 <= tz_count f x.
Proof. revert x; induction f as [|f IH]; intros x; cbn [tz_count]; [lia|]. destruct (Z.odd x); [lia|]. specialize (IH (x / 2)). lia. Qed.

Lemma tz_count_2 f x : Z.odd x = false -> Z.odd (x / 2) = false -> 2 <= tz_count (S (S f)) x.
Proof. intros H0 H1. cbn [tz_count]. rewrite H0, H1. pose proof (tz_count_nonneg f (x / 2 / 2)). lia. Qed.

Lemma tz_ge2 x : Z.land x 3 = 0 -> (r_trailing_zeros 16 x >=? 2) = true.
Proof.
  intros H. unfold r_trailing_zeros. change (Z.to_nat 16) with 16%nat.
  assert (H0 : Z.testbit x 0 = false).
  { pose proof (f_equal (fun y => Z.testbit y 0) H) as E. cbv beta in E. rewrite Z.land_spec, Z.bits_0 in E.
    change (Z.testbit 3 0) with true in E. now rewrite andb_true_r in E. }
  assert (H1 : Z.testbit x 1 = false).
  { pose proof (f_equal (fun y => Z.testbit y 1) H) as E. cbv beta in E. rewrite Z.land_spec, Z.bits_0 in E.
    change (Z.testbit 3 1) with true in E. now rewrite andb_true_r in E. }
  rewrite Z.bit0_odd in H0.
  assert (H2 : Z.odd (x / 2) = false).
  { rewrite <- Z.bit0_odd, Z.div2_bits by lia. exact H1. }
  apply Z.geb_le. apply (tz_count_2 14 x H0 H2).
Qed.

Lemma shr16_13 x : r_shr 16 x 13 = Ok (Z.shiftr x 13).
Proof. reflexivity. Qed.

Ltac split_eqbs v :=
  repeat match goal with
         | |- context [v =? ?k] => destruct (v =? k)
         end.

Lemma gencp_status_src' code : Z.land (Z.shiftr code 13) 3 = 0 ->
  match parse_gencp_status code with
  | Ok k => exists s, src_Status_parse_gencp_status code = Ok s /\ Status_code s = code /\ status_num (Status_kind s) = k
  | Err e => src_Status_parse_gencp_status code = Err e
  | Panic => src_Status_parse_gencp_status code = Panic
  end.
Proof.
  intros Hns. unfold src_Status_parse_gencp_status, parse_gencp_status, gencp_table. rewrite shr16_13. cbn [bind lookup].
  rewrite (tz_ge2 _ Hns). cbn [negb].
  split_eqbs code; cbn [bind]; try reflexivity; (eexists; split; [reflexivity|split; reflexivity]).
Qed.

Lemma usb_status_src' code : Z.land (Z.shiftr code 13) 3 = 1 ->
  match parse_usb_status code with
  | Ok k => exists s, src_Status_parse_usb_status code = Ok s /\ Status_code s = code /\ status_num (Status_kind s) = k
  | Err e => src_Status_parse_usb_status code = Err e
  | Panic => src_Status_parse_usb_status code = Panic
  end.
Proof.
  intros Hns. unfold src_Status_parse_usb_status, parse_usb_status, usb_table. rewrite shr16_13. cbn [bind lookup].
  rewrite Hns. cbn [Z.eqb Pos.eqb negb].
  split_eqbs code; cbn [bind]; try reflexivity; (eexists; split; [reflexivity|split; reflexivity]).
Qed.

(* Status::parse behind a cursor *)
Lemma status_parse_rel pre r :
  match rd 2 r with
  | Ok (code, r') =>
    match status_kind code with
    | Ok k => exists s pre', src_Status_parse (mkcur pre r) = Ok (s, mkcur pre' r') /\
                             Status_code s = code /\ status_num (Status_kind s) = k /\
                             pre' ++ r' = pre ++ r /\ zlen pre' = zlen pre + 2
    | Err e => src_Status_parse (mkcur pre r) = Err e
    | Panic => src_Status_parse (mkcur pre r) = Panic
    end
  | Err e => src_Status_parse (mkcur pre r) = Err e
  | Panic => src_Status_parse (mkcur pre r) = Panic
  end.
Proof.
  unfold src_Status_parse. rd_step.
  match goal with |- context [r_shr 16 ?c 13] => rename c into code end.
  match goal with H : ?p ++ _ = pre ++ r |- _ => rename p into pre0 end.
  rewrite shr16_13. cbn [bind]. unfold status_kind. cbv zeta.
  destruct (Z.land (Z.shiftr code 13) 3 =? 0) eqn:E0.
  { apply Z.eqb_eq in E0. pose proof (gencp_status_src' code E0) as H.
    destruct (parse_gencp_status code) as [k|e|]; [destruct H as (s & -> & Hc & Hk)|rewrite H|rewrite H]; cbn [bind]; try reflexivity.
    exists s, pre0. auto. }
  destruct (Z.land (Z.shiftr code 13) 3 =? 1) eqn:E1.
  { apply Z.eqb_eq in E1. pose proof (usb_status_src' code E1) as H.
    destruct (parse_usb_status code) as [k|e|]; [destruct H as (s & -> & Hc & Hk)|rewrite H|rewrite H]; cbn [bind]; try reflexivity.
    exists s, pre0. auto. }
  destruct (Z.land (Z.shiftr code 13) 3 =? 2); cbn [bind]; [|reflexivity].
  eexists; exists pre0. repeat split; auto.
Qed.

Lemma scd_kind_parse_rel pre r :
  match rd 2 r with
  | Ok (id, r') =>
    match scd_kind_of id with
    | Ok k => exists s pre', src_ScdKind_parse (mkcur pre r) = Ok (s, mkcur pre' r') /\ scd_kind_num s = k /\
                             pre' ++ r' = pre ++ r /\ zlen pre' = zlen pre + 2
    | Err e => src_ScdKind_parse (mkcur pre r) = Err e
    | Panic => src_ScdKind_parse (mkcur pre r) = Panic
    end
  | Err e => src_ScdKind_parse (mkcur pre r) = Err e
  | Panic => src_ScdKind_parse (mkcur pre r) = Panic
  end.
Proof.
  unfold src_ScdKind_parse. rd_step.
  match goal with |- context [scd_kind_of ?c] => rename c into id end.
  match goal with H : ?p ++ _ = pre ++ r |- _ => rename p into pre0 end.
  unfold scd_kind_of.
  split_eqbs id; cbn [bind]; try reflexivity; (eexists; exists pre0; repeat split; auto).
Qed.

(* ---- AckPacket::parse ---------------------------------------------------------------------------------------------- *)
Lemma r_cast64_small x : 0 <= x < 2 ^ 64 -> r_cast 64 x = x.
Proof. intros. unfold r_cast. apply Z.mod_small. lia. Qed.

Lemma drop_0 {A} (l : list A) : drop 0 l = l.
Proof. reflexivity. Qed.

Lemma take_all {A} (l : list A) : take (zlen l) l = l.
Proof. unfold take, zlen. rewrite Nat2Z.id. apply firstn_all. Qed.

(* &cursor.get_ref()[cursor.position() as usize..] : what is left to read *)
Lemma slice_tail pre r : zlen pre < 2 ^ 64 ->
  src_slice (cur_buf (mkcur pre r)) (r_cast 64 (cur_pos (mkcur pre r))) (zlen (cur_buf (mkcur pre r))) = Ok r.
Proof.
  intros H. unfold mkcur, cur_buf, cur_pos; cbn [fst snd]. pose proof (zlen_nonneg pre). pose proof (zlen_nonneg r).
  rewrite r_cast64_small by lia. unfold src_slice, r_slice. rewrite zlen_app.
  replace (zlen pre <=? zlen pre + zlen r) with true by (symmetry; apply Z.leb_le; lia).
  rewrite Z.leb_refl. cbn [andb bind]. replace (zlen pre + zlen r - zlen pre) with (zlen r) by lia.
  now rewrite drop_app_exact, take_all.
Qed.

Lemma ack_parse_src bs : omap ack_of_src (src_AckPacket_parse bs) = parse_ack bs.
Proof.
  unfold src_AckPacket_parse, parse_ack, parse_ack_with. rewrite cur_new_mk. cbv zeta.
  unfold src_AckPacket_parse_prefix. rd_step.
  unfold src_AckPacket_PREFIX_MAGIC, ACK_MAGIC. guard_step.
  unfold src_AckCcd_parse.
  rel_step status_parse_rel src_Status_parse.
  rel_step scd_kind_parse_rel src_ScdKind_parse.
  rd_step. rd_step. facts.
  rewrite slice_tail by (unfold zlen in *; cbn [length] in *; lia). cbn [bind omap].
  unfold ack_of_src; cbn. now subst.
Qed.

Lemma is_fatal_src s : src_Status_is_fatal s = Ok (status_is_fatal (Status_code s)).
Proof. reflexivity. Qed.

Lemma is_success_src s : src_Status_is_success s = status_is_success (status_num (Status_kind s)).
Proof. unfold src_Status_is_success. destruct (Status_kind s) as [g|u|]; [destruct g|destruct u|]; reflexivity. Qed.

(* ---- typed views ----------------------------------------------------------------------------------------------------- *)
Lemma slice_head buf n : 0 <= n <= zlen buf -> src_slice buf 0 n = Ok (take n buf).
Proof.
  intros H. unfold src_slice, r_slice.
  replace (0 <=? n) with true by (symmetry; apply Z.leb_le; lia).
  replace (n <=? zlen buf) with true by (symmetry; apply Z.leb_le; lia).
  cbn [andb bind]. now rewrite Z.sub_0_r, drop_0.
Qed.

Lemma view_read_src buf ccd : 0 <= AckCcd_scd_len ccd < 2 ^ 64 ->
  omap ReadMem_data (src_ReadMem_as_ParseScd_parse buf ccd) =
  (if zlen buf <? AckCcd_scd_len ccd then Err E_INVALID_PACKET else Ok (take (AckCcd_scd_len ccd) buf)).
Proof.
  intros H. unfold src_ReadMem_as_ParseScd_parse, src_AckCcd_scd_len. cbv zeta. rewrite r_cast64_small by exact H.
  destruct (zlen buf <? AckCcd_scd_len ccd) eqn:E; [reflexivity|]. apply Z.ltb_ge in E.
  rewrite slice_head by lia. reflexivity.
Qed.

Lemma view_read_stacked_src buf ccd : 0 <= AckCcd_scd_len ccd < 2 ^ 64 ->
  omap ReadMemStacked_data (src_ReadMemStacked_as_ParseScd_parse buf ccd) =
  (if zlen buf <? AckCcd_scd_len ccd then Err E_INVALID_PACKET else Ok (take (AckCcd_scd_len ccd) buf)).
Proof.
  intros H. unfold src_ReadMemStacked_as_ParseScd_parse, src_AckCcd_scd_len. cbv zeta. rewrite r_cast64_small by exact H.
  destruct (zlen buf <? AckCcd_scd_len ccd) eqn:E; [reflexivity|]. apply Z.ltb_ge in E.
  rewrite slice_head by lia. reflexivity.
Qed.

Definition model_write (buf : list Z) : outcome Z :=
  let? (reserved, r1) := rd 2 buf in
  if negb (reserved =? 0) then Err E_INVALID_PACKET else
  let? (len, _) := rd 2 r1 in Ok len.

Lemma view_write_src buf ccd : omap WriteMem_length (src_WriteMem_as_ParseScd_parse buf ccd) = model_write buf.
Proof.
  unfold src_WriteMem_as_ParseScd_parse, model_write. rewrite cur_new_mk. cbv zeta. rd_step.
  guard_step. rd_step.
Qed.

Lemma view_pending_src buf ccd : omap Pending_timeout (src_Pending_as_ParseScd_parse buf ccd) = model_write buf.
Proof.
  unfold src_Pending_as_ParseScd_parse, model_write. rewrite cur_new_mk. cbv zeta. rd_step.
  guard_step. rd_step.
Qed.

Lemma gtb0_leb x : negb (x >? 0) = (x <=? 0).
Proof. rewrite Z.gtb_ltb, Z.leb_antisym. reflexivity. Qed.

(* the loop of WriteMemStacked::parse, for every fuel *)
Lemma wms_loop_src fuel : forall pre r tr acc,
  omap (fun x => snd (fst x)) (src_WriteMemStacked_as_ParseScd_parse_loop1 fuel (mkcur pre r) (rev acc) tr) =
  wms_loop false fuel tr r acc.
Proof.
  induction fuel as [|fuel IH]; intros pre r tr acc; cbn [src_WriteMemStacked_as_ParseScd_parse_loop1 wms_loop];
    rewrite gtb0_leb; destruct (tr <=? 0); try reflexivity.
  rd_step. guard_step. rd_step.
  unfold r_ok_or, r_checked_sub.
  destruct (Z.ltb_spec (tr - 4) 0), (Z.ltb_spec tr 4); try lia; cbn [bind omap]; [reflexivity|].
  match goal with |- context [rev acc ++ [?x]] => change (rev acc ++ [x]) with (rev (x :: acc)) end. apply IH.
Qed.

Lemma view_write_stacked_src buf ccd : 0 <= AckCcd_scd_len ccd < 2 ^ 64 ->
  omap WriteMemStacked_lengths (src_WriteMemStacked_as_ParseScd_parse buf ccd) =
  wms_loop false (S (Z.to_nat (AckCcd_scd_len ccd))) (AckCcd_scd_len ccd) buf [].
Proof.
  intros H. unfold src_WriteMemStacked_as_ParseScd_parse. cbv zeta. rewrite r_cast64_small by exact H.
  unfold r_div. change (4 =? 0) with false. cbn [bind]. unfold src_with_capacity. rewrite cur_new_mk.
  rewrite <- (wms_loop_src _ [] buf _ []). cbn [rev].
  destruct (src_WriteMemStacked_as_ParseScd_parse_loop1 _ _ _ _) as [[[c l] t]|e|]; reflexivity.
Qed.

(* all five views of an acknowledge, through AckPacket::scd_as *)
Lemma views_src p : 0 <= AckCcd_scd_len (AckPacket_ccd p) < 65536 ->
  omap ReadMem_data (src_AckPacket_scd_as src_ReadMem_impl_ParseScd p) = view_data (ack_of_src p) /\
  omap WriteMem_length (src_AckPacket_scd_as src_WriteMem_impl_ParseScd p) = view_write (ack_of_src p) /\
  omap Pending_timeout (src_AckPacket_scd_as src_Pending_impl_ParseScd p) = view_pending (ack_of_src p) /\
  omap ReadMemStacked_data (src_AckPacket_scd_as src_ReadMemStacked_impl_ParseScd p) = view_data (ack_of_src p) /\
  omap WriteMemStacked_lengths (src_AckPacket_scd_as src_WriteMemStacked_impl_ParseScd p) = view_write_stacked (ack_of_src p).
Proof.
  intros H. assert (H' : 0 <= AckCcd_scd_len (AckPacket_ccd p) < 2 ^ 64) by (change (2 ^ 64) with 18446744073709551616; lia).
  unfold src_AckPacket_scd_as, src_ReadMem_impl_ParseScd, src_WriteMem_impl_ParseScd, src_Pending_impl_ParseScd,
    src_ReadMemStacked_impl_ParseScd, src_WriteMemStacked_impl_ParseScd; cbn [ParseScd_parse].
  rewrite view_read_src, view_read_stacked_src, view_write_src, view_pending_src, view_write_stacked_src by exact H'.
  repeat split; reflexivity.
Qed.

(* ---- events ------------------------------------------------------------------------------------------------------------ *)
Lemma zlen_same {A} (a b c d : list A) : a ++ b = c ++ d -> zlen a + zlen b = zlen c + zlen d.
Proof. intros H. apply (f_equal (@zlen A)) in H. now rewrite !zlen_app in H. Qed.

(* the local fn read_and_seek behind a cursor; the slice is shorter than 2^63 bytes (every Rust slice is) *)
Lemma read_and_seek_rel pre r len : 0 <= len < 65536 -> zlen pre + zlen r < 2 ^ 63 ->
  match read_and_seek len r with
  | Ok (d, r') => exists pre', src_EventScd_parse_read_and_seek (mkcur pre r) len = Ok (d, mkcur pre' r') /\
                               pre' ++ r' = pre ++ r /\ (bytes_ok r -> bytes_ok r')
  | Err e => src_EventScd_parse_read_and_seek (mkcur pre r) len = Err e
  | Panic => src_EventScd_parse_read_and_seek (mkcur pre r) len = Panic
  end.
Proof.
  intros Hlen Hsz. pose proof (zlen_nonneg pre). pose proof (zlen_nonneg r).
  assert (H63 : 2 ^ 63 = 9223372036854775808) by reflexivity. assert (H64 : 2 ^ 64 = 18446744073709551616) by reflexivity.
  unfold src_EventScd_parse_read_and_seek, read_and_seek. cbv zeta.
  change (cur_pos (mkcur pre r)) with (zlen pre). change (cur_buf (mkcur pre r)) with (pre ++ r).
  rewrite !r_cast64_small by lia. unfold r_add.
  replace (len + zlen pre <? 2 ^ 64) with true by (symmetry; apply Z.ltb_lt; lia). cbn [bind].
  rewrite zlen_app.
  destruct (Z.ltb_spec (zlen r) len), (Z.ltb_spec (zlen pre + zlen r) (len + zlen pre)); try lia; [reflexivity|].
  unfold src_slice, r_slice. rewrite zlen_app.
  replace (zlen pre <=? len + zlen pre) with true by (symmetry; apply Z.leb_le; lia).
  replace (len + zlen pre <=? zlen pre + zlen r) with true by (symmetry; apply Z.leb_le; lia).
  cbn [andb bind]. replace (len + zlen pre - zlen pre) with len by lia. rewrite drop_app_exact.
  unfold cur_seek_current, mkcur, cur_pos, cur_buf; cbn [fst snd].
  replace (0 <=? zlen pre + len) with true by (symmetry; apply Z.leb_le; lia).
  replace (zlen pre + len <? 2 ^ 64) with true by (symmetry; apply Z.ltb_lt; lia). cbn [andb bind].
  exists (pre ++ take len r). repeat split.
  - unfold mkcur. rewrite <- app_assoc, take_drop, zlen_app, zlen_take by lia. reflexivity.
  - now rewrite <- app_assoc, take_drop.
  - apply bytes_ok_drop.
Qed.

Lemma checked_sub_ok w a b e : r_ok_or (r_checked_sub w a b) e = if a <? b then Err e else Ok (a - b).
Proof. unfold r_ok_or, r_checked_sub. destruct (Z.ltb_spec (a - b) 0), (Z.ltb_spec a b); try lia; reflexivity. Qed.

Lemma p256_2' : 256 ^ Z.of_nat 2 = 65536. Proof. reflexivity. Qed.

(* the loop of EventScd::parse, for every fuel *)
Lemma event_loop_src fuel : forall pre r remained sacc,
  bytes_ok r -> zlen pre + zlen r < 2 ^ 63 -> 0 <= remained < 65536 ->
  omap (fun x => map event_of_src (snd x)) (src_EventScd_parse_loop1 fuel (mkcur pre r) remained sacc) =
  event_loop fuel remained r (rev (map event_of_src sacc)).
Proof.
  induction fuel as [|fuel IH]; intros pre r remained sacc Hb Hsz Hrem; cbn [src_EventScd_parse_loop1 event_loop];
    rewrite gtb0_leb; destruct (remained <=? 0); cbn [omap fst snd]; try (now rewrite rev_involutive); try reflexivity.
  rd_step. rd_step. rd_step. facts. rewrite p256_2' in *.
  repeat match goal with H : ?a ++ ?b = ?c ++ ?d |- _ => apply zlen_same in H end.
  match goal with |- context [if ?es =? 0 then _ else _] => destruct (es =? 0) eqn:Ees end.
  - rewrite checked_sub_ok. destruct (Z.ltb_spec remained 12); cbn [bind omap]; [reflexivity|].
    match goal with |- context [src_EventScd_parse_read_and_seek (mkcur ?p ?q) ?n] =>
      pose proof (read_and_seek_rel p q n ltac:(lia) ltac:(lia)) as Hrel; rel_go Hrel end.
    facts. match goal with H : ?a ++ ?b = ?c ++ ?d |- _ => apply zlen_same in H end.
    rewrite IH by (auto; lia). now rewrite map_app, rev_app_distr.
  - rewrite !checked_sub_ok.
    match goal with |- context [if ?es <? 12 then _ else _] => destruct (Z.ltb_spec es 12) end; cbn [bind omap]; [reflexivity|].
    match goal with |- context [if remained <? ?es then _ else _] => destruct (Z.ltb_spec remained es) end; cbn [bind omap]; [reflexivity|].
    match goal with |- context [src_EventScd_parse_read_and_seek (mkcur ?p ?q) ?n] =>
      pose proof (read_and_seek_rel p q n ltac:(lia) ltac:(lia)) as Hrel; rel_go Hrel end.
    facts. match goal with H : ?a ++ ?b = ?c ++ ?d |- _ => apply zlen_same in H end.
    rewrite IH by (auto; lia). now rewrite map_app, rev_app_distr.
Qed.

Lemma event_parse_src bs : bytes_ok bs -> zlen bs < 2 ^ 63 ->
  omap events_of_src (src_EventPacket_parse bs) = parse_event bs.
Proof.
  intros Hb Hsz. unfold src_EventPacket_parse, parse_event. rewrite cur_new_mk. cbv zeta.
  unfold src_EventPacket_parse_prefix. rd_step.
  unfold src_EventPacket_PREFIX_MAGIC, EVENT_MAGIC. guard_step.
  unfold src_EventCcd_parse. rd_step. rd_step.
  unfold src_EventCcd_EVENT_COMMAND_ID, EVENT_COMMAND_ID. guard_step.
  rd_step. rd_step. facts. rewrite p256_2' in *.
  repeat match goal with H : ?a ++ ?b = ?c ++ ?d |- _ => apply zlen_same in H end.
  unfold src_EventScd_parse. cbv zeta. cbn [EventCcd_scd_len].
  match goal with |- context [src_EventScd_parse_loop1 ?f (mkcur ?p ?q) ?rem ?a] =>
    pose proof (event_loop_src f p q rem a ltac:(assumption) ltac:(rewrite zlen_nil in *; lia) ltac:(lia)) as Hl;
    destruct (src_EventScd_parse_loop1 f (mkcur p q) rem a) as [[[c rm] evs]|e|] end;
    cbn [omap fst snd map rev] in Hl; rewrite <- Hl; reflexivity.
Qed.

(* ---- the fuel the translator passes to the loops is never used up ------------------------------------------------------ *)
Lemma wms_loop_fuel v0 fuel : forall tr bs acc, tr < Z.of_nat fuel -> wms_loop v0 fuel tr bs acc <> Err E_FUEL.
Proof.
  induction fuel as [|f IH]; intros tr bs acc Hf; cbn [wms_loop]; destruct (Z.leb_spec tr 0); try discriminate; [lia|].
  unfold rd. destruct (length bs <? 2)%nat; cbn [bind]; try discriminate.
  destruct (negb _); try discriminate.
  destruct (length (skipn 2 bs) <? 2)%nat; cbn [bind]; try discriminate.
  destruct (tr <? 4); [destruct v0; discriminate|]. apply IH. lia.
Qed.

Lemma event_loop_fuel fuel : forall rem bs acc, rem < Z.of_nat fuel -> event_loop fuel rem bs acc <> Err E_FUEL.
Proof.
  induction fuel as [|f IH]; intros rem bs acc Hf; cbn [event_loop]; destruct (Z.leb_spec rem 0); try discriminate; [lia|].
  unfold rd. destruct (length bs <? 2)%nat; cbn [bind]; try discriminate.
  destruct (length (skipn 2 bs) <? 2)%nat; cbn [bind]; try discriminate.
  destruct (length (skipn 2 (skipn 2 bs)) <? 8)%nat; cbn [bind]; try discriminate.
  destruct (_ =? 0).
  - destruct (rem <? 12); try discriminate. unfold read_and_seek.
    destruct (_ <? _); cbn [bind]; try discriminate. apply IH. lia.
  - match goal with |- context [if ?es <? 12 then _ else _] => destruct (Z.ltb_spec es 12) end; try discriminate.
    destruct (rem <? _); try discriminate.
    unfold read_and_seek. destruct (_ <? _); cbn [bind]; try discriminate. apply IH. lia.
Qed.

Lemma omap_neq {A B} (f : A -> B) (x : outcome A) y : (forall b, y <> Ok b) -> omap f x <> y -> x <> match y with Err e => Err e | _ => Panic end.
Proof. intros Hy H E. apply H. rewrite E. destruct y; [exfalso; eapply Hy; reflexivity|reflexivity|reflexivity]. Qed.

Lemma src_write_stacked_fuel buf ccd : 0 <= AckCcd_scd_len ccd < 65536 ->
  src_WriteMemStacked_as_ParseScd_parse buf ccd <> Err E_FUEL.
Proof.
  intros H E. assert (H' : 0 <= AckCcd_scd_len ccd < 2 ^ 64) by (change (2 ^ 64) with 18446744073709551616; lia).
  pose proof (view_write_stacked_src buf ccd H') as V. rewrite E in V. cbn [omap] in V. symmetry in V.
  revert V. apply wms_loop_fuel. lia.
Qed.

Lemma src_event_fuel bs : bytes_ok bs -> zlen bs < 2 ^ 63 -> src_EventPacket_parse bs <> Err E_FUEL.
Proof.
  intros Hb Hs E. pose proof (event_parse_src bs Hb Hs) as V. rewrite E in V. cbn [omap] in V. symmetry in V. revert V.
  unfold parse_event, rd.
  destruct (length bs <? 4)%nat; cbn [bind]; try discriminate.
  destruct (negb _); try discriminate.
  destruct (length (skipn 4 bs) <? 2)%nat; cbn [bind]; try discriminate.
  destruct (length (skipn 2 (skipn 4 bs)) <? 2)%nat; cbn [bind]; try discriminate.
  destruct (negb _); try discriminate.
  destruct (length (skipn 2 (skipn 2 (skipn 4 bs))) <? 2)%nat; cbn [bind]; try discriminate.
  destruct (length (skipn 2 (skipn 2 (skipn 2 (skipn 4 bs)))) <? 2)%nat; cbn [bind]; try discriminate.
  match goal with |- context [event_loop ?f ?r ?b ?a] =>
    pose proof (event_loop_fuel f r b a ltac:(lia)) as H; destruct (event_loop f r b a) end;
    cbn [bind]; congruence.
Qed.

(* ---- the property on the translated code ----------------------------------------------------------------------------------- *)
Lemma omap_panic {A B} (f : A -> B) (x : outcome A) : omap f x <> Panic -> x <> Panic.
Proof. intros H E. apply H. now rewrite E. Qed.

Lemma src_total :
  (forall bs, bytes_ok bs -> src_AckPacket_parse bs <> Panic) /\
  (forall p, 0 <= AckCcd_scd_len (AckPacket_ccd p) < 65536 ->
     src_AckPacket_scd_as src_ReadMem_impl_ParseScd p <> Panic /\
     src_AckPacket_scd_as src_WriteMem_impl_ParseScd p <> Panic /\
     src_AckPacket_scd_as src_Pending_impl_ParseScd p <> Panic /\
     src_AckPacket_scd_as src_ReadMemStacked_impl_ParseScd p <> Panic /\
     src_AckPacket_scd_as src_WriteMemStacked_impl_ParseScd p <> Panic /\
     src_AckPacket_scd_as src_WriteMemStacked_impl_ParseScd p <> Err E_FUEL) /\
  (forall bs, bytes_ok bs -> zlen bs < 2 ^ 63 ->
     src_EventPacket_parse bs <> Panic /\ src_EventPacket_parse bs <> Err E_FUEL).
Proof.
  split; [|split].
  - intros bs Hb. apply (omap_panic ack_of_src). rewrite ack_parse_src. now apply parse_ack_no_panic.
  - intros p H. destruct (views_src p H) as (V1 & V2 & V3 & V4 & V5).
    assert (Hd : view_data (ack_of_src p) <> Panic) by (unfold view_data; destruct (_ <? _); discriminate).
    assert (Hw : view_write (ack_of_src p) <> Panic).
    { unfold view_write, rd. destruct (length _ <? 2)%nat; cbn [bind]; try discriminate.
      destruct (negb _); try discriminate. destruct (length _ <? 2)%nat; cbn [bind]; discriminate. }
    repeat split.
    + apply (omap_panic ReadMem_data). now rewrite V1.
    + apply (omap_panic WriteMem_length). now rewrite V2.
    + apply (omap_panic Pending_timeout). rewrite V3. exact Hw.
    + apply (omap_panic ReadMemStacked_data). now rewrite V4.
    + apply (omap_panic WriteMemStacked_lengths). rewrite V5. apply view_write_stacked_no_panic.
    + apply src_write_stacked_fuel. exact H.
  - intros bs Hb Hs. split; [|now apply src_event_fuel].
    apply (omap_panic events_of_src). rewrite event_parse_src by assumption. apply parse_event_no_panic.
Qed.

Lemma omap_ok {A B} (f : A -> B) (x : outcome A) b : omap f x = Ok b -> exists a, x = Ok a /\ f a = b.
Proof. destruct x as [a|e|]; cbn [omap]; try discriminate. intros H. apply Ok_inj in H. now exists a. Qed.

(* every acknowledge a conforming device can emit, through the translated decoder and views *)
Lemma src_accepts_conforming code st id k rid scd :
  0 <= code < 65536 -> spec_status code = Some st ->
  0 <= id < 65536 -> spec_ack_kind id = Some k ->
  0 <= rid < 65536 -> zlen scd < 65536 ->
  exists p, src_AckPacket_parse (enc_ack code id rid scd) = Ok p /\
    Status_code (src_AckPacket_status p) = code /\ status_num (Status_kind (src_AckPacket_status p)) = st /\
    src_Status_is_fatal (src_AckPacket_status p) = Ok (spec_fatal code) /\
    scd_kind_num (src_AckPacket_scd_kind p) = k /\ src_AckPacket_request_id p = rid /\
    AckCcd_scd_len (AckPacket_ccd p) = zlen scd /\ AckPacket_raw_scd p = scd /\
    omap ReadMem_data (src_AckPacket_scd_as src_ReadMem_impl_ParseScd p) = Ok scd.
Proof.
  intros Hc Hs Hi Hk Hr Hl.
  pose proof (accepts_conforming code st id k rid scd Hc Hs Hi Hk Hr Hl) as H.
  rewrite <- ack_parse_src in H. apply omap_ok in H. destruct H as (p & Hp & Ha).
  exists p. split; [exact Hp|].
  pose proof (f_equal a_code Ha) as E1. pose proof (f_equal a_status Ha) as E2. pose proof (f_equal a_kind Ha) as E3.
  pose proof (f_equal a_scd_len Ha) as E4. pose proof (f_equal a_request_id Ha) as E5. pose proof (f_equal a_raw_scd Ha) as E6.
  cbn in E1, E2, E3, E4, E5, E6.
  unfold src_AckPacket_status, src_AckPacket_scd_kind, src_AckPacket_request_id.
  repeat split; try assumption.
  - rewrite is_fatal_src, E1. f_equal. apply (proj2 (status_table code Hc)).
  - pose proof (zlen_nonneg scd). destruct (views_src p ltac:(lia)) as (V1 & _). rewrite V1.
    rewrite <- E6. change (AckPacket_raw_scd p) with (a_raw_scd (ack_of_src p)).
    apply view_data_conforming. cbn. rewrite E4, E6. reflexivity.
Qed.

(* non-vacuity: the translated decoders run *)
Example c08s_example_ack :
  omap ack_of_src (src_AckPacket_parse (enc_ack 0 2049 7 [1;2;3;4])) =
  Ok {| a_code := 0; a_status := 0; a_kind := 0; a_scd_len := 4; a_request_id := 7; a_raw_scd := [1;2;3;4] |}.
Proof. vm_compute. reflexivity. Qed.

Example c08s_example_write_stacked :
  (let? p := src_AckPacket_parse (enc_ack 0 2057 1 (enc_write_stacked_scd [3; 10])) in
   src_AckPacket_scd_as src_WriteMemStacked_impl_ParseScd p) = Ok {| WriteMemStacked_lengths := [3; 10] |}.
Proof. vm_compute. reflexivity. Qed.

Example c08s_example_status_panic_free :
  omap ack_of_src (src_AckPacket_parse (enc_ack 49152 2049 7 [])) =
  Ok {| a_code := 49152; a_status := 200; a_kind := 0; a_scd_len := 0; a_request_id := 7; a_raw_scd := [] |}.
Proof. vm_compute. reflexivity. Qed.

Example c08s_example_events :
  omap events_of_src (src_EventPacket_parse (enc_event_packet 16384 1
     [{| se_id := 16; se_timestamp := 81985529216486895; se_data := [18; 52] |};
      {| se_id := 17; se_timestamp := 1; se_data := [] |}])) =
  Ok (1, [{| ev_size := 14; ev_id := 16; ev_timestamp := 81985529216486895; ev_data := [18; 52] |};
          {| ev_size := 12; ev_id := 17; ev_timestamp := 1; ev_data := [] |}]).
Proof. vm_compute. reflexivity. Qed.

Example c08s_example_event_short :
  src_EventPacket_parse (firstn 20 (enc_single_event_packet 0 1 {| se_id := 16; se_timestamp := 5; se_data := [1; 2] |}))
  = Err E_BUFFER_IO.
Proof. vm_compute. reflexivity. Qed.

(* ---- cross-check against the tables tools/translate_proto.py extracts from the same files ------------------------------------ *)
Lemma tables_cross :
  src_AckPacket_PREFIX_MAGIC = src_ack_magic /\ src_EventPacket_PREFIX_MAGIC = src_event_magic /\
  src_EventCcd_EVENT_COMMAND_ID = src_event_command_id /\
  (forall code, Z.land (Z.shiftr code 13) 3 = 0 ->
     omap (fun s => status_num (Status_kind s)) (src_Status_parse_gencp_status code) = table_fn src_gencp_status 0 code) /\
  (forall code, Z.land (Z.shiftr code 13) 3 = 1 ->
     omap (fun s => status_num (Status_kind s)) (src_Status_parse_usb_status code) = table_fn src_usb_status 100 code).
Proof.
  repeat split; try reflexivity.
  - intros code H. rewrite <- gencp_status_src. pose proof (gencp_status_src' code H) as R.
    destruct (parse_gencp_status code); [destruct R as (s & -> & _ & <-)|rewrite R|rewrite R]; reflexivity.
  - intros code H. rewrite <- usb_status_src. pose proof (usb_status_src' code H) as R.
    destruct (parse_usb_status code); [destruct R as (s & -> & _ & <-)|rewrite R|rewrite R]; reflexivity.
Qed.
