(* C19, tie to the source code: the CopyTo implementations and the GC_ERROR table of gentl/src/ffi/mod.rs as translated
   by tools/translate_gentl.py (gen/GenTLSrc.v, vocabulary model/GtlOps.v) give exactly the protocol answer of the
   hand-written model model/GenTL.v (copy_to / str_copy_to / code_of). *)
From Cam Require Import Outcome RustInt Bytes GenTL GtlOps GenTLSrc.
From Coq Require Import String.

(* the model's view of the two pointers *)
Definition dst_of (s : gdst) : dst := if d_null s then DNull else DBuf (d_size s).

(* the contract of the caller: a non-NULL buffer really has the *dst_size bytes it announces *)
Definition buf_ok (s : gdst) : Prop := d_null s = true \/ d_size s <= zlen (d_buf s).

(* GenTlError of the model -> variant of the translated enum *)
Definition ge_of (e : gerr) : gentl_error :=
  match e with
  | EError => GE_Error | ENotInitialized => GE_NotInitialized | ENotImplemented => GE_NotImplemented
  | EResourceInUse => GE_ResourceInUse | EAccessDenied => GE_AccessDenied | EInvalidHandle => GE_InvalidHandle
  | EInvalidId _ => GE_InvalidId | ENoData => GE_NoData | EInvalidParam => GE_InvalidParameter | EIo => GE_Io
  | ETimeout => GE_Timeout | EAbort => GE_Abort | EInvalidBuffer => GE_InvalidBuffer
  | ENotAvailable => GE_NotAvailable | EInvalidAddress => GE_InvalidAddress
  | EBufferTooSmall => GE_BufferTooSmall | EInvalidIndex => GE_InvalidIndex
  | EParsingChunkData => GE_ParsingChunkData | EInvalidValue _ => GE_InvalidValue
  | EResourceExhausted => GE_ResourceExhausted | EOutOfMemory => GE_OutOfMemory | EBusy => GE_Busy
  | EAmbiguous => GE_Ambiguous
  end.

(* what the model's answer (bytes written at the start of the buffer, value stored to *dst_size | error) means for the
   machine state: the rest of the buffer and, on an error, everything stays as it was *)
Definition proto_answer (s : gdst) (r : gres (list Z * Z)) : outcome unit * gdst :=
  match r with
  | GOk (w, n) => (Ok tt, {| d_null := d_null s; d_size := n; d_buf := w ++ drop (zlen w) (d_buf s) |})
  | GErr e => (Err (code_of e), s)
  | GPanic => (Panic, s)
  end.

(* ---- the raw-pointer operations on an explicit state ---- *)
Lemma take_all {A} (l : list A) n : n = zlen l -> take n l = l.
Proof. intros ->. unfold take, zlen. rewrite Nat2Z.id. apply firstn_all. Qed.

Lemma drop_0 {A} (l : list A) : drop 0 l = l.
Proof. reflexivity. Qed.

Lemma g_write_at_0 bs sz buf : zlen bs <= zlen buf ->
  g_write_at 0 bs {| d_null := false; d_size := sz; d_buf := buf |}
  = (Ok tt, {| d_null := false; d_size := sz; d_buf := bs ++ drop (zlen bs) buf |}).
Proof.
  intros H. unfold g_write_at, d_with_buf. cbn [d_null d_size d_buf].
  destruct (Z.leb_spec (0 + zlen bs) (zlen buf)); [|lia].
  cbn [Z.leb Z.compare andb]. unfold take at 1. cbn [Z.to_nat firstn app]. rewrite Z.add_0_l. reflexivity.
Qed.

Lemma g_copy_eq v n sz buf : n = zlen v -> zlen v <= zlen buf ->
  g_copy v n {| d_null := false; d_size := sz; d_buf := buf |}
  = (Ok tt, {| d_null := false; d_size := sz; d_buf := v ++ drop (zlen v) buf |}).
Proof.
  intros -> H. unfold g_copy. pose proof (zlen_nonneg v).
  destruct (Z.leb_spec 0 (zlen v)); [|lia]. destruct (Z.leb_spec (zlen v) (zlen v)); [|lia].
  cbn [andb]. rewrite (take_all v (zlen v) eq_refl). apply g_write_at_0; exact H.
Qed.

Lemma g_write_byte_after v b off sz rest : off = zlen v -> 1 <= zlen rest ->
  g_write_at off [b] {| d_null := false; d_size := sz; d_buf := v ++ rest |}
  = (Ok tt, {| d_null := false; d_size := sz; d_buf := (v ++ [b]) ++ drop 1 rest |}).
Proof.
  intros -> H. unfold g_write_at, d_with_buf. cbn [d_null d_size d_buf]. pose proof (zlen_nonneg v).
  change (zlen [b]) with 1. rewrite zlen_app.
  destruct (Z.leb_spec 0 (zlen v)); [|lia].
  destruct (Z.leb_spec (zlen v + 1) (zlen v + zlen rest)); [|lia].
  cbn [andb]. rewrite take_app_exact.
  rewrite <- (drop_drop (zlen v) 1) by lia. rewrite drop_app_exact.
  rewrite <- app_assoc. reflexivity.
Qed.

Lemma g_store_val_eq w x sz buf : 0 <= w <= zlen buf ->
  g_store_val w x {| d_null := false; d_size := sz; d_buf := buf |}
  = (Ok tt, {| d_null := false; d_size := sz; d_buf := le_bytes (Z.to_nat w) x ++ drop w buf |}).
Proof.
  intros H. unfold g_store_val. rewrite g_write_at_0; rewrite zlen_le_bytes, Z2Nat.id by lia; [reflexivity|lia].
Qed.

(* reduction of the monad plumbing; the comparisons are split by [zcases] *)
Ltac gred :=
  cbv [g_bind g_ret g_err g_lift g_is_null g_load_size g_store_size d_with_size d_null d_size d_buf negb
       r_add r_sub].
Ltac zlens := rewrite ?zlen_app, ?zlen_cons, ?zlen_le_bytes in *; change (@zlen Z []) with 0 in *.
Ltac zcase1 :=
  match goal with
  | |- context [Z.gtb ?a ?b] => rewrite (Z.gtb_ltb a b)
  | |- context [Z.geb ?a ?b] => rewrite (Z.geb_leb a b)
  | |- context [Z.ltb ?a ?b] => destruct (Z.ltb_spec a b); try (exfalso; zlens; lia)
  | |- context [Z.leb ?a ?b] => destruct (Z.leb_spec a b); try (exfalso; zlens; lia)
  | |- context [Z.eqb ?a ?b] => destruct (Z.eqb_spec a b); try (exfalso; zlens; lia)
  end.
Ltac gside := zlens; rewrite ?zlen_drop by lia; lia.
Ltac gwrite :=
  first [ rewrite g_copy_eq by gside
        | rewrite g_store_val_eq by gside
        | rewrite g_write_byte_after by gside ].
Ltac geq :=
  match goal with
  | |- (_, _) = (_, _) => apply f_equal2; geq
  | |- Build_gdst _ _ _ = Build_gdst _ _ _ => apply f_equal3; geq
  | |- _ ++ _ = _ ++ _ => apply f_equal2; geq
  | |- drop _ _ = drop _ _ => apply f_equal2; geq
  | |- @eq Z _ _ => lia
  | |- _ => reflexivity
  end.
Ltac gfinish := try reflexivity; zlens; rewrite ?drop_0, ?drop_drop by lia; geq.
Ltac gsolve := repeat (gred; first [gwrite | zcase1]); gred; gfinish.

(* ---- the error table ---- *)
Lemma error_code_of_ge e : src_gc_error_code (ge_of e) = code_of e.
Proof. destruct e; reflexivity. Qed.

Lemma ge_of_onto g : exists e, ge_of e = g.
Proof.
  destruct g;
    first [ now (eexists EError) | now (eexists ENotInitialized) | now (eexists ENotImplemented)
          | now (eexists EResourceInUse) | now (eexists EAccessDenied) | now (eexists EInvalidHandle)
          | now (eexists (EInvalidId [])) | now (eexists ENoData) | now (eexists EInvalidParam) | now (eexists EIo)
          | now (eexists ETimeout) | now (eexists EAbort) | now (eexists EInvalidBuffer)
          | now (eexists ENotAvailable) | now (eexists EInvalidAddress) | now (eexists EBufferTooSmall)
          | now (eexists EInvalidIndex) | now (eexists EParsingChunkData) | now (eexists (EInvalidValue []))
          | now (eexists EResourceExhausted) | now (eexists EOutOfMemory) | now (eexists EBusy)
          | now (eexists EAmbiguous) ].
Qed.

Lemma gentl_errors_all g : In g src_gentl_errors.
Proof. destruct g; vm_compute; tauto. Qed.

Lemma error_codes_from_source :
  (forall e, src_gc_error_code (ge_of e) = code_of e) /\
  (forall g, exists e, ge_of e = g) /\
  (forall g, In g src_gentl_errors) /\
  NoDup (map src_gc_error_code src_gentl_errors) /\
  (forall g, -1023 <= src_gc_error_code g <= -1001) /\
  src_gc_ok_code = 0 /\
  [src_info_type_str; src_info_type_bytes; src_info_type_bool8; src_info_type_i32; src_info_type_u32;
   src_info_type_i64; src_info_type_u64; src_info_type_TlType; src_info_type_ModuleType;
   src_info_type_DeviceAccessStatus]
  = [T_STRING; T_BUFFER; T_BOOL8; T_INT32; T_UINT32; T_INT64; T_UINT64; T_STRING; T_STRING; T_INT32].
Proof.
  split; [exact error_code_of_ge|]. split; [exact ge_of_onto|]. split; [exact gentl_errors_all|].
  split.
  { vm_compute. repeat (constructor; [cbn [In]; intuition discriminate|]). constructor. }
  split; [intros g; destruct g; vm_compute; split; discriminate|].
  split; reflexivity.
Qed.

(* ---- &str ---- *)
Lemma ascii_same v : s_is_ascii v = GenTL.is_ascii v.
Proof. reflexivity. Qed.

Lemma copy_str_from_source : forall v s, zlen v + 1 < 2 ^ 64 -> buf_ok s ->
  src_copy_to_str v s = proto_answer s (str_copy_to v (dst_of s)).
Proof.
  intros v [nl sz buf] Hv Hb. unfold buf_ok in Hb; cbn [d_null d_size d_buf] in Hb.
  pose proof (zlen_nonneg v) as Hn.
  unfold src_copy_to_str, str_copy_to, copy_to, dst_of, proto_answer.
  change (GenTL.is_ascii v) with (s_is_ascii v).
  gred. destruct (s_is_ascii v); [|reflexivity].
  destruct nl; [gsolve|]. destruct Hb as [Hb|Hb]; [discriminate|].
  zlens. gsolve.
Qed.

(* ---- &[u8] ---- *)
Lemma copy_bytes_from_source : forall v s, buf_ok s ->
  src_copy_to_bytes v s = proto_answer s (copy_to v (dst_of s)).
Proof.
  intros v [nl sz buf] Hb. unfold buf_ok in Hb; cbn [d_null d_size d_buf] in Hb.
  pose proof (zlen_nonneg v) as Hn.
  unfold src_copy_to_bytes, copy_to, dst_of, proto_answer.
  destruct nl; [gsolve|]. destruct Hb as [Hb|Hb]; [discriminate|]. gsolve.
Qed.

(* ---- bool8_t and the six invocations of impl_copy_to_for_numeric! ---- *)
Ltac numeric_proof f :=
  let x := fresh "x" in let nl := fresh "nl" in let sz := fresh "sz" in let buf := fresh "buf" in
  let Hb := fresh "Hb" in
  intros x [nl sz buf] Hb; unfold buf_ok in Hb; cbn [d_null d_size d_buf] in Hb;
  unfold f, copy_to, dst_of, proto_answer; zlens; cbn [Z.of_nat Pos.of_succ_nat Pos.succ];
  destruct nl; [gsolve|]; destruct Hb as [Hb|Hb]; [discriminate|]; gsolve.

Lemma copy_bool8_from_source : forall x s, buf_ok s ->
  src_copy_to_bool8 x s = proto_answer s (copy_to (le_bytes 1 x) (dst_of s)).
Proof. numeric_proof src_copy_to_bool8. Qed.
Lemma copy_i16_from_source : forall x s, buf_ok s ->
  src_copy_to_i16 x s = proto_answer s (copy_to (le_bytes 2 x) (dst_of s)).
Proof. numeric_proof src_copy_to_i16. Qed.
Lemma copy_u16_from_source : forall x s, buf_ok s ->
  src_copy_to_u16 x s = proto_answer s (copy_to (le_bytes 2 x) (dst_of s)).
Proof. numeric_proof src_copy_to_u16. Qed.
Lemma copy_i32_from_source : forall x s, buf_ok s ->
  src_copy_to_i32 x s = proto_answer s (copy_to (le_bytes 4 x) (dst_of s)).
Proof. numeric_proof src_copy_to_i32. Qed.
Lemma copy_u32_from_source : forall x s, buf_ok s ->
  src_copy_to_u32 x s = proto_answer s (copy_to (le_bytes 4 x) (dst_of s)).
Proof. numeric_proof src_copy_to_u32. Qed.
Lemma copy_i64_from_source : forall x s, buf_ok s ->
  src_copy_to_i64 x s = proto_answer s (copy_to (le_bytes 8 x) (dst_of s)).
Proof. numeric_proof src_copy_to_i64. Qed.
Lemma copy_u64_from_source : forall x s, buf_ok s ->
  src_copy_to_u64 x s = proto_answer s (copy_to (le_bytes 8 x) (dst_of s)).
Proof. numeric_proof src_copy_to_u64. Qed.

(* the model's info values are these bytes *)
Lemma info_bytes_numeric :
  (forall b, info_bytes (IBool b) = le_bytes 1 (if b then 1 else 0)) /\
  (forall z, info_bytes (II32 z) = le_bytes 4 z) /\ (forall z, info_bytes (IU32 z) = le_bytes 4 z) /\
  (forall z, info_bytes (II64 z) = le_bytes 8 z) /\ (forall z, info_bytes (IU64 z) = le_bytes 8 z).
Proof. repeat split; try reflexivity. intros []; reflexivity. Qed.

Lemma copy_numeric_from_source : forall x s, buf_ok s ->
  src_copy_to_bool8 x s = proto_answer s (copy_to (le_bytes 1 x) (dst_of s)) /\
  src_copy_to_i16 x s = proto_answer s (copy_to (le_bytes 2 x) (dst_of s)) /\
  src_copy_to_u16 x s = proto_answer s (copy_to (le_bytes 2 x) (dst_of s)) /\
  src_copy_to_i32 x s = proto_answer s (copy_to (le_bytes 4 x) (dst_of s)) /\
  src_copy_to_u32 x s = proto_answer s (copy_to (le_bytes 4 x) (dst_of s)) /\
  src_copy_to_i64 x s = proto_answer s (copy_to (le_bytes 8 x) (dst_of s)) /\
  src_copy_to_u64 x s = proto_answer s (copy_to (le_bytes 8 x) (dst_of s)) /\
  src_copy_to_DeviceAccessStatus x s = proto_answer s (copy_to (le_bytes 4 x) (dst_of s)).
Proof.
  intros x s H.
  repeat split; [apply copy_bool8_from_source | apply copy_i16_from_source | apply copy_u16_from_source
                | apply copy_i32_from_source | apply copy_u32_from_source | apply copy_i64_from_source
                | apply copy_u64_from_source | apply (copy_i32_from_source x s) ]; exact H.
Qed.

(* ---- the two text enums forward to the &str implementation ---- *)
Definition tl_text (t : src_TlType) : list Z :=
  match t with
  | TL_CameraLink => zs "CL" | TL_CameraLinkHS => zs "CLHS" | TL_CoaXPress => zs "CXP" | TL_GigEVision => zs "GEV"
  | TL_USB3Vision => zs "U3V" | TL_Mixed => zs "Mixed"
  end.
Definition module_text (t : src_ModuleType) : list Z :=
  match t with
  | MT_System => zs "TLSystem" | MT_Interface => zs "TLInterface" | MT_Device => zs "TLDevice"
  | MT_DataStream => zs "TLDataStream" | MT_Buffer => zs "TLBuffer" | MT_RemoteDevice => zs "Device"
  end.

Lemma copy_text_enums_from_source : forall s, buf_ok s ->
  (forall t, src_copy_to_TlType t s = proto_answer s (str_copy_to (tl_text t) (dst_of s))) /\
  (forall t, src_copy_to_ModuleType t s = proto_answer s (str_copy_to (module_text t) (dst_of s))).
Proof.
  intros s H. split; intros t.
  - change (src_copy_to_TlType t s) with (src_copy_to_str (tl_text t) s).
    apply copy_str_from_source; [destruct t; vm_compute; reflexivity | exact H].
  - change (src_copy_to_ModuleType t s) with (src_copy_to_str (module_text t) s).
    apply copy_str_from_source; [destruct t; vm_compute; reflexivity | exact H].
Qed.

Lemma copy_str_all_from_source :
  (forall v s, zlen v + 1 < 2 ^ 64 -> buf_ok s ->
     src_copy_to_str v s = proto_answer s (str_copy_to v (dst_of s))) /\
  (forall v s, buf_ok s -> src_copy_to_bytes v s = proto_answer s (copy_to v (dst_of s))) /\
  (forall s, buf_ok s ->
     (forall t, src_copy_to_TlType t s = proto_answer s (str_copy_to (tl_text t) (dst_of s))) /\
     (forall t, src_copy_to_ModuleType t s = proto_answer s (str_copy_to (module_text t) (dst_of s)))).
Proof.
  split; [exact copy_str_from_source|]. split; [exact copy_bytes_from_source|exact copy_text_enums_from_source].
Qed.

(* ---- the buffer protocol, stated on the translated code alone ----
   [f] delivers the value whose bytes are [bytes]:
     NULL destination: Ok, nothing written, *dst_size = the size of the value;
     a buffer announced smaller than the value: GC_ERR_BUFFER_TOO_SMALL (-1016), nothing written and *dst_size is
       LEFT AS IT WAS (the code does not report the needed size on this path);
     otherwise: Ok, exactly the value's bytes at the start of the buffer, the rest untouched, *dst_size = the size. *)
Definition protocol_of (f : gm unit) (bytes : list Z) : Prop :=
  forall s, buf_ok s ->
    (d_null s = true -> f s = (Ok tt, d_with_size s (zlen bytes))) /\
    (d_null s = false -> d_size s < zlen bytes -> f s = (Err (-1016), s)) /\
    (d_null s = false -> zlen bytes <= d_size s ->
       f s = (Ok tt, {| d_null := false; d_size := zlen bytes; d_buf := bytes ++ drop (zlen bytes) (d_buf s) |})).

Lemma protocol_of_answer f bytes :
  (forall s, buf_ok s -> f s = proto_answer s (copy_to bytes (dst_of s))) -> protocol_of f bytes.
Proof.
  intros H [nl sz buf] Hb. rewrite (H _ Hb). unfold dst_of, copy_to, proto_answer, d_with_size.
  cbn [d_null d_size d_buf]. repeat split; intros; subst nl.
  - reflexivity.
  - destruct (Z.ltb_spec sz (zlen bytes)); [reflexivity|lia].
  - destruct (Z.ltb_spec sz (zlen bytes)); [lia|reflexivity].
Qed.

Lemma buffer_protocol_of_source :
  (forall v, zlen v + 1 < 2 ^ 64 -> s_is_ascii v = true -> protocol_of (src_copy_to_str v) (v ++ [0])) /\
  (forall v s, s_is_ascii v = false -> src_copy_to_str v s = (Err (-1019), s)) /\
  (forall v, protocol_of (src_copy_to_bytes v) v) /\
  (forall x, protocol_of (src_copy_to_bool8 x) (le_bytes 1 x) /\
             protocol_of (src_copy_to_i16 x) (le_bytes 2 x) /\ protocol_of (src_copy_to_u16 x) (le_bytes 2 x) /\
             protocol_of (src_copy_to_i32 x) (le_bytes 4 x) /\ protocol_of (src_copy_to_u32 x) (le_bytes 4 x) /\
             protocol_of (src_copy_to_i64 x) (le_bytes 8 x) /\ protocol_of (src_copy_to_u64 x) (le_bytes 8 x)).
Proof.
  split.
  { intros v Hv Ha. apply protocol_of_answer. intros s Hs. rewrite (copy_str_from_source v s Hv Hs).
    unfold str_copy_to. change (GenTL.is_ascii v) with (s_is_ascii v). rewrite Ha. reflexivity. }
  split.
  { intros v s Ha. unfold src_copy_to_str. gred. rewrite Ha. reflexivity. }
  split.
  { intros v. apply protocol_of_answer. intros; now apply copy_bytes_from_source. }
  intros x. repeat apply conj; apply protocol_of_answer; intros s Hs;
    destruct (copy_numeric_from_source x s Hs) as (A & B & C & D & E & F & G & _); assumption.
Qed.

(* ---- examples evaluated on the translated code ---- *)
Definition st (nl : bool) (sz : Z) (buf : list Z) : gdst := {| d_null := nl; d_size := sz; d_buf := buf |}.
Lemma source_examples :
  (* "U3V" into a 6 byte buffer: 4 bytes incl. the terminator, the last two untouched *)
  src_copy_to_TlType TL_USB3Vision (st false 6 [9; 9; 9; 9; 9; 9]) = (Ok tt, st false 4 [85; 51; 86; 0; 9; 9]) /\
  (* size query *)
  src_copy_to_TlType TL_USB3Vision (st true 0 []) = (Ok tt, st true 4 []) /\
  (* exactly one byte too small: error, nothing written, the size cell keeps 3 *)
  src_copy_to_TlType TL_USB3Vision (st false 3 [9; 9; 9]) = (Err (-1016), st false 3 [9; 9; 9]) /\
  (* not ASCII *)
  src_copy_to_str [200] (st false 8 [9; 9; 9; 9; 9; 9; 9; 9]) = (Err (-1019), st false 8 [9; 9; 9; 9; 9; 9; 9; 9]) /\
  (* -2 as an i32, little endian *)
  src_copy_to_i32 (-2) (st false 5 [9; 9; 9; 9; 9]) = (Ok tt, st false 4 [254; 255; 255; 255; 9]) /\
  src_copy_to_u64 1 (st false 7 [9; 9; 9; 9; 9; 9; 9]) = (Err (-1016), st false 7 [9; 9; 9; 9; 9; 9; 9]) /\
  (* a caller that lies about its buffer (announces 4, has 2) makes the code write out of bounds: Panic = UB *)
  fst (src_copy_to_i32 7 (st false 4 [9; 9])) = Panic.
Proof. vm_compute. repeat split; reflexivity. Qed.
