(* C07, recovery: whatever the device did, a read or a write leaves the handle configuration intact
   (still open, same limits and retry count, cached maps, request id in range), so that against a
   device that behaves from then on the next transfer succeeds. *)
From Cam Require Import Outcome Bytes Chunks Cmd Ack CmdLayout GenCPLayout Control P_C09 P_C08 P_C06 P_C07 ManifestSpec P_C14b.

Lemma send_cmd_cfg cm c w x c' w' : 0 <= c_next c < 2 ^ 16 ->
  send_cmd cm (c, w) = (x, (c', w')) -> ctl_cfg c c'.
Proof.
  intros Hid E. destruct (send_cmd_spec cm c w) as (x0 & c0 & w0 & Hrun & _ & Hres).
  rewrite E in Hrun. apply pair_inj in Hrun as [<- Hrun]. apply pair_inj in Hrun as [<- <-].
  destruct x as [a|e|].
  - destruct Hres as (_ & _ & _ & _ & Hs). apply ctl_cfg_step. exact Hs.
  - apply ctl_cfg_kept; assumption.
  - apply ctl_cfg_kept; assumption.
Qed.

Lemma read_loop_cfg chunk : forall fuel addr remaining acc c w x c' w', 0 <= c_next c < 2 ^ 16 ->
  read_loop fuel addr remaining chunk acc (c, w) = (x, (c', w')) -> ctl_cfg c c'.
Proof.
  induction fuel as [|f IH]; intros addr remaining acc c w x c' w' Hid; cbn [read_loop].
  - intros E. apply pair_inj in E as [_ E]. apply pair_inj in E as [<- _]. apply ctl_cfg_refl. exact Hid.
  - destruct (remaining <=? 0).
    { intros E. apply pair_inj in E as [_ E]. apply pair_inj in E as [<- _]. apply ctl_cfg_refl. exact Hid. }
    unfold bindM at 1. destruct (send_cmd (CRead addr (Z.min chunk remaining)) (c, w)) as [x1 [c1 w1]] eqn:Hs.
    pose proof (send_cmd_cfg _ _ _ _ _ _ Hid Hs) as K1. pose proof K1 as (_ & _ & _ & _ & _ & _ & _ & Hid1).
    destruct x1 as [a|e|].
    2:{ intros E. apply pair_inj in E as [_ E]. apply pair_inj in E as [<- _]. exact K1. }
    2:{ intros E. apply pair_inj in E as [_ E]. apply pair_inj in E as [<- _]. exact K1. }
    unfold bindM at 1. unfold lift at 1. destruct (view_data a) as [data|e|].
    2:{ intros E. apply pair_inj in E as [_ E]. apply pair_inj in E as [<- _]. exact K1. }
    2:{ intros E. apply pair_inj in E as [_ E]. apply pair_inj in E as [<- _]. exact K1. }
    destruct (negb (zlen data =? Z.min chunk remaining)).
    { intros E. apply pair_inj in E as [_ E]. apply pair_inj in E as [<- _]. exact K1. }
    intros E. eapply ctl_cfg_trans; [exact K1|]. eapply IH; [exact Hid1|exact E].
Qed.

Lemma ctl_read_cfg a n c w x c' w' : 0 <= c_next c < 2 ^ 16 ->
  ctl_read a n (c, w) = (x, (c', w')) -> ctl_cfg c c'.
Proof.
  intros Hid. unfold ctl_read. unfold bindM at 1. unfold assert_open. cbn [fst].
  destruct (c_opened c); [|intros E; apply pair_inj in E as [_ E]; apply pair_inj in E as [<- _]; apply ctl_cfg_refl; exact Hid].
  unfold bindM at 1. unfold verify_range.
  destruct ((a <? 0) || (2 ^ 64 <? a + n));
    [unfold fail; intros E; apply pair_inj in E as [_ E]; apply pair_inj in E as [<- _]; apply ctl_cfg_refl; exact Hid|].
  unfold ret at 1. unfold bindM at 1. unfold get_ctl. cbn [fst].
  unfold bindM at 1. unfold lift at 1.
  destruct (read_chunks_init a 0 (c_max_ack c));
    try (intros E; apply pair_inj in E as [_ E]; apply pair_inj in E as [<- _]; apply ctl_cfg_refl; exact Hid).
  unfold bindM at 1. unfold lift at 1.
  destruct (maximum_read_length (c_max_ack c)) as [chunk|e|];
    try (intros E; apply pair_inj in E as [_ E]; apply pair_inj in E as [<- _]; apply ctl_cfg_refl; exact Hid).
  destruct (chunk =? 0);
    [unfold panic; intros E; apply pair_inj in E as [_ E]; apply pair_inj in E as [<- _]; apply ctl_cfg_refl; exact Hid|].
  apply read_loop_cfg. exact Hid.
Qed.

Lemma write_loop_cfg : forall fuel ws c w x c' w', 0 <= c_next c < 2 ^ 16 ->
  write_loop fuel ws (c, w) = (x, (c', w')) -> ctl_cfg c c'.
Proof.
  induction fuel as [|f IH]; intros ws c w x c' w' Hid; cbn [write_loop].
  - intros E. apply pair_inj in E as [_ E]. apply pair_inj in E as [<- _]. apply ctl_cfg_refl. exact Hid.
  - unfold bindM at 1. unfold lift at 1. destruct (write_next ws) as [o|e|].
    2:{ intros E. apply pair_inj in E as [_ E]. apply pair_inj in E as [<- _]. apply ctl_cfg_refl. exact Hid. }
    2:{ intros E. apply pair_inj in E as [_ E]. apply pair_inj in E as [<- _]. apply ctl_cfg_refl. exact Hid. }
    destruct o as [[[a data] ws']|].
    2:{ unfold ret. intros E. apply pair_inj in E as [_ E]. apply pair_inj in E as [<- _]. apply ctl_cfg_refl. exact Hid. }
    unfold bindM at 1. unfold lift at 1. destruct (mk_write a data) as [cm|e|].
    2:{ intros E. apply pair_inj in E as [_ E]. apply pair_inj in E as [<- _]. apply ctl_cfg_refl. exact Hid. }
    2:{ intros E. apply pair_inj in E as [_ E]. apply pair_inj in E as [<- _]. apply ctl_cfg_refl. exact Hid. }
    unfold bindM at 1. destruct (send_cmd cm (c, w)) as [x1 [c1 w1]] eqn:Hs.
    pose proof (send_cmd_cfg _ _ _ _ _ _ Hid Hs) as K1. pose proof K1 as (_ & _ & _ & _ & _ & _ & _ & Hid1).
    destruct x1 as [ak|e|].
    2:{ intros E. apply pair_inj in E as [_ E]. apply pair_inj in E as [<- _]. exact K1. }
    2:{ intros E. apply pair_inj in E as [_ E]. apply pair_inj in E as [<- _]. exact K1. }
    unfold bindM at 1. unfold lift at 1. destruct (view_write ak) as [k|e|].
    2:{ intros E. apply pair_inj in E as [_ E]. apply pair_inj in E as [<- _]. exact K1. }
    2:{ intros E. apply pair_inj in E as [_ E]. apply pair_inj in E as [<- _]. exact K1. }
    destruct (negb (k =? zlen data)).
    { intros E. apply pair_inj in E as [_ E]. apply pair_inj in E as [<- _]. exact K1. }
    intros E. eapply ctl_cfg_trans; [exact K1|]. eapply IH; [exact Hid1|exact E].
Qed.

Lemma write_blocks_cfg mc : forall fuel addr data c w x c' w', 0 <= c_next c < 2 ^ 16 ->
  write_blocks fuel addr data mc (c, w) = (x, (c', w')) -> ctl_cfg c c'.
Proof.
  induction fuel as [|f IH]; intros addr data c w x c' w' Hid; cbn [write_blocks].
  - intros E. apply pair_inj in E as [_ E]. apply pair_inj in E as [<- _]. apply ctl_cfg_refl. exact Hid.
  - destruct (zlen data =? 0).
    { unfold ret. intros E. apply pair_inj in E as [_ E]. apply pair_inj in E as [<- _]. apply ctl_cfg_refl. exact Hid. }
    unfold bindM at 1. unfold lift at 1. destruct (write_mem_new addr (take MAX_WRITE data)) as [wm|e|].
    2:{ intros E. apply pair_inj in E as [_ E]. apply pair_inj in E as [<- _]. apply ctl_cfg_refl. exact Hid. }
    2:{ intros E. apply pair_inj in E as [_ E]. apply pair_inj in E as [<- _]. apply ctl_cfg_refl. exact Hid. }
    unfold bindM at 1. unfold lift at 1. destruct (write_chunks_init (fst wm) (snd wm) mc) as [ws|e|].
    2:{ intros E. apply pair_inj in E as [_ E]. apply pair_inj in E as [<- _]. apply ctl_cfg_refl. exact Hid. }
    2:{ intros E. apply pair_inj in E as [_ E]. apply pair_inj in E as [<- _]. apply ctl_cfg_refl. exact Hid. }
    unfold bindM at 1. destruct (write_loop (S (length (take MAX_WRITE data))) ws (c, w)) as [x1 [c1 w1]] eqn:Hl.
    pose proof (write_loop_cfg _ _ _ _ _ _ _ Hid Hl) as K1. pose proof K1 as (_ & _ & _ & _ & _ & _ & _ & Hid1).
    destruct x1 as [u|e|].
    2:{ intros E. apply pair_inj in E as [_ E]. apply pair_inj in E as [<- _]. exact K1. }
    2:{ intros E. apply pair_inj in E as [_ E]. apply pair_inj in E as [<- _]. exact K1. }
    intros E. eapply ctl_cfg_trans; [exact K1|]. eapply IH; [exact Hid1|exact E].
Qed.

Lemma ctl_write_cfg a data c w x c' w' : 0 <= c_next c < 2 ^ 16 ->
  ctl_write a data (c, w) = (x, (c', w')) -> ctl_cfg c c'.
Proof.
  intros Hid. unfold ctl_write. unfold bindM at 1. unfold assert_open. cbn [fst].
  destruct (c_opened c); [|intros E; apply pair_inj in E as [_ E]; apply pair_inj in E as [<- _]; apply ctl_cfg_refl; exact Hid].
  unfold bindM at 1. unfold verify_range.
  destruct ((a <? 0) || (2 ^ 64 <? a + zlen data));
    [unfold fail; intros E; apply pair_inj in E as [_ E]; apply pair_inj in E as [<- _]; apply ctl_cfg_refl; exact Hid|].
  unfold ret at 1. unfold bindM at 1. unfold get_ctl. cbn [fst]. apply write_blocks_cfg. exact Hid.
Qed.

(* after ANY outcome of a read or write against ANY device, once the device behaves (its remaining plans are
   conforming and its memory is well formed) the next read of mapped memory returns that memory *)
Lemma recovers_after_read a n c w x c' w' a2 n2 d :
  c_opened c = true -> 12 < c_max_ack c < 2 ^ 32 -> 24 <= c_max_cmd c -> 1 <= c_retry c -> 0 <= c_next c < 2 ^ 16 ->
  c_abrm c <> None ->
  ctl_read a n (c, w) = (x, (c', w')) ->
  conf (c_retry c) w' -> segs_sep (w_segs w') -> mem_read (w_segs w') a2 n2 = Some d ->
  exists s'', ctl_read a2 n2 (c', w') = (Ok d, s'').
Proof.
  intros Ho Hma Hmc HR Hid Hab E Hconf Hsep Hm.
  pose proof (ctl_read_cfg _ _ _ _ _ _ _ Hid E) as (C1 & C2 & C3 & C4 & C5 & C6 & C7 & C8).
  assert (G : good_conf (c', w')).
  { unfold good_conf, good_honest. rewrite C1, C2, C3, C4, C5.
    split; [|auto]. split; [exact Ho|]. split; [exact Hma|]. split; [exact C8|]. split; [exact Hab|].
    split; [eapply conf_whonest; exact Hconf|exact Hsep]. }
  destruct (read_memory c' w' a2 n2 d G Hm) as (c2 & w2 & Hrun & _). exists (c2, w2). exact Hrun.
Qed.

Lemma recovers_after_write a data c w x c' w' a2 n2 d :
  c_opened c = true -> 12 < c_max_ack c < 2 ^ 32 -> 24 <= c_max_cmd c -> 1 <= c_retry c -> 0 <= c_next c < 2 ^ 16 ->
  c_abrm c <> None ->
  ctl_write a data (c, w) = (x, (c', w')) ->
  conf (c_retry c) w' -> segs_sep (w_segs w') -> mem_read (w_segs w') a2 n2 = Some d ->
  exists s'', ctl_read a2 n2 (c', w') = (Ok d, s'').
Proof.
  intros Ho Hma Hmc HR Hid Hab E Hconf Hsep Hm.
  pose proof (ctl_write_cfg _ _ _ _ _ _ _ Hid E) as (C1 & C2 & C3 & C4 & C5 & C6 & C7 & C8).
  assert (G : good_conf (c', w')).
  { unfold good_conf, good_honest. rewrite C1, C2, C3, C4, C5.
    split; [|auto]. split; [exact Ho|]. split; [exact Hma|]. split; [exact C8|]. split; [exact Hab|].
    split; [eapply conf_whonest; exact Hconf|exact Hsep]. }
  destruct (read_memory c' w' a2 n2 d G Hm) as (c2 & w2 & Hrun & _). exists (c2, w2). exact Hrun.
Qed.
