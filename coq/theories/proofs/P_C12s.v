(* The transfer-layout part of cameleon/src/u3v/stream_handle.rs as TRANSLATED on every run (gen/StreamParamsSrc.v,
   tools/translate_streamparams.py, operations of model/RdOps.v + model/SpOps.v) against the hand-written models:
   psizes / max_payload / slots / slice_in of model/StreamLoop.v and stream_params of model/Control.v. *)
From Cam Require Import Outcome RustInt Bytes RdOps SpOps RegTables StreamParamsSrc StreamLoop Control StreamStart P_C07c.

Definition to_params (p : src_StreamParams) : params :=
  {| q_leader := StreamParams_leader_size p; q_trailer := StreamParams_trailer_size p;
     q_psize := StreamParams_payload_size p; q_pcount := StreamParams_payload_count p;
     q_f1 := StreamParams_payload_final1_size p; q_f2 := StreamParams_payload_final2_size p |}.
Definition of_params (q : params) (tmo : Z) : src_StreamParams :=
  {| StreamParams_leader_size := q_leader q; StreamParams_trailer_size := q_trailer q;
     StreamParams_payload_size := q_psize q; StreamParams_payload_count := q_pcount q;
     StreamParams_payload_final1_size := q_f1 q; StreamParams_payload_final2_size := q_f2 q;
     StreamParams_timeout := tmo |}.
(* the order in which model/Control.v's stream_params lists the parameters *)
Definition sp_list (p : src_StreamParams) : list Z :=
  [StreamParams_leader_size p; StreamParams_trailer_size p; StreamParams_payload_size p; StreamParams_payload_count p;
   StreamParams_payload_final1_size p; StreamParams_payload_final2_size p].

Lemma to_of_params q tmo : to_params (of_params q tmo) = q.
Proof. destruct q; reflexivity. Qed.

(* ---- payload_transfer_sizes ---------------------------------------------------------------------------- *)
Lemma opt_filter_nonzero x : opt_list (opt_filter (fun v => negb (v =? 0)) (Some x)) = if x =? 0 then [] else [x].
Proof. unfold opt_filter, opt_list. destruct (x =? 0); reflexivity. Qed.

Lemma transfer_sizes_from_source p : src_StreamParams_payload_transfer_sizes p = psizes (to_params p).
Proof.
  unfold src_StreamParams_payload_transfer_sizes, psizes. cbn [to_params q_psize q_pcount q_f1 q_f2].
  rewrite !opt_filter_nonzero. now rewrite <- app_assoc.
Qed.

(* ---- maximum_payload_size ------------------------------------------------------------------------------ *)
Definition sizes_nonneg (q : params) : Prop := 0 <= q_psize q /\ 0 <= q_pcount q /\ 0 <= q_f1 q /\ 0 <= q_f2 q.

Lemma prm_ok_nonneg q : prm_ok q = true -> 0 <= q_leader q /\ 0 <= q_trailer q /\ sizes_nonneg q.
Proof.
  unfold prm_ok, sizes_nonneg. rewrite !andb_true_iff, !Z.leb_le. tauto.
Qed.

(* the usize arithmetic: `size * count + final1 + final2`, each step checked; with sizes that a usize can hold (>= 0)
   the first overflow happens exactly when the mathematical sum does not fit *)
Lemma max_payload_from_source p : sizes_nonneg (to_params p) ->
  src_StreamParams_maximum_payload_size p =
  if max_payload (to_params p) <? 2 ^ 64 then Ok (max_payload (to_params p)) else Panic.
Proof.
  unfold sizes_nonneg, src_StreamParams_maximum_payload_size, max_payload, r_mul, r_add.
  cbn [to_params q_psize q_pcount q_f1 q_f2]. intros (H1 & H2 & H3 & H4).
  set (m := StreamParams_payload_size p * StreamParams_payload_count p).
  assert (0 <= m) by (apply Z.mul_nonneg_nonneg; assumption).
  destruct (m <? 2 ^ 64) eqn:E1; cbn [bind].
  2:{ apply Z.ltb_ge in E1. destruct (_ <? 2 ^ 64) eqn:E; [apply Z.ltb_lt in E; lia|reflexivity]. }
  destruct (m + StreamParams_payload_final1_size p <? 2 ^ 64) eqn:E2; cbn [bind].
  2:{ apply Z.ltb_ge in E2. destruct (_ + _ + _ <? 2 ^ 64) eqn:E; [apply Z.ltb_lt in E; lia|reflexivity]. }
  destruct (_ + _ + _ <? 2 ^ 64); reflexivity.
Qed.

(* ---- read_leader / read_payload / read_trailer ---------------------------------------------------------------- *)
(* consecutive ranges of the given sizes starting at off *)
Fixpoint ranges (off : Z) (szs : list Z) : list (Z * Z) :=
  match szs with [] => [] | s :: r => (off, off + s) :: ranges (off + s) r end.

(* submitting slices of the given sizes one after the other *)
Fixpoint submit_all (res : Z -> option Z) (blen off : Z) (szs : list Z) (p : pool) : outcome pool :=
  match szs with
  | [] => Ok p
  | s :: r => match sp_submit res blen off (off + s) p with
              | Ok (_, p') => submit_all res blen (off + s) r p'
              | Err e => Err e
              | Panic => Panic
              end
  end.

Lemma submit_all_app res blen szs1 : forall off szs2 p,
  submit_all res blen off (szs1 ++ szs2) p =
  match submit_all res blen off szs1 p with
  | Ok p' => submit_all res blen (off + zsum szs1) szs2 p'
  | Err e => Err e
  | Panic => Panic
  end.
Proof.
  induction szs1 as [|s r IH]; intros off szs2 p; cbn [app submit_all zsum fold_right].
  - now rewrite Z.add_0_r.
  - destruct (sp_submit res blen off (off + s) p) as [[u p']| |]; [|reflexivity..].
    rewrite IH. now rewrite Z.add_assoc.
Qed.

Lemma zsum_repeat x n : zsum (repeat x n) = Z.of_nat n * x.
Proof. induction n as [|n IH]; [reflexivity|]. cbn [repeat zsum fold_right] in *. unfold zsum in IH. rewrite IH. lia. Qed.

Lemma sp_submit_panic_over res blen lo hi p : blen < hi -> sp_submit res blen lo hi p = Panic.
Proof.
  intros H. unfold sp_submit. replace (hi <=? blen) with false by (symmetry; apply Z.leb_gt; lia).
  now rewrite andb_false_r.
Qed.

Lemma sp_submit_ok_bound res blen lo hi p x : sp_submit res blen lo hi p = Ok x -> hi <= blen.
Proof.
  unfold sp_submit. destruct (hi <=? blen) eqn:E; [intros _; now apply Z.leb_le|]. now rewrite andb_false_r.
Qed.

(* the for loop of read_payload: n slices of `size` bytes from the cursor on *)
Lemma read_payload_for_from_source res blen size n : forall p off, 0 <= off -> 0 <= size -> blen < 2 ^ 64 ->
  r_for n (src_fn_read_payload_for res blen size) (p, off) =
  match submit_all res blen off (repeat size n) p with
  | Ok p' => Ok (p', off + Z.of_nat n * size)
  | Err e => Err e
  | Panic => Panic
  end.
Proof.
  induction n as [|n IH]; intros p off Ho Hs Hb.
  - cbn [r_for repeat submit_all]. f_equal. f_equal. lia.
  - cbn [r_for repeat submit_all]. unfold src_fn_read_payload_for at 1. unfold r_add.
    destruct (off + size <? 2 ^ 64) eqn:E; cbn [bind].
    2:{ apply Z.ltb_ge in E. rewrite sp_submit_panic_over by lia. reflexivity. }
    destruct (sp_submit res blen off (off + size) p) as [[u p']| |] eqn:Es; cbn [bind]; [|reflexivity..].
    rewrite IH by lia. destruct (submit_all res blen (off + size) (repeat size n) p'); [|reflexivity..].
    f_equal. f_equal. lia.
Qed.

Lemma read_leader_from_source res p prm blen :
  src_fn_read_leader res p prm blen =
  omap (fun p' => (tt, p')) (submit_all res blen 0 [q_leader (to_params prm)] p).
Proof.
  unfold src_fn_read_leader. cbn [submit_all to_params q_leader Z.add]. cbn zeta.
  destruct (sp_submit res blen 0 (StreamParams_leader_size prm) p) as [[u p']| |]; reflexivity.
Qed.

Lemma read_trailer_from_source res p prm blen :
  src_fn_read_trailer res p prm blen =
  omap (fun p' => (tt, p')) (submit_all res blen 0 [q_trailer (to_params prm)] p).
Proof.
  unfold src_fn_read_trailer. cbn [submit_all to_params q_trailer Z.add]. cbn zeta.
  destruct (sp_submit res blen 0 (StreamParams_trailer_size prm) p) as [[u p']| |]; reflexivity.
Qed.

(* read_payload submits, from offset 0 on, one slice for every size of payload_transfer_sizes, for every result of the
   submissions; a zero final transfer is skipped; the usize cursor cannot overflow before a slice leaves the buffer *)
Lemma read_payload_from_source res p prm blen :
  sizes_nonneg (to_params prm) -> blen < 2 ^ 64 ->
  src_fn_read_payload res p prm blen =
  omap (fun p' => (tt, p')) (submit_all res blen 0 (src_StreamParams_payload_transfer_sizes prm) p).
Proof.
  intros (H1 & H2 & H3 & H4) Hb. cbn [to_params q_psize q_pcount q_f1 q_f2] in *.
  rewrite transfer_sizes_from_source. unfold psizes. cbn [to_params q_psize q_pcount q_f1 q_f2].
  unfold src_fn_read_payload. cbn zeta.
  rewrite ?(Z.eqb_sym 0 (StreamParams_payload_final1_size prm)), ?(Z.eqb_sym 0 (StreamParams_payload_final2_size prm)).
  rewrite read_payload_for_from_source by (assumption || lia).
  rewrite submit_all_app.
  destruct (submit_all res blen 0 (repeat _ _) p) as [p1| |]; cbn [bind omap]; [|reflexivity..].
  rewrite zsum_repeat, Z2Nat.id by assumption. rewrite submit_all_app.
  set (c1 := 0 + StreamParams_payload_count prm * StreamParams_payload_size prm).
  assert (Hc1 : 0 <= c1) by (subst c1; apply Z.add_nonneg_nonneg; [lia|apply Z.mul_nonneg_nonneg; assumption]).
  destruct (StreamParams_payload_final1_size prm =? 0) eqn:E1; cbn [negb submit_all zsum fold_right bind].
  - rewrite Z.add_0_r.
    destruct (StreamParams_payload_final2_size prm =? 0) eqn:E2; cbn [negb submit_all bind omap]; [reflexivity|].
    unfold r_add.
    destruct (c1 + StreamParams_payload_final2_size prm <? 2 ^ 64) eqn:E; cbn [bind].
    2:{ apply Z.ltb_ge in E. rewrite sp_submit_panic_over by lia. reflexivity. }
    destruct (sp_submit res blen c1 _ p1) as [[u p2]| |]; reflexivity.
  - unfold r_add at 1.
    destruct (c1 + StreamParams_payload_final1_size prm <? 2 ^ 64) eqn:E; cbn [bind].
    2:{ apply Z.ltb_ge in E. rewrite sp_submit_panic_over by lia. reflexivity. }
    destruct (sp_submit res blen c1 _ p1) as [[u p2]| |] eqn:Es; cbn [bind omap]; [|reflexivity..].
    apply sp_submit_ok_bound in Es. unfold r_add at 1.
    replace (c1 + StreamParams_payload_final1_size prm <? 2 ^ 64) with true by (symmetry; apply Z.ltb_lt; lia).
    cbn [bind]. rewrite Z.add_0_r.
    destruct (StreamParams_payload_final2_size prm =? 0) eqn:E2; cbn [negb submit_all bind omap]; [reflexivity|].
    unfold r_add.
    destruct (c1 + StreamParams_payload_final1_size prm + StreamParams_payload_final2_size prm <? 2 ^ 64) eqn:E';
      cbn [bind].
    2:{ apply Z.ltb_ge in E'. rewrite sp_submit_panic_over by lia. reflexivity. }
    destruct (sp_submit res blen _ _ p2) as [[u2 p3]| |]; reflexivity.
Qed.

(* ---- the layout when every submission succeeds ------------------------------------------------------------- *)
Definition all_ok : Z -> option Z := fun _ => None.

Lemma forallb_ext {A} (f g : A -> bool) l : (forall x, f x = g x) -> forallb f l = forallb g l.
Proof. intros H. induction l as [|x l IH]; cbn [forallb]; [reflexivity|]. now rewrite H, IH. Qed.

Lemma forallb_seq_ext (f g : nat -> bool) n : forall a,
  (forall j, (a <= j < a + n)%nat -> f j = g j) -> forallb f (seq a n) = forallb g (seq a n).
Proof.
  induction n as [|n IH]; intros a H; cbn [seq forallb]; [reflexivity|].
  rewrite H by lia. rewrite (IH (S a)); [reflexivity|]. intros j Hj. apply H. lia.
Qed.

Lemma forallb_map {A B} (h : A -> B) (f : B -> bool) l : forallb f (map h l) = forallb (fun x => f (h x)) l.
Proof. induction l as [|x l IH]; cbn [map forallb]; [reflexivity|]. now rewrite IH. Qed.

Lemma sp_submit_all_ok blen lo hi p : 0 <= lo -> lo <= hi ->
  sp_submit all_ok blen lo hi p = if hi <=? blen then Ok (tt, p ++ [(lo, hi)]) else Panic.
Proof.
  intros H1 H2. unfold sp_submit, all_ok.
  replace (0 <=? lo) with true by (symmetry; apply Z.leb_le; lia).
  replace (lo <=? hi) with true by (symmetry; apply Z.leb_le; lia). reflexivity.
Qed.

(* slices of the sizes szs from off on: all submitted (consecutive ranges) exactly when each one ends inside the buffer *)
Lemma submit_all_layout blen szs : forall off p, 0 <= off -> Forall (fun s => 0 <= s) szs ->
  submit_all all_ok blen off szs p =
  if forallb (fun j => off + zsum (firstn j szs) + nth j szs 0 <=? blen) (seq 0 (length szs))
  then Ok (p ++ ranges off szs) else Panic.
Proof.
  induction szs as [|s r IH]; intros off p Ho Hs.
  - cbn. now rewrite app_nil_r.
  - inversion Hs as [|? ? Hs1 Hs2]; subst.
    cbn [submit_all length seq forallb firstn zsum fold_right nth ranges].
    rewrite sp_submit_all_ok by lia. rewrite Z.add_0_r.
    destruct (off + s <=? blen); cbn [andb]; [|reflexivity].
    rewrite IH by (assumption || lia). rewrite <- seq_shift, forallb_map.
    match goal with
    | |- _ = (if forallb ?f _ then _ else _) =>
      rewrite (forallb_ext f (fun j => off + s + zsum (firstn j r) + nth j r 0 <=? blen))
    end.
    2:{ intros j. cbn [firstn nth zsum fold_right]. f_equal. unfold zsum. lia. }
    destruct (forallb _ _); [|reflexivity]. now rewrite <- app_assoc.
Qed.

Lemma submit_all_fits blen szs : forall off p, 0 <= off -> Forall (fun s => 0 <= s) szs -> off + zsum szs <= blen ->
  submit_all all_ok blen off szs p = Ok (p ++ ranges off szs).
Proof.
  induction szs as [|s r IH]; intros off p Ho Hs Hf.
  - cbn. now rewrite app_nil_r.
  - inversion Hs as [|? ? Hs1 Hs2]; subst. cbn [zsum fold_right] in Hf.
    assert (0 <= zsum r).
    { clear -Hs2. induction Hs2; cbn [zsum fold_right] in *; [lia|]. unfold zsum in *. lia. }
    unfold zsum in *. cbn [submit_all ranges]. rewrite sp_submit_all_ok by lia.
    replace (off + s <=? blen) with true by (symmetry; apply Z.leb_le; lia).
    rewrite IH by (assumption || lia). now rewrite <- app_assoc.
Qed.

Lemma ranges_inside szs : forall off, 0 <= off -> Forall (fun s => 0 <= s) szs ->
  Forall (fun r => off <= fst r /\ fst r <= snd r /\ snd r <= off + zsum szs) (ranges off szs).
Proof.
  induction szs as [|s r IH]; intros off Ho Hs; cbn [ranges]; [constructor|].
  inversion Hs as [|? ? Hs1 Hs2]; subst.
  assert (0 <= zsum r).
  { clear -Hs2. induction Hs2; cbn [zsum fold_right] in *; [lia|]. unfold zsum in *. lia. }
  cbn [zsum fold_right]. unfold zsum in *. constructor; [cbn [fst snd]; lia|].
  eapply Forall_impl; [|apply IH; [lia|assumption]]. cbn beta. intros [a b]. cbn [fst snd]. lia.
Qed.

Lemma psizes_nonneg_s q : sizes_nonneg q -> Forall (fun s => 0 <= s) (psizes q).
Proof.
  intros (H1 & H2 & H3 & H4). unfold psizes. rewrite !Forall_app. repeat split.
  - apply Forall_forall. intros x Hx. apply repeat_spec in Hx. now subst.
  - destruct (q_f1 q =? 0); repeat constructor; assumption.
  - destruct (q_f2 q =? 0); repeat constructor; assumption.
Qed.

Lemma zsum_app a b : zsum (a ++ b) = zsum a + zsum b.
Proof. induction a as [|x a IH]; cbn [app zsum fold_right] in *; [reflexivity|]. unfold zsum in *. lia. Qed.

Lemma zsum_psizes q : 0 <= q_pcount q -> zsum (psizes q) = max_payload q.
Proof.
  intros H. unfold psizes, max_payload. rewrite !zsum_app, zsum_repeat, Z2Nat.id by assumption.
  destruct (q_f1 q =? 0) eqn:E1; destruct (q_f2 q =? 0) eqn:E2;
    try apply Z.eqb_eq in E1; try apply Z.eqb_eq in E2; cbn [zsum fold_right]; lia.
Qed.

(* the three helpers in the order the loop calls them, each on its own buffer *)
Definition submit_frame (res : Z -> option Z) (prm : src_StreamParams) (lb pb tb : Z) : outcome pool :=
  match src_fn_read_leader res [] prm lb with
  | Ok (_, p1) =>
    match src_fn_read_payload res p1 prm pb with
    | Ok (_, p2) => match src_fn_read_trailer res p2 prm tb with Ok (_, p3) => Ok p3 | Err e => Err e | Panic => Panic end
    | Err e => Err e
    | Panic => Panic
    end
  | Err e => Err e
  | Panic => Panic
  end.

Lemma nslots_eq q : nslots q = S (length (psizes q) + 1).
Proof. unfold nslots, slots. cbn [length]. now rewrite app_length. Qed.

Lemma slice_in_leader q lbuf tbuf buf sz : slice_in q lbuf tbuf buf 0 sz = (sz <=? zlen lbuf).
Proof. reflexivity. Qed.

Lemma slice_in_trailer q lbuf tbuf buf sz :
  slice_in q lbuf tbuf buf (S (length (psizes q))) sz = (sz <=? zlen tbuf).
Proof.
  unfold slice_in. rewrite nslots_eq.
  destruct (Nat.eqb_spec (S (length (psizes q))) 0); [lia|].
  destruct (Nat.eqb_spec (S (S (length (psizes q)))) (S (length (psizes q) + 1))); [reflexivity|lia].
Qed.

Lemma slice_in_payload q lbuf tbuf buf j : (j < length (psizes q))%nat ->
  slice_in q lbuf tbuf buf (S j) (nth j (psizes q) 0) =
  (0 + zsum (firstn j (psizes q)) + nth j (psizes q) 0 <=? zlen buf).
Proof.
  intros Hj. unfold slice_in. rewrite nslots_eq.
  destruct (Nat.eqb_spec (S j) 0); [lia|].
  destruct (Nat.eqb_spec (S (S j)) (S (length (psizes q) + 1))); [lia|].
  replace (S j - 1)%nat with j by lia. reflexivity.
Qed.

Lemma nth_slots_payload q j : (j < length (psizes q))%nat -> nth (S j) (slots q) 0 = nth j (psizes q) 0.
Proof. intros Hj. unfold slots. cbn [nth]. now rewrite app_nth1. Qed.

Lemma nth_slots_trailer q : nth (S (length (psizes q))) (slots q) 0 = q_trailer q.
Proof. unfold slots. cbn [nth]. rewrite app_nth2, Nat.sub_diag by lia. reflexivity. Qed.

(* the frame's submissions are the model's slots, each checked by the model's slice_in: leader buffer [0, leader),
   payload buffer consecutive ranges of psizes, trailer buffer [0, trailer); a panic exactly when one slice_in fails *)
Theorem read_helpers_layout q tmo lbuf buf tbuf : prm_ok q = true -> zlen buf < 2 ^ 64 ->
  submit_frame all_ok (of_params q tmo) (zlen lbuf) (zlen buf) (zlen tbuf) =
  if forallb (fun k => slice_in q lbuf tbuf buf k (nth k (slots q) 0)) (seq 0 (nslots q))
  then Ok ((0, q_leader q) :: ranges 0 (psizes q) ++ [(0, q_trailer q)]) else Panic.
Proof.
  intros Hok Hb. destruct (prm_ok_nonneg q Hok) as (Hl & Ht & Hs).
  unfold submit_frame.
  rewrite read_leader_from_source, to_of_params. cbn [submit_all Z.add]. rewrite sp_submit_all_ok by lia.
  rewrite nslots_eq. cbn [seq forallb]. rewrite slice_in_leader. unfold slots at 1. cbn [nth].
  destruct (q_leader q <=? zlen lbuf); cbn [omap andb app]; [|reflexivity].
  rewrite read_payload_from_source by (rewrite ?to_of_params; assumption).
  rewrite transfer_sizes_from_source, to_of_params.
  rewrite submit_all_layout by (try lia; apply psizes_nonneg_s; assumption).
  rewrite seq_app, forallb_app. cbn [seq forallb Nat.add]. rewrite andb_true_r.
  rewrite <- seq_shift, forallb_map.
  rewrite (forallb_seq_ext (fun x => slice_in q lbuf tbuf buf (S x) (nth (S x) (slots q) 0))
                           (fun j => 0 + zsum (firstn j (psizes q)) + nth j (psizes q) 0 <=? zlen buf)).
  2:{ intros j Hj. rewrite nth_slots_payload by lia. apply slice_in_payload. lia. }
  destruct (forallb _ (seq 0 (length (psizes q)))); cbn [omap andb]; [|reflexivity].
  rewrite read_trailer_from_source, to_of_params. cbn [submit_all Z.add]. rewrite sp_submit_all_ok by lia.
  replace (1 + length (psizes q))%nat with (S (length (psizes q))) by lia.
  rewrite nth_slots_trailer, slice_in_trailer.
  destruct (q_trailer q <=? zlen tbuf); cbn [omap]; [|reflexivity].
  cbn [app]. reflexivity.
Qed.

(* ---- the translated code alone: sizes, maximum size, submitted ranges ----------------------------------------- *)
Theorem layout_of_source p m : sizes_nonneg (to_params p) ->
  src_StreamParams_maximum_payload_size p = Ok m ->
  zsum (src_StreamParams_payload_transfer_sizes p) = m /\ 0 <= m < 2 ^ 64 /\
  src_fn_read_payload all_ok [] p m = Ok (tt, ranges 0 (src_StreamParams_payload_transfer_sizes p)) /\
  Forall (fun r => 0 <= fst r /\ fst r <= snd r /\ snd r <= m) (ranges 0 (src_StreamParams_payload_transfer_sizes p)) /\
  (forall blen, 0 <= blen < m -> src_fn_read_payload all_ok [] p blen = Panic).
Proof.
  intros Hs Hm. rewrite max_payload_from_source in Hm by assumption.
  destruct (max_payload (to_params p) <? 2 ^ 64) eqn:E; [|discriminate]. apply Ok_inj in Hm. apply Z.ltb_lt in E.
  pose proof Hs as (H1 & H2 & H3 & H4).
  assert (Hz : zsum (src_StreamParams_payload_transfer_sizes p) = m).
  { rewrite transfer_sizes_from_source, zsum_psizes by assumption. exact Hm. }
  assert (Hm0 : 0 <= m).
  { subst m. unfold max_payload. pose proof (Z.mul_nonneg_nonneg _ _ H1 H2). lia. }
  pose proof (psizes_nonneg_s _ Hs) as Hnn. rewrite <- transfer_sizes_from_source in Hnn.
  split; [exact Hz|]. split; [lia|]. split.
  { rewrite read_payload_from_source by (assumption || lia).
    rewrite submit_all_fits by (assumption || lia). reflexivity. }
  split.
  { pose proof (ranges_inside _ 0 ltac:(lia) Hnn) as Hr. rewrite Hz in Hr.
    eapply Forall_impl; [|exact Hr]. cbn beta. intros [a b]. cbn [fst snd]. lia. }
  intros blen Hbl. rewrite read_payload_from_source by (assumption || lia).
  rewrite submit_all_layout by (assumption || lia).
  (* the last slice ends at m > blen *)
  set (szs := src_StreamParams_payload_transfer_sizes p) in *.
  destruct (forallb _ (seq 0 (length szs))) eqn:Ef; [|reflexivity]. exfalso.
  rewrite forallb_forall in Ef.
  destruct szs as [|s0 r0] eqn:Es; [cbn in Hz; lia|].
  specialize (Ef (length r0)). rewrite in_seq in Ef. specialize (Ef ltac:(cbn [length]; lia)).
  apply Z.leb_le in Ef.
  assert (Hsplit : zsum (firstn (length r0) (s0 :: r0)) + nth (length r0) (s0 :: r0) 0 = zsum (s0 :: r0)).
  { clear. revert s0. induction r0 as [|x r IH]; intros s0; cbn [length firstn nth zsum fold_right]; [lia|].
    specialize (IH x). cbn [zsum fold_right nth] in IH. unfold zsum in *. lia. }
  lia.
Qed.

(* ---- from_control ------------------------------------------------------------------------------------------- *)
(* same final state; same result, the translated code holding the register values `as usize` *)
Definition Rfc (x : outcome src_StreamParams * st) (y : outcome (list Z) * st) : Prop :=
  snd x = snd y /\ omap sp_list (fst x) = omap (map (r_cast 64)) (fst y).

Lemma Rfc_bind {A} (m : M A) f g s : (forall a s', Rfc (f a s') (g a s')) -> Rfc (bindM m f s) (bindM m g s).
Proof. intros H. unfold bindM. destruct (m s) as [[a|e|] s']; [apply H|split; reflexivity..]. Qed.

Lemma bindM_assoc {A B C} (m : M A) (f : A -> M B) (g : B -> M C) s :
  bindM (bindM m f) g s = bindM m (fun a => bindM (f a) g) s.
Proof. unfold bindM. destruct (m s) as [[a|e|] s']; reflexivity. Qed.

Lemma bindM_ret {A B} (a : A) (f : A -> M B) s : bindM (ret a) f s = f a s.
Proof. reflexivity. Qed.

Ltac fc_norm := cbn beta zeta; repeat (rewrite bindM_assoc || rewrite bindM_ret; cbn beta zeta).
Ltac fc_step := fc_norm; apply Rfc_bind; intros ? ?.

Lemma from_control_from_source s : Rfc (src_StreamParams_from_control s) (stream_params s).
Proof.
  unfold src_StreamParams_from_control, stream_params, fc_abrm_new, fc_abrm_sbrm, fc_sbrm_sirm, fc_sirm_read,
    fc_abrm_read.
  cbn [fst snd abrm_DEVICE_CAPABILITY abrm_MAXIMUM_DEVICE_RESPONSE_TIME sirm_MAXIMUM_LEADER_SIZE
       sirm_MAXIMUM_TRAILER_SIZE sirm_PAYLOAD_TRANSFER_SIZE sirm_PAYLOAD_TRANSFER_COUNT
       sirm_PAYLOAD_FINAL_TRANSFER1_SIZE sirm_PAYLOAD_FINAL_TRANSFER2_SIZE].
  fc_step. fc_step. fc_step.
  match goal with |- Rfc (bindM (fc_ok_or ?o _) _ _) _ => destruct o as [sirm|] end; unfold fc_ok_or.
  2:{ split; reflexivity. }
  do 13 fc_step.
  split; reflexivity.
Qed.

Lemma map_cast_u32 l : Forall is_u32 l -> map (r_cast 64) l = l.
Proof.
  induction 1 as [|x l Hx Hl IH]; cbn [map]; [reflexivity|]. rewrite IH. f_equal.
  unfold r_cast, is_u32 in *. apply Z.mod_small.
  assert (2 ^ 32 <= 2 ^ 64) by (apply Z.pow_le_mono_r; lia). lia.
Qed.

(* for every device world that satisfies the invariant of the control model (register reads return bytes), the
   `as usize` conversions change nothing: the translated from_control IS the model's stream_params *)
Lemma from_control_from_source_inv s : inv s ->
  stream_params s = (omap sp_list (fst (src_StreamParams_from_control s)), snd (src_StreamParams_from_control s)).
Proof.
  intros I. destruct (from_control_from_source s) as [H1 H2].
  destruct (stream_params s) as [r s'] eqn:E. cbn [fst snd] in *.
  destruct (sound_stream_params true s r s' I E) as (_ & _ & HQ).
  rewrite H1, H2. f_equal.
  destruct r as [l| |]; cbn [omap]; try reflexivity. now rewrite map_cast_u32 by (apply HQ; reflexivity).
Qed.

(* ---- the statements of props/C12.v and props/C15.v --------------------------------------------------------------- *)
Theorem transfer_sizes_from_source_all :
  (forall p, src_StreamParams_payload_transfer_sizes p = psizes (to_params p)) /\
  (forall q tmo, src_StreamParams_payload_transfer_sizes (of_params q tmo) = psizes q) /\
  (forall a b c d e f t, to_params (src_StreamParams_new a b c d e f t) =
     {| q_leader := a; q_trailer := b; q_psize := c; q_pcount := d; q_f1 := e; q_f2 := f |}).
Proof.
  split; [exact transfer_sizes_from_source|]. split; [|reflexivity].
  intros q tmo. now rewrite transfer_sizes_from_source, to_of_params.
Qed.

Theorem max_payload_from_source_all :
  (forall p, sizes_nonneg (to_params p) ->
     src_StreamParams_maximum_payload_size p =
     if max_payload (to_params p) <? 2 ^ 64 then Ok (max_payload (to_params p)) else Panic) /\
  (forall q tmo, prm_ok q = true -> max_payload q < 2 ^ 64 ->
     src_StreamParams_maximum_payload_size (of_params q tmo) = Ok (max_payload q)).
Proof.
  split; [exact max_payload_from_source|]. intros q tmo Hok Hm.
  rewrite max_payload_from_source by (rewrite to_of_params; apply prm_ok_nonneg, Hok).
  rewrite to_of_params. now replace (max_payload q <? 2 ^ 64) with true by (symmetry; apply Z.ltb_lt; lia).
Qed.

Theorem read_helpers_from_source_all :
  (forall res p prm blen, src_fn_read_leader res p prm blen =
     omap (fun p' => (tt, p')) (submit_all res blen 0 [q_leader (to_params prm)] p)) /\
  (forall res p prm blen, sizes_nonneg (to_params prm) -> blen < 2 ^ 64 ->
     src_fn_read_payload res p prm blen =
     omap (fun p' => (tt, p')) (submit_all res blen 0 (src_StreamParams_payload_transfer_sizes prm) p)) /\
  (forall res p prm blen, src_fn_read_trailer res p prm blen =
     omap (fun p' => (tt, p')) (submit_all res blen 0 [q_trailer (to_params prm)] p)) /\
  (forall q tmo lbuf buf tbuf, prm_ok q = true -> zlen buf < 2 ^ 64 ->
     submit_frame all_ok (of_params q tmo) (zlen lbuf) (zlen buf) (zlen tbuf) =
     if forallb (fun k => slice_in q lbuf tbuf buf k (nth k (slots q) 0)) (seq 0 (nslots q))
     then Ok ((0, q_leader q) :: ranges 0 (psizes q) ++ [(0, q_trailer q)]) else Panic).
Proof.
  split; [exact read_leader_from_source|]. split; [exact read_payload_from_source|].
  split; [exact read_trailer_from_source|]. exact read_helpers_layout.
Qed.

Theorem stream_params_from_source_all :
  (forall s, snd (src_StreamParams_from_control s) = snd (stream_params s) /\
             omap sp_list (fst (src_StreamParams_from_control s)) = omap (map (r_cast 64)) (fst (stream_params s))) /\
  (forall s, inv s ->
     stream_params s = (omap sp_list (fst (src_StreamParams_from_control s)), snd (src_StreamParams_from_control s))) /\
  (forall p, loop_submits (sp_list p) =
             StreamParams_leader_size p :: src_StreamParams_payload_transfer_sizes p ++ [StreamParams_trailer_size p]).
Proof.
  split; [exact from_control_from_source|]. split; [exact from_control_from_source_inv|].
  intros p. rewrite transfer_sizes_from_source. unfold loop_submits, sp_list, psizes.
  cbn [to_params q_psize q_pcount q_f1 q_f2 app]. now rewrite <- !app_assoc.
Qed.

(* ---- non-vacuity ------------------------------------------------------------------------------------------------ *)
Definition ex_prm : src_StreamParams := src_StreamParams_new 52 32 1024 3 512 0 100.

Lemma c12s_examples :
  src_StreamParams_payload_transfer_sizes ex_prm = [1024; 1024; 1024; 512] /\
  src_StreamParams_maximum_payload_size ex_prm = Ok 3584 /\
  submit_frame all_ok ex_prm 52 3584 32 =
    Ok [(0, 52); (0, 1024); (1024, 2048); (2048, 3072); (3072, 3584); (0, 32)] /\
  submit_frame all_ok ex_prm 52 3583 32 = Panic /\
  submit_frame (fun k => if k =? 2 then Some 5 else None) ex_prm 52 3584 32 = Err 5 /\
  src_StreamParams_maximum_payload_size (src_StreamParams_new 0 0 (2 ^ 63) 2 0 0 0) = Panic /\
  src_StreamParams_payload_transfer_sizes (src_StreamParams_new 8 8 16 0 0 24 0) = [24].
Proof. vm_compute. repeat split; reflexivity. Qed.

From Cam Require P_C14b P_C15c.
(* the device image of C15's read-back example: enable_streaming, then the TRANSLATED from_control *)
Lemma c15s_example :
  match ctl_enable_streaming (P_C14b.ex_good_ctl, P_C15c.ex_world) with
  | (Ok _, s1) => omap sp_list (fst (src_StreamParams_from_control s1))
  | _ => Err 0
  end = Ok [56; 64; 65536; 0; 1000; 0].
Proof. vm_compute. reflexivity. Qed.

(* ---- StreamHandle::start_streaming_loop / stop_streaming_loop --------------------------------------------------- *)
(* the statements of the source, in the source's order, do to the handle what model/StreamStart.v says: the parameters
   are read back first (an error is Io and changes nothing), InStreaming is reported after that (the parameters are
   already replaced), the sender is stored before the thread is spawned; stop clears it only when it is there *)
Lemma stream_start_from_source x :
  hs_run 16 src_StreamHandle_start_streaming_loop x = strm_start x /\
  hs_run 16 src_StreamHandle_stop_streaming_loop x = strm_stop x.
Proof.
  destruct x as [s [prm run]]. split.
  - unfold src_StreamHandle_start_streaming_loop, strm_start. cbn [hs_run].
    destruct (stream_params s) as [[p| |] s']; try reflexivity.
    cbn [sh_running sh_params set_running]. destruct run; reflexivity.
  - unfold src_StreamHandle_stop_streaming_loop, strm_stop. cbn [hs_run app sh_running sh_params set_running fst snd].
    destruct run; reflexivity.
Qed.
