(* The translation of the evaluator of genapi/src/formula.rs (gen/FormulaOpsSrc.v, regenerated on every run by
   tools/translate_formulaops.py; primitives: model/FormulaOps.v, lib/RustInt.v) is the hand-written model
   model/Formula.v: coercions, wrapping_pow, every binary and unary operator arm on all operand values (every i64,
   every float pattern, every oracle record), and Expr::eval as a whole. *)
From Cam Require Import Outcome RustInt Formula FuncTable FormulaOps FormulaOpsSrc P_C05.

(* ------------------------------------------------------------------------------------------------------------ *)
(* the operator enums: the translator's reading and tools/translate_funcs.py's agree                               *)
(* ------------------------------------------------------------------------------------------------------------ *)
Lemma decl_cross_check :
  src_binop_decl = all_binops /\ src_unop_decl = all_unops /\
  map binop_code src_binop_decl = map Z.of_nat (seq 0 19) /\ map unop_code src_unop_decl = map Z.of_nat (seq 0 18) /\
  zlen src_binop_decl = gen_binop_count /\ zlen src_unop_decl = gen_unop_count /\
  src_binop_names = gen_binop_variants /\ src_unop_names = gen_unop_variants.
Proof. repeat split; reflexivity. Qed.

(* ------------------------------------------------------------------------------------------------------------ *)
(* coercions                                                                                                      *)
(* ------------------------------------------------------------------------------------------------------------ *)
Lemma as_integer_src fops r : src_as_integer fops r = as_integer fops r.
Proof. destruct r; reflexivity. Qed.
Lemma as_float_src fops r : src_as_float fops r = as_float fops r.
Proof. destruct r; reflexivity. Qed.
Lemma as_bool_src r : src_as_bool r = as_bool r.
Proof. destruct r; reflexivity. Qed.
Lemma is_integer_src r : src_is_integer r = is_integer r.
Proof. destruct r; reflexivity. Qed.
Lemma from_bool_src b : src_res_from_bool b = of_bool b.
Proof. destruct b; reflexivity. Qed.
Lemma from_i64_src i : src_res_from_i64 i = RInt i.
Proof. reflexivity. Qed.
Lemma from_f64_src f : src_res_from_f64 f = RFloat f.
Proof. reflexivity. Qed.

Lemma coercions_from_source fops r :
  src_as_integer fops r = as_integer fops r /\ src_as_float fops r = as_float fops r /\
  src_as_bool r = as_bool r /\ src_is_integer r = is_integer r /\
  (forall b, src_res_from_bool b = of_bool b) /\ (forall i, src_res_from_i64 i = RInt i) /\
  (forall f, src_res_from_f64 f = RFloat f).
Proof.
  repeat split; auto using as_integer_src, as_float_src, as_bool_src, is_integer_src, from_bool_src.
Qed.

Ltac to_model :=
  repeat first [ rewrite as_integer_src | rewrite as_float_src | rewrite as_bool_src | rewrite is_integer_src
               | rewrite from_bool_src | rewrite from_i64_src | rewrite from_f64_src ].

(* ------------------------------------------------------------------------------------------------------------ *)
(* wrapping_pow: the translated loop is the model's binary exponentiation, and 64 units of fuel are enough         *)
(* ------------------------------------------------------------------------------------------------------------ *)
Lemma loop_S m base exp acc :
  src_wrapping_pow_loop (S m) base exp acc =
  if exp >? 0 then
    src_wrapping_pow_loop m (i64_wrapping_mul base base) (Z.shiftr exp 1)
      (if Z.land exp 1 =? 1 then i64_wrapping_mul acc base else acc)
  else Ok (base, exp, acc).
Proof. reflexivity. Qed.

Lemma loop_done m base acc : src_wrapping_pow_loop m base 0 acc = Ok (base, 0, acc).
Proof. destruct m; reflexivity. Qed.

Lemma pow2_succ n : 2 ^ Z.of_nat (S n) = 2 * 2 ^ Z.of_nat n.
Proof. rewrite Nat2Z.inj_succ. apply Z.pow_succ_r. lia. Qed.

Lemma loop_from_source n : forall p base acc,
  Zpos p < 2 ^ Z.of_nat n ->
  exists b', src_wrapping_pow_loop n base (Zpos p) acc = Ok (b', 0, wpow_loop acc base p).
Proof.
  induction n as [| m IH]; intros p base acc H.
  - change (2 ^ Z.of_nat 0) with 1 in H. lia.
  - rewrite pow2_succ in H. rewrite loop_S. change (Z.pos p >? 0) with true. cbv iota.
    destruct p as [q | q |].
    + change (Z.land (Z.pos q~1) 1) with 1. change (Z.shiftr (Z.pos q~1) 1) with (Z.pos q).
      change (1 =? 1) with true. cbv iota.
      destruct (IH q (i64_wrapping_mul base base) (i64_wrapping_mul acc base)) as [b' E]; [lia|].
      exists b'. rewrite E. reflexivity.
    + change (Z.land (Z.pos q~0) 1) with 0. change (Z.shiftr (Z.pos q~0) 1) with (Z.pos q).
      change (0 =? 1) with false. cbv iota.
      destruct (IH q (i64_wrapping_mul base base) acc) as [b' E]; [lia|].
      exists b'. rewrite E. reflexivity.
    + change (Z.land 1 1) with 1. change (Z.shiftr 1 1) with 0. change (1 =? 1) with true. cbv iota.
      rewrite loop_done. eexists. reflexivity.
Qed.

(* any fuel that covers the bits of the exponent gives the model's power; the loop never runs out of it *)
Lemma loop_fuel n base exp acc :
  0 <= exp < 2 ^ Z.of_nat n ->
  exists b', src_wrapping_pow_loop n base exp acc =
             Ok (b', 0, match exp with Zpos p => wpow_loop acc base p | _ => acc end).
Proof.
  intros [H0 H1]. destruct exp as [| p | p]; [| | lia].
  - rewrite loop_done. eexists. reflexivity.
  - apply loop_from_source. exact H1.
Qed.

Lemma wrapping_pow_from_source base exp :
  0 <= exp < 2 ^ 64 -> src_wrapping_pow base exp = Ok (pow_wrap base exp).
Proof.
  intros H. unfold src_wrapping_pow. cbv zeta.
  destruct (loop_fuel 64 base exp 1) as [b' E]; [exact H|].
  rewrite E. cbn [bind]. destruct exp; reflexivity.
Qed.

(* ------------------------------------------------------------------------------------------------------------ *)
(* integer primitives on i64 values                                                                               *)
(* ------------------------------------------------------------------------------------------------------------ *)
Lemma mod64_low z j : 0 <= j < 64 -> Z.testbit (z mod M64) j = Z.testbit z j.
Proof. intros H. rewrite M64_pow. apply Z.mod_pow2_bits_low. lia. Qed.

Lemma min63 i : 0 <= i -> 0 <= Z.min i 63 < 64.
Proof. lia. Qed.

Lemma i_bitop_sw (f : Z -> Z -> Z) (g : bool -> bool -> bool) :
  (forall a b n, 0 <= n -> Z.testbit (f a b) n = g (Z.testbit a n) (Z.testbit b n)) ->
  forall a b, sw 64 (f (wrapu 64 a) (wrapu 64 b)) = f (sw 64 a) (sw 64 b).
Proof.
  intros Hspec a b. apply Z.bits_inj'. intros n Hn.
  rewrite Hspec by exact Hn. rewrite !sw64_testbit by exact Hn.
  pose proof (min63 n Hn) as Hm. rewrite Hspec by lia.
  unfold wrapu. rewrite <- M64_pow. rewrite !mod64_low by exact Hm. reflexivity.
Qed.

Lemma i_and_i64 a b : in_i64 a -> in_i64 b -> i_and 64 a b = Z.land a b.
Proof.
  intros Ha Hb. unfold i_and. rewrite (i_bitop_sw Z.land andb) by (intros; apply Z.land_spec).
  rewrite !sw64_id by assumption. reflexivity.
Qed.
Lemma i_or_i64 a b : in_i64 a -> in_i64 b -> i_or 64 a b = Z.lor a b.
Proof.
  intros Ha Hb. unfold i_or. rewrite (i_bitop_sw Z.lor orb) by (intros; apply Z.lor_spec).
  rewrite !sw64_id by assumption. reflexivity.
Qed.
Lemma i_xor_i64 a b : in_i64 a -> in_i64 b -> i_xor 64 a b = Z.lxor a b.
Proof.
  intros Ha Hb. unfold i_xor. rewrite (i_bitop_sw Z.lxor xorb) by (intros; apply Z.lxor_spec).
  rewrite !sw64_id by assumption. reflexivity.
Qed.

Lemma ones64_bit j : 0 <= j < 64 -> Z.testbit (2 ^ 64 - 1) j = true.
Proof.
  intros H. replace (2 ^ 64 - 1) with (Z.ones 64) by reflexivity. apply Z.ones_spec_low. lia.
Qed.

Lemma i_not_i64 a : in_i64 a -> i_not 64 a = Z.lnot a.
Proof.
  intros Ha. unfold i_not. rewrite <- (sw64_id (Z.lnot a)).
  - apply Z.bits_inj'. intros n Hn. rewrite !sw64_testbit by exact Hn.
    pose proof (min63 n Hn) as Hm. rewrite Z.lxor_spec, ones64_bit by exact Hm.
    unfold wrapu. rewrite <- M64_pow. rewrite mod64_low by exact Hm.
    rewrite Z.lnot_spec by lia. reflexivity.
  - unfold in_i64, I64_MIN, I64_MAX, Z.lnot in *. lia.
Qed.

(* `rhs as u32` then the count modulo 64 of overflowing_shl / shr: the count modulo 64 of the i64 *)
Lemma count_mod64 b : (r_cast 32 b) mod 64 = b mod 64.
Proof. unfold r_cast. change (2 ^ 32) with 4294967296. dlia. Qed.

Lemma shl_from_source a b :
  fst (i64_overflowing_shl a (r_cast 32 b)) = sw 64 (Z.shiftl a (b mod 64)).
Proof.
  unfold i64_overflowing_shl. cbn [fst]. rewrite count_mod64.
  rewrite Z.shiftl_mul_pow2 by (apply Z.mod_pos_bound; lia). reflexivity.
Qed.
Lemma shr_from_source a b :
  fst (i64_overflowing_shr a (r_cast 32 b)) = Z.shiftr a (b mod 64).
Proof. unfold i64_overflowing_shr. cbn [fst]. rewrite count_mod64. reflexivity. Qed.

Lemma rem_from_source a b : in_i64 a -> in_i64 b -> b <> 0 ->
  exists o, i64_overflowing_rem a b = Ok (sw 64 (Z.rem a b), o).
Proof.
  intros Ha Hb Hnz. unfold i64_overflowing_rem.
  destruct (b =? 0) eqn:E0; [apply Z.eqb_eq in E0; contradiction|].
  destruct ((a =? - 2 ^ 63) && (b =? -1)) eqn:E1.
  - apply andb_prop in E1. destruct E1 as [E1 E2]. apply Z.eqb_eq in E1. apply Z.eqb_eq in E2. subst a b.
    exists true. reflexivity.
  - exists false. rewrite sw64_id; [reflexivity|].
    pose proof (Z.rem_bound_abs a b Hnz) as B. unfold in_i64, I64_MIN, I64_MAX in *. lia.
Qed.

Lemma r_cast64_id x : 0 <= x -> in_i64 x -> r_cast 64 x = x.
Proof.
  intros H0 H. unfold r_cast. apply Z.mod_small. unfold in_i64, I64_MIN, I64_MAX in H. lia.
Qed.

(* comparisons of integers: the test on Z.compare that the model uses *)
Lemma eqb_cmp a b : (a =? b) = match a ?= b with Eq => true | _ => false end.
Proof.
  destruct (Z.eqb_spec a b) as [-> | N]; [rewrite Z.compare_refl; reflexivity|].
  destruct (a ?= b) eqn:C; try reflexivity. apply Z.compare_eq in C. contradiction.
Qed.

Ltac cmp_cases :=
  rewrite ?eqb_cmp; unfold Z.ltb, Z.leb, Z.gtb, Z.geb;
  repeat match goal with
         | |- context [f_cmp ?f ?x ?y] => destruct (f_cmp f x y) as [[] |]
         | |- context [?x ?= ?y] => destruct (x ?= y)
         end; reflexivity.

(* ------------------------------------------------------------------------------------------------------------ *)
(* every arm of eval_binop, operands already evaluated                                                            *)
(* ------------------------------------------------------------------------------------------------------------ *)
Ltac src_cbv :=
  cbv [src_res_from_bool src_res_from_i64 src_res_from_f64 src_as_integer src_as_float src_as_bool src_is_integer
       i64_overflowing_add i64_overflowing_sub i64_overflowing_mul i64_wrapping_add i64_wrapping_sub
       i64_wrapping_mul i64_wrapping_neg i64_wrapping_abs i64_signum
       f64_add f64_sub f64_mul f64_div f64_rem f64_powf f64_eq f64_ne f64_lt f64_le f64_gt f64_ge
       f64_as_i64 i64_as_f64 f64_neg f64_abs f64_signum f64_ne_zero f64_eq_zero
       f64_sin f64_cos f64_tan f64_asin f64_acos f64_atan f64_exp f64_ln f64_log10 f64_sqrt f64_trunc f64_floor
       f64_ceil f64_round
       binop_strict unop_apply arith compare_res cmp_test of_bool is_integer as_integer as_float as_bool
       bind fst snd andb orb negb].

Lemma binop_value_from_source fops k a b :
  res_ok a -> res_ok b -> k <> BAnd -> k <> BOr ->
  src_eval_binop fops k (Ok a) (Ok b) = binop_strict fops true k a b.
Proof.
  intros Ha Hb NA NO.
  pose proof (as_integer_range fops a Ha) as Ia. pose proof (as_integer_range fops b Hb) as Ib.
  destruct k; try contradiction; unfold src_eval_binop; cbn [bind].
  - (* Add *) destruct a, b; src_cbv; reflexivity.
  - (* Sub *) destruct a, b; src_cbv; reflexivity.
  - (* Mul *) destruct a, b; src_cbv; reflexivity.
  - (* Div *) destruct a, b; src_cbv; reflexivity.
  - (* Rem *)
    destruct a as [i | x], b as [j | y]; try (src_cbv; reflexivity).
    src_cbv. rewrite ?(Z.eqb_sym 0 j). destruct (j =? 0) eqn:E0; [reflexivity|].
    apply Z.eqb_neq in E0. cbn [res_ok] in Ha, Hb.
    destruct (rem_from_source i j Ha Hb E0) as [o E]. rewrite E. reflexivity.
  - (* Pow *)
    destruct a as [i | x], b as [j | y]; try (src_cbv; reflexivity).
    src_cbv. rewrite ?Z.geb_leb, ?Z.gtb_ltb. destruct (0 <=? j) eqn:E0; [|reflexivity].
    apply Z.leb_le in E0. cbn [res_ok] in Hb.
    rewrite r_cast64_id by assumption.
    rewrite wrapping_pow_from_source by (unfold in_i64, I64_MIN, I64_MAX in Hb; lia).
    reflexivity.
  - (* Shl *) to_model. rewrite shl_from_source. reflexivity.
  - (* Shr *) to_model. rewrite shr_from_source. reflexivity.
  - (* Eq *) destruct a, b; src_cbv; cmp_cases.
  - (* Ne *) destruct a, b; src_cbv; cmp_cases.
  - (* Lt *) destruct a, b; src_cbv; cmp_cases.
  - (* Le *) destruct a, b; src_cbv; cmp_cases.
  - (* Gt *) destruct a, b; src_cbv; cmp_cases.
  - (* Ge *) destruct a, b; src_cbv; cmp_cases.
  - (* BitAnd *) to_model. rewrite i_and_i64 by assumption. reflexivity.
  - (* BitOr *) to_model. rewrite i_or_i64 by assumption. reflexivity.
  - (* Xor *) to_model. rewrite i_xor_i64 by assumption. reflexivity.
Qed.

(* eval_binop as a whole: the operands are given by their evaluations, as in the source; && and || bind the right
   one only when the left one does not decide *)
Definition model_binop (fops : float_ops) (k : binop) (ea eb : outcome res) : outcome res :=
  match k with
  | BAnd => let? a := ea in
            if as_bool a then (let? b := eb in Ok (of_bool (as_bool b))) else Ok (of_bool false)
  | BOr => let? a := ea in
           if as_bool a then Ok (of_bool true) else (let? b := eb in Ok (of_bool (as_bool b)))
  | _ => let? a := ea in let? b := eb in binop_strict fops true k a b
  end.
Definition model_unop (fops : float_ops) (k : unop) (ea : outcome res) : outcome res :=
  let? a := ea in unop_apply fops true k a.
(* these ARE the corresponding clauses of the model's eval *)
Lemma model_binop_is_eval fops fuel env k l r :
  eval fops true fuel env (EBin k l r) =
  model_binop fops k (eval fops true fuel env l) (eval fops true fuel env r).
Proof. rewrite eval_eq. destruct k; reflexivity. Qed.
Lemma model_unop_is_eval fops fuel env k x :
  eval fops true fuel env (EUn k x) = model_unop fops k (eval fops true fuel env x).
Proof. rewrite eval_eq. reflexivity. Qed.

Definition out_ok (x : outcome res) : Prop := forall r, x = Ok r -> res_ok r.

Lemma binop_from_source fops k ea eb :
  out_ok ea -> out_ok eb -> src_eval_binop fops k ea eb = model_binop fops k ea eb.
Proof.
  intros Ha Hb.
  assert (S : k <> BAnd -> k <> BOr ->
              src_eval_binop fops k ea eb = let? a := ea in let? b := eb in binop_strict fops true k a b).
  { intros NA NO. destruct ea as [a | e | ]; [|destruct k; try contradiction; reflexivity ..].
    destruct eb as [b | e | ]; [|destruct k; try contradiction; reflexivity ..].
    cbn [bind]. apply binop_value_from_source; auto. }
  destruct k; try (rewrite S by discriminate; reflexivity).
  - (* And *)
    unfold src_eval_binop, model_binop. destruct ea as [a | e | ]; cbn [bind]; try reflexivity.
    to_model. destruct (as_bool a); [|reflexivity].
    destruct eb as [b | e | ]; cbn [bind]; try reflexivity. to_model. reflexivity.
  - (* Or *)
    unfold src_eval_binop, model_binop. destruct ea as [a | e | ]; cbn [bind]; try reflexivity.
    to_model. destruct (as_bool a); [reflexivity|].
    destruct eb as [b | e | ]; cbn [bind]; try reflexivity. to_model. reflexivity.
Qed.

(* ------------------------------------------------------------------------------------------------------------ *)
(* eval_unop                                                                                                      *)
(* ------------------------------------------------------------------------------------------------------------ *)
Lemma unop_value_from_source fops k a :
  res_ok a -> src_eval_unop fops k (Ok a) = unop_apply fops true k a.
Proof.
  intros Ha. pose proof (as_integer_range fops a Ha) as Ia.
  unfold src_eval_unop. cbn [bind].
  destruct k; try (destruct a; src_cbv; reflexivity).
  (* Not *) to_model. rewrite i_not_i64 by assumption. reflexivity.
Qed.

Lemma unop_from_source fops k ea :
  out_ok ea -> src_eval_unop fops k ea = model_unop fops k ea.
Proof.
  intros Ha. unfold model_unop. destruct ea as [a | e | ]; [|reflexivity ..].
  cbn [bind]. apply unop_value_from_source. apply Ha. reflexivity.
Qed.

(* ------------------------------------------------------------------------------------------------------------ *)
(* Expr::eval                                                                                                     *)
(* ------------------------------------------------------------------------------------------------------------ *)
Lemma src_eval_unfold fops fuel env e :
  src_eval fops fuel env e =
  match e with
  | EBin k l r => src_eval_binop fops k (src_eval fops fuel env l) (src_eval fops fuel env r)
  | EUn k x => src_eval_unop fops k (src_eval fops fuel env x)
  | EIf c t f =>
      let? b := (let? a := src_eval fops fuel env c in Ok (src_as_bool a)) in
      if b then src_eval fops fuel env t else src_eval fops fuel env f
  | EInt i => Ok (src_res_from_i64 i)
  | EFloat b => Ok (src_res_from_f64 b)
  | EIdent s =>
      match lookup s env with
      | None => Err E_INVALID_NODE
      | Some e' => match fuel with O => Err E_FUEL | S f => src_eval fops f env e' end
      end
  end.
Proof. destruct fuel; destruct e; reflexivity. Qed.

Lemma eval_out_ok fops fuel env e : env_lits_ok env -> lits_ok e -> out_ok (eval fops true fuel env e).
Proof. intros He L r H. apply (eval_range fops fuel env He e r L H). Qed.

Lemma eval_from_source fops fuel env :
  env_lits_ok env -> forall e, lits_ok e -> src_eval fops fuel env e = eval fops true fuel env e.
Proof.
  intros Henv. induction fuel as [| n IHn].
  - induction e; intros L; rewrite src_eval_unfold; cbn [lits_ok] in L.
    + destruct L as [L1 L2]. rewrite IHe1, IHe2 by assumption.
      rewrite binop_from_source by (apply eval_out_ok; assumption). symmetry. apply model_binop_is_eval.
    + rewrite IHe by assumption. rewrite unop_from_source by (apply eval_out_ok; assumption).
      symmetry. apply model_unop_is_eval.
    + destruct L as (L1 & L2 & L3). rewrite IHe1, IHe2, IHe3 by assumption.
      rewrite (eval_eq _ _ _ _ (EIf e1 e2 e3)). cbn [eval_step].
      destruct (eval fops true 0 env e1); cbn [bind]; try reflexivity; to_model; reflexivity.
    + reflexivity.
    + reflexivity.
    + rewrite eval_eq. cbn [eval_step deref]. reflexivity.
  - induction e; intros L; rewrite src_eval_unfold; cbn [lits_ok] in L.
    + destruct L as [L1 L2]. rewrite IHe1, IHe2 by assumption.
      rewrite binop_from_source by (apply eval_out_ok; assumption). symmetry. apply model_binop_is_eval.
    + rewrite IHe by assumption. rewrite unop_from_source by (apply eval_out_ok; assumption).
      symmetry. apply model_unop_is_eval.
    + destruct L as (L1 & L2 & L3). rewrite IHe1, IHe2, IHe3 by assumption.
      rewrite (eval_eq _ _ _ _ (EIf e1 e2 e3)). cbn [eval_step].
      destruct (eval fops true (S n) env e1); cbn [bind]; try reflexivity; to_model; reflexivity.
    + reflexivity.
    + reflexivity.
    + rewrite eval_eq. cbn [eval_step deref].
      destruct (lookup s env) as [e' |] eqn:E; [|reflexivity].
      apply IHn. apply (Henv s e' E).
Qed.

(* ------------------------------------------------------------------------------------------------------------ *)
(* statements for props/C05.v                                                                                     *)
(* ------------------------------------------------------------------------------------------------------------ *)
Lemma binop_from_source_all :
  (forall fops k a b, res_ok a -> res_ok b -> k <> BAnd -> k <> BOr ->
     src_eval_binop fops k (Ok a) (Ok b) = binop_strict fops true k a b) /\
  (forall fops k ea eb, out_ok ea -> out_ok eb ->
     src_eval_binop fops k ea eb = model_binop fops k ea eb) /\
  (forall fops fuel env k l r,
     eval fops true fuel env (EBin k l r) =
     model_binop fops k (eval fops true fuel env l) (eval fops true fuel env r)) /\
  (forall base exp, 0 <= exp < 2 ^ 64 -> src_wrapping_pow base exp = Ok (pow_wrap base exp)) /\
  (forall a b, fst (i64_overflowing_shl a (r_cast 32 b)) = sw 64 (Z.shiftl a (b mod 64)) /\
               fst (i64_overflowing_shr a (r_cast 32 b)) = Z.shiftr a (b mod 64)).
Proof.
  split; [exact binop_value_from_source|]. split; [exact binop_from_source|].
  split; [exact model_binop_is_eval|]. split; [exact wrapping_pow_from_source|].
  intros a b. split; [apply shl_from_source | apply shr_from_source].
Qed.

Lemma unop_from_source_all :
  (forall fops k a, res_ok a -> src_eval_unop fops k (Ok a) = unop_apply fops true k a) /\
  (forall fops k ea, out_ok ea -> src_eval_unop fops k ea = model_unop fops k ea) /\
  (forall fops fuel env k x,
     eval fops true fuel env (EUn k x) = model_unop fops k (eval fops true fuel env x)).
Proof.
  split; [exact unop_value_from_source|]. split; [exact unop_from_source | exact model_unop_is_eval].
Qed.

(* on the translated code alone: no operator arm panics; + - * on integers are arithmetic modulo 2^64; the shift
   count is taken modulo 64; the loop of wrapping_pow never uses up its fuel *)
Lemma binop_strict_no_panic_all fops k a b : k <> BAnd -> k <> BOr -> binop_strict fops true k a b <> Panic.
Proof. intros NA NO. apply binop_strict_no_panic. split; assumption. Qed.

Lemma binop_eq_dec_and_or k : (k = BAnd \/ k = BOr) \/ (k <> BAnd /\ k <> BOr).
Proof. destruct k; first [ left; auto; fail | right; split; discriminate ]. Qed.

Lemma operators_of_source :
  (forall fops k a b, res_ok a -> res_ok b -> src_eval_binop fops k (Ok a) (Ok b) <> Panic) /\
  (forall fops k a, res_ok a -> src_eval_unop fops k (Ok a) <> Panic) /\
  (forall fops a b,
     src_eval_binop fops BAdd (Ok (RInt a)) (Ok (RInt b)) = Ok (RInt (sw 64 (a + b))) /\
     src_eval_binop fops BSub (Ok (RInt a)) (Ok (RInt b)) = Ok (RInt (sw 64 (a - b))) /\
     src_eval_binop fops BMul (Ok (RInt a)) (Ok (RInt b)) = Ok (RInt (sw 64 (a * b)))) /\
  (forall fops a b, in_i64 a -> in_i64 b ->
     src_eval_binop fops BShl (Ok (RInt a)) (Ok (RInt b)) = Ok (RInt (sw 64 (a * 2 ^ (b mod 64)))) /\
     src_eval_binop fops BShr (Ok (RInt a)) (Ok (RInt b)) = Ok (RInt (a / 2 ^ (b mod 64)))) /\
  (forall fops a b, in_i64 a -> in_i64 b ->
     src_eval_binop fops BRem (Ok (RInt a)) (Ok (RInt b)) =
     if b =? 0 then Err E_INVALID_DATA else Ok (RInt (sw 64 (Z.rem a b)))) /\
  (forall n base exp acc, 0 <= exp < 2 ^ Z.of_nat n ->
     exists b' r, src_wrapping_pow_loop n base exp acc = Ok (b', 0, r)).
Proof.
  split; [|split; [|split; [|split; [|split]]]].
  - intros fops k a b Ha Hb.
    destruct (binop_eq_dec_and_or k) as [[-> | ->] | [NA NO]].
    + rewrite binop_from_source by (intros r E; apply Ok_inj in E; subst; assumption).
      cbn [model_binop bind]. destruct (as_bool a); discriminate.
    + rewrite binop_from_source by (intros r E; apply Ok_inj in E; subst; assumption).
      cbn [model_binop bind]. destruct (as_bool a); discriminate.
    + rewrite binop_value_from_source by assumption. apply binop_strict_no_panic_all; assumption.
  - intros fops k a Ha. rewrite unop_value_from_source by assumption. apply unop_apply_no_panic.
  - intros fops a b. repeat split; unfold src_eval_binop; cbn [bind]; src_cbv; reflexivity.
  - intros fops a b Ha Hb. split.
    + rewrite binop_value_from_source by (cbn [res_ok]; auto; discriminate).
      cbn [binop_strict as_integer]. rewrite Z.shiftl_mul_pow2 by (apply Z.mod_pos_bound; lia). reflexivity.
    + rewrite binop_value_from_source by (cbn [res_ok]; auto; discriminate).
      cbn [binop_strict as_integer]. rewrite Z.shiftr_div_pow2 by (apply Z.mod_pos_bound; lia). reflexivity.
  - intros fops a b Ha Hb.
    rewrite binop_value_from_source by (cbn [res_ok]; auto; discriminate).
    cbn [binop_strict is_integer as_integer andb arith]. destruct (b =? 0); reflexivity.
  - intros n base exp acc H. destruct (loop_fuel n base exp acc H) as [b' E]. eauto.
Qed.

(* ---- non-vacuity: the translated code run on concrete operands (an oracle record of constants) -------------- *)
Definition fops0 : float_ops :=
  {| f_add := fun _ _ => 0; f_sub := fun _ _ => 0; f_mul := fun _ _ => 0; f_div := fun _ _ => 7;
     f_rem := fun _ _ => 0; f_pow := fun _ _ => 0; f_cmp := fun _ _ => None; f_of_int := fun i => i;
     f_trunc_z := fun f => f; f_fun := fun _ _ => 0; f_lit := fun _ => 0 |}.

Lemma source_examples :
  src_eval_binop fops0 BAdd (Ok (RInt (2 ^ 63 - 1))) (Ok (RInt 1)) = Ok (RInt (- 2 ^ 63)) /\
  src_eval_binop fops0 BMul (Ok (RInt (2 ^ 62))) (Ok (RInt 4)) = Ok (RInt 0) /\
  src_eval_binop fops0 BShl (Ok (RInt 1)) (Ok (RInt 65)) = Ok (RInt 2) /\
  src_eval_binop fops0 BShr (Ok (RInt (-8))) (Ok (RInt (-63))) = Ok (RInt (-4)) /\
  src_eval_binop fops0 BRem (Ok (RInt 5)) (Ok (RInt 0)) = Err E_INVALID_DATA /\
  src_eval_binop fops0 BRem (Ok (RInt (-7))) (Ok (RInt 2)) = Ok (RInt (-1)) /\
  src_eval_binop fops0 BRem (Ok (RInt (- 2 ^ 63))) (Ok (RInt (-1))) = Ok (RInt 0) /\
  src_eval_binop fops0 BPow (Ok (RInt 2)) (Ok (RInt 4294967296)) = Ok (RInt 0) /\
  src_eval_binop fops0 BPow (Ok (RInt 3)) (Ok (RInt 4)) = Ok (RInt 81) /\
  src_eval_binop fops0 BDiv (Ok (RInt 6)) (Ok (RInt 3)) = Ok (RFloat 7) /\
  src_eval_binop fops0 BLe (Ok (RInt 3)) (Ok (RInt 3)) = Ok (RInt 1) /\
  src_eval_binop fops0 BXor (Ok (RInt (-1))) (Ok (RInt 5)) = Ok (RInt (-6)) /\
  src_eval_binop fops0 BAnd (Ok (RInt 0)) Panic = Ok (RInt 0) /\
  src_eval_binop fops0 BOr (Ok (RInt 2)) (Err 5) = Ok (RInt 1) /\
  src_eval_binop fops0 BAnd (Ok (RInt 1)) (Err 5) = Err 5 /\
  src_eval_unop fops0 UNeg (Ok (RInt (- 2 ^ 63))) = Ok (RInt (- 2 ^ 63)) /\
  src_eval_unop fops0 UNot (Ok (RInt 0)) = Ok (RInt (-1)) /\
  src_eval_unop fops0 USgn (Ok (RInt (-9))) = Ok (RInt (-1)) /\
  src_eval fops0 1 [([65], EInt 5)] (EIf (EBin BLt (EIdent [65]) (EInt 7)) (EBin BShl (EIdent [65]) (EInt 2)) (EIdent [66]))
    = Ok (RInt 20) /\
  src_eval fops0 0 [] (EIdent [66]) = Err E_INVALID_NODE.
Proof. vm_compute. repeat split; reflexivity. Qed.
