From Cam Require Import Outcome Bytes Ack Stream Payload GenCPLayout StreamLayout P_C08.

(* ---- pixel formats: one-to-one over the regenerated tables ---------------------- *)

Lemma lookup_In k v t : lookup k t = Some v -> In (k, v) t.
Proof.
  induction t as [|[k' v'] t IH]; cbn [lookup]; [discriminate|].
  destruct (k =? k') eqn:E.
  - intros H; inversion H; subst. apply Z.eqb_eq in E. subst. now left.
  - intros H. right. auto.
Qed.

Definition pixel_checks : bool :=
  forallb (fun pc => match lookup (snd pc) code_to_pf with Some p => p =? fst pc | None => false end) pf_to_code
  && forallb (fun cp => match lookup (snd cp) pf_to_code with Some c => c =? fst cp | None => false end) code_to_pf
  && forallb (fun i => match lookup i pf_to_code with Some _ => true | None => false end)
             (upto (Z.to_nat pf_count) 0)
  && forallb (fun cp => (0 <=? fst cp) && (fst cp <? 2 ^ 32) && (0 <=? snd cp) && (snd cp <? pf_count)) code_to_pf.

Lemma pixel_checks_ok : pixel_checks = true.
Proof. vm_compute. reflexivity. Qed.

Lemma pixel_encode_decode p : 0 <= p < pf_count ->
  exists c, code_of_pf p = Some c /\ pf_of_code c = Ok p.
Proof.
  intros Hp. pose proof pixel_checks_ok as H. unfold pixel_checks in H.
  apply andb_true_iff in H. destruct H as [H _].
  apply andb_true_iff in H. destruct H as [H H3].
  apply andb_true_iff in H. destruct H as [H1 _].
  rewrite forallb_forall in H1, H3.
  assert (Hin : In p (upto (Z.to_nat pf_count) 0)) by (apply in_upto; lia).
  specialize (H3 p Hin). unfold code_of_pf.
  destruct (lookup p pf_to_code) as [c|] eqn:E; [|discriminate].
  exists c. split; [reflexivity|].
  specialize (H1 (p, c) (lookup_In _ _ _ E)). cbn [fst snd] in H1.
  unfold pf_of_code. destruct (lookup c code_to_pf) as [p'|]; [|discriminate].
  apply Z.eqb_eq in H1. now subst.
Qed.

Lemma pixel_decode_encode c p : pf_of_code c = Ok p ->
  code_of_pf p = Some c /\ 0 <= p < pf_count /\ 0 <= c < 2 ^ 32.
Proof.
  unfold pf_of_code. destruct (lookup c code_to_pf) as [p'|] eqn:E; [|discriminate].
  intros H; inversion H; subst p'; clear H.
  pose proof pixel_checks_ok as H. unfold pixel_checks in H.
  apply andb_true_iff in H. destruct H as [H H4].
  apply andb_true_iff in H. destruct H as [H _].
  apply andb_true_iff in H. destruct H as [_ H2].
  rewrite forallb_forall in H2, H4.
  pose proof (lookup_In _ _ _ E) as Hin.
  specialize (H2 (c, p) Hin). specialize (H4 (c, p) Hin). cbn [fst snd] in *.
  unfold code_of_pf. destruct (lookup p pf_to_code) as [c'|]; [|discriminate].
  apply Z.eqb_eq in H2. subst c'. split; [reflexivity|]. lia.
Qed.

(* ---- leader / trailer: cursor model = fixed-offset specification ---------------------- *)

Definition to_sleader (l : leader) : sleader :=
  {| sl_size := l_size l; sl_block_id := l_block_id l; sl_type := l_type l; sl_raw := l_raw l |}.

Definition to_strailer (t : trailer) : strailer :=
  {| st_size := t_size t; st_block_id := t_block_id t; st_status := t_status t; st_valid := t_valid t;
     st_raw := t_raw t |}.

Ltac short_case L :=
  match goal with
  | |- context [(length ?b <? ?n)%nat] =>
    let E := fresh "E" in
    destruct (length b <? n)%nat eqn:E;
    [exact I | apply Nat.ltb_ge in E; apply Nat.ltb_lt in L; lia]
  end.

Lemma payload_type_spec v : payload_type_of v =
  match spec_payload_type v with Some k => Ok k | None => Err E_INVALID_PACKET end.
Proof.
  unfold payload_type_of, spec_payload_type.
  change 0x0001 with 1. change 0x4001 with 16385. change 0x4000 with 16384.
  destruct (v =? 1); [reflexivity|]. destruct (v =? 16385); [reflexivity|].
  destruct (v =? 16384); reflexivity.
Qed.

Lemma payload_status_spec v : payload_status_of v =
  match spec_payload_status v with Some k => Ok k | None => Err E_INVALID_PACKET end.
Proof.
  unfold payload_status_of, spec_payload_status.
  change 0x0000 with 0. change 0xA100 with 41216. change 0xA101 with 41217.
  destruct (v =? 0); [reflexivity|]. destruct (v =? 41216); [reflexivity|].
  destruct (v =? 41217); reflexivity.
Qed.

Lemma parse_leader_faithful bs : agree to_sleader (parse_leader bs) (spec_leader bs).
Proof.
  unfold parse_leader, spec_leader.
  rewrite rd0 by lia.
  destruct (length bs <? 4)%nat eqn:L4; [short_case L4|]. cbn [bind].
  change LEADER_MAGIC with 1280717653.
  destruct (negb (le_at 0 4 bs =? 1280717653)) eqn:Em.
  { destruct (length bs <? 20)%nat; exact I. }
  rewrite (rd_skipn 4 2) by lia. cbn [Nat.add].
  destruct (length bs <? 6)%nat eqn:L6; [short_case L6|]. cbn [bind].
  rewrite (rd_skipn 6 2) by lia. cbn [Nat.add].
  destruct (length bs <? 8)%nat eqn:L8; [short_case L8|]. cbn [bind].
  rewrite (rd_skipn 8 8) by lia. cbn [Nat.add].
  destruct (length bs <? 16)%nat eqn:L16; [short_case L16|]. cbn [bind].
  rewrite (rd_skipn 16 2) by lia. cbn [Nat.add].
  destruct (length bs <? 18)%nat eqn:L18; [short_case L18|]. cbn [bind].
  rewrite (rd_skipn 18 2) by lia. cbn [Nat.add].
  destruct (length bs <? 20)%nat eqn:L20; [exact I|]. cbn [bind].
  rewrite payload_type_spec.
  destruct (spec_payload_type (le_at 18 2 bs)); cbn [bind agree]; [reflexivity|exact I].
Qed.

Lemma parse_trailer_faithful bs : agree to_strailer (parse_trailer bs) (spec_trailer bs).
Proof.
  unfold parse_trailer, spec_trailer.
  rewrite rd0 by lia.
  destruct (length bs <? 4)%nat eqn:L4; [short_case L4|]. cbn [bind].
  change TRAILER_MAGIC with 1414935381.
  destruct (negb (le_at 0 4 bs =? 1414935381)) eqn:Em.
  { destruct (length bs <? 28)%nat; exact I. }
  rewrite (rd_skipn 4 2) by lia. cbn [Nat.add].
  destruct (length bs <? 6)%nat eqn:L6; [short_case L6|]. cbn [bind].
  rewrite (rd_skipn 6 2) by lia. cbn [Nat.add].
  destruct (length bs <? 8)%nat eqn:L8; [short_case L8|]. cbn [bind].
  rewrite (rd_skipn 8 8) by lia. cbn [Nat.add].
  destruct (length bs <? 16)%nat eqn:L16; [short_case L16|]. cbn [bind].
  rewrite (rd_skipn 16 2) by lia. cbn [Nat.add].
  destruct (length bs <? 18)%nat eqn:L18; [short_case L18|]. cbn [bind].
  rewrite payload_status_spec.
  destruct (spec_payload_status (le_at 16 2 bs)) as [st|]; cbn [bind].
  2:{ destruct (length bs <? 28)%nat; exact I. }
  rewrite (rd_skipn 18 2) by lia. cbn [Nat.add].
  destruct (length bs <? 20)%nat eqn:L20; [short_case L20|]. cbn [bind].
  rewrite (rd_skipn 20 8) by lia. cbn [Nat.add].
  destruct (length bs <? 28)%nat eqn:L28; [exact I|]. cbn [bind agree]. reflexivity.
Qed.

Definition to_simage (l : image_leader) : simage_leader :=
  {| si_timestamp := il_timestamp l; si_pf := il_pf l; si_width := il_width l; si_height := il_height l;
     si_xoff := il_xoff l; si_yoff := il_yoff l; si_xpad := il_xpad l |}.

Definition pf_opt (c : Z) : option Z := lookup c code_to_pf.

Lemma parse_image_leader_faithful raw :
  agree to_simage (parse_image_leader raw) (spec_image_leader pf_opt raw).
Proof.
  unfold parse_image_leader, spec_image_leader.
  rewrite rd0 by lia.
  destruct (length raw <? 8)%nat eqn:L8; [short_case L8|]. cbn [bind].
  rewrite (rd_skipn 8 4) by lia. cbn [Nat.add].
  destruct (length raw <? 12)%nat eqn:L12; [short_case L12|]. cbn [bind].
  unfold pf_of_code, pf_opt.
  destruct (lookup (le_at 8 4 raw) code_to_pf) as [f|]; cbn [bind].
  2:{ destruct (length raw <? 32)%nat; exact I. }
  rewrite (rd_skipn 12 4) by lia. cbn [Nat.add].
  destruct (length raw <? 16)%nat eqn:L16; [short_case L16|]. cbn [bind].
  rewrite (rd_skipn 16 4) by lia. cbn [Nat.add].
  destruct (length raw <? 20)%nat eqn:L20; [short_case L20|]. cbn [bind].
  rewrite (rd_skipn 20 4) by lia. cbn [Nat.add].
  destruct (length raw <? 24)%nat eqn:L24; [short_case L24|]. cbn [bind].
  rewrite (rd_skipn 24 4) by lia. cbn [Nat.add].
  destruct (length raw <? 28)%nat eqn:L28; [short_case L28|]. cbn [bind].
  rewrite (rd_skipn 28 2) by lia. cbn [Nat.add].
  destruct (length raw <? 30)%nat eqn:L30; [short_case L30|]. cbn [bind].
  rewrite (rd_skipn 30 2) by lia. cbn [Nat.add].
  destruct (length raw <? 32)%nat eqn:L32; [exact I|]. cbn [bind agree]. reflexivity.
Qed.

Lemma parse_chunk_leader_faithful raw :
  agree (fun z => z) (parse_chunk_leader raw) (spec_u64_at 0 raw).
Proof.
  unfold parse_chunk_leader, spec_u64_at. rewrite rd0 by lia. cbn [Nat.add].
  destruct (length raw <? 8)%nat; cbn [bind agree]; [exact I|reflexivity].
Qed.

Lemma parse_image_trailer_faithful raw :
  agree (fun z => z) (parse_image_trailer raw) (spec_u32_at 0 raw).
Proof.
  unfold parse_image_trailer, spec_u32_at. rewrite rd0 by lia. cbn [Nat.add].
  destruct (length raw <? 4)%nat; cbn [bind agree]; [exact I|reflexivity].
Qed.

Lemma parse_chunk_trailer_faithful raw :
  agree (fun z => z) (parse_chunk_trailer raw) (spec_u32_at 0 raw).
Proof.
  unfold parse_chunk_trailer, spec_u32_at. rewrite rd0 by lia. cbn [Nat.add].
  destruct (length raw <? 4)%nat; cbn [bind agree]; [exact I|reflexivity].
Qed.

Lemma parse_ext_trailer_faithful raw :
  agree (fun p => p) (parse_ext_trailer raw)
        (match spec_u32_at 0 raw, spec_u32_at 4 raw with Some h, Some c => Some (h, c) | _, _ => None end).
Proof.
  unfold parse_ext_trailer, spec_u32_at. rewrite rd0 by lia. cbn [Nat.add].
  destruct (length raw <? 4)%nat eqn:L4; cbn [bind agree].
  { exact I. }
  rewrite (rd_skipn 4 4) by lia. cbn [Nat.add].
  destruct (length raw <? 8)%nat; cbn [bind agree]; [exact I|reflexivity].
Qed.

(* ---- payload assembly --------------------------------------------------------------- *)

Lemma of_be_nonneg bs : bytes_ok bs -> 0 <= of_be bs.
Proof. intros H. unfold of_be. pose proof (of_le_bound (rev bs) (bytes_ok_rev _ H)). lia. Qed.

Lemma chunk_walk_sound fuel : forall buf off, bytes_ok buf -> 0 <= off <= zlen buf ->
  chunk_walk fuel buf off <> Panic /\
  (forall sz, chunk_walk fuel buf off = Ok sz -> 0 <= sz /\ sz + 8 <= off).
Proof.
  induction fuel as [|f IH]; intros buf off Hb Ho; cbn [chunk_walk].
  - split; [discriminate|intros sz H; discriminate].
  - destruct (off <? 4) eqn:E4; [split; [discriminate|intros sz H; discriminate]|].
    destruct (zlen buf <? off - 4 + 4) eqn:Eb; [lia|].
    set (ds := of_be (take 4 (drop (off - 4) buf))).
    assert (Hds : 0 <= ds).
    { subst ds. apply of_be_nonneg. apply bytes_ok_take, bytes_ok_drop, Hb. }
    destruct (off - 4 <? ds + 4) eqn:Ed; [split; [discriminate|intros sz H; discriminate]|].
    destruct (off - 4 - (ds + 4) =? 0) eqn:E0.
    + split; [discriminate|]. intros sz H; inversion H; subst. lia.
    + destruct (IH buf (off - 4 - (ds + 4)) Hb ltac:(lia)) as [Hnp Hok].
      split; [exact Hnp|]. intros sz H. specialize (Hok sz H). lia.
Qed.

Definition info_from (l : leader) (t : trailer) (p : payload) : Prop :=
  match p_info p with
  | None => l_type l <> 0 /\ l_type l <> 1 /\
            exists ts, parse_chunk_leader (l_raw l) = Ok ts /\ p_timestamp p = ts
  | Some ii =>
    exists il, parse_image_leader (l_raw l) = Ok il /\
      ii_width ii = il_width il /\ ii_xoff ii = il_xoff il /\ ii_yoff ii = il_yoff il /\
      ii_pf ii = il_pf il /\ p_timestamp p = il_timestamp il /\
      ((l_type l = 0 /\ parse_image_trailer (t_raw t) = Ok (ii_height ii)) \/
       (l_type l = 1 /\ exists c, parse_ext_trailer (t_raw t) = Ok (ii_height ii, c)))
  end.

Lemma stream_err_ok {A} (x : outcome A) a : stream_err x = Ok a -> x = Ok a.
Proof. destruct x; cbn; congruence. Qed.

Lemma build_sound l t buf rs p :
  bytes_ok buf -> 0 <= t_valid t -> rs <= zlen buf -> build l t buf rs = Ok p ->
  p_id p = l_block_id l /\ p_buf p = buf /\ p_valid p = t_valid t /\ t_status t = 0 /\
  (p_type p = l_type l \/ (p_type p = 2 /\ l_type l <> 0 /\ l_type l <> 1)) /\
  p_valid p <= rs /\
  (forall ii, p_info p = Some ii -> 0 <= ii_image_size ii <= p_valid p) /\
  info_from l t p /\
  view_image p <> Panic /\ view_payload p <> Panic.
Proof.
  intros Hb Hv Hrs. unfold build.
  destruct (negb (t_status t =? 0)) eqn:Es; [discriminate|].
  apply negb_false_iff, Z.eqb_eq in Es.
  destruct (rs <? t_valid t) eqn:Er; [discriminate|].
  destruct (l_type l =? 0) eqn:T0; [|destruct (l_type l =? 1) eqn:T1].
  - apply Z.eqb_eq in T0.
    destruct (stream_err (parse_image_leader (l_raw l))) as [il| |] eqn:E1; cbn [bind]; try discriminate.
    destruct (stream_err (parse_image_trailer (t_raw t))) as [h| |] eqn:E2; cbn [bind]; try discriminate.
    intros H; inversion H; subst p; clear H.
    apply stream_err_ok in E1. apply stream_err_ok in E2.
    cbn [p_id p_buf p_valid p_type p_info].
    split; [reflexivity|]. split; [reflexivity|]. split; [reflexivity|]. split; [exact Es|].
    split; [left; now rewrite T0|]. split; [lia|].
    split; [intros ii Hii; inversion Hii; subst; cbn [ii_image_size]; lia|].
    split.
    { unfold info_from. cbn [p_info p_timestamp ii_width ii_xoff ii_yoff ii_pf ii_height].
      exists il. repeat split; auto. }
    split.
    { unfold view_image, slice_to. cbn [p_info p_buf ii_image_size].
      destruct (zlen buf <? t_valid t) eqn:E; [lia|]. cbn [omap]. discriminate. }
    unfold view_payload, slice_to. cbn [p_buf p_valid].
    destruct (zlen buf <? t_valid t) eqn:E; [lia|]. discriminate.
  - apply Z.eqb_eq in T1.
    destruct (stream_err (parse_image_leader (l_raw l))) as [il| |] eqn:E1; cbn [bind]; try discriminate.
    destruct (stream_err (parse_ext_trailer (t_raw t))) as [hc| |] eqn:E2; cbn [bind]; try discriminate.
    destruct (chunk_walk _ buf (t_valid t)) as [isz| |] eqn:E3; cbn [bind]; try discriminate.
    intros H; inversion H; subst p; clear H.
    apply stream_err_ok in E1. apply stream_err_ok in E2.
    destruct (chunk_walk_sound (S (Z.to_nat (t_valid t / 8))) buf (t_valid t) Hb ltac:(lia)) as [_ Hok].
    specialize (Hok isz E3).
    cbn [p_id p_buf p_valid p_type p_info].
    split; [reflexivity|]. split; [reflexivity|]. split; [reflexivity|]. split; [exact Es|].
    split; [left; now rewrite T1|]. split; [lia|].
    split; [intros ii Hii; inversion Hii; subst; cbn [ii_image_size]; lia|].
    split.
    { unfold info_from. cbn [p_info p_timestamp ii_width ii_xoff ii_yoff ii_pf ii_height].
      exists il. repeat split; auto. right. split; auto. exists (snd hc). now destruct hc. }
    split.
    { unfold view_image, slice_to. cbn [p_info p_buf ii_image_size].
      destruct (zlen buf <? isz) eqn:E; [lia|]. cbn [omap]. discriminate. }
    unfold view_payload, slice_to. cbn [p_buf p_valid].
    destruct (zlen buf <? t_valid t) eqn:E; [lia|]. discriminate.
  - apply Z.eqb_neq in T0. apply Z.eqb_neq in T1.
    destruct (stream_err (parse_chunk_leader (l_raw l))) as [ts| |] eqn:E1; cbn [bind]; try discriminate.
    destruct (stream_err (parse_chunk_trailer (t_raw t))) as [cl| |] eqn:E2; cbn [bind]; try discriminate.
    intros H; inversion H; subst p; clear H.
    apply stream_err_ok in E1.
    cbn [p_id p_buf p_valid p_type p_info].
    split; [reflexivity|]. split; [reflexivity|]. split; [reflexivity|]. split; [exact Es|].
    split; [right; auto|]. split; [lia|].
    split; [intros ii Hii; discriminate|].
    split.
    { unfold info_from. cbn [p_info p_timestamp]. repeat split; auto. exists ts. auto. }
    split.
    { unfold view_image. cbn [p_info]. discriminate. }
    unfold view_payload, slice_to. cbn [p_buf p_valid].
    destruct (zlen buf <? t_valid t) eqn:E; [lia|]. discriminate.
Qed.

Lemma stream_err_no_panic {A} (x : outcome A) : x <> Panic -> stream_err x <> Panic.
Proof. destruct x; cbn; congruence. Qed.

Lemma rd_bind_no_panic {A} n bs (k : Z * list Z -> outcome A) :
  (forall v, k v <> Panic) -> bind (rd n bs) k <> Panic.
Proof. intros H. unfold rd. destruct (length bs <? n)%nat; cbn [bind]; [discriminate|apply H]. Qed.

Lemma parse_image_leader_no_panic raw : parse_image_leader raw <> Panic.
Proof.
  unfold parse_image_leader.
  apply rd_bind_no_panic; intros [ts r1]. apply rd_bind_no_panic; intros [pfc r2].
  unfold pf_of_code. destruct (lookup pfc code_to_pf); cbn [bind]; [|discriminate].
  repeat (apply rd_bind_no_panic; intros [? ?]). discriminate.
Qed.

Lemma build_no_panic l t buf rs :
  bytes_ok buf -> 0 <= t_valid t -> rs <= zlen buf -> build l t buf rs <> Panic.
Proof.
  intros Hb Hv Hrs. unfold build.
  destruct (negb (t_status t =? 0)); [discriminate|].
  destruct (rs <? t_valid t) eqn:Er; [discriminate|].
  pose proof (parse_image_leader_no_panic (l_raw l)) as Hil.
  destruct (l_type l =? 0); [|destruct (l_type l =? 1)].
  - destruct (parse_image_leader (l_raw l)); cbn [stream_err bind]; try congruence.
    unfold parse_image_trailer, rd. destruct (length _ <? 4)%nat; cbn; discriminate.
  - destruct (parse_image_leader (l_raw l)); cbn [stream_err bind]; try congruence.
    unfold parse_ext_trailer, rd. destruct (length (t_raw t) <? 4)%nat; cbn [bind stream_err]; try discriminate.
    destruct (length (skipn 4 (t_raw t)) <? 4)%nat; cbn [bind stream_err]; try discriminate.
    destruct (chunk_walk_sound (S (Z.to_nat (t_valid t / 8))) buf (t_valid t) Hb ltac:(lia)) as [Hnp _].
    destruct (chunk_walk _ buf (t_valid t)); cbn [bind]; congruence.
  - unfold parse_chunk_leader, parse_chunk_trailer, rd.
    destruct (length (l_raw l) <? 8)%nat; cbn [bind stream_err]; try discriminate.
    destruct (length (t_raw t) <? 4)%nat; cbn [bind stream_err]; discriminate.
Qed.
