(* C06, the session around the transactions: ControlHandle::open on a conforming device negotiates
   exactly the limits the device advertises in its SBRM (maximum command / acknowledge transfer
   length), caches the ABRM capability, leaves the device memory alone, and yields a state in which
   the read / write theorems of P_C14b (read_memory, write_memory) apply; a failing open, a closed
   handle and a limit too small for any command are refused before anything is put on the wire.
   Uses ctl_read_exact (P_C06), segs_sep / seg_read_range_in (P_C14b) and the runs_to combinators of
   P_C15c. *)
From Cam Require Import Outcome Bytes Chunks Cmd Ack CmdLayout Control ManifestSpec P_C09 P_C06 P_C07 P_C14b
  P_C15 P_C15b P_C15c.

(* a conforming state as far as DeviceControl::read is concerned: like good_conf (P_C14b), but
   nothing is asked of the register caches (open starts with all of them empty) *)
Definition rd_conf (s : st) : Prop :=
  let '(c, w) := s in
  c_opened c = true /\ 12 < c_max_ack c < 2 ^ 32 /\ 24 <= c_max_cmd c /\ 0 <= c_next c < 2 ^ 16 /\
  1 <= c_retry c /\ conf (c_retry c) w /\ segs_sep (w_segs w).

(* every field of the handle except the request id and the packet-buffer length *)
Definition same_cfg (k c : ctl) : Prop :=
  c_opened c = c_opened k /\ c_retry c = c_retry k /\ c_max_cmd c = c_max_cmd k /\ c_max_ack c = c_max_ack k /\
  c_abrm c = c_abrm k /\ c_sbrm c = c_sbrm k /\ c_sirm c = c_sirm k.

Lemma same_cfg_refl c : same_cfg c c.
Proof. unfold same_cfg. auto 10. Qed.

Definition atc (segs : list (Z * list Z)) (l0 : list wev) (k : ctl) (s : st) : Prop :=
  rd_conf s /\ w_segs (snd s) = segs /\ same_cfg k (fst s) /\ w_open_err (snd s) = None /\
  exists evs, w_log (snd s) = evs ++ l0.

Lemma good_conf_rd c w : good_conf (c, w) -> rd_conf (c, w).
Proof. intros ((Ho & Hma & Hid & Hab & Hw & Hsep) & Hmc & HR & Hc). unfold rd_conf. auto 10. Qed.

Lemma rd_conf_good c w : rd_conf (c, w) -> c_abrm c <> None -> good_conf (c, w).
Proof.
  intros (Ho & Hma & Hmc & Hid & HR & Hc & Hsep) Hab. unfold good_conf, good_honest.
  repeat split; try assumption; try lia. eapply conf_whonest. exact Hc.
Qed.

(* one register read: n > 0 bytes inside the device memory *)
Lemma rd_read c w a n d : rd_conf (c, w) -> 0 < n -> mem_read (w_segs w) a n = Some d ->
  exists c' w', ctl_read a n (c, w) = (Ok d, (c', w')) /\ rd_conf (c', w') /\ w_segs w' = w_segs w /\
                same_cfg c c' /\ w_open_err w' = w_open_err w /\ exists evs, w_log w' = evs ++ w_log w.
Proof.
  intros (Ho & Hma & Hmc & Hid & HR & Hc & Hsep) Hn Hm.
  unfold mem_read in Hm. destruct ((a <? 0) || (2 ^ 64 <? a + n)) eqn:EV; [discriminate|].
  apply orb_false_iff in EV as [EV1 EV2]. apply Z.ltb_ge in EV1, EV2.
  destruct (n <=? 0) eqn:N0; [lia|].
  destruct (seg_read_range_in _ Hsep _ _ _ Hn Hm) as (pre & b & m & post & Hri & Hd & _ & _).
  destruct (ctl_read_exact c w a n pre b m post Ho Hma Hmc Hid HR Hc Hri EV1 EV2)
    as (c' & w' & Hrun & S & _ & Hoe & Hc' & Hst & (evs & Hlog & _)).
  destruct Hst as (S1 & S2 & S3 & S4 & S5 & _ & S7 & S8 & S9).
  exists c', w'. split; [rewrite Hrun, Hd; reflexivity|].
  split.
  { unfold rd_conf. rewrite S1, S5, S4, S3, S2, S. repeat split; try assumption; try apply wrapu16_range; try lia. }
  split; [exact S|]. split; [unfold same_cfg; auto 10|]. split; [exact Hoe|exists evs; exact Hlog].
Qed.

Lemma rtc_read segs l0 k a n d : 0 < n -> mem_read segs a n = Some d ->
  runs_to (atc segs l0 k) (read_reg a n) (fun r s => r = Ok (of_le d) /\ atc segs l0 k s).
Proof.
  intros Hn Hm [c w] (G & S & K & E & (ev0 & L)). cbn [fst snd] in *.
  destruct (rd_read c w a n d G Hn) as (c' & w' & Hrun & G' & S' & K' & E' & (ev1 & L')); [rewrite S; exact Hm|].
  exists (Ok (of_le d)), (c', w'). split; [unfold read_reg, bindM; rewrite Hrun; reflexivity|].
  split; [reflexivity|]. split; [exact G'|]. cbn [fst snd]. split; [congruence|].
  split; [unfold same_cfg in *; intuition congruence|]. split; [congruence|].
  exists (ev1 ++ ev0). rewrite L', L, app_assoc. reflexivity.
Qed.

Lemma rtc_field segs l0 k a (n : nat) v : (0 < n)%nat -> u_field segs a n v ->
  runs_to (atc segs l0 k) (read_reg a (Z.of_nat n)) (fun r s => r = Ok v /\ atc segs l0 k s).
Proof.
  intros Hn [Hv Hm]. assert (Hn' : 0 < Z.of_nat n) by lia.
  eapply rt_conseq; [apply (rtc_read segs l0 k _ _ _ Hn' Hm)|auto|].
  intros r s [-> Hs]. split; [|exact Hs]. rewrite of_le_le_bytes by exact Hv. reflexivity.
Qed.

(* ---- open ------------------------------------------------------------------------------------------- *)

Definition set_abrm (c : ctl) (x : option Z) : ctl :=
  {| c_opened := c_opened c; c_next := c_next c; c_retry := c_retry c; c_max_cmd := c_max_cmd c;
     c_max_ack := c_max_ack c; c_buflen := c_buflen c; c_abrm := x; c_sbrm := c_sbrm c; c_sirm := c_sirm c |}.

Definition set_limits (c : ctl) (mc ma : Z) : ctl :=
  {| c_opened := c_opened c; c_next := c_next c; c_retry := c_retry c; c_max_cmd := mc;
     c_max_ack := ma; c_buflen := c_buflen c; c_abrm := c_abrm c; c_sbrm := c_sbrm c; c_sirm := c_sirm c |}.

Definition set_opened (c : ctl) (b : bool) : ctl :=
  {| c_opened := b; c_next := c_next c; c_retry := c_retry c; c_max_cmd := c_max_cmd c;
     c_max_ack := c_max_ack c; c_buflen := c_buflen c; c_abrm := c_abrm c; c_sbrm := c_sbrm c; c_sirm := c_sirm c |}.

Section Open.
Variable segs : list (Z * list Z).
Variables cap sb ucap rtime mc ma : Z.
Variable l0 : list wev.
Hypothesis Hcap : u_field segs 452 8 cap.
Hypothesis Hsb : u_field segs 472 8 sb.
Hypothesis Hsb64 : sb + 24 < 2 ^ 64.
Hypothesis Hucap : u_field segs (sb + 4) 8 ucap.
Hypothesis Hrt : u_field segs 460 4 rtime.
Hypothesis Hmc : u_field segs (sb + 20) 4 mc.
Hypothesis Hma : u_field segs (sb + 24) 4 ma.

(* the ABRM capability the handle knows after h_abrm: the cached one, else the register *)
Definition abrm_after (k : ctl) : option Z := match c_abrm k with Some x => Some x | None => Some cap end.

Lemma rtc_h_abrm k :
  runs_to (atc segs l0 k) h_abrm (fun r s => (exists v, r = Ok v) /\ atc segs l0 (set_abrm k (abrm_after k)) s).
Proof.
  unfold h_abrm.
  intros [c w] G. pose proof G as (_ & _ & K & _). cbn [fst] in K.
  unfold bindM at 1, get_ctl. cbn [fst].
  destruct K as (K1 & K2 & K3 & K4 & K5 & K6 & K7).
  destruct (c_abrm c) as [x|] eqn:Eab.
  - exists (Ok x), (c, w). split; [reflexivity|]. split; [exists x; reflexivity|].
    destruct G as (G & S & _ & E). split; [exact G|]. split; [exact S|]. split; [|exact E].
    unfold same_cfg, set_abrm, abrm_after. cbn. rewrite <- K5. rewrite Eab. auto 10.
  - assert (R : runs_to (atc segs l0 k)
                  (do cap0 <- read_reg 452 8;
                   do _ <- upd_ctl (fun c0 => {| c_opened := c_opened c0; c_next := c_next c0; c_retry := c_retry c0;
                                                  c_max_cmd := c_max_cmd c0; c_max_ack := c_max_ack c0;
                                                  c_buflen := c_buflen c0; c_abrm := Some cap0;
                                                  c_sbrm := c_sbrm c0; c_sirm := c_sirm c0 |});
                   ret cap0)
                  (fun r s => r = Ok cap /\ atc segs l0 (set_abrm k (Some cap)) s)).
    { eapply rt_bind; [apply (rtc_field segs l0 k 452 8 cap ltac:(lia) Hcap)|].
      intros [c1 w1] (G1 & S1 & K' & E1). cbn [fst snd] in *.
      eexists; eexists. split; [reflexivity|]. split; [reflexivity|].
      split; [exact G1|]. split; [exact S1|]. split; [|exact E1].
      unfold same_cfg, set_abrm in *. cbn. intuition congruence. }
    destruct (R (c, w) G) as (r & s' & Hrun & -> & G').
    exists (Ok cap), s'. split; [exact Hrun|]. split; [exists cap; reflexivity|].
    unfold abrm_after. rewrite <- K5. exact G'.
Qed.

Lemma rtc_abrm_sbrm k : runs_to (atc segs l0 k) abrm_sbrm (fun r s => r = Ok (sb, ucap) /\ atc segs l0 k s).
Proof.
  unfold abrm_sbrm.
  eapply rt_bind; [apply (rtc_field segs l0 k 472 8 sb ltac:(lia) Hsb)|].
  eapply rt_bind; [apply rt_reg_addr; lia|].
  eapply rt_bind; [apply (rtc_field segs l0 k (sb + 4) 8 ucap ltac:(lia) Hucap)|].
  apply rt_ret.
Qed.

Lemma rtc_initialize_config k : 12 < ma < 2 ^ 32 -> 24 <= mc ->
  runs_to (atc segs l0 k) initialize_config
          (fun r s => r = Ok tt /\ atc segs l0 (set_limits (set_abrm k (abrm_after k)) mc ma) s).
Proof.
  intros Hma' Hmc'. unfold initialize_config.
  eapply rt_bind_any; [apply rtc_h_abrm|]. intros _.
  eapply rt_bind; [apply rtc_abrm_sbrm|].
  eapply rt_bind; [apply (rtc_field segs l0 _ 460 4 rtime ltac:(lia) Hrt)|]. cbn [fst].
  eapply rt_bind; [apply rt_reg_addr; lia|].
  eapply rt_bind; [apply (rtc_field segs l0 _ (sb + 20) 4 mc ltac:(lia) Hmc)|].
  eapply rt_bind; [apply rt_reg_addr; lia|].
  eapply rt_bind; [apply (rtc_field segs l0 _ (sb + 24) 4 ma ltac:(lia) Hma)|].
  intros [c w] (G & S & K & E). cbn [fst snd] in *.
  eexists; eexists. split; [reflexivity|]. split; [reflexivity|].
  destruct G as (Ho & _ & _ & Hid & HR & Hc & Hsep).
  split.
  { unfold rd_conf. cbn. repeat split; try assumption; try lia. }
  cbn [fst snd]. split; [exact S|]. split; [|exact E].
  unfold same_cfg, set_limits, set_abrm in *. cbn in *. intuition congruence.
Qed.

End Open.

(* open on a closed handle: the device is opened, its halts cleared, the limits negotiated *)
Theorem open_negotiates c w cap sb ucap rtime mc ma :
  let segs := w_segs w in
  u_field segs 452 8 cap -> u_field segs 472 8 sb -> sb + 24 < 2 ^ 64 -> u_field segs (sb + 4) 8 ucap ->
  u_field segs 460 4 rtime -> u_field segs (sb + 20) 4 mc -> u_field segs (sb + 24) 4 ma ->
  c_opened c = false -> 12 < c_max_ack c < 2 ^ 32 -> 24 <= c_max_cmd c -> 0 <= c_next c < 2 ^ 16 ->
  1 <= c_retry c -> conf (c_retry c) w -> segs_sep segs -> w_open_err w = None ->
  12 < ma < 2 ^ 32 -> 24 <= mc ->
  exists c' w',
    ctl_open (c, w) = (Ok tt, (c', w')) /\
    c_opened c' = true /\ c_max_cmd c' = mc /\ c_max_ack c' = ma /\ c_retry c' = c_retry c /\
    c_abrm c' = abrm_after cap c /\ c_sbrm c' = c_sbrm c /\ c_sirm c' = c_sirm c /\
    w_segs w' = segs /\ good_conf (c', w') /\
    exists evs, w_log w' = evs ++ [WClearHalt; WSetHalt; WOpen] ++ w_log w.
Proof.
  intros segs Hcap Hsb Hsb64 Hucap Hrt Hmc Hma Ho Hack Hcmd Hid HR Hc Hsep E Hma' Hmc'.
  unfold ctl_open. unfold bindM at 1, get_ctl. cbn [fst]. rewrite Ho.
  unfold bindM at 1, w_ev. cbn [fst snd].
  replace (w_open_err (w_logev w WOpen)) with (@None Z) by (destruct w; cbn in *; congruence).
  unfold bindM at 1, upd_ctl. cbn [fst snd].
  unfold bindM at 1. cbn [fst snd]. unfold bindM at 1. cbn [fst snd].
  set (c1 := {| c_opened := true; c_next := c_next c; c_retry := c_retry c; c_max_cmd := c_max_cmd c;
                c_max_ack := c_max_ack c; c_buflen := c_buflen c; c_abrm := c_abrm c; c_sbrm := c_sbrm c;
                c_sirm := c_sirm c |}).
  set (w1 := w_logev (w_logev (w_logev w WOpen) WSetHalt) WClearHalt).
  assert (G1 : atc segs (w_log w1) c1 (c1, w1)).
  { unfold atc, rd_conf. cbn [fst snd]. subst c1 w1 segs. destruct w; cbn in *.
    repeat split; try assumption; try lia; try congruence. exists []. reflexivity. }
  destruct (rtc_initialize_config segs cap sb ucap rtime mc ma (w_log w1) Hcap Hsb Hsb64 Hucap Hrt Hmc Hma
              c1 Hma' Hmc' (c1, w1) G1) as (r & [c' w'] & Hrun & -> & G' & S' & K' & E' & (evs & L')).
  cbn [fst snd] in *.
  exists c', w'. split; [exact Hrun|].
  destruct K' as (K1 & K2 & K3 & K4 & K5 & K6 & K7). unfold set_limits, set_abrm in *. cbn in *.
  split; [exact K1|]. split; [exact K3|]. split; [exact K4|]. split; [exact K2|].
  split; [exact K5|]. split; [exact K6|]. split; [exact K7|]. split; [exact S'|].
  split.
  - apply rd_conf_good; [exact G'|]. rewrite K5. unfold abrm_after. subst c1. cbn [c_abrm].
    destruct (c_abrm c); discriminate.
  - exists evs. rewrite L'. reflexivity.
Qed.

(* a failing open leaves the handle closed and starts no transaction *)
Lemma open_fails c w e : c_opened c = false -> w_open_err w = Some e ->
  ctl_open (c, w) = (Err (ce_of_usb e), (c, w_logev w WOpen)).
Proof.
  intros Ho E. unfold ctl_open. unfold bindM at 1, get_ctl. cbn [fst]. rewrite Ho.
  unfold bindM at 1, w_ev. cbn [fst snd].
  replace (w_open_err (w_logev w WOpen)) with (Some e) by (destruct w; cbn in *; congruence).
  reflexivity.
Qed.

(* an opened handle: open does nothing *)
Lemma open_idempotent c w : c_opened c = true -> ctl_open (c, w) = (Ok tt, (c, w)).
Proof. intros Ho. unfold ctl_open. unfold bindM at 1, get_ctl. cbn [fst]. rewrite Ho. reflexivity. Qed.

(* a closed handle: read and write are refused, nothing is sent *)
Lemma closed_read c w a n : c_opened c = false -> ctl_read a n (c, w) = (Err CE_NOT_OPENED, (c, w)).
Proof. intros Ho. unfold ctl_read. unfold bindM at 1, assert_open. cbn [fst]. rewrite Ho. reflexivity. Qed.

Lemma closed_write c w a d : c_opened c = false -> ctl_write a d (c, w) = (Err CE_NOT_OPENED, (c, w)).
Proof. intros Ho. unfold ctl_write. unfold bindM at 1, assert_open. cbn [fst]. rewrite Ho. reflexivity. Qed.

(* the whole session: open, then any read inside the device memory returns the memory *)
Theorem session_read c w cap sb ucap rtime mc ma a n d :
  let segs := w_segs w in
  u_field segs 452 8 cap -> u_field segs 472 8 sb -> sb + 24 < 2 ^ 64 -> u_field segs (sb + 4) 8 ucap ->
  u_field segs 460 4 rtime -> u_field segs (sb + 20) 4 mc -> u_field segs (sb + 24) 4 ma ->
  c_opened c = false -> 12 < c_max_ack c < 2 ^ 32 -> 24 <= c_max_cmd c -> 0 <= c_next c < 2 ^ 16 ->
  1 <= c_retry c -> conf (c_retry c) w -> segs_sep segs -> w_open_err w = None ->
  12 < ma < 2 ^ 32 -> 24 <= mc ->
  mem_read segs a n = Some d ->
  exists s1 s2, ctl_open (c, w) = (Ok tt, s1) /\ ctl_read a n s1 = (Ok d, s2) /\ w_segs (snd s2) = segs.
Proof.
  intros segs Hcap Hsb Hsb64 Hucap Hrt Hmc Hma Ho Hack Hcmd Hid HR Hc Hsep E Hma' Hmc' Hm.
  destruct (open_negotiates c w cap sb ucap rtime mc ma Hcap Hsb Hsb64 Hucap Hrt Hmc Hma Ho Hack Hcmd Hid HR Hc
              Hsep E Hma' Hmc') as (c' & w' & Hrun & _ & _ & _ & _ & _ & _ & _ & S & G & _).
  destruct (read_memory c' w' a n d G) as (c2 & w2 & Hr & S2 & _); [rewrite S; exact Hm|].
  exists (c', w'), (c2, w2). cbn [snd]. split; [exact Hrun|]. split; [exact Hr|rewrite S2; exact S].
Qed.

(* a negotiated command limit too small for a ReadMem command (24 bytes): refused, nothing sent *)
Lemma small_limit_read c w a n : c_opened c = true -> 12 < c_max_ack c < 2 ^ 32 -> c_max_cmd c < 24 ->
  0 <= a -> a + n <= 2 ^ 64 -> 0 < n ->
  ctl_read a n (c, w) = (Err CE_INVALID_DEVICE, (c, w)).
Proof.
  intros Ho Hma Hmc EV1 EV2 Hn.
  unfold ctl_read. unfold bindM at 1. unfold assert_open. cbn [fst]. rewrite Ho.
  unfold bindM at 1. unfold verify_range.
  destruct (a <? 0) eqn:A0; [lia|]. destruct (2 ^ 64 <? a + n) eqn:A1; [lia|]. cbn [orb].
  unfold ret at 1. unfold bindM at 1. unfold get_ctl. cbn [fst].
  unfold bindM at 1. unfold lift at 1. unfold read_chunks_init.
  destruct (c_max_ack c <=? ACK_HEADER_LENGTH) eqn:E12; [unfold ACK_HEADER_LENGTH in E12; lia|].
  unfold bindM at 1. unfold lift at 1. unfold maximum_read_length, chk_u, in_u, ACK_HEADER_LENGTH.
  destruct (0 <=? c_max_ack c - 12) eqn:E1; [|lia].
  destruct (c_max_ack c - 12 <? 2 ^ 64) eqn:E2;
    [|change (2 ^ 64) with 18446744073709551616 in E2; change (2 ^ 32) with 4294967296 in Hma; lia].
  cbn [andb bind]. fold (read_chunk (c_max_ack c)).
  destruct (read_chunk (c_max_ack c) =? 0) eqn:E0.
  { unfold read_chunk in E0. destruct (c_max_ack c - 12 <? 2 ^ 16); lia. }
  cbn [read_loop]. destruct (n <=? 0) eqn:N1; [lia|].
  unfold bindM at 1. unfold send_cmd.
  change (cmd_len (CRead a (Z.min (read_chunk (c_max_ack c)) n))) with 24.
  destruct (c_max_cmd c <? 24) eqn:EC; [reflexivity|lia].
Qed.

(* ---- the hypotheses of open_negotiates are satisfiable ------------------------------------------------ *)
Definition ex_open_abrm : list Z := set_at 472 (repeat 0 480) (le_bytes 8 65536).
Definition ex_open_sbrm : list Z := set_at 24 (set_at 20 (repeat 0 64) (le_bytes 4 1024)) (le_bytes 4 512).
Definition ex_open_world : world :=
  {| w_segs := [(0, ex_open_abrm); (65536, ex_open_sbrm)]; w_plans := []; w_replies := []; w_cur_ack := [];
     w_cur_rid := 0; w_log := []; w_open_err := None; w_writes := [] |}.

Example open_example :
  exists c' w', ctl_open (ctl_init, ex_open_world) = (Ok tt, (c', w')) /\ c_max_cmd c' = 1024 /\ c_max_ack c' = 512 /\
                good_conf (c', w').
Proof.
  assert (Z1 : zlen ex_open_abrm = 480) by (vm_compute; reflexivity).
  assert (Z2 : zlen ex_open_sbrm = 64) by (vm_compute; reflexivity).
  assert (Hsep : segs_sep (w_segs ex_open_world)).
  { cbn [ex_open_world w_segs segs_sep]. rewrite Z1, Z2.
    split; [lia|]. split; [lia|]. split.
    - apply Forall_cons; [|apply Forall_nil]. unfold seg_apart. cbn [fst snd]. rewrite Z1, Z2. lia.
    - split; [lia|]. split; [lia|]. split; [apply Forall_nil|exact I]. }
  destruct (open_negotiates ctl_init ex_open_world 0 65536 0 0 1024 512) as (c' & w' & Hrun & _ & M1 & M2 & _ & _ & _ & _ & _ & G & _);
    try (split; [lia|vm_compute; reflexivity]); try (cbn; lia); try reflexivity; try exact Hsep.
  - apply Forall_nil.
  - exists c', w'. auto.
Qed.
