(* The translation of the bit-level decoders of cameleon/src/u3v/register_map.rs (gen/DecodersSrc.v, regenerated from the
   source on every run by tools/translate_decoders.py with the debug-build semantics of lib/RustInt.v) is the
   hand-written model model/RegMap.v: [decode] on the register word, [bit_set] / [cfg_*] / the capability observers,
   [reg_address].  Every statement is for ALL values of the parameter (in particular every value of the Rust type);
   the only place where the range of the type matters is `1 << exp` of payload_size_alignment.

   The proofs only unfold the translated function and evaluate the binds ([src_eval]): they do not depend on the names
   of the locals, on the order of independent lets, or on how a literal is written. *)
From Cam Require Import Outcome Bytes Mem RustInt U3VTables RegTables RegMap P_C13 DecodersSrc.

Definition u32 (w : Z) : Prop := 0 <= w < 2 ^ 32.
Definition u64 (w : Z) : Prop := 0 <= w < 2 ^ 64.

(* ---- the operations with literal / in-range shift amounts ---------------------------------------------------------- *)
Lemma r_shr_lit w a s : shift_ok w s = true -> r_shr w a s = Ok (Z.shiftr a s).
Proof. intros H. unfold r_shr. rewrite H. reflexivity. Qed.
Lemma r_shl_lit w a s : shift_ok w s = true -> r_shl w a s = Ok ((a * 2 ^ s) mod 2 ^ w).
Proof. intros H. unfold r_shl. rewrite H. reflexivity. Qed.
Lemma shift_ok_in w s : 0 <= s < w -> shift_ok w s = true.
Proof. intros H. unfold shift_ok. destruct (0 <=? s) eqn:A; destruct (s <? w) eqn:B; try lia; reflexivity. Qed.

Ltac src_eval := repeat (cbn [bind] || rewrite r_shr_lit by reflexivity || rewrite r_shl_lit by reflexivity).

(* `1 & x`, `1 == y` written the other way round *)
Ltac lit_right := repeat match goal with
  | |- context [Z.land (Zpos ?p) ?x] =>
    lazymatch x with Zpos _ => fail | Z0 => fail | _ => rewrite (Z.land_comm (Zpos p) x) end
  | |- context [Z.eqb (Zpos ?p) ?x] =>
    lazymatch x with Zpos _ => fail | Z0 => fail | _ => rewrite (Z.eqb_sym (Zpos p) x) end
  end.

(* all comparisons of the goal, whichever way the source writes them *)
Ltac cmp_cases := repeat match goal with
  | |- context [?a >=? ?b] => rewrite (Z.geb_leb a b)
  | |- context [?a >? ?b] => rewrite (Z.gtb_ltb a b)
  | |- context [?a <=? ?b] => let C := fresh "C" in destruct (a <=? b) eqn:C; [apply Z.leb_le in C | apply Z.leb_gt in C]
  | |- context [?a <? ?b] => let C := fresh "C" in destruct (a <? b) eqn:C; [apply Z.ltb_lt in C | apply Z.ltb_ge in C]
  end.

(* how a translated result is read as a [val] of the model *)
Definition ver_val (x : outcome (Z * Z * Z)) : outcome val := let? (a, b, c) := x in Ok (VVer a b c).

(* ---- Abrm::gencp_version, Sbrm::u3v_version ------------------------------------------------------------------------ *)
Lemma gencp_version_src w : src_gencp_version w = Ok (Z.land (Z.shiftr w 16) 65535, Z.land w 65535, 0).
Proof. unfold src_gencp_version. src_eval. lit_right. reflexivity. Qed.
Lemma u3v_version_src w : src_u3v_version w = Ok (Z.land (Z.shiftr w 16) 65535, Z.land w 65535, 0).
Proof. unfold src_u3v_version. src_eval. lit_right. reflexivity. Qed.

Lemma version32_from_source :
  (forall w, src_gencp_version w = Ok (Z.land (Z.shiftr w 16) 65535, Z.land w 65535, 0)) /\
  (forall w, src_u3v_version w = Ok (Z.land (Z.shiftr w 16) 65535, Z.land w 65535, 0)) /\
  (forall bs, decode DVer32 bs = let? w := parse_uint 4 bs in ver_val (src_gencp_version w)) /\
  (forall bs, decode DVer32 bs = let? w := parse_uint 4 bs in ver_val (src_u3v_version w)).
Proof.
  split; [exact gencp_version_src|]. split; [exact u3v_version_src|]. split; intros bs; unfold decode;
    destruct (parse_uint 4 bs); cbn [bind]; rewrite ?gencp_version_src, ?u3v_version_src; reflexivity.
Qed.

(* ---- ManifestEntry::genicam_file_version ---------------------------------------------------------------------------- *)
Lemma genicam_file_version_src w :
  src_genicam_file_version w = Ok (Z.land (Z.shiftr w 24) 255, Z.land (Z.shiftr w 16) 255, Z.land w 65535).
Proof. unfold src_genicam_file_version. src_eval. lit_right. reflexivity. Qed.

Lemma file_version_from_source :
  (forall w, src_genicam_file_version w = Ok (Z.land (Z.shiftr w 24) 255, Z.land (Z.shiftr w 16) 255, Z.land w 65535)) /\
  (forall bs, decode DFileVer bs = let? w := parse_uint 4 bs in ver_val (src_genicam_file_version w)).
Proof.
  split; [exact genicam_file_version_src|]. intros bs. unfold decode.
  destruct (parse_uint 4 bs); cbn [bind]; rewrite ?genicam_file_version_src; reflexivity.
Qed.

(* ---- Sirm::payload_size_alignment ------------------------------------------------------------------------------------ *)
Lemma payload_size_alignment_src w : u32 w ->
  src_payload_size_alignment w =
    (if 32 <=? Z.shiftr w 24 then Err CE_INVALID_DEVICE else Ok (Z.shiftl 1 (Z.shiftr w 24))).
Proof.
  intros [H0 H1]. unfold src_payload_size_alignment. src_eval.
  assert (N : 0 <= Z.shiftr w 24) by (apply Z.shiftr_nonneg; exact H0).
  set (e := Z.shiftr w 24) in *. cmp_cases; try lia; try reflexivity.
  all: rewrite r_shl_lit by (apply shift_ok_in; lia); rewrite Z.shiftl_mul_pow2 by exact N; f_equal; apply Z.mod_small;
    assert (P : 0 < 2 ^ e) by (apply Z.pow_pos_nonneg; lia);
    assert (Q : 2 ^ e < 2 ^ 64) by (apply Z.pow_lt_mono_r; lia); lia.
Qed.

Lemma alignment_from_source :
  (forall w, u32 w -> src_payload_size_alignment w =
     (if 32 <=? Z.shiftr w 24 then Err CE_INVALID_DEVICE else Ok (Z.shiftl 1 (Z.shiftr w 24)))) /\
  (forall bs w, parse_uint 4 bs = Ok w -> u32 w -> decode DAlign bs = omap VInt (src_payload_size_alignment w)) /\
  (forall bs, bytes_ok bs -> decode DAlign bs = let? w := parse_uint 4 bs in omap VInt (src_payload_size_alignment w)).
Proof.
  split; [exact payload_size_alignment_src|].
  assert (A : forall bs w, parse_uint 4 bs = Ok w -> u32 w -> decode DAlign bs = omap VInt (src_payload_size_alignment w)).
  { intros bs w P U. unfold decode. rewrite P. cbn [bind]. rewrite (payload_size_alignment_src w U).
    destruct (32 <=? Z.shiftr w 24); reflexivity. }
  split; [exact A|]. intros bs B. destruct (parse_uint 4 bs) as [w| |] eqn:P; cbn [bind].
  - apply A; [exact P|]. unfold parse_uint in P. destruct (zlen bs =? 4) eqn:L; [|discriminate].
    apply Ok_inj in P. subst w. apply Z.eqb_eq in L. unfold u32. change (2 ^ 32) with 4294967296.
    apply of_le_u32; assumption.
  - unfold decode. rewrite P. reflexivity.
  - unfold decode. rewrite P. reflexivity.
Qed.

(* ---- Sirm::is_stream_enable ------------------------------------------------------------------------------------------ *)
Lemma is_stream_enable_src w : src_is_stream_enable w = Ok (Z.land w 1 =? 1).
Proof. unfold src_is_stream_enable. src_eval. lit_right. reflexivity. Qed.

Lemma stream_enable_from_source :
  (forall w, src_is_stream_enable w = Ok (Z.land w 1 =? 1)) /\
  (forall bs, decode DBool0 bs = let? w := parse_uint 4 bs in omap VBool (src_is_stream_enable w)).
Proof.
  split; [exact is_stream_enable_src|]. intros bs. unfold decode.
  destruct (parse_uint 4 bs); cbn [bind]; rewrite ?is_stream_enable_src; reflexivity.
Qed.

(* ---- GenICamFileInfo::{file_type, compression_type, schema_version} -------------------------------------------------- *)
Lemma file_type_src w : src_file_type w = enum2 (Z.land w 7).
Proof. unfold src_file_type, enum2. src_eval. lit_right. reflexivity. Qed.
Lemma compression_type_src w : src_compression_type w = enum2 (Z.land (Z.shiftr w 10) 63).
Proof. unfold src_compression_type, enum2. src_eval. lit_right. reflexivity. Qed.
Lemma schema_version_src w : src_schema_version w = Ok (Z.land (Z.shiftr w 24) 255, Z.land (Z.shiftr w 16) 255, 0).
Proof. unfold src_schema_version. src_eval. lit_right. reflexivity. Qed.

Definition file_info_val (w : Z) : outcome val :=
  let? (major, minor, _) := src_schema_version w in
  Ok (VFileInfo (src_file_type w) (src_compression_type w) major minor).

Lemma file_info_from_source :
  (forall w, src_file_type w = enum2 (Z.land w 7)) /\
  (forall w, src_compression_type w = enum2 (Z.land (Z.shiftr w 10) 63)) /\
  (forall w, src_schema_version w = Ok (Z.land (Z.shiftr w 24) 255, Z.land (Z.shiftr w 16) 255, 0)) /\
  (forall bs, decode DFileInfo bs = let? w := parse_uint 4 bs in file_info_val w).
Proof.
  split; [exact file_type_src|]. split; [exact compression_type_src|]. split; [exact schema_version_src|].
  intros bs. unfold decode. destruct (parse_uint 4 bs) as [w| |]; cbn [bind]; [|reflexivity|reflexivity].
  unfold file_info_val. rewrite schema_version_src, file_type_src, compression_type_src. reflexivity.
Qed.

(* ---- is_bit_set! / set_bit! / unset_bit! and their users ------------------------------------------------------------- *)
Lemma config_from_source : forall w,
  src_cfg_is_multi_event_enabled w = Ok (cfg_is_multi_event_enabled w) /\
  src_cfg_set_multi_event_enable_bit w = Ok (cfg_set_multi_event_enable_bit w) /\
  src_cfg_disable_multi_event w = Ok (cfg_disable_multi_event w).
Proof.
  intros w. split; [|split].
  - unfold src_cfg_is_multi_event_enabled. src_eval. reflexivity.
  - unfold src_cfg_set_multi_event_enable_bit. src_eval. reflexivity.
  - unfold src_cfg_disable_multi_event. src_eval. reflexivity.
Qed.

Lemma capability_from_source : forall c,
  [src_devcap_is_user_defined_name_supported (c_cap c); src_devcap_is_family_name_supported (c_cap c);
   src_devcap_is_multi_event_supported (c_cap c); src_devcap_is_stacked_commands_supported (c_cap c);
   src_devcap_is_device_software_interface_version_supported (c_cap c)] = map Ok (device_capability_bits c) /\
  [src_u3vcap_is_sirm_available (c_cap c); src_u3vcap_is_eirm_available (c_cap c);
   src_u3vcap_is_iidc2_available (c_cap c)] = map Ok (u3v_capability_bits c).
Proof.
  intros c. split.
  - unfold src_devcap_is_user_defined_name_supported, src_devcap_is_family_name_supported,
      src_devcap_is_multi_event_supported, src_devcap_is_stacked_commands_supported,
      src_devcap_is_device_software_interface_version_supported. src_eval. reflexivity.
  - unfold src_u3vcap_is_sirm_available, src_u3vcap_is_eirm_available, src_u3vcap_is_iidc2_available.
    src_eval. reflexivity.
Qed.

Lemma capability_bits_src w :
  src_devcap_is_user_defined_name_supported w = Ok (bit_set w 0) /\
  src_devcap_is_family_name_supported w = Ok (bit_set w 8) /\
  src_devcap_is_multi_event_supported w = Ok (bit_set w 12) /\
  src_devcap_is_stacked_commands_supported w = Ok (bit_set w 13) /\
  src_devcap_is_device_software_interface_version_supported w = Ok (bit_set w 14) /\
  src_u3vcap_is_sirm_available w = Ok (bit_set w 0) /\ src_u3vcap_is_eirm_available w = Ok (bit_set w 1) /\
  src_u3vcap_is_iidc2_available w = Ok (bit_set w 2).
Proof.
  unfold src_devcap_is_user_defined_name_supported, src_devcap_is_family_name_supported,
    src_devcap_is_multi_event_supported, src_devcap_is_stacked_commands_supported,
    src_devcap_is_device_software_interface_version_supported, src_u3vcap_is_sirm_available,
    src_u3vcap_is_eirm_available, src_u3vcap_is_iidc2_available, bit_set.
  src_eval. repeat split.
Qed.

(* the capability gates of the optional registers are these observers *)
Lemma gates_from_source : forall w,
  (forall g b, In g [GUserDefinedName; GFamilyName; GDeviceSoftwareInterfaceVersion] ->
     g_gate (getter_desc g) = Some b ->
     In (Ok (bit_set w b)) [src_devcap_is_user_defined_name_supported w; src_devcap_is_family_name_supported w;
                            src_devcap_is_device_software_interface_version_supported w]) /\
  (forall g b, In g [GSirmAddress; GSirmLength; GEirmAddress; GEirmLength; GIidc2Address] ->
     g_gate (getter_desc g) = Some b ->
     In (Ok (bit_set w b)) [src_u3vcap_is_sirm_available w; src_u3vcap_is_eirm_available w;
                            src_u3vcap_is_iidc2_available w]).
Proof.
  intros w. destruct (capability_bits_src w) as (A0 & A8 & _ & _ & A14 & B0 & B1 & B2).
  rewrite A0, A8, A14, B0, B1, B2.
  split; intros g b Hg Hb; cbn [In] in Hg;
    repeat (destruct Hg as [<- | Hg]; [cbn [getter_desc g_gate] in Hb; injection Hb as <-; cbn [In]; auto 6|]);
    contradiction.
Qed.

(* ---- register_address and the read_register helpers ------------------------------------------------------------------- *)
Lemma register_address_src base off :
  src_register_address base off = if base + off <? 2 ^ 64 then Ok (base + off) else Err CE_INVALID_DEVICE.
Proof.
  unfold src_register_address. src_eval. unfold r_checked_add, r_ok_or. destruct (base + off <? 2 ^ 64); reflexivity.
Qed.

Lemma register_address_from_source : forall m base off,
  reg_address m base off = if src_adds_base m then src_register_address base off else Ok off.
Proof.
  intros m base off. destruct m; unfold reg_address, src_adds_base; try reflexivity; rewrite register_address_src;
    change (2 ^ 64) with 18446744073709551616; reflexivity.
Qed.

(* ---- ParseBytes for u3v::BusSpeed ---------------------------------------------------------------------------------- *)
Lemma bus_speed_src w :
  src_bus_speed w = if w =? 1 then Ok 0 else if w =? 2 then Ok 1 else if w =? 4 then Ok 2 else if w =? 8 then Ok 3
                    else if w =? 16 then Ok 4 else Err CE_INVALID_DEVICE.
Proof. unfold src_bus_speed. src_eval. repeat (destruct (w =? _); [reflexivity|]). reflexivity. Qed.

Lemma bus_speed_from_source :
  (forall w, src_bus_speed w = if w =? 1 then Ok 0 else if w =? 2 then Ok 1 else if w =? 4 then Ok 2
                               else if w =? 8 then Ok 3 else if w =? 16 then Ok 4 else Err CE_INVALID_DEVICE) /\
  (forall bs, decode DSpeed bs = let? w := parse_uint 4 bs in omap VSpeed (src_bus_speed w)).
Proof.
  split; [exact bus_speed_src|]. intros bs. unfold decode.
  destruct (parse_uint 4 bs) as [w| |]; cbn [bind]; [|reflexivity|reflexivity].
  rewrite bus_speed_src. repeat (destruct (w =? _); [reflexivity|]). reflexivity.
Qed.

(* ---- which register each translated getter reads, and with which decoder the model pairs it --------------------------- *)
Lemma getters_from_source :
  getter_desc GGencpVersion =
    {| g_map := src_gencp_version_map; g_reg := src_gencp_version_reg; g_dec := DVer32; g_gate := None |} /\
  getter_desc GU3vVersion =
    {| g_map := src_u3v_version_map; g_reg := src_u3v_version_reg; g_dec := DVer32; g_gate := None |} /\
  getter_desc GGenicamFileVersion =
    {| g_map := src_genicam_file_version_map; g_reg := src_genicam_file_version_reg; g_dec := DFileVer; g_gate := None |} /\
  getter_desc GPayloadSizeAlignment =
    {| g_map := src_payload_size_alignment_map; g_reg := src_payload_size_alignment_reg; g_dec := DAlign; g_gate := None |} /\
  getter_desc GIsStreamEnable =
    {| g_map := src_is_stream_enable_map; g_reg := src_is_stream_enable_reg; g_dec := DBool0; g_gate := None |}.
Proof. repeat split. Qed.

(* ---- non-vacuity -------------------------------------------------------------------------------------------------------- *)
Example decoders_examples :
  src_gencp_version 65537 = Ok (1, 1, 0) /\ src_gencp_version 4294901761 = Ok (65535, 1, 0) /\
  src_genicam_file_version 16909060 = Ok (1, 2, 772) /\
  src_payload_size_alignment (31 * 2 ^ 24 + 5) = Ok (2 ^ 31) /\ src_payload_size_alignment (32 * 2 ^ 24) = Err CE_INVALID_DEVICE /\
  src_is_stream_enable 3 = Ok true /\ src_is_stream_enable 2 = Ok false /\
  src_file_type 1 = Ok 1 /\ src_file_type 2 = Err CE_INVALID_DEVICE /\ src_compression_type 1024 = Ok 1 /\
  src_cfg_set_multi_event_enable_bit 0 = Ok 2 /\ src_cfg_disable_multi_event 7 = Ok 5 /\
  src_register_address (2 ^ 64 - 1) 1 = Err CE_INVALID_DEVICE /\ src_register_address (2 ^ 64 - 2) 1 = Ok (2 ^ 64 - 1) /\
  src_bus_speed 8 = Ok 3 /\ src_bus_speed 3 = Err CE_INVALID_DEVICE.
Proof. repeat split. Qed.
